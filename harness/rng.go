package main

// One PRNG (splitmix64) per case, derived from (VERIF_SEED, kind, case index), so a single
// case replays exactly and independently of sharding.

type Rand struct{ s uint64 }

func mix(x uint64) uint64 {
	x += 0x9e3779b97f4a7c15
	x = (x ^ (x >> 30)) * 0xbf58476d1ce4e5b9
	x = (x ^ (x >> 27)) * 0x94d049bb133111eb
	return x ^ (x >> 31)
}

func fnv(s string) uint64 {
	h := uint64(0xcbf29ce484222325)
	for i := 0; i < len(s); i++ {
		h ^= uint64(s[i])
		h *= 0x100000001b3
	}
	return h
}

func newRand(seed uint64, kind string, index int) *Rand {
	return &Rand{s: mix(seed*0x9e3779b97f4a7c15 ^ fnv(kind) ^ mix(uint64(index)))}
}

func (r *Rand) U64() uint64 { r.s += 0x9e3779b97f4a7c15; return mix(r.s) }

// Intn returns a value in [0,n).
func (r *Rand) Intn(n int) int {
	if n <= 0 {
		return 0
	}
	return int(r.U64() % uint64(n))
}

// Range returns a value in [lo,hi].
func (r *Rand) Range(lo, hi int) int { return lo + r.Intn(hi-lo+1) }
func (r *Rand) Bool() bool           { return r.U64()&1 == 1 }
func (r *Rand) Chance(num, den int) bool { return r.Intn(den) < num }
func (r *Rand) Byte() byte           { return byte(r.U64()) }

// Bytes returns n random bytes (non-nil, possibly empty).
func (r *Rand) Bytes(n int) []byte {
	b := make([]byte, n)
	for i := range b {
		b[i] = byte(r.U64())
	}
	return b
}

// Pick returns one of the given ints.
func (r *Rand) Pick(xs ...int) int { return xs[r.Intn(len(xs))] }

// Size returns a length biased towards small values and the given boundaries.
func (r *Rand) Size(max int, boundaries ...int) int {
	switch r.Intn(4) {
	case 0:
		if len(boundaries) > 0 {
			b := boundaries[r.Intn(len(boundaries))] + r.Range(-1, 1)
			if b < 0 {
				b = 0
			}
			if b > max {
				b = max
			}
			return b
		}
		return r.Intn(max + 1)
	case 1:
		return r.Intn(min(max, 8) + 1)
	case 2:
		return r.Intn(min(max, 64) + 1)
	default:
		return r.Intn(max + 1)
	}
}

func min(a, b int) int {
	if a < b {
		return a
	}
	return b
}
