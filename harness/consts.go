package main

// `verifharness consts -repo DIR`: the regenerated tie (DESIGN §4, T1).  Parses the non-test Go
// sources of the repository with go/parser + go/types (errors in unrelated declarations are
// tolerated), evaluates every package-level constant, and prints {file: {name: value}} as JSON.
// The check compares this with consts.expected.json, the values the model was written against.

import (
	"encoding/json"
	"flag"
	"fmt"
	"go/ast"
	"go/parser"
	"go/token"
	"go/types"
	"os"
	"path/filepath"
	"sort"
	"strings"
)

func cmdConsts(args []string) {
	fs := flag.NewFlagSet("consts", flag.ExitOnError)
	repo := fs.String("repo", "/repo", "repository root")
	fs.Parse(args)
	out := map[string]map[string]string{}
	var dirs []string
	filepath.Walk(*repo, func(p string, info os.FileInfo, err error) error {
		if err == nil && info.IsDir() {
			if strings.HasPrefix(info.Name(), ".") && p != *repo {
				return filepath.SkipDir
			}
			dirs = append(dirs, p)
		}
		return nil
	})
	sort.Strings(dirs)
	for _, d := range dirs {
		fset := token.NewFileSet()
		pkgs, err := parser.ParseDir(fset, d, func(fi os.FileInfo) bool {
			return !strings.HasSuffix(fi.Name(), "_test.go") && !strings.HasPrefix(fi.Name(), "verif_hooks")
		}, 0)
		if err != nil {
			continue
		}
		for _, pkg := range pkgs {
			var files []*ast.File
			for _, f := range pkg.Files {
				files = append(files, f)
			}
			conf := types.Config{Importer: fakeImporter{}, Error: func(error) {}, FakeImportC: true}
			info := &types.Info{Defs: map[*ast.Ident]types.Object{}}
			conf.Check(pkg.Name, fset, files, info) //nolint: errors tolerated
			for id, obj := range info.Defs {
				c, ok := obj.(*types.Const)
				if !ok {
					continue
				}
				rel, _ := filepath.Rel(*repo, fset.Position(id.Pos()).Filename)
				if out[rel] == nil {
					out[rel] = map[string]string{}
				}
				name := c.Name()
				if c.Parent() != c.Pkg().Scope() {
					// function-local constant (bit masks live here): qualify by the enclosing function
					name = enclosingFunc(files, id.Pos()) + ":" + name
				}
				for k := 2; ; k++ {
					if _, dup := out[rel][name]; !dup {
						break
					}
					name = fmt.Sprintf("%s#%d", strings.SplitN(name, "#", 2)[0], k)
				}
				out[rel][name] = c.Val().ExactString()
			}
		}
	}
	js, _ := json.MarshalIndent(out, "", " ")
	fmt.Println(string(js))
}

// fakeImporter resolves every import to an empty package: uses of imported names become type
// errors (tolerated), while constants written with literals still evaluate — and it is fast.
type fakeImporter struct{}

func (fakeImporter) Import(path string) (*types.Package, error) {
	name := path
	if i := strings.LastIndex(path, "/"); i >= 0 {
		name = path[i+1:]
	}
	p := types.NewPackage(path, name)
	p.MarkComplete()
	return p, nil
}

func enclosingFunc(files []*ast.File, pos token.Pos) string {
	for _, f := range files {
		for _, d := range f.Decls {
			fd, ok := d.(*ast.FuncDecl)
			if !ok || pos < fd.Pos() || pos > fd.End() {
				continue
			}
			name := fd.Name.Name
			if fd.Recv != nil && len(fd.Recv.List) > 0 {
				t := fd.Recv.List[0].Type
				if st, ok := t.(*ast.StarExpr); ok {
					t = st.X
				}
				if id, ok := t.(*ast.Ident); ok {
					name = id.Name + "." + name
				}
			}
			return name
		}
	}
	return "?"
}
