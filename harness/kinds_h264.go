package main

// H264 group: C10 (c10.rt, c10.dec), the H264 half of C15 (c15.h264), and the H264 parts of
// C08 / C09 (c08.h264, c09.h264).  Token formats: header of lean/Driver/Kinds/H264.lean.

import (
	"bytes"

	"github.com/pion/rtp/codecs"
)

// ---------------------------------------------------------------------------------------------
// NAL unit generators

// h264Body returns n bytes over an alphabet that makes start-code-like patterns frequent, with
// every 00 00 01 broken up (emulation prevention, as an encoder would) and a non-zero last byte.
func h264Body(r *Rand, n int) []byte {
	b := make([]byte, n)
	for i := range b {
		switch r.Intn(6) {
		case 0, 1:
			b[i] = 0
		case 2:
			b[i] = 1
		case 3:
			b[i] = byte(r.Pick(2, 3, 0x80, 0x40, 0xff, 0x1c, 0x18, 0x78))
		default:
			b[i] = r.Byte()
		}
	}
	return b
}

// h264Sanitize makes nal a legal Annex-B NAL unit in place: no 00 00 01 inside, last byte != 0.
func h264Sanitize(nal []byte) []byte {
	for i := 2; i < len(nal); i++ {
		if nal[i] == 1 && nal[i-1] == 0 && nal[i-2] == 0 {
			nal[i] = 3
		}
	}
	if n := len(nal); n > 1 && nal[n-1] == 0 {
		nal[n-1] = 0x80
	}
	return nal
}

// h264Nal returns a well-formed NAL unit of the given type (1..23) and total size (>= 2).
func h264Nal(r *Rand, typ, size int) []byte {
	if size < 2 {
		size = 2
	}
	nal := append([]byte{byte(r.Intn(4)<<5 | typ)}, h264Body(r, size-1)...)
	return h264Sanitize(nal)
}

// h264OtherType picks a type in 1..23 that is neither SPS, PPS, AUD nor filler.
func h264OtherType(r *Rand) int {
	for {
		t := r.Pick(1, 5, 5, 1, 6, r.Range(1, 23))
		if t != 7 && t != 8 && t != 9 && t != 12 {
			return t
		}
	}
}

type h264Unit struct {
	four bool
	nal  []byte
}

type h264Call struct {
	mtu   int
	bare  bool
	units []h264Unit
}

func (c *h264Call) buffer() []byte {
	if c.bare {
		if len(c.units) == 0 {
			return []byte{}
		}
		return append([]byte{}, c.units[0].nal...)
	}
	buf := []byte{}
	for _, u := range c.units {
		if u.four {
			buf = append(buf, 0, 0, 0, 1)
		} else {
			buf = append(buf, 0, 0, 1)
		}
		buf = append(buf, u.nal...)
	}
	return buf
}

func writeH264Res(o *Toks, out []byte, err error) {
	if err != nil {
		o.Err("other")
	} else {
		o.Ok().Bytes(out)
	}
}

// runH264RT executes one c10.rt case on the real code and writes input and observation tokens.
func runH264RT(c *Case, disable, avc bool, calls []h264Call) {
	c.I.Bool(disable).Bool(avc).Nat(len(calls))
	for _, cl := range calls {
		c.I.Nat(cl.mtu).Bool(cl.bare).Nat(len(cl.units))
		for _, u := range cl.units {
			c.I.Bool(u.four).Bytes(u.nal)
		}
	}
	pay := &codecs.H264Payloader{DisableStapA: disable}
	dep := &codecs.H264Packet{IsAVC: avc}
	var o Toks
	o.Ok().Nat(len(calls))
	// Half of the cases hand every payload to the depacketizer in ONE receive buffer that is reused
	// for the next packet (a window of a larger array, as a network read loop does); the other half
	// give each payload its own exactly-sized slice.  Losslessness must not depend on that.
	var rx []byte
	if c.R.Bool() {
		rx = make([]byte, 0, 1<<17)
		c.Tag("rx=one-reused-buffer")
	}
	// A third of the cases make all calls of the history from ONE input buffer that the caller reuses
	// (a capture loop reading each access unit into the same array), half of those also wipe it once
	// the call has returned; the others pass a fresh exactly-sized slice per call.
	var tx []byte
	txWipe := false
	if c.R.Chance(1, 3) {
		tx = make([]byte, 0, 4096)
		txWipe = c.R.Bool()
		c.Tag("tx=one-reused-buffer")
	}
	if try(func() {
		// payload the whole history first, depacketize afterwards (packets wait in a send queue while
		// the next access units are packetized): what a call returned must still be its units then
		all := make([][][]byte, 0, len(calls))
		for _, cl := range calls {
			if tx == nil {
				frags := pay.Payload(uint16(cl.mtu), cl.buffer())
				// the sender appends its trailer (auth tag, padding) to every payload in place: the
				// spare capacity of what was returned is the caller's to use
				scribbleSpare(frags...)
				all = append(all, frags)
				continue
			}
			// the caller's ONE input buffer: this call's bytes are read into it, the packets that
			// come back are handed on (copied out, as sending them does) and the buffer is reused
			b := cl.buffer()
			if len(b) > cap(tx) {
				tx = make([]byte, 0, 2*len(b))
			}
			in := append(tx[:0], b...)
			frags := pay.Payload(uint16(cl.mtu), in)
			scribbleSpare(frags...)
			sent := make([][]byte, len(frags))
			for i, f := range frags {
				sent[i] = append([]byte{}, f...)
			}
			all = append(all, sent)
			if txWipe {
				for i := range tx[:cap(tx)] {
					tx[:cap(tx)][i] = 0xEE
				}
			}
		}
		for _, frags := range all {
			o.Nat(len(frags))
			for _, f := range frags {
				head := dep.IsPartitionHead(f)
				var in []byte
				if rx != nil && len(f) < cap(rx)/2 {
					for i := range rx[:cap(rx)][:len(f)+64] {
						rx[:cap(rx)][i] = 0xEE // what the previous datagram left behind
					}
					in = append(rx[:0], f...)
				} else {
					in = append([]byte{}, f...)
				}
				out, err := dep.Unmarshal(in)
				o.Bytes(f).Bool(head)
				writeH264Res(&o, out, err)
			}
		}
	}) {
		c.O.Panic()
		return
	}
	c.O.Tok(o.String())
}

func h264SizeTag(c *Case, size, mtu int) {
	switch {
	case size <= mtu:
		c.Tag("single")
	case mtu <= 2:
		c.Tag("mtu<=2")
	case size-1 <= 2*(mtu-2):
		c.Tag("fua=2")
	default:
		c.Tag("fua>2")
	}
}

func genC10RT(x *Ctx) {
	// (a) grid: one unit, every size around the fragment boundaries, every MTU 3..64 and 1200;
	//     options cycle through the four combinations.
	mtus := []int{}
	for m := 3; m <= 64; m++ {
		mtus = append(mtus, m)
	}
	mtus = append(mtus, 1200)
	combo := 0
	for _, mtu := range mtus {
		k := mtu - 2
		sizes := map[int]bool{2: true, 3: true}
		for _, s := range []int{mtu - 1, mtu, mtu + 1, mtu + 2, k + 1, k + 2, 2*k + 1, 2*k + 2, 2*k, 3*k + 1, 3*k + 2, 3 * k} {
			if s >= 2 {
				sizes[s] = true
			}
		}
		for size := range sizes {
			size := size
			for _, bare := range []bool{false, true} {
				bare := bare
				cb := combo
				combo++
				x.Case(func(c *Case) {
					nal := h264Nal(c.R, h264OtherType(c.R), size)
					h264SizeTag(c, size, mtu)
					runH264RT(c, cb&1 == 1, cb&2 == 2, []h264Call{{mtu: mtu, bare: bare, units: []h264Unit{{four: cb&4 == 4, nal: nal}}}})
				})
			}
		}
	}
	// (b) grid: SPS, PPS, IDR at every MTU with STAP-A sizes straddling the MTU, in one call and
	//     split across two or three calls.
	for _, mtu := range mtus {
		for _, d := range []int{-2, -1, 0, 1, 2} {
			for split := 0; split < 4; split++ {
				mtu, d, split := mtu, d, split
				x.Case(func(c *Case) {
					// 5 + |sps| + |pps| = mtu + d
					tot := mtu + d - 5
					if tot < 4 {
						tot = 4
					}
					ls := c.R.Range(2, tot-2)
					sps := h264Nal(c.R, 7, ls)
					pps := h264Nal(c.R, 8, tot-ls)
					idr := h264Nal(c.R, 5, c.R.Pick(2, mtu-1, mtu, mtu+1, 2*mtu))
					u := func(n []byte) h264Unit { return h264Unit{four: c.R.Bool(), nal: n} }
					var calls []h264Call
					switch split {
					case 0:
						calls = []h264Call{{mtu: mtu, units: []h264Unit{u(sps), u(pps), u(idr)}}}
					case 1:
						calls = []h264Call{{mtu: mtu, units: []h264Unit{u(sps)}}, {mtu: mtu, units: []h264Unit{u(pps), u(idr)}}}
					case 2:
						calls = []h264Call{{mtu: mtu, units: []h264Unit{u(sps), u(pps)}}, {mtu: mtu, units: []h264Unit{u(idr)}}}
					default:
						calls = []h264Call{{mtu: mtu, bare: true, units: []h264Unit{u(sps)}}, {mtu: mtu, bare: true, units: []h264Unit{u(pps)}}, {mtu: mtu, bare: true, units: []h264Unit{u(idr)}}}
					}
					if 5+len(sps)+len(pps) <= mtu {
						c.Tag("stapa-fits")
					} else {
						c.Tag("stapa-too-big")
					}
					runH264RT(c, false, c.R.Bool(), calls)
				})
			}
		}
	}
	// (c) random well-formed streams: several calls, several units per call, paired parameter sets
	for i, n := 0, x.N(12000, 600000); i < n; i++ {
		x.Case(func(c *Case) {
			disable := c.R.Chance(1, 4)
			avc := c.R.Bool()
			baseMtu := c.R.Pick(c.R.Range(3, 64), c.R.Range(3, 64), c.R.Range(3, 16), c.R.Range(3, 64), 1200, c.R.Pick(1200, 1500, 65535, 100, 255, 256))
			ncalls := c.R.Range(1, 4)
			// the whole stream of units first, then cut into calls
			var stream [][]byte
			nunits := c.R.Range(1, 8)
			for len(stream) < nunits {
				switch r := c.R.Intn(10); {
				case r == 0:
					stream = append(stream, h264Nal(c.R, c.R.Pick(9, 12), c.R.Range(2, 6)))
				case r <= 2:
					tot := c.R.Pick(c.R.Range(4, 12), min(baseMtu, 1500)-5+c.R.Range(-1, 1), c.R.Range(4, 40))
					if tot < 4 {
						tot = 4
					}
					ls := c.R.Range(2, tot-2)
					if tot+5 <= baseMtu {
						c.Tag("pair-fits")
					} else {
						c.Tag("pair-too-big")
					}
					stream = append(stream, h264Nal(c.R, 7, ls))
					if c.R.Chance(1, 4) {
						stream = append(stream, h264Nal(c.R, c.R.Pick(9, 12), 2))
					}
					stream = append(stream, h264Nal(c.R, 8, tot-ls))
					if c.R.Chance(1, 4) {
						stream = append(stream, h264Nal(c.R, c.R.Pick(9, 12), 3))
					}
					stream = append(stream, h264Nal(c.R, h264OtherType(c.R), c.R.Size(min(3*baseMtu, 3000), baseMtu, 2*baseMtu-3)))
				default:
					stream = append(stream, h264Nal(c.R, h264OtherType(c.R), c.R.Size(min(4*baseMtu, 4000), baseMtu, 2*baseMtu-3, 3*baseMtu-5)))
				}
			}
			var calls []h264Call
			for ci := 0; ci < ncalls; ci++ {
				mtu := baseMtu
				if c.R.Chance(1, 5) {
					mtu = c.R.Pick(c.R.Range(3, 64), 1200, 3, 4)
				}
				calls = append(calls, h264Call{mtu: mtu})
			}
			// cut points: unit j goes to call cut[j], non-decreasing
			ci := 0
			for j, nal := range stream {
				for ci < ncalls-1 && c.R.Intn(len(stream)-j+1) < (ncalls-1-ci) {
					ci++
				}
				calls[ci].units = append(calls[ci].units, h264Unit{four: c.R.Bool(), nal: nal})
			}
			if ncalls > 1 {
				c.Tag("calls>1")
			}
			for k := range calls {
				if len(calls[k].units) == 1 && c.R.Chance(1, 3) {
					calls[k].bare = true
					c.Tag("bare")
				}
				for _, u := range calls[k].units {
					h264SizeTag(c, len(u.nal), calls[k].mtu)
				}
			}
			if disable {
				c.Tag("stapa-disabled")
			}
			if avc {
				c.Tag("avc")
			}
			runH264RT(c, disable, avc, calls)
		})
	}
	// (c'') quick tier too: ONE unit of 65535 / 65536 / 65537 / 70000 bytes in AVC framing at MTU 1200
	//       (the 4-byte length prefix has to carry bits 16..23: seed C10-r2-4) and one in Annex-B
	for _, n := range []int{65535, 65536, 65537, 70000} {
		for _, avc := range []bool{true, false} {
			n, avc := n, avc
			if !avc && n != 65536 {
				continue
			}
			x.Case(func(c *Case) {
				c.Tag("unit>=2^16")
				idr := h264Nal(c.R, 5, n)
				runH264RT(c, true, avc, []h264Call{{mtu: 1200, units: []h264Unit{{true, idr}}}})
			})
		}
	}
	// (c') units longer than 2^16 (AVC length prefix, uint16 STAP-A sizes that wrap), thorough only
	if x.Thorough() {
		for _, mtu := range []int{1200, 65535, 3} {
			for _, disable := range []bool{false, true} {
				mtu, disable := mtu, disable
				x.Case(func(c *Case) {
					c.Tag("huge")
					big := 65536 + c.R.Range(0, 600)
					if mtu == 3 {
						big = 3000
					}
					sps := h264Nal(c.R, 7, c.R.Pick(10, big))
					pps := h264Nal(c.R, 8, c.R.Pick(4, 65530))
					idr := h264Nal(c.R, 5, big)
					runH264RT(c, disable, c.R.Bool(), []h264Call{{mtu: mtu, units: []h264Unit{{true, sps}, {false, pps}, {true, idr}}}})
				})
			}
		}
	}
	// (d) streams outside the hypotheses (correspondence and no-panic only): unpaired parameter
	//     sets, types 0 and 24..31, one-byte units, trailing zeros, embedded start codes, MTU 0..2
	for i, n := 0, x.N(8000, 200000); i < n; i++ {
		x.Case(func(c *Case) {
			c.Tag("outside-wf")
			disable := c.R.Chance(1, 4)
			avc := c.R.Bool()
			ncalls := c.R.Range(1, 4)
			var calls []h264Call
			for ci := 0; ci < ncalls; ci++ {
				cl := h264Call{mtu: c.R.Pick(c.R.Range(0, 8), c.R.Range(0, 40), 1200)}
				for j, m := 0, c.R.Range(0, 4); j < m; j++ {
					var nal []byte
					switch c.R.Intn(6) {
					case 0:
						nal = h264Body(c.R, c.R.Range(0, 6)) // anything, possibly empty
					case 1:
						nal = h264Nal(c.R, c.R.Pick(7, 8, 7, 8, 9, 12), c.R.Range(2, 12))
					case 2:
						nal = append([]byte{byte(c.R.Pick(0, 24, 28, 29, 31, 0x80|5, 0xe7))}, h264Body(c.R, c.R.Range(0, 12))...)
					case 3:
						nal = append(h264Nal(c.R, c.R.Range(1, 23), c.R.Range(2, 30)), make([]byte, c.R.Range(1, 3))...)
					default:
						nal = h264Nal(c.R, c.R.Range(1, 23), c.R.Size(60, cl.mtu))
					}
					cl.units = append(cl.units, h264Unit{four: c.R.Bool(), nal: nal})
				}
				if len(cl.units) == 1 && c.R.Chance(1, 3) {
					cl.bare = true
				}
				calls = append(calls, cl)
			}
			runH264RT(c, disable, avc, calls)
		})
	}
	// (c3) quick tier too: a held-back SPS or PPS of 2^16 … 2^16+100 bytes (the STAP-A size fields and
	//      any 16-bit length arithmetic wrap there) and an ordinary partner, then a slice; in one call
	//      or one unit per call; plus an ordinary unit of that size behind an ordinary pair
	for _, mtu := range []int{1200, 65535} {
		for which := 0; which < 3; which++ {
			for _, d := range []int{0, 1, -1} {
				mtu, which, d := mtu, which, d
				x.Case(func(c *Case) {
					big := 65536 + d
					if d < 0 {
						big = 65536 + c.R.Range(2, 100)
					}
					ls, lp, li := c.R.Range(2, 40), c.R.Range(2, 40), c.R.Pick(2, 30, mtu-1, mtu+1)
					switch which {
					case 0:
						ls = big
						c.Tag("sps>=2^16")
					case 1:
						lp = big
						c.Tag("pps>=2^16")
					default:
						li = big
						c.Tag("unit>=2^16")
					}
					sps, pps, idr := h264Nal(c.R, 7, ls), h264Nal(c.R, 8, lp), h264Nal(c.R, h264OtherType(c.R), li)
					u := func(n []byte) h264Unit { return h264Unit{four: c.R.Bool(), nal: n} }
					calls := []h264Call{{mtu: mtu, units: []h264Unit{u(sps), u(pps), u(idr)}}}
					if c.R.Bool() {
						calls = []h264Call{{mtu: mtu, units: []h264Unit{u(sps)}}, {mtu: mtu, units: []h264Unit{u(pps)}}, {mtu: mtu, units: []h264Unit{u(idr)}}}
						c.Tag("calls>1")
					}
					runH264RT(c, false, c.R.Bool(), calls)
				})
			}
		}
	}
}

// ---------------------------------------------------------------------------------------------
// an RFC 6184 encoder written from the RFC text (sections 5.6, 5.7.1, 5.8), independent of
// pion's payloader: single NAL unit packet, STAP-A, FU-A with arbitrary cut points.

type rfc6184Item struct {
	kind   byte     // 's' single, 'a' STAP-A, 'f' FU-A
	nals   [][]byte // 's': one, 'a': any number
	hdr    byte     // 'f': the NAL unit header octet; 'a': 0 = header per RFC, else the header to send
	chunks [][]byte // 'f': the NAL unit payload, cut
}

func rfc6184Encode(it rfc6184Item) [][]byte {
	switch it.kind {
	case 's':
		return [][]byte{append([]byte{}, it.nals[0]...)}
	case 'a':
		// STAP-A NAL HDR: F = OR of all F bits, NRI = max of all NRI, Type = 24
		f, nri := 0, 0
		for _, n := range it.nals {
			if len(n) > 0 {
				if int(n[0]>>7) > f {
					f = int(n[0] >> 7)
				}
				if int(n[0]>>5)&3 > nri {
					nri = int(n[0]>>5) & 3
				}
			}
		}
		p := []byte{byte(f<<7 | nri<<5 | 24)}
		if it.hdr != 0 {
			p[0] = it.hdr // a sender that does not follow the F/NRI rule (receivers must not care)
		}
		for _, n := range it.nals {
			p = append(p, byte(len(n)/256), byte(len(n)%256))
			p = append(p, n...)
		}
		return [][]byte{p}
	default:
		var out [][]byte
		ind := it.hdr&0xE0 | 28 // F and NRI of the unit, Type = 28
		for i, ch := range it.chunks {
			h := it.hdr % 32 // S E R Type
			if i == 0 {
				h += 128
			}
			if i == len(it.chunks)-1 {
				h += 64
			}
			out = append(out, append([]byte{ind, h}, ch...))
		}
		return out
	}
}

func writeRfc6184Item(t *Toks, it rfc6184Item) {
	switch it.kind {
	case 's':
		t.Tok("s").Bytes(it.nals[0])
	case 'a':
		t.Tok("a").Nat(int(rfc6184Encode(it)[0][0])).Bool(it.hdr == 0).BytesList(it.nals)
	default:
		t.Tok("f").Nat(int(it.hdr)).BytesList(it.chunks)
	}
}

// h264CutBytes cuts b into exactly n consecutive chunks (possibly empty ones).
func h264CutBytes(r *Rand, b []byte, n int) [][]byte {
	cuts := make([]int, n+1)
	cuts[n] = len(b)
	for i := 1; i < n; i++ {
		cuts[i] = r.Intn(len(b) + 1)
	}
	// insertion sort of the inner cut points
	for i := 1; i < n; i++ {
		for j := i; j > 1 && cuts[j-1] > cuts[j]; j-- {
			cuts[j-1], cuts[j] = cuts[j], cuts[j-1]
		}
	}
	out := make([][]byte, n)
	for i := 0; i < n; i++ {
		out[i] = append([]byte{}, b[cuts[i]:cuts[i+1]]...)
	}
	return out
}

// randomPlan builds a random well-formed packetisation plan.
func randomH264Plan(r *Rand, nitems int) []rfc6184Item {
	var plan []rfc6184Item
	for i := 0; i < nitems; i++ {
		switch r.Intn(3) {
		case 0:
			// a single NAL unit packet carries any type 1..23, any F/NRI, one byte or more
			n := append([]byte{byte(r.Intn(8)<<5 | r.Range(1, 23))}, h264Body(r, r.Size(40, 1, 2))...)
			plan = append(plan, rfc6184Item{kind: 's', nals: [][]byte{n}})
		case 1:
			k := r.Pick(0, 1, 2, 2, 3, 5)
			it := rfc6184Item{kind: 'a', nals: [][]byte{}}
			if r.Chance(1, 4) {
				it.hdr = byte(r.Intn(8)<<5 | 24)
			}
			for j := 0; j < k; j++ {
				sz := r.Size(30, 1, 2)
				if r.Chance(1, 40) {
					sz = r.Pick(255, 256, 257, 0)
				}
				n := h264Body(r, sz)
				if sz > 0 {
					n[0] = byte(r.Intn(8)<<5 | r.Range(1, 23))
				}
				it.nals = append(it.nals, n)
			}
			plan = append(plan, it)
		default:
			hdr := byte(r.Intn(4)<<5 | r.Pick(r.Range(1, 23), r.Range(0, 31), 5, 1))
			body := h264Body(r, r.Size(60, 0, 1, 2))
			plan = append(plan, rfc6184Item{kind: 'f', hdr: hdr, chunks: h264CutBytes(r, body, r.Pick(2, 2, 3, 4, r.Range(2, 9)))})
		}
	}
	return plan
}

// observeH264Pkts feeds payloads to dep and writes `<n> (<payload> <head> <res>)*`.
func observeH264Pkts(o *Toks, dep *codecs.H264Packet, pkts [][]byte) {
	o.Nat(len(pkts))
	for _, f := range pkts {
		head := dep.IsPartitionHead(f)
		out, err := dep.Unmarshal(append([]byte{}, f...))
		o.Bytes(f).Bool(head)
		writeH264Res(o, out, err)
	}
}

func genC10Dec(x *Ctx) {
	run := func(c *Case, avc bool, plan []rfc6184Item) {
		c.I.Bool(avc).Nat(len(plan))
		var pkts [][]byte
		for _, it := range plan {
			writeRfc6184Item(&c.I, it)
			pkts = append(pkts, rfc6184Encode(it)...)
			c.Tag(string(it.kind))
		}
		dep := &codecs.H264Packet{IsAVC: avc}
		var o Toks
		o.Ok()
		if try(func() { observeH264Pkts(&o, dep, pkts) }) {
			c.O.Panic()
			return
		}
		c.O.Tok(o.String())
	}
	// grid: every single-unit type, every FU-A type and NRI, STAP-A of 0..4 units
	for typ := 0; typ < 32; typ++ {
		for nri := 0; nri < 4; nri++ {
			for _, avc := range []bool{false, true} {
				typ, nri, avc := typ, nri, avc
				x.Case(func(c *Case) {
					hdr := byte(nri<<5 | typ)
					plan := []rfc6184Item{{kind: 'f', hdr: hdr, chunks: h264CutBytes(c.R, h264Body(c.R, c.R.Range(0, 9)), c.R.Range(2, 4))}}
					if typ >= 1 && typ <= 23 {
						plan = append(plan, rfc6184Item{kind: 's', nals: [][]byte{append([]byte{hdr}, h264Body(c.R, c.R.Range(0, 5))...)}})
					}
					run(c, avc, plan)
				})
			}
		}
	}
	for k := 0; k <= 4; k++ {
		for _, avc := range []bool{false, true} {
			k, avc := k, avc
			x.Case(func(c *Case) {
				it := rfc6184Item{kind: 'a', nals: [][]byte{}}
				for j := 0; j < k; j++ {
					it.nals = append(it.nals, append([]byte{byte(c.R.Intn(4)<<5 | c.R.Range(1, 23))}, h264Body(c.R, c.R.Range(0, 6))...))
				}
				run(c, avc, []rfc6184Item{it})
			})
		}
	}
	for i, n := 0, x.N(20000, 400000); i < n; i++ {
		x.Case(func(c *Case) {
			run(c, c.R.Bool(), randomH264Plan(c.R, c.R.Range(1, 6)))
		})
	}
	// plans outside the hypotheses: forbidden bit in an FU-A unit, a single fragment, bad single types
	for i, n := 0, x.N(1000, 50000); i < n; i++ {
		x.Case(func(c *Case) {
			c.Tag("outside-wf")
			plan := randomH264Plan(c.R, c.R.Range(1, 4))
			switch c.R.Intn(3) {
			case 0:
				plan = append(plan, rfc6184Item{kind: 'f', hdr: byte(0x80 | c.R.Intn(128)), chunks: h264CutBytes(c.R, h264Body(c.R, c.R.Range(0, 9)), c.R.Range(2, 4))})
			case 1:
				plan = append(plan, rfc6184Item{kind: 'f', hdr: byte(c.R.Intn(128)), chunks: h264CutBytes(c.R, h264Body(c.R, c.R.Range(0, 9)), 1)})
			default:
				plan = append(plan, rfc6184Item{kind: 's', nals: [][]byte{append([]byte{byte(c.R.Pick(0, 24, 25, 28, 29, 30, 31))}, h264Body(c.R, c.R.Range(0, 5))...)}})
			}
			if c.R.Bool() {
				plan = append(plan, randomH264Plan(c.R, 1)...)
			}
			run(c, c.R.Bool(), plan)
		})
	}
}

// ---------------------------------------------------------------------------------------------
// C15, H264 half

// h264Frame produces the payloads of one intact frame, either through pion's payloader or
// through the independent encoder.
func h264Frame(r *Rand, maxPkts int) [][]byte {
	for {
		var pkts [][]byte
		if r.Bool() {
			mtu := r.Pick(r.Range(3, 12), r.Range(3, 30), 5)
			pay := &codecs.H264Payloader{DisableStapA: r.Chance(1, 3)}
			call := h264Call{mtu: mtu}
			for j, m := 0, r.Range(1, 3); j < m; j++ {
				if r.Chance(1, 4) {
					call.units = append(call.units, h264Unit{r.Bool(), h264Nal(r, 7, r.Range(2, 6))}, h264Unit{r.Bool(), h264Nal(r, 8, r.Range(2, 5))})
				}
				call.units = append(call.units, h264Unit{r.Bool(), h264Nal(r, h264OtherType(r), r.Size(3*mtu, mtu, 2*mtu-3))})
			}
			pkts = pay.Payload(uint16(mtu), call.buffer())
		} else {
			for _, it := range randomH264Plan(r, r.Range(1, 3)) {
				pkts = append(pkts, rfc6184Encode(it)...)
			}
		}
		if len(pkts) >= 1 && len(pkts) <= maxPkts {
			return pkts
		}
	}
}

func runH264C15(c *Case, avc bool, pre, frame [][]byte) {
	c.I.Bool(avc).BytesList(pre).BytesList(frame)
	var o Toks
	o.Ok()
	if try(func() {
		dep := &codecs.H264Packet{IsAVC: avc}
		for _, p := range pre {
			dep.Unmarshal(append([]byte{}, p...)) //nolint
		}
		o.Nat(len(frame))
		for _, p := range frame {
			out, err := dep.Unmarshal(append([]byte{}, p...))
			writeH264Res(&o, out, err)
		}
		fresh := &codecs.H264Packet{IsAVC: avc}
		o.Nat(len(frame))
		for _, p := range frame {
			out, err := fresh.Unmarshal(append([]byte{}, p...))
			writeH264Res(&o, out, err)
		}
	}) {
		c.O.Panic()
		return
	}
	c.O.Tok(o.String())
}

// h264Garbage returns an arbitrary payload biased towards FU-A indicators.
func h264Garbage(r *Rand) []byte {
	n := r.Size(12, 0, 1, 2)
	b := r.Bytes(n)
	if n > 0 && r.Chance(2, 3) {
		b[0] = byte(r.Intn(8)<<5 | r.Pick(28, 28, 28, 24, 29, 1, 0))
	}
	if n > 1 && r.Bool() {
		b[1] = byte(r.Intn(4)<<6 | r.Intn(32))
	}
	return b
}

func genC15H264(x *Ctx) {
	// (a) every delivery subset of the packets of a preceding frame, then an intact frame
	nframes := x.N(60, 600)
	for fi := 0; fi < nframes; fi++ {
		maxp := 10
		if !x.Thorough() && fi%6 != 0 {
			maxp = 7
		}
		// the two frames are a function of (seed, kind, fi) only, so that every subset case of
		// one frame pair sees the same frames
		fr := newRand(x.Seed, x.Kind+"/frame", fi)
		prev := h264Frame(fr, maxp)
		next := h264Frame(fr, 12)
		avc := fr.Bool()
		for mask := 0; mask < 1<<len(prev); mask++ {
			mask := mask
			x.Case(func(c *Case) {
				var pre [][]byte
				for i, p := range prev {
					if mask>>i&1 == 1 {
						pre = append(pre, p)
					}
				}
				if mask == 0 {
					c.Trivial()
				}
				c.Tag("subset")
				runH264C15(c, avc, pre, next)
			})
		}
	}
	// (a') a LARGE abandoned unit: the fragments of a unit whose end never arrives, totalling K-2
	//      bytes for K = 2^16 and 2^20 (quick) and 2^16 … 2^20 (thorough), then an intact fragmented frame:
	//      a bound on the reassembly buffer near K must not make the next start fragment fail or
	//      lose bytes (seed C15-r2-3 used K = 1 MiB)
	ks := []int{1 << 16, 1 << 20}
	if x.Thorough() {
		ks = []int{1 << 16, 1 << 17, 1 << 18, 1 << 19, 1 << 20}
	}
	for _, k := range ks {
		k := k
		x.Case(func(c *Case) {
			var pre [][]byte
			left := k - 2
			first := true
			for left > 0 {
				n := 1198
				if n > left {
					n = left
				}
				hdr := byte(0x05)
				if first {
					hdr |= 0x80
					first = false
				}
				pre = append(pre, append([]byte{0x7c, hdr}, c.R.Bytes(n)...))
				left -= n
			}
			c.Tag("large-abandoned-unit")
			// the intact frame begins with its own start fragment (a unit in three FU-A fragments),
			// followed by a single NAL unit
			next := [][]byte{append([]byte{0x7c, 0x85}, c.R.Bytes(40)...), append([]byte{0x7c, 0x05}, c.R.Bytes(40)...),
				append([]byte{0x7c, 0x45}, c.R.Bytes(7)...), append([]byte{0x41}, c.R.Bytes(9)...)}
			runH264C15(c, c.R.Bool(), pre, next)
		})
	}
	// (b) arbitrary byte strings as prehistory, then an intact frame
	for i, n := 0, x.N(15000, 300000); i < n; i++ {
		x.Case(func(c *Case) {
			var pre [][]byte
			for j, m := 0, c.R.Range(0, 6); j < m; j++ {
				pre = append(pre, h264Garbage(c.R))
			}
			c.Tag("garbage")
			runH264C15(c, c.R.Bool(), pre, h264Frame(c.R, 12))
		})
	}
	// (c) frames that are not self-starting (outside the hypothesis; correspondence only)
	for i, n := 0, x.N(1500, 100000); i < n; i++ {
		x.Case(func(c *Case) {
			var pre, frame [][]byte
			for j, m := 0, c.R.Range(0, 4); j < m; j++ {
				pre = append(pre, h264Garbage(c.R))
			}
			for j, m := 0, c.R.Range(1, 5); j < m; j++ {
				if c.R.Bool() {
					frame = append(frame, h264Garbage(c.R))
				} else {
					frame = append(frame, h264Frame(c.R, 4)...)
				}
			}
			c.Tag("arbitrary-frame")
			runH264C15(c, c.R.Bool(), pre, frame)
		})
	}
}

// ---------------------------------------------------------------------------------------------
// C08, H264 payloader

func h264PayInput(r *Rand, mtu int) []byte {
	switch r.Intn(8) {
	case 0:
		return nil
	case 1:
		return []byte{}
	case 2:
		return r.Bytes(r.Size(80, mtu, 2*mtu))
	case 3:
		return h264Body(r, r.Size(80, mtu, 2*mtu))
	default:
		// Annex-B stream of mostly sensible units, start codes of both lengths, sometimes
		// leading garbage or zero padding
		var buf []byte
		if r.Chance(1, 6) {
			buf = append(buf, h264Body(r, r.Range(1, 4))...)
		}
		for j, m := 0, r.Range(1, 5); j < m; j++ {
			if r.Bool() {
				buf = append(buf, 0)
			}
			buf = append(buf, 0, 0, 1)
			typ := r.Pick(7, 8, 7, 8, 5, 1, 9, 12, r.Range(0, 31))
			sz := r.Size(3*mtu+4, mtu, mtu-1, 2*mtu-3)
			if sz > 0 {
				nal := append([]byte{byte(r.Intn(8)<<5 | typ)}, h264Body(r, sz-1)...)
				buf = append(buf, nal...)
			}
		}
		return buf
	}
}

func genC08H264(x *Ctx) {
	// DisableStapA is a public field: the flag in force is part of every call.  `toggle` makes it
	// change in the middle of a history (pending SPS/PPS then stay pending while it is set).
	run := func(c *Case, disable bool, calls []PayCall) {
		flags := make([]bool, len(calls))
		toggle := c.R.Chance(1, 6) && len(calls) > 1
		for k := range flags {
			flags[k] = disable
			if toggle && c.R.Bool() {
				flags[k] = !disable
			}
		}
		if toggle {
			c.Tag("stapa-toggled")
		}
		c.I.Nat(len(flags))
		for _, f := range flags {
			c.I.Bool(f)
		}
		writeCalls(&c.I, calls)
		p, twin := &codecs.H264Payloader{}, &codecs.H264Payloader{}
		c.O.Nat(len(calls))
		recs := make([]*payRecord, 0, len(calls))
		for k, cl := range calls {
			p.DisableStapA, twin.DisableStapA = flags[k], flags[k]
			recs = append(recs, observePayDeferred(p, twin, cl.MTU, cl.Input))
		}
		for _, r := range recs { // fragments of earlier calls must survive the later calls
			r.stillStable()
			r.write(&c.O)
		}
	}
	// (a) grid: MTU 0..20 exhaustively (21..64 sampled, 1200, 1500, 65535) × SPS,PPS,IDR histories
	//     whose STAP-A straddles the MTU, in one buffer and over three calls
	mtus := []int{}
	for m := 0; m <= 20; m++ {
		mtus = append(mtus, m)
	}
	mtus = append(mtus, 21, 22, 31, 32, 33, 47, 63, 64, 1200, 1500, 65535)
	for _, mtu := range mtus {
		for _, disable := range []bool{false, true} {
			for variant := 0; variant < 6; variant++ {
				mtu, disable, variant := mtu, disable, variant
				x.Case(func(c *Case) {
					m := mtu
					if m > 80 {
						m = 80
					}
					tot := m - 5 + c.R.Range(-1, 1)
					if tot < 4 {
						tot = 4
					}
					ls := c.R.Range(2, tot-2)
					sps := h264Nal(c.R, 7, ls)
					pps := h264Nal(c.R, 8, tot-ls)
					idr := h264Nal(c.R, 5, c.R.Pick(2, m, m+1, 2*m+1))
					sc := func() []byte {
						if c.R.Bool() {
							return []byte{0, 0, 0, 1}
						}
						return []byte{0, 0, 1}
					}
					cat := func(ns ...[]byte) []byte {
						var b []byte
						for _, n := range ns {
							b = append(b, sc()...)
							b = append(b, n...)
						}
						return b
					}
					var calls []PayCall
					switch variant {
					case 0:
						calls = []PayCall{{uint16(mtu), cat(sps, pps, idr)}}
					case 1:
						calls = []PayCall{{uint16(mtu), cat(sps)}, {uint16(mtu), cat(pps)}, {uint16(mtu), cat(idr)}}
					case 2:
						calls = []PayCall{{uint16(mtu), sps}, {uint16(mtu), pps}, {uint16(mtu), idr}, {uint16(mtu), idr}}
					case 3:
						calls = []PayCall{{uint16(mtu), cat(sps, pps)}, {uint16(mtu), nil}, {uint16(mtu), []byte{}}, {uint16(mtu), cat(idr, sps)}, {uint16(mtu), cat(pps, idr)}}
					case 4:
						calls = []PayCall{{uint16(mtu), nil}, {uint16(mtu), []byte{}}, {uint16(mtu), []byte{0, 0, 1}}, {uint16(mtu), []byte{0, 0, 0, 1}}, {uint16(mtu), []byte{0, 0, 1, 0, 0, 1}}}
					default:
						calls = []PayCall{{uint16(mtu), h264PayInput(c.R, m)}, {uint16(mtu), h264PayInput(c.R, m)}, {uint16(mtu), h264PayInput(c.R, m)}}
					}
					if mtu <= 2 {
						c.Tag("mtu<=2")
					}
					run(c, disable, calls)
				})
			}
		}
	}
	// (a2) held-back parameter sets whose STAP-A size 1+2+len(SPS)+2+len(PPS) lies around 2^16 (a sum that
	//      no longer fits the 16 bits of an MTU or of a STAP-A length field), in one buffer and over three
	//      calls, at an ordinary MTU and at the largest ones  (seed C08-r8-1)
	for _, mtu := range []int{1200, 65534, 65535} {
		for _, tot := range []int{65525, 65530, 65531, 65535, 65536, 65537, 65541, 65600} {
			for variant := 0; variant < 3; variant++ {
				mtu, tot, variant := mtu, tot, variant
				if x.Tier != "thorough" && variant == 2 && mtu != 65535 {
					continue
				}
				x.Case(func(c *Case) {
					c.Tag("stapa-size-around-2^16")
					small := c.R.Range(2, 40)
					var sps, pps []byte
					if variant == 1 {
						sps, pps = h264Nal(c.R, 7, small), h264Nal(c.R, 8, tot-5-small)
					} else {
						sps, pps = h264Nal(c.R, 7, tot-5-small), h264Nal(c.R, 8, small)
					}
					idr := h264Nal(c.R, 5, c.R.Range(2, 50))
					cat := func(ns ...[]byte) []byte {
						var b []byte
						for _, n := range ns {
							b = append(b, 0, 0, 1)
							b = append(b, n...)
						}
						return b
					}
					if variant == 2 {
						run(c, false, []PayCall{{uint16(mtu), cat(sps)}, {uint16(mtu), cat(pps)}, {uint16(mtu), cat(idr)}})
					} else {
						run(c, false, []PayCall{{uint16(mtu), cat(sps, pps, idr)}})
					}
				})
			}
		}
	}
	// (b) random histories
	for i, n := 0, x.N(20000, 400000); i < n; i++ {
		x.Case(func(c *Case) {
			disable := c.R.Chance(1, 3)
			base := c.R.Pick(c.R.Range(0, 20), c.R.Range(0, 20), c.R.Range(21, 64), 1200, 1500, 65535)
			var calls []PayCall
			for j, m := 0, c.R.Range(1, 6); j < m; j++ {
				mtu := base
				if c.R.Chance(1, 4) {
					mtu = c.R.Pick(c.R.Range(0, 20), c.R.Range(21, 64), 1200, 65535)
				}
				mm := mtu
				if mm > 80 {
					mm = 80
				}
				calls = append(calls, PayCall{uint16(mtu), h264PayInput(c.R, mm)})
			}
			if disable {
				c.Tag("stapa-disabled")
			}
			run(c, disable, calls)
		})
	}
}

// ---------------------------------------------------------------------------------------------
// C09, H264 depacketizer

type h264DepRes struct {
	panicked bool
	err      bool
	out      []byte
}

func h264Unmarshal(d *codecs.H264Packet, p []byte) h264DepRes {
	var r h264DepRes
	var err error
	var out []byte
	r.panicked = try(func() { out, err = d.Unmarshal(p) })
	r.err = err != nil
	if !r.panicked && !r.err {
		r.out = append([]byte{}, out...)
	}
	return r
}

func (a h264DepRes) same(b h264DepRes) bool {
	return a.panicked == b.panicked && a.err == b.err && bytes.Equal(a.out, b.out)
}

// runH264C09 feeds payloads to ONE receiver; mirrors Pred.C09.DepObs with M = IsAVC.
func runH264C09(c *Case, avc bool, payloads [][]byte) { runH264C09Z(c, false, avc, payloads) }

// runH264C09Z: zero = SetZeroAllocation(true), where Unmarshal hands the payload back.
func runH264C09Z(c *Case, zero, avc bool, payloads [][]byte) {
	if zero {
		c.Tag("zero-allocation")
	}
	mk := func() *codecs.H264Packet {
		d := &codecs.H264Packet{IsAVC: avc}
		d.SetZeroAllocation(zero)
		return d
	}
	c.I.Bool(zero).Bool(avc).Nat(len(payloads))
	for _, p := range payloads {
		c.I.OBytes(p)
	}
	dep := mk()
	twin := mk()
	c.O.Nat(len(payloads))
	for _, p := range payloads {
		buf := cloneBytes(p)
		r := h264Unmarshal(dep, buf)
		var head, t0, t1 bool
		aux := try(func() {
			head = dep.IsPartitionHead(buf)
			t0 = dep.IsPartitionTail(false, buf)
			t1 = dep.IsPartitionTail(true, buf)
		})
		md := dep.IsAVC
		fresh := mk()
		fr := h264Unmarshal(fresh, cloneBytes(p))
		tr := h264Unmarshal(twin, cloneBytes(p))
		// the caller reuses its buffer: everything the receiver still references changes
		for i := range buf {
			buf[i] ^= 0xA5
		}
		switch {
		case r.panicked:
			c.O.Panic()
		case r.err:
			c.O.Err("other")
		default:
			c.O.Ok().Bytes(r.out)
		}
		c.O.Bool(md).Bool(head).Bool(t0).Bool(t1).Bool(aux).Bool(r.same(fr) && md == fresh.IsAVC).Bool(r.same(tr))
	}
}

// h264MutatedPayload returns a valid payload (from the payloader or the independent encoder)
// with a random mutation: truncation, bit flip, extension, or none.
func h264MutatedPayload(r *Rand) []byte {
	fr := h264Frame(r, 12)
	p := append([]byte{}, fr[r.Intn(len(fr))]...)
	switch r.Intn(5) {
	case 0:
		p = p[:r.Intn(len(p)+1)]
	case 1:
		if len(p) > 0 {
			p[r.Intn(min(len(p), 3))] ^= 1 << uint(r.Intn(8))
		}
	case 2:
		p = append(p, r.Bytes(r.Range(1, 3))...)
	}
	return p
}

func genC09H264(x *Ctx) {
	// (0) a few short literal histories first (the FU-A state machine step by step)
	for _, avc := range []bool{false, true} {
		for _, seq := range [][][]byte{
			{nil, {}, {0x7c, 0x85, 1, 2}, {0x7c, 0x05, 3}, {0x7c, 0x45, 4}},
			{{0x7c, 0x85, 1, 2}, {0x7c, 0x85, 7}, {0x7c, 0x45, 9}, {0x7c, 0x45}},
			{{0x7c}, {0x7c, 0x05, 1}, {0x65, 1}, {0x7c, 0x45, 2}, {0x18}, {0x18, 0, 1, 9}, {0x18, 0, 2, 9}},
			{{0x78, 0, 2, 0x67, 1, 0, 1, 0x68}, {0x1d, 0x80}, {0x00}, {0x7c, 0xc5, 6}},
		} {
			avc, seq := avc, seq
			x.Case(func(c *Case) {
				c.Tag("literal")
				runH264C09(c, avc, seq)
			})
		}
	}
	// (a) every string of at most 2 bytes (3 in the thorough tier), nil and empty, in sequences
	var all [][]byte
	all = append(all, nil, []byte{})
	for a := 0; a < 256; a++ {
		all = append(all, []byte{byte(a)})
	}
	for a := 0; a < 256; a++ {
		for b := 0; b < 256; b++ {
			all = append(all, []byte{byte(a), byte(b)})
		}
	}
	const chunk = 64
	for _, avc := range []bool{false, true} {
		for lo := 0; lo < len(all); lo += chunk {
			lo, avc := lo, avc
			x.Case(func(c *Case) {
				hi := lo + chunk
				if hi > len(all) {
					hi = len(all)
				}
				c.Tag("exhaustive<=2")
				runH264C09(c, avc, all[lo:hi])
			})
		}
	}
	if x.Thorough() {
		for a := 0; a < 256; a++ {
			for b := 0; b < 256; b++ {
				a, b := a, b
				x.Case(func(c *Case) {
					seq := make([][]byte, 256)
					for d := 0; d < 256; d++ {
						seq[d] = []byte{byte(a), byte(b), byte(d)}
					}
					c.Tag("exhaustive=3")
					runH264C09(c, (a+b)&1 == 1, seq)
				})
			}
		}
	}
	// (b) the same short strings in random order (state carried between arbitrary neighbours)
	for i, n := 0, x.N(1500, 60000); i < n; i++ {
		x.Case(func(c *Case) {
			var seq [][]byte
			for j, m := 0, c.R.Range(1, 40); j < m; j++ {
				switch c.R.Intn(8) {
				case 0:
					seq = append(seq, nil)
				case 1:
					seq = append(seq, []byte{})
				default:
					p := all[2+c.R.Intn(len(all)-2)]
					p = append([]byte{}, p...)
					if c.R.Bool() {
						p[0] = byte(c.R.Intn(8)<<5 | c.R.Pick(28, 28, 24, 1))
					}
					seq = append(seq, p)
				}
			}
			c.Tag("short-random")
			runH264C09Z(c, c.R.Chance(1, 8), c.R.Bool(), seq)
		})
	}
	// (c) mutated valid payloads and codec-specific garbage
	for i, n := 0, x.N(12000, 300000); i < n; i++ {
		x.Case(func(c *Case) {
			var seq [][]byte
			for j, m := 0, c.R.Range(1, 12); j < m; j++ {
				switch c.R.Intn(6) {
				case 0:
					seq = append(seq, h264Garbage(c.R))
				case 1:
					seq = append(seq, c.R.Bytes(c.R.Size(40, 1, 2, 3)))
				case 2:
					// STAP-A with lengths near the end of the buffer
					p := []byte{byte(c.R.Intn(8)<<5 | 24)}
					for k, kk := 0, c.R.Range(0, 3); k < kk; k++ {
						sz := c.R.Range(0, 5)
						p = append(p, 0, byte(sz+c.R.Pick(0, 0, 0, 1, -1, 250)))
						p = append(p, c.R.Bytes(sz)...)
					}
					seq = append(seq, p)
				default:
					seq = append(seq, h264MutatedPayload(c.R))
				}
			}
			c.Tag("mutated")
			runH264C09Z(c, c.R.Chance(1, 8), c.R.Bool(), seq)
		})
	}
	// (d) complete FU-A trains of ONE unit whose size sits at and beyond 2^16 octets (65530 … 70001:
	//     every fragment is an ordinary RTP payload, only their sum is large — a key frame slice), cut
	//     into fragments of ≈1400, ≈9000 or ≈40000 octets by the independent encoder, with a small
	//     unit before and after on the same receiver.  Quick tier: one train per size; thorough: all
	//     size × fragment size × framing combinations.
	totals := []int{65530, 65535, 65536, 65537, 66000, 70001}
	chunks := []int{1400, 9000, 40000}
	for ti, total := range totals {
		for ci, chunk := range chunks {
			for ai, avc := range []bool{false, true} {
				if !x.Thorough() && (ci != ti%3 || ai != ti%2) {
					continue
				}
				total, chunk, avc := total, chunk, avc
				x.Case(func(c *Case) {
					c.Tag("fua-train>=65530")
					nal := h264Nal(c.R, h264OtherType(c.R), total)
					it := rfc6184Item{kind: 'f', hdr: nal[0]}
					for body := nal[1:]; len(body) > 0; {
						n := min(len(body), chunk+c.R.Range(-7, 7))
						it.chunks = append(it.chunks, body[:n])
						body = body[n:]
					}
					seq := [][]byte{h264Nal(c.R, 1, c.R.Range(2, 9))}
					seq = append(seq, rfc6184Encode(it)...)
					seq = append(seq, h264Nal(c.R, 5, c.R.Range(2, 9)))
					runH264C09(c, avc, seq)
				})
			}
		}
	}
}

func init() {
	register("c10.rt", "C10", genC10RT)
	register("c10.dec", "C10", genC10Dec)
	register("c15.h264", "C15", genC15H264)
	register("c08.h264", "C08", genC08H264)
	register("c09.h264", "C09", genC09H264)
}
