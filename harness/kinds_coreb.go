package main

import (
	"unsafe"

	"github.com/pion/rtp"
)

// Group coreb: C02 (parsing is memory-safe, bounded, reuse = fresh) and C05 (extension accessors
// are an ordered map that survives the wire).  Mirrors lean/Driver/Kinds/CoreB.lean.

// ---------------------------------------------------------------------------------------------
// C02

// c02OffIn is the offset of s inside buf by pointer difference; -1 for an empty slice (its address
// means nothing), -2 when s does not lie inside buf[:len(buf)].
func c02OffIn(s, buf []byte) int64 {
	if len(s) == 0 {
		return -1
	}
	ps := uintptr(unsafe.Pointer(unsafe.SliceData(s)))
	pb := uintptr(unsafe.Pointer(unsafe.SliceData(buf)))
	if len(buf) == 0 || ps < pb || ps+uintptr(len(s)) > pb+uintptr(len(buf)) {
		return -2
	}
	return int64(ps - pb)
}

// c02RawExtCount is len(h.Extensions), whatever the X flag says.
func c02RawExtCount(h *rtp.Header) int {
	ids, _ := rtp.VerifExtensions(h)
	return len(ids)
}

// c02WriteLocsGets writes `<list int locs> <list u8 ids> <list obytes gets>` for a decoded header.
func c02WriteLocsGets(t *Toks, h *rtp.Header, wire []byte) {
	if h.Extension {
		_, pls := rtp.VerifExtensions(h)
		t.Nat(len(pls))
		for _, p := range pls {
			t.I64(c02OffIn(p, wire))
		}
	} else {
		t.Nat(0)
	}
	ids := h.GetExtensionIDs()
	t.Nat(len(ids))
	for _, id := range ids {
		t.Nat(int(id))
	}
	t.Nat(len(ids))
	for _, id := range ids {
		t.OBytes(h.GetExtension(id))
	}
}

// c02ObserveRecv decodes buf with Header.Unmarshal into h and with Packet.Unmarshal into p (each
// from its own private copy of buf, so offsets are relative to the slice that was passed).
func c02ObserveRecv(t *Toks, h *rtp.Header, p *rtp.Packet, buf []byte, spare bool) {
	// the slice handed to the parser either fills its backing array exactly (reading past the end
	// panics) or is followed by 64 bytes of 0xEE inside the same array (slicing past the end does
	// not panic in Go then; the offsets and values observed below show it)
	clone := func() []byte {
		if !spare {
			return cloneBytes(buf)
		}
		big := make([]byte, len(buf)+64)
		copy(big, buf)
		for i := len(buf); i < len(big); i++ {
			big[i] = 0xEE
		}
		return big[:len(buf)]
	}
	wire := clone()
	var n int
	var err error
	if try(func() { n, err = h.Unmarshal(wire) }) {
		t.Panic()
	} else if err != nil {
		t.Err("other")
	} else if try(func() {
		var o Toks
		writeHeaderObs(&o, h)
		o.Nat(n).Nat(c02RawExtCount(h))
		c02WriteLocsGets(&o, h, wire)
		t.Ok().Tok(o.String())
	}) {
		t.Tok("panic-in-accessor")
	}
	wire = clone()
	if try(func() { err = p.Unmarshal(wire) }) {
		t.Panic()
	} else if err != nil {
		t.Err("other")
	} else if try(func() {
		var o Toks
		writePacketObs(&o, p)
		o.Nat(c02RawExtCount(&p.Header)).I64(c02OffIn(p.Payload, wire))
		c02WriteLocsGets(&o, &p.Header, wire)
		t.Ok().Tok(o.String())
	}) {
		t.Tok("panic-in-accessor")
	}
}

// observeC02: input `<buf> <list prevs>`, observation `recv(fresh) recv(reused)`; the reused
// receivers decoded every earlier input, in order, before.
func observeC02(c *Case, buf []byte, prev []byte, hasPrev bool, more ...[]byte) {
	var prevs [][]byte
	if hasPrev {
		prevs = append(prevs, prev)
	}
	prevs = append(prevs, more...)
	c.I.Bytes(buf).BytesList(prevs)
	spare := c.R.Bool()
	c02ObserveRecv(&c.O, &rtp.Header{}, &rtp.Packet{}, buf, spare)
	h, p := &rtp.Header{}, &rtp.Packet{}
	for _, pv := range prevs {
		pv := pv
		try(func() { _, _ = h.Unmarshal(cloneBytes(pv)) })
		try(func() { _ = p.Unmarshal(cloneBytes(pv)) })
	}
	c02ObserveRecv(&c.O, h, p, buf, spare)
	if len(buf) < 12 {
		c.Trivial()
	}
	if len(prevs) > 1 {
		c.Tag("prevs>1")
	}
}

func tagC02(c *Case, buf []byte, src string) {
	c.Tag("src=" + src)
	var p rtp.Packet
	var err error
	if try(func() { err = p.Unmarshal(cloneBytes(buf)) }) {
		c.Tag("res=panic")
		return
	}
	if err != nil {
		c.Tag("res=err-" + errKind(err))
		return
	}
	switch {
	case !p.Extension:
		c.Tag("res=ok,ext=none")
	case p.ExtensionProfile == 0xBEDE:
		c.Tag("res=ok,ext=onebyte")
	case p.ExtensionProfile == 0x1000:
		c.Tag("res=ok,ext=twobyte")
	default:
		c.Tag("res=ok,ext=legacy")
	}
	if p.Padding {
		c.Tag("res=ok,padding")
	}
}

var c02Alphabet = []byte{0x00, 0x80, 0x90, 0xB0, 0xBE, 0xDE, 0x10, 0x00, 0xF0, 0xFF, 0x01, 0x02, 0x04, 0x11, 0x21, 0x0F}

// c02Structured draws a byte string from the structured alphabet: a plausible first byte, the fixed
// header, then alphabet bytes / small length bytes / random bytes.
func c02Structured(r *Rand, maxLen int) []byte {
	n := r.Size(maxLen, 4, 12, 16, 20)
	b := make([]byte, n)
	for i := range b {
		switch r.Intn(4) {
		case 0:
			b[i] = byte(r.Intn(8)) // length bytes
		case 1:
			b[i] = r.Byte()
		default:
			b[i] = c02Alphabet[r.Intn(len(c02Alphabet))]
		}
	}
	if n > 0 {
		b[0] = byte(r.Pick(0x80, 0x90, 0x90, 0xB0, 0xB0, 0xA0, 0x81, 0x92, 0x9F, int(r.Byte())))
	}
	// often: a well-placed extension header after the CSRCs
	if n > 0 && b[0]&0x10 != 0 && r.Chance(2, 3) {
		at := 12 + 4*int(b[0]&0x0F)
		if at+4 <= n {
			switch r.Intn(3) {
			case 0:
				b[at], b[at+1] = 0xBE, 0xDE
			case 1:
				b[at], b[at+1] = 0x10, 0x00
			}
			words := (n - at - 4) / 4
			b[at+2] = 0
			b[at+3] = byte(r.Pick(0, 1, 2, words, words, words+1, r.Intn(words+2)))
		}
	}
	return b
}

// c02Valid marshals a well-formed packet (C01's generator).
func c02Valid(r *Rand, maxPayload int) []byte {
	for {
		q := genPacketWFNarrow(r, maxPayload).Build()
		bs, err := q.Marshal()
		if err == nil {
			return bs
		}
	}
}

// c02Rich draws a valid packet that has many CSRCs, several extension elements and padding (the
// "earlier" packet of a reuse pair).
func c02Rich(r *Rand) []byte {
	p := &PacketIn{}
	genFixed(r, &p.H)
	p.H.CSRC = make([]uint32, r.Pick(15, 15, 8, 3))
	for i := range p.H.CSRC {
		p.H.CSRC[i] = uint32(r.U64())
	}
	p.H.Extension = true
	kind := r.Pick(profOne, profTwo, profLegacy)
	for len(p.Exts) < 2 && kind != profLegacy || len(p.Exts) == 0 {
		p.H.ExtensionProfile, p.Exts = genExtsNarrow(r, kind, 12)
	}
	p.Payload = r.Bytes(r.Intn(40))
	p.H.Padding = true
	p.PadSize = uint8(r.Pick(1, 7, 255, r.Range(1, 255)))
	bs, err := p.Build().Marshal()
	if err != nil {
		return c02Valid(r, 40)
	}
	return bs
}

// fixed 12-byte prefixes (and longer ones that reach into an extension block) followed by every
// byte string of length ≤ 2, followed by a fixed suffix
type c02Family struct {
	name   string
	prefix []byte
	suffix []byte
}

func c02Families() []c02Family {
	fixed := func(b0 byte) []byte {
		return []byte{b0, 0x60, 0x12, 0x34, 1, 2, 3, 4, 5, 6, 7, 8}
	}
	cat := func(bs ...[]byte) []byte {
		var o []byte
		for _, b := range bs {
			o = append(o, b...)
		}
		return o
	}
	return []c02Family{
		{"plain", fixed(0x80), nil},
		{"pad", fixed(0xA0), nil},
		{"x", fixed(0x90), nil},
		{"cc1", fixed(0x81), []byte{9, 9}},
		{"x-profile", fixed(0x90), []byte{0x00, 0x01, 0x11, 0xAA, 0xBB, 0x00, 0xCC}},
		{"x-length", cat(fixed(0x90), []byte{0xBE, 0xDE}), []byte{0x10, 0xAA, 0x00, 0x00, 0x21, 0x01, 0x02, 0x03}},
		{"x-one", cat(fixed(0x90), []byte{0xBE, 0xDE, 0x00, 0x01}), []byte{0xAA, 0xBB, 0xCC}},
		{"x-one-2", cat(fixed(0x90), []byte{0xBE, 0xDE, 0x00, 0x02, 0x10, 0xAA}), []byte{0x01, 0x02, 0x03, 0x04}},
		{"x-two", cat(fixed(0x90), []byte{0x10, 0x00, 0x00, 0x01}), []byte{0xAA, 0xBB, 0xCC}},
		{"x-two-2", cat(fixed(0x90), []byte{0x10, 0x00, 0x00, 0x02, 0x07, 0x00}), []byte{0x01, 0x02, 0x03, 0x04}},
		{"x-one-end", cat(fixed(0x90), []byte{0xBE, 0xDE, 0x00, 0x01, 0x00, 0x00}), nil},
		{"x-two-end", cat(fixed(0x90), []byte{0x10, 0x00, 0x00, 0x01, 0x00, 0x00}), nil},
		{"xp-two-end", cat(fixed(0xB0), []byte{0x10, 0x00, 0x00, 0x01, 0x00, 0x00}), nil},
		{"xp-tail", cat(fixed(0xB0), []byte{0xBE, 0xDE, 0x00, 0x01, 0x10, 0xAA, 0x00, 0x00}), nil},
		{"xp-legacy", cat(fixed(0xB1), []byte{9, 9, 9, 9, 0x12, 0x34, 0x00}), []byte{0xAA, 0xBB, 0xCC, 0xDD, 0x02}},
	}
}

func genC02(x *Ctx) {
	// (1) every byte string of length ≤ 2 in the hole of every family; in the quick tier the
	// two-byte strings are thinned to the interesting byte values
	var vals []int
	if x.Thorough() {
		for v := 0; v < 256; v++ {
			vals = append(vals, v)
		}
	} else {
		seen := map[int]bool{}
		for _, v := range []int{0, 1, 2, 3, 4, 5, 7, 8, 0x0F, 0x10, 0x11, 0x12, 0x1F, 0x20, 0x21, 0x7F, 0x80, 0x90, 0xA0, 0xB0,
			0xBE, 0xDE, 0xE0, 0xEF, 0xF0, 0xF1, 0xFE, 0xFF} {
			if !seen[v] {
				seen[v] = true
				vals = append(vals, v)
			}
		}
	}
	for _, f := range c02Families() {
		f := f
		emit := func(hole []byte) {
			x.Case(func(c *Case) {
				buf := append(append(append([]byte{}, f.prefix...), hole...), f.suffix...)
				tagC02(c, buf, "family-"+f.name)
				if c.R.Chance(1, 4) {
					observeC02(c, buf, c02Rich(c.R), true)
				} else {
					observeC02(c, buf, nil, false)
				}
			})
		}
		emit(nil)
		for a := 0; a < 256; a++ {
			emit([]byte{byte(a)})
		}
		for _, a := range vals {
			for b := 0; b < 256; b++ {
				emit([]byte{byte(a), byte(b)})
			}
		}
	}
	// (2) short strings: every length 0..16 of a few first bytes
	for _, b0 := range []int{0x80, 0x90, 0xB0, 0x8F, 0x9F} {
		for n := 0; n <= 80; n++ {
			b0, n := b0, n
			x.Case(func(c *Case) {
				buf := c.R.Bytes(n)
				if n > 0 {
					buf[0] = byte(b0)
				}
				tagC02(c, buf, "short")
				observeC02(c, buf, nil, false)
			})
		}
	}
	// (3) truncations at every offset and single bit flips of valid packets
	nv := x.N(60, 4000)
	for i := 0; i < nv; i++ {
		x.Case(func(c *Case) { // a valid packet as it is
			buf := c02Valid(c.R, 24)
			tagC02(c, buf, "valid")
			observeC02(c, buf, c02Rich(c.R), true)
		})
		// the packet that is cut and flipped: every worker must see the same one (the case
		// indices depend on its length), so it comes from a PRNG that depends on (seed, i) only
		base := c02Valid(newRand(x.Seed, "c02.parse/base", i), 24)
		for cut := 0; cut < len(base); cut++ {
			cut := cut
			x.Case(func(c *Case) {
				buf := base[:cut]
				tagC02(c, buf, "truncated")
				if c.R.Chance(1, 3) {
					observeC02(c, buf, c02Rich(c.R), true)
				} else {
					observeC02(c, buf, nil, false)
				}
			})
		}
		for bit := 0; bit < 8*len(base); bit++ {
			bit := bit
			x.Case(func(c *Case) {
				buf := cloneBytes(base)
				buf[bit/8] ^= 1 << (bit % 8)
				tagC02(c, buf, "bitflip")
				if c.R.Chance(1, 3) {
					observeC02(c, buf, c02Rich(c.R), true)
				} else {
					observeC02(c, buf, nil, false)
				}
			})
		}
	}
	// (4) random streams, half of them as pairs
	maxLen := 200
	if x.Thorough() {
		maxLen = 1500
	}
	for i, n := 0, x.N(200000, 4000000); i < n; i++ {
		x.Case(func(c *Case) {
			r := c.R
			var buf []byte
			src := ""
			switch r.Intn(5) {
			case 0, 1:
				buf, src = c02Structured(r, 96), "structured"
			case 2:
				buf, src = c02Valid(r, r.Pick(40, 40, maxLen)), "valid"
			case 3: // valid packet, a few random byte edits or one edit of a length-bearing field
				buf, src = c02Valid(r, 40), "mutated"
				if r.Bool() {
					for k := r.Range(1, 3); k > 0 && len(buf) > 0; k-- {
						buf[r.Intn(len(buf))] = c02Alphabet[r.Intn(len(c02Alphabet))]
					}
				} else {
					src = "field-edit"
					at := 12 + 4*int(buf[0]&0x0F) // extension header, if any
					switch r.Intn(6) {
					case 0: // CSRC count
						buf[0] = buf[0]&0xF0 | byte(r.Pick(0, 1, 15, int(buf[0]&0x0F)+1, int(buf[0]&0x0F)-1)&0x0F)
					case 1: // X bit
						buf[0] ^= 0x10
					case 2: // P bit
						buf[0] ^= 0x20
					case 3: // padding count
						buf[len(buf)-1] = byte(r.Pick(0, 1, 2, len(buf)-at, len(buf)-12, len(buf), len(buf)-1, 255))
						buf[0] |= 0x20
					case 4: // extension length field
						if buf[0]&0x10 != 0 && at+4 <= len(buf) {
							w := int(buf[at+2])<<8 | int(buf[at+3])
							w = r.Pick(w+1, w-1, 0, w*2, 0x8000|w, 0xFFFF, (len(buf)-at-4)/4, (len(buf)-at-4)/4+1)
							buf[at+2], buf[at+3] = byte(w>>8), byte(w)
						}
					default: // profile
						if buf[0]&0x10 != 0 && at+2 <= len(buf) {
							p := r.Pick(0xBEDE, 0x1000, 0x1001, 0xBEDF, 0)
							buf[at], buf[at+1] = byte(p>>8), byte(p)
						}
					}
				}
			default:
				buf, src = r.Bytes(r.Size(maxLen, 12, 16)), "random"
				if len(buf) > 0 && r.Bool() {
					buf[0] = byte(r.Pick(0x80, 0x90, 0xB0, 0xA0))
				}
			}
			tagC02(c, buf, src)
			switch r.Intn(4) {
			case 0:
				observeC02(c, buf, nil, false)
			case 1:
				observeC02(c, buf, c02Rich(r), true)
			case 2: // earlier input that fails half way: a truncated rich packet
				p := c02Rich(r)
				observeC02(c, buf, p[:r.Intn(len(p))], true)
			default:
				if r.Bool() { // longer histories: rich, poor, rich …
					observeC02(c, buf, c02Rich(r), true, c02Valid(r, 8), c02Structured(r, 64))
				} else {
					observeC02(c, buf, c02Structured(r, 96), true, c02Rich(r))
				}
			}
		})
	}
	// (5) long inputs: big legacy / two-byte blocks and payloads
	for i, n := 0, x.N(40, 1500); i < n; i++ {
		x.Case(func(c *Case) {
			r := c.R
			lim := 3000
			if x.Thorough() {
				lim = 70000
			}
			total := r.Range(lim/2, lim)
			buf := r.Bytes(total)
			buf[0] = byte(r.Pick(0x90, 0xB0, 0x90|r.Intn(16)))
			at := 12 + 4*int(buf[0]&0x0F)
			switch r.Intn(3) {
			case 0:
				buf[at], buf[at+1] = 0xBE, 0xDE
			case 1:
				buf[at], buf[at+1] = 0x10, 0x00
			}
			words := (total - at - 4) / 4
			w := r.Pick(words, words-1, words+1, words/2, r.Intn(words+1))
			if w > 65535 {
				w = 65535
			}
			buf[at+2], buf[at+3] = byte(w>>8), byte(w)
			if r.Bool() { // make the block walkable: zero fill, then a few elements at random places
				end := at + 4 + 4*w
				if end > total {
					end = total
				}
				for k := at + 4; k < end; k++ {
					buf[k] = 0
				}
				for j := r.Intn(8); j > 0 && end-at > 300; j-- {
					pos := at + 4 + r.Intn(end-at-4-260)
					if buf[at] == 0x10 { // two-byte form: id, length, value
						ln := r.Pick(0, 1, 255, r.Intn(256))
						buf[pos], buf[pos+1] = byte(r.Range(1, 255)), byte(ln)
						copy(buf[pos+2:pos+2+ln], r.Bytes(ln))
					} else { // one-byte form (also harmless noise in a legacy block)
						ln := r.Range(1, 16)
						buf[pos] = byte(r.Range(1, 14)<<4 | (ln - 1))
						copy(buf[pos+1:pos+1+ln], r.Bytes(ln))
					}
				}
			}
			tagC02(c, buf, "long")
			observeC02(c, buf, c02Rich(r), r.Bool())
		})
	}
}

// ---------------------------------------------------------------------------------------------
// C05

type c05Op struct {
	set bool
	id  uint8
	val []byte
}

func writeC05Reads(t *Toks, h *rtp.Header, extra []uint8) {
	t.Bool(h.Extension)
	// the RAW profile field, also while X is clear: "a call that returns an error leaves the header
	// unchanged" includes this exported field (seeds C05-3 / C05-r2-1: a refused first
	// SetExtension that has already stored the profile it would have chosen)
	t.Nat(int(h.ExtensionProfile))
	ids := h.GetExtensionIDs()
	t.Nat(len(ids))
	for _, id := range ids {
		t.Nat(int(id))
	}
	all := append(append([]uint8{}, ids...), extra...)
	t.Nat(len(all))
	for _, id := range all {
		t.Nat(int(id)).OBytes(h.GetExtension(id))
	}
}

// observeC05 runs a history on the real Header.  start: either a description (struct literal +
// element list) or wire bytes decoded with Header.Unmarshal.
func observeC05(c *Case, desc *PacketIn, wire []byte, ops []c05Op, prevs ...[]byte) {
	var h rtp.Header
	var own []byte // start = wire: the buffer the header was decoded from (its values point into it)
	startOk := true
	if desc != nil {
		c.I.Tok("hdr")
		writeHeaderIn(&c.I, &desc.H, desc.Exts)
		h = desc.Build().Header
	} else {
		c.I.Tok("wire").BytesList(prevs).Bytes(wire)
		for _, pv := range prevs {
			pv := pv
			try(func() { _, _ = h.Unmarshal(cloneBytes(pv)) })
		}
		if len(prevs) > 0 {
			c.Tag("start=wire-reused")
		}
		var err error
		own = cloneBytes(wire)
		if try(func() { _, err = h.Unmarshal(own) }) || err != nil {
			startOk = false
		}
	}
	c.I.Nat(len(ops))
	for _, op := range ops {
		if op.set {
			c.I.Tok("set").Nat(int(op.id)).Bytes(op.val)
		} else {
			c.I.Tok("del").Nat(int(op.id))
		}
	}
	o := &c.O
	if !startOk {
		o.Bool(false).Nat(0).Bool(false).Nat(0).Nat(0).Nat(0).Nat(0).Bool(false).Nat(0).Err("other").Err("other").Nat(0)
		c.Trivial()
		return
	}
	o.Bool(true)
	if h.Extension {
		ids, pls := rtp.VerifExtensions(&h)
		o.Nat(len(ids))
		for i := range ids {
			o.Nat(int(ids[i])).Bytes(pls[i])
		}
	} else {
		o.Nat(0)
	}
	writeC05Reads(o, &h, nil)
	o.Nat(len(ops))
	accepted := 0
	for _, op := range ops {
		op := op
		var err error
		// a zero-length value is handed over as a literal nil slice half of the time (the same value
		// to the property and the model; the library may tell them apart: `GetExtension(id) == nil`)
		if op.set && op.val != nil && len(op.val) == 0 && c.R.Bool() {
			op.val = nil
			c.Tag("set:nil-slice")
		}
		panicked := try(func() {
			if op.set {
				err = h.SetExtension(op.id, op.val)
			} else {
				err = h.DelExtension(op.id)
			}
		})
		switch {
		case panicked:
			o.Panic()
		case err != nil:
			o.Err("other")
		default:
			o.Ok()
			accepted++
		}
		if try(func() {
			var t Toks
			writeC05Reads(&t, &h, []uint8{op.id})
			o.Tok(t.String())
		}) {
			o.Tok("panic-in-accessor")
		}
	}
	o.Bool(h.Extension)
	if h.Extension {
		o.Nat(int(h.ExtensionProfile))
	} else {
		o.Nat(0)
	}
	ids := h.GetExtensionIDs()
	var bs []byte
	var err error
	// a header decoded from a packet is written back INTO THAT PACKET'S BUFFER in a third of the
	// histories that allow it (in-place rewrite: values that still point into the buffer are copied
	// onto themselves or towards the front)
	inplace := c.R.Chance(1, 3) && own != nil && c05InPlaceOK(&h, own)
	if inplace {
		c.Tag("marshal=in-place")
	}
	switch {
	case try(func() {
		if inplace {
			var n int
			if n, err = h.MarshalTo(own); err == nil {
				bs = own[:n]
			}
		} else {
			bs, err = h.Marshal()
		}
	}):
		o.Panic().Err("other").Nat(0)
		c.Tag("marshal=panic")
	case err != nil:
		o.Err("other").Err("other").Nat(0)
		c.Tag("marshal=err")
	default:
		o.Ok().Bytes(bs)
		var h2 rtp.Header
		switch {
		case try(func() { _, err = h2.Unmarshal(cloneBytes(bs)) }):
			o.Panic().Nat(0)
		case err != nil:
			o.Err("other").Nat(0)
		default:
			o.Ok().Nat(len(ids))
			for _, id := range ids {
				o.Nat(int(id)).OBytes(h2.GetExtension(id))
			}
		}
	}
	if accepted == 0 {
		c.Trivial()
	}
	switch {
	case accepted == 0:
		c.Tag("accepted=0")
	case accepted < 4:
		c.Tag("accepted=1-3")
	default:
		c.Tag("accepted>=4")
	}
	switch {
	case !h.Extension:
		c.Tag("end=none")
	case h.ExtensionProfile == 0xBEDE:
		c.Tag("end=onebyte")
	case h.ExtensionProfile == 0x1000:
		c.Tag("end=twobyte")
	default:
		c.Tag("end=legacy")
	}
}

// c05InPlaceOK: may the header be marshalled into `own`, the buffer it was decoded from?  Only when
// the buffer is long enough and every element value that still points into it is written AT OR BEFORE
// the place it is read from (then no element is overwritten before it has been copied: memmove
// semantics per element).  A history that makes the block grow in front of such a value is not an
// in-place rewrite the encoder supports, and is marshalled into a fresh buffer as before.
func c05InPlaceOK(h *rtp.Header, own []byte) bool {
	size := 0
	if try(func() { size = h.MarshalSize() }) || size > len(own) {
		return false
	}
	if !h.Extension {
		return true
	}
	per := 0
	switch h.ExtensionProfile {
	case 0xBEDE:
		per = 1
	case 0x1000:
		per = 2
	}
	_, pls := rtp.VerifExtensions(h)
	at := int64(12 + 4*len(h.CSRC) + 4)
	for _, pl := range pls {
		at += int64(per)
		if off := c02OffIn(pl, own); off >= 0 && off < at {
			return false
		}
		at += int64(len(pl))
	}
	return true
}

var c05IDs = []int{0, 1, 2, 14, 15, 16, 254, 255}
var c05Lens = []int{0, 1, 2, 15, 16, 17, 254, 255, 256, 300, 4, 8, 12, 20, 260}

// c05GenOps draws a history.  mode: 0 ids and lengths a one-byte block accepts (mostly), 1 two-byte,
// 2 legacy (id 0, whole words mostly), 3 the boundary ids and lengths of the property, unfiltered.
func c05GenOps(r *Rand, n int, mode int) []c05Op {
	drawID := func() int {
		switch mode {
		case 0:
			return r.Pick(1, 2, 14, r.Range(1, 14), r.Range(1, 14), r.Range(1, 14), 0, 15)
		case 1:
			return r.Pick(1, 2, 14, 15, 16, 254, 255, r.Range(1, 255), r.Range(1, 255), 0)
		case 2:
			return r.Pick(0, 0, 0, 0, 0, 1, 255)
		}
		return r.Pick(append(append([]int{}, c05IDs...), r.Intn(256))...)
	}
	// the property quantifies over value lengths 0-300; longer values (which still must not break
	// anything: correspondence only, wf = false in the handler) are confined to one history in ten
	long := r.Chance(1, 10)
	drawLen := func() int {
		switch mode {
		case 0:
			return r.Pick(1, 1, 2, 3, 4, 15, 16, r.Range(1, 16), r.Range(1, 16), 0, 17)
		case 1:
			return r.Pick(0, 1, 16, 17, 18, 100, 254, 255, r.Range(0, 255), r.Range(17, 255), 256)
		case 2:
			n := r.Pick(4*r.Intn(76), 4*r.Intn(8), 0, 4, 256, 260, 300, r.Intn(300), r.Pick(301, 304, 1024, 1500))
			if n > 300 && !long {
				n = r.Pick(296, 299, 300)
			}
			return n
		}
		if long && r.Chance(1, 10) {
			return r.Pick(301, 304, 1024, 1500)
		}
		return c05Lens[r.Intn(len(c05Lens))]
	}
	// a small pool of ids per history, so that updates and deletions of present ids happen
	pool := make([]int, r.Pick(1, 2, 3, 4, 5, 6, 14, 20))
	for i := range pool {
		pool[i] = drawID()
	}
	ops := make([]c05Op, n)
	for i := range ops {
		id := pool[r.Intn(len(pool))]
		if r.Chance(1, 8) {
			id = drawID()
		}
		if r.Chance(1, 4) {
			ops[i] = c05Op{set: false, id: uint8(id)}
			continue
		}
		ops[i] = c05Op{set: true, id: uint8(id), val: r.Bytes(drawLen())}
	}
	return ops
}

// start states: 0 fresh, 1 one-byte preset, 2 two-byte preset, 3 legacy preset, 4 X off with a stale
// profile, 5 preset with legal elements, 6 wire
func c05Start(r *Rand, kind int) (*PacketIn, []byte, string) {
	p := &PacketIn{}
	genFixed(r, &p.H)
	switch kind {
	case 0:
		return p, nil, "fresh"
	case 1:
		p.H.Extension, p.H.ExtensionProfile = true, 0xBEDE
		return p, nil, "preset-onebyte"
	case 2:
		p.H.Extension, p.H.ExtensionProfile = true, 0x1000
		return p, nil, "preset-twobyte"
	case 3:
		p.H.Extension = true
		p.H.ExtensionProfile = uint16(r.Pick(0, 1, 0x1234, 0xBEDF, 0x0FFF, 0xFFFF, r.Intn(65536)))
		if p.H.ExtensionProfile == 0xBEDE || p.H.ExtensionProfile == 0x1000 {
			p.H.ExtensionProfile = 0x1234
		}
		return p, nil, "preset-legacy"
	case 4:
		p.H.ExtensionProfile = uint16(r.Pick(0xBEDE, 0x1000, 0x1234, r.Intn(65536)))
		return p, nil, "fresh-stale-profile"
	case 5:
		p.H.Extension = true
		p.H.ExtensionProfile, p.Exts = genExts(r, r.Pick(profOne, profTwo, profLegacy), 5)
		return p, nil, "preset-elements"
	default:
		var wire []byte
		switch r.Intn(4) {
		case 0:
			wire = c02Structured(r, 64)
		case 1:
			wire = c02Rich(r)
		default:
			q := genPacketWF(r, 8)
			q.Payload, q.H.Padding, q.PadSize = nil, false, 0
			wire, _ = q.Build().Header.Marshal()
		}
		return nil, wire, "wire"
	}
}

func genC05(x *Ctx) {
	// (1) grid: every start state × every single operation from the boundary ids and lengths,
	// then the same followed by a delete of the id
	for kind := 0; kind <= 4; kind++ {
		for _, id := range c05IDs {
			for _, ln := range c05Lens {
				for _, tail := range []int{0, 1, 2} {
					kind, id, ln, tail := kind, id, ln, tail
					x.Case(func(c *Case) {
						desc, wire, name := c05Start(c.R, kind)
						c.Tag("start=" + name)
						ops := []c05Op{{set: true, id: uint8(id), val: c.R.Bytes(ln)}}
						switch tail {
						case 1:
							ops = append(ops, c05Op{set: false, id: uint8(id)})
						case 2:
							ops = append(ops, c05Op{set: true, id: uint8(id), val: c.R.Bytes(c.R.Pick(1, 4, 16, 17, 255, 256))},
								c05Op{set: true, id: uint8(c.R.Pick(0, 1, 2, 15, 255)), val: c.R.Bytes(c.R.Pick(0, 1, 4, 17))})
						}
						observeC05(c, desc, wire, ops)
					})
				}
			}
		}
		// no operation, and a lone delete
		for _, ops := range [][]c05Op{nil, {{set: false, id: 0}}, {{set: false, id: 1}}} {
			kind, ops := kind, ops
			x.Case(func(c *Case) {
				desc, wire, name := c05Start(c.R, kind)
				c.Tag("start=" + name)
				observeC05(c, desc, wire, ops)
			})
		}
	}
	// (2) complete enumeration of short histories over small alphabets (every order of set / update
	// / delete / refused call on every start state): length ≤ 2 over 35 operations, length 3 over 15
	enum := func(ids, lens []int, depth int) {
		var alphabet []c05Op
		for _, id := range ids {
			for _, ln := range lens {
				alphabet = append(alphabet, c05Op{set: true, id: uint8(id), val: make([]byte, ln)})
			}
			alphabet = append(alphabet, c05Op{set: false, id: uint8(id)})
		}
		idx := make([]int, depth)
		for {
			for kind := 0; kind <= 4; kind++ {
				kind := kind
				pick := append([]int{}, idx...)
				x.Case(func(c *Case) {
					desc, wire, name := c05Start(c.R, kind)
					c.Tag("start=" + name)
					c.Tag("enumerated")
					ops := make([]c05Op, len(pick))
					for i, k := range pick {
						ops[i] = alphabet[k]
						if ops[i].set {
							ops[i].val = c.R.Bytes(len(alphabet[k].val))
						}
					}
					observeC05(c, desc, wire, ops)
				})
			}
			i := depth - 1
			for ; i >= 0; i-- {
				idx[i]++
				if idx[i] < len(alphabet) {
					break
				}
				idx[i] = 0
			}
			if i < 0 {
				break
			}
		}
	}
	enum([]int{0, 1, 14, 15, 200}, []int{0, 1, 4, 16, 17, 256}, 2)
	enum([]int{0, 1, 15}, []int{0, 1, 17, 256}, 3)
	if x.Thorough() {
		enum([]int{0, 1, 2, 15}, []int{0, 1, 4, 17, 256}, 4)
	}
	// (3) "fill the table": histories after which a two-byte header holds EVERY id 1 … 255, with values
	// of 255 bytes or a few bytes less in total — the largest block SetExtension can build
	// (255·257 = 65535 bytes = 16384 words) and the blocks just below it.  The last `m` ids are added
	// by SetExtension calls on a header that already holds the others (decoded from the wire, or given
	// as a struct); m = 255 is the whole history from a fresh / preset header (values of 0 … 4 bytes
	// there except in one case per tier-size: every step reads back all values).  Now and then a
	// delete and re-insert, or an update, follows.
	type fill struct{ m, short int }
	fills := []fill{{1, 0}, {1, 1}, {1, 2}, {1, 3}, {1, 4}, {1, 700}, {2, 0}, {2, 1}, {3, 2}, {8, 0}, {8, 3}, {255, -1}, {255, -1}, {255, 0}}
	if x.Thorough() {
		fills = append(fills, fill{255, 1}, fill{255, 2}, fill{255, 3}, fill{40, 0}, fill{40, 2})
	}
	for _, f := range fills {
		for rep := 0; rep < 3; rep++ {
			f, rep := f, rep
			if f.m == 255 && f.short >= 0 && rep > 0 {
				continue
			}
			x.Case(func(c *Case) {
				r := c.R
				vals := genExtsTwoFull(r, r.Perm(255), 0)
				if f.short < 0 {
					for i := range vals {
						vals[i].Payload = vals[i].Payload[:r.Pick(0, 1, 2, 3, 4)]
					}
				} else {
					vals = genExtsTwoFull(r, r.Perm(255), f.short)
				}
				p := &PacketIn{}
				genFixed(r, &p.H)
				var wire []byte
				desc := p
				name := []string{"fresh", "preset-twobyte", "wire"}[rep]
				if f.m < 255 {
					p.H.Extension, p.H.ExtensionProfile = true, 0x1000
					p.Exts = vals[:255-f.m]
					name = "preset-elements"
					if rep != 0 {
						wire, _ = p.Build().Header.Marshal()
						desc, name = nil, "wire"
					}
				} else if rep == 1 || f.short >= 0 {
					p.H.Extension, p.H.ExtensionProfile = true, 0x1000
					name = "preset-twobyte"
				}
				var ops []c05Op
				for _, e := range vals[255-f.m:] {
					ops = append(ops, c05Op{set: true, id: e.ID, val: e.Payload})
				}
				switch r.Intn(4) {
				case 0: // delete one id and insert it again (it moves to the end)
					e := vals[r.Intn(255)]
					ops = append(ops, c05Op{set: false, id: e.ID}, c05Op{set: true, id: e.ID, val: r.Bytes(len(e.Payload))})
				case 1: // update one value in place
					e := vals[r.Intn(255)]
					ops = append(ops, c05Op{set: true, id: e.ID, val: r.Bytes(len(e.Payload))})
				}
				c.Tag("start=" + name)
				c.Tag("fill-the-table")
				observeC05(c, desc, wire, ops)
			})
		}
	}
	// (4) random histories of 0–30 operations
	for i, n := 0, x.N(150000, 3000000); i < n; i++ {
		x.Case(func(c *Case) {
			r := c.R
			kind := r.Pick(0, 0, 1, 1, 2, 2, 3, 3, 4, 5, 6, 6)
			desc, wire, name := c05Start(r, kind)
			c.Tag("start=" + name)
			mode := r.Intn(4)
			if r.Bool() { // a history that suits the start state
				switch {
				case kind == 1:
					mode = 0
				case kind == 2:
					mode = 1
				case kind == 3:
					mode = 2
				case desc != nil && desc.H.Extension && desc.H.ExtensionProfile == 0xBEDE:
					mode = 0
				case desc != nil && desc.H.Extension && desc.H.ExtensionProfile == 0x1000:
					mode = 1
				case desc != nil && desc.H.Extension:
					mode = 2
				}
			}
			ops := c05GenOps(r, r.Pick(0, 1, 2, 3, 5, 8, 30, r.Range(0, 30), r.Range(0, 30)), mode)
			if desc == nil && r.Bool() {
				// the receiver decoded one or two VALID headers before (a failed decode leaves the
				// profile field in a state the model does not track)
				prevs := [][]byte{c02Rich(r)}
				if r.Bool() {
					prevs = append(prevs, c02Valid(r, 4))
				}
				observeC05(c, desc, wire, ops, prevs...)
				return
			}
			observeC05(c, desc, wire, ops)
		})
	}
}

func init() {
	register("c02.parse", "C02", genC02)
	register("c05.ops", "C05", genC05)
}
