package main

// verifharness — runs the real pion/rtp code (from /repo, via the replace directive) on
// generated cases, pipes (input, observation) lines to the Lean model `rtpmodel`, and
// collects the verdicts.  See /verif/DESIGN.md §2.

import (
	"bufio"
	"encoding/json"
	"flag"
	"fmt"
	"os"
	"os/exec"
	"runtime/debug"
	"sort"
	"strconv"
	"strings"
	"sync"
	"time"
)

// Case is one generated case: input tokens, observation tokens, bookkeeping.
type Case struct {
	R       *Rand
	I, O    Toks
	trivial bool
	tags    []string
}

// Trivial marks the case as trivial for the evidence count (e.g. empty input, error path only).
func (c *Case) Trivial() { c.trivial = true }

// Tag records a label for the input distribution printed in the evidence.
func (c *Case) Tag(s string) { c.tags = append(c.tags, s) }

// Ctx is handed to a generator.
type Ctx struct {
	Kind    string
	Seed    uint64
	Tier    string
	Scale   float64
	worker  int
	workers int
	index   int
	only    int
	emit    func(c *Case, index int)
}

// Case runs f for the next case index if this worker owns it.
func (x *Ctx) Case(f func(c *Case)) {
	i := x.index
	x.index++
	if x.only >= 0 {
		if i != x.only {
			return
		}
	} else if i%x.workers != x.worker {
		return
	}
	c := &Case{R: newRand(x.Seed, x.Kind, i)}
	func() {
		defer func() {
			if r := recover(); r != nil {
				c.I = Toks{}
				c.O = Toks{}
				c.I.Tok("HARNESS-PANIC")
				c.O.Tok(strings.ReplaceAll(fmt.Sprint(r), " ", "_") + "@" + strings.ReplaceAll(strings.ReplaceAll(string(debug.Stack()), "\n", "|"), " ", "_"))
			}
		}()
		f(c)
	}()
	x.emit(c, i)
}

// N picks a case budget by tier.
func (x *Ctx) N(quick, thorough int) int {
	n := quick
	if x.Tier == "thorough" {
		n = thorough
	}
	n = int(float64(n) * x.Scale)
	if n < 1 {
		n = 1
	}
	return n
}

// Thorough reports whether the thorough tier is running.
func (x *Ctx) Thorough() bool { return x.Tier == "thorough" }

// Kind is a registered case kind.
type Kind struct {
	Name string
	Prop string
	Gen  func(x *Ctx)
}

var kinds []Kind

func register(name, prop string, gen func(x *Ctx)) {
	kinds = append(kinds, Kind{name, prop, gen})
}

type modelStats struct {
	Total   int            `json:"total"`
	CorrNeq int            `json:"corr_neq"`
	PredF   int            `json:"pred_f"`
	WF      int            `json:"wf"`
	KF      map[string]int `json:"kf"`
	Errors  int            `json:"errors"`
	Viol    int            `json:"viol"`   // pred=f and not an instance of a known finding
	CBreak  int            `json:"cbreak"` // pred=t, corr=neq outside known-finding regions
	KFI     map[string]int `json:"kfi"`    // failing exactly as recorded, per finding id
}

type kindResult struct {
	Prop       string         `json:"prop"`
	Cases      int            `json:"cases"`
	Distinct   int            `json:"distinct"`
	Nontrivial int            `json:"distinct_nontrivial"`
	Tags       map[string]int `json:"tags"`
	Samples    []string       `json:"samples"`
	Model      modelStats     `json:"model"`
}

type badCase struct {
	Prio    int    `json:"prio"` // 0 violation, 1 correspondence break, 2 protocol error, 3 known-finding instance
	Kind    string `json:"kind"`
	Index   int    `json:"index"`
	Verdict string `json:"verdict"`
	Line    string `json:"line"`
}

type result struct {
	Seed   uint64                 `json:"seed"`
	Tier   string                 `json:"tier"`
	Scale  float64                `json:"scale"`
	Kinds  map[string]*kindResult `json:"kinds"`
	Bad    []badCase              `json:"bad"`
	BadN   int                    `json:"bad_total"`
	WallS  float64                `json:"wall_s"`
	Failed string                 `json:"failed,omitempty"`
}

type workerOut struct {
	hashes  map[string]map[uint64]bool // kind -> hash -> nontrivial
	cases   map[string]int
	tags    map[string]map[string]int
	samples map[string][]string
	bad     []badCase
	badN    int
	model   map[string]*modelStats
	fail    string
}

const maxBadPerBucket = 12

func runWorker(w, workers int, sel []Kind, seed uint64, tier string, scale float64, model string) *workerOut {
	out := &workerOut{
		hashes: map[string]map[uint64]bool{}, cases: map[string]int{}, tags: map[string]map[string]int{},
		samples: map[string][]string{}, model: map[string]*modelStats{},
	}
	// each model process runs under an address-space limit (default 12 GiB, VERIF_MODEL_MEM_KB overrides):
	// a pathological evaluation then fails this run instead of exhausting the machine
	lim := os.Getenv("VERIF_MODEL_MEM_KB")
	if lim == "" {
		lim = "12582912"
	}
	cmd := exec.Command("/bin/sh", "-c", "ulimit -v "+lim+" 2>/dev/null; exec \"$0\" -q", model)
	stdin, err := cmd.StdinPipe()
	if err != nil {
		out.fail = err.Error()
		return out
	}
	stdout, err := cmd.StdoutPipe()
	if err != nil {
		out.fail = err.Error()
		return out
	}
	cmd.Stderr = os.Stderr
	if err := cmd.Start(); err != nil {
		out.fail = "cannot start model: " + err.Error()
		return out
	}
	var wg sync.WaitGroup
	wg.Add(1)
	go func() {
		defer wg.Done()
		sc := bufio.NewScanner(stdout)
		sc.Buffer(make([]byte, 1<<20), 1<<28)
		bucket := map[string]*[4]int{}
		for sc.Scan() {
			line := sc.Text()
			if strings.HasPrefix(line, "# ") {
				parseSummary(line, out)
				continue
			}
			out.badN++
			verdict, orig := line, ""
			if k := strings.Index(line, " || "); k >= 0 {
				verdict, orig = line[:k], line[k+4:]
			}
			prio := 2
			if strings.Contains(verdict, "wf=f") && strings.Contains(verdict, "kf=-") {
				// outside the property's quantifier the predicate claims nothing: correspondence only
				verdict = strings.Replace(verdict, "pred=f", "pred=t", 1)
			}
			switch {
			case strings.Contains(verdict, "pred=f") && (strings.Contains(verdict, "corr=eq") || strings.Contains(verdict, " kfx=t")) && !strings.Contains(verdict, "kf=-"):
				prio = 3
			case strings.Contains(verdict, "pred=f"):
				prio = 0
			case strings.Contains(verdict, "corr=neq"):
				prio = 1
			}
			kindOf := orig
			if i := strings.IndexByte(orig, ' '); i >= 0 {
				kindOf = orig[:i]
			}
			if bucket[kindOf] == nil {
				bucket[kindOf] = &[4]int{}
			}
			if bucket[kindOf][prio] < maxBadPerBucket {
				bucket[kindOf][prio]++
				bc := badCase{Prio: prio, Verdict: verdict, Line: orig, Index: -1}
				f := strings.SplitN(orig, " ", 3)
				if len(f) >= 2 {
					bc.Kind = f[0]
					bc.Index, _ = strconv.Atoi(f[1])
				}
				out.bad = append(out.bad, bc)
			}
		}
	}()
	bw := bufio.NewWriterSize(stdin, 1<<20)
	for _, k := range sel {
		k := k
		hs := map[uint64]bool{}
		out.hashes[k.Name] = hs
		tg := map[string]int{}
		out.tags[k.Name] = tg
		x := &Ctx{Kind: k.Name, Seed: seed, Tier: tier, Scale: scale, worker: w, workers: workers, only: -1}
		x.emit = func(c *Case, index int) {
			in := c.I.String()
			line := k.Name + " " + strconv.Itoa(index) + " " + in + " => " + c.O.String()
			bw.WriteString(line)
			bw.WriteByte('\n')
			out.cases[k.Name]++
			h := fnv(in)
			if !c.trivial {
				hs[h] = true
			} else if _, ok := hs[h]; !ok {
				hs[h] = false
			}
			for _, t := range c.tags {
				tg[t]++
			}
			if n := out.cases[k.Name]; (n <= 2 || n%997 == 0) && len(out.samples[k.Name]) < 6 && len(line) < 2000 {
				out.samples[k.Name] = append(out.samples[k.Name], line)
			}
		}
		k.Gen(x)
	}
	bw.Flush()
	stdin.Close()
	wg.Wait()
	if err := cmd.Wait(); err != nil {
		out.fail = "model exited: " + err.Error()
	}
	return out
}

// "# kind=<k> total=.. neq=.. predf=.. wf=.. err=.. kf:<name>=<n> ..."
func parseSummary(line string, out *workerOut) {
	f := strings.Fields(line[2:])
	ms := &modelStats{KF: map[string]int{}, KFI: map[string]int{}}
	kind := ""
	for _, kv := range f {
		p := strings.SplitN(kv, "=", 2)
		if len(p) != 2 {
			continue
		}
		n, _ := strconv.Atoi(p[1])
		switch {
		case p[0] == "kind":
			kind = p[1]
		case p[0] == "total":
			ms.Total = n
		case p[0] == "neq":
			ms.CorrNeq = n
		case p[0] == "predf":
			ms.PredF = n
		case p[0] == "wf":
			ms.WF = n
		case p[0] == "err":
			ms.Errors = n
		case p[0] == "viol":
			ms.Viol = n
		case p[0] == "cbreak":
			ms.CBreak = n
		case strings.HasPrefix(p[0], "kfi:"):
			ms.KFI[p[0][4:]] = n
		case strings.HasPrefix(p[0], "kf:"):
			ms.KF[p[0][3:]] = n
		}
	}
	if kind != "" {
		out.model[kind] = ms
	}
}

func selectKinds(props, names string) []Kind {
	var sel []Kind
	pset := map[string]bool{}
	for _, p := range strings.Split(props, ",") {
		if p != "" {
			pset[p] = true
		}
	}
	nset := map[string]bool{}
	for _, p := range strings.Split(names, ",") {
		if p != "" {
			nset[p] = true
		}
	}
	for _, k := range kinds {
		if (len(pset) == 0 || pset[k.Prop]) && (len(nset) == 0 || nset[k.Name]) {
			sel = append(sel, k)
		}
	}
	return sel
}

func main() {
	if len(os.Args) < 2 {
		fmt.Fprintln(os.Stderr, "usage: verifharness run|replay|kinds ...")
		os.Exit(2)
	}
	switch os.Args[1] {
	case "kinds":
		for _, k := range kinds {
			fmt.Println(k.Prop, k.Name)
		}
	case "run":
		cmdRun(os.Args[2:])
	case "consts":
		cmdConsts(os.Args[2:])
	case "replay":
		cmdReplay(os.Args[2:])
	default:
		fmt.Fprintln(os.Stderr, "unknown subcommand")
		os.Exit(2)
	}
}

func cmdRun(args []string) {
	fs := flag.NewFlagSet("run", flag.ExitOnError)
	props := fs.String("props", "", "comma separated property ids")
	names := fs.String("kinds", "", "comma separated kind names")
	tier := fs.String("tier", "quick", "quick|thorough")
	seed := fs.Uint64("seed", 1, "VERIF_SEED")
	model := fs.String("model", "", "path to rtpmodel")
	workers := fs.Int("workers", 16, "parallel workers")
	scale := fs.Float64("scale", 1.0, "case budget multiplier")
	outPath := fs.String("out", "", "result json path")
	fs.Parse(args)
	sel := selectKinds(*props, *names)
	t0 := time.Now()
	res := &result{Seed: *seed, Tier: *tier, Scale: *scale, Kinds: map[string]*kindResult{}, Bad: []badCase{}}
	if len(sel) == 0 {
		res.Failed = "no kinds selected"
	}
	outs := make([]*workerOut, *workers)
	var wg sync.WaitGroup
	for w := 0; w < *workers; w++ {
		w := w
		wg.Add(1)
		go func() {
			defer wg.Done()
			outs[w] = runWorker(w, *workers, sel, *seed, *tier, *scale, *model)
		}()
	}
	wg.Wait()
	for _, k := range sel {
		kr := &kindResult{Prop: k.Prop, Samples: []string{}, Tags: map[string]int{}, Model: modelStats{KF: map[string]int{}, KFI: map[string]int{}}}
		all := map[uint64]bool{}
		for _, o := range outs {
			kr.Cases += o.cases[k.Name]
			for h, nt := range o.hashes[k.Name] {
				if nt {
					all[h] = true
				} else if _, ok := all[h]; !ok {
					all[h] = false
				}
			}
			for t, n := range o.tags[k.Name] {
				kr.Tags[t] += n
			}
			if len(kr.Samples) < 6 {
				kr.Samples = append(kr.Samples, o.samples[k.Name]...)
			}
			if ms := o.model[k.Name]; ms != nil {
				kr.Model.Total += ms.Total
				kr.Model.CorrNeq += ms.CorrNeq
				kr.Model.PredF += ms.PredF
				kr.Model.WF += ms.WF
				kr.Model.Errors += ms.Errors
				kr.Model.Viol += ms.Viol
				kr.Model.CBreak += ms.CBreak
				for n, c := range ms.KF {
					kr.Model.KF[n] += c
				}
				for n, c := range ms.KFI {
					kr.Model.KFI[n] += c
				}
			}
		}
		kr.Distinct = len(all)
		for _, nt := range all {
			if nt {
				kr.Nontrivial++
			}
		}
		if len(kr.Samples) > 6 {
			kr.Samples = kr.Samples[:6]
		}
		res.Kinds[k.Name] = kr
	}
	for _, o := range outs {
		res.Bad = append(res.Bad, o.bad...)
		res.BadN += o.badN
		if o.fail != "" && res.Failed == "" {
			res.Failed = o.fail
		}
	}
	// smallest failing cases first: the cheapest form of shrinking
	sort.SliceStable(res.Bad, func(i, j int) bool {
		if res.Bad[i].Prio != res.Bad[j].Prio {
			return res.Bad[i].Prio < res.Bad[j].Prio
		}
		return len(res.Bad[i].Line) < len(res.Bad[j].Line)
	})
	if len(res.Bad) > 2000 {
		res.Bad = res.Bad[:2000]
	}
	res.WallS = time.Since(t0).Seconds()
	js, _ := json.MarshalIndent(res, "", " ")
	if *outPath != "" {
		os.WriteFile(*outPath, js, 0o644)
	} else {
		os.Stdout.Write(js)
	}
}

// replay regenerates exactly one case (kind, seed, index, tier), runs the real code on it again
// and prints the case line; with -model it also prints the model's verdict.
func cmdReplay(args []string) {
	fs := flag.NewFlagSet("replay", flag.ExitOnError)
	name := fs.String("kind", "", "kind")
	tier := fs.String("tier", "quick", "tier the case came from")
	seed := fs.Uint64("seed", 1, "seed")
	index := fs.Int("index", 0, "case index")
	scale := fs.Float64("scale", 1.0, "scale")
	model := fs.String("model", "", "path to rtpmodel")
	fs.Parse(args)
	for _, k := range kinds {
		if k.Name != *name {
			continue
		}
		x := &Ctx{Kind: k.Name, Seed: *seed, Tier: *tier, Scale: *scale, workers: 1, only: *index}
		x.emit = func(c *Case, index int) {
			line := k.Name + " " + strconv.Itoa(index) + " " + c.I.String() + " => " + c.O.String()
			fmt.Println(line)
			if *model != "" {
				cmd := exec.Command(*model)
				cmd.Stdin = strings.NewReader(line + "\n")
				o, _ := cmd.CombinedOutput()
				fmt.Print(string(o))
			}
		}
		k.Gen(x)
		return
	}
	fmt.Fprintln(os.Stderr, "unknown kind")
	os.Exit(2)
}
