package main

// Group h265: C14 (c14.acc.*, c14.dec, c14.rt) and the H265 parts of C08 / C09.
// Token grammar: see lean/Driver/Kinds/H265.lean.

import (
	"bytes"
	"encoding/binary"

	"github.com/pion/rtp/codecs"
)

// ---------------------------------------------------------------------------------------------
// views of what the real parser decoded (every accessor is called)

func h265WriteHdr(t *Toks, h codecs.H265NALUHeader) {
	t.Bool(h.F()).Nat(int(h.Type())).Nat(int(h.LayerID())).Nat(int(h.TID()))
}

func h265OptU16(t *Toks, p *uint16) {
	if p == nil {
		t.None()
	} else {
		t.Some().Nat(int(*p))
	}
}

func h265OptU8(t *Toks, p *uint8) {
	if p == nil {
		t.None()
	} else {
		t.Some().Nat(int(*p))
	}
}

// h265WriteView writes `view` for a decoded packet; raw is the payload it was decoded from (the
// aggregation packet struct does not keep its payload header).
func h265WriteView(t *Toks, pk interface{}, raw []byte) {
	switch v := pk.(type) {
	case *codecs.H265SingleNALUnitPacket:
		t.Tok("single")
		h265WriteHdr(t, v.PayloadHeader())
		h265OptU16(t, v.DONL())
		t.Bytes(v.Payload())
	case *codecs.H265AggregationPacket:
		t.Tok("ap")
		h265WriteHdr(t, codecs.H265NALUHeader(binary.BigEndian.Uint16(raw[0:2])))
		f := v.FirstUnit()
		h265OptU16(t, f.DONL())
		t.Nat(int(f.NALUSize())).Bytes(f.NalUnit())
		t.Nat(len(v.OtherUnits()))
		for _, u := range v.OtherUnits() {
			h265OptU8(t, u.DOND())
			t.Nat(int(u.NALUSize())).Bytes(u.NalUnit())
		}
	case *codecs.H265FragmentationUnitPacket:
		t.Tok("fu")
		h265WriteHdr(t, v.PayloadHeader())
		fh := v.FuHeader()
		t.Bool(fh.S()).Bool(fh.E()).Nat(int(fh.FuType()))
		h265OptU16(t, v.DONL())
		t.Bytes(v.Payload())
	case *codecs.H265PACIPacket:
		t.Tok("paci")
		h265WriteHdr(t, v.PayloadHeader())
		t.Bool(v.A()).Nat(int(v.CType())).Nat(int(v.PHSsize()))
		t.Bool(v.F0()).Bool(v.F1()).Bool(v.F2()).Bool(v.Y())
		t.Bytes(v.PHES()).Bytes(v.Payload())
		if ts := v.TSCI(); ts == nil {
			t.None()
		} else {
			t.Some().Nat(int(ts.TL0PICIDX())).Nat(int(ts.IrapPicID())).Bool(ts.S()).Bool(ts.E()).Nat(int(ts.RES()))
		}
	default:
		t.Tok("nilpkt")
	}
}

// h265Held is what a caller holds after one H265Packet.Unmarshal: the outcome and the decoded packet
// object (Packet()).  The accessors are read later (view), possibly after the SAME H265Packet has
// parsed further payloads: a receiver is normally one H265Packet per stream, and a jitter buffer or
// a reassembler keeps the decoded packets of a fragment train until the train is complete.
type h265Held struct {
	panicked, err bool
	pkt           interface{}
	raw           []byte
	kept          *h265Kept // sub-parser value used directly: the accessor results kept, see h265Kept
}

// h265Parse feeds payload to p (nil: a fresh H265Packet) and returns what the caller holds.
func h265Parse(p *codecs.H265Packet, donl bool, payload []byte) h265Held {
	h := h265Held{raw: payload}
	var err error
	h.panicked = try(func() {
		if p == nil {
			p = &codecs.H265Packet{}
			p.WithDONL(donl)
		}
		_, err = p.Unmarshal(payload)
		if err == nil {
			h.pkt = p.Packet()
		}
	})
	h.err = err != nil
	return h
}

// view writes `ok view | err other | panic` from what is held NOW.
func (h h265Held) view(t *Toks) {
	if h.panicked {
		t.Panic()
		return
	}
	if h.err {
		t.Err("other")
		return
	}
	var tmp Toks
	if try(func() {
		if h.kept != nil {
			h.kept.write(&tmp)
		} else {
			h265WriteView(&tmp, h.pkt, h.raw)
		}
	}) {
		t.Panic()
		return
	}
	t.Ok().Tok(tmp.String())
}

// h265Kept is what a caller keeps of one decoded packet when it uses an exported sub-parser VALUE
// directly and re-uses that value for the next payloads: the values the accessors returned right
// after the successful Unmarshal (header words, the DONL pointer, the payload slice, the FirstUnit()
// pointer and the OtherUnits() slice).  They are re-read (pointers followed, units asked for their
// NalUnit()/NALUSize()/DOND()) only after the later payloads have been decoded.
type h265Kept struct {
	kind   string
	hdr    codecs.H265NALUHeader
	donl   *uint16
	pay    []byte
	first  *codecs.H265AggregationUnitFirst
	others []codecs.H265AggregationUnit
}

type h265SubParser interface {
	Unmarshal(payload []byte) ([]byte, error)
}

// h265SubParse feeds payload to the sub-parser value p and returns what the caller holds: outcome and
// the accessor results of this decode.
func h265SubParse(p h265SubParser, payload []byte) h265Held {
	h := h265Held{raw: payload}
	var err error
	h.panicked = try(func() {
		_, err = p.Unmarshal(payload)
		if err != nil {
			return
		}
		switch v := p.(type) {
		case *codecs.H265SingleNALUnitPacket:
			h.kept = &h265Kept{kind: "single", hdr: v.PayloadHeader(), donl: v.DONL(), pay: v.Payload()}
		case *codecs.H265AggregationPacket:
			h.kept = &h265Kept{kind: "ap", hdr: codecs.H265NALUHeader(binary.BigEndian.Uint16(payload[0:2])),
				first: v.FirstUnit(), others: v.OtherUnits()}
		}
	})
	h.err = err != nil
	return h
}

func (k *h265Kept) write(t *Toks) {
	t.Tok(k.kind)
	h265WriteHdr(t, k.hdr)
	if k.kind == "single" {
		h265OptU16(t, k.donl)
		t.Bytes(k.pay)
		return
	}
	h265OptU16(t, k.first.DONL())
	t.Nat(int(k.first.NALUSize())).Bytes(k.first.NalUnit())
	t.Nat(len(k.others))
	for _, u := range k.others {
		h265OptU8(t, u.DOND())
		t.Nat(int(u.NALUSize())).Bytes(u.NalUnit())
	}
}

func h265Head(payload []byte) bool {
	return (&codecs.H265Packet{}).IsPartitionHead(payload)
}

// ---------------------------------------------------------------------------------------------
// an encoder of the four RFC 7798 payload structures, written from the RFC's diagrams with
// arithmetic on field values; independent of codecs/h265_packet.go.

type h265Hdr struct {
	F                bool
	Type, Layer, TID int
}

func (h h265Hdr) word() int {
	w := h.Type*512 + h.Layer*8 + h.TID
	if h.F {
		w += 32768
	}
	return w
}

func (h h265Hdr) toks(t *Toks) { t.Bool(h.F).Nat(h.Type).Nat(h.Layer).Nat(h.TID) }

func h265U16(n int) []byte { return []byte{byte(n / 256 % 256), byte(n % 256)} }

type h265Unit struct {
	Dond int // -1: absent
	Nal  []byte
}

type h265Desc struct {
	Kind    string // single | ap | fu | paci
	Hdr     h265Hdr
	Donl    int // -1: absent
	Payload []byte
	// ap
	First []byte
	Rest  []h265Unit
	// fu
	S, E   bool
	FuType int
	// paci
	A             bool
	CType, PHS    int
	F0, F1, F2, Y bool
	PHES          []byte
}

func h265B2i(b bool, v int) int {
	if b {
		return v
	}
	return 0
}

func (d *h265Desc) encode() []byte {
	out := h265U16(d.Hdr.word())
	donl := func() {
		if d.Donl >= 0 {
			out = append(out, h265U16(d.Donl)...)
		}
	}
	switch d.Kind {
	case "single":
		donl()
		out = append(out, d.Payload...)
	case "ap":
		donl()
		out = append(out, h265U16(len(d.First))...)
		out = append(out, d.First...)
		for _, u := range d.Rest {
			if u.Dond >= 0 {
				out = append(out, byte(u.Dond))
			}
			out = append(out, h265U16(len(u.Nal))...)
			out = append(out, u.Nal...)
		}
	case "fu":
		out = append(out, byte(h265B2i(d.S, 128)+h265B2i(d.E, 64)+d.FuType))
		donl()
		out = append(out, d.Payload...)
	case "paci":
		w := h265B2i(d.A, 32768) + d.CType*512 + d.PHS*16 + h265B2i(d.F0, 8) + h265B2i(d.F1, 4) + h265B2i(d.F2, 2) + h265B2i(d.Y, 1)
		out = append(out, h265U16(w)...)
		out = append(out, d.PHES...)
		out = append(out, d.Payload...)
	}
	return out
}

func h265OptInt(t *Toks, v int) {
	if v < 0 {
		t.None()
	} else {
		t.Some().Nat(v)
	}
}

func (d *h265Desc) toks(t *Toks) {
	t.Tok(d.Kind)
	d.Hdr.toks(t)
	switch d.Kind {
	case "single":
		h265OptInt(t, d.Donl)
		t.Bytes(d.Payload)
	case "ap":
		h265OptInt(t, d.Donl)
		t.Bytes(d.First)
		t.Nat(len(d.Rest))
		for _, u := range d.Rest {
			h265OptInt(t, u.Dond)
			t.Bytes(u.Nal)
		}
	case "fu":
		t.Bool(d.S).Bool(d.E).Nat(d.FuType)
		h265OptInt(t, d.Donl)
		t.Bytes(d.Payload)
	case "paci":
		t.Bool(d.A).Nat(d.CType).Nat(d.PHS).Bool(d.F0).Bool(d.F1).Bool(d.F2).Bool(d.Y)
		t.Bytes(d.PHES).Bytes(d.Payload)
	}
}

func h265PaySize(r *Rand) int {
	switch r.Intn(8) {
	case 0:
		return 1
	case 1:
		return r.Range(1, 3)
	case 2:
		return r.Range(100, 1500)
	default:
		return r.Range(1, 40)
	}
}

// h265GenDesc draws a well-formed packet description for a stream with/without DONL.
func h265GenDesc(r *Rand, kind int, mode bool) *h265Desc {
	d := &h265Desc{Donl: -1}
	d.Hdr = h265Hdr{Layer: r.Intn(64), TID: r.Intn(8)}
	donl := func() int { return r.Pick(0, 1, 255, 256, 65535, r.Intn(65536)) }
	switch kind {
	case 0:
		d.Kind = "single"
		d.Hdr.Type = r.Pick(r.Intn(48), r.Intn(48), 0, 1, 19, 32, 33, 34, 39, 47)
		if mode {
			d.Donl = donl()
		}
		d.Payload = r.Bytes(h265PaySize(r))
	case 1:
		d.Kind = "ap"
		d.Hdr.Type = 48
		if mode {
			d.Donl = donl()
		}
		nal := func() []byte {
			n := r.Pick(2, 2, 3, r.Range(2, 30), r.Range(2, 30), r.Range(2, 300))
			return r.Bytes(n)
		}
		d.First = nal()
		k := r.Pick(1, 1, 2, 3, r.Range(1, 8))
		for i := 0; i < k; i++ {
			u := h265Unit{Dond: -1, Nal: nal()}
			if mode {
				u.Dond = r.Pick(0, 0, 1, 255, r.Intn(256))
			}
			d.Rest = append(d.Rest, u)
		}
	case 2:
		d.Kind = "fu"
		d.Hdr.Type = 49
		// RFC 7798 4.4.3: S and E are never both set; FuType is the type of a plain NAL unit
		switch r.Intn(3) {
		case 0:
			d.S = true
		case 1:
			d.E = true
		}
		d.FuType = r.Pick(r.Intn(48), 0, 1, 19, 20, 21, 32, 47)
		if mode && d.S {
			d.Donl = donl()
		}
		d.Payload = r.Bytes(h265PaySize(r))
	default:
		d.Kind = "paci"
		d.Hdr.Type = 50
		d.A = r.Bool()
		d.CType = r.Intn(64)
		d.PHS = r.Pick(0, 0, 1, 2, 3, 3, 3, 4, 31, r.Intn(32))
		d.F0 = r.Chance(2, 3) && d.PHS >= 3 // F0 announces a TSCI, which takes three PHES octets
		d.F1, d.F2, d.Y = r.Chance(1, 4), r.Chance(1, 4), r.Chance(1, 4)
		d.PHES = r.Bytes(d.PHS)
		d.Payload = r.Bytes(h265PaySize(r))
	}
	return d
}

// h265FixSemantics turns a description that is well-formed as a field layout into one RFC 7798 also
// allows semantically (what lean/Driver/Kinds/H265.lean calls semanticOK): the units of an aggregation
// packet are NAL units with F = 0, a plain type 0-47 and at least one payload octet, the aggregation
// packet's LayerId / TID are the minima over its units (4.4.2); a PACI packet does not carry a PACI
// packet (4.4.4).  Only on such payloads does C14 demand exact decoding (c14.dec).
func h265FixSemantics(r *Rand, d *h265Desc) {
	switch d.Kind {
	case "ap":
		minLayer, minTID := 63, 7
		fix := func(n []byte) []byte {
			for len(n) < 3 {
				n = append(n, r.Byte())
			}
			typ := int(n[0]>>1) & 63
			if typ >= 48 {
				typ = r.Pick(r.Intn(48), 0, 1, 19, 32, 33, 34, 39, 47)
			}
			n[0] = byte(typ<<1) | n[0]&1 // F = 0, the high LayerId bit stays
			layer, tid := int(n[0]&1)<<5|int(n[1]>>3), int(n[1]&7)
			if layer < minLayer {
				minLayer = layer
			}
			if tid < minTID {
				minTID = tid
			}
			return n
		}
		d.First = fix(d.First)
		for i := range d.Rest {
			d.Rest[i].Nal = fix(d.Rest[i].Nal)
		}
		d.Hdr.Layer, d.Hdr.TID = minLayer, minTID
	case "paci":
		if d.CType == 50 {
			d.CType = r.Pick(r.Intn(48), 48, 49)
		}
	}
}

// ---------------------------------------------------------------------------------------------
// NAL unit and Annex-B generators

// h265GenUnit returns an HEVC NAL unit of `size` octets (size >= 2) whose type is 0–47 with F = 0.
// With wf the unit contains no start code and does not end in zero.
func h265GenUnit(r *Rand, size int, wf bool) []byte {
	if size < 2 {
		size = 2
	}
	u := make([]byte, size)
	typ, layer, tid := r.Intn(48), r.Pick(0, 0, r.Intn(64)), r.Pick(1, r.Intn(8))
	if r.Chance(1, 6) {
		typ = r.Pick(0, 1, 19, 20, 32, 33, 34, 35, 39, 40, 47)
	}
	u[0] = byte(typ<<1 | layer>>5)
	u[1] = byte((layer&31)<<3 | tid)
	alpha := r.Intn(3)
	for i := 2; i < size; i++ {
		switch alpha {
		case 0:
			u[i] = r.Byte()
		case 1:
			u[i] = byte(r.Pick(0, 0, 0, 1, 1, 2, 3, r.Intn(256)))
		default:
			u[i] = byte(i)
		}
	}
	if wf {
		for i := 2; i < size; i++ {
			if u[i] == 1 && u[i-1] == 0 && u[i-2] == 0 {
				u[i] = 3
			}
		}
		if u[size-1] == 0 && size > 2 {
			u[size-1] = 0x80
		}
	}
	return u
}

type h265Framed struct {
	SC   int // 0, 3, 4
	Unit []byte
}

func h265FrameBytes(f []h265Framed) []byte {
	out := []byte{}
	for _, u := range f {
		switch u.SC {
		case 3:
			out = append(out, 0, 0, 1)
		case 4:
			out = append(out, 0, 0, 0, 1)
		}
		out = append(out, u.Unit...)
	}
	return out
}

// h265UnitSize draws a unit size: emphasis on MTU-4 … MTU+1, otherwise 3 … 2·MTU.
func h265UnitSize(r *Rand, mtu int) int {
	var n int
	switch r.Intn(6) {
	case 0, 1:
		n = mtu + r.Range(-6, 2)
	case 2:
		n = r.Range(3, 8)
	case 3:
		n = r.Range(3, mtu/2+3)
	default:
		n = r.Range(3, 2*mtu+2)
	}
	if n < 3 {
		n = 3
	}
	return n
}

// h265Flags are the exported option fields of H265Payloader as they stand during one Payload call.
type h265Flags struct{ AddDONL, Skip bool }

// h265RtCase: a history on ONE payloader whose options stay as constructed.
func h265RtCase(c *Case, addDONL, skip bool, mtu int, frames [][]h265Framed) {
	flags := make([]h265Flags, len(frames))
	for i := range flags {
		flags[i] = h265Flags{addDONL, skip}
	}
	h265RtCaseF(c, mtu, flags, frames)
}

// h265RtCaseF: a history on ONE payloader; before call k the caller sets the exported fields AddDONL and
// SkipAggregation to flags[k] by hand (they are plain exported fields, nothing says they are frozen
// after the first call).  Input: `<mtu> <n> (<addDONL> <skipAgg> <units>)* <rx>`.
func h265RtCaseF(c *Case, mtu int, flags []h265Flags, frames [][]h265Framed) {
	c.I.Nat(mtu).Nat(len(frames))
	flipped := false
	for k, f := range frames {
		c.I.Bool(flags[k].AddDONL).Bool(flags[k].Skip).Nat(len(f))
		for _, u := range f {
			c.I.Nat(u.SC).Bytes(u.Unit)
		}
		if flags[k] != flags[0] {
			flipped = true
		}
	}
	if flipped {
		c.Tag("options-set-by-hand-between-calls")
	}
	// Receiving side: half of the cases parse every payload of the whole history with ONE H265Packet
	// (the others with a fresh one per payload).  In both the decoded packets are kept and their
	// accessors are read only after the last payload has been parsed.  Each call's packets are parsed
	// with the DONL setting that call was sent with (WithDONL on the reused receiver).
	var rx *codecs.H265Packet
	if c.R.Bool() {
		rx = &codecs.H265Packet{}
		c.Tag("rx=one-reused-H265Packet")
	}
	c.I.Bool(rx != nil)
	p := &codecs.H265Payloader{}
	c.O.Nat(len(frames))
	kinds := map[string]bool{}
	// payload the whole history first, decode afterwards: what a call returned must still be that
	// frame's packets when the later frames have been packetized
	type h265Out struct {
		out      [][]byte
		panicked bool
	}
	all := make([]h265Out, 0, len(frames))
	for k, f := range frames {
		p.AddDONL, p.SkipAggregation = flags[k].AddDONL, flags[k].Skip
		// the frame is handed over exactly sized or as a window of a larger array (payWindow)
		_, buf := payWindow(h265FrameBytes(f), mtu)
		var r h265Out
		r.panicked = try(func() { r.out = p.Payload(uint16(mtu), buf) })
		// the sender appends its trailer (auth tag, padding) to every payload in place
		scribbleSpare(r.out...)
		all = append(all, r)
	}
	// Every payload also goes to a second receiver: ONE H265Packet with SetZeroAllocation(true) for the
	// whole history, its accessors read right after each payload was decoded; the unchanged predicate
	// is evaluated on what it reports once more.
	z := &codecs.H265Packet{}
	z.SetZeroAllocation(true)
	held := make([][]h265Held, len(frames))
	zviews := make([][]string, len(frames))
	for k := range frames {
		if all[k].panicked {
			continue
		}
		if rx != nil {
			rx.WithDONL(flags[k].AddDONL)
		}
		z.WithDONL(flags[k].AddDONL)
		for _, pl := range all[k].out {
			held[k] = append(held[k], h265Parse(rx, flags[k].AddDONL, pl))
			var zt Toks
			h265Parse(z, flags[k].AddDONL, cloneBytes(pl)).view(&zt)
			zviews[k] = append(zviews[k], zt.String())
		}
	}
	for k, f := range frames {
		out := all[k].out
		if all[k].panicked {
			c.O.Panic()
			continue
		}
		c.O.Ok().Nat(len(out))
		for i, pl := range out {
			c.O.Bytes(pl)
			held[k][i].view(&c.O)
			c.O.Bool(h265Head(pl))
			c.O.Tok(zviews[k][i])
			if len(pl) >= 2 {
				switch (pl[0] >> 1) & 63 {
				case 48:
					kinds["ap"] = true
				case 49:
					kinds["fu"] = true
				default:
					kinds["single"] = true
				}
			}
		}
		for _, u := range f {
			switch d := len(u.Unit) - mtu; {
			case d >= -4 && d <= 1:
				kinds["size=mtu-4..mtu+1"] = true
			}
		}
		if flags[k].AddDONL {
			kinds["donl"] = true
		}
		if flags[k].Skip {
			kinds["skipagg"] = true
		}
	}
	for k := range kinds {
		c.Tag(k)
	}
}

func genH265Rt(x *Ctx) {
	cfgs := [][2]bool{{false, false}, {false, true}, {true, false}, {true, true}}
	// grid 1: one unit, every size 2 … 2·MTU+3, every MTU 4 … 20, every framing
	for _, cf := range cfgs {
		for mtu := 4; mtu <= 20; mtu++ {
			for n := 2; n <= 2*mtu+3; n++ {
				if cf[0] && n > mtu-3 {
					// AddDONL and a fragmented unit: the region of the known finding, see c14.rt.donlfu
					continue
				}
				for _, sc := range []int{0, 3, 4} {
					cf, mtu, n, sc := cf, mtu, n, sc
					x.Case(func(c *Case) {
						h265RtCase(c, cf[0], cf[1], mtu, [][]h265Framed{{{sc, h265GenUnit(c.R, n, true)}}})
					})
				}
			}
		}
	}
	// grid 2: two and three units around the aggregation boundary
	for _, cf := range cfgs {
		for _, mtu := range []int{9, 10, 11, 12, 13, 16, 18, 19, 24} {
			for a := 3; a <= mtu+1; a++ {
				for b := 3; b <= mtu+1; b += 1 + (a+b)%2 {
					cf, mtu, a, b := cf, mtu, a, b
					if cf[0] && (a > mtu-3 || b > mtu-3) {
						continue
					}
					x.Case(func(c *Case) {
						f := []h265Framed{{c.R.Pick(3, 4), h265GenUnit(c.R, a, true)}, {c.R.Pick(3, 4), h265GenUnit(c.R, b, true)}}
						if c.R.Bool() {
							f = append(f, h265Framed{c.R.Pick(3, 4), h265GenUnit(c.R, c.R.Range(3, 6), true)})
						}
						h265RtCase(c, cf[0], cf[1], mtu, [][]h265Framed{f})
					})
				}
			}
		}
	}
	// grid 3: the largest MTUs.  Every size the payloader tracks (unit length + 2, the running size of an
	// aggregation packet, fragment lengths) is bounded by the MTU, and two such sizes added together
	// reach past 65535 only here: two or three consecutive units that each fit a packet of their own
	// and together total about 65536 octets (40000 + 30000, 32765 + 32765 …), the neighbouring totals,
	// and single units of MTU-1 … MTU+1.
	type big struct {
		mtu   int
		sizes []int
	}
	bigs := []big{}
	for _, mtu := range []int{32767, 50000, 65535} {
		bigs = append(bigs,
			big{mtu, []int{40000, 30000}}, big{mtu, []int{20000, 45000}}, big{mtu, []int{30000, 20000, 25000}},
			big{mtu, []int{mtu - 5, 3}}, big{mtu, []int{mtu + 1}})
		// totals around 65536: len(a)+2 + len(b)+4 = 65534 … 65537 (and the same with the DONL fields)
		for _, t := range []int{65525, 65528, 65529, 65530, 65531, 65536} {
			a := t / 2
			if a > mtu-4 {
				a = mtu - 4
			}
			if t-a <= mtu+1 {
				bigs = append(bigs, big{mtu, []int{a, t - a}})
			}
		}
		if x.Thorough() {
			bigs = append(bigs, big{mtu, []int{45000, 20000}}, big{mtu, []int{25000, 25000, 25000}},
				big{mtu, []int{mtu - 4}}, big{mtu, []int{mtu - 3}}, big{mtu, []int{mtu - 2}}, big{mtu, []int{mtu - 1}}, big{mtu, []int{mtu}},
				big{mtu, []int{3, mtu - 9, 3}}, big{mtu, []int{mtu - 9, 3, 3}}, big{mtu, []int{65529 - 30000, 30000}}, big{mtu, []int{30000, 65532 - 30000}})
		}
	}
	for _, cf := range cfgs {
		for _, b := range bigs {
			cf, b := cf, b
			frag := false
			for _, n := range b.sizes {
				if n > b.mtu-3 {
					frag = true
				}
			}
			if cf[0] && frag {
				continue // AddDONL and a fragmented unit: c14.rt.donlfu
			}
			x.Case(func(c *Case) {
				f := []h265Framed{}
				for _, n := range b.sizes {
					f = append(f, h265Framed{c.R.Pick(3, 4), h265GenUnit(c.R, n, true)})
				}
				c.Tag("mtu>=32767")
				h265RtCase(c, cf[0], cf[1], b.mtu, [][]h265Framed{f})
			})
		}
	}
	// random stream
	for i, n := 0, x.N(6000, 600000); i < n; i++ {
		x.Case(func(c *Case) {
			r := c.R
			cf := cfgs[r.Intn(4)]
			mtu := r.Pick(r.Range(4, 64), r.Range(4, 64), r.Range(4, 24), 1200)
			if r.Chance(1, 40) {
				mtu = r.Pick(0, 1, 2, 3, 65535)
			}
			wf := !r.Chance(1, 12)
			nf := r.Pick(1, 1, 2, 3)
			// AddDONL and SkipAggregation are exported fields: in a quarter of the histories the caller
			// changes them by hand between Payload calls on the same payloader (at least one call is sent
			// with options other than the first call's)
			flip := r.Chance(1, 4)
			if flip {
				nf = r.Pick(2, 2, 3, 4)
			}
			flags := make([]h265Flags, nf)
			for j := range flags {
				flags[j] = h265Flags{cf[0], cf[1]}
			}
			if flip {
				at := r.Range(1, nf-1)
				for j := at; j < nf; j++ {
					o := cfgs[r.Intn(4)]
					if j == at {
						// differs from the first call's options, in AddDONL two times out of three
						for o == cf || (o[0] == cf[0] && r.Chance(1, 2)) {
							o = cfgs[r.Intn(4)]
						}
						flags[j] = h265Flags{o[0], o[1]}
					} else if r.Bool() {
						flags[j] = h265Flags{o[0], o[1]}
					} else {
						flags[j] = flags[j-1]
					}
				}
			}
			frames := make([][]h265Framed, nf)
			for j := range frames {
				k := r.Pick(1, 1, 2, 3, r.Range(1, 7))
				for q := 0; q < k; q++ {
					sz := h265UnitSize(r, mtu)
					if mtu > 64 && r.Chance(2, 3) {
						sz = r.Range(3, 60)
					}
					if sz > 3000 {
						sz = r.Range(3, 3000)
					}
					if flags[j].AddDONL && sz > mtu-3 && mtu >= 6 {
						// keep well-formed AddDONL calls out of the known-finding region
						sz = r.Range(3, mtu-3)
					}
					if !wf && r.Chance(1, 3) {
						sz = r.Range(0, 3)
					}
					u := h265GenUnit(r, sz, wf)
					if !wf {
						u = u[:min(len(u), sz)]
						if len(u) > 0 && r.Chance(1, 4) {
							u[0] = r.Byte() // F bit, types 48–63
						}
					}
					sc := r.Pick(3, 4)
					if k == 1 && r.Chance(1, 3) {
						sc = 0
					}
					if !wf && r.Chance(1, 6) {
						sc = 0
					}
					frames[j] = append(frames[j], h265Framed{sc, u})
				}
			}
			if !wf {
				c.Tag("not-wf")
			}
			h265RtCaseF(c, mtu, flags, frames)
		})
	}
}

// c14.rt.donlfu: AddDONL and at least one fragmented unit — the region of the open known finding
// c14_donl_fu (DONL in every FU).  Kept small and apart from c14.rt: inside the region the model
// describes the defective behaviour, and every case is reported as an instance of the finding.
func genH265RtDonlFu(x *Ctx) {
	for _, skip := range []bool{false, true} {
		for mtu := 6; mtu <= 12; mtu++ {
			for _, n := range []int{mtu - 2, mtu - 1, mtu, mtu + 1, 2*mtu - 7, 2 * mtu} {
				skip, mtu, n := skip, mtu, n
				x.Case(func(c *Case) {
					f := []h265Framed{{c.R.Pick(0, 3, 4), h265GenUnit(c.R, n, true)}}
					h265RtCase(c, true, skip, mtu, [][]h265Framed{f})
				})
			}
		}
	}
	for i, n := 0, x.N(12, 40); i < n; i++ {
		x.Case(func(c *Case) {
			r := c.R
			mtu := r.Pick(r.Range(6, 64), 1200)
			f := []h265Framed{{4, h265GenUnit(r, r.Range(3, mtu-3), true)}, {3, h265GenUnit(r, mtu+r.Range(-2, 40), true)},
				{4, h265GenUnit(r, r.Range(3, mtu-3), true)}}
			h265RtCase(c, true, r.Bool(), mtu, [][]h265Framed{f, f[:2]})
		})
	}
	// the options set by hand between calls, inside the region: a call with AddDONL that fragments a
	// unit and, before or after it on the same payloader at the same MTU, a call without AddDONL that
	// fragments one too.  The calls without AddDONL are outside the finding and must be exact.
	for _, dir := range []bool{false, true} {
		for mtu := 6; mtu <= 12; mtu++ {
			for _, n := range []int{mtu - 1, mtu + 1, 2*mtu + 6} {
				dir, mtu, n := dir, mtu, n
				x.Case(func(c *Case) {
					r := c.R
					mk := func(n int) []h265Framed { return []h265Framed{{r.Pick(0, 3, 4), h265GenUnit(r, n, true)}} }
					flags := []h265Flags{{dir, r.Bool()}, {!dir, r.Bool()}}
					frames := [][]h265Framed{mk(n), mk(r.Pick(n, mtu-1, 2*mtu+6, 3*mtu))}
					if r.Bool() {
						flags = append(flags, h265Flags{dir, r.Bool()})
						frames = append(frames, mk(r.Pick(n, mtu+1, 2*mtu)))
					}
					h265RtCaseF(c, mtu, flags, frames)
				})
			}
		}
	}
	for i, n := 0, x.N(24, 400); i < n; i++ {
		x.Case(func(c *Case) {
			r := c.R
			mtu := r.Pick(r.Range(6, 64), r.Range(6, 24), 1200)
			nf := r.Range(2, 4)
			flags := make([]h265Flags, nf)
			frames := make([][]h265Framed, nf)
			donlAt := r.Intn(nf)
			for j := range frames {
				flags[j] = h265Flags{j == donlAt || r.Chance(1, 3), r.Bool()}
				k := r.Pick(1, 1, 2, 3)
				for q := 0; q < k; q++ {
					sz := r.Pick(mtu+r.Range(-2, 40), mtu+r.Range(-2, 40), r.Range(3, mtu-3))
					if j == donlAt && q == 0 {
						sz = mtu + r.Range(-2, 40)
					}
					frames[j] = append(frames[j], h265Framed{r.Pick(3, 4), h265GenUnit(r, sz, true)})
				}
			}
			h265RtCaseF(c, mtu, flags, frames)
		})
	}
}

// ---------------------------------------------------------------------------------------------
// c14.dec

func h265DecCase(c *Case, mode bool, d *h265Desc, cut int) {
	full := d.encode()
	fed := full
	c.I.Bool(mode)
	d.toks(&c.I)
	if cut >= 0 {
		fed = full[:cut]
		c.I.Some().Nat(cut)
		c.Tag(d.Kind + "-cut")
	} else {
		c.I.None()
		c.Tag(d.Kind + "-full")
	}
	c.I.Bytes(fed)
	in := cloneBytes(fed)
	if in == nil {
		in = []byte{}
	}
	// Half of the cases use a receiver with a history: the H265Packet has parsed one or two
	// well-formed payloads of the same stream before the payload under test (`before`), and parses
	// one more after it (`after`) while the caller still holds the packet decoded from the payload
	// under test; its accessors are read at the end.  The neighbours are drawn with a preference for
	// the form under test (a fragment among fragments, …).
	var before, after [][]byte
	var rx *codecs.H265Packet
	var sub h265SubParser
	kindOf := map[string]int{"single": 0, "ap": 1, "fu": 2, "paci": 3}[d.Kind]
	neighbour := func(same bool) []byte {
		k := kindOf
		if !same && c.R.Chance(1, 3) {
			k = c.R.Intn(4)
		}
		n := h265GenDesc(c.R, k, mode)
		if len(n.Payload) > 24 {
			n.Payload = n.Payload[:24]
		}
		h265FixSemantics(c.R, n)
		return n.encode()
	}
	if c.R.Bool() {
		rx = &codecs.H265Packet{}
		rx.WithDONL(mode)
		for i, k := 0, c.R.Pick(0, 1, 1, 2); i < k; i++ {
			before = append(before, neighbour(false))
		}
		if len(before) == 0 || c.R.Bool() {
			after = append(after, neighbour(false))
		}
		c.Tag("rx=H265Packet-with-history")
	} else if kindOf <= 1 && c.R.Bool() {
		// The exported sub-parser of the form under test used directly, as ONE value that decodes the
		// stream's packets of that form one after the other (H265SingleNALUnitPacket,
		// H265AggregationPacket: every successful Unmarshal sets everything their accessors read).  The
		// caller keeps what the accessors returned for the payload under test (h265Kept) and reads it
		// after the value has decoded further payloads.
		if kindOf == 0 {
			q := &codecs.H265SingleNALUnitPacket{}
			q.WithDONL(mode)
			sub = q
		} else {
			q := &codecs.H265AggregationPacket{}
			q.WithDONL(mode)
			sub = q
		}
		for i, k := 0, c.R.Pick(0, 1, 1, 2); i < k; i++ {
			before = append(before, neighbour(true))
		}
		for i, k := 0, c.R.Pick(0, 1, 1, 2); i < k; i++ {
			after = append(after, neighbour(true))
		}
		c.Tag("rx=sub-parser-value-reused")
	}
	c.I.BytesList(before).BytesList(after).Bool(sub != nil)
	// Every case also hands `before` and the payload to a second receiver: ONE H265Packet with
	// SetZeroAllocation(true) (the switch every depacketizer of the package has).  Its accessors are read
	// right after the payload under test was decoded (in that mode a caller does not hold decoded packets
	// across calls), and the unchanged predicate is evaluated on them once more.
	z := &codecs.H265Packet{}
	z.WithDONL(mode)
	z.SetZeroAllocation(true)
	for _, b := range before {
		h265Parse(z, mode, cloneBytes(b))
	}
	var zview Toks
	h265Parse(z, mode, cloneBytes(in)).view(&zview)
	var h h265Held
	if sub != nil {
		for _, b := range before {
			h265SubParse(sub, b)
		}
		h = h265SubParse(sub, in)
		for _, a := range after {
			h265SubParse(sub, a)
		}
	} else {
		for _, b := range before {
			h265Parse(rx, mode, b)
		}
		h = h265Parse(rx, mode, in)
		for _, a := range after {
			h265Parse(rx, mode, a)
		}
	}
	h.view(&c.O)
	c.O.Bool(h265Head(in))
	c.O.Tok(zview.String())
}

func genH265Dec(x *Ctx) {
	for i, n := 0, x.N(700, 40000); i < n; i++ {
		i := i
		var full []byte
		var d *h265Desc
		mode := i%2 == 1
		kind := (i / 2) % 4
		// the description is drawn once (from the first case's PRNG) and re-drawn identically for
		// every truncation, so each case replays on its own
		mk := func() *h265Desc {
			r := newRand(x.Seed, x.Kind+"/desc", i)
			d := h265GenDesc(r, kind, mode)
			if i < 8 {
				// the first cases stay short (readable sample lines in the evidence)
				if len(d.Payload) > 6 {
					d.Payload = d.Payload[:6]
				}
				if len(d.First) > 6 {
					d.First = d.First[:6]
				}
				if len(d.Rest) > 2 {
					d.Rest = d.Rest[:2]
				}
				for j := range d.Rest {
					if len(d.Rest[j].Nal) > 6 {
						d.Rest[j].Nal = d.Rest[j].Nal[:6]
					}
				}
			}
			// about one description in ten stays as drawn (random inner units, random AP header ids,
			// nested PACI): RFC 7798 forbids those, they are compared with the model only
			if r.Intn(10) != 0 {
				h265FixSemantics(r, d)
			}
			return d
		}
		x.Case(func(c *Case) { h265DecCase(c, mode, mk(), -1) })
		d = mk()
		full = d.encode()
		cuts := len(full)
		for cut := 0; cut < cuts; cut++ {
			if cut > 80 && cut < cuts-40 && cut%17 != 0 {
				continue
			}
			cut := cut
			x.Case(func(c *Case) { h265DecCase(c, mode, mk(), cut) })
		}
	}
}

// ---------------------------------------------------------------------------------------------
// c14.acc.*

func genH265AccHdr(x *Ctx) {
	for h := 0; h < 65536; h++ {
		h := h
		x.Case(func(c *Case) {
			c.I.Nat(h)
			v := codecs.H265NALUHeader(uint16(h))
			c.O.Bool(v.F()).Nat(int(v.Type())).Bool(v.IsTypeVCLUnit()).Nat(int(v.LayerID())).Nat(int(v.TID()))
			c.O.Bool(v.IsAggregationPacket()).Bool(v.IsFragmentationUnit()).Bool(v.IsPACIPacket())
		})
	}
}

func genH265AccFu(x *Ctx) {
	for b := 0; b < 256; b++ {
		b := b
		x.Case(func(c *Case) {
			c.I.Nat(b)
			v := codecs.H265FragmentationUnitHeader(uint8(b))
			c.O.Bool(v.S()).Bool(v.E()).Nat(int(v.FuType()))
		})
	}
}

func genH265AccPaci(x *Ctx) {
	for w := 0; w < 65536; w++ {
		w := w
		x.Case(func(c *Case) {
			c.I.Nat(w)
			pl := append([]byte{50 << 1, 1, byte(w >> 8), byte(w)}, c.R.Bytes(32)...)
			p := &codecs.H265PACIPacket{}
			if _, err := p.Unmarshal(pl); err != nil {
				c.O.Tok("unmarshal-failed")
				return
			}
			c.O.Bool(p.A()).Nat(int(p.CType())).Nat(int(p.PHSsize())).Bool(p.F0()).Bool(p.F1()).Bool(p.F2()).Bool(p.Y())
		})
	}
}

// TSCI() of a PACI packet whose PHES begins with a b c, for 256 consecutive c per case.
func genH265AccTsci(x *Ctx) {
	one := func(a, b, c0, cnt int) {
		x.Case(func(c *Case) {
			c.I.Nat(a).Nat(b).Nat(c0).Nat(cnt)
			c.O.Nat(cnt)
			for cc := c0; cc < c0+cnt; cc++ {
				phs := c.R.Pick(3, 3, 4, 31, c.R.Range(3, 31))
				w := c.R.Intn(65536)&^(31<<4) | phs<<4 | 8
				pl := []byte{50 << 1, 1, byte(w >> 8), byte(w), byte(a), byte(b), byte(cc)}
				pl = append(pl, c.R.Bytes(phs-3+1)...)
				p := &codecs.H265PACIPacket{}
				if _, err := p.Unmarshal(pl); err != nil {
					c.O.Tok("unmarshal-failed")
					return
				}
				ts := p.TSCI()
				if ts == nil {
					c.O.None()
					continue
				}
				c.O.Some().Nat(int(ts.TL0PICIDX())).Nat(int(ts.IrapPicID())).Bool(ts.S()).Bool(ts.E()).Nat(int(ts.RES()))
			}
		})
	}
	// short cases first (every worker's sample lines stay readable)
	for i := 0; i < 64; i++ {
		one(0xAA, 0xBB, i*4, 4)
	}
	if x.Thorough() {
		for a := 0; a < 256; a++ {
			for b := 0; b < 256; b++ {
				one(a, b, 0, 256)
			}
		}
		return
	}
	for a := 0; a < 256; a++ {
		for _, b := range []int{0, 1, 0x55, 0x7f, 0x80, 0xaa, 0xff, a, 255 - a, (a * 7) % 256} {
			one(a, b, 0, 256)
		}
	}
}

// ---------------------------------------------------------------------------------------------
// c08.h265

// h265Stream draws an Annex-B-like input: units, start codes, junk, zeros.
func h265Stream(r *Rand, mtu int) []byte {
	switch r.Intn(10) {
	case 0:
		return r.Bytes(r.Size(200, mtu, 2*mtu))
	case 1:
		n := r.Size(120, mtu)
		b := make([]byte, n)
		for i := range b {
			b[i] = byte(r.Pick(0, 0, 0, 1, 1, 2, r.Intn(256)))
		}
		return b
	}
	out := []byte{}
	if r.Chance(1, 5) {
		out = append(out, r.Bytes(r.Intn(4))...)
	}
	k := r.Pick(1, 1, 2, 3, 4, r.Range(1, 10))
	m := mtu
	if m > 80 {
		m = 80
	}
	for i := 0; i < k; i++ {
		if !(i == 0 && r.Chance(1, 4)) {
			if r.Bool() {
				out = append(out, 0)
			}
			out = append(out, 0, 0, 1)
		}
		n := r.Pick(0, 1, 2, 3, h265UnitSize(r, m+1), h265UnitSize(r, m+1), h265UnitSize(r, m+1))
		if mtu > 80 && r.Chance(1, 3) && len(out) < 2000 {
			// one unit around the MTU itself (the Annex-B model recurses once per octet: keep
			// the whole buffer below ~70 kB)
			n = mtu + r.Range(-8, 8)
		}
		u := h265GenUnit(r, n, r.Chance(3, 4))
		if n < 2 {
			u = u[:n]
		}
		out = append(out, u...)
		if r.Chance(1, 10) {
			out = append(out, make([]byte, r.Intn(3))...)
		}
	}
	return out
}

func genH265C08(x *Ctx) {
	cfgs := [][2]bool{{false, false}, {false, true}, {true, false}, {true, true}}
	mk := func(cf [2]bool) func() payloader {
		return func() payloader { return &codecs.H265Payloader{AddDONL: cf[0], SkipAggregation: cf[1]} }
	}
	run := func(c *Case, cf [2]bool, calls []PayCall) {
		c.I.Bool(cf[0]).Bool(cf[1])
		writeCalls(&c.I, calls)
		triv := true
		for _, k := range calls {
			if len(k.Input) > 0 && k.MTU > 0 {
				triv = false
			}
		}
		if triv {
			c.Trivial()
		}
		for _, k := range calls {
			switch {
			case k.Input == nil:
				c.Tag("input=nil")
			case len(k.Input) == 0:
				c.Tag("input=empty")
			}
			switch {
			case k.MTU <= 20:
				c.Tag("mtu<=20")
			case k.MTU <= 64:
				c.Tag("mtu 21-64")
			default:
				c.Tag("mtu>=1200")
			}
		}
		if len(calls) > 1 {
			c.Tag("history>1")
		}
		if cf[0] {
			c.Tag("donl")
		}
		if cf[1] {
			c.Tag("skipagg")
		}
		observePayHist(&c.O, mk(cf), calls)
	}
	seeds := [][]byte{
		nil, {}, {0}, {0, 0, 1}, {0, 0, 0, 1}, {0x40}, {0x40, 1}, {0x40, 1, 0x0c},
		{0, 0, 1, 0x40, 1}, {0, 0, 1, 0x40, 1, 0x0c}, {0, 0, 0, 1, 0x40, 1, 0x0c, 0xff},
		{0, 0, 1, 0, 0, 1}, {0, 0, 1, 0x40, 1, 0, 0, 1, 0x42, 1}, {0, 0, 1, 0x40, 1, 2, 0, 0, 0, 1, 0x42, 1, 3},
		{0, 0, 1, 0x40, 1, 2, 3, 0, 0, 1, 0x42, 1, 3, 4, 0, 0, 1, 0x44, 1, 5},
		{0xff, 0xff, 0xff, 0xff, 0xff, 0xff, 0xff, 0xff, 0xff, 0xff},
		{0x62, 1, 0x80, 1, 2, 3, 4, 5, 6, 7, 8, 9, 10, 11, 12},
		{7, 0, 0, 1}, {0, 0, 1, 0x26, 1, 0, 0}, {0x26, 1, 9, 8, 7, 6, 5, 4, 3, 2, 1, 9, 8, 7, 6, 5, 4, 3, 2, 1, 9, 8, 7, 6},
	}
	for _, cf := range cfgs {
		for mtu := 0; mtu <= 20; mtu++ {
			for _, s := range seeds {
				cf, mtu, s := cf, mtu, s
				x.Case(func(c *Case) { run(c, cf, []PayCall{{uint16(mtu), cloneBytes(s)}}) })
			}
			// every single-unit size 2 … 2·MTU+3, raw
			for n := 2; n <= 2*mtu+3; n++ {
				cf, mtu, n := cf, mtu, n
				x.Case(func(c *Case) { run(c, cf, []PayCall{{uint16(mtu), h265GenUnit(c.R, n, true)}}) })
			}
		}
	}
	for i, n := 0, x.N(5000, 500000); i < n; i++ {
		x.Case(func(c *Case) {
			r := c.R
			cf := cfgs[r.Intn(4)]
			k := r.Pick(1, 2, 3, r.Range(1, 6))
			calls := make([]PayCall, k)
			for j := range calls {
				var mtu int
				switch w := r.Intn(24); {
				case w < 10:
					mtu = r.Range(0, 20)
				case w < 19:
					mtu = r.Range(21, 64)
				case w < 21:
					mtu = 1200
				case w < 23:
					mtu = 1500
				default:
					mtu = 65535
				}
				var in []byte
				switch r.Intn(12) {
				case 0:
					in = nil
				case 1:
					in = []byte{}
				default:
					in = h265Stream(r, mtu)
				}
				calls[j] = PayCall{uint16(mtu), in}
			}
			run(c, cf, calls)
		})
	}
}

// ---------------------------------------------------------------------------------------------
// c09.h265

type h265DepRes struct {
	panicked bool
	err      bool
	out      []byte
	view     string
}

func h265DepCall(p *codecs.H265Packet, payload []byte) h265DepRes {
	var r h265DepRes
	var err error
	var tmp Toks
	r.panicked = try(func() {
		r.out, err = p.Unmarshal(payload)
		if err == nil {
			h265WriteView(&tmp, p.Packet(), payload)
		}
	})
	r.err = err != nil
	r.view = "nilpkt"
	if !r.panicked && !r.err {
		r.view = tmp.String()
	}
	return r
}

func (a h265DepRes) sameResult(b h265DepRes) bool {
	return a.panicked == b.panicked && a.err == b.err && bytes.Equal(a.out, b.out)
}

// h265DepHist feeds the payloads to ONE receiver (and a twin fed pristine copies); after each
// call the buffer that was handed to the main receiver is overwritten.
func h265DepHist(c *Case, donl bool, payloads [][]byte) {
	c.I.Bool(donl).Nat(len(payloads))
	for _, p := range payloads {
		c.I.OBytes(p)
	}
	main, twin := &codecs.H265Packet{}, &codecs.H265Packet{}
	main.WithDONL(donl)
	twin.WithDONL(donl)
	c.O.Nat(len(payloads))
	for _, pl := range payloads {
		buf := cloneBytes(pl)
		r := h265DepCall(main, buf)
		var head, t0, t1 bool
		aux := try(func() {
			head = main.IsPartitionHead(buf)
			t0 = main.IsPartitionTail(false, buf)
			t1 = main.IsPartitionTail(true, buf)
		})
		fresh := &codecs.H265Packet{}
		fresh.WithDONL(donl)
		fr := h265DepCall(fresh, cloneBytes(pl))
		tw := h265DepCall(twin, cloneBytes(pl))
		switch {
		case r.panicked:
			c.O.Panic()
		case r.err:
			c.O.Err("other")
		default:
			c.O.Ok().Bytes(r.out)
		}
		c.O.Tok(r.view)
		c.O.Bool(head).Bool(t0).Bool(t1).Bool(aux)
		c.O.Bool(r.sameResult(fr) && r.view == fr.view)
		c.O.Bool(r.sameResult(tw))
		for i := range buf {
			buf[i] ^= 0xA5
		}
	}
}

// h265Garbage draws a payload with an alphabet that reaches every parser branch.
func h265Garbage(r *Rand) []byte {
	n := r.Pick(0, 1, 2, 3, 4, 5, 6, 7, r.Range(0, 12), r.Range(0, 40))
	b := r.Bytes(n)
	if n > 0 && r.Chance(3, 4) {
		b[0] = byte(r.Pick(48, 49, 50, 48, 49, 50, r.Intn(64))<<1 | r.Pick(0, 0, 0, 1))
		if r.Chance(1, 20) {
			b[0] |= 0x80
		}
	}
	for i := 2; i < n; i++ {
		if r.Chance(1, 2) {
			b[i] = byte(r.Pick(0, 0, 1, 2, 3, 4, 0x80, 0xc0, 0x38, 0xff))
		}
	}
	return b
}

func h265Mutate(r *Rand, b []byte) []byte {
	b = cloneBytes(b)
	switch r.Intn(5) {
	case 0:
		if len(b) > 0 {
			b = b[:r.Intn(len(b))]
		}
	case 1:
		if len(b) > 0 {
			b[r.Intn(len(b))] ^= 1 << uint(r.Intn(8))
		}
	case 2:
		b = append(b, r.Bytes(r.Range(1, 4))...)
	case 3:
		if len(b) > 0 {
			b[r.Intn(min(len(b), 8))] = r.Byte()
		}
	}
	return b
}

func genH265C09(x *Ctx) {
	// a few short histories first (nil, empty, one of each packet form, a truncated one)
	for i := 0; i < 48; i++ {
		i := i
		x.Case(func(c *Case) {
			donl := i%2 == 1
			d := h265GenDesc(c.R, (i/2)%4, donl)
			if len(d.Payload) > 8 {
				d.Payload = d.Payload[:8]
			}
			b := d.encode()
			h265DepHist(c, donl, [][]byte{nil, b, {}, b[:len(b)/2], b})
		})
	}
	// all strings of at most 2 octets (3 in the thorough tier), 128 per receiver
	var batch [][]byte
	flush := func(donl bool) {
		if len(batch) == 0 {
			return
		}
		b := batch
		batch = nil
		x.Case(func(c *Case) { h265DepHist(c, donl, b) })
	}
	for _, donl := range []bool{false, true} {
		batch = append(batch, nil, []byte{})
		for a := 0; a < 256; a++ {
			batch = append(batch, []byte{byte(a)})
		}
		flush(donl)
		for a := 0; a < 256; a++ {
			for b := 0; b < 256; b++ {
				batch = append(batch, []byte{byte(a), byte(b)})
				if len(batch) == 128 {
					flush(donl)
				}
			}
		}
		flush(donl)
		if x.Thorough() {
			for a := 0; a < 256; a++ {
				for b := 0; b < 256; b++ {
					for cc := 0; cc < 256; cc++ {
						batch = append(batch, []byte{byte(a), byte(b), byte(cc)})
					}
					flush(donl)
				}
			}
		} else {
			// first octet: every type with F=0 and one with F=1; third octet: S/E/type corners
			for a := 0; a < 256; a++ {
				for _, b := range []int{0, 1, 0xff} {
					for _, cc := range []int{0, 0x40, 0x80, 0xc0, 0x13, 0xff} {
						batch = append(batch, []byte{byte(a), byte(b), byte(cc)})
					}
				}
				flush(donl)
			}
		}
	}
	for i, n := 0, x.N(4000, 300000); i < n; i++ {
		x.Case(func(c *Case) {
			r := c.R
			donl := r.Bool()
			k := r.Pick(1, 2, 3, 5, r.Range(1, 12))
			pls := make([][]byte, k)
			for j := range pls {
				switch r.Intn(8) {
				case 0:
					pls[j] = nil
				case 1, 2, 3:
					pls[j] = h265Garbage(r)
				default:
					d := h265GenDesc(r, r.Intn(4), r.Chance(3, 4) == donl)
					if len(d.Payload) > 60 {
						d.Payload = d.Payload[:60]
					}
					b := d.encode()
					if r.Chance(1, 2) {
						b = h265Mutate(r, b)
					}
					pls[j] = b
				}
			}
			h265DepHist(c, donl, pls)
		})
	}
}

// c09.h265.sub: the four exported sub-parsers called directly (fresh receiver per payload).
type h265Sub interface {
	Unmarshal(payload []byte) ([]byte, error)
}

func h265SubCase(c *Case, which int, donl bool, payload []byte) {
	c.I.Nat(which).Bool(donl).OBytes(payload)
	var tmp Toks
	var err error
	if try(func() {
		var p h265Sub
		switch which {
		case 0:
			q := &codecs.H265SingleNALUnitPacket{}
			q.WithDONL(donl)
			p = q
		case 1:
			q := &codecs.H265AggregationPacket{}
			q.WithDONL(donl)
			p = q
		case 2:
			q := &codecs.H265FragmentationUnitPacket{}
			q.WithDONL(donl)
			p = q
		default:
			p = &codecs.H265PACIPacket{}
		}
		_, err = p.Unmarshal(payload)
		if err == nil {
			h265WriteView(&tmp, p, payload)
		}
	}) {
		c.O.Panic()
		return
	}
	if err != nil {
		c.O.Err("other")
		return
	}
	c.O.Ok().Tok(tmp.String())
}

func genH265Sub(x *Ctx) {
	for which := 0; which < 4; which++ {
		for _, donl := range []bool{false, true} {
			which, donl := which, donl
			x.Case(func(c *Case) { h265SubCase(c, which, donl, nil) })
			x.Case(func(c *Case) { h265SubCase(c, which, donl, []byte{}) })
			for a := 0; a < 256; a++ {
				a := a
				x.Case(func(c *Case) { h265SubCase(c, which, donl, []byte{byte(a), 1, byte(a * 7), 0, 1, 0x80}[:1+a%6]) })
			}
		}
	}
	for i, n := 0, x.N(6000, 400000); i < n; i++ {
		x.Case(func(c *Case) {
			r := c.R
			which, donl := r.Intn(4), r.Bool()
			var b []byte
			if r.Chance(1, 3) {
				b = h265Garbage(r)
				if len(b) > 0 && r.Chance(2, 3) {
					b[0] = byte([]int{r.Intn(48), 48, 49, 50}[which]<<1) | b[0]&1
				}
			} else {
				kind := which
				if r.Chance(1, 5) {
					kind = r.Intn(4)
				}
				d := h265GenDesc(r, kind, r.Chance(4, 5) == donl)
				if len(d.Payload) > 40 {
					d.Payload = d.Payload[:40]
				}
				b = d.encode()
				if r.Chance(1, 2) {
					b = h265Mutate(r, b)
				}
			}
			h265SubCase(c, which, donl, b)
		})
	}
}

func init() {
	register("c09.h265.sub", "C09", genH265Sub)
	register("c14.acc.hdr", "C14", genH265AccHdr)
	register("c14.acc.fu", "C14", genH265AccFu)
	register("c14.acc.paci", "C14", genH265AccPaci)
	register("c14.acc.tsci", "C14", genH265AccTsci)
	register("c14.dec", "C14", genH265Dec)
	register("c14.rt", "C14", genH265Rt)
	register("c14.rt.donlfu", "C14", genH265RtDonlFu)
	register("c08.h265", "C08", genH265C08)
	register("c09.h265", "C09", genH265C09)
}
