package main

// c07.race — the sequencer under the Go race detector.
//
// The harness itself is built without -race (CGO is off in ./check), so this kind builds and runs a
// tiny stress program in a scratch module (replace github.com/pion/rtp => the tree under test) with
// `go run -race`.  Observation: whether the detector could be run at all, and whether it reported a
// data race.  The predicate requires "no race reported"; when the detector is unavailable (no cgo
// toolchain) the case is marked trivial and passes — the syntactic lock facts (c07.facts) and the
// linearizability stress (c07.hist) do not depend on it.

import (
	"bytes"
	"context"
	"os"
	"os/exec"
	"path/filepath"
	"strings"
	"time"
)

const pktzRaceMain = `package main

import (
	"fmt"
	"os"
	"sync"

	"github.com/pion/rtp"
)

func main() {
	s := rtp.NewFixedSequencer(65000)
	var wg sync.WaitGroup
	for g := 0; g < 8; g++ {
		g := g
		wg.Add(1)
		go func() {
			defer wg.Done()
			for i := 0; i < 20000; i++ {
				if (i+g)%5 == 0 {
					s.RollOverCount()
				} else {
					s.NextSequenceNumber()
				}
			}
		}()
	}
	wg.Wait()
	// 8*20000*4/5 = 128000 values issued from 65000: 193000 - 1 -> two wraps
	if roc := s.RollOverCount(); roc != 2 {
		fmt.Println("WRONG-ROC", roc)
		os.Exit(3)
	}
	fmt.Println("DONE")
}
`

// pktzRunRace returns (ran, raceReported, wrongResult).
func pktzRunRace(repo string) (bool, bool, bool) {
	base := filepath.Join(".work", "C07")
	if st, err := os.Stat(base); err != nil || !st.IsDir() {
		base = os.TempDir()
	}
	dir, err := os.MkdirTemp(base, "race")
	if err != nil {
		return false, false, false
	}
	defer os.RemoveAll(dir)
	abs, err := filepath.Abs(dir)
	if err != nil {
		return false, false, false
	}
	gomod := "module verifrace\n\ngo 1.20\n\nrequire github.com/pion/rtp v0.0.0\n\nrequire github.com/pion/randutil v0.1.0 // indirect\n\nreplace github.com/pion/rtp => " + repo + "\n"
	if os.WriteFile(filepath.Join(abs, "go.mod"), []byte(gomod), 0o644) != nil ||
		os.WriteFile(filepath.Join(abs, "main.go"), []byte(pktzRaceMain), 0o644) != nil {
		return false, false, false
	}
	if sum, err := os.ReadFile(filepath.Join(repo, "go.sum")); err == nil {
		os.WriteFile(filepath.Join(abs, "go.sum"), sum, 0o644) //nolint
	}
	ctx, cancel := context.WithTimeout(context.Background(), 240*time.Second)
	defer cancel()
	cmd := exec.CommandContext(ctx, "go", "run", "-race", ".")
	cmd.Dir = abs
	env := []string{}
	for _, e := range os.Environ() {
		if strings.HasPrefix(e, "CGO_ENABLED=") || strings.HasPrefix(e, "GOFLAGS=") || strings.HasPrefix(e, "GOMEMLIMIT=") {
			continue
		}
		env = append(env, e)
	}
	cmd.Env = append(env, "CGO_ENABLED=1", "GOFLAGS=-mod=mod", "GOPROXY=off", "GOSUMDB=off", "GOTOOLCHAIN=local")
	var out bytes.Buffer
	cmd.Stdout = &out
	cmd.Stderr = &out
	runErr := cmd.Run()
	text := out.String()
	race := strings.Contains(text, "DATA RACE")
	wrong := strings.Contains(text, "WRONG-ROC")
	done := strings.Contains(text, "DONE")
	if !race && !wrong && !done {
		// could not build or run with -race (no cgo toolchain, etc.)
		_ = runErr
		return false, false, false
	}
	return true, race, wrong
}

func genC07Race(x *Ctx) {
	x.Case(func(c *Case) {
		ran, race, wrong := pktzRunRace(pktzRepoDir())
		c.I.Tok("go-run-race")
		if !ran {
			c.Trivial()
			c.Tag("race-detector-unavailable")
		} else {
			c.Tag("race-detector-ran")
		}
		c.O.Bool(ran).Bool(race).Bool(wrong)
	})
}

func init() {
	register("c07.race", "C07", genC07Race)
}
