package main

// Observers shared by several kinds: call the real code, recover panics, probe ownership.

import (
	"bytes"
	"unsafe"
)

// try runs f and reports whether it panicked.
func try(f func()) (panicked bool) {
	defer func() {
		if r := recover(); r != nil {
			panicked = true
		}
	}()
	f()
	return false
}

func cloneBytes(b []byte) []byte {
	if b == nil {
		return nil
	}
	c := make([]byte, len(b))
	copy(c, b)
	return c
}

func cloneFrags(fs [][]byte) [][]byte {
	out := make([][]byte, len(fs))
	for i, f := range fs {
		out[i] = append([]byte{}, f...)
	}
	return out
}

func fragsEqual(a, b [][]byte) bool {
	if len(a) != len(b) {
		return false
	}
	for i := range a {
		if !bytes.Equal(a[i], b[i]) {
			return false
		}
	}
	return true
}

// overlaps reports whether the backing arrays (up to capacity) of a and b share memory.
func overlaps(a, b []byte) bool {
	if cap(a) == 0 || cap(b) == 0 {
		return false
	}
	pa := uintptr(unsafe.Pointer(unsafe.SliceData(a)))
	pb := uintptr(unsafe.Pointer(unsafe.SliceData(b)))
	return pa < pb+uintptr(cap(b)) && pb < pa+uintptr(cap(a))
}

// spareSentinel is what the harness writes into memory it is entitled to use as a caller.
const spareSentinel = 0x5C

// scribbleSpare uses the spare capacity f[len(f):cap(f)] of every slice a call handed out, the way
// `append(f, trailer...)` does (SRTP appends its authentication tag to a payload in place, RTP padding
// is appended likewise): what a call returns is the caller's up to its capacity, so writing there must
// change neither another returned slice nor what later calls return.
func scribbleSpare(fs ...[]byte) {
	for _, f := range fs {
		s := f[len(f):cap(f)]
		for i := range s {
			s[i] = spareSentinel
		}
	}
}

// scribbleAll overwrites every byte (up to the capacity) of slices the caller is done with.
func scribbleAll(fs ...[]byte) {
	for _, f := range fs {
		s := f[:cap(f)]
		for i := range s {
			s[i] = spareSentinel
		}
	}
}

// payWindow builds the slice a Payload call is GIVEN.  A caller's payload is a slice — a window
// arr[off:off+n] of an array the caller owns (a capture / read buffer that holds more than this
// payload, or simply one with spare capacity) — so half of the inputs are handed over exactly sized
// (cap == len, what make and literals give) and half as a two-index window of a larger array whose
// bytes before and behind the window hold a position-dependent guard pattern: off is 0 (a read buffer
// filled from its start) or 1..16, and 1 … 2000 bytes follow the window.  The shape is a function of
// the input alone (length, first bytes, salt), so a case replays exactly and the case's PRNG stream
// is not disturbed.  A nil input stays nil.  arr is the whole array (== win for exact inputs).
func payWindow(input []byte, salt int) (arr, win []byte) {
	if input == nil {
		return nil, nil
	}
	h := uint32(2166136261)
	mix := func(b byte) { h = (h ^ uint32(b)) * 16777619 }
	mix(byte(salt))
	mix(byte(salt >> 8))
	mix(byte(len(input)))
	mix(byte(len(input) >> 8))
	for i := 0; i < len(input) && i < 8; i++ {
		mix(input[i])
	}
	h ^= h >> 15
	if h&1 == 0 {
		c := cloneBytes(input)
		return c, c
	}
	off := 0
	if h&2 != 0 {
		off = 1 + int(h>>2)%16
	}
	tail := []int{1, 3, 4, 17, 64, 64, 300, 2000}[int(h>>8)%8]
	arr = make([]byte, off+len(input)+tail)
	for i := range arr {
		arr[i] = 0xC3 ^ byte(i)
	}
	copy(arr[off:], input)
	return arr, arr[off : off+len(input)]
}

type payloader interface {
	Payload(mtu uint16, payload []byte) [][]byte
}

// observePay performs one Payload call on p with every ownership probe of C08/C16:
// the caller's buffer is compared before/after, pointer overlap of each fragment with the
// buffer is measured, the spare capacity of every returned fragment is written to (as an in-place
// append does), the buffer is then overwritten and the fragments compared with a
// snapshot, and the result is compared with a twin instance that is always fed pristine,
// never-overwritten copies (so state that aliases an overwritten buffer shows up later).
func observePay(o *Toks, p, twin payloader, mtu uint16, input []byte) {
	r := observePayDeferred(p, twin, mtu, input)
	r.write(o)
}

// payRecord is the observation of one Payload call; the live fragments are kept so that a history
// can re-check them after LATER calls on the same instance (write is called at the end).
type payRecord struct {
	panicked                                  bool
	frags, snap                               [][]byte
	inputSame, overlap, fragsStable, twinSame bool
}

// stillStable re-compares the live fragments with their snapshot (after later calls: a payloader
// that builds its result in a buffer it reuses changes fragments it handed out earlier).
func (r *payRecord) stillStable() {
	if !r.panicked && !fragsEqual(r.frags, r.snap) {
		r.fragsStable = false
	}
}

func (r *payRecord) write(o *Toks) {
	if r.panicked {
		o.Panic()
		return
	}
	o.Ok().BytesList(r.snap).Bool(r.inputSame).Bool(r.overlap).Bool(r.fragsStable).Bool(r.twinSame)
}

func observePayDeferred(p, twin payloader, mtu uint16, input []byte) *payRecord {
	r := &payRecord{}
	// the input is a window of the caller's array (see payWindow); "the caller's input buffer is left
	// unmodified" covers the whole array: the bytes before and behind the window too
	arr, buf := payWindow(input, int(mtu))
	pristine := cloneBytes(arr)
	var frags [][]byte
	if try(func() { frags = p.Payload(mtu, buf) }) {
		r.panicked = true
		try(func() { twin.Payload(mtu, cloneBytes(input)) })
		return r
	}
	r.inputSame = bytes.Equal(arr, pristine) && bytes.Equal(buf, input)
	for _, f := range frags {
		if overlaps(f, arr) {
			r.overlap = true
		}
	}
	r.frags = frags
	r.snap = cloneFrags(frags)
	// the caller appends to every fragment in place (spare capacity only), then reuses its buffer
	scribbleSpare(frags...)
	for i := range arr {
		arr[i] ^= 0xA5
	}
	r.fragsStable = fragsEqual(frags, r.snap)
	var tw [][]byte
	r.twinSame = !try(func() { tw = twin.Payload(mtu, cloneBytes(input)) }) && fragsEqual(r.snap, tw)
	return r
}

// PayCall is one Payload(mtu, input) call of a history.
type PayCall struct {
	MTU   uint16
	Input []byte
}

// writeCalls writes `<n> (<mtu> <obytes>)*` (mirrors Proto.rdCalls).
func writeCalls(t *Toks, calls []PayCall) {
	t.Nat(len(calls))
	for _, c := range calls {
		t.Nat(int(c.MTU)).OBytes(c.Input)
	}
}

// observePayHist runs a history of calls on ONE instance (and its pristine twin) and writes
// `<n> PayObs*` (mirrors Proto.rdPayObsList).  After every call the caller's buffer is
// overwritten, so state that aliases it corrupts later outputs and shows as twinSame=0; the
// fragments of every call are compared with their snapshot once more after the LAST call.
func observePayHist(o *Toks, mk func() payloader, calls []PayCall) {
	p, twin := mk(), mk()
	o.Nat(len(calls))
	recs := make([]*payRecord, 0, len(calls))
	for _, c := range calls {
		recs = append(recs, observePayDeferred(p, twin, c.MTU, c.Input))
	}
	// fragments handed out by an earlier call must not change under later calls either
	for _, r := range recs {
		r.stillStable()
		r.write(o)
	}
}

// ---- generic depacketizer observation and input-mutation helpers (contributed by the vpx group)

// depacketizer is the part of rtp.Depacketizer the C09 observation needs.
type depacketizer interface {
	Unmarshal(packet []byte) ([]byte, error)
	IsPartitionHead(payload []byte) bool
	IsPartitionTail(marker bool, payload []byte) bool
}

// depResult is the canonical outcome of one Unmarshal call.
type depResult struct {
	panicked bool
	err      bool
	out      []byte
}

func (a depResult) equal(b depResult) bool {
	return a.panicked == b.panicked && a.err == b.err && bytes.Equal(a.out, b.out)
}

func (a depResult) write(t *Toks) {
	switch {
	case a.panicked:
		t.Panic()
	case a.err:
		t.Err("other")
	default:
		t.Ok().Bytes(a.out)
	}
}

// callUnmarshal runs d.Unmarshal(buf) under recover and snapshots the returned bytes at once
// (the result may alias buf, which the caller overwrites afterwards).
func callUnmarshal(d depacketizer, buf []byte) depResult {
	var r depResult
	var out []byte
	var err error
	if try(func() { out, err = d.Unmarshal(buf) }) {
		r.panicked = true
		return r
	}
	if err != nil {
		r.err = true
		return r
	}
	r.out = cloneBytes(out)
	return r
}

// observeDepHist feeds the payloads to ONE receiver and writes `<n> depobs*` (see
// lean/Rtp/Pred/C09.lean DepObs and Driver/Kinds/Vpx.lean rdDepObs):
//
//	res md head tail0 tail1 auxPanic freshSame twinSame
//
// md writes the receiver's exported metadata, read AFTER the call's input buffer has been overwritten.
// freshSame: a fresh receiver given the same payload
// returns the same result and, when the call succeeded, has the same metadata.  twinSame: a twin
// receiver that is always handed pristine, never overwritten copies returns the same result; the
// main receiver's input buffer is overwritten after every call.
func observeDepHist(o *Toks, mk func() depacketizer, md func(t *Toks, d depacketizer), payloads [][]byte) {
	mdStr := func(d depacketizer) string {
		var t Toks
		md(&t, d)
		return t.String()
	}
	mainR, twin := mk(), mk()
	o.Nat(len(payloads))
	for _, in := range payloads {
		buf := cloneBytes(in)
		r := callUnmarshal(mainR, buf)
		mdMain := mk()
		if !r.panicked {
			mdMain = mainR
		}
		var head, t0, t1 bool
		aux := try(func() {
			head = mainR.IsPartitionHead(buf)
			t0 = mainR.IsPartitionTail(false, buf)
			t1 = mainR.IsPartitionTail(true, buf)
		})
		fresh := mk()
		fbuf := cloneBytes(in)
		rf := callUnmarshal(fresh, fbuf)
		rt := callUnmarshal(twin, cloneBytes(in))
		twinSame := r.equal(rt)
		// The receive buffer is reused for the next datagram once the calls have returned; the
		// metadata is what the caller READS from the receiver afterwards, so it is rendered after
		// the buffer has been overwritten (the fresh receiver's buffer likewise: like with like).
		for i := range buf {
			buf[i] ^= 0xA5
		}
		for i := range fbuf {
			fbuf[i] ^= 0xA5
		}
		mdS := mdStr(mdMain)
		freshSame := r.equal(rf) && (r.panicked || r.err || mdS == mdStr(fresh))
		r.write(o)
		o.Tok(mdS)
		o.Bool(head).Bool(t0).Bool(t1).Bool(aux).Bool(freshSame).Bool(twinSame)
	}
}

// writeOBytesList writes `<n> obytes*`.
func writeOBytesList(t *Toks, bs [][]byte) {
	t.Nat(len(bs))
	for _, b := range bs {
		t.OBytes(b)
	}
}

// mutate returns a damaged copy of b: bit flip, truncation, extension, byte replacement.
func mutate(r *Rand, b []byte, alphabet []byte) []byte {
	c := append([]byte{}, b...)
	switch r.Intn(6) {
	case 0:
		if len(c) > 0 {
			c[r.Intn(min(len(c), 12))] ^= 1 << uint(r.Intn(8))
		}
	case 1:
		c = c[:r.Intn(len(c)+1)]
	case 2:
		c = append(c, r.Bytes(r.Intn(4))...)
	case 3:
		if len(c) > 0 {
			c[r.Intn(min(len(c), 12))] = alphabet[r.Intn(len(alphabet))]
		}
	case 4:
		if len(c) > 0 {
			c = c[:r.Intn(min(len(c), 12)+1)]
		}
	default:
		if len(c) > 1 {
			i := r.Intn(min(len(c), 12))
			c = append(c[:i], c[i+1:]...)
		}
	}
	return c
}

// alphaBytes returns n bytes drawn from the alphabet (with an occasional uniformly random byte).
func alphaBytes(r *Rand, n int, alphabet []byte) []byte {
	b := make([]byte, n)
	for i := range b {
		if r.Chance(1, 8) {
			b[i] = r.Byte()
		} else {
			b[i] = alphabet[r.Intn(len(alphabet))]
		}
	}
	return b
}

// shortStrings calls f with consecutive blocks of all byte strings of length ≤ maxLen (in
// length-then-lexicographic order), `block` strings at a time; nil and the empty string come first.
func shortStrings(maxLen, block int, f func(ss [][]byte)) {
	cur := [][]byte{nil, {}}
	flush := func(force bool) {
		if len(cur) >= block || (force && len(cur) > 0) {
			f(cur)
			cur = nil
		}
	}
	for l := 1; l <= maxLen; l++ {
		total := 1 << (8 * uint(l))
		for v := 0; v < total; v++ {
			s := make([]byte, l)
			for i := 0; i < l; i++ {
				s[i] = byte(v >> (8 * uint(l-1-i)))
			}
			cur = append(cur, s)
			flush(false)
		}
	}
	flush(true)
}
