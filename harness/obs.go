package main

// Observers shared by several kinds: call the real code, recover panics, probe ownership.

import (
	"bytes"
	"unsafe"
)

// try runs f and reports whether it panicked.
func try(f func()) (panicked bool) {
	defer func() {
		if r := recover(); r != nil {
			panicked = true
		}
	}()
	f()
	return false
}

func cloneBytes(b []byte) []byte {
	if b == nil {
		return nil
	}
	c := make([]byte, len(b))
	copy(c, b)
	return c
}

func cloneFrags(fs [][]byte) [][]byte {
	out := make([][]byte, len(fs))
	for i, f := range fs {
		out[i] = append([]byte{}, f...)
	}
	return out
}

func fragsEqual(a, b [][]byte) bool {
	if len(a) != len(b) {
		return false
	}
	for i := range a {
		if !bytes.Equal(a[i], b[i]) {
			return false
		}
	}
	return true
}

// overlaps reports whether the backing arrays (up to capacity) of a and b share memory.
func overlaps(a, b []byte) bool {
	if cap(a) == 0 || cap(b) == 0 {
		return false
	}
	pa := uintptr(unsafe.Pointer(unsafe.SliceData(a)))
	pb := uintptr(unsafe.Pointer(unsafe.SliceData(b)))
	return pa < pb+uintptr(cap(b)) && pb < pa+uintptr(cap(a))
}

type payloader interface {
	Payload(mtu uint16, payload []byte) [][]byte
}

// observePay performs one Payload call on p with every ownership probe of C08/C16:
// the caller's buffer is compared before/after, pointer overlap of each fragment with the
// buffer is measured, the buffer is then overwritten and the fragments compared with a
// snapshot, and the result is compared with a twin instance that is always fed pristine,
// never-overwritten copies (so state that aliases an overwritten buffer shows up later).
func observePay(o *Toks, p, twin payloader, mtu uint16, input []byte) {
	buf := cloneBytes(input)
	var frags [][]byte
	if try(func() { frags = p.Payload(mtu, buf) }) {
		o.Panic()
		try(func() { twin.Payload(mtu, cloneBytes(input)) })
		return
	}
	inputSame := bytes.Equal(buf, input)
	overlap := false
	for _, f := range frags {
		if overlaps(f, buf) {
			overlap = true
		}
	}
	snap := cloneFrags(frags)
	for i := range buf {
		buf[i] ^= 0xA5
	}
	fragsStable := fragsEqual(frags, snap)
	var tw [][]byte
	twinSame := !try(func() { tw = twin.Payload(mtu, cloneBytes(input)) }) && fragsEqual(snap, tw)
	o.Ok().BytesList(snap).Bool(inputSame).Bool(overlap).Bool(fragsStable).Bool(twinSame)
}

// PayCall is one Payload(mtu, input) call of a history.
type PayCall struct {
	MTU   uint16
	Input []byte
}

// writeCalls writes `<n> (<mtu> <obytes>)*` (mirrors Proto.rdCalls).
func writeCalls(t *Toks, calls []PayCall) {
	t.Nat(len(calls))
	for _, c := range calls {
		t.Nat(int(c.MTU)).OBytes(c.Input)
	}
}

// observePayHist runs a history of calls on ONE instance (and its pristine twin) and writes
// `<n> PayObs*` (mirrors Proto.rdPayObsList).  After every call the caller's buffer is
// overwritten, so state that aliases it corrupts later outputs and shows as twinSame=0.
func observePayHist(o *Toks, mk func() payloader, calls []PayCall) {
	p, twin := mk(), mk()
	o.Nat(len(calls))
	for _, c := range calls {
		observePay(o, p, twin, c.MTU, c.Input)
	}
}

type depacketizer interface {
	Unmarshal(packet []byte) ([]byte, error)
	IsPartitionHead(payload []byte) bool
	IsPartitionTail(marker bool, payload []byte) bool
}

// observeDepHist feeds a sequence of payloads to ONE receiver and writes `<n> DepObs*`
// (mirrors Pred.C09.DepObs): per call `res <meta tokens> head tail0 tail1 auxPanic freshSame twinSame`.
// meta writes the codec-specific metadata tokens of a receiver (may be nil).
// After each call the buffer handed to the main receiver is overwritten; the twin receiver
// always gets pristine copies, so retained aliases show up as twinSame=0 on later calls.
func observeDepHist(o *Toks, mk func() depacketizer, payloads [][]byte, meta func(t *Toks, d depacketizer)) {
	d, twin := mk(), mk()
	o.Nat(len(payloads))
	for _, pl := range payloads {
		buf := cloneBytes(pl)
		var out []byte
		var err error
		panicked := try(func() { out, err = d.Unmarshal(buf) })
		outCopy := append([]byte{}, out...)
		var mt Toks
		if meta != nil && !panicked {
			try(func() { meta(&mt, d) })
		}
		switch {
		case panicked:
			o.Panic()
		case err != nil:
			o.Err("other")
		default:
			o.Ok().Bytes(outCopy)
		}
		if meta != nil {
			if panicked {
				var z Toks
				meta(&z, mk())
				o.Tok(z.String())
			} else {
				o.Tok(mt.String())
			}
		}
		var head, t0, t1 bool
		aux := try(func() {
			head = d.IsPartitionHead(buf)
			t0 = d.IsPartitionTail(false, buf)
			t1 = d.IsPartitionTail(true, buf)
		})
		o.Bool(head).Bool(t0).Bool(t1).Bool(aux)
		// fresh receiver, same payload
		f := mk()
		var fout []byte
		var ferr error
		fp := try(func() { fout, ferr = f.Unmarshal(cloneBytes(pl)) })
		freshSame := fp == panicked && (ferr != nil) == (err != nil) && (ferr != nil || fp || string(fout) == string(outCopy))
		if freshSame && meta != nil && !fp && ferr == nil {
			var fm Toks
			try(func() { meta(&fm, f) })
			freshSame = fm.String() == mt.String()
		}
		// twin receiver, pristine copies
		var tout []byte
		var terr error
		tp := try(func() { tout, terr = twin.Unmarshal(cloneBytes(pl)) })
		twinSame := tp == panicked && (terr != nil) == (err != nil) && (terr != nil || tp || string(tout) == string(outCopy))
		o.Bool(freshSame).Bool(twinSame)
		for i := range buf {
			buf[i] ^= 0xA5
		}
	}
}
