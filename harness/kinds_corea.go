package main

import (
	"bytes"
	"sync"
	"unsafe"

	"github.com/pion/rtp"
)

// C01 — RTP packet encode/decode round trip is lossless.

// caBuildViaAPI builds the packet through the public API only (struct fields with the profile
// preset, then SetExtension per element); nil when the description has duplicate ids or the API
// refuses an element (then only the hook can build it).
func caBuildViaAPI(in *PacketIn) *rtp.Packet {
	seen := map[uint8]bool{}
	for _, e := range in.Exts {
		if seen[e.ID] {
			return nil
		}
		seen[e.ID] = true
	}
	if !in.H.Extension || len(in.Exts) == 0 {
		return nil
	}
	pkt := &rtp.Packet{Header: in.H, Payload: cloneBytes(in.Payload), PaddingSize: in.PadSize}
	pkt.Header.CSRC = append([]uint32(nil), in.H.CSRC...)
	pkt.Header.Extensions = nil
	for _, e := range in.Exts {
		if err := pkt.Header.SetExtension(e.ID, cloneBytes(e.Payload)); err != nil {
			return nil
		}
	}
	return pkt
}

// observeC01 writes: size marshal unFresh unDirty hsize hmarshal hun
func observeC01(c *Case, in *PacketIn, prev []byte) {
	writePacketIn(&c.I, in)
	c.I.Bytes(prev)
	pkt := in.Build()
	if c.R.Chance(1, 3) {
		// the same value reached through the public API instead of the hook
		if q := caBuildViaAPI(in); q != nil {
			pkt = q
			c.Tag("built=api")
		}
	}
	var size, hsize int
	var bs, hb []byte
	var err, herr error
	if try(func() { size = pkt.MarshalSize() }) {
		c.O.Tok("panic-MarshalSize")
		return
	}
	c.O.Nat(size)
	if try(func() { bs, err = pkt.Marshal() }) {
		c.O.Panic().Err("other").Err("other")
	} else if !writeRes(&c.O, err) {
		c.O.Err("other").Err("other")
	} else {
		c.O.Bytes(bs)
		wire := cloneBytes(bs)
		fresh := &rtp.Packet{}
		var uerr error
		if try(func() { uerr = fresh.Unmarshal(wire) }) {
			c.O.Panic()
		} else if writeRes(&c.O, uerr) {
			writePacketObs(&c.O, fresh)
		}
		dirty := caDirtyReceiver(c, prev)
		if try(func() { uerr = dirty.Unmarshal(wire) }) {
			c.O.Panic()
		} else if writeRes(&c.O, uerr) {
			writePacketObs(&c.O, dirty)
		}
	}
	if try(func() { hsize = pkt.Header.MarshalSize() }) {
		c.O.Tok("panic-HeaderMarshalSize")
		return
	}
	c.O.Nat(hsize)
	if try(func() { hb, herr = pkt.Header.Marshal() }) {
		c.O.Panic().Err("other")
	} else if !writeRes(&c.O, herr) {
		c.O.Err("other")
	} else {
		c.O.Bytes(hb)
		h := &rtp.Header{}
		var n int
		var uerr error
		if try(func() { n, uerr = h.Unmarshal(cloneBytes(hb)) }) {
			c.O.Panic()
		} else if writeRes(&c.O, uerr) {
			writeHeaderObs(&c.O, h)
			c.O.Nat(n)
		}
	}
}

// caWithDupes makes an element id occur twice now and then (legal on the wire for both RFC 8285
// forms and reachable through Unmarshal; the accessors see the first, the encoder writes both).
func caWithDupes(c *Case, p *PacketIn) {
	if len(p.Exts) >= 2 && p.H.Extension && (p.H.ExtensionProfile == 0xBEDE || p.H.ExtensionProfile == 0x1000) && c.R.Chance(1, 6) {
		i, j := c.R.Intn(len(p.Exts)), c.R.Intn(len(p.Exts))
		if i != j {
			p.Exts[i].ID = p.Exts[j].ID
			c.Tag("dup-ids")
		}
	}
}

// caGenPrev draws what a reused receiver decoded before: nothing, a valid packet, a valid packet cut
// short (Unmarshal fails part-way and leaves the receiver half-written), or random bytes.
func caGenPrev(c *Case) []byte {
	switch c.R.Intn(6) {
	case 0:
		return nil
	case 1:
		c.Tag("prev=random")
		return c.R.Bytes(c.R.Intn(48))
	case 2:
		c.Tag("prev=truncated")
		q := genPacketWF(c.R, 40).Build()
		b, _ := q.Marshal()
		if len(b) > 0 {
			b = b[:c.R.Intn(len(b))]
		}
		return b
	}
	q := genPacketWF(c.R, 40).Build()
	b, _ := q.Marshal()
	return b
}

// caDirtyReceiver prepares a REUSED receiver: it decoded `prev` before and, half of the time, was then
// USED the way a decoded header is used before the next packet arrives — a few DelExtension /
// SetExtension calls (an element removed from the middle of the list, a value replaced, an id added),
// now and then followed by one more decode of another packet.  What C01 says about the next decode
// does not depend on any of this, so the history is not part of the model's input (`prev` is, as the
// first decode); it is drawn from the case's PRNG like everything else.
func caDirtyReceiver(c *Case, prev []byte) *rtp.Packet {
	d := &rtp.Packet{}
	try(func() { _ = d.Unmarshal(cloneBytes(prev)) })
	if c.R.Bool() {
		return d
	}
	c.Tag("receiver=decoded+edited")
	for i, n := 0, c.R.Pick(1, 1, 2, 3, 4); i < n; i++ {
		ids := d.Header.GetExtensionIDs()
		try(func() {
			switch {
			case len(ids) > 0 && c.R.Chance(2, 3):
				// mostly not the last one: the elements behind it move up
				k := c.R.Intn(len(ids))
				if len(ids) > 1 && c.R.Bool() {
					k = c.R.Intn(len(ids) - 1)
				}
				_ = d.Header.DelExtension(ids[k])
			case len(ids) > 0 && c.R.Bool():
				_ = d.Header.SetExtension(ids[c.R.Intn(len(ids))], c.R.Bytes(c.R.Pick(1, 2, 4, 16, 20)))
			default:
				_ = d.Header.SetExtension(uint8(c.R.Pick(0, 1, 5, 14, 15, 200)), c.R.Bytes(c.R.Pick(1, 2, 4, 16, 20)))
			}
		})
	}
	if c.R.Chance(1, 4) {
		c.Tag("receiver=decoded+edited+decoded")
		q := genPacketWFNarrow(c.R, 20).Build()
		try(func() {
			if b, err := q.Marshal(); err == nil {
				_ = d.Unmarshal(b)
			}
		})
	}
	return d
}

// caTagged reports whether the case carries the tag.
func caTagged(c *Case, t string) bool {
	for _, x := range c.tags {
		if x == t {
			return true
		}
	}
	return false
}

func tagPacket(c *Case, p *PacketIn) {
	switch {
	case !p.H.Extension:
		c.Tag("ext=none")
	case p.H.ExtensionProfile == 0xBEDE:
		c.Tag("ext=onebyte")
	case p.H.ExtensionProfile == 0x1000:
		c.Tag("ext=twobyte")
	default:
		c.Tag("ext=legacy")
	}
	if p.H.Extension {
		switch n := len(p.Exts); {
		case n >= 255:
			c.Tag("elems>=255")
		case n > 14:
			c.Tag("elems=15..254")
		}
		if pr := p.H.ExtensionProfile; pr > 0x1000 && pr <= 0x100F {
			c.Tag("profile=appbits")
		} else if pr != 0xBEDE && pr != 0x1000 && len(p.Exts) == 1 && len(p.Exts[0].Payload) > 260 {
			c.Tag("legacy>260")
		}
	}
	if len(p.Payload) == 0 {
		c.Tag("payload=empty")
	}
	if p.H.Padding {
		c.Tag("padding")
	}
	if len(p.H.CSRC) == 15 {
		c.Tag("csrc=15")
	}
}

func init() {
	register("c01.rt", "C01", func(x *Ctx) {
		// boundary grid: CSRC count × profile × element lengths × payload × padding
		for _, ncsrc := range []int{0, 1, 15} {
			for kind := profNone; kind <= profLegacy; kind++ {
				var elemSets [][]int
				switch kind {
				case profNone:
					elemSets = [][]int{nil}
				case profOne:
					elemSets = [][]int{{}, {1}, {2}, {3}, {4}, {15}, {16}, {1, 1}, {1, 2}, {16, 16}, {3, 16, 1}, {1, 2, 3, 4}}
				case profTwo:
					elemSets = [][]int{{}, {0}, {1}, {2}, {3}, {16}, {17}, {254}, {255}, {0, 0}, {1, 255}, {255, 255, 0}}
				case profLegacy:
					elemSets = [][]int{{0}, {4}, {8}, {256}}
				}
				for _, lens := range elemSets {
					for _, pl := range []int{0, 1, 5} {
						for _, pad := range []int{0, 1, 255} {
							ncsrc, kind, lens, pl, pad := ncsrc, kind, lens, pl, pad
							x.Case(func(c *Case) {
								p := &PacketIn{}
								genFixed(c.R, &p.H)
								p.H.CSRC = make([]uint32, ncsrc)
								for i := range p.H.CSRC {
									p.H.CSRC[i] = uint32(c.R.U64())
								}
								if kind != profNone {
									p.H.Extension = true
									switch kind {
									case profOne:
										p.H.ExtensionProfile = 0xBEDE
									case profTwo:
										p.H.ExtensionProfile = 0x1000
									default:
										p.H.ExtensionProfile = uint16(c.R.Pick(0, 0x1234, 0xFFFF))
									}
									for i, l := range lens {
										id := uint8(i + 1)
										if kind == profTwo && c.R.Bool() {
											id = uint8(200 + i)
										}
										if kind == profLegacy {
											id = 0
										}
										p.Exts = append(p.Exts, ExtIn{id, c.R.Bytes(l)})
									}
								}
								p.Payload = c.R.Bytes(pl)
								if pad > 0 {
									p.H.Padding = true
									p.PadSize = uint8(pad)
								}
								tagPacket(c, p)
								var prev []byte
								if c.R.Bool() {
									q := genPacketWF(c.R, 20).Build()
									prev, _ = q.Marshal()
								}
								observeC01(c, p, prev)
							})
						}
					}
				}
			}
		}
		// exhaustive over the two bit-packed header bytes: V, P, X, CC | M, PT  (2^16 cases)
		for b0 := 0; b0 < 256; b0++ {
			for b1 := 0; b1 < 256; b1++ {
				b0, b1 := b0, b1
				x.Case(func(c *Case) {
					p := &PacketIn{}
					p.H.Version = uint8(b0 >> 6)
					p.H.Padding = b0>>5&1 == 1
					p.H.Extension = b0>>4&1 == 1
					p.H.CSRC = make([]uint32, b0&15)
					for i := range p.H.CSRC {
						p.H.CSRC[i] = uint32(c.R.U64())
					}
					p.H.Marker = b1>>7 == 1
					p.H.PayloadType = uint8(b1 & 127)
					p.H.SequenceNumber = uint16(c.R.Intn(65536))
					p.H.Timestamp = uint32(c.R.U64())
					p.H.SSRC = uint32(c.R.U64())
					if p.H.Extension {
						p.H.ExtensionProfile = 0xBEDE
						p.Exts = []ExtIn{{uint8(c.R.Range(1, 14)), c.R.Bytes(c.R.Range(1, 16))}}
					}
					if p.H.Padding {
						p.PadSize = uint8(c.R.Range(1, 255))
					}
					p.Payload = c.R.Bytes(c.R.Intn(4))
					c.Tag("hdrbits-exhaustive")
					observeC01(c, p, nil)
				})
			}
		}
		// exhaustive over the element headers: one-byte id x length; two-byte id x length
		// (quick: boundary ids, every length; thorough: every id, every length)
		for id := 1; id <= 14; id++ {
			for l := 1; l <= 16; l++ {
				id, l := id, l
				x.Case(func(c *Case) {
					p := &PacketIn{}
					genFixed(c.R, &p.H)
					p.H.Extension = true
					p.H.ExtensionProfile = 0xBEDE
					p.Exts = []ExtIn{{uint8(id), c.R.Bytes(l)}}
					if c.R.Bool() {
						p.Exts = append(p.Exts, ExtIn{uint8(1 + id%14), c.R.Bytes(c.R.Range(1, 16))})
					}
					p.Payload = c.R.Bytes(c.R.Intn(3))
					c.Tag("elemhdr-exhaustive")
					observeC01(c, p, nil)
				})
			}
		}
		twoIDs := []int{1, 2, 14, 15, 16, 127, 128, 254, 255}
		if x.Thorough() {
			twoIDs = nil
			for id := 1; id <= 255; id++ {
				twoIDs = append(twoIDs, id)
			}
		}
		for _, id := range twoIDs {
			for l := 0; l <= 255; l++ {
				id, l := id, l
				x.Case(func(c *Case) {
					p := &PacketIn{}
					genFixed(c.R, &p.H)
					p.H.Extension = true
					p.H.ExtensionProfile = 0x1000
					p.Exts = []ExtIn{{uint8(id), c.R.Bytes(l)}}
					if c.R.Bool() {
						p.Exts = append(p.Exts, ExtIn{uint8(1 + id%255), c.R.Bytes(c.R.Intn(5))})
					}
					p.Payload = c.R.Bytes(c.R.Intn(3))
					c.Tag("elemhdr-exhaustive")
					observeC01(c, p, nil)
				})
			}
		}
		// element COUNTS around and beyond the 14 ids of the one-byte form: two-byte headers with
		// 14 … 255 distinct ids (short values, and all 255 bytes long: the largest block), one-byte
		// headers that repeat ids (as a decoded wire image may)
		for _, n := range []int{14, 15, 16, 17, 40, 254, 255, -15, -16, -30} {
			for rep := 0; rep < 3; rep++ {
				n, rep := n, rep
				x.Case(func(c *Case) {
					p := &PacketIn{}
					genFixed(c.R, &p.H)
					p.H.Extension = true
					if n < 0 {
						p.H.ExtensionProfile = 0xBEDE
						for i := 0; i < -n; i++ {
							p.Exts = append(p.Exts, ExtIn{uint8(1 + i%14), c.R.Bytes(c.R.Pick(1, 2, 16, c.R.Range(1, 16)))})
						}
					} else {
						p.H.ExtensionProfile = 0x1000
						p.Exts = genExtsTwoFull(c.R, c.R.Perm(255)[:n], 0)
						if rep != 0 {
							for i := range p.Exts {
								p.Exts[i].Payload = p.Exts[i].Payload[:c.R.Pick(0, 1, 2, 3, 17)]
							}
						}
					}
					p.Payload = c.R.Bytes(c.R.Intn(3))
					c.Tag("many-elements")
					tagPacket(c, p)
					observeC01(c, p, caGenPrev(c))
				})
			}
		}
		maxPl := 1500
		if x.Thorough() {
			maxPl = 20000
		}
		{
			// the boundaries of the 16-bit length field (which counts words): 2^14 words = 65536 bytes
			// and more (the byte length no longer fits 16 bits — seeds C01-r2-1 / C03-r2-1); the
			// largest two-byte block with distinct ids (255 x 257 bytes = 16384 words); 65535 words,
			// the largest block the field can describe, and one word less (seed C01-r5-1) — legacy
			// form (one value) and two-byte form (repeated ids) in the quick tier; thorough tier adds
			// the one-byte form (tens of thousands of elements) and one word too many (outside the
			// domain: the count wraps; correspondence only)
			type blk struct{ kind, words int }
			var blks []blk
			for _, w := range []int{16383, 16384, 16385, 32768, 65534, 65535} {
				blks = append(blks, blk{profLegacy, w}, blk{profTwo, w})
			}
			if x.Thorough() {
				for _, w := range []int{16384, 16385, 32768, 65534, 65535} {
					blks = append(blks, blk{profOne, w})
				}
				blks = append(blks, blk{profLegacy, 65536}, blk{profTwo, 65536}, blk{profOne, 65536})
			}
			for _, b := range blks {
				b := b
				x.Case(func(c *Case) {
					p := &PacketIn{}
					genFixed(c.R, &p.H)
					p.H.Extension = true
					p.H.ExtensionProfile, p.Exts = genExtsBlock(c.R, b.kind, b.words)
					p.Payload = c.R.Bytes(c.R.Intn(3))
					c.Tag("ext=huge")
					tagPacket(c, p)
					observeC01(c, p, nil)
				})
			}
		}
		for i, n := 0, x.N(100000, 1500000); i < n; i++ {
			x.Case(func(c *Case) {
				var p *PacketIn
				if c.R.Chance(1, 20) {
					// outside the domain: nothing is demanded, the model must still agree
					p = caGenPacketOdd(c.R, 60)
					c.Tag("odd")
				} else {
					p = genPacketWF(c.R, maxPl)
					caWithDupes(c, p)
					if c.R.Chance(1, 10) && p.ShareStorage(c.R) {
						c.Tag("values=windows-of-one-array")
					}
				}
				tagPacket(c, p)
				observeC01(c, p, caGenPrev(c))
			})
		}
	})
}

// ---------------------------------------------------------------------------------------------
// C04 — MarshalTo honours the destination buffer contract.

// caFillDst returns a destination of n bytes with the given prior contents
// (0: 0x00, 1: 0xFF, 2: 0xEE, 3: random).
func caFillDst(r *Rand, n, fill int) []byte {
	if n < 0 {
		n = 0
	}
	switch fill {
	case 0:
		return make([]byte, n)
	case 1:
		return bytes.Repeat([]byte{0xFF}, n)
	case 2:
		return bytes.Repeat([]byte{0xEE}, n)
	}
	return r.Bytes(n)
}

// c04InPlace prepares the IN-PLACE use of MarshalTo (zero-copy forwarding): the packet that is
// marshalled was decoded from the very array the destination is a window of, so its extension values
// and its payload point into the destination and every element is copied onto itself.  `edit`: the
// image the receiver is decoded from differs from the packet in fixed fields (marker, payload type,
// sequence number, timestamp, SSRC, CSRC values), which the caller rewrites after the decode — the
// layout is the same.  Returns the image (nil when the description does not survive its own wire
// form unchanged, e.g. a padding size without the flag: such packets are not marshalled in place).
func c04InPlace(r *Rand, in *PacketIn, edit bool) (wire0 []byte) {
	src := in.Build()
	if edit {
		src.Header.Marker = !src.Header.Marker
		src.Header.PayloadType = uint8(r.Intn(128))
		src.Header.SequenceNumber = uint16(r.Intn(65536))
		src.Header.Timestamp = uint32(r.U64())
		src.Header.SSRC = uint32(r.U64())
		for i := range src.Header.CSRC {
			src.Header.CSRC[i] = uint32(r.U64())
		}
	}
	ok := false
	try(func() {
		b0, err := src.Marshal()
		if err != nil {
			return
		}
		probe := &rtp.Packet{}
		if probe.Unmarshal(cloneBytes(b0)) != nil {
			return
		}
		c04Rewrite(&probe.Header, in)
		b1, err1 := in.Build().Marshal()
		b2, err2 := probe.Marshal()
		h1, err3 := in.Build().Header.Marshal()
		h2, err4 := probe.Header.Marshal()
		ok = err1 == nil && err2 == nil && bytes.Equal(b1, b2) && len(b0) == len(b1) &&
			err3 == nil && err4 == nil && bytes.Equal(h1, h2)
		wire0 = b0
	})
	if !ok {
		return nil
	}
	return wire0
}

// c04Rewrite sets the fixed fields of a decoded header to those of the description.
func c04Rewrite(h *rtp.Header, in *PacketIn) {
	h.Marker, h.PayloadType, h.SequenceNumber = in.H.Marker, in.H.PayloadType, in.H.SequenceNumber
	h.Timestamp, h.SSRC = in.H.Timestamp, in.H.SSRC
	for i := range h.CSRC {
		if i < len(in.H.CSRC) {
			h.CSRC[i] = in.H.CSRC[i]
		}
	}
}

// observeC04 writes: size hsize marshal hmarshal pto pbuf hto hbuf
//
// inplace (0 no, 1 unmodified, 2 fixed fields rewritten): see c04InPlace; the destination's prior
// content is then the packet's own wire image (cut to / continued beyond it by the given bytes).
func observeC04(c *Case, in *PacketIn, dst []byte, inplace int) {
	var wire0 []byte
	if inplace != 0 {
		if wire0 = c04InPlace(c.R, in, inplace == 2); wire0 != nil {
			copy(dst, wire0)
			c.Tag("dst=in-place")
			if inplace == 2 {
				c.Tag("dst=in-place,fixed-fields-rewritten")
			}
		}
	}
	writePacketIn(&c.I, in)
	c.I.Bytes(dst)
	pkt := in.Build()
	var size, hsize int
	if try(func() { size = pkt.MarshalSize(); hsize = pkt.Header.MarshalSize() }) {
		c.O.Tok("panic-MarshalSize")
		return
	}
	c.O.Nat(size).Nat(hsize)
	var bs, hb []byte
	var err error
	if try(func() { bs, err = pkt.Marshal() }) {
		c.O.Panic()
	} else if writeRes(&c.O, err) {
		c.O.Bytes(bs)
	}
	if try(func() { hb, err = pkt.Header.Marshal() }) {
		c.O.Panic()
	} else if writeRes(&c.O, err) {
		c.O.Bytes(hb)
	}
	var n int
	// the destination is the tail of a larger array, so a write beyond len(dst) would be caught
	// by the run time (index out of range), never silently absorbed by spare capacity
	// In half of the cases the destination has NO spare capacity (a write beyond len(dst) is then an
	// index-out-of-range panic); in the other half it is a window into a larger pooled buffer whose
	// bytes beyond the window are a sentinel: the contract is about len(dst), not cap(dst), and a
	// write into the spare capacity is reported like the panic it would otherwise be (seed C04-2).
	spare := 0
	if c.R.Bool() {
		spare = c.R.Pick(1, 7, 300, 2000)
		c.Tag("dst=window-with-spare-capacity")
	}
	// a zero-length destination is a literal nil slice half of the time (`var scratch []byte`: the
	// lazy-sizing idiom starts with it), an empty non-nil slice otherwise: both are "shorter than
	// MarshalSize()" whenever that is positive
	nilDst := len(dst) == 0 && wire0 == nil && c.R.Bool()
	if nilDst {
		c.Tag("dst=nil")
	}
	// in place: the array holds the whole wire image (the receiver is decoded from it) also when the
	// destination window is shorter; what lies beyond the window must stay as it was all the same
	var beyond []byte
	window := func() ([]byte, []byte) {
		used := len(dst)
		if len(wire0) > used {
			used = len(wire0)
		}
		arena := make([]byte, used+spare)
		copy(arena, wire0)
		copy(arena, dst)
		for i := used; i < len(arena); i++ {
			arena[i] = 0xC3
		}
		beyond = cloneBytes(arena[len(dst):])
		if nilDst {
			return nil, arena
		}
		return arena[:len(dst)], arena
	}
	intact := func(arena []byte) bool { return bytes.Equal(arena[len(dst):], beyond) }
	pbuf, parena := window()
	ppkt := pkt
	if wire0 != nil {
		ppkt = &rtp.Packet{}
		if try(func() { err = ppkt.Unmarshal(parena[:len(wire0)]) }) || err != nil {
			ppkt = nil // MarshalTo on it panics: reported as such
		} else {
			c04Rewrite(&ppkt.Header, in)
		}
	}
	if try(func() { n, err = ppkt.MarshalTo(pbuf) }) || !intact(parena) {
		c.O.Panic()
	} else if writeRes(&c.O, err) {
		c.O.Nat(n)
	}
	c.O.Bytes(pbuf)
	hbuf, harena := window()
	if wire0 != nil {
		h := &rtp.Header{}
		if try(func() { _, err = h.Unmarshal(harena[:len(wire0)]) }) || err != nil {
			pkt = nil
		} else {
			c04Rewrite(h, in)
			pkt = &rtp.Packet{Header: *h}
		}
	}
	if try(func() { n, err = pkt.Header.MarshalTo(hbuf) }) || !intact(harena) {
		c.O.Panic()
	} else if writeRes(&c.O, err) {
		c.O.Nat(n)
	}
	c.O.Bytes(hbuf)
	switch {
	case len(dst) < hsize:
		c.Tag("dst<hdr")
	case len(dst) < size:
		c.Tag("hdr<=dst<size")
	case len(dst) == size:
		c.Tag("dst=size")
	default:
		c.Tag("dst>size")
	}
}

// c04Lengths lists the destination lengths of the boundary grid for a packet.
func c04Lengths(pkt *rtp.Packet) []int {
	size, hsize := 0, 0
	if try(func() { size = pkt.MarshalSize(); hsize = pkt.Header.MarshalSize() }) {
		return []int{0, 12, 64}
	}
	return []int{0, hsize - 1, hsize, size - 1, size, size + 1, size + 7}
}

// caLegacyEmptyOK probes the tree under test once: does a legacy-profile header without an element
// marshal without panicking (DESIGN §7 row 4 repaired)?  Only then are such headers generated.
var (
	caLegacyEmptyOnce  sync.Once
	caLegacyEmptyValue bool
)

func caLegacyEmptyOK() bool {
	caLegacyEmptyOnce.Do(func() {
		caLegacyEmptyValue = !try(func() { h := rtp.Header{Extension: true, ExtensionProfile: 0x1234}; _, _ = h.Marshal() })
	})
	return caLegacyEmptyValue
}

// caGenPacketOdd draws a description outside C01's domain that the model still describes exactly
// (never a legacy profile without an element: DESIGN §7 row 4 is another group's defect).
func caGenPacketOdd(r *Rand, maxPayload int) *PacketIn {
	p := genPacketWF(r, maxPayload)
	n := 7
	if caLegacyEmptyOK() {
		n = 8
	}
	switch r.Intn(n) {
	case 7: // legacy profile without an element (only on a tree where DESIGN §7 row 4 is repaired)
		p.H.Extension = true
		p.H.ExtensionProfile = uint16(r.Pick(0, 0x1234, 0xFFFF))
		p.Exts = nil
	case 0: // padding flag without a size
		p.H.Padding = true
		p.PadSize = 0
	case 1: // size without the flag
		p.H.Padding = false
		p.PadSize = uint8(r.Range(1, 255))
	case 2: // more CSRCs than the count field holds
		p.H.CSRC = make([]uint32, r.Range(16, 40))
		for i := range p.H.CSRC {
			p.H.CSRC[i] = uint32(r.U64())
		}
	case 3: // legacy payload that is not whole words
		p.H.Extension = true
		p.H.ExtensionProfile = 0x4321
		p.Exts = []ExtIn{{0, r.Bytes(r.Pick(1, 2, 3, 5, 6, 7, 9))}}
	case 4: // one-byte elements with illegal ids / lengths
		p.H.Extension = true
		p.H.ExtensionProfile = 0xBEDE
		p.Exts = nil
		for i, n := 0, r.Range(1, 3); i < n; i++ {
			p.Exts = append(p.Exts, ExtIn{uint8(r.Pick(0, 1, 14, 15, 16, 255)), r.Bytes(r.Pick(0, 1, 16, 17, 30))})
		}
	case 5: // two-byte elements with id 0 / oversized values
		p.H.Extension = true
		p.H.ExtensionProfile = 0x1000
		p.Exts = nil
		for i, n := 0, r.Range(1, 3); i < n; i++ {
			p.Exts = append(p.Exts, ExtIn{uint8(r.Pick(0, 1, 255)), r.Bytes(r.Pick(0, 1, 255, 256, 300))})
		}
	case 6: // version / payload type out of range, elements present although X = 0
		p.H.Version = uint8(r.Pick(4, 7, 255))
		p.H.PayloadType = uint8(r.Range(128, 255))
		if !p.H.Extension {
			p.Exts = []ExtIn{{1, r.Bytes(2)}}
		}
	}
	return p
}

func init() {
	register("c04.to", "C04", func(x *Ctx) {
		// boundary grid: profile x element lengths x payload x padding x destination length x prior contents
		for kind := profNone; kind <= profLegacy; kind++ {
			var elemSets [][]int
			switch kind {
			case profNone:
				elemSets = [][]int{nil}
			case profOne:
				elemSets = [][]int{{}, {1}, {2}, {3}, {16}, {3, 16, 1}}
			case profTwo:
				elemSets = [][]int{{}, {0}, {1}, {2}, {255}, {1, 255, 0}}
			case profLegacy:
				elemSets = [][]int{{0}, {4}, {256}}
			}
			for _, lens := range elemSets {
				for _, ncsrc := range []int{0, 15} {
					for _, pl := range []int{0, 2, 5} {
						for _, pad := range []int{0, 1, 4, 255} {
							for li := 0; li < 7; li++ {
								for fill := 0; fill < 4; fill++ {
									kind, lens, ncsrc, pl, pad, li, fill := kind, lens, ncsrc, pl, pad, li, fill
									x.Case(func(c *Case) {
										p := &PacketIn{}
										genFixed(c.R, &p.H)
										p.H.CSRC = make([]uint32, ncsrc)
										for i := range p.H.CSRC {
											p.H.CSRC[i] = uint32(c.R.U64())
										}
										if kind != profNone {
											p.H.Extension = true
											switch kind {
											case profOne:
												p.H.ExtensionProfile = 0xBEDE
											case profTwo:
												p.H.ExtensionProfile = 0x1000
											default:
												p.H.ExtensionProfile = uint16(c.R.Pick(0, 0x1234, 0xFFFF))
											}
											for i, l := range lens {
												id := uint8(i + 1)
												if kind == profLegacy {
													id = 0
												}
												p.Exts = append(p.Exts, ExtIn{id, c.R.Bytes(l)})
											}
										}
										p.Payload = c.R.Bytes(pl)
										if pad > 0 {
											p.H.Padding = true
											p.PadSize = uint8(pad)
										}
										tagPacket(c, p)
										n := c04Lengths(p.Build())[li]
										inplace := 0
										if fill >= 4 {
											inplace = fill - 3
										}
										observeC04(c, p, caFillDst(c.R, n, fill), inplace)
									})
								}
							}
						}
					}
				}
			}
		}
		// every destination length 0 … size+3 for a few dozen representative packets, dirty buffer
		for rep := 0; rep < 48; rep++ {
			for n := 0; n <= 90; n++ {
				rep, n := rep, n
				x.Case(func(c *Case) {
					// the packet depends on `rep` only (its own PRNG), the destination on the case
					r := newRand(x.Seed, "c04.to/rep", rep)
					p := &PacketIn{}
					genFixed(r, &p.H)
					p.H.CSRC = make([]uint32, r.Pick(0, 1, 2))
					kind := rep % 4
					if kind != profNone {
						p.H.Extension = true
						p.H.ExtensionProfile, p.Exts = genExts(r, kind, 2)
						for i := range p.Exts {
							if len(p.Exts[i].Payload) > 8 {
								p.Exts[i].Payload = p.Exts[i].Payload[:8]
							}
						}
					}
					p.Payload = r.Bytes(r.Intn(6))
					if rep%3 != 0 {
						p.H.Padding = true
						p.PadSize = uint8(r.Range(1, 9))
					}
					size := p.Build().MarshalSize()
					if n > size+3 {
						c.Trivial()
						n = size + 3
					}
					c.Tag("every-length")
					tagPacket(c, p)
					observeC04(c, p, caFillDst(c.R, n, c.R.Pick(1, 2, 3)), c.R.Pick(0, 0, 0, 1, 2))
				})
			}
		}
		// large extension blocks x destinations just below / at / above MarshalSize(): a legacy value
		// (whole words, any length) or a run of maximal two-byte elements, longer than what a
		// per-element estimate (2+255 bytes), an MTU or a 16-bit byte count covers; the two largest
		// of each form (distinct two-byte ids: 16384 words; the length field's maximum: 65535 words)
		// with a one-byte-short, an exact and a roomy destination only
		{
			type blk struct{ kind, words int }
			for _, b := range []blk{{profLegacy, 65}, {profLegacy, 66}, {profLegacy, 67}, {profLegacy, 128}, {profLegacy, 375},
				{profLegacy, 1024}, {profTwo, 65}, {profTwo, 66}, {profTwo, 375}, {profTwo, 1024},
				{profLegacy, 16384}, {profTwo, 16384}, {profLegacy, 65535}, {profTwo, 65535}} {
				deltas := []int{-8, -7, -6, -5, -4, -3, -2, -1, 0, 1, 300}
				if b.words >= 16384 {
					deltas = []int{-1, 0, 5}
				}
				for _, d := range deltas {
					for _, pl := range []int{0, 3} {
						if b.words >= 16384 && pl != 0 {
							continue
						}
						b, d, pl := b, d, pl
						x.Case(func(c *Case) {
							p := &PacketIn{}
							genFixed(c.R, &p.H)
							p.H.Extension = true
							p.H.ExtensionProfile, p.Exts = genExtsBlock(c.R, b.kind, b.words)
							p.Payload = c.R.Bytes(pl)
							if c.R.Chance(1, 3) {
								p.H.Padding = true
								p.PadSize = uint8(c.R.Pick(1, 4, 255))
							}
							c.Tag("ext=large-block")
							tagPacket(c, p)
							n := p.Build().MarshalSize() + d
							observeC04(c, p, caFillDst(c.R, n, c.R.Pick(0, 1, 2, 3)), c.R.Pick(0, 0, 1, 2))
						})
					}
				}
			}
		}
		maxPl := 1500
		if x.Thorough() {
			maxPl = 8000
		}
		for i, n := 0, x.N(150000, 1500000); i < n; i++ {
			x.Case(func(c *Case) {
				var p *PacketIn
				if c.R.Chance(1, 10) {
					p = caGenPacketOdd(c.R, 100)
					c.Tag("odd")
				} else {
					p = genPacketWF(c.R, maxPl)
					caWithDupes(c, p)
					if c.R.Chance(1, 10) && p.ShareStorage(c.R) {
						c.Tag("values=windows-of-one-array")
					}
				}
				tagPacket(c, p)
				ls := c04Lengths(p.Build())
				var n int
				switch c.R.Intn(4) {
				case 0:
					n = c.R.Intn(ls[4] + 17)
				case 1:
					n = ls[4] + c.R.Pick(-2, -1, 0, 1, 2, 3, 16, 100)
				default:
					n = ls[c.R.Intn(len(ls))]
				}
				observeC04(c, p, caFillDst(c.R, n, c.R.Intn(4)), c.R.Pick(0, 0, 0, 0, 0, 0, 1, 2))
			})
		}
	})
}

// ---------------------------------------------------------------------------------------------
// C20 — Clone returns an equal, fully independent copy.

// c20Nils describes where a value holds nil slices.
type c20Nils struct {
	csrc, payload, exts bool
	extPl               []bool
}

func caNilsOfHeader(h *rtp.Header) c20Nils {
	n := c20Nils{csrc: h.CSRC == nil, exts: h.Extensions == nil}
	_, pls := rtp.VerifExtensions(h)
	for _, p := range pls {
		n.extPl = append(n.extPl, p == nil)
	}
	return n
}

func caWriteNils(t *Toks, n c20Nils, withPayload bool) {
	t.Bool(n.csrc)
	if withPayload {
		t.Bool(n.payload)
	}
	t.Bool(n.exts)
	t.Nat(len(n.extPl))
	for _, b := range n.extPl {
		t.Bool(b)
	}
}

// caWriteSide writes what one value shows: the canonical packet observation and the raw profile field.
func caWriteSide(t *Toks, p *rtp.Packet) {
	writePacketObs(t, p)
	t.Nat(int(p.Header.ExtensionProfile))
}

// caExtArrayBytes views the backing array of a []Extension (up to capacity) as bytes, for the
// pointer-range overlap test.
func caExtArrayBytes(es []rtp.Extension) []byte {
	if cap(es) == 0 {
		return nil
	}
	sz := int(unsafe.Sizeof(rtp.Extension{})) * cap(es)
	return unsafe.Slice((*byte)(unsafe.Pointer(unsafe.SliceData(es))), sz)[:sz:sz]
}

func caCsrcBytes(cs []uint32) []byte {
	if cap(cs) == 0 {
		return nil
	}
	sz := 4 * cap(cs)
	return unsafe.Slice((*byte)(unsafe.Pointer(unsafe.SliceData(cs))), sz)[:sz:sz]
}

// caByteSlicesOf lists every []byte reachable from a header (extension payloads) plus extra.
func caByteSlicesOf(h *rtp.Header, extra ...[]byte) [][]byte {
	_, pls := rtp.VerifExtensions(h)
	return append(pls, extra...)
}

func caAnyOverlap(as, bs [][]byte) bool {
	for _, a := range as {
		for _, b := range bs {
			if overlaps(a, b) {
				return true
			}
		}
	}
	return false
}

// c20Mut is the single mutation applied after cloning.
type c20Mut struct {
	kind, a, b int
	bs         []byte
}

func (m c20Mut) apply(p *rtp.Packet) {
	switch m.kind {
	case 1:
		if m.a < len(p.Payload) {
			p.Payload[m.a] ^= 0xFF
		}
	case 2:
		if m.a < len(p.CSRC) {
			p.CSRC[m.a] ^= 0xFFFFFFFF
		}
	case 3:
		_, pls := rtp.VerifExtensions(&p.Header)
		if m.a < len(pls) && m.b < len(pls[m.a]) {
			pls[m.a][m.b] ^= 0xFF
		}
	case 4:
		_ = p.Header.SetExtension(uint8(m.a), cloneBytes(m.bs))
	case 5:
		_ = p.Header.DelExtension(uint8(m.a))
	}
}

// buildC20 builds the packet with the nil-ness the description asks for.
func buildC20(in *PacketIn, extsNil bool) *rtp.Packet {
	pkt := in.Build()
	if len(in.Exts) == 0 && !extsNil {
		pkt.Header.Extensions = []rtp.Extension{}
	}
	return pkt
}

func caMarshalTok(t *Toks, p *rtp.Packet) {
	var bs []byte
	var err error
	if try(func() { bs, err = p.Marshal() }) {
		t.Panic()
	} else if writeRes(t, err) {
		t.Bytes(bs)
	}
}

// c20ViaWire makes the next observeC20 call build the original by decoding its own wire image
// (every slice of such a packet is a window into ONE receive buffer — the usual situation when a
// received packet is cloned).  Only used for well-formed descriptions.
func caRebuildViaWire(orig *rtp.Packet, caReusedReceiver bool) *rtp.Packet {
	q, _ := caRebuildViaWireBuf(orig, caReusedReceiver)
	return q
}

// caRebuildViaWireBuf: also returns the receive buffer the rebuilt packet's slices are windows into.
func caRebuildViaWireBuf(orig *rtp.Packet, caReusedReceiver bool) (*rtp.Packet, []byte) {
	var wire []byte
	var err error
	if try(func() { wire, err = orig.Marshal() }) || err != nil {
		return nil, nil
	}
	q := &rtp.Packet{}
	if caReusedReceiver {
		// a REUSED receiver: it decoded a packet with 3 CSRCs and 2 extension elements before, so
		// after decoding `wire` its CSRC / Extensions slices may be empty but keep spare capacity
		// (h.Extensions[:0]) — memory a shallow Clone would share with the original.
		_ = q.Unmarshal([]byte{0x93, 0x60, 0, 1, 0, 0, 0, 2, 0, 0, 0, 3, 0, 0, 0, 4, 0, 0, 0, 5, 0, 0, 0, 6,
			0xBE, 0xDE, 0, 2, 0x10, 0xAA, 0x21, 0xBB, 0xCC, 0, 0, 0, 9})
	}
	if try(func() { err = q.Unmarshal(wire) }) || err != nil {
		return nil, nil
	}
	if !orig.Header.Extension {
		q.Header.ExtensionProfile = orig.Header.ExtensionProfile
	}
	return q, wire
}

func observeC20(c *Case, in *PacketIn, extsNil bool, m c20Mut, onClone bool) {
	observeC20x(c, in, extsNil, m, onClone, false)
}

func observeC20x(c *Case, in *PacketIn, extsNil bool, m c20Mut, onClone, viaWire bool) {
	orig := buildC20(in, extsNil)
	var recvBuf []byte // the datagram `orig` was decoded from (viaWire), else nil
	if viaWire {
		reused := c.R.Bool()
		if q, wire := caRebuildViaWireBuf(orig, reused); q != nil {
			orig, recvBuf = q, wire
			c.Tag("built=unmarshal")
			if reused {
				c.Tag("built=unmarshal-into-reused-receiver")
			}
		}
	}
	orig.Header.PayloadOffset = c.R.Pick(0, 12, 16, c.R.Intn(2000)) // deprecated, but a header field: Clone must carry it
	// The deprecated pair Packet.Raw / Header.PayloadOffset set by hand, the way callers written against
	// the old API keep them: Raw = the datagram the packet was decoded from (the very receive buffer
	// when there is one, else its wire image), PayloadOffset = the header size; also arbitrary values.
	switch c.R.Intn(5) {
	case 0, 1:
		raw := recvBuf
		if raw == nil {
			try(func() { raw, _ = orig.Marshal() })
		}
		if raw != nil {
			orig.Raw = raw
			try(func() { orig.Header.PayloadOffset = orig.Header.MarshalSize() })
			c.Tag("raw=datagram,payloadOffset=header-size")
		}
	case 2:
		orig.Raw = c.R.Bytes(c.R.Pick(0, 1, 12, 40, c.R.Intn(300)))
		if c.R.Bool() {
			orig.Header.PayloadOffset = c.R.Intn(len(orig.Raw) + 2)
		}
		c.Tag("raw=arbitrary")
	}
	nils := caNilsOfHeader(&orig.Header)
	nils.payload = orig.Payload == nil
	writePacketIn(&c.I, in)
	c.I.Nat(orig.Header.PayloadOffset)
	c.I.OBytes(orig.Raw)
	caWriteNils(&c.I, nils, true)
	c.I.Nat(m.kind).Nat(m.a).Nat(m.b).Bytes(m.bs).Bool(onClone)

	caMarshalTok(&c.O, orig)
	var clone *rtp.Packet
	if try(func() { clone = orig.Clone() }) || clone == nil {
		c.O.Tok("panic-Clone")
		return
	}
	caWriteSide(&c.O, clone)
	cn := caNilsOfHeader(&clone.Header)
	cn.payload = clone.Payload == nil
	caWriteNils(&c.O, cn, true)
	c.O.Nat(clone.Header.PayloadOffset)
	c.O.OBytes(clone.Raw)
	origBytes := caByteSlicesOf(&orig.Header, orig.Payload)
	c.O.Bool(caAnyOverlap([][]byte{clone.Payload}, origBytes))
	c.O.Bool(overlaps(caCsrcBytes(clone.CSRC), caCsrcBytes(orig.CSRC)))
	c.O.Bool(overlaps(caExtArrayBytes(clone.Extensions), caExtArrayBytes(orig.Extensions)))
	c.O.Bool(caAnyOverlap(caByteSlicesOf(&clone.Header), origBytes))

	hc := orig.Header.Clone()
	writeHeaderObs(&c.O, &hc)
	c.O.Nat(int(hc.ExtensionProfile))
	caWriteNils(&c.O, caNilsOfHeader(&hc), false)
	c.O.Nat(hc.PayloadOffset)
	c.O.Bool(overlaps(caCsrcBytes(hc.CSRC), caCsrcBytes(orig.CSRC)))
	c.O.Bool(overlaps(caExtArrayBytes(hc.Extensions), caExtArrayBytes(orig.Extensions)))
	c.O.Bool(caAnyOverlap(caByteSlicesOf(&hc), origBytes))

	mutated, other := orig, clone
	if onClone {
		mutated, other = clone, orig
	}
	// (Marshal of the mutated side may fail or panic, e.g. after the only legacy element was deleted)
	var before, after []byte
	try(func() { b, _ := mutated.Marshal(); before = cloneBytes(b) })
	try(func() { m.apply(mutated) })
	after = []byte("panic")
	try(func() { after, _ = mutated.Marshal() })
	if !bytes.Equal(before, after) {
		c.Tag("mutation-effective")
	} else if m.kind != 0 {
		c.Trivial() // the mutation had nothing to change (empty slice, absent id, rejected value)
	}
	caWriteSide(&c.O, other)
	caMarshalTok(&c.O, other)
	// the header clone taken before the mutation must not have moved either
	writeHeaderObs(&c.O, &hc)
	c.O.Nat(int(hc.ExtensionProfile))
}

// caGenMut draws a mutation that is usually effective on the given packet.
func caGenMut(r *Rand, in *PacketIn, kind int) c20Mut {
	m := c20Mut{kind: kind}
	switch kind {
	case 1:
		m.a = r.Intn(len(in.Payload) + 1)
		if len(in.Payload) > 0 && r.Chance(7, 8) {
			m.a = r.Intn(len(in.Payload))
		}
	case 2:
		m.a = r.Intn(len(in.H.CSRC) + 1)
		if len(in.H.CSRC) > 0 && r.Chance(7, 8) {
			m.a = r.Intn(len(in.H.CSRC))
		}
	case 3:
		if len(in.Exts) > 0 {
			m.a = r.Intn(len(in.Exts))
			if l := len(in.Exts[m.a].Payload); l > 0 {
				m.b = r.Intn(l)
			}
		}
	case 4:
		// replace an existing element's value (same length: stays legal for the profile), or add one
		if len(in.Exts) > 0 && r.Chance(2, 3) {
			e := in.Exts[r.Intn(len(in.Exts))]
			m.a = int(e.ID)
			m.bs = r.Bytes(len(e.Payload))
		} else {
			m.a = r.Range(1, 14)
			m.bs = r.Bytes(r.Pick(1, 2, 4, 16))
			if in.H.Extension && in.H.ExtensionProfile != 0xBEDE && in.H.ExtensionProfile != 0x1000 {
				m.a = 0
				m.bs = r.Bytes(4 * r.Range(0, 3))
			}
		}
	case 5:
		if len(in.Exts) > 0 && r.Chance(7, 8) {
			m.a = int(in.Exts[r.Intn(len(in.Exts))].ID)
		} else {
			m.a = r.Intn(256)
		}
	}
	return m
}

// caGenPacketFull draws a well-formed packet with every field populated.
func caGenPacketFull(r *Rand, kind int) *PacketIn {
	p := &PacketIn{}
	genFixed(r, &p.H)
	p.H.Marker = true
	p.H.CSRC = make([]uint32, r.Pick(1, 2, 3, 15))
	for i := range p.H.CSRC {
		p.H.CSRC[i] = uint32(r.U64())
	}
	p.H.Extension = true
	for len(p.Exts) == 0 {
		p.H.ExtensionProfile, p.Exts = genExts(r, kind, 6)
	}
	if kind == profTwo {
		for i := range p.Exts {
			if len(p.Exts[i].Payload) == 0 {
				p.Exts[i].Payload = r.Bytes(r.Range(1, 40))
			}
		}
	}
	if kind == profLegacy && len(p.Exts[0].Payload) == 0 {
		p.Exts[0].Payload = r.Bytes(8)
	}
	p.Payload = r.Bytes(r.Range(1, 200))
	p.H.Padding = true
	p.PadSize = uint8(r.Pick(1, 2, 4, 255, r.Range(1, 255)))
	return p
}

func init() {
	register("c20.clone", "C20", func(x *Ctx) {
		// grid: profile x mutation x side, every field populated
		for kind := profOne; kind <= profLegacy; kind++ {
			for mk := 0; mk <= 5; mk++ {
				for side := 0; side < 2; side++ {
					for rep := 0; rep < 8; rep++ {
						kind, mk, side := kind, mk, side
						x.Case(func(c *Case) {
							p := caGenPacketFull(c.R, kind)
							tagPacket(c, p)
							c.Tag([]string{"mut=none", "mut=payload", "mut=csrc", "mut=extbyte", "mut=set", "mut=del"}[mk])
							observeC20(c, p, false, caGenMut(c.R, p, mk), side == 1)
						})
					}
				}
			}
		}
		// element counts around and beyond the 14 ids of the one-byte form (two-byte: distinct ids up
		// to all 255; one-byte: repeated ids, as decoded from a wire image), and the largest blocks
		// (a legacy value of 65535 words, 255 two-byte elements of 255 bytes) x mutation x side
		for _, n := range []int{14, 15, 16, 40, 255, -15, -65535, -16384} {
			for mk := 0; mk <= 5; mk++ {
				for side := 0; side < 2; side++ {
					n, mk, side := n, mk, side
					if n < -15 && mk != 0 && mk != 3 {
						continue
					}
					x.Case(func(c *Case) {
						p := caGenPacketFull(c.R, profTwo)
						switch {
						case n == -15:
							p.H.ExtensionProfile, p.Exts = 0xBEDE, nil
							for i := 0; i < 15+c.R.Intn(3); i++ {
								p.Exts = append(p.Exts, ExtIn{uint8(1 + i%14), c.R.Bytes(c.R.Range(1, 16))})
							}
						case n == -65535:
							p.H.ExtensionProfile, p.Exts = genExtsBlock(c.R, profLegacy, 65535)
						case n == -16384:
							p.H.ExtensionProfile, p.Exts = genExtsBlock(c.R, profTwo, 16384)
						default:
							p.Exts = genExtsTwoFull(c.R, c.R.Perm(255)[:n], 0)
							for i := range p.Exts {
								p.Exts[i].Payload = p.Exts[i].Payload[:c.R.Pick(0, 1, 2, 4, 17)]
							}
						}
						c.Tag("many-elements/large-block")
						tagPacket(c, p)
						c.Tag([]string{"mut=none", "mut=payload", "mut=csrc", "mut=extbyte", "mut=set", "mut=del"}[mk])
						observeC20x(c, p, false, caGenMut(c.R, p, mk), side == 1, c.R.Chance(1, 3))
					})
				}
			}
		}
		// nil / empty variants of CSRC, Payload, Extensions and element payloads
		for v := 0; v < 32; v++ {
			for side := 0; side < 2; side++ {
				v, side := v, side
				x.Case(func(c *Case) {
					p := &PacketIn{}
					genFixed(c.R, &p.H)
					p.H.CSRC = nil
					if v&1 != 0 {
						p.H.CSRC = []uint32{}
					}
					p.Payload = nil
					if v&2 != 0 {
						p.Payload = []byte{}
					}
					extsNil := v&4 == 0
					if v&8 != 0 {
						p.H.Extension = true
						p.H.ExtensionProfile = 0x1000
						if v&16 != 0 {
							extsNil = false
							p.Exts = []ExtIn{{7, nil}, {9, []byte{}}, {11, c.R.Bytes(3)}}
						}
					} else if v&16 != 0 {
						p.H.ExtensionProfile = uint16(c.R.Intn(65536)) // not observable through the encoder, copied by Clone
					}
					c.Tag("nil-variants")
					observeC20(c, p, extsNil, caGenMut(c.R, p, c.R.Intn(6)), side == 1)
				})
			}
		}
		for i, n := 0, x.N(100000, 1500000); i < n; i++ {
			x.Case(func(c *Case) {
				var p *PacketIn
				switch c.R.Intn(10) {
				case 0:
					p = caGenPacketOdd(c.R, 60)
					c.Tag("odd")
				case 1, 2, 3:
					p = genPacketWF(c.R, 300)
				default:
					p = caGenPacketFull(c.R, c.R.Pick(profOne, profTwo, profLegacy))
				}
				wf := !caTagged(c, "odd")
				// now and then a payload beyond the usual allocation size classes
				if c.R.Chance(1, 25) {
					if x.Thorough() {
						p.Payload = c.R.Bytes(c.R.Pick(1024, 4096, 9000, c.R.Range(1025, 20000)))
					} else {
						p.Payload = c.R.Bytes(c.R.Pick(1024, 1500, c.R.Range(1025, 2048)))
					}
					c.Tag("payload=large")
				}
				if !p.H.Extension && c.R.Bool() {
					p.H.ExtensionProfile = uint16(c.R.Intn(65536))
				}
				caWithDupes(c, p)
				// one packet in five: the values are windows into one shared array (same start with
				// different lengths, overlapping, adjacent), as handed over by a caller who cuts them
				// out of one scratch buffer
				if c.R.Chance(1, 5) && p.ShareStorage(c.R) {
					c.Tag("values=windows-of-one-array")
				}
				tagPacket(c, p)
				mk := c.R.Intn(6)
				c.Tag([]string{"mut=none", "mut=payload", "mut=csrc", "mut=extbyte", "mut=set", "mut=del"}[mk])
				observeC20x(c, p, c.R.Bool(), caGenMut(c.R, p, mk), c.R.Bool(), wf && c.R.Chance(1, 3))
			})
		}
	})
}
