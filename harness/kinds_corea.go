package main

import (
	"github.com/pion/rtp"
)

// C01 — RTP packet encode/decode round trip is lossless.

// observeC01 writes: size marshal unFresh unDirty hsize hmarshal hun
func observeC01(c *Case, in *PacketIn, prev []byte) {
	writePacketIn(&c.I, in)
	c.I.Bytes(prev)
	pkt := in.Build()
	var size, hsize int
	var bs, hb []byte
	var err, herr error
	if try(func() { size = pkt.MarshalSize() }) {
		c.O.Tok("panic-MarshalSize")
		return
	}
	c.O.Nat(size)
	if try(func() { bs, err = pkt.Marshal() }) {
		c.O.Panic().Err("other").Err("other")
	} else if !writeRes(&c.O, err) {
		c.O.Err("other").Err("other")
	} else {
		c.O.Bytes(bs)
		wire := cloneBytes(bs)
		fresh := &rtp.Packet{}
		var uerr error
		if try(func() { uerr = fresh.Unmarshal(wire) }) {
			c.O.Panic()
		} else if writeRes(&c.O, uerr) {
			writePacketObs(&c.O, fresh)
		}
		dirty := &rtp.Packet{}
		try(func() { _ = dirty.Unmarshal(cloneBytes(prev)) })
		if try(func() { uerr = dirty.Unmarshal(wire) }) {
			c.O.Panic()
		} else if writeRes(&c.O, uerr) {
			writePacketObs(&c.O, dirty)
		}
	}
	if try(func() { hsize = pkt.Header.MarshalSize() }) {
		c.O.Tok("panic-HeaderMarshalSize")
		return
	}
	c.O.Nat(hsize)
	if try(func() { hb, herr = pkt.Header.Marshal() }) {
		c.O.Panic().Err("other")
	} else if !writeRes(&c.O, herr) {
		c.O.Err("other")
	} else {
		c.O.Bytes(hb)
		h := &rtp.Header{}
		var n int
		var uerr error
		if try(func() { n, uerr = h.Unmarshal(cloneBytes(hb)) }) {
			c.O.Panic()
		} else if writeRes(&c.O, uerr) {
			writeHeaderObs(&c.O, h)
			c.O.Nat(n)
		}
	}
}

func tagPacket(c *Case, p *PacketIn) {
	switch {
	case !p.H.Extension:
		c.Tag("ext=none")
	case p.H.ExtensionProfile == 0xBEDE:
		c.Tag("ext=onebyte")
	case p.H.ExtensionProfile == 0x1000:
		c.Tag("ext=twobyte")
	default:
		c.Tag("ext=legacy")
	}
	if len(p.Payload) == 0 {
		c.Tag("payload=empty")
	}
	if p.H.Padding {
		c.Tag("padding")
	}
	if len(p.H.CSRC) == 15 {
		c.Tag("csrc=15")
	}
}

func init() {
	register("c01.rt", "C01", func(x *Ctx) {
		// boundary grid: CSRC count × profile × element lengths × payload × padding
		for _, ncsrc := range []int{0, 1, 15} {
			for kind := profNone; kind <= profLegacy; kind++ {
				var elemSets [][]int
				switch kind {
				case profNone:
					elemSets = [][]int{nil}
				case profOne:
					elemSets = [][]int{{}, {1}, {2}, {3}, {4}, {15}, {16}, {1, 1}, {1, 2}, {16, 16}, {3, 16, 1}, {1, 2, 3, 4}}
				case profTwo:
					elemSets = [][]int{{}, {0}, {1}, {2}, {3}, {16}, {17}, {254}, {255}, {0, 0}, {1, 255}, {255, 255, 0}}
				case profLegacy:
					elemSets = [][]int{{0}, {4}, {8}, {256}}
				}
				for _, lens := range elemSets {
					for _, pl := range []int{0, 1, 5} {
						for _, pad := range []int{0, 1, 255} {
							ncsrc, kind, lens, pl, pad := ncsrc, kind, lens, pl, pad
							x.Case(func(c *Case) {
								p := &PacketIn{}
								genFixed(c.R, &p.H)
								p.H.CSRC = make([]uint32, ncsrc)
								for i := range p.H.CSRC {
									p.H.CSRC[i] = uint32(c.R.U64())
								}
								if kind != profNone {
									p.H.Extension = true
									switch kind {
									case profOne:
										p.H.ExtensionProfile = 0xBEDE
									case profTwo:
										p.H.ExtensionProfile = 0x1000
									default:
										p.H.ExtensionProfile = uint16(c.R.Pick(0, 0x1234, 0xFFFF))
									}
									for i, l := range lens {
										id := uint8(i + 1)
										if kind == profTwo && c.R.Bool() {
											id = uint8(200 + i)
										}
										if kind == profLegacy {
											id = 0
										}
										p.Exts = append(p.Exts, ExtIn{id, c.R.Bytes(l)})
									}
								}
								p.Payload = c.R.Bytes(pl)
								if pad > 0 {
									p.H.Padding = true
									p.PadSize = uint8(pad)
								}
								tagPacket(c, p)
								var prev []byte
								if c.R.Bool() {
									q := genPacketWF(c.R, 20).Build()
									prev, _ = q.Marshal()
								}
								observeC01(c, p, prev)
							})
						}
					}
				}
			}
		}
		maxPl := 1500
		if x.Thorough() {
			maxPl = 20000
		}
		for i, n := 0, x.N(20000, 1500000); i < n; i++ {
			x.Case(func(c *Case) {
				p := genPacketWF(c.R, maxPl)
				tagPacket(c, p)
				var prev []byte
				if c.R.Chance(2, 3) {
					q := genPacketWF(c.R, 40).Build()
					prev, _ = q.Marshal()
				}
				observeC01(c, p, prev)
			})
		}
	})
}
