package main

// Group pktz: C07 (sequencer) and C06 (packetizer).  Token formats: lean/Driver/Kinds/Pktz.lean.

import (
	"runtime"
	"sort"
	"strconv"
	"strings"
	"sync"
	"sync/atomic"

	"github.com/pion/rtp"
)

// ---------------------------------------------------------------------------------------------
// C07 — sequential differential runs

// seqRunOps runs the program (a string over n/r) on s and writes `<count> <result>*`.
func seqRunOps(o *Toks, s rtp.Sequencer, ops string, pre []uint64) {
	o.Nat(len(pre) + len(ops))
	for _, v := range pre {
		o.U64(v)
	}
	for i := 0; i < len(ops); i++ {
		if ops[i] == 'n' {
			o.U64(uint64(s.NextSequenceNumber()))
		} else {
			o.U64(s.RollOverCount())
		}
	}
}

// seqRandOps draws a program of n calls, RollOverCount with probability rocNum/rocDen.
func seqRandOps(r *Rand, n, rocNum, rocDen int) string {
	var sb strings.Builder
	sb.Grow(n)
	for i := 0; i < n; i++ {
		if r.Chance(rocNum, rocDen) {
			sb.WriteByte('r')
		} else {
			sb.WriteByte('n')
		}
	}
	return sb.String()
}

func seqOpsTok(ops string) string {
	if ops == "" {
		return "-"
	}
	return ops
}

// c07.long — `skip` unrecorded NextSequenceNumber calls, then a recorded program.  The model advances
// the abstract counter by `skip` in closed form (theorem c07_long), so runs of 2^32 calls and more — 65536
// and more roll-overs, where a 16-bit or 32-bit roll-over / extended counter would wrap — cost only the
// time the real code needs for them (about a minute per 2^32 calls: thorough tier).
func genC07Long(x *Ctx) {
	run := func(start int, skip uint64, tag string) {
		x.Case(func(c *Case) {
			s := start
			if s < 0 {
				s = c.R.Intn(65536)
			}
			// read RollOverCount, issue values across the next wrap, read it again
			ops := "r" + seqRandOps(c.R, c.R.Range(2, 8), 1, 3) + "r"
			c.I.Tok("f").Nat(s).Tok(strconv.FormatUint(skip, 10)).Tok(seqOpsTok(ops))
			c.Tag(tag)
			sq := rtp.NewFixedSequencer(uint16(s))
			for k := uint64(0); k < skip; k++ {
				sq.NextSequenceNumber()
			}
			seqRunOps(&c.O, sq, ops, nil)
		})
	}
	for _, st := range []int{0, 1, 65535, -1} {
		run(st, 0, "skip=0")
		run(st, 65536*3+uint64(65530), "skip=3wraps")
		run(st, 1<<24, "skip=2^24")
	}
	if x.Thorough() {
		// 2^32 calls and a little more: the 65536th roll-over
		run(1, 1<<32-3, "skip=2^32")
		run(-1, 1<<32+70000, "skip=2^32")
	}
}

func genC07Run(x *Ctx) {
	fixed := func(start int, mk func(c *Case) string) {
		x.Case(func(c *Case) {
			ops := mk(c)
			c.I.Tok("f").Nat(start).Tok(seqOpsTok(ops))
			if !strings.Contains(ops, "n") {
				c.Trivial()
			}
			nn := strings.Count(ops, "n")
			switch {
			case nn >= 3*65536:
				c.Tag("fixed:>=3wraps")
			case start+nn > 65536 || (start == 0 && nn > 0):
				c.Tag("fixed:wraps")
			default:
				c.Tag("fixed:no-wrap")
			}
			seqRunOps(&c.O, rtp.NewFixedSequencer(uint16(start)), ops, nil)
		})
	}
	// every one of the 65536 start values, a few calls each
	for s := 0; s < 65536; s++ {
		fixed(s, func(c *Case) string { return "r" + seqRandOps(c.R, c.R.Range(1, 6), 1, 4) + "r" })
	}
	// degenerate programs
	fixed(0, func(c *Case) string { return "" })
	fixed(7, func(c *Case) string { return "rrr" })
	// long runs through at least three wraps, RollOverCount read now and then and around each wrap
	for i, n := 0, x.N(4, 48); i < n; i++ {
		start := []int{0, 1, 65535, 32768}[i%4]
		if i >= 4 {
			start = -1
		}
		x.Case(func(c *Case) {
			s := start
			if s < 0 {
				s = c.R.Intn(65536)
			}
			total := 3*65536 + c.R.Range(10, 70000)
			var sb strings.Builder
			sb.Grow(total + total/200)
			for k := 0; k < total; k++ {
				sb.WriteByte('n')
				v := (s + k) % 65536 // the value just issued
				if v >= 65533 || v <= 2 || c.R.Chance(1, 500) {
					sb.WriteByte('r')
				}
			}
			ops := sb.String()
			c.I.Tok("f").Nat(s).Tok(ops)
			c.Tag("fixed:>=3wraps")
			seqRunOps(&c.O, rtp.NewFixedSequencer(uint16(s)), ops, nil)
		})
	}
	// medium runs from random start values, biased to start just below the wrap
	for i, n := 0, x.N(3000, 200000); i < n; i++ {
		x.Case(func(c *Case) {
			s := c.R.Intn(65536)
			if c.R.Chance(1, 2) {
				s = 65535 - c.R.Intn(300)
			}
			ops := seqRandOps(c.R, c.R.Size(3000, 300, 1000), 1, c.R.Pick(2, 5, 50))
			c.I.Tok("f").Nat(s).Tok(seqOpsTok(ops))
			if strings.Count(ops, "n")+s > 65535 {
				c.Tag("fixed:wraps")
			} else {
				c.Tag("fixed:no-wrap")
			}
			seqRunOps(&c.O, rtp.NewFixedSequencer(uint16(s)), ops, nil)
		})
	}
	// random sequencers: the initial value is recovered from the first value issued (r = first − 1);
	// RollOverCount is read before that first call as well (must be 0)
	for i, n := 0, x.N(4000, 200000); i < n; i++ {
		x.Case(func(c *Case) {
			s := rtp.NewRandomSequencer()
			roc0 := s.RollOverCount()
			first := s.NextSequenceNumber()
			r0 := int(first - 1)
			ops := seqRandOps(c.R, c.R.Size(400, 10, 100), 1, 4)
			c.I.Tok("r").Nat(r0).Tok("rn" + ops)
			c.Tag("random")
			seqRunOps(&c.O, s, ops, []uint64{roc0, uint64(first)})
		})
	}
}

// ---------------------------------------------------------------------------------------------
// C07 — concurrent histories

type seqCall struct {
	op            byte
	before, after uint64
	res           uint64
}

// seqStress runs g goroutines, each making its own program of calls on one shared sequencer.
// Every call is bracketed by two draws from one global atomic ticket counter, so
// `a.after < b.before` implies that a returned before b was invoked.
func seqStress(s rtp.Sequencer, progs []string) [][]seqCall {
	return seqStressJitter(s, progs, nil)
}

// pktzSpin burns a little time (keeps a call "in flight" longer so that more calls overlap).
//
//go:noinline
func pktzSpin(n int) int {
	x := 0
	for i := 0; i < n; i++ {
		x += i ^ (x >> 3)
	}
	return x
}

// seqStressJitter: as seqStress; jitter[g] > 0 makes goroutine g dawdle (pktzSpin or yield) between
// drawing a ticket and making / after making the call, about once every jitter[g] calls.
func seqStressJitter(s rtp.Sequencer, progs []string, jitter []int) [][]seqCall {
	var ticket atomic.Uint64
	out := make([][]seqCall, len(progs))
	start := make(chan struct{})
	var wg sync.WaitGroup
	for gi := range progs {
		gi := gi
		prog := progs[gi]
		rec := make([]seqCall, len(prog))
		out[gi] = rec
		wg.Add(1)
		go func() {
			defer wg.Done()
			<-start
			jit := 0
			if gi < len(jitter) {
				jit = jitter[gi]
			}
			sink := 0
			for k := 0; k < len(prog); k++ {
				dawdle := jit > 0 && (k*7+gi)%jit == 0
				if prog[k] == 'n' {
					b := ticket.Add(1)
					if dawdle {
						if k%2 == 0 {
							runtime.Gosched()
						} else {
							sink += pktzSpin(200 + (k%5)*300)
						}
					}
					v := s.NextSequenceNumber()
					if dawdle && k%3 == 0 {
						runtime.Gosched()
					}
					a := ticket.Add(1)
					rec[k] = seqCall{'n', b, a, uint64(v)}
				} else {
					b := ticket.Add(1)
					if dawdle {
						runtime.Gosched()
					}
					v := s.RollOverCount()
					a := ticket.Add(1)
					rec[k] = seqCall{'r', b, a, v}
				}
			}
			_ = sink
		}()
	}
	close(start)
	wg.Wait()
	return out
}

func genC07Hist(x *Ctx) {
	one := func(goroutines func(c *Case) int, total func(c *Case) int, startv func(c *Case) int, tag string) {
		x.Case(func(c *Case) {
			g := goroutines(c)
			n := total(c)
			s0 := startv(c)
			progs := make([]string, g)
			rocDen := c.R.Pick(3, 10, 100)
			for i := range progs {
				progs[i] = seqRandOps(c.R, n/g+c.R.Intn(3), 1, rocDen)
			}
			c.Tag(tag)
			var jitter []int
			if c.R.Bool() {
				jitter = make([]int, g)
				for i := range jitter {
					jitter[i] = c.R.Pick(0, 0, 3, 17, 101)
				}
				c.Tag("jitter")
			}
			hist := seqStressJitter(rtp.NewFixedSequencer(uint16(s0)), progs, jitter)
			cnt := 0
			for _, h := range hist {
				cnt += len(h)
			}
			c.O.Nat(cnt)
			for gi, h := range hist {
				for _, r := range h {
					c.O.Nat(gi).Tok(string(rune(r.op))).U64(r.before).U64(r.after).U64(r.res)
				}
			}
			c.I.Nat(s0).Nat(g).U64(fnv(c.O.String()))
		})
	}
	nearWrap := func(c *Case) int { return c.R.Pick(0, 1, 65535, 65535-c.R.Intn(2000), c.R.Intn(65536)) }
	// small histories (many interleavings of few calls, wrap inside)
	for i, n := 0, x.N(300, 20000); i < n; i++ {
		one(func(c *Case) int { return c.R.Range(2, 16) }, func(c *Case) int { return c.R.Range(2, 400) },
			func(c *Case) int { return 65535 - c.R.Intn(50) }, "small")
	}
	// 10^4 … 10^5 calls, 2–16 goroutines; every fourth one long enough to pass 65536 twice
	for i, n := 0, x.N(32, 600); i < n; i++ {
		i := i
		one(func(c *Case) int { return []int{2, 3, 4, 8, 16, c.R.Range(2, 16)}[i%6] },
			func(c *Case) int {
				if i%4 == 3 {
					return c.R.Range(132000, 150000)
				}
				return c.R.Range(10000, 100000)
			}, nearWrap, "large")
	}
}

// ---------------------------------------------------------------------------------------------
// C07 — self-test of the linearizability checker on synthesized histories.
// c07.synth: histories that ARE linearizable by construction (a sequential run whose calls are
// given random, sometimes enormous, overlapping real-time intervals around their linearization
// points) must be accepted: this guards against false alarms of the greedy search, in particular
// with calls that stay in flight while the 16-bit value goes all the way round.
// c07.synthbad: minimal corruptions of such histories must be rejected.

type seqSynthCall struct {
	op            byte
	res           uint64
	lin, from, to int64 // linearization point and real-time interval (before ranking)
	before, after uint64
}

func seqSynthHistory(r *Rand, start uint16, n int, rocDen int, longCalls int) []seqSynthCall {
	s := rtp.NewFixedSequencer(start)
	calls := make([]seqSynthCall, n)
	for k := range calls {
		c := &calls[k]
		c.lin = int64(k+1) * 16
		if r.Chance(1, rocDen) {
			c.op, c.res = 'r', s.RollOverCount()
		} else {
			c.op, c.res = 'n', uint64(s.NextSequenceNumber())
		}
		spread := func() int64 {
			switch r.Intn(10) {
			case 0:
				return int64(1 + r.Intn(2000))
			case 1:
				return int64(1 + r.Intn(200))
			default:
				return int64(1 + r.Intn(40))
			}
		}
		c.from, c.to = c.lin-spread(), c.lin+spread()
	}
	// a few calls that stay in flight for (almost) the whole history
	for i := 0; i < longCalls && n > 0; i++ {
		c := &calls[r.Intn(n)]
		if r.Bool() {
			c.from = -int64(r.Intn(1000)) - 1
		}
		if r.Bool() {
			c.to = int64(n+1)*16 + int64(r.Intn(1000)) + 1
		}
	}
	// tickets: ranks of the 2n interval ends
	type ev struct {
		t     int64
		idx   int
		after bool
	}
	evs := make([]ev, 0, 2*n)
	for k := range calls {
		evs = append(evs, ev{calls[k].from, k, false}, ev{calls[k].to, k, true})
	}
	tie := r.U64()
	sort.Slice(evs, func(a, b int) bool {
		if evs[a].t != evs[b].t {
			return evs[a].t < evs[b].t
		}
		return mix(uint64(evs[a].idx)*2+pktzB2u(evs[a].after)^tie) < mix(uint64(evs[b].idx)*2+pktzB2u(evs[b].after)^tie)
	})
	for rank, e := range evs {
		if e.after {
			calls[e.idx].after = uint64(rank + 1)
		} else {
			calls[e.idx].before = uint64(rank + 1)
		}
	}
	return calls
}

func pktzB2u(b bool) uint64 {
	if b {
		return 1
	}
	return 0
}

func seqWriteSynth(c *Case, start int, calls []seqSynthCall) {
	defer func() { c.I.Nat(start).Nat(0).U64(fnv(c.O.String())) }()
	perm := make([]int, len(calls))
	for i := range perm {
		perm[i] = i
	}
	for i := len(perm) - 1; i > 0; i-- {
		j := c.R.Intn(i + 1)
		perm[i], perm[j] = perm[j], perm[i]
	}
	c.O.Nat(len(calls))
	for _, k := range perm {
		q := calls[k]
		c.O.Nat(k % 16).Tok(string(rune(q.op))).U64(q.before).U64(q.after).U64(q.res)
	}
}

func genC07Synth(x *Ctx) {
	gen := func(c *Case) (int, []seqSynthCall) {
		start := c.R.Pick(0, 65535, 65535-c.R.Intn(3000), c.R.Intn(65536))
		n := c.R.Pick(c.R.Range(1, 50), c.R.Range(50, 3000), c.R.Range(3000, 40000))
		if c.R.Chance(1, 25) {
			n = c.R.Range(66000, 140000) // values repeat; with long calls equal values overlap in time
			c.Tag("values-repeat")
		}
		return start, seqSynthHistory(c.R, uint16(start), n, c.R.Pick(3, 10, 100), c.R.Intn(6))
	}
	for i, n := 0, x.N(200, 20000); i < n; i++ {
		x.Case(func(c *Case) {
			start, calls := gen(c)
			seqWriteSynth(c, start, calls)
		})
	}
}

func genC07SynthBad(x *Ctx) {
	for i, n := 0, x.N(200, 20000); i < n; i++ {
		x.Case(func(c *Case) {
			start := c.R.Pick(0, 65535, 65535-c.R.Intn(3000), c.R.Intn(65536))
			n := c.R.Pick(c.R.Range(2, 50), c.R.Range(2, 50), c.R.Range(50, 3000), c.R.Range(3000, 30000))
			calls := seqSynthHistory(c.R, uint16(start), n, c.R.Pick(3, 10), c.R.Intn(4))
			done := false
			switch c.R.Intn(3) {
			case 0: // one value issued twice / one roll-over count off by one
				k := c.R.Intn(n)
				if calls[k].op == 'n' {
					calls[k].res = (calls[k].res + 1 + uint64(c.R.Intn(5))) % 65536
				} else {
					calls[k].res += 3 // at most one wrap happens in a history this short
				}
				done = true
				c.Tag("wrong-result")
			case 1: // two real-time ordered NextSequenceNumber calls exchange their results
				for try := 0; try < 200 && !done; try++ {
					a, b := c.R.Intn(n), c.R.Intn(n)
					if calls[a].op == 'n' && calls[b].op == 'n' && calls[a].after < calls[b].before && calls[a].res != calls[b].res {
						calls[a].res, calls[b].res = calls[b].res, calls[a].res
						done = true
					}
				}
				c.Tag("swapped")
			default: // a call is moved entirely before an earlier-linearized, different-valued call
				for try := 0; try < 200 && !done; try++ {
					a, b := c.R.Intn(n), c.R.Intn(n)
					if a < b && calls[a].op == 'n' && calls[b].op == 'n' && calls[a].after > 1 && calls[b].res != calls[a].res {
						// make b return before a is invoked: shrink b's interval below a's start
						if calls[a].before >= 3 {
							nb, na := calls[a].before-2, calls[a].before-1
							free := true
							for k := range calls {
								if calls[k].before == nb || calls[k].after == nb || calls[k].before == na || calls[k].after == na {
									free = false
								}
							}
							_ = free
							// tickets need not be dense or unique for the check; use half-open trick: scale all by 4
							for k := range calls {
								calls[k].before *= 4
								calls[k].after *= 4
							}
							calls[b].before = calls[a].before - 3
							calls[b].after = calls[a].before - 2
							done = true
						}
					}
				}
				c.Tag("reordered")
			}
			if !done { // fall back to a wrong result
				k := c.R.Intn(n)
				calls[k].res += 70000
				c.Tag("fallback")
			}
			seqWriteSynth(c, start, calls)
		})
	}
}

// c07.synthsmall: tiny random histories (intervals drawn at random, results those of a random
// sequential order, sometimes corrupted); linearizable or not — the Lean side compares the greedy
// checker with a brute-force search over all permutations.
func genC07SynthSmall(x *Ctx) {
	for i, n := 0, x.N(6000, 400000); i < n; i++ {
		x.Case(func(c *Case) {
			r := c.R
			n := r.Range(1, 7)
			start := r.Pick(65535, 65534, 0, 65535-r.Intn(4))
			calls := make([]seqSynthCall, n)
			// tickets: a random matching of 1..2n
			tk := make([]int, 2*n)
			for k := range tk {
				tk[k] = k + 1
			}
			for k := len(tk) - 1; k > 0; k-- {
				j := r.Intn(k + 1)
				tk[k], tk[j] = tk[j], tk[k]
			}
			if r.Bool() { // mostly sequential: sort so that call k gets tickets 2k+1, 2k+2, then perturb a little
				sort.Ints(tk)
				for t := 0; t < r.Intn(4); t++ {
					a := r.Intn(2*n - 1)
					tk[a], tk[a+1] = tk[a+1], tk[a]
				}
			}
			for k := range calls {
				a, b := tk[2*k], tk[2*k+1]
				if a > b {
					a, b = b, a
				}
				calls[k].before, calls[k].after = uint64(a), uint64(b)
			}
			// results: those of a sequential run in a random order of the calls
			order := make([]int, n)
			for k := range order {
				order[k] = k
			}
			if r.Bool() {
				sort.Slice(order, func(a, b int) bool { return calls[order[a]].before < calls[order[b]].before })
			} else {
				for k := n - 1; k > 0; k-- {
					j := r.Intn(k + 1)
					order[k], order[j] = order[j], order[k]
				}
			}
			s := rtp.NewFixedSequencer(uint16(start))
			for _, k := range order {
				if r.Chance(1, 3) {
					calls[k].op, calls[k].res = 'r', s.RollOverCount()
				} else {
					calls[k].op, calls[k].res = 'n', uint64(s.NextSequenceNumber())
				}
			}
			if r.Chance(1, 4) {
				k := r.Intn(n)
				if calls[k].op == 'n' {
					calls[k].res = (calls[k].res + uint64(r.Pick(1, 2, 65535))) % 65536
				} else {
					calls[k].res ^= 1
				}
				c.Tag("corrupted")
			}
			seqWriteSynth(c, start, calls)
		})
	}
}

// c07.randstart: the first value of very many fresh random sequencers (an off-by-one in the range
// shows in one of 32768 draws, so a few thousand sequencers would not do).
func genC07RandStart(x *Ctx) {
	for i, n := 0, x.N(16, 64); i < n; i++ {
		x.Case(func(c *Case) {
			n := 200000
			if x.Thorough() {
				n = 2000000
			}
			lo, hi := 1<<30, -1
			for k := 0; k < n; k++ {
				v := int(rtp.NewRandomSequencer().NextSequenceNumber())
				if v < lo {
					lo = v
				}
				if v > hi {
					hi = v
				}
			}
			c.I.Nat(n)
			c.O.Nat(n).Nat(lo).Nat(hi)
		})
	}
}

func genC07Facts(x *Ctx) {
	x.Case(func(c *Case) {
		f := extractSeqFacts(pktzRepoDir())
		c.I.Tok("sequencer.go")
		if f.err != "" {
			c.Tag("extract-error:" + f.err)
		}
		m := f.maxInitialRandom
		if m < 0 {
			m = 0
		}
		c.O.Bool(f.nextLocksFirst).Bool(f.nextDefersUnlock).Bool(f.rocLocksFirst).Bool(f.rocDefersUnlock).
			Bool(f.noOtherLockOps && f.err == "").Bool(f.fieldsPrivate && f.err == "").Nat(m)
	})
}

// ---------------------------------------------------------------------------------------------
// C06 — packetizer histories

type pktzOp struct {
	kind    byte // P S G E
	payload []byte
	samples uint32
	now     int64
	n       uint32 // S, G
	id      int    // E
}

// runPktzHist runs the history on a real packetizer and writes input and observation tokens.
func runPktzHist(c *Case, codec pktzCodec, mtu int, pt int, ssrc, ts0 uint32, seq0 int, ops []pktzOp) {
	rec := &pktzRecPayloader{inner: codec.mk(c.R)}
	p := rtp.NewPacketizer(uint16(mtu), uint8(pt), ssrc, rec, rtp.NewFixedSequencer(uint16(seq0)), 90000)
	setPacketizerTimestamp(p, ts0)
	var now int64
	if !rtp.VerifSetPacketizerClock(p, pktzClockOf(&now)) {
		panic("not the package's packetizer")
	}
	c.I.Nat(mtu).Nat(pt).U64(uint64(ssrc)).U64(uint64(ts0)).Nat(seq0).Tok(codec.name).Nat(len(ops))
	c.O.Nat(len(ops))
	tags := map[string]bool{}
	ts := uint64(ts0)
	emitted := 0
	absOn := false
	see := func(pkts []*rtp.Packet) {
		for _, q := range pkts {
			if q.SequenceNumber == 0 && emitted > 0 {
				tags["seq:wrapped"] = true
			}
			emitted++
			if q.MarshalSize() == mtu {
				if q.Extension {
					tags["pkt=mtu+ext"] = true
				} else {
					tags["pkt=mtu"] = true
				}
			}
		}
	}
	// Observations are WRITTEN after the whole history has run (the packets of every call are kept
	// until then): what an earlier call returned must still be what it was when a later call has
	// happened — a packetizer that reuses memory between calls would change earlier packets
	// (seed C06-r2-2).  A panic inside Packetize / GeneratePadding is reported as one impossible
	// packet (version 255), which fails the predicate with the history as the replay.
	var later []func()
	bogus := func(tok string) {
		later = append(later, func() {
			c.O.Tok(tok)
			if tok == "P" {
				c.O.None()
			}
			c.O.Nat(1).Nat(255).Bool(false).Bool(false).Bool(false).Nat(0).Nat(0).Nat(0).Nat(0).Nat(0).Nat(0).Bytes(nil).Nat(0).Nat(0).Panic().Bool(false)
		})
	}
	for _, op := range ops {
		switch op.kind {
		case 'P':
			now = op.now
			rec.want, rec.calls, rec.frags = op.payload, 0, nil
			var pkts []*rtp.Packet
			if try(func() { pkts = p.Packetize(op.payload, op.samples) }) {
				c.I.Tok("P").Bytes(op.payload).U64(uint64(op.samples)).I64(op.now).BytesList(rec.frags)
				bogus("P")
				tags["P:panic"] = true
				continue
			}
			c.I.Tok("P").Bytes(op.payload).U64(uint64(op.samples)).I64(op.now).BytesList(rec.frags)
			{
				calls, budget, same := rec.calls, rec.budget, rec.same
				later = append(later, func() {
					c.O.Tok("P")
					if calls == 0 {
						c.O.None()
					} else {
						c.O.Some().Nat(int(budget)).Bool(same && calls == 1)
					}
					pktzObsPkts(&c.O, pkts)
				})
			}
			see(pkts)
			switch {
			case len(op.payload) == 0:
				tags["P:empty-payload"] = true
			case len(pkts) == 0:
				tags["P:no-packets"] = true
			case len(pkts) == 1:
				tags["P:1-packet"] = true
			default:
				tags["P:n-packets"] = true
			}
			if len(op.payload) != 0 {
				if absOn {
					tags["P:abs-on"] = true
				}
				if ts+uint64(op.samples) > 0xFFFFFFFF {
					tags["ts:wrapped"] = true
				}
				ts = (ts + uint64(op.samples)) & 0xFFFFFFFF
			}
		case 'S':
			p.SkipSamples(op.n)
			c.I.Tok("S").U64(uint64(op.n))
			later = append(later, func() { c.O.Tok("S") })
			if ts+uint64(op.n) > 0xFFFFFFFF {
				tags["ts:wrapped"] = true
			}
			ts = (ts + uint64(op.n)) & 0xFFFFFFFF
			tags["S"] = true
		case 'G':
			var pkts []*rtp.Packet
			c.I.Tok("G").U64(uint64(op.n))
			if try(func() { pkts = p.GeneratePadding(op.n) }) {
				bogus("G")
				continue
			}
			later = append(later, func() {
				if len(pkts) > pktzDeltaMin {
					c.O.Tok("Gd")
					pktzObsPktsDelta(&c.O, pkts)
					return
				}
				c.O.Tok("G")
				pktzObsPkts(&c.O, pkts)
			})
			see(pkts)
			if op.n > 0 {
				tags["G:n>0"] = true
			} else {
				tags["G:0"] = true
			}
		case 'E':
			p.EnableAbsSendTime(op.id)
			c.I.Tok("E").Nat(op.id)
			later = append(later, func() { c.O.Tok("E") })
			absOn = op.id != 0
		}
	}
	for _, f := range later {
		f()
	}
	for t := range tags {
		c.Tag(t)
	}
}

func pktzPickSamples(r *Rand) uint32 {
	switch r.Intn(8) {
	case 0:
		return 0
	case 1:
		return 0xFFFFFFFF
	case 2:
		return uint32(r.Pick(1, 160, 960, 3000, 90000, 0x7FFFFFFF, 0x80000000))
	default:
		return uint32(r.U64() >> uint(r.Pick(32, 40, 48, 56)))
	}
}

func genC06Hist(x *Ctx) {
	// --- tiny histories first (short case lines; they also serve as the samples in the evidence)
	for i := 0; i < 64; i++ {
		i := i
		x.Case(func(c *Case) {
			var ops []pktzOp
			if i%2 == 1 {
				ops = append(ops, pktzOp{kind: 'E', id: 1 + i%14})
			}
			ops = append(ops, pktzOp{kind: 'P', payload: c.R.Bytes(1 + i%7), samples: uint32(i), now: int64(i) * 1000000007})
			if i%4 >= 2 {
				ops = append(ops, pktzOp{kind: 'S', n: 5})
			}
			c.Tag("tiny")
			runPktzHist(c, pktzCodecs[i%len(pktzCodecs)], 100, 96, 0x1234ABCD, 45678, 1234, ops)
		})
	}
	// --- boundary grid: one Packetize (optionally after EnableAbsSendTime, followed by padding) with
	// a payload that fills the last fragment exactly / ±1, for the chunking payloaders
	for _, mtu := range []int{64, 65, 100, 1200, 1500} {
		for _, id := range []int{0, 1, 7, 14} {
			for _, k := range []int{1, 2, 3} {
				for d := -1; d <= 1; d++ {
					for _, hdr := range []int{12, 20} {
						for ci := 0; ci < 2; ci++ {
							mtu, id, k, d, hdr, ci := mtu, id, k, d, hdr, ci
							x.Case(func(c *Case) {
								n := k*(mtu-hdr) + d
								var ops []pktzOp
								if id != 0 {
									ops = append(ops, pktzOp{kind: 'E', id: id})
								}
								ops = append(ops, pktzOp{kind: 'P', payload: c.R.Bytes(n), samples: pktzPickSamples(c.R), now: pktzClockValueIn(c.R)})
								ops = append(ops, pktzOp{kind: 'G', n: uint32(c.R.Intn(3))})
								ops = append(ops, pktzOp{kind: 'P', payload: c.R.Bytes(n), samples: 960, now: pktzClockValueIn(c.R)})
								c.Tag("grid")
								if id != 0 {
									c.Tag("abs-on")
								}
								runPktzHist(c, pktzCodecs[ci], mtu, 96+c.R.Intn(32), uint32(c.R.U64()), uint32(c.R.U64()),
									c.R.Pick(0, 65530, 65535), ops)
							})
						}
					}
				}
			}
		}
	}
	// --- padding alone and around the sequence wrap
	for _, seq0 := range []int{0, 1, 65530, 65535} {
		for _, n := range []int{0, 1, 2, 5, 7, 40} {
			seq0, n := seq0, n
			x.Case(func(c *Case) {
				ops := []pktzOp{{kind: 'G', n: uint32(n)}, {kind: 'P', payload: c.R.Bytes(30), samples: 1, now: 0}, {kind: 'G', n: uint32(n)}}
				c.Tag("padding")
				if n == 0 {
					c.Tag("padding:0")
				}
				runPktzHist(c, pktzCodecs[c.R.Intn(len(pktzCodecs))], 1200, 111, 0xFFFFFFFF, 0xFFFFFFF0, seq0, ops)
			})
		}
	}
	// --- many padding packets in one call (count boundaries of narrower integer types)
	// bursts of more than 1024 packets are transported in the delta form (pktzObsPktsDelta: every
	// packet still observed in full); one burst LONGER than the 16-bit sequence space in the quick
	// tier (≈ 5 s of one worker, 0.6 GB in the model process: the model builds all 65536 packets),
	// its neighbours in the thorough tier (seed C06-r5-3)
	bigPads := []int{254, 255, 256, 257, 300, 1025, 65536}
	if x.Thorough() {
		bigPads = append(bigPads, 1000, 65535, 65537, 100000)
	}
	for _, n := range bigPads {
		n := n
		x.Case(func(c *Case) {
			ops := []pktzOp{{kind: 'G', n: uint32(n)}, {kind: 'P', payload: c.R.Bytes(10), samples: 1, now: 1}}
			c.Tag("padding:many")
			runPktzHist(c, pktzCodecs[0], 1200, 96, uint32(c.R.U64()), uint32(c.R.U64()), c.R.Pick(0, 65000, 65535), ops)
		})
	}
	// --- random histories
	for i, n := 0, x.N(8000, 300000); i < n; i++ {
		x.Case(func(c *Case) {
			r := c.R
			codec := pktzCodecs[r.Intn(len(pktzCodecs))]
			mtu := r.Pick(64, 65, 100, 1200, 1500, r.Range(64, 200), r.Range(64, 2000), r.Range(64, 65535))
			small := false
			if codec.simple && r.Chance(1, 25) {
				mtu = r.Pick(0, 1, 11, 12, 13, 19, 20, 21, 27, 28, 63) // outside the property's domain: model must still agree
				small = true
			}
			pt := r.Intn(128)
			if r.Chance(1, 40) {
				pt = 128 + r.Intn(128) // not a 7-bit payload type: outside the domain
			}
			ssrc := uint32(r.U64())
			if r.Chance(1, 10) {
				ssrc = uint32(r.Pick(0, 1, 0xFFFFFFFF))
			}
			ts0 := uint32(r.U64())
			if r.Chance(1, 3) {
				ts0 = uint32(0xFFFFFFFF - r.Intn(5000))
			}
			seq0 := r.Pick(0, 65530, 65535, r.Intn(65536))
			absOn := r.Bool()
			// The property speaks of non-empty payloads and of send instants (clock readings in
			// 1970–2036): a history with an empty-payload call or a clock reading outside that range
			// is outside its quantifier (wf=false, correspondence only).  One such call anywhere
			// would take the whole history out, so they are drawn per HISTORY: five histories in six
			// stay inside the text.
			inText := !r.Chance(1, 6)
			nops := r.Range(1, 12)
			var ops []pktzOp
			curID := 0
			if absOn {
				curID = r.Range(1, 14)
				ops = append(ops, pktzOp{kind: 'E', id: curID})
			}
			for len(ops) < nops {
				switch k := r.Intn(20); {
				case k < 12:
					hdr := 12
					if curID != 0 {
						hdr = 20
					}
					budget := mtu - hdr
					if budget < 1 {
						budget = 50
					}
					var payload []byte
					switch r.Intn(8) {
					case 0:
						if !inText {
							if r.Bool() {
								payload = []byte{}
							}
						} else {
							payload = codec.gen(r, r.Range(1, 3)) // the smallest payloads
						}
					case 1, 2:
						// fragment-filling size for the chunking payloaders, near it for the others
						ln := r.Range(1, 4)*budget + r.Pick(0, 0, 0, -1, 1)
						if ln > 20000 {
							ln = budget + r.Pick(0, 0, -1, 1)
						}
						if ln > 70000 {
							ln = 70000
						}
						payload = codec.gen(r, ln)
						if codec.simple && len(payload) > ln && ln > 0 {
							payload = payload[:ln]
						}
					default:
						payload = codec.gen(r, r.Size(min(4*budget+10, 12000), budget, 2*budget, 1))
					}
					if inText && len(payload) == 0 {
						payload = codec.gen(r, 1)
						if len(payload) == 0 {
							payload = []byte{r.Byte()}
						}
					}
					now := pktzClockValueIn(r)
					if !inText {
						now = pktzClockValue(r)
					}
					ops = append(ops, pktzOp{kind: 'P', payload: payload, samples: pktzPickSamples(r), now: now})
				case k < 14:
					ops = append(ops, pktzOp{kind: 'S', n: pktzPickSamples(r)})
				case k < 17:
					n := r.Pick(0, 1, 1, 2, 3, 5, r.Intn(12))
					if r.Chance(1, 40) {
						n = r.Pick(255, 256, 257, r.Range(12, 400)) // a long burst now and then
					}
					ops = append(ops, pktzOp{kind: 'G', n: uint32(n)})
				default:
					if absOn || r.Chance(1, 3) {
						curID = r.Pick(0, r.Range(1, 14), r.Range(1, 14))
						ops = append(ops, pktzOp{kind: 'E', id: curID})
					}
				}
			}
			c.Tag("codec:" + codec.name)
			if small {
				c.Tag("mtu<64")
			}
			if !inText {
				c.Tag("outside-text:empty-payload/clock")
			}
			if absOn {
				c.Tag("abs-on")
			}
			if seq0 >= 65530 {
				c.Tag("seq-wraps")
			}
			runPktzHist(c, codec, mtu, pt, ssrc, ts0, seq0, ops)
		})
	}
}

func init() {
	register("c06.hist", "C06", genC06Hist)
	register("c07.run", "C07", genC07Run)
	register("c07.long", "C07", genC07Long)
	register("c07.hist", "C07", genC07Hist)
	register("c07.facts", "C07", genC07Facts)
	register("c07.randstart", "C07", genC07RandStart)
	register("c07.synth", "C07", genC07Synth)
	register("c07.synthbad", "C07", genC07SynthBad)
	register("c07.synthsmall", "C07", genC07SynthSmall)
}
