package main

// Group pktz: C07 (sequencer) and C06 (packetizer).  Token formats: lean/Driver/Kinds/Pktz.lean.

import (
	"strings"
	"sync"
	"sync/atomic"

	"github.com/pion/rtp"
)

// ---------------------------------------------------------------------------------------------
// C07 — sequential differential runs

// runSeqOps runs the program (a string over n/r) on s and writes `<count> <result>*`.
func runSeqOps(o *Toks, s rtp.Sequencer, ops string, pre []uint64) {
	o.Nat(len(pre) + len(ops))
	for _, v := range pre {
		o.U64(v)
	}
	for i := 0; i < len(ops); i++ {
		if ops[i] == 'n' {
			o.U64(uint64(s.NextSequenceNumber()))
		} else {
			o.U64(s.RollOverCount())
		}
	}
}

// randOps draws a program of n calls, RollOverCount with probability rocNum/rocDen.
func randOps(r *Rand, n, rocNum, rocDen int) string {
	var sb strings.Builder
	sb.Grow(n)
	for i := 0; i < n; i++ {
		if r.Chance(rocNum, rocDen) {
			sb.WriteByte('r')
		} else {
			sb.WriteByte('n')
		}
	}
	return sb.String()
}

func opsTok(ops string) string {
	if ops == "" {
		return "-"
	}
	return ops
}

func genC07Run(x *Ctx) {
	fixed := func(start int, mk func(c *Case) string) {
		x.Case(func(c *Case) {
			ops := mk(c)
			c.I.Tok("f").Nat(start).Tok(opsTok(ops))
			if !strings.Contains(ops, "n") {
				c.Trivial()
			}
			nn := strings.Count(ops, "n")
			switch {
			case nn >= 3*65536:
				c.Tag("fixed:>=3wraps")
			case start+nn > 65536 || (start == 0 && nn > 0):
				c.Tag("fixed:wraps")
			default:
				c.Tag("fixed:no-wrap")
			}
			runSeqOps(&c.O, rtp.NewFixedSequencer(uint16(start)), ops, nil)
		})
	}
	// every one of the 65536 start values, a few calls each
	for s := 0; s < 65536; s++ {
		fixed(s, func(c *Case) string { return "r" + randOps(c.R, c.R.Range(1, 6), 1, 4) + "r" })
	}
	// degenerate programs
	fixed(0, func(c *Case) string { return "" })
	fixed(7, func(c *Case) string { return "rrr" })
	// long runs through at least three wraps, RollOverCount read now and then and around each wrap
	for i, n := 0, x.N(4, 48); i < n; i++ {
		start := []int{0, 1, 65535, 32768}[i%4]
		if i >= 4 {
			start = -1
		}
		x.Case(func(c *Case) {
			s := start
			if s < 0 {
				s = c.R.Intn(65536)
			}
			total := 3*65536 + c.R.Range(10, 70000)
			var sb strings.Builder
			sb.Grow(total + total/200)
			for k := 0; k < total; k++ {
				sb.WriteByte('n')
				v := (s + k) % 65536 // the value just issued
				if v >= 65533 || v <= 2 || c.R.Chance(1, 500) {
					sb.WriteByte('r')
				}
			}
			ops := sb.String()
			c.I.Tok("f").Nat(s).Tok(ops)
			c.Tag("fixed:>=3wraps")
			runSeqOps(&c.O, rtp.NewFixedSequencer(uint16(s)), ops, nil)
		})
	}
	// medium runs from random start values, biased to start just below the wrap
	for i, n := 0, x.N(3000, 200000); i < n; i++ {
		x.Case(func(c *Case) {
			s := c.R.Intn(65536)
			if c.R.Chance(1, 2) {
				s = 65535 - c.R.Intn(300)
			}
			ops := randOps(c.R, c.R.Size(3000, 300, 1000), 1, c.R.Pick(2, 5, 50))
			c.I.Tok("f").Nat(s).Tok(opsTok(ops))
			if strings.Count(ops, "n")+s > 65535 {
				c.Tag("fixed:wraps")
			} else {
				c.Tag("fixed:no-wrap")
			}
			runSeqOps(&c.O, rtp.NewFixedSequencer(uint16(s)), ops, nil)
		})
	}
	// random sequencers: the initial value is recovered from the first value issued (r = first − 1);
	// RollOverCount is read before that first call as well (must be 0)
	for i, n := 0, x.N(4000, 200000); i < n; i++ {
		x.Case(func(c *Case) {
			s := rtp.NewRandomSequencer()
			roc0 := s.RollOverCount()
			first := s.NextSequenceNumber()
			r0 := int(first - 1)
			ops := randOps(c.R, c.R.Size(400, 10, 100), 1, 4)
			c.I.Tok("r").Nat(r0).Tok("rn" + ops)
			c.Tag("random")
			runSeqOps(&c.O, s, ops, []uint64{roc0, uint64(first)})
		})
	}
}

// ---------------------------------------------------------------------------------------------
// C07 — concurrent histories

type seqCall struct {
	op            byte
	before, after uint64
	res           uint64
}

// stressSeq runs g goroutines, each making its own program of calls on one shared sequencer.
// Every call is bracketed by two draws from one global atomic ticket counter, so
// `a.after < b.before` implies that a returned before b was invoked.
func stressSeq(s rtp.Sequencer, progs []string) [][]seqCall {
	var ticket atomic.Uint64
	out := make([][]seqCall, len(progs))
	start := make(chan struct{})
	var wg sync.WaitGroup
	for gi := range progs {
		gi := gi
		prog := progs[gi]
		rec := make([]seqCall, len(prog))
		out[gi] = rec
		wg.Add(1)
		go func() {
			defer wg.Done()
			<-start
			for k := 0; k < len(prog); k++ {
				if prog[k] == 'n' {
					b := ticket.Add(1)
					v := s.NextSequenceNumber()
					a := ticket.Add(1)
					rec[k] = seqCall{'n', b, a, uint64(v)}
				} else {
					b := ticket.Add(1)
					v := s.RollOverCount()
					a := ticket.Add(1)
					rec[k] = seqCall{'r', b, a, v}
				}
			}
		}()
	}
	close(start)
	wg.Wait()
	return out
}

func genC07Hist(x *Ctx) {
	one := func(goroutines func(c *Case) int, total func(c *Case) int, startv func(c *Case) int, tag string) {
		x.Case(func(c *Case) {
			g := goroutines(c)
			n := total(c)
			s0 := startv(c)
			progs := make([]string, g)
			rocDen := c.R.Pick(3, 10, 100)
			for i := range progs {
				progs[i] = randOps(c.R, n/g+c.R.Intn(3), 1, rocDen)
			}
			c.I.Nat(s0).Nat(g)
			c.Tag(tag)
			hist := stressSeq(rtp.NewFixedSequencer(uint16(s0)), progs)
			cnt := 0
			for _, h := range hist {
				cnt += len(h)
			}
			c.O.Nat(cnt)
			for gi, h := range hist {
				for _, r := range h {
					c.O.Nat(gi).Tok(string(rune(r.op))).U64(r.before).U64(r.after).U64(r.res)
				}
			}
		})
	}
	nearWrap := func(c *Case) int { return c.R.Pick(0, 1, 65535, 65535-c.R.Intn(2000), c.R.Intn(65536)) }
	// small histories (many interleavings of few calls, wrap inside)
	for i, n := 0, x.N(300, 20000); i < n; i++ {
		one(func(c *Case) int { return c.R.Range(2, 16) }, func(c *Case) int { return c.R.Range(2, 400) },
			func(c *Case) int { return 65535 - c.R.Intn(50) }, "small")
	}
	// 10^4 … 10^5 calls, 2–16 goroutines; every fourth one long enough to pass 65536 twice
	for i, n := 0, x.N(32, 600); i < n; i++ {
		i := i
		one(func(c *Case) int { return []int{2, 3, 4, 8, 16, c.R.Range(2, 16)}[i%6] },
			func(c *Case) int {
				if i%4 == 3 {
					return c.R.Range(132000, 150000)
				}
				return c.R.Range(10000, 100000)
			}, nearWrap, "large")
	}
}

func genC07Facts(x *Ctx) {
	x.Case(func(c *Case) {
		f := extractSeqFacts(repoDir())
		c.I.Tok("sequencer.go")
		if f.err != "" {
			c.Tag("extract-error:" + f.err)
		}
		m := f.maxInitialRandom
		if m < 0 {
			m = 0
		}
		c.O.Bool(f.nextLocksFirst).Bool(f.nextDefersUnlock).Bool(f.rocLocksFirst).Bool(f.rocDefersUnlock).
			Bool(f.noOtherLockOps && f.err == "").Bool(f.fieldsPrivate && f.err == "").Nat(m)
	})
}

func init() {
	register("c07.run", "C07", genC07Run)
	register("c07.hist", "C07", genC07Hist)
	register("c07.facts", "C07", genC07Facts)
}
