package main

import (
	"github.com/pion/rtp/codecs"
)

// C16 — audio payloaders split losslessly; Opus is passed through.

// c16Earlier draws the calls a payloader has already served when the observed call arrives: an
// application keeps ONE payloader per stream and hands it every frame, so "for every input" includes
// an input that follows other inputs on the same instance.  k earlier calls; their lengths come from
// the same classes as the observed one (nil, empty, 1–3 bytes — comfort-noise / DTX sized frames —,
// the observed length itself, around the MTU, anything), mostly with the observed MTU.
func c16Earlier(r *Rand, k, mtu, n int) []PayCall {
	calls := make([]PayCall, 0, k)
	for j := 0; j < k; j++ {
		m := mtu
		if r.Chance(1, 4) {
			m = r.Pick(1, 2, 1200, 65535, r.Range(1, 65535))
		}
		var in []byte
		if !r.Chance(1, 12) {
			ln := r.Pick(0, 1, 1, 2, 2, 3, n, n, r.Size(3000, m, 2*m))
			if ln > 10000 {
				ln = 10000
			}
			in = r.Bytes(ln)
		}
		calls = append(calls, PayCall{uint16(m), in})
	}
	return calls
}

// c16Observe writes the earlier calls to the input, replays them on ONE instance (and on its pristine
// twin) and then observes the call under test on that same instance.  The observation is
// `PayObs <n> PayObs*`: the call under test, then the earlier calls in order — every call of the
// history is an (input, MTU) of the property, and the caller still holds what the earlier calls
// returned (packets wait in a send queue), so their fragments are compared with their snapshots once
// more AFTER the last call.
func c16Observe(c *Case, mk func() payloader, earlier []PayCall, mtu int, in []byte) {
	writeCalls(&c.I, earlier)
	p, twin := mk(), mk()
	recs := make([]*payRecord, 0, len(earlier))
	for _, e := range earlier {
		recs = append(recs, observePayDeferred(p, twin, e.MTU, e.Input))
	}
	if len(earlier) > 0 {
		c.Tag("reused-payloader")
	} else {
		c.Tag("fresh-payloader")
	}
	last := observePayDeferred(p, twin, uint16(mtu), in)
	last.write(&c.O)
	c.O.Nat(len(recs))
	for _, r := range recs {
		r.stillStable()
		r.write(&c.O)
	}
}

func genSplit(mk func() payloader) func(x *Ctx) {
	return func(x *Ctx) {
		one := func(mtu int, n int, nilIn bool) {
			x.Case(func(c *Case) {
				var in []byte
				if !nilIn {
					in = c.R.Bytes(n)
				}
				c.I.Nat(mtu).OBytes(in)
				if n == 0 || mtu == 0 {
					c.Trivial()
				}
				switch {
				case mtu == 0:
					c.Tag("mtu=0")
				case n%mtu == 0:
					c.Tag("len=k*mtu")
				case n < mtu:
					c.Tag("len<mtu")
				default:
					c.Tag("len>mtu")
				}
				// the grids: one case in three on an instance that has served one or two calls before
				var earlier []PayCall
				if mtu > 0 && c.R.Chance(1, 3) {
					earlier = c16Earlier(c.R, c.R.Pick(1, 2), mtu, n)
				}
				c16Observe(c, mk, earlier, mtu, in)
			})
		}
		// complete grid: every (length, MTU) with both ≤ G
		g := 40
		if x.Thorough() {
			g = 70
		}
		for mtu := 0; mtu <= g; mtu++ {
			for n := 0; n <= g; n++ {
				one(mtu, n, false)
			}
			one(mtu, 0, true)
		}
		// boundaries k*mtu-1, k*mtu, k*mtu+1 for large MTUs
		for _, mtu := range []int{1, 2, 100, 255, 256, 1200, 1500, 4095, 10000, 65535} {
			for _, k := range []int{1, 2, 3, 7} {
				for d := -1; d <= 1; d++ {
					n := k*mtu + d
					if n >= 0 && n <= 10001 {
						one(mtu, n, false)
					}
				}
			}
		}
		// the largest MTUs (uint16 arithmetic on the MTU wraps exactly here: seed C16-r2-1)
		for _, mtu := range []int{65533, 65534, 65535} {
			for _, n := range []int{0, 1, 2, 100, 9999, 10000} {
				one(mtu, n, false)
			}
			one(mtu, 0, true)
		}
		for i, n := 0, x.N(3000, 300000); i < n; i++ {
			x.Case(func(c *Case) {
				mtu := c.R.Pick(1, 2, 3, c.R.Range(1, 64), c.R.Range(1, 2000), c.R.Range(1, 65535), 65535)
				ln := c.R.Size(10000, mtu, 2*mtu, 3*mtu)
				in := c.R.Bytes(ln)
				c.I.Nat(mtu).OBytes(in)
				if ln == 0 {
					c.Trivial()
				}
				if ln%mtu == 0 {
					c.Tag("len=k*mtu")
				} else if ln < mtu {
					c.Tag("len<mtu")
				} else {
					c.Tag("len>mtu")
				}
				c16Observe(c, mk, c16Earlier(c.R, c.R.Pick(0, 0, 1, 1, 2, 3), mtu, ln), mtu, in)
			})
		}
	}
}

func init() {
	register("c16.g711", "C16", genSplit(func() payloader { return &codecs.G711Payloader{} }))
	register("c16.g722", "C16", genSplit(func() payloader { return &codecs.G722Payloader{} }))
	register("c16.opus", "C16", func(x *Ctx) {
		mkOpus := func() payloader { return &codecs.OpusPayloader{} }
		one := func(mtu, n int, nilIn bool, hist int) {
			x.Case(func(c *Case) {
				var in []byte
				if !nilIn {
					in = c.R.Bytes(n)
				}
				c.I.Nat(mtu).OBytes(in)
				if n == 0 {
					c.Trivial()
				}
				c16Observe(c, mkOpus, c16Earlier(c.R, hist, mtu, n), mtu, in)
			})
		}
		// every length 0–20 (and nil) × a few MTUs, on a fresh payloader and after 1, 2 earlier calls
		for _, mtu := range []int{0, 1, 2, 10, 1200, 65535} {
			for hist := 0; hist <= 2; hist++ {
				one(mtu, 0, true, hist)
				for n := 0; n <= 20; n++ {
					one(mtu, n, false, hist)
				}
			}
		}
		for i, n := 0, x.N(2000, 100000); i < n; i++ {
			x.Case(func(c *Case) {
				mtu := c.R.Range(0, 65535)
				in := c.R.Bytes(c.R.Size(10000, 1, mtu))
				c.I.Nat(mtu).OBytes(in)
				if len(in) == 0 {
					c.Trivial()
				}
				c16Observe(c, mkOpus, c16Earlier(c.R, c.R.Pick(0, 0, 1, 1, 2, 3), mtu, len(in)), mtu, in)
			})
		}
	})
	register("c16.opusde", "C16", func(x *Ctx) {
		// `<obytes> <n> obytes*`: the payload under test, then the payloads the SAME OpusPacket has
		// decoded before it (a receiver is kept per stream and handed every packet).  Half of the
		// histories arrive in ONE receive buffer that is reused for every packet, the others in
		// exactly-sized slices.
		run := func(c *Case, hist [][]byte, in []byte) {
			c.I.OBytes(in)
			writeOBytesList(&c.I, hist)
			if len(in) == 0 {
				c.Tag("nil-or-empty")
			}
			c.Tag("history=" + string(rune('0'+min(len(hist), 9))))
			var rx []byte
			if len(hist) > 0 && c.R.Bool() {
				rx = make([]byte, 0, 4096)
				c.Tag("rx=one-reused-buffer")
			}
			give := func(b []byte) []byte {
				if b == nil || rx == nil || len(b) > cap(rx) {
					return cloneBytes(b)
				}
				return append(rx[:0], b...)
			}
			pkt := &codecs.OpusPacket{}
			for _, h := range hist {
				h := h
				try(func() { pkt.Unmarshal(give(h)) }) //nolint
			}
			buf := give(in)
			var out []byte
			var err error
			var head, t0, t1 bool
			if try(func() {
				out, err = pkt.Unmarshal(buf)
				head = pkt.IsPartitionHead(buf)
				t0 = pkt.IsPartitionTail(false, buf)
				t1 = pkt.IsPartitionTail(true, buf)
			}) {
				c.O.Panic().Bool(false).Bool(false).Bool(false)
				return
			}
			if err != nil {
				c.O.Err("other")
			} else {
				c.O.Ok().Bytes(out)
			}
			c.O.Bool(head).Bool(t0).Bool(t1)
		}
		// earlier payloads: lengths from the classes longer / shorter / equal / tiny relative to the
		// payload under test, and now and then nil or empty (rejected: the receiver keeps what it held)
		earlier := func(r *Rand, k, n int) [][]byte {
			hist := make([][]byte, 0, k)
			for j := 0; j < k; j++ {
				switch r.Intn(12) {
				case 0:
					hist = append(hist, nil)
				case 1:
					hist = append(hist, []byte{})
				default:
					ln := r.Pick(1, 2, 3, n, n+1, n+r.Range(1, 40), 2*n+1, r.Range(1, n+1), r.Range(1, n+1), r.Range(1, 1500))
					hist = append(hist, r.Bytes(ln))
				}
			}
			return hist
		}
		one := func(in []byte, k int) {
			x.Case(func(c *Case) { run(c, earlier(c.R, k, len(in)), in) })
		}
		for k := 0; k <= 3; k++ {
			one(nil, k)
			one([]byte{}, k)
		}
		for b := 0; b < 256; b++ {
			one([]byte{byte(b)}, b%4)
		}
		// every length 1–40 after a longer, then a shorter payload (and the other orders)
		for n := 1; n <= 40; n++ {
			for _, sh := range [][]int{{n + 20, 1}, {1, n + 20}, {n, n}, {2 * n, n - 1}, {n + 1, n/2 + 1, n + 1}} {
				n, sh := n, sh
				x.Case(func(c *Case) {
					var hist [][]byte
					for _, l := range sh {
						hist = append(hist, c.R.Bytes(l))
					}
					run(c, hist, c.R.Bytes(n))
				})
			}
		}
		for i, n := 0, x.N(2000, 100000); i < n; i++ {
			x.Case(func(c *Case) {
				in := c.R.Bytes(c.R.Size(2000, 1, 2))
				run(c, earlier(c.R, c.R.Pick(0, 1, 2, 2, 3, 4), len(in)), in)
			})
		}
	})
}
