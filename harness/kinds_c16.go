package main

import (
	"github.com/pion/rtp/codecs"
)

// C16 — audio payloaders split losslessly; Opus is passed through.

func genSplit(mk func() payloader) func(x *Ctx) {
	return func(x *Ctx) {
		one := func(mtu int, n int, nilIn bool) {
			x.Case(func(c *Case) {
				var in []byte
				if !nilIn {
					in = c.R.Bytes(n)
				}
				c.I.Nat(mtu).OBytes(in)
				if n == 0 || mtu == 0 {
					c.Trivial()
				}
				switch {
				case mtu == 0:
					c.Tag("mtu=0")
				case n%mtu == 0:
					c.Tag("len=k*mtu")
				case n < mtu:
					c.Tag("len<mtu")
				default:
					c.Tag("len>mtu")
				}
				observePay(&c.O, mk(), mk(), uint16(mtu), in)
			})
		}
		// complete grid: every (length, MTU) with both ≤ G
		g := 40
		if x.Thorough() {
			g = 70
		}
		for mtu := 0; mtu <= g; mtu++ {
			for n := 0; n <= g; n++ {
				one(mtu, n, false)
			}
			one(mtu, 0, true)
		}
		// boundaries k*mtu-1, k*mtu, k*mtu+1 for large MTUs
		for _, mtu := range []int{1, 2, 100, 255, 256, 1200, 1500, 4095, 10000, 65535} {
			for _, k := range []int{1, 2, 3, 7} {
				for d := -1; d <= 1; d++ {
					n := k*mtu + d
					if n >= 0 && n <= 10001 {
						one(mtu, n, false)
					}
				}
			}
		}
		// the largest MTUs (uint16 arithmetic on the MTU wraps exactly here: seed C16-r2-1)
		for _, mtu := range []int{65533, 65534, 65535} {
			for _, n := range []int{0, 1, 2, 100, 9999, 10000} {
				one(mtu, n, false)
			}
			one(mtu, 0, true)
		}
		for i, n := 0, x.N(3000, 300000); i < n; i++ {
			x.Case(func(c *Case) {
				mtu := c.R.Pick(1, 2, 3, c.R.Range(1, 64), c.R.Range(1, 2000), c.R.Range(1, 65535), 65535)
				ln := c.R.Size(10000, mtu, 2*mtu, 3*mtu)
				in := c.R.Bytes(ln)
				c.I.Nat(mtu).OBytes(in)
				if ln == 0 {
					c.Trivial()
				}
				if ln%mtu == 0 {
					c.Tag("len=k*mtu")
				} else if ln < mtu {
					c.Tag("len<mtu")
				} else {
					c.Tag("len>mtu")
				}
				observePay(&c.O, mk(), mk(), uint16(mtu), in)
			})
		}
	}
}

func init() {
	register("c16.g711", "C16", genSplit(func() payloader { return &codecs.G711Payloader{} }))
	register("c16.g722", "C16", genSplit(func() payloader { return &codecs.G722Payloader{} }))
	register("c16.opus", "C16", func(x *Ctx) {
		one := func(mtu, n int, nilIn bool) {
			x.Case(func(c *Case) {
				var in []byte
				if !nilIn {
					in = c.R.Bytes(n)
				}
				c.I.Nat(mtu).OBytes(in)
				if n == 0 {
					c.Trivial()
				}
				observePay(&c.O, &codecs.OpusPayloader{}, &codecs.OpusPayloader{}, uint16(mtu), in)
			})
		}
		for _, mtu := range []int{0, 1, 2, 10, 1200, 65535} {
			one(mtu, 0, true)
			for n := 0; n <= 20; n++ {
				one(mtu, n, false)
			}
		}
		for i, n := 0, x.N(2000, 100000); i < n; i++ {
			x.Case(func(c *Case) {
				mtu := c.R.Range(0, 65535)
				in := c.R.Bytes(c.R.Size(10000, 1, mtu))
				c.I.Nat(mtu).OBytes(in)
				if len(in) == 0 {
					c.Trivial()
				}
				observePay(&c.O, &codecs.OpusPayloader{}, &codecs.OpusPayloader{}, uint16(mtu), in)
			})
		}
	})
	register("c16.opusde", "C16", func(x *Ctx) {
		one := func(in []byte) {
			x.Case(func(c *Case) {
				c.I.OBytes(in)
				if len(in) == 0 {
					c.Tag("nil-or-empty")
				}
				pkt := &codecs.OpusPacket{}
				var out []byte
				var err error
				var head, t0, t1 bool
				if try(func() {
					out, err = pkt.Unmarshal(in)
					head = pkt.IsPartitionHead(in)
					t0 = pkt.IsPartitionTail(false, in)
					t1 = pkt.IsPartitionTail(true, in)
				}) {
					c.O.Panic().Bool(false).Bool(false).Bool(false)
					return
				}
				if err != nil {
					c.O.Err("other")
				} else {
					c.O.Ok().Bytes(out)
				}
				c.O.Bool(head).Bool(t0).Bool(t1)
			})
		}
		one(nil)
		one([]byte{})
		for b := 0; b < 256; b++ {
			one([]byte{byte(b)})
		}
		for i, n := 0, x.N(2000, 100000); i < n; i++ {
			x.Case(func(c *Case) {
				in := c.R.Bytes(c.R.Size(2000, 1, 2))
				c.I.OBytes(in)
				pkt := &codecs.OpusPacket{}
				// reuse: decode something else first
				pkt.Unmarshal(c.R.Bytes(c.R.Intn(5))) //nolint
				var out []byte
				var err error
				var head, t0, t1 bool
				if try(func() {
					out, err = pkt.Unmarshal(in)
					head = pkt.IsPartitionHead(in)
					t0 = pkt.IsPartitionTail(false, in)
					t1 = pkt.IsPartitionTail(true, in)
				}) {
					c.O.Panic().Bool(false).Bool(false).Bool(false)
					return
				}
				if err != nil {
					c.O.Err("other")
				} else {
					c.O.Ok().Bytes(out)
				}
				c.O.Bool(head).Bool(t0).Bool(t1)
			})
		}
	})
}
