package main

// C19 — Video Layers Allocation extension encodes per spec and round-trips.
//
//	c19.rt   <vla> <receiver> => <Marshal result> <opt Unmarshal-of-those-bytes-into-receiver result>
//	         valid allocations: every subset of the (stream, spatial) slots for 1–4 streams;
//	         temporal counts 1–4; bitrates in every LEB128 size
//	         class; resolution on/off; clean, previously used and arbitrary receivers
//	c19.rej  same line format; allocations broken in one way (and the literal cases of the tests)
//	c19.dec  <receiver> <bytes> => <Unmarshal result>   fuzz seeds, test vectors, truncations,
//	         extensions and bit flips of valid encodings, random strings
//	c19.dec2 all byte strings of length ≤ 2 (thorough: ≤ 3)

import (
	"encoding/hex"
	"errors"
	"math"
	"strconv"

	"github.com/pion/rtp"
	"github.com/pion/rtp/codecs/av1/obu"
)

func writeVLA(t *Toks, v *rtp.VLA) {
	t.I64(int64(v.RTPStreamID)).I64(int64(v.RTPStreamCount)).Bool(v.HasResolutionAndFramerate)
	t.Nat(len(v.ActiveSpatialLayer))
	for _, l := range v.ActiveSpatialLayer {
		t.I64(int64(l.RTPStreamID)).I64(int64(l.SpatialID)).Nat(len(l.TargetBitrates))
		for _, k := range l.TargetBitrates {
			t.I64(int64(k))
		}
		t.I64(int64(l.Width)).I64(int64(l.Height)).I64(int64(l.Framerate))
	}
}

func cloneVLA(v rtp.VLA) rtp.VLA {
	out := v
	if v.ActiveSpatialLayer != nil {
		out.ActiveSpatialLayer = make([]rtp.SpatialLayer, len(v.ActiveSpatialLayer))
		for i, l := range v.ActiveSpatialLayer {
			if l.TargetBitrates != nil {
				l.TargetBitrates = append([]int{}, l.TargetBitrates...)
			}
			out.ActiveSpatialLayer[i] = l
		}
	}
	return out
}

func vlaErrKind(err error) string {
	switch {
	case errors.Is(err, rtp.ErrVLATooShort):
		return "tooShort"
	case errors.Is(err, rtp.ErrVLAInvalidStreamCount):
		return "streamCount"
	case errors.Is(err, rtp.ErrVLAInvalidStreamID):
		return "streamID"
	case errors.Is(err, rtp.ErrVLAInvalidSpatialID):
		return "spatialID"
	case errors.Is(err, rtp.ErrVLADuplicateSpatialID):
		return "duplicate"
	case errors.Is(err, rtp.ErrVLAInvalidTemporalLayer):
		return "temporal"
	case errors.Is(err, obu.ErrFailedToReadLEB128):
		return "leb"
	}
	return "other"
}

// observeUnmarshal writes `ok <n> <vla>` | `fail <n> <kind>` | `panic` for recv.Unmarshal(b).
func observeUnmarshal(o *Toks, recv rtp.VLA, b []byte) string {
	rr := cloneVLA(recv)
	buf := cloneBytes(b)
	var n int
	var err error
	if try(func() { n, err = rr.Unmarshal(buf) }) {
		o.Panic()
		return "out=panic"
	}
	if err != nil {
		o.Tok("fail").I64(int64(n)).Tok(vlaErrKind(err))
		return "out=" + vlaErrKind(err)
	}
	o.Ok().I64(int64(n))
	writeVLA(o, &rr)
	switch {
	case n < len(b):
		return "out=ok,trailing-bytes"
	case rr.HasResolutionAndFramerate:
		return "out=ok,res"
	}
	return "out=ok"
}

// observeRT: Marshal v, then Unmarshal the bytes into (a copy of) recv.
func observeRT(c *Case, v, recv rtp.VLA) {
	writeVLA(&c.I, &v)
	writeVLA(&c.I, &recv)
	var b []byte
	var err error
	if try(func() { b, err = v.Marshal() }) {
		c.O.Panic().None()
		return
	}
	if err != nil {
		c.O.Err(vlaErrKind(err)).None()
		return
	}
	c.O.Ok().Bytes(b).Some()
	observeUnmarshal(&c.O, recv, b)
}

// lebRate returns a non-negative bitrate whose LEB128 encoding has exactly `size` bytes (1..9).
func lebRate(r *Rand, size int) int {
	if size <= 1 {
		return r.Pick(0, 1, 100, 126, 127, r.Intn(128))
	}
	lo := uint64(1) << uint(7*(size-1))
	hi := uint64(1)<<uint(7*size) - 1
	if size >= 9 {
		hi = math.MaxInt64
	}
	switch r.Intn(4) {
	case 0:
		return int(lo)
	case 1:
		return int(hi)
	default:
		return int(lo + r.U64()%(hi-lo+1))
	}
}

// rateMode: 0 small realistic, 1 any class ≤ 8 bytes, 2 fixed class `cls`, 3 any class incl. 9 bytes
func genRate(r *Rand, mode, cls int) int {
	switch mode {
	case 0:
		return r.Pick(0, 150, 240, 400, 720, 1200, r.Intn(20000))
	case 1:
		return lebRate(r, r.Range(1, 8))
	case 2:
		return lebRate(r, cls)
	default:
		return lebRate(r, r.Range(1, 9))
	}
}

func genDim(r *Rand) int {
	return r.Pick(1, 2, 255, 256, 257, 320, 1280, 65535, 65536, r.Range(1, 65536))
}

// validVLA builds a valid allocation with exactly the slots of `mask` (bit 4*s+k) active.
func validVLA(r *Rand, count int, mask uint32, hasRes bool, tlMode, rateMode, cls int) rtp.VLA {
	v := rtp.VLA{RTPStreamID: r.Intn(count), RTPStreamCount: count, HasResolutionAndFramerate: hasRes}
	for s := 0; s < count; s++ {
		for k := 0; k < 4; k++ {
			if mask&(1<<uint(4*s+k)) == 0 {
				continue
			}
			n := tlMode
			if tlMode < 1 || tlMode > 4 {
				n = r.Range(1, 4)
			}
			l := rtp.SpatialLayer{RTPStreamID: s, SpatialID: k}
			for j := 0; j < n; j++ {
				l.TargetBitrates = append(l.TargetBitrates, genRate(r, rateMode, cls))
			}
			if hasRes || r.Chance(1, 8) {
				l.Width, l.Height, l.Framerate = genDim(r), genDim(r), r.Pick(0, 1, 30, 60, 255, r.Intn(256))
			}
			v.ActiveSpatialLayer = append(v.ActiveSpatialLayer, l)
		}
	}
	return v
}

func randMask(r *Rand, count int) uint32 {
	bits := uint(4 * count)
	switch r.Intn(5) {
	case 0: // the same bitmask for every stream
		m := uint32(r.Range(1, 15))
		var out uint32
		for s := 0; s < count; s++ {
			out |= m << uint(4*s)
		}
		return out
	case 1: // same bitmask, some streams without layers
		m := uint32(r.Range(1, 15))
		var out uint32
		for s := 0; s < count; s++ {
			if r.Bool() {
				out |= m << uint(4*s)
			}
		}
		return out
	default:
		return uint32(r.U64()) & (1<<bits - 1)
	}
}

func randValidVLA(r *Rand) rtp.VLA {
	count := r.Range(1, 4)
	m := randMask(r, count)
	if m == 0 {
		m = 1
	}
	return validVLA(r, count, m, r.Bool(), 0, r.Pick(0, 1), 0)
}

// arbitraryVLA: any struct value, valid or not (used as a dirty receiver).
func arbitraryVLA(r *Rand) rtp.VLA {
	v := rtp.VLA{RTPStreamID: r.Range(-1, 4), RTPStreamCount: r.Range(-1, 5), HasResolutionAndFramerate: r.Bool()}
	n := r.Intn(6)
	for i := 0; i < n; i++ {
		l := rtp.SpatialLayer{RTPStreamID: r.Range(-1, 4), SpatialID: r.Range(-1, 4), Width: r.Intn(3000), Height: r.Intn(3000), Framerate: r.Intn(70)}
		k := r.Intn(6)
		for j := 0; j < k; j++ {
			l.TargetBitrates = append(l.TargetBitrates, r.Intn(5000))
		}
		v.ActiveSpatialLayer = append(v.ActiveSpatialLayer, l)
	}
	return v
}

// genReceiver: a fresh value, a value used for an earlier decode, or an arbitrary value.
func genReceiver(c *Case) rtp.VLA {
	r := c.R
	switch r.Intn(5) {
	case 0, 1:
		c.Tag("recv=zero")
		return rtp.VLA{}
	case 2, 3:
		c.Tag("recv=decoded")
		var recv rtp.VLA
		if b, err := randValidVLA(r).Marshal(); err == nil {
			try(func() { recv.Unmarshal(b) }) //nolint
			if r.Chance(1, 3) {               // a second decode into the same value
				if b2, err := randValidVLA(r).Marshal(); err == nil {
					try(func() { recv.Unmarshal(b2) }) //nolint
				}
			}
		}
		return recv
	default:
		c.Tag("recv=arbitrary")
		return arbitraryVLA(r)
	}
}

func tagVLA(c *Case, v *rtp.VLA) {
	c.Tag("streams=" + strconv.Itoa(v.RTPStreamCount))
	c.Tag("layers=" + strconv.Itoa(len(v.ActiveSpatialLayer)))
	if v.HasResolutionAndFramerate {
		c.Tag("res")
	} else {
		c.Tag("nores")
	}
	var bms [4]int
	maxLeb := 0
	for _, l := range v.ActiveSpatialLayer {
		if l.RTPStreamID >= 0 && l.RTPStreamID < 4 && l.SpatialID >= 0 && l.SpatialID < 4 {
			bms[l.RTPStreamID] |= 1 << uint(l.SpatialID)
		}
		for _, k := range l.TargetBitrates {
			if n := len(obu.WriteToLeb128(uint(k))); n > maxLeb {
				maxLeb = n
			}
		}
	}
	shared := true
	for s := 1; s < v.RTPStreamCount && s < 4; s++ {
		if bms[s] != bms[0] {
			shared = false
		}
	}
	if shared {
		c.Tag("bm=shared")
	} else {
		c.Tag("bm=per-stream")
	}
	c.Tag("maxleb=" + strconv.Itoa(maxLeb))
}

func genC19RT(x *Ctx) {
	one := func(count int, mask uint32, hasRes bool, tlMode, rateMode, cls int) {
		x.Case(func(c *Case) {
			v := validVLA(c.R, count, mask, hasRes, tlMode, rateMode, cls)
			if mask == 0 {
				c.Trivial()
			}
			tagVLA(c, &v)
			observeRT(c, v, genReceiver(c))
		})
	}
	// every subset of the slots for 1–4 streams, resolution on and off
	for count := 1; count <= 4; count++ {
		reps := 1
		if count <= 2 {
			reps = 6
		}
		for mask := uint32(0); mask < 1<<uint(4*count); mask++ {
			for rep := 0; rep < reps; rep++ {
				one(count, mask, false, rep%5, rep%2, 0)
				one(count, mask, true, (rep+2)%5, (rep+1)%2, 0)
			}
		}
	}
	// every LEB128 size class (9 = 2^56 and above) × temporal count, on a few shapes
	for cls := 1; cls <= 9; cls++ {
		for tl := 1; tl <= 4; tl++ {
			for _, sh := range []struct {
				count int
				mask  uint32
			}{{1, 0x1}, {1, 0xF}, {2, 0x11}, {2, 0x31}, {3, 0x101}, {4, 0x1111}, {4, 0xFFFF}, {4, 0x8421}} {
				one(sh.count, sh.mask, cls%2 == 0, tl, 2, cls)
			}
		}
	}
	// random valid allocations
	for i, n := 0, x.N(40000, 2000000); i < n; i++ {
		x.Case(func(c *Case) {
			r := c.R
			count := r.Range(1, 4)
			m := randMask(r, count)
			if m == 0 {
				m = 1 << uint(r.Intn(4*count))
			}
			rateMode := r.Pick(0, 1, 1, 1)
			if r.Chance(1, 50) {
				rateMode = 3
			}
			v := validVLA(r, count, m, r.Bool(), 0, rateMode, 0)
			tagVLA(c, &v)
			if r.Chance(1, 6) { // the receiver has already decoded these very bytes (once or twice)
				c.Tag("recv=same-bytes")
				var recv rtp.VLA
				if b, err := v.Marshal(); err == nil {
					try(func() { recv.Unmarshal(b) }) //nolint
					if r.Bool() {
						try(func() { recv.Unmarshal(b) }) //nolint
					}
				}
				observeRT(c, v, recv)
				return
			}
			observeRT(c, v, genReceiver(c))
		})
	}
}

// breakVLA damages a valid allocation in one way; returns the tag.
func breakVLA(r *Rand, v *rtp.VLA, how int) string {
	pick := func() *rtp.SpatialLayer { return &v.ActiveSpatialLayer[r.Intn(len(v.ActiveSpatialLayer))] }
	extreme := func() int { return r.Pick(-1, -2, math.MinInt64, math.MinInt64+1, -1<<32, -1<<56) }
	// an out-of-range value that is IN range after truncation to 8, 16 or 32 bits (or after adding 256):
	// base + k for a k of the legal range lo … hi
	wrapped := func(lo, hi int) int {
		return r.Pick(256, 512, -256, 65536, 1<<32, -1<<32) + r.Range(lo, hi)
	}
	top := v.RTPStreamCount - 1 // the largest legal stream id (of a legal count)
	if top < 0 || top > 3 {
		top = 3
	}
	switch how {
	case 0:
		v.RTPStreamCount = r.Pick(0, -1, 5, 6, 255, 256, math.MaxInt64, math.MinInt64, wrapped(1, 4), wrapped(1, 4))
		return "count-range"
	case 1:
		v.RTPStreamID = r.Pick(-1, v.RTPStreamCount, v.RTPStreamCount+1, 4, 256, math.MaxInt64, math.MinInt64,
			wrapped(0, top), wrapped(0, 3))
		return "rid-range"
	case 2:
		pick().RTPStreamID = r.Pick(-1, v.RTPStreamCount, 4, 5, 256, math.MaxInt64, math.MinInt64,
			wrapped(0, top), wrapped(0, 3))
		return "stream-range"
	case 3:
		pick().SpatialID = r.Pick(-1, 4, 5, 8, 256, math.MaxInt64, math.MinInt64, wrapped(0, 3), wrapped(0, 3))
		return "spatial-range"
	case 4:
		l := pick()
		switch r.Intn(4) {
		case 0:
			l.TargetBitrates = []int{}
			if r.Bool() {
				l.TargetBitrates = nil
			}
		case 1:
			// a count that is 1 … 4 again modulo 256 (257 … 260, 513 … 516), or 255 / 256
			for n := r.Pick(256, 256, 512)+r.Pick(-1, 0, 1, 2, 3, 4); len(l.TargetBitrates) < n; {
				l.TargetBitrates = append(l.TargetBitrates, r.Intn(3000))
			}
		default:
			for n := 5 + r.Intn(3); len(l.TargetBitrates) < n; {
				l.TargetBitrates = append(l.TargetBitrates, r.Intn(3000))
			}
		}
		return "temporal-count"
	case 11:
		// no active layer at all (nil or empty list) TOGETHER WITH an out-of-range stream count or id
		v.ActiveSpatialLayer = nil
		if r.Bool() {
			v.ActiveSpatialLayer = []rtp.SpatialLayer{}
		}
		breakVLA(r, v, r.Pick(0, 1, 1))
		return "no-layers+count/rid-range"
	case 5:
		d := *pick()
		d.TargetBitrates = append([]int{}, d.TargetBitrates...)
		at := r.Intn(len(v.ActiveSpatialLayer) + 1)
		ls := append([]rtp.SpatialLayer{}, v.ActiveSpatialLayer[:at]...)
		ls = append(ls, d)
		v.ActiveSpatialLayer = append(ls, v.ActiveSpatialLayer[at:]...)
		return "duplicate"
	case 6:
		l := pick()
		if len(l.TargetBitrates) == 0 {
			l.TargetBitrates = []int{0}
		}
		l.TargetBitrates[r.Intn(len(l.TargetBitrates))] = extreme()
		return "negative-bitrate"
	case 7:
		l := pick()
		v.HasResolutionAndFramerate = true
		switch r.Intn(3) {
		case 0:
			l.Width = r.Pick(0, -1, 65537, 1<<20, math.MinInt64, math.MaxInt64)
		case 1:
			l.Height = r.Pick(0, -1, 65537, 1<<20, math.MinInt64, math.MaxInt64)
		default:
			l.Framerate = r.Pick(-1, 256, 257, 1000, math.MinInt64, math.MaxInt64)
		}
		for i := range v.ActiveSpatialLayer {
			q := &v.ActiveSpatialLayer[i]
			if q != l && q.Width == 0 {
				q.Width, q.Height = genDim(r), genDim(r)
			}
		}
		return "resolution-range"
	case 8:
		n := len(v.ActiveSpatialLayer)
		if n < 2 {
			return "order(single)"
		}
		i := r.Intn(n - 1)
		j := i + 1 + r.Intn(n-1-i)
		v.ActiveSpatialLayer[i], v.ActiveSpatialLayer[j] = v.ActiveSpatialLayer[j], v.ActiveSpatialLayer[i]
		return "order"
	case 9:
		v.ActiveSpatialLayer = nil
		return "no-layers"
	default:
		a, b := r.Intn(9), r.Intn(9)
		breakVLA(r, v, a)
		breakVLA(r, v, b)
		return "two-defects"
	}
}

func genC19Rej(x *Ctx) {
	lit := func(v rtp.VLA) {
		x.Case(func(c *Case) {
			c.Tag("literal")
			observeRT(c, v, rtp.VLA{})
		})
	}
	// the literal cases of TestVLAMarshal
	lit(rtp.VLA{RTPStreamID: 0, RTPStreamCount: -1, ActiveSpatialLayer: []rtp.SpatialLayer{}})
	lit(rtp.VLA{RTPStreamID: 0, RTPStreamCount: 5, ActiveSpatialLayer: []rtp.SpatialLayer{{}, {}, {}, {}, {}}})
	lit(rtp.VLA{RTPStreamID: -1, RTPStreamCount: 1, ActiveSpatialLayer: []rtp.SpatialLayer{{}}})
	lit(rtp.VLA{RTPStreamID: 1, RTPStreamCount: 1, ActiveSpatialLayer: []rtp.SpatialLayer{{}}})
	lit(rtp.VLA{RTPStreamCount: 1, ActiveSpatialLayer: []rtp.SpatialLayer{{RTPStreamID: -1}}})
	lit(rtp.VLA{RTPStreamCount: 1, ActiveSpatialLayer: []rtp.SpatialLayer{{RTPStreamID: 1}}})
	lit(rtp.VLA{RTPStreamCount: 1, ActiveSpatialLayer: []rtp.SpatialLayer{{SpatialID: -1}}})
	lit(rtp.VLA{RTPStreamCount: 1, ActiveSpatialLayer: []rtp.SpatialLayer{{SpatialID: 5}}})
	lit(rtp.VLA{RTPStreamCount: 1, ActiveSpatialLayer: []rtp.SpatialLayer{{TargetBitrates: []int{}}}})
	lit(rtp.VLA{RTPStreamCount: 1, ActiveSpatialLayer: []rtp.SpatialLayer{{TargetBitrates: []int{100, 200, 300, 400, 500}}}})
	lit(rtp.VLA{RTPStreamCount: 1, ActiveSpatialLayer: []rtp.SpatialLayer{{TargetBitrates: []int{100}}, {TargetBitrates: []int{200}}}})
	lit(rtp.VLA{})
	for count := 1; count <= 4; count++ {
		for rid := 0; rid < count; rid++ {
			lit(rtp.VLA{RTPStreamID: rid, RTPStreamCount: count})
			lit(rtp.VLA{RTPStreamID: rid, RTPStreamCount: count, HasResolutionAndFramerate: true})
		}
	}
	// no active layer (nil / empty list) x every stream count x stream ids just outside it
	for count := 1; count <= 4; count++ {
		for _, rid := range []int{-1, count, count + 1, 4, 256 + count - 1, -256} {
			lit(rtp.VLA{RTPStreamID: rid, RTPStreamCount: count})
			lit(rtp.VLA{RTPStreamID: rid, RTPStreamCount: count, ActiveSpatialLayer: []rtp.SpatialLayer{}})
		}
	}
	for _, count := range []int{0, -1, 5, 256, 257, 260} {
		lit(rtp.VLA{RTPStreamCount: count})
		lit(rtp.VLA{RTPStreamCount: count, ActiveSpatialLayer: []rtp.SpatialLayer{}})
	}
	for how := 0; how <= 11; how++ {
		for i, n := 0, x.N(2000, 100000); i < n; i++ {
			how := how
			x.Case(func(c *Case) {
				v := randValidVLA(c.R)
				c.Tag(breakVLA(c.R, &v, how))
				observeRT(c, v, genReceiver(c))
			})
		}
	}
}

var vlaVectors = []string{
	"21149601f0019003d005b009",
	"a1149601f0019003d005b009013f00b31e027f01671e04ff02cf1e",
	"1110c801d005b009",
	"601010109601d005b009013f00b31e04ff02cf1e",
	"a0001040ac02f403",
	"a00010409405cc08",
	"00", "3730", "0000", "000000", "10130064c801ac0200", "110064",
}

// vlaFuzzCorpus: the inputs Go's coverage-guided fuzzer found interesting when FuzzVLAUnmarshal was
// run for 20 s on the repaired tree (1.1 M executions, no crash); kept as a fixed corpus.
var vlaFuzzCorpus = []string{
	"",
	"58",
	"1030",
	"4030",
	"4130",
	"000030",
	"303030",
	"313030",
	"373030",
	"583030",
	"30000030",
	"37303030",
	"00303080a1",
	"3130f0ed30",
	"7f30303030",
	"2730303030c3",
	"41b23030d73030",
	"3141303030303030",
	"4130303030303030",
	"31303085858585303030",
	"31313030303030303030",
	"3730303030303030303030",
	"313085859c8585859c30f830",
	"4330303030303030303030303030303030",
	"39303030303030303030303030303030d99930",
	"3730303030303030303030303030303030303030",
	"31303030ade295cac3c48a30ffd0caa63097f8e3b2b530",
	"31413030303030303030303030303030303030303030303030303030",
	"317a30eab2d3aea5a930303030a6dfb7c2af30b7c8abd4d0f3b2303030ab30309330",
	"7f304130303030303030303030303030303030303030303030303030303030303030",
	"3730b77a3030303030303030303030303030303030303030303030303030303030303030",
	"31303030e398d0f18130dc9f89bad1f1fa3085fa8bace6fba530fdc0fad6fe92309bb6d9e28b8afd30",
	"39014130ff8f3030d230303030b530308ba89230cc3030303030303030303030303030303030303030303030303030303030303030303030303030303030",
	"317a30eab2d3aecacacacacacacacacacacacacacacacacacacacacacacacacacacacacacacacaa5a930303030a6dfb7c2af30b7c8abd4d0f3b2303030ab30309330",
	"30e730373730abf2e1cb97ba303080ed9d3081309abbe9cd30d830a5b830c5cc9f30f130f6e69b3030303080a0ad91a59c30ac30ca30c13094b2ce30a8e6dc30a830bef130",
	"ffffffffff30303030303030303030303030303030303030303030303030303030303030303030303030303030303030303030303030303030303030303030303030303030",
	"3141303030fefefefefefefefefefefefefefefefefefefefefefefefefefefefefefefefefefefefefefefefefefefefefefefefefefefefefefefefefefefefefefefefefefefefefefefefefefefefefefefefefefefefefefefefefefefefe30303030",
	"7f303030303030303030303030303030303030303030303030303030303030303030303030303030303030303030303030303030303030303030303030303030303030303030303030303030303030303030303030303030303030303030303030303030303030303030303030303030303030303030",
	"3130c3c3c3c3c3c3c3c3c3c3c3c3c3c3c3c3c3c3c3c3c3c3c3c3c3c3c3c3c3c3c3c3c3c3c3c3c3c3c3c3c3c3c3c3c3c3c3c3c3c3c3c3c3c3c3c3c3c3c3c3c3c3c3c3c3c3c3c3c3c3c3c3c3c3c3c3c3c3c3c3c3c3c3c3c3c3c3c3c3c3c3c3c3c3c3c3c3c3c3c3c3c3c3c3c3c3c3c3b0c3c3c3c3c3c3c3c3c3c3c3c3c3c3c3c3c3c3c3",
	"3130c3c3c3c3c3c3c3c3c3c3c3c3c3c3c3c3c3c3c3c3c3c3c3c3c3c3c3c3c3c3c3c3c3c3c3c3c3c3c3c3c3c3c3c3c3c3c3c3c3c3c3c3c3c3c3c3c3c3c3c3c3c3c3c3c3c3c3c3c3c3c3c3c3c3c3c3c3c3c3c3c3c3c3c3c3c3c3c3c3c3c3c3c3c3c3c3c3c3c3c3c3c3c3c3c3c3c3c3c3c3c3c3c3c3c3c3c3c3c3c3c3c3c3c3c3c3c3c3",
	"ffff7fff37303030a68c30db30913030e3eaa230df8295f0dd30bb8b3030c23083d0309d30ddd6f2869f88303030e6a9e7f7fcb030de303030f1efb9309ccc30a6cae230ff303099b8b030303030ff30e9a030e5c49cff30c1f39a30b8ec30bc303087ea3030c23030303084edf3d530899a303030303090308230df308230303030b7a8303030303030303030303030303030303030303030303030303030303030303030303030303030303030303030303030303030303030303030303030303030303030303030303030303030303030303030",
}

func genC19Dec(x *Ctx) {
	one := func(b []byte, tag string) {
		x.Case(func(c *Case) {
			c.Tag(tag)
			recv := genReceiver(c)
			writeVLA(&c.I, &recv)
			c.I.Bytes(b)
			if len(b) == 0 {
				c.Trivial()
			}
			c.Tag(observeUnmarshal(&c.O, recv, b))
		})
	}
	one(nil, "empty")
	one([]byte{}, "empty")
	for _, h := range vlaVectors {
		b, _ := hex.DecodeString(h)
		for n := 0; n <= len(b); n++ {
			one(b[:n], "vector-prefix")
		}
		for k := 1; k <= 6; k++ {
			one(append(append([]byte{}, b...), make([]byte, k)...), "vector+zeros")
			one(append(append([]byte{}, b...), 0xFF, 0x80, 0xFF, 0x01, 0x02, 0x03)[:len(b)+k], "vector+bytes")
		}
	}
	for _, h := range vlaFuzzCorpus {
		b, _ := hex.DecodeString(h)
		one(b, "fuzz-corpus")
		for _, n := range []int{1, 2, 3, len(b) / 2, len(b) - 1} {
			if n > 0 && n < len(b) {
				one(b[:n], "fuzz-corpus-prefix")
			}
		}
	}
	// every header byte followed by a few fixed tails
	for b0 := 0; b0 < 256; b0++ {
		for _, tail := range []string{"", "ff", "ffff", "ffffff", "ffffffffff", "0000000000", "ff00ff00ff00ff00ff00ff00ff00ff00ff00", "ffffffffffffffffffffffffffffffffffffffffffffffffffffffffffffffffffffffffffffffffffffffffffffffffffffffffffffffffffffffffffffffffffff", "ff55808080808080808080808001"} {
			t, _ := hex.DecodeString(tail)
			one(append([]byte{byte(b0)}, t...), "header-sweep")
		}
	}
	for i, n := 0, x.N(60000, 3000000); i < n; i++ {
		x.Case(func(c *Case) {
			r := c.R
			var b []byte
			switch r.Intn(6) {
			case 0:
				c.Tag("random")
				b = r.Bytes(r.Size(40, 1, 2, 3))
			case 1:
				c.Tag("random-small-bytes") // low values keep LEB128 fields short, so deeper stages are reached
				b = r.Bytes(r.Size(60, 3, 8))
				for i := 1; i < len(b); i++ {
					if r.Chance(2, 3) {
						b[i] &= 0x7F
					}
				}
			default:
				v := randValidVLA(r)
				enc, err := v.Marshal()
				if err != nil {
					c.Tag("random")
					b = r.Bytes(5)
					break
				}
				b = enc
				switch r.Intn(6) {
				case 0:
					c.Tag("valid")
				case 1:
					c.Tag("valid-truncated")
					b = b[:r.Intn(len(b)+1)]
				case 2:
					c.Tag("valid-bitflip")
					b = append([]byte{}, b...)
					for k := r.Range(1, 3); k > 0; k-- {
						b[r.Intn(len(b))] ^= 1 << uint(r.Intn(8))
					}
				case 3:
					c.Tag("valid-extended")
					b = append(append([]byte{}, b...), r.Bytes(r.Range(1, 12))...)
				case 4:
					// replace the bytes after the #tl block by LEB128 values that are not minimal or
					// longer than eight bytes (ReadLeb128's 64-bit accumulator shifts bytes out)
					c.Tag("valid-overlong-leb")
					hdr := 1
					if b[0]&0x0F == 0 {
						hdr += 1 + int(b[0]>>4&3)/2
					}
					hdr += (len(v.ActiveSpatialLayer)-1)/4 + 1
					if hdr > len(b) {
						hdr = len(b)
					}
					b = append([]byte{}, b[:hdr]...)
					for k := r.Range(1, 20); k > 0; k-- {
						n := r.Pick(1, 2, 3, 8, 9, 10, 11, 12)
						for j := 0; j < n-1; j++ {
							b = append(b, byte(0x80|r.Pick(0, 0, 0x7F, int(r.Byte()))))
						}
						b = append(b, byte(r.Pick(0, 1, 0x7F, int(r.Byte())&0x7F)))
					}
					if r.Bool() {
						b = append(b, r.Bytes(r.Intn(12))...)
					}
				default:
					c.Tag("valid-spliced")
					b = append([]byte{}, b...)
					at := r.Intn(len(b) + 1)
					if r.Bool() && at < len(b) {
						b = append(b[:at], b[at+1:]...)
					} else {
						b = append(b[:at], append([]byte{r.Byte()}, b[at:]...)...)
					}
				}
			}
			recv := genReceiver(c)
			writeVLA(&c.I, &recv)
			c.I.Bytes(b)
			if len(b) == 0 {
				c.Trivial()
			}
			c.Tag(observeUnmarshal(&c.O, recv, b))
		})
	}
}

func genC19Dec2(x *Ctx) {
	one := func(b []byte) {
		x.Case(func(c *Case) {
			recv := rtp.VLA{}
			if c.R.Chance(1, 4) {
				recv = arbitraryVLA(c.R)
			}
			writeVLA(&c.I, &recv)
			c.I.Bytes(b)
			if len(b) == 0 {
				c.Trivial()
			}
			c.Tag("len=" + strconv.Itoa(len(b)))
			c.Tag(observeUnmarshal(&c.O, recv, b))
		})
	}
	one(nil)
	for a := 0; a < 256; a++ {
		one([]byte{byte(a)})
	}
	for a := 0; a < 256; a++ {
		for b := 0; b < 256; b++ {
			one([]byte{byte(a), byte(b)})
		}
	}
	if x.Thorough() {
		// all strings of length 3
		for a := 0; a < 256; a++ {
			for b := 0; b < 256; b++ {
				for d := 0; d < 256; d++ {
					one([]byte{byte(a), byte(b), byte(d)})
				}
			}
		}
	}
}

func init() {
	register("c19.rt", "C19", genC19RT)
	register("c19.rej", "C19", genC19Rej)
	register("c19.dec", "C19", genC19Dec)
	register("c19.dec2", "C19", genC19Dec2)
}
