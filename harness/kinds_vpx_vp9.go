package main

// Case kinds of the VP9 group: C12 and the VP9 parts of C08/C09.
// Token layouts: see lean/Driver/Kinds/Vpx.lean.

import (
	"github.com/pion/rtp/codecs"
	"github.com/pion/rtp/codecs/vp9"
)

// ---------------------------------------------------------------------------------------------
// an independent bit writer for the VP9 uncompressed header (VP9 bitstream spec §6.2)

type bitw struct{ bits []bool }

func (w *bitw) put(n int, v int) {
	for i := n - 1; i >= 0; i-- {
		w.bits = append(w.bits, (v>>uint(i))&1 == 1)
	}
}

func (w *bitw) flag(b bool) { w.bits = append(w.bits, b) }

func (w *bitw) bytes() []byte {
	out := make([]byte, (len(w.bits)+7)/8)
	for i, b := range w.bits {
		if b {
			out[i/8] |= 0x80 >> uint(i%8)
		}
	}
	return out
}

type vp9Hdr struct {
	Kind      string // "se" show_existing_frame, "nk" non-key frame, "key"
	Profile   int
	Idx       int
	ShowFrame bool
	ErrRes    bool
	Bit12     bool
	Space     int
	Range     bool
	SubX      bool
	SubY      bool
	W, H      int // 1 … 65536
}

func (h *vp9Hdr) emit(w *bitw) {
	w.put(2, 2)
	w.put(1, h.Profile&1)
	w.put(1, h.Profile>>1)
	if h.Profile == 3 {
		w.put(1, 0)
	}
	if h.Kind == "se" {
		w.flag(true)
		w.put(3, h.Idx)
		return
	}
	w.flag(false)
	w.flag(h.Kind == "nk") // frame_type: 0 = KEY_FRAME
	w.flag(h.ShowFrame)
	w.flag(h.ErrRes)
	if h.Kind == "nk" {
		return
	}
	w.put(8, 0x49)
	w.put(8, 0x83)
	w.put(8, 0x42)
	if h.Profile >= 2 {
		w.flag(h.Bit12)
	}
	w.put(3, h.Space)
	odd := h.Profile == 1 || h.Profile == 3
	if h.Space != 7 {
		w.flag(h.Range)
		if odd {
			w.flag(h.SubX)
			w.flag(h.SubY)
			w.put(1, 0)
		}
	} else if odd {
		w.put(1, 0)
	}
	w.put(16, h.W-1)
	w.put(16, h.H-1)
}

// frame returns a frame of (at least) n bytes starting with the header: the bits after the header
// are random.
func (h *vp9Hdr) frame(r *Rand, n int) []byte {
	var w bitw
	h.emit(&w)
	for len(w.bits)%8 != 0 {
		w.flag(r.Bool())
	}
	b := w.bytes()
	if len(b) < n {
		b = append(b, r.Bytes(n-len(b))...)
	}
	return b
}

// write mirrors `Rd.opt rdHdrDesc`.
func (h *vp9Hdr) write(t *Toks) {
	if h == nil {
		t.None()
		return
	}
	t.Some().Tok(h.Kind).Nat(h.Profile)
	switch h.Kind {
	case "se":
		t.Nat(h.Idx)
	case "nk":
		t.Bool(h.ShowFrame).Bool(h.ErrRes)
	default:
		t.Bool(h.ShowFrame).Bool(h.ErrRes).Bool(h.Bit12).Nat(h.Space).Bool(h.Range).Bool(h.SubX).Bool(h.SubY).Nat(h.W).Nat(h.H)
	}
}

var vp9Sizes = []int{1, 2, 255, 256, 65535}

func randVp9Hdr(r *Rand) *vp9Hdr {
	h := &vp9Hdr{Profile: r.Intn(4), Idx: r.Intn(8), ShowFrame: r.Bool(), ErrRes: r.Bool(), Bit12: r.Bool(),
		Space: r.Intn(8), Range: r.Bool(), SubX: r.Bool(), SubY: r.Bool()}
	switch r.Intn(10) {
	case 0:
		h.Kind = "se"
	case 1, 2, 3:
		h.Kind = "nk"
	default:
		h.Kind = "key"
	}
	dim := func() int {
		switch r.Intn(4) {
		case 0:
			return vp9Sizes[r.Intn(len(vp9Sizes))]
		case 1:
			return r.Range(1, 65535)
		case 2:
			return r.Pick(320, 640, 1280, 1920, 3840, 240, 480, 720, 1080, 2160)
		default:
			return r.Range(1, 4096)
		}
	}
	h.W, h.H = dim(), dim()
	return h
}

func writeHdrObs(t *Toks, buf []byte) {
	var h vp9.Header
	var err error
	var w, ht uint16
	if try(func() {
		err = h.Unmarshal(buf)
		if err == nil {
			w, ht = h.Width(), h.Height()
		}
	}) {
		t.Panic()
		return
	}
	if err != nil {
		t.Err("other")
		return
	}
	t.Ok().Nat(int(h.Profile)).Bool(h.ShowExistingFrame).Nat(int(h.FrameToShowMapIdx)).Bool(h.NonKeyFrame).Bool(h.ShowFrame).Bool(h.ErrorResilientMode)
	if c := h.ColorConfig; c != nil {
		t.Some().Bool(c.TenOrTwelveBit).Nat(int(c.BitDepth)).Nat(int(c.ColorSpace)).Bool(c.ColorRange).Bool(c.SubsamplingX).Bool(c.SubsamplingY)
	} else {
		t.None()
	}
	if s := h.FrameSize; s != nil {
		t.Some().Nat(int(s.FrameWidthMinus1)).Nat(int(s.FrameHeightMinus1))
	} else {
		t.None()
	}
	t.Nat(int(w)).Nat(int(ht))
}

// ---------------------------------------------------------------------------------------------
// c12.hdr

func genC12Hdr(x *Ctx) {
	one := func(f func(c *Case) (*vp9Hdr, []byte)) {
		x.Case(func(c *Case) {
			h, wire := f(c)
			h.write(&c.I)
			c.I.Bytes(wire)
			if h == nil {
				c.Tag("undescribed")
				if len(wire) == 0 {
					c.Trivial()
				}
			} else {
				c.Tag(h.Kind + ",profile=" + string(rune('0'+h.Profile)))
			}
			writeHdrObs(&c.O, wire)
		})
	}
	// profiles × colour spaces × bit depth × range × subsampling, sizes at the boundaries
	idx := 0
	for profile := 0; profile < 4; profile++ {
		for space := 0; space < 8; space++ {
			for v := 0; v < 16; v++ {
				idx++
				h := vp9Hdr{Kind: "key", Profile: profile, Space: space, Bit12: v&1 != 0, Range: v&2 != 0, SubX: v&4 != 0, SubY: v&8 != 0,
					ShowFrame: idx&1 != 0, ErrRes: idx&2 != 0, W: vp9Sizes[idx%5], H: vp9Sizes[(idx/5)%5]}
				one(func(c *Case) (*vp9Hdr, []byte) { return &h, h.frame(c.R, c.R.Intn(30)) })
			}
			for _, w := range vp9Sizes {
				for _, ht := range vp9Sizes {
					h := vp9Hdr{Kind: "key", Profile: profile, Space: space, Range: true, SubX: true, W: w, H: ht}
					one(func(c *Case) (*vp9Hdr, []byte) { return &h, h.frame(c.R, 0) })
				}
			}
		}
		for i := 0; i < 8; i++ {
			h := vp9Hdr{Kind: "se", Profile: profile, Idx: i}
			one(func(c *Case) (*vp9Hdr, []byte) { return &h, h.frame(c.R, c.R.Intn(4)) })
		}
		for v := 0; v < 4; v++ {
			h := vp9Hdr{Kind: "nk", Profile: profile, ShowFrame: v&1 != 0, ErrRes: v&2 != 0}
			one(func(c *Case) (*vp9Hdr, []byte) { return &h, h.frame(c.R, c.R.Intn(4)) })
		}
		// 65536 is codable (frame_width_minus_1 = 0xFFFF) but wraps in the uint16 accessor
		h := vp9Hdr{Kind: "key", Profile: profile, Space: 1, W: 65536, H: 65536}
		one(func(c *Case) (*vp9Hdr, []byte) { return &h, h.frame(c.R, 0) })
		// every byte truncation and every single bit flip of one key-frame header per profile
		hk := vp9Hdr{Kind: "key", Profile: profile, Space: 2, Range: true, SubX: true, SubY: false, Bit12: true, W: 640, H: 360}
		full := hk.frame(&Rand{s: 7}, 0)
		for k := 0; k <= len(full); k++ {
			k := k
			one(func(c *Case) (*vp9Hdr, []byte) { return nil, full[:k] })
		}
		for bit := 0; bit < len(full)*8; bit++ {
			bit := bit
			one(func(c *Case) (*vp9Hdr, []byte) {
				m := append([]byte{}, full...)
				m[bit/8] ^= 0x80 >> uint(bit%8)
				return nil, m
			})
		}
	}
	for b := 0; b < 256; b++ {
		b := b
		one(func(c *Case) (*vp9Hdr, []byte) { return nil, []byte{byte(b)} })
		one(func(c *Case) (*vp9Hdr, []byte) { return nil, []byte{byte(b), 0x49, 0x83, 0x42, byte(b), 0xFF, 0xFF, 0xFF, 0xFF} })
	}
	for i, n := 0, x.N(15000, 200000); i < n; i++ {
		one(func(c *Case) (*vp9Hdr, []byte) {
			r := c.R
			switch r.Intn(8) {
			case 0:
				return nil, r.Bytes(r.Size(20, 0, 1, 8))
			case 1:
				h := randVp9Hdr(r)
				f := h.frame(r, r.Intn(12))
				return nil, mutate(r, f, []byte{0x82, 0x92, 0xa2, 0xb2, 0x49, 0x83, 0x42, 0x00, 0xFF})
			default:
				h := randVp9Hdr(r)
				return h, h.frame(r, r.Intn(40))
			}
		})
	}
}

// ---------------------------------------------------------------------------------------------
// an independent encoder of the VP9 payload descriptor (draft-ietf-payload-vp9 §4.2)

type vp9PG struct {
	TID    int
	U      bool
	PDiffs []int
	Ign    int
}

type vp9SS struct {
	NS     int
	Y      bool
	Res    [][2]int
	G      bool
	PGs    []vp9PG
	Ign    int
}

type vp9Desc struct {
	P, F, B, E, Z bool
	I, M          bool
	PicID         int
	L             bool
	TID, SID      int
	U, D          bool
	TL0           int
	PDiffs        []int
	V             bool
	SS            vp9SS
}

func (d *vp9Desc) encode() []byte {
	out := []byte{byte(b2i(d.I, 0x80) | b2i(d.P, 0x40) | b2i(d.L, 0x20) | b2i(d.F, 0x10) | b2i(d.B, 0x08) | b2i(d.E, 0x04) | b2i(d.V, 0x02) | b2i(d.Z, 0x01))}
	if d.I {
		if d.M {
			out = append(out, byte(0x80|d.PicID>>8), byte(d.PicID))
		} else {
			out = append(out, byte(d.PicID))
		}
	}
	if d.L {
		out = append(out, byte(d.TID<<5|b2i(d.U, 0x10)|d.SID<<1|b2i(d.D, 1)))
		if !d.F {
			out = append(out, byte(d.TL0))
		}
	}
	if d.F && d.P {
		for i, v := range d.PDiffs {
			n := 1
			if i == len(d.PDiffs)-1 {
				n = 0
			}
			out = append(out, byte(v<<1|n))
		}
	}
	if d.V {
		s := &d.SS
		out = append(out, byte(s.NS<<5|b2i(s.Y, 0x10)|b2i(s.G, 0x08)|s.Ign&7))
		if s.Y {
			for _, wh := range s.Res {
				out = append(out, byte(wh[0]>>8), byte(wh[0]), byte(wh[1]>>8), byte(wh[1]))
			}
		}
		if s.G {
			out = append(out, byte(len(s.PGs)))
			for _, g := range s.PGs {
				out = append(out, byte(g.TID<<5|b2i(g.U, 0x10)|len(g.PDiffs)<<2|g.Ign&3))
				for _, v := range g.PDiffs {
					out = append(out, byte(v))
				}
			}
		}
	}
	return out
}

// write mirrors rdVP9Desc.
func (d *vp9Desc) write(t *Toks) {
	t.Bool(d.P).Bool(d.F).Bool(d.B).Bool(d.E).Bool(d.Z)
	if d.I {
		t.Some().Bool(d.M).Nat(d.PicID)
	} else {
		t.None()
	}
	if d.L {
		t.Some().Nat(d.TID).Bool(d.U).Nat(d.SID).Bool(d.D).Nat(d.TL0)
	} else {
		t.None()
	}
	if d.F && d.P {
		t.Nat(len(d.PDiffs))
		for _, v := range d.PDiffs {
			t.Nat(v)
		}
	} else {
		t.Nat(0)
	}
	if !d.V {
		t.None()
		return
	}
	s := &d.SS
	t.Some().Nat(s.NS)
	if s.Y {
		t.Some().Nat(len(s.Res))
		for _, wh := range s.Res {
			t.Nat(wh[0]).Nat(wh[1])
		}
	} else {
		t.None()
	}
	if s.G {
		t.Some().Nat(len(s.PGs))
		for _, g := range s.PGs {
			t.Nat(g.TID).Bool(g.U).Nat(len(g.PDiffs))
			for _, v := range g.PDiffs {
				t.Nat(v)
			}
			t.Nat(g.Ign)
		}
	} else {
		t.None()
	}
	t.Nat(s.Ign)
}

func writeVP9Md(t *Toks, p *codecs.VP9Packet) {
	t.Bool(p.I).Bool(p.P).Bool(p.L).Bool(p.F).Bool(p.B).Bool(p.E).Bool(p.V).Bool(p.Z)
	t.Nat(int(p.PictureID)).Nat(int(p.TID)).Bool(p.U).Nat(int(p.SID)).Bool(p.D)
	t.Nat(len(p.PDiff))
	for _, v := range p.PDiff {
		t.Nat(int(v))
	}
	t.Nat(int(p.TL0PICIDX)).Nat(int(p.NS)).Bool(p.Y).Bool(p.G).Nat(int(p.NG))
	t.Nat(len(p.Width))
	for _, v := range p.Width {
		t.Nat(int(v))
	}
	t.Nat(len(p.Height))
	for _, v := range p.Height {
		t.Nat(int(v))
	}
	t.Nat(len(p.PGTID))
	for _, v := range p.PGTID {
		t.Nat(int(v))
	}
	t.Nat(len(p.PGU))
	for _, v := range p.PGU {
		t.Bool(v)
	}
	t.Nat(len(p.PGPDiff))
	for _, l := range p.PGPDiff {
		t.Nat(len(l))
		for _, v := range l {
			t.Nat(int(v))
		}
	}
}

func vp9MdAny(t *Toks, d depacketizer) { writeVP9Md(t, d.(*codecs.VP9Packet)) }

func randVp9SS(r *Rand, big bool) vp9SS {
	s := vp9SS{NS: r.Intn(8), Y: r.Bool(), G: r.Bool(), Ign: r.Pick(0, 0, 7, r.Intn(8))}
	for i := 0; i <= s.NS; i++ {
		s.Res = append(s.Res, [2]int{r.Pick(0, 1, 255, 256, 65535, r.Intn(65536)), r.Pick(0, 1, 255, 256, 65535, r.Intn(65536))})
	}
	ng := r.Pick(0, 1, 1, 2, 3, r.Intn(9))
	if big {
		ng = r.Pick(255, 254, 128, r.Intn(256))
	}
	for i := 0; i < ng; i++ {
		g := vp9PG{TID: r.Intn(8), U: r.Bool(), Ign: r.Pick(0, 0, 3, r.Intn(4))}
		for j, m := 0, r.Intn(4); j < m; j++ {
			g.PDiffs = append(g.PDiffs, r.Pick(0, 1, 255, r.Intn(256)))
		}
		s.PGs = append(s.PGs, g)
	}
	return s
}

func randVp9Desc(r *Rand) vp9Desc {
	d := vp9Desc{P: r.Bool(), F: r.Bool(), B: r.Bool(), E: r.Bool(), Z: r.Bool(), I: r.Chance(3, 4), M: r.Bool(),
		L: r.Bool(), TID: r.Intn(8), SID: r.Intn(5), U: r.Bool(), D: r.Bool(), TL0: r.Pick(0, 255, r.Intn(256)), V: r.Chance(1, 3)}
	if d.M {
		d.PicID = r.Pick(0, 127, 128, 32767, r.Intn(32768))
	} else {
		d.PicID = r.Pick(0, 127, r.Intn(128))
	}
	for j, m := 0, r.Range(1, 3); j < m; j++ {
		d.PDiffs = append(d.PDiffs, r.Pick(0, 1, 127, r.Intn(128)))
	}
	if d.V {
		d.SS = randVp9SS(r, r.Chance(1, 60))
	}
	return d
}

// ---------------------------------------------------------------------------------------------
// c12.dec

func vp9DecCase(x *Ctx, mk func(c *Case) (vp9Desc, []byte), nCuts int) {
	for ci := 0; ci < nCuts; ci++ {
		ci := ci
		x.Case(func(c *Case) {
			d, payload := mk(c)
			enc := d.encode()
			wire := append(append([]byte{}, enc...), payload...)
			k := len(wire)
			if nCuts > 1 {
				if len(wire) < nCuts {
					k = ci
					if k > len(wire) {
						k = len(wire)
						c.Trivial()
					}
				} else {
					k = ci * len(wire) / (nCuts - 1)
				}
			}
			d.write(&c.I)
			c.I.Bytes(payload).Nat(k).Bytes(wire)
			tag := "flex"
			if !d.F {
				tag = "nonflex"
			}
			if d.V {
				tag += ",SS"
			}
			if k < len(enc) {
				tag += ",cut"
			}
			c.Tag(tag)
			p := &codecs.VP9Packet{}
			// a second receiver with SetZeroAllocation(true) sees the same packets: the switch may cost
			// metadata, not the payload ("returns the bytes after it" is evaluated on its result too)
			z := &codecs.VP9Packet{}
			z.SetZeroAllocation(true)
			// two cases out of three decode into a USED receiver: it first decodes one or two other
			// well-formed descriptors (every optional field populated in the first). "Decodes to
			// exactly the encoded values" must not depend on what the receiver held before; the
			// model's result is independent of the receiver (c12_decoder is for any receiver).
			if c.R.Chance(2, 3) {
				prev := randVp9Desc(c.R)
				prev.I, prev.M, prev.L, prev.V = true, true, true, true
				prev.SS = randVp9SS(c.R, false)
				callUnmarshal(p, append(prev.encode(), 1, 2, 3))
				callUnmarshal(z, append(prev.encode(), 1, 2, 3))
				if c.R.Bool() {
					prev2 := randVp9Desc(c.R)
					callUnmarshal(p, append(prev2.encode(), 9))
					callUnmarshal(z, append(prev2.encode(), 9))
				}
				c.Tag("used-receiver")
			}
			// The packet sits in the caller's receive buffer, which is reused for the next datagram
			// as soon as Unmarshal and IsPartitionHead have returned; the decoded values are what the
			// caller READS from the receiver afterwards, so the metadata tokens are written after
			// the buffer has been overwritten (the returned payload is snapshotted at once: it is
			// documented to be a window of the buffer).
			rxb := cloneBytes(wire)
			r := callUnmarshal(p, rxb[:k])
			rz := callUnmarshal(z, cloneBytes(wire[:k]))
			head := false
			try(func() { head = p.IsPartitionHead(rxb[:k]) })
			for i := range rxb {
				rxb[i] ^= 0xA5
			}
			r.write(&c.O)
			if r.err || r.panicked {
				// a rejected descriptor leaves no metadata the property speaks about; report what a
				// fresh receiver holds after rejecting the same bytes (that is what the model describes)
				q := &codecs.VP9Packet{}
				qb := cloneBytes(wire)
				callUnmarshal(q, qb[:k])
				for i := range qb {
					qb[i] ^= 0xA5
				}
				writeVP9Md(&c.O, q)
			} else {
				writeVP9Md(&c.O, p)
			}
			c.O.Bool(head)
			rz.write(&c.O)
		})
	}
}

func genC12Dec(x *Ctx) {
	// I,M,P,L,F,V (64 combinations) × boundary values × payload 0–3 × every truncation
	pic7 := []int{0, 1, 127}
	pic15 := []int{0, 127, 128, 255, 256, 32767}
	for flags := 0; flags < 64; flags++ {
		for variant := 0; variant < 4; variant++ {
			for plen := 0; plen <= 3; plen++ {
				flags, variant, plen := flags, variant, plen
				vp9DecCase(x, func(c *Case) (vp9Desc, []byte) {
					d := vp9Desc{I: flags&32 != 0, M: flags&16 != 0, P: flags&8 != 0, L: flags&4 != 0, F: flags&2 != 0, V: flags&1 != 0}
					d.B, d.E, d.Z = variant&1 != 0, variant&2 != 0, (variant+plen)&1 != 0
					if d.M {
						d.PicID = pic15[(variant+plen)%len(pic15)]
					} else {
						d.PicID = pic7[(variant+plen)%len(pic7)]
					}
					d.TID, d.SID, d.U, d.D = []int{0, 7, 3, 5}[variant], []int{0, 4, 1, 3}[variant], variant&1 == 0, variant&2 == 0
					d.TL0 = []int{0, 255, 1, 128}[variant]
					d.PDiffs = [][]int{{0}, {127, 1}, {1, 127, 0}, {64}}[variant]
					if d.V {
						d.SS = vp9SS{NS: []int{0, 1, 7, 2}[variant], Y: (variant+plen)&1 == 0, G: plen&2 == 0, Ign: []int{0, 7, 0, 5}[variant]}
						for i := 0; i <= d.SS.NS; i++ {
							d.SS.Res = append(d.SS.Res, [2]int{[]int{1, 65535, 256, 0}[(variant+i)%4], []int{255, 1, 65535, 640}[(variant+i)%4]})
						}
						for i := 0; i < variant; i++ {
							d.SS.PGs = append(d.SS.PGs, vp9PG{TID: (i * 3) & 7, U: i&1 == 0, PDiffs: [][]int{{}, {1}, {255, 0}, {1, 2, 3}}[(i+plen)%4], Ign: i})
						}
					}
					return d, c.R.Bytes(plen)
				}, 48)
			}
		}
	}
	// every 15-bit picture id (sampled in the quick tier)
	for id := 0; id < 32768; id++ {
		if id >= 300 && id < 32000 && id%257 != 0 && !x.Thorough() {
			continue
		}
		id := id
		vp9DecCase(x, func(c *Case) (vp9Desc, []byte) {
			return vp9Desc{I: true, M: true, PicID: id, B: true}, []byte{0xAB}
		}, 1)
	}
	// every layer octet with SID < 5, both modes
	for b := 0; b < 256; b++ {
		if (b>>1)&7 >= 5 {
			continue
		}
		for _, flex := range []bool{false, true} {
			b, flex := b, flex
			vp9DecCase(x, func(c *Case) (vp9Desc, []byte) {
				return vp9Desc{L: true, F: flex, TID: b >> 5, U: b&0x10 != 0, SID: (b >> 1) & 7, D: b&1 != 0, TL0: b ^ 0x5A}, []byte{1, 2}
			}, 1)
		}
	}
	// N_G at its extremes
	for _, ng := range []int{0, 1, 254, 255} {
		ng := ng
		vp9DecCase(x, func(c *Case) (vp9Desc, []byte) {
			d := vp9Desc{I: true, M: true, PicID: 1000, V: true, SS: vp9SS{NS: 7, Y: true, G: true}}
			for i := 0; i <= 7; i++ {
				d.SS.Res = append(d.SS.Res, [2]int{100 * i, 65535 - i})
			}
			for i := 0; i < ng; i++ {
				g := vp9PG{TID: i & 7, U: i&8 != 0}
				for j := 0; j < i%4; j++ {
					g.PDiffs = append(g.PDiffs, (i+j)&255)
				}
				d.SS.PGs = append(d.SS.PGs, g)
			}
			return d, []byte{9, 9, 9}
		}, 40)
	}
	for i, n := 0, x.N(15000, 300000); i < n; i++ {
		vp9DecCase(x, func(c *Case) (vp9Desc, []byte) {
			return randVp9Desc(c.R), c.R.Bytes(c.R.Size(40, 0, 1))
		}, 1)
	}
	// random descriptors, random cut
	for i, n := 0, x.N(4000, 100000); i < n; i++ {
		vp9DecCase(x, func(c *Case) (vp9Desc, []byte) {
			return randVp9Desc(c.R), c.R.Bytes(c.R.Size(6, 0, 1))
		}, 5)
	}
}

// ---------------------------------------------------------------------------------------------
// c12.rt

type vp9Call struct {
	MTU   int
	Frame []byte
	Hdr   *vp9Hdr
}

func vp9RtCase(x *Ctx, mk func(c *Case) (flex bool, init int, calls []vp9Call)) {
	x.Case(func(c *Case) {
		flex, init, calls := mk(c)
		// FlexibleMode is a public field: in a quarter of the histories of two or more frames the
		// caller sets it by hand between frames (an encoder reconfigured on the fly), so that the
		// mode changes at least once, before key and non-key frames alike.  Every frame is judged in
		// the mode its call was made in; the running picture id counts frames in whichever mode.
		flags := make([]bool, len(calls))
		for j := range flags {
			flags[j] = flex
		}
		if len(calls) >= 2 && c.R.Chance(1, 4) {
			at := c.R.Range(1, len(calls)-1) // the first change
			for j := at; j < len(calls); j++ {
				if j == at || c.R.Chance(1, 3) {
					flags[j] = !flags[j-1]
				} else {
					flags[j] = flags[j-1]
				}
			}
			c.Tag("FlexibleMode-set-by-hand")
		}
		c.I.Nat(init).Nat(len(calls))
		for j, cl := range calls {
			c.I.Bool(flags[j]).Nat(cl.MTU).OBytes(cl.Frame)
			cl.Hdr.write(&c.I)
		}
		pay := &codecs.VP9Payloader{FlexibleMode: flex, InitialPictureIDFn: func() uint16 { return uint16(init) }}
		rcv := &codecs.VP9Packet{}
		// the same packets also go to ONE receiver with SetZeroAllocation(true): losslessness is
		// evaluated on what it returns as well
		zrcv := &codecs.VP9Packet{}
		zrcv.SetZeroAllocation(true)
		c.O.Nat(len(calls))
		nontrivial := false
		// payload the whole history first, read it afterwards (see vp8RtCase)
		all := make([][][]byte, 0, len(calls))
		for j, cl := range calls {
			var frags [][]byte
			pay.FlexibleMode = flags[j]
			// the frame is handed over exactly sized or as a window of a larger array (payWindow)
			_, in := payWindow(cl.Frame, cl.MTU)
			if try(func() { frags = pay.Payload(uint16(cl.MTU), in) }) {
				c.O.Tok("PAYLOAD-PANIC")
				return
			}
			// the sender appends its trailer (auth tag, padding) to every packet in place
			scribbleSpare(frags...)
			all = append(all, frags)
		}
		for _, frags := range all {
			if len(frags) > 1 {
				nontrivial = true
			}
			c.O.Nat(len(frags))
			for _, f := range frags {
				c.O.Bytes(f)
				r := callUnmarshal(rcv, f)
				r.write(&c.O)
				writeVP9Md(&c.O, rcv)
				head := false
				try(func() { head = rcv.IsPartitionHead(f) })
				c.O.Bool(head)
				rz := callUnmarshal(zrcv, cloneBytes(f))
				rz.write(&c.O)
			}
		}
		if !nontrivial {
			c.Trivial()
		}
		if flex {
			c.Tag("flexible")
		} else {
			c.Tag("non-flexible")
		}
		if (init&0x7FFF)+len(calls) > 32768 {
			c.Tag("picid-wrap")
		}
	})
}

// frameFor builds a frame for header h whose length sits at a fragment boundary for the MTU.
func vp9FrameFor(r *Rand, h *vp9Hdr, mtu int, which int) []byte {
	room := mtu - 3
	if room < 1 {
		room = 1
	}
	n := []int{room, 2*room + 1, 3*room - 8, 1, room - 8, 2 * room, room - 7, 3 * room}[which%8]
	if n < 1 {
		n = 1
	}
	return h.frame(r, n)
}

func genC12Rt(x *Ctx) {
	startIDs := []int{0, 32766, 32767, 0x8000 | 5, 0xFFFF, 12345}
	idx := 0
	// short cases first (the evidence samples only lines below 600 characters)
	for i := 0; i < 48; i++ {
		i := i
		vp9RtCase(x, func(c *Case) (bool, int, []vp9Call) {
			h := &vp9Hdr{Kind: []string{"key", "nk"}[i&1], Profile: i % 4, Space: i % 8, ShowFrame: true, W: 16 * (i + 1), H: 9 * (i + 1)}
			return i&2 != 0, startIDs[i%len(startIDs)], []vp9Call{{14 + i%3, h.frame(c.R, 0), h}}
		})
	}
	// profiles × colour spaces × sizes; the MTU, start id and mode rotate
	for profile := 0; profile < 4; profile++ {
		for space := 0; space < 8; space++ {
			for si, w := range vp9Sizes {
				for _, flex := range []bool{false, true} {
					idx++
					profile, space, w, ht, flex, id := profile, space, w, vp9Sizes[(si+idx)%5], flex, idx
					vp9RtCase(x, func(c *Case) (bool, int, []vp9Call) {
						mtu := 12 + (id*7)%53
						if id%11 == 0 {
							mtu = 1200
						}
						key := &vp9Hdr{Kind: "key", Profile: profile, Space: space, Bit12: id&1 != 0, Range: id&2 != 0, SubX: id&4 != 0, SubY: id&8 != 0, ShowFrame: true, W: w, H: ht}
						nk := &vp9Hdr{Kind: "nk", Profile: profile, ShowFrame: true, ErrRes: id&1 != 0}
						return flex, startIDs[id%len(startIDs)], []vp9Call{
							{mtu, vp9FrameFor(c.R, key, mtu, id), key},
							{mtu, vp9FrameFor(c.R, nk, mtu, id+1), nk},
							{mtu, vp9FrameFor(c.R, key, mtu, id+2), key},
							{mtu, vp9FrameFor(c.R, nk, mtu, id+3), nk},
						}
					})
				}
			}
		}
	}
	// every MTU 0 … 64, both modes
	for mtu := 0; mtu <= 64; mtu++ {
		for _, flex := range []bool{false, true} {
			for v := 0; v < 3; v++ {
				mtu, flex, v := mtu, flex, v
				vp9RtCase(x, func(c *Case) (bool, int, []vp9Call) {
					key := &vp9Hdr{Kind: "key", Profile: v, Space: v, ShowFrame: true, SubX: true, W: 640 + v, H: 360 + mtu}
					nk := &vp9Hdr{Kind: "nk", Profile: v, ShowFrame: true}
					return flex, startIDs[(mtu+v)%len(startIDs)], []vp9Call{
						{mtu, vp9FrameFor(c.R, key, mtu, mtu+v), key},
						{mtu, vp9FrameFor(c.R, nk, mtu, mtu+v+1), nk},
						{mtu, vp9FrameFor(c.R, key, mtu, mtu+v+5), key},
					}
				})
			}
		}
	}
	for i, n := 0, x.N(10000, 200000); i < n; i++ {
		vp9RtCase(x, func(c *Case) (bool, int, []vp9Call) {
			r := c.R
			flex := r.Bool()
			init := r.Pick(0, 32766, 32767, r.Intn(65536), r.Intn(65536))
			mtu := r.Pick(r.Range(12, 64), r.Range(12, 64), r.Range(4, 16), 1200, r.Range(0, 2000))
			var calls []vp9Call
			for j, m := 0, r.Range(1, 5); j < m; j++ {
				if r.Chance(1, 6) {
					mtu = r.Pick(r.Range(12, 64), r.Range(0, 12), 1200)
				}
				room := mtu - 3
				if room < 1 {
					room = 1
				}
				n := r.Size(min(4*room+3, 4000), room, 2*room, 3*room, room-8)
				switch r.Intn(12) {
				case 0:
					calls = append(calls, vp9Call{mtu, nil, nil})
				case 1:
					calls = append(calls, vp9Call{mtu, r.Bytes(n), nil}) // random: mostly an invalid header
				case 2:
					h := randVp9Hdr(r)
					h.Kind = "se"
					calls = append(calls, vp9Call{mtu, h.frame(r, n), h})
				case 3:
					h := randVp9Hdr(r)
					h.Kind = "key"
					h.W = 65536
					calls = append(calls, vp9Call{mtu, h.frame(r, n), h})
				default:
					h := randVp9Hdr(r)
					calls = append(calls, vp9Call{mtu, h.frame(r, n), h})
				}
				// a frame offered twice: first with an MTU that cannot hold its descriptor (the call is
				// refused, possibly after the payloader has looked at the frame), then again with a
				// sufficient one — a sender that retries after reconfiguring its transport.  Whatever the
				// refused call left behind must not show in the packets of the accepted one.
				if r.Chance(1, 5) {
					last := calls[len(calls)-1]
					if last.Frame != nil {
						c.Tag("frame-refused-then-offered-again")
						calls[len(calls)-1].MTU = r.Pick(r.Range(4, 11), r.Range(0, 3), r.Range(4, 11))
						calls = append(calls, vp9Call{r.Pick(r.Range(12, 64), 1200, mtu), cloneBytes(last.Frame), last.Hdr})
					}
				}
			}
			return flex, init, calls
		})
	}
	// key frame of one size, a key frame of ANOTHER size refused for every too-small MTU, then accepted
	for _, flex := range []bool{false, true} {
		for small := 0; small <= 11; small++ {
			for v := 0; v < 4; v++ {
				flex, small, v := flex, small, v
				vp9RtCase(x, func(c *Case) (bool, int, []vp9Call) {
					r := c.R
					c.Tag("key-frame-size-change-refused-then-accepted")
					a := &vp9Hdr{Kind: "key", Profile: v, Space: 1 + v, ShowFrame: true, SubX: true, W: 640, H: 480}
					b := &vp9Hdr{Kind: "key", Profile: v, Space: 1 + v, ShowFrame: true, SubX: true, W: 1280 + small, H: 720 + v}
					fb := b.frame(r, r.Range(20, 60))
					return flex, r.Pick(0, 32766, r.Intn(65536)), []vp9Call{
						{30, a.frame(r, r.Range(20, 60)), a}, {small, fb, b}, {30, cloneBytes(fb), b}}
				})
			}
		}
	}
	// frames of 2^16 … 2^16+2000 bytes and of 2^17 bytes and more (byte counts that no longer fit 16 bits),
	// key and non-key, both modes, at an ordinary MTU and at the largest one; a small frame follows
	for _, flex := range []bool{false, true} {
		for _, mtu := range []int{1200, 65535} {
			for v := 0; v < 4; v++ {
				flex, mtu, v := flex, mtu, v
				vp9RtCase(x, func(c *Case) (bool, int, []vp9Call) {
					r := c.R
					n := []int{65536, 65536 + r.Range(1, 2000), 65535, 131072 + r.Range(0, 3000)}[v]
					if n >= 65536 {
						c.Tag("frame>=2^16")
					}
					h := randVp9Hdr(r)
					h.Kind = []string{"key", "nk"}[r.Intn(2)]
					nk := &vp9Hdr{Kind: "nk", Profile: h.Profile, ShowFrame: true}
					return flex, r.Pick(0, 32767, r.Intn(65536)), []vp9Call{{mtu, h.frame(r, n), h}, {mtu, nk.frame(r, r.Range(1, 40)), nk}}
				})
			}
		}
	}
}

// ---------------------------------------------------------------------------------------------
// c08.vp9

func vp9SeedInput(r *Rand, n int) []byte {
	switch r.Intn(4) {
	case 0:
		return r.Bytes(n)
	case 1:
		b := r.Bytes(n)
		copy(b, []byte{0x82, 0x49, 0x83, 0x42, 0x00, 0x77, 0xf0, 0x32, 0x34})
		return b
	default:
		h := randVp9Hdr(r)
		f := h.frame(r, n)
		if len(f) > n && r.Bool() {
			f = f[:n] // cut inside the header
		}
		return f
	}
}

func genC08Vp9(x *Ctx) {
	one := func(mk func(c *Case) (bool, int, []PayCall)) {
		x.Case(func(c *Case) {
			flex, init, calls := mk(c)
			c.I.Bool(flex).Nat(init)
			writeCalls(&c.I, calls)
			triv := true
			for _, cl := range calls {
				if len(cl.Input) > 0 && cl.MTU > 0 {
					triv = false
				}
			}
			if triv {
				c.Trivial()
			}
			if flex {
				c.Tag("flexible")
			} else {
				c.Tag("non-flexible")
			}
			observePayHist(&c.O, func() payloader {
				return &codecs.VP9Payloader{FlexibleMode: flex, InitialPictureIDFn: func() uint16 { return uint16(init) }}
			}, calls)
		})
	}
	for _, flex := range []bool{false, true} {
		for mtu := 0; mtu <= 20; mtu++ {
			for _, n := range []int{-1, 0, 1, 2, mtu - 12, mtu - 11, mtu - 4, mtu - 3, mtu - 2, mtu, mtu + 1, 2*mtu + 1, 3 * mtu} {
				if n < -1 {
					continue
				}
				for v := 0; v < 2; v++ {
					flex, mtu, n, v := flex, mtu, n, v
					one(func(c *Case) (bool, int, []PayCall) {
						var in []byte
						if n >= 0 {
							if v == 0 {
								h := vp9Hdr{Kind: "key", Profile: mtu % 4, Space: mtu % 8, W: 320, H: 240}
								in = h.frame(c.R, n)
								if n < len(in) {
									in = in[:n]
								}
							} else {
								h := vp9Hdr{Kind: "nk", Profile: mtu % 4}
								in = h.frame(c.R, n)
							}
						}
						return flex, 32766, []PayCall{{uint16(mtu), in}, {uint16(mtu), cloneBytes(in)}, {uint16(mtu + 9), vp9SeedInput(c.R, 15)}}
					})
				}
			}
		}
		for _, mtu := range []int{21, 22, 31, 32, 33, 48, 63, 64, 1200, 1500, 65535} {
			for _, n := range []int{0, 1, mtu - 12, mtu - 11, mtu - 10, mtu - 4, mtu - 3, mtu, mtu + 1, 2*mtu - 5, 3 * mtu} {
				if n > 70000 {
					n = 70000
				}
				flex, mtu, n := flex, mtu, n
				one(func(c *Case) (bool, int, []PayCall) {
					h := vp9Hdr{Kind: []string{"key", "nk"}[n&1], Profile: n % 4, Space: 2, W: 1920, H: 1080}
					return flex, 0xFFFE, []PayCall{{uint16(mtu), h.frame(c.R, n)}, {uint16(mtu), vp9SeedInput(c.R, 13)}}
				})
			}
		}
	}
	for i, n := 0, x.N(8000, 150000); i < n; i++ {
		one(func(c *Case) (bool, int, []PayCall) {
			r := c.R
			var calls []PayCall
			for j, m := 0, r.Range(1, 6); j < m; j++ {
				mtu := r.Pick(r.Range(0, 20), r.Range(0, 20), r.Range(21, 64), 1200, 1500, 65535, r.Range(0, 65535))
				var in []byte
				switch r.Intn(12) {
				case 0:
					in = nil
				case 1:
					in = []byte{}
				default:
					in = vp9SeedInput(r, r.Size(min(3*mtu+2, 3000), mtu, mtu-3, mtu-11, 2*mtu))
				}
				calls = append(calls, PayCall{uint16(mtu), in})
			}
			return r.Bool(), r.Pick(0, 32767, r.Intn(65536)), calls
		})
	}
}

// ---------------------------------------------------------------------------------------------
// c09.vp9

var vp9Alphabet = []byte{0x00, 0x80, 0x90, 0xD0, 0x02, 0x0A, 0x20, 0x30, 0x40, 0x50, 0xFF, 0x7F, 0x18, 0x08, 0x10, 0x01, 0x05, 0x04, 0xAA, 0x0C, 0x14}

func genC09Vp9(x *Ctx) {
	mk := func() depacketizer { return &codecs.VP9Packet{} }
	seq := func(f func(c *Case) [][]byte) {
		x.Case(func(c *Case) {
			ps := f(c)
			writeOBytesList(&c.I, ps)
			c.Tag("calls=" + sizeClass(len(ps)))
			observeDepHist(&c.O, mk, vp9MdAny, ps)
		})
	}
	// short cases first (the evidence samples only lines below 600 characters)
	for i := 0; i < 48; i++ {
		i := i
		seq(func(c *Case) [][]byte {
			return [][]byte{{0xD0, 0x05, 0x04, 0xAA}, {byte(i * 5), byte(i)}, nil, {0xD0, 0x05, 0x04, 0xAA}}
		})
	}
	// the witness of DESIGN §7 row 10, and a receiver that has seen every field set
	seq(func(c *Case) [][]byte {
		w := []byte{0xD0, 0x05, 0x04, 0xAA}
		full := []byte{0xFA, 0x81, 0x02, 0xFF, 0x03, 0x05, 0x38, 0x01, 0x02, 0x03, 0x04, 0x05, 0x06, 0x07, 0x08, 0x02, 0xF4, 0x09, 0xE8, 0x0A, 0x0B, 0xCC}
		return [][]byte{w, w, w, w, full, {0x00, 0x01}, full, {0x02, 0x00}, full, {0x0A, 0x18, 0, 1, 0, 2, 0}, {0x80}, {0xA0, 0x01}, full, nil, {}, {0x08}}
	})
	maxLen, block := 2, 64
	if x.Thorough() {
		maxLen, block = 3, 512
	}
	shortStrings(maxLen, block, func(ss [][]byte) { seq(func(c *Case) [][]byte { return ss }) })
	for i, n := 0, x.N(8000, 150000); i < n; i++ {
		seq(func(c *Case) [][]byte {
			r := c.R
			var ps [][]byte
			for j, m := 0, r.Range(1, 12); j < m; j++ {
				switch r.Intn(8) {
				case 0:
					ps = append(ps, nil)
				case 1:
					ps = append(ps, []byte{})
				case 2, 3, 4:
					d := randVp9Desc(r)
					if r.Chance(1, 4) {
						d.SID = r.Intn(8)
					}
					w := append(d.encode(), r.Bytes(r.Intn(5))...)
					if r.Bool() {
						w = mutate(r, w, vp9Alphabet)
					}
					ps = append(ps, w)
				case 5:
					p := &codecs.VP9Payloader{FlexibleMode: r.Bool(), InitialPictureIDFn: func() uint16 { return 77 }}
					h := randVp9Hdr(r)
					fr := p.Payload(uint16(r.Range(12, 24)), h.frame(r, r.Range(1, 30)))
					if len(fr) > 0 {
						ps = append(ps, mutate(r, fr[r.Intn(len(fr))], vp9Alphabet))
					}
				case 6:
					ps = append(ps, r.Bytes(r.Size(30, 1, 2, 6)))
				default:
					ps = append(ps, alphaBytes(r, r.Size(14, 1, 2, 6), vp9Alphabet))
				}
			}
			return ps
		})
	}
}

func init() {
	register("c12.hdr", "C12", genC12Hdr)
	register("c12.dec", "C12", genC12Dec)
	register("c12.rt", "C12", genC12Rt)
	register("c08.vp9", "C08", genC08Vp9)
	register("c09.vp9", "C09", genC09Vp9)
}
