package main

// Token codecs and generators for RTP headers/packets (mirrors lean/Driver/PacketIO.lean).
//
//	header :=  version padding extension marker pt seq ts ssrc  <n> csrc*  profile  <n> (id bytes)*
//	packet :=  header payload paddingSize

import (
	"github.com/pion/rtp"
)

// writeHeaderObs writes what the public API shows of a header.  ExtensionProfile is reported
// as 0 while Extension is false (not observable through any accessor or the encoder).
func writeHeaderObs(t *Toks, h *rtp.Header) {
	t.Nat(int(h.Version)).Bool(h.Padding).Bool(h.Extension).Bool(h.Marker).Nat(int(h.PayloadType))
	t.Nat(int(h.SequenceNumber)).U64(uint64(h.Timestamp)).U64(uint64(h.SSRC))
	t.Nat(len(h.CSRC))
	for _, c := range h.CSRC {
		t.U64(uint64(c))
	}
	if h.Extension {
		t.Nat(int(h.ExtensionProfile))
	} else {
		t.Nat(0)
	}
	ids := extIDsRaw(h)
	t.Nat(len(ids))
	for i, id := range ids {
		t.Nat(int(id)).Bytes(extPayloadAt(h, i, id))
	}
}

// writeHeaderIn writes a header given as INPUT (profile verbatim).
func writeHeaderIn(t *Toks, h *rtp.Header, exts []ExtIn) {
	t.Nat(int(h.Version)).Bool(h.Padding).Bool(h.Extension).Bool(h.Marker).Nat(int(h.PayloadType))
	t.Nat(int(h.SequenceNumber)).U64(uint64(h.Timestamp)).U64(uint64(h.SSRC))
	t.Nat(len(h.CSRC))
	for _, c := range h.CSRC {
		t.U64(uint64(c))
	}
	t.Nat(int(h.ExtensionProfile))
	t.Nat(len(exts))
	for _, e := range exts {
		t.Nat(int(e.ID)).Bytes(e.Payload)
	}
}

func writePacketObs(t *Toks, p *rtp.Packet) {
	writeHeaderObs(t, &p.Header)
	t.Bytes(p.Payload).Nat(int(p.PaddingSize))
}

// ExtIn is an extension element of an input description (rtp.Extension has unexported fields).
type ExtIn struct {
	ID      uint8
	Payload []byte
}

// PacketIn is an input description: the header fields, the extension elements in order, payload, padding.
type PacketIn struct {
	H       rtp.Header // Extensions left empty; Exts is authoritative
	Exts    []ExtIn
	Payload []byte
	PadSize uint8
	// Shared (optional, see ShareStorage): the values are carved out of ONE array by Build —
	// element i is Arena[ExtOff[i]:][:len], the payload Arena[PayOff:][:len]; an offset of -1 means
	// separately allocated storage as usual.  The VALUES are those of Exts / Payload either way.
	Shared *SharedStorage
}

// SharedStorage: see PacketIn.Shared.
type SharedStorage struct {
	Arena  []byte
	ExtOff []int
	PayOff int
}

// ShareStorage rewrites the description so that its extension values (and, half of the time, its
// payload) are windows into one shared array, the way a caller hands them over who cuts them out of
// one scratch buffer: `SetExtension(1, b)`, `SetExtension(2, b[:2])`, `SetExtension(3, b[2:])`.
// Windows may start at the same address with different lengths, overlap, touch or lie apart; the
// lengths (hence legality for the profile) stay what they were, the contents become those of the
// windows.  Zero-length values keep their own (nil or empty) storage.  Returns false when there is
// nothing to share (fewer than two non-empty values).
func (p *PacketIn) ShareStorage(r *Rand) bool {
	nonEmpty, total := 0, 0
	for _, e := range p.Exts {
		if len(e.Payload) > 0 {
			nonEmpty++
			total += len(e.Payload)
		}
	}
	withPayload := len(p.Payload) > 0 && r.Bool()
	if withPayload {
		nonEmpty++
		total += len(p.Payload)
	}
	if nonEmpty < 2 {
		return false
	}
	sh := &SharedStorage{Arena: r.Bytes(total + r.Pick(0, 0, 1, 8)), ExtOff: make([]int, len(p.Exts)), PayOff: -1}
	type win struct{ off, n int }
	var placed []win
	place := func(l int) int {
		s := r.Intn(len(sh.Arena) - l + 1)
		if len(placed) > 0 {
			w := placed[r.Intn(len(placed))]
			switch r.Intn(5) {
			case 0, 1: // same start, usually another length
				s = w.off
			case 2: // right behind it
				s = w.off + w.n
			case 3: // overlapping it
				s = w.off + r.Intn(w.n)
			}
		}
		if s+l > len(sh.Arena) {
			s = len(sh.Arena) - l
		}
		placed = append(placed, win{s, l})
		return s
	}
	for i := range p.Exts {
		sh.ExtOff[i] = -1
		if l := len(p.Exts[i].Payload); l > 0 {
			sh.ExtOff[i] = place(l)
			p.Exts[i].Payload = cloneBytes(sh.Arena[sh.ExtOff[i]:][:l])
		}
	}
	if withPayload {
		sh.PayOff = place(len(p.Payload))
		p.Payload = cloneBytes(sh.Arena[sh.PayOff:][:len(p.Payload)])
	}
	p.Shared = sh
	return true
}

func writePacketIn(t *Toks, p *PacketIn) {
	writeHeaderIn(t, &p.H, p.Exts)
	t.Bytes(p.Payload).Nat(int(p.PadSize))
}

// extIDsRaw lists the element ids in order, including duplicates, as the PUBLIC accessor
// GetExtensionIDs reports them (nil while Extension is false or when there is none): what a user
// of the API sees is what is observed.  (A variant of the library whose accessors forget the
// `!h.Extension` guard while Unmarshal leaves stale elements behind shows up here: seeds
// C02-r2-2 / C03-r2-3.)
func extIDsRaw(h *rtp.Header) []uint8 { return h.GetExtensionIDs() }

// extPayloadAt returns the payload of the i-th listed element: the i-th entry of the element
// list when the accessor's list and the list agree (the hook gives positional access, which the
// public API lacks for duplicate ids), first-match lookup by id otherwise.
func extPayloadAt(h *rtp.Header, i int, id uint8) []byte {
	ids, ps := rtp.VerifExtensions(h)
	if i < len(ids) && ids[i] == id && len(ids) == len(h.GetExtensionIDs()) {
		return ps[i]
	}
	return h.GetExtension(id)
}

// Build constructs the real rtp.Packet for an input description: struct literal for the fixed
// fields; the element list is installed through the `verif` hook (the same values are reachable
// through SetExtension / Unmarshal, but C01/C04/C20 must not depend on those).
func (p *PacketIn) Build() *rtp.Packet {
	pkt := &rtp.Packet{Header: p.H, Payload: cloneBytes(p.Payload), PaddingSize: p.PadSize}
	pkt.Header.CSRC = append([]uint32(nil), p.H.CSRC...)
	if p.H.CSRC != nil && pkt.Header.CSRC == nil {
		pkt.Header.CSRC = []uint32{}
	}
	var arena []byte
	if p.Shared != nil {
		arena = cloneBytes(p.Shared.Arena)
		if off := p.Shared.PayOff; off >= 0 {
			pkt.Payload = arena[off:][:len(p.Payload)]
		}
	}
	ids := make([]uint8, len(p.Exts))
	pls := make([][]byte, len(p.Exts))
	for i, e := range p.Exts {
		ids[i] = e.ID
		pls[i] = cloneBytes(e.Payload)
		if arena != nil && i < len(p.Shared.ExtOff) && p.Shared.ExtOff[i] >= 0 {
			pls[i] = arena[p.Shared.ExtOff[i]:][:len(e.Payload)]
		}
	}
	rtp.VerifSetExtensions(&pkt.Header, ids, pls)
	return pkt
}

// genFixed fills the fixed header fields at random (version biased to 2).
func genFixed(r *Rand, h *rtp.Header) {
	h.Version = uint8(r.Pick(2, 2, 2, 0, 1, 3))
	h.Marker = r.Bool()
	h.PayloadType = uint8(r.Pick(0, 96, 111, 127, r.Intn(128)))
	h.SequenceNumber = uint16(r.Pick(0, 1, 65535, r.Intn(65536)))
	h.Timestamp = uint32(r.U64())
	h.SSRC = uint32(r.U64())
	if r.Chance(1, 8) {
		h.Timestamp = 0xFFFFFFFF
	}
	n := r.Pick(0, 0, 0, 1, 2, 15, r.Intn(16))
	h.CSRC = nil
	if n > 0 || r.Bool() {
		h.CSRC = make([]uint32, n)
	}
	for i := range h.CSRC {
		h.CSRC[i] = uint32(r.U64())
	}
}

// profile kinds for generators
const (
	profNone = iota
	profOne
	profTwo
	profLegacy
)

// genExts draws a legal element list for the profile kind; returns the profile value too.
//
// Element COUNTS (generators that ask for at least 5 elements): mostly a handful, but the two-byte
// form is not bounded by the 14 ids of the one-byte form — one two-byte header in ~12 carries 15 … 40
// elements and one in ~300 every id 1 … 255 (a quarter of those with values that fill the block to
// its maximum of 65535 bytes, or a byte or two less); one one-byte header in ~40 carries 15 … 30
// elements (repeated ids, as a decoded wire image may).  Legacy VALUES: whole words from 0 up to a
// few thousand bytes (beyond the 255 / 257 bytes an RFC 8285 element can take).
func genExts(r *Rand, kind int, maxElems int) (uint16, []ExtIn) {
	return genExtsW(r, kind, maxElems, true)
}

// genExtsNarrow: without the large classes (many elements, long legacy values, appbits profiles) —
// for generators whose case COUNT grows with the packet length (c02.parse cuts and flips every byte
// of its base packets, and prefixes every reuse case with such a packet).
func genExtsNarrow(r *Rand, kind int, maxElems int) (uint16, []ExtIn) {
	return genExtsW(r, kind, maxElems, false)
}

func genExtsW(r *Rand, kind int, maxElems int, wide bool) (uint16, []ExtIn) {
	wide = wide && maxElems >= 5
	switch kind {
	case profOne:
		n := r.Pick(0, 1, 1, 2, 3, r.Intn(maxElems+1))
		ids := r.Perm14()
		var es []ExtIn
		for i := 0; i < n && i < 14; i++ {
			es = append(es, ExtIn{uint8(ids[i]), r.Bytes(r.Pick(1, 1, 2, 3, 4, 15, 16, r.Range(1, 16)))})
		}
		if wide && r.Chance(1, 40) {
			for n := r.Pick(15, 16, r.Range(15, 30)); len(es) < n; {
				es = append(es, ExtIn{uint8(r.Range(1, 14)), r.Bytes(r.Pick(1, 2, 16, r.Range(1, 16)))})
			}
		}
		return 0xBEDE, es
	case profTwo:
		if wide && r.Chance(1, 12) {
			return 0x1000, genExtsTwoMany(r)
		}
		n := r.Pick(0, 1, 1, 2, 3, r.Intn(maxElems+1))
		var es []ExtIn
		used := map[int]bool{}
		for i := 0; i < n; i++ {
			id := r.Pick(1, 2, 14, 15, 16, 254, 255, r.Range(1, 255))
			if used[id] {
				continue
			}
			used[id] = true
			es = append(es, ExtIn{uint8(id), r.Bytes(r.Pick(0, 1, 2, 16, 17, 254, 255, r.Range(0, 255)))})
		}
		return 0x1000, es
	case profLegacy:
		// 0x1001–0x100F (two-byte profiles with appbits under RFC 8285, legacy to the library) are
		// outside the quantifier of C01/C04/C05/C20 (wf = false, correspondence only): a small share
		// (one legacy header in 16, i.e. 1–2 % of the headers with an extension) keeps them under the
		// correspondence, so that a change of how they are sized / laid out / parsed is seen
		prof := uint16(r.Pick(0, 1, 0x1234, 0xBEDF, 0x0FFF, 0x1010, 0xFFFF, r.Intn(65536)))
		if prof == 0xBEDE || prof == 0x1000 {
			prof = 0x1234
		}
		if wide && r.Chance(1, 16) {
			prof = uint16(0x1000 + r.Pick(1, 2, 15, r.Range(1, 15)))
		}
		words := r.Pick(0, 1, 2, 3, 64, r.Intn(20))
		if wide && r.Chance(1, 6) {
			// longer than any RFC 8285 element (255 bytes, 257 with its header) or one-byte block
			words = r.Pick(65, 66, 67, 128, 375, r.Range(65, 100), r.Range(65, 400), r.Range(65, 1200))
		}
		return prof, []ExtIn{{0, r.Bytes(4 * words)}}
	}
	return 0, nil
}

// genExtsTwoMany draws a two-byte element list with more elements than a one-byte header can hold:
// 15 … 40 distinct ids, or (one in 25) all 255.
func genExtsTwoMany(r *Rand) []ExtIn {
	ids := r.Perm(255)
	n := r.Pick(15, 16, 17, 40, r.Range(15, 40), r.Range(15, 40))
	lens := func() int { return r.Pick(0, 1, 2, 16, 17, 254, 255, r.Range(0, 255), r.Range(0, 8), r.Range(0, 8)) }
	if r.Chance(1, 25) {
		n = 255
		if r.Chance(1, 4) {
			return genExtsTwoFull(r, ids, r.Pick(0, 0, 1, 2, 3, 4))
		}
		lens = func() int { return r.Pick(0, 1, 2, 3, 4, 4, r.Range(0, 12)) }
	}
	es := make([]ExtIn, n)
	for i := range es {
		es[i] = ExtIn{uint8(ids[i]), r.Bytes(lens())}
	}
	return es
}

// genExtsTwoFull: every id in the given order with 255-byte values (the largest two-byte block:
// 255·257 = 65535 bytes, 16384 words after alignment), `short` bytes less in total.
func genExtsTwoFull(r *Rand, ids []int, short int) []ExtIn {
	es := make([]ExtIn, len(ids))
	for i := range es {
		es[i] = ExtIn{uint8(ids[i]), r.Bytes(255)}
	}
	for ; short > 0; short-- {
		e := &es[r.Intn(len(es))]
		if len(e.Payload) > 0 {
			e.Payload = e.Payload[:len(e.Payload)-1]
		}
	}
	return es
}

// genExtsBlock builds an extension block of exactly `words` 32-bit words for the profile kind: one
// legacy value, or as many maximal RFC 8285 elements as fit (ids cycling: beyond 255 / 14 elements
// they repeat).  65535 words is the largest block the 16-bit length field describes (only the
// legacy form and repeated ids get there; distinct two-byte ids top out at 16384 words).
func genExtsBlock(r *Rand, kind int, words int) (uint16, []ExtIn) {
	var es []ExtIn
	switch kind {
	case profLegacy:
		return uint16(r.Pick(0x0101, 0, 0xFFFF, 0x1234)), []ExtIn{{0, r.Bytes(4 * words)}}
	case profTwo:
		for left := 4 * words; left > 0; {
			l := 255
			if left < 257 {
				l = left - 2
			}
			if l < 0 {
				break
			}
			es = append(es, ExtIn{uint8(1 + len(es)%255), r.Bytes(l)})
			left -= l + 2
		}
		return 0x1000, es
	}
	for left := 4 * words; left > 0; {
		l := 16
		if left < 17 {
			l = left - 1
		}
		if l < 1 {
			break
		}
		es = append(es, ExtIn{uint8(1 + len(es)%14), r.Bytes(l)})
		left -= l + 1
	}
	return 0xBEDE, es
}

// Perm14 returns a random permutation of 1..14.
func (r *Rand) Perm14() []int { return r.Perm(14) }

// Perm returns a random permutation of 1..n.
func (r *Rand) Perm(n int) []int {
	p := make([]int, n)
	for i := range p {
		p[i] = i + 1
	}
	for i := n - 1; i > 0; i-- {
		j := r.Intn(i + 1)
		p[i], p[j] = p[j], p[i]
	}
	return p
}

// genPacketWF draws a well-formed packet description (C01's domain).
func genPacketWF(r *Rand, maxPayload int) *PacketIn { return genPacketWFW(r, maxPayload, true) }

// genPacketWFNarrow: with genExtsNarrow (see there).
func genPacketWFNarrow(r *Rand, maxPayload int) *PacketIn { return genPacketWFW(r, maxPayload, false) }

func genPacketWFW(r *Rand, maxPayload int, wide bool) *PacketIn {
	p := &PacketIn{}
	genFixed(r, &p.H)
	kind := r.Pick(profNone, profOne, profOne, profTwo, profLegacy)
	if kind != profNone {
		p.H.Extension = true
		p.H.ExtensionProfile, p.Exts = genExtsW(r, kind, 6, wide)
	}
	p.Payload = r.Bytes(r.Size(maxPayload, 1, 2, 255, 256))
	if r.Chance(1, 3) {
		p.Payload = nil
	}
	if r.Chance(1, 3) {
		p.H.Padding = true
		p.PadSize = uint8(r.Pick(1, 2, 4, 255, r.Range(1, 255)))
	}
	return p
}

// errKind maps an error of package rtp to the enum of lean/Rtp/Go/Prim.lean (Err.name).
func errKind(err error) string { return rtp.VerifErrKind(err) }

// writeRes writes `ok` (caller appends the value) or `err <kind>`; returns true when ok.
func writeRes(t *Toks, err error) bool {
	if err != nil {
		t.Err(errKind(err))
		return false
	}
	t.Ok()
	return true
}
