package main

// Token codecs and generators for RTP headers/packets (mirrors lean/Driver/PacketIO.lean).
//
//	header :=  version padding extension marker pt seq ts ssrc  <n> csrc*  profile  <n> (id bytes)*
//	packet :=  header payload paddingSize

import (
	"github.com/pion/rtp"
)

// writeHeaderObs writes what the public API shows of a header.  ExtensionProfile is reported
// as 0 while Extension is false (not observable through any accessor or the encoder).
func writeHeaderObs(t *Toks, h *rtp.Header) {
	t.Nat(int(h.Version)).Bool(h.Padding).Bool(h.Extension).Bool(h.Marker).Nat(int(h.PayloadType))
	t.Nat(int(h.SequenceNumber)).U64(uint64(h.Timestamp)).U64(uint64(h.SSRC))
	t.Nat(len(h.CSRC))
	for _, c := range h.CSRC {
		t.U64(uint64(c))
	}
	if h.Extension {
		t.Nat(int(h.ExtensionProfile))
	} else {
		t.Nat(0)
	}
	ids := extIDsRaw(h)
	t.Nat(len(ids))
	for i, id := range ids {
		t.Nat(int(id)).Bytes(extPayloadAt(h, i, id))
	}
}

// writeHeaderIn writes a header given as INPUT (profile verbatim).
func writeHeaderIn(t *Toks, h *rtp.Header, exts []ExtIn) {
	t.Nat(int(h.Version)).Bool(h.Padding).Bool(h.Extension).Bool(h.Marker).Nat(int(h.PayloadType))
	t.Nat(int(h.SequenceNumber)).U64(uint64(h.Timestamp)).U64(uint64(h.SSRC))
	t.Nat(len(h.CSRC))
	for _, c := range h.CSRC {
		t.U64(uint64(c))
	}
	t.Nat(int(h.ExtensionProfile))
	t.Nat(len(exts))
	for _, e := range exts {
		t.Nat(int(e.ID)).Bytes(e.Payload)
	}
}

func writePacketObs(t *Toks, p *rtp.Packet) {
	writeHeaderObs(t, &p.Header)
	t.Bytes(p.Payload).Nat(int(p.PaddingSize))
}

// ExtIn is an extension element of an input description (rtp.Extension has unexported fields).
type ExtIn struct {
	ID      uint8
	Payload []byte
}

// PacketIn is an input description: the header fields, the extension elements in order, payload, padding.
type PacketIn struct {
	H       rtp.Header // Extensions left empty; Exts is authoritative
	Exts    []ExtIn
	Payload []byte
	PadSize uint8
}

func writePacketIn(t *Toks, p *PacketIn) {
	writeHeaderIn(t, &p.H, p.Exts)
	t.Bytes(p.Payload).Nat(int(p.PadSize))
}

// extIDsRaw lists the element ids in order, including duplicates, as the PUBLIC accessor
// GetExtensionIDs reports them (nil while Extension is false or when there is none): what a user
// of the API sees is what is observed.  (A variant of the library whose accessors forget the
// `!h.Extension` guard while Unmarshal leaves stale elements behind shows up here: seeds
// C02-r2-2 / C03-r2-3.)
func extIDsRaw(h *rtp.Header) []uint8 { return h.GetExtensionIDs() }

// extPayloadAt returns the payload of the i-th listed element: the i-th entry of the element
// list when the accessor's list and the list agree (the hook gives positional access, which the
// public API lacks for duplicate ids), first-match lookup by id otherwise.
func extPayloadAt(h *rtp.Header, i int, id uint8) []byte {
	ids, ps := rtp.VerifExtensions(h)
	if i < len(ids) && ids[i] == id && len(ids) == len(h.GetExtensionIDs()) {
		return ps[i]
	}
	return h.GetExtension(id)
}

// Build constructs the real rtp.Packet for an input description: struct literal for the fixed
// fields; the element list is installed through the `verif` hook (the same values are reachable
// through SetExtension / Unmarshal, but C01/C04/C20 must not depend on those).
func (p *PacketIn) Build() *rtp.Packet {
	pkt := &rtp.Packet{Header: p.H, Payload: cloneBytes(p.Payload), PaddingSize: p.PadSize}
	pkt.Header.CSRC = append([]uint32(nil), p.H.CSRC...)
	if p.H.CSRC != nil && pkt.Header.CSRC == nil {
		pkt.Header.CSRC = []uint32{}
	}
	ids := make([]uint8, len(p.Exts))
	pls := make([][]byte, len(p.Exts))
	for i, e := range p.Exts {
		ids[i] = e.ID
		pls[i] = cloneBytes(e.Payload)
	}
	rtp.VerifSetExtensions(&pkt.Header, ids, pls)
	return pkt
}

// genFixed fills the fixed header fields at random (version biased to 2).
func genFixed(r *Rand, h *rtp.Header) {
	h.Version = uint8(r.Pick(2, 2, 2, 0, 1, 3))
	h.Marker = r.Bool()
	h.PayloadType = uint8(r.Pick(0, 96, 111, 127, r.Intn(128)))
	h.SequenceNumber = uint16(r.Pick(0, 1, 65535, r.Intn(65536)))
	h.Timestamp = uint32(r.U64())
	h.SSRC = uint32(r.U64())
	if r.Chance(1, 8) {
		h.Timestamp = 0xFFFFFFFF
	}
	n := r.Pick(0, 0, 0, 1, 2, 15, r.Intn(16))
	h.CSRC = nil
	if n > 0 || r.Bool() {
		h.CSRC = make([]uint32, n)
	}
	for i := range h.CSRC {
		h.CSRC[i] = uint32(r.U64())
	}
}

// profile kinds for generators
const (
	profNone = iota
	profOne
	profTwo
	profLegacy
)

// genExts draws a legal element list for the profile kind; returns the profile value too.
func genExts(r *Rand, kind int, maxElems int) (uint16, []ExtIn) {
	switch kind {
	case profOne:
		n := r.Pick(0, 1, 1, 2, 3, r.Intn(maxElems+1))
		ids := r.Perm14()
		var es []ExtIn
		for i := 0; i < n && i < 14; i++ {
			es = append(es, ExtIn{uint8(ids[i]), r.Bytes(r.Pick(1, 1, 2, 3, 4, 15, 16, r.Range(1, 16)))})
		}
		return 0xBEDE, es
	case profTwo:
		n := r.Pick(0, 1, 1, 2, 3, r.Intn(maxElems+1))
		var es []ExtIn
		used := map[int]bool{}
		for i := 0; i < n; i++ {
			id := r.Pick(1, 2, 14, 15, 16, 254, 255, r.Range(1, 255))
			if used[id] {
				continue
			}
			used[id] = true
			es = append(es, ExtIn{uint8(id), r.Bytes(r.Pick(0, 1, 2, 16, 17, 254, 255, r.Range(0, 255)))})
		}
		return 0x1000, es
	case profLegacy:
		// 0x1001–0x100F (two-byte profiles with appbits under RFC 8285, legacy to the library) are
		// outside the quantifier of C01/C04/C05/C20 (wf = false, correspondence only): drawn rarely,
		// through r.Intn(65536) only
		prof := uint16(r.Pick(0, 1, 0x1234, 0xBEDF, 0x0FFF, 0x1010, 0xFFFF, r.Intn(65536)))
		if prof == 0xBEDE || prof == 0x1000 {
			prof = 0x1234
		}
		return prof, []ExtIn{{0, r.Bytes(4 * r.Pick(0, 1, 2, 3, 64, r.Intn(20)))}}
	}
	return 0, nil
}

// Perm14 returns a random permutation of 1..14.
func (r *Rand) Perm14() []int {
	p := make([]int, 14)
	for i := range p {
		p[i] = i + 1
	}
	for i := 13; i > 0; i-- {
		j := r.Intn(i + 1)
		p[i], p[j] = p[j], p[i]
	}
	return p
}

// genPacketWF draws a well-formed packet description (C01's domain).
func genPacketWF(r *Rand, maxPayload int) *PacketIn {
	p := &PacketIn{}
	genFixed(r, &p.H)
	kind := r.Pick(profNone, profOne, profOne, profTwo, profLegacy)
	if kind != profNone {
		p.H.Extension = true
		p.H.ExtensionProfile, p.Exts = genExts(r, kind, 6)
	}
	p.Payload = r.Bytes(r.Size(maxPayload, 1, 2, 255, 256))
	if r.Chance(1, 3) {
		p.Payload = nil
	}
	if r.Chance(1, 3) {
		p.H.Padding = true
		p.PadSize = uint8(r.Pick(1, 2, 4, 255, r.Range(1, 255)))
	}
	return p
}

// errKind maps an error of package rtp to the enum of lean/Rtp/Go/Prim.lean (Err.name).
func errKind(err error) string { return rtp.VerifErrKind(err) }

// writeRes writes `ok` (caller appends the value) or `err <kind>`; returns true when ok.
func writeRes(t *Toks, err error) bool {
	if err != nil {
		t.Err(errKind(err))
		return false
	}
	t.Ok()
	return true
}
