package main

// Helpers of group pktz (C06): a recording wrapper around a real payloader, a packet observer,
// structured payload generators for the codecs.

import (
	"bytes"
	"fmt"
	"reflect"
	"strconv"
	"strings"
	"time"

	"github.com/pion/rtp"
	"github.com/pion/rtp/codecs"
)

// pktzRecPayloader wraps a real payloader and records what the packetizer asked of it and what it
// answered at the latest call (the model takes these fragments as the payloader's behaviour).
type pktzRecPayloader struct {
	inner  payloader
	want   []byte // the payload the harness is about to hand to Packetize
	calls  int
	budget uint16
	same   bool
	frags  [][]byte
}

func (r *pktzRecPayloader) Payload(mtu uint16, payload []byte) [][]byte {
	r.calls++
	r.budget = mtu
	r.same = bytes.Equal(payload, r.want)
	out := r.inner.Payload(mtu, payload)
	r.frags = cloneFrags(out)
	return out
}

// setPacketizerTimestamp sets the exported field Timestamp of the (unexported) packetizer type.
func setPacketizerTimestamp(p rtp.Packetizer, ts uint32) {
	reflect.ValueOf(p).Elem().FieldByName("Timestamp").SetUint(uint64(ts))
}

// pktzObsPkt writes one packet observation (format: lean/Driver/Kinds/Pktz.lean, `pkt`).
func pktzObsPkt(o *Toks, p *rtp.Packet) {
	o.Nat(int(p.Version)).Bool(p.Padding).Bool(p.Extension).Bool(p.Marker).Nat(int(p.PayloadType)).
		Nat(int(p.SequenceNumber)).U64(uint64(p.Timestamp)).U64(uint64(p.SSRC)).Nat(len(p.CSRC))
	ids := p.GetExtensionIDs()
	o.Nat(len(ids))
	for _, id := range ids {
		o.Nat(int(id)).Bytes(p.GetExtension(id))
	}
	o.Bytes(p.Payload).Nat(int(p.PaddingSize))
	size := -1
	var raw []byte
	var err error
	panicked := try(func() {
		size = p.MarshalSize()
		raw, err = p.Marshal()
	})
	if size < 0 {
		size = 0
	}
	o.Nat(size)
	switch {
	case panicked:
		o.Panic().Bool(false)
		return
	case err != nil:
		o.Err("other").Bool(false)
		return
	}
	o.Ok().Bytes(raw)
	q := &rtp.Packet{}
	rt := false
	try(func() {
		if q.Unmarshal(raw) != nil {
			return
		}
		rt = q.Version == p.Version && q.Padding == p.Padding && q.Extension == p.Extension &&
			q.Marker == p.Marker && q.PayloadType == p.PayloadType && q.SequenceNumber == p.SequenceNumber &&
			q.Timestamp == p.Timestamp && q.SSRC == p.SSRC && len(q.CSRC) == len(p.CSRC) &&
			bytes.Equal(q.Payload, p.Payload) && q.PaddingSize == p.PaddingSize && q.MarshalSize() == len(raw)
		if p.Extension {
			rt = rt && q.ExtensionProfile == p.ExtensionProfile
		}
		qids := q.GetExtensionIDs()
		if len(qids) != len(ids) {
			rt = false
			return
		}
		for i, id := range ids {
			if qids[i] != id || !bytes.Equal(q.GetExtension(id), p.GetExtension(id)) {
				rt = false
			}
		}
	})
	o.Bool(rt)
}

func pktzObsPkts(o *Toks, pkts []*rtp.Packet) {
	o.Nat(len(pkts))
	for _, p := range pkts {
		pktzObsPkt(o, p)
	}
}

// pktzDeltaMin: padding bursts longer than this are written in the delta form.
const pktzDeltaMin = 1024

// pktzObsPktsDelta writes the packets of a long padding burst: `<n> item*`, item := `+ pkt` | `= <seq>`
// (lean/Driver/Kinds/Pktz.lean, rdPktsDelta).  Every packet is observed in full (pktzObsPkt); `= seq`
// is written only when that observation equals, token for token, the observation of the preceding
// packet with the sequence number replaced (token 5, and octets 2–3 of the wire image): a lossless
// transport encoding of the same list.
func pktzObsPktsDelta(o *Toks, pkts []*rtp.Packet) {
	o.Nat(len(pkts))
	var prev []string
	for _, p := range pkts {
		var t Toks
		pktzObsPkt(&t, p)
		cur := t.String()
		if want, ok := pktzWithSeq(prev, p.SequenceNumber); ok && want == cur {
			o.Tok("=").Nat(int(p.SequenceNumber))
		} else {
			o.Tok("+").Tok(cur)
		}
		prev = strings.Fields(cur)
	}
}

// pktzWithSeq renders the observation `prev` (tokens of pktzObsPkt) with another sequence number;
// false when prev has no wire image of at least 4 octets.
func pktzWithSeq(prev []string, seq uint16) (string, bool) {
	n := len(prev)
	if n < 12 || prev[n-3] != "ok" || len(prev[n-2]) < 8 {
		return "", false
	}
	out := append([]string(nil), prev...)
	out[5] = strconv.Itoa(int(seq))
	out[n-2] = prev[n-2][:4] + fmt.Sprintf("%04x", seq) + prev[n-2][8:]
	return strings.Join(out, " "), true
}

// ---- payloaders and payloads

type pktzCodec struct {
	name string
	mk   func(r *Rand) payloader
	// gen returns a payload of roughly n bytes that the codec's payloader accepts
	gen func(r *Rand, n int) []byte
	// simple: fragments are plain chunks of the payload of exactly the budget (G711/G722)
	simple bool
}

func pktzRawPayload(r *Rand, n int) []byte { return r.Bytes(n) }

// pktzAnnexB builds NAL units (header bytes from hdr) separated by 3- or 4-byte start codes.
func pktzAnnexB(r *Rand, n int, hdr func(r *Rand) []byte) []byte {
	var out []byte
	for len(out) < n || len(out) == 0 {
		if r.Bool() {
			out = append(out, 0, 0, 0, 1)
		} else {
			out = append(out, 0, 0, 1)
		}
		out = append(out, hdr(r)...)
		k := r.Size(n, 1, 20, n/2)
		for i := 0; i < k; i++ {
			out = append(out, byte(1+r.Intn(255))) // no zero bytes: no accidental start codes
		}
	}
	return out
}

func pktzH264Payload(r *Rand, n int) []byte {
	return pktzAnnexB(r, n, func(r *Rand) []byte {
		return []byte{byte(0x60 | r.Pick(1, 1, 5, 5, 6, 7, 8, 9, 12))}
	})
}

func pktzH265Payload(r *Rand, n int) []byte {
	return pktzAnnexB(r, n, func(r *Rand) []byte {
		return []byte{byte(r.Pick(1, 19, 32, 33, 34, 39) << 1), 1}
	})
}

func pktzLeb128(n int) []byte {
	var out []byte
	for {
		b := byte(n & 0x7f)
		n >>= 7
		if n != 0 {
			out = append(out, b|0x80)
		} else {
			return append(out, b)
		}
	}
}

// pktzAV1Payload builds a temporal unit of OBUs with size fields.
func pktzAV1Payload(r *Rand, n int) []byte {
	var out []byte
	if r.Bool() {
		out = append(out, 0x12, 0x00) // temporal delimiter
	}
	for len(out) < n || len(out) <= 2 {
		typ := r.Pick(1, 3, 4, 6, 6, 6, 5)
		k := r.Size(n, 1, 20, n/2)
		if k == 0 {
			k = 1
		}
		out = append(out, byte(typ<<3|0x02))
		out = append(out, pktzLeb128(k)...)
		out = append(out, r.Bytes(k)...)
	}
	return out
}

var pktzCodecs = []pktzCodec{
	{"g711", func(*Rand) payloader { return &codecs.G711Payloader{} }, pktzRawPayload, true},
	{"g722", func(*Rand) payloader { return &codecs.G722Payloader{} }, pktzRawPayload, true},
	{"opus", func(*Rand) payloader { return &codecs.OpusPayloader{} }, pktzRawPayload, false},
	{"vp8", func(r *Rand) payloader { return &codecs.VP8Payloader{EnablePictureID: r.Bool()} }, pktzRawPayload, false},
	{"vp9", func(r *Rand) payloader {
		pid := uint16(r.Intn(0x8000))
		return &codecs.VP9Payloader{FlexibleMode: r.Bool(), InitialPictureIDFn: func() uint16 { return pid }}
	}, pktzRawPayload, false},
	{"h264", func(r *Rand) payloader { return &codecs.H264Payloader{DisableStapA: r.Chance(1, 4)} }, pktzH264Payload, false},
	{"h265", func(r *Rand) payloader {
		return &codecs.H265Payloader{AddDONL: r.Chance(1, 4), SkipAggregation: r.Chance(1, 3)}
	}, pktzH265Payload, false},
	{"av1", func(*Rand) payloader { return &codecs.AV1Payloader{} }, pktzAV1Payload, false},
}

// pktzEraEndNs is the first Unix nanosecond after the NTP era that contains the Unix epoch
// (2036-02-07 06:28:16 UTC): (2^32 − 2208988800)·10^9.  C06's "holding the send instant" is only
// demanded for clock readings in [0, pktzEraEndNs) (lean/Driver/Kinds/Pktz.lean opInText); a
// history with a reading outside is correspondence only.
const pktzEraEndNs = int64(2085978496) * 1000000000

// pktzClockValueIn draws a Unix-nanosecond instant INSIDE [0, pktzEraEndNs): mostly 2015–2035,
// sometimes an edge (the epoch, whole seconds, the last nanoseconds of the era, a 64 s wrap of
// the 6.18 fixed-point field).
func pktzClockValueIn(r *Rand) int64 {
	switch r.Intn(10) {
	case 0:
		return int64(r.Pick(0, 1, 999999999, 1000000000, 1000000001))
	case 1:
		return int64(r.U64() % uint64(pktzEraEndNs))
	case 2:
		// the last nanoseconds before the NTP era rolls over, and the last whole second
		return pktzEraEndNs - 1 - int64(r.Pick(0, 1, 2, 3, 999999999, 1000000000))
	case 3:
		// abs-send-time is 6.18 fixed point seconds: wraps every 64 s
		return (int64(1700000000)/64*64+64)*1000000000 + int64(r.Range(-5, 5))
	default:
		return int64(1420070400+r.Intn(631152000))*1000000000 + int64(r.Intn(1000000000))
	}
}

// pktzClockValue draws a Unix-nanosecond instant: mostly 2015–2035, sometimes an edge, including
// instants before 1970 and after the era roll-over in 2036 (outside C06's text: the model must
// still agree with the code there).
func pktzClockValue(r *Rand) int64 {
	switch r.Intn(10) {
	case 0:
		return int64(r.Pick(0, 1, 999999999, 1000000000, -1, -1000000000))
	case 1:
		return int64(r.U64()) // anything, including negative
	case 2:
		// just around a whole second (fraction field wraps) in 2036 (NTP era roll-over)
		return int64(2085978496)*1000000000 + int64(r.Range(-3, 3))
	case 3:
		// abs-send-time is 6.18 fixed point seconds: wraps every 64 s
		return (int64(1700000000)/64*64+64)*1000000000 + int64(r.Range(-5, 5))
	default:
		return int64(1420070400+r.Intn(631152000))*1000000000 + int64(r.Intn(1000000000))
	}
}

func pktzClockOf(ns *int64) func() time.Time {
	return func() time.Time { return time.Unix(0, *ns) }
}
