package main

// C03 — RTP decoding conforms to RFC 3550/8285, re-encoding is stable, standalone views agree.
//
// The inputs are wire DESCRIPTIONS (what a sender composes) together with the bytes this file's
// own encoder (encodeWire / WExt.encode — written from the RFC layout, it never calls rtp.Marshal)
// produces for them.  The Lean side re-encodes the description with Spec.Wire.encode and refuses
// the case (protocol error, not a verdict) when the two encoders disagree.
//
//	wire  :=  version marker pt seq ts ssrc  <n> csrc*  ext  payload  pad
//	ext   :=  0 | 1 <n> item* stop | 2 appbits <n> item* | 3 profile bytes
//	item  :=  p | e id bytes
//	stop  :=  none | some nibble bytes       (reserved id 15: ignored nibble, ignored rest of the block)
//	pad   :=  none | some filler
//
//	c03.wire  wire bytes <n> q* prev              => un hn re reUn <n> id* <n> obytes* unDirty
//	c03.mut   bytes <n> q* prev                   => un hn re reUn <n> id* <n> obytes* unDirty
//	c03.view  kind blk bytes <n> q* fill          => unm ids <n> get* marshal size <n> to*

import (
	"bytes"

	"github.com/pion/rtp"
)

// WItem is a pad byte or an element of an RFC 8285 block.
type WItem struct {
	Pad  bool
	ID   uint8
	Data []byte
}

// WExt describes a header extension block: Form 0 none, 1 one-byte, 2 two-byte, 3 legacy.
type WExt struct {
	Form     int
	Items    []WItem
	HasStop  bool   // one-byte only: a reserved-id byte follows the items ...
	StopNib  uint8  // ... with this (ignored) low nibble ...
	StopRest []byte // ... and these (ignored) bytes
	Appbits  uint8  // two-byte only: low 4 bits of the profile
	Profile  uint16 // legacy only
	Words    []byte // legacy only
}

// WireDesc describes one RTP packet as a sender composes it.
type WireDesc struct {
	Version uint8
	Marker  bool
	PT      uint8
	Seq     uint16
	TS      uint32
	SSRC    uint32
	CSRC    []uint32
	Ext     WExt
	Payload []byte
	HasPad  bool
	Filler  []byte // RTP padding bytes in front of the count byte
}

func put16(b []byte, v uint16) []byte { return append(b, byte(v/256), byte(v%256)) }
func put32(b []byte, v uint32) []byte {
	return append(b, byte(v/16777216), byte(v/65536%256), byte(v/256%256), byte(v%256))
}

// body is the block content without the alignment pads.
func (e *WExt) body() []byte {
	var b []byte
	switch e.Form {
	case 1:
		for _, it := range e.Items {
			if it.Pad {
				b = append(b, 0)
				continue
			}
			b = append(b, byte(int(it.ID)*16+(len(it.Data)-1)))
			b = append(b, it.Data...)
		}
		if e.HasStop {
			b = append(b, byte(15*16+int(e.StopNib)))
			b = append(b, e.StopRest...)
		}
	case 2:
		for _, it := range e.Items {
			if it.Pad {
				b = append(b, 0)
				continue
			}
			b = append(b, it.ID, byte(len(it.Data)))
			b = append(b, it.Data...)
		}
	case 3:
		b = append(b, e.Words...)
	}
	return b
}

func (e *WExt) profile() uint16 {
	switch e.Form {
	case 1:
		return 0xBEDE
	case 2:
		return uint16(0x1000 + int(e.Appbits))
	}
	return e.Profile
}

// encode lays out the whole block: profile, length in words, content, pads to a word boundary.
func (e *WExt) encode() []byte {
	if e.Form == 0 {
		return nil
	}
	body := e.body()
	fill := (4 - len(body)%4) % 4
	var b []byte
	b = put16(b, e.profile())
	b = put16(b, uint16((len(body)+fill)/4))
	b = append(b, body...)
	for i := 0; i < fill; i++ {
		b = append(b, 0)
	}
	return b
}

func bit(b bool) int {
	if b {
		return 1
	}
	return 0
}

// encodeWire is the generator's own RTP encoder.
func encodeWire(w *WireDesc) []byte {
	var b []byte
	b = append(b, byte(int(w.Version)*64+bit(w.HasPad)*32+bit(w.Ext.Form != 0)*16+len(w.CSRC)))
	b = append(b, byte(bit(w.Marker)*128+int(w.PT)))
	b = put16(b, w.Seq)
	b = put32(b, w.TS)
	b = put32(b, w.SSRC)
	for _, c := range w.CSRC {
		b = put32(b, c)
	}
	b = append(b, w.Ext.encode()...)
	b = append(b, w.Payload...)
	if w.HasPad {
		b = append(b, w.Filler...)
		b = append(b, byte(len(w.Filler)+1))
	}
	return b
}

func writeExtDesc(t *Toks, e *WExt) {
	t.Nat(e.Form)
	switch e.Form {
	case 1, 2:
		if e.Form == 2 {
			t.Nat(int(e.Appbits))
		}
		t.Nat(len(e.Items))
		for _, it := range e.Items {
			if it.Pad {
				t.Tok("p")
			} else {
				t.Tok("e").Nat(int(it.ID)).Bytes(it.Data)
			}
		}
		if e.Form == 1 {
			if e.HasStop {
				t.Some().Nat(int(e.StopNib)).Bytes(e.StopRest)
			} else {
				t.None()
			}
		}
	case 3:
		t.Nat(int(e.Profile)).Bytes(e.Words)
	}
}

func writeWire(t *Toks, w *WireDesc) {
	t.Nat(int(w.Version)).Bool(w.Marker).Nat(int(w.PT)).Nat(int(w.Seq)).U64(uint64(w.TS)).U64(uint64(w.SSRC))
	t.Nat(len(w.CSRC))
	for _, c := range w.CSRC {
		t.U64(uint64(c))
	}
	writeExtDesc(t, &w.Ext)
	t.Bytes(w.Payload)
	if w.HasPad {
		t.Some().Bytes(w.Filler)
	} else {
		t.None()
	}
}

// writeQueries writes the ids passed to GetExtension as part of the input.
func writeQueries(t *Toks, qs []uint8) {
	t.Nat(len(qs))
	for _, q := range qs {
		t.Nat(int(q))
	}
}

// observeC03 runs the real decoder and encoder on one byte string and reads the decoded header
// through its public accessors: un hn re reUn ids gets.
//
// inplace: the re-encoding step writes into the buffer the packet was decoded from (see observeC03codec).
func observeC03(o *Toks, buf []byte, queries []uint8, prev []byte, inplace bool) (accepted bool) {
	accepted = observeC03codec(o, buf, inplace)
	defer observeDirty(o, buf, prev)
	if !accepted {
		o.Nat(0).Nat(0)
		return false
	}
	p := &rtp.Packet{}
	_ = p.Unmarshal(cloneBytes(buf))
	ids := p.GetExtensionIDs()
	o.Nat(len(ids))
	for _, id := range ids {
		o.Nat(int(id))
	}
	o.Nat(len(queries))
	for _, q := range queries {
		o.OBytes(p.GetExtension(q))
	}
	return true
}

// observeDirty decodes buf into a Packet that decoded prev before (a fresh one if prev was not
// accepted, so that the receiver's state is always one the model describes).
func observeDirty(o *Toks, buf, prev []byte) {
	d := &rtp.Packet{}
	failed := false
	if try(func() { failed = d.Unmarshal(cloneBytes(prev)) != nil }) || failed {
		d = &rtp.Packet{}
	}
	var err error
	if try(func() { err = d.Unmarshal(cloneBytes(buf)) }) {
		o.Panic()
	} else if writeRes(o, err) {
		writePacketObs(o, d)
	}
}

// genPrev draws what the reused receiver decoded before: a larger packet more often than not
// (more CSRCs / elements / padding than the next one), or nothing.
func genPrev(r *Rand) []byte {
	if r.Chance(1, 4) {
		return nil
	}
	w := genWire(r, 24, true)
	if r.Bool() {
		w.CSRC = make([]uint32, r.Pick(3, 15))
		for i := range w.CSRC {
			w.CSRC[i] = uint32(r.U64())
		}
	}
	return encodeWire(w)
}

// observeC03codec: un hn re reUn.  With `inplace` the accepted packet is re-encoded by MarshalTo INTO THE
// BUFFER IT WAS DECODED FROM (zero-copy forwarding: the extension values and the payload of the decoded
// packet point into the destination).  The encoder's layout is never longer than the accepted image
// (it drops padding between elements and whatever the decoder did not keep), so every element moves
// onto itself or towards the front and the result is what Marshal() returns.
func observeC03codec(o *Toks, buf []byte, inplace bool) (accepted bool) {
	p := &rtp.Packet{}
	var err error
	own := cloneBytes(buf)
	if try(func() { err = p.Unmarshal(own) }) {
		o.Panic()
	} else if writeRes(o, err) {
		writePacketObs(o, p)
		accepted = true
	}
	h := &rtp.Header{}
	var n int
	if try(func() { n, err = h.Unmarshal(cloneBytes(buf)) }) {
		o.Panic()
	} else if writeRes(o, err) {
		o.Nat(n)
	}
	if !accepted {
		o.Err("other").Err("other")
		return false
	}
	// not in place where the encoder's header is LONGER than the decoded one (known finding
	// c03_reserved_id: the decoder stops inside the block and the payload starts there): a header that
	// grows over its own payload is no in-place rewrite the encoder supports
	if inplace {
		fits := false
		try(func() { fits = p.Header.MarshalSize() <= n && p.MarshalSize() <= len(own) })
		inplace = fits
	}
	var bs []byte
	if try(func() {
		if inplace {
			var n int
			if n, err = p.MarshalTo(own); err == nil {
				bs = own[:n]
			}
		} else {
			bs, err = p.Marshal()
		}
	}) {
		o.Panic().Err("other")
		return true
	}
	if !writeRes(o, err) {
		o.Err("other")
		return true
	}
	o.Bytes(bs)
	q := &rtp.Packet{}
	if try(func() { err = q.Unmarshal(cloneBytes(bs)) }) {
		o.Panic()
	} else if writeRes(o, err) {
		writePacketObs(o, q)
	}
	return true
}

// observeView runs one standalone view on a block: unm ids gets marshal size to.
func observeView(c *Case, kind int, blk *WExt, block []byte, queries []uint8, fill byte) {
	c.I.Nat(kind)
	if blk != nil {
		c.I.Some()
		writeExtDesc(&c.I, blk)
	} else {
		c.I.None()
	}
	c.I.Bytes(block).Nat(len(queries))
	for _, q := range queries {
		c.I.Nat(int(q))
	}
	c.I.Nat(int(fill))

	var v rtp.HeaderExtension
	switch kind {
	case 1:
		v = &rtp.OneByteHeaderExtension{}
	case 2:
		v = &rtp.TwoByteHeaderExtension{}
	default:
		v = &rtp.RawExtension{}
	}
	o := &c.O
	buf := cloneBytes(block) // len == cap: Go slicing panics beyond cap, not beyond len
	var n int
	var err error
	accepted := false
	if try(func() { n, err = v.Unmarshal(buf) }) {
		o.Panic()
	} else if writeRes(o, err) {
		o.Nat(n)
		accepted = true
	}
	if !accepted {
		o.Err("other").Nat(0).Err("other").Err("other").Nat(0)
		return
	}
	var ids []uint8
	if try(func() { ids = v.GetIDs() }) {
		o.Panic()
	} else {
		o.Ok().Nat(len(ids))
		for _, id := range ids {
			o.Nat(int(id))
		}
	}
	o.Nat(len(queries))
	for _, q := range queries {
		var g []byte
		if try(func() { g = v.Get(q) }) {
			o.Panic()
		} else {
			o.Ok().OBytes(g)
		}
	}
	var m []byte
	if try(func() { m, err = v.Marshal() }) {
		o.Panic()
	} else if writeRes(o, err) {
		o.Bytes(m)
	}
	size := 0
	if try(func() { size = v.MarshalSize() }) {
		o.Panic()
	} else {
		o.Ok().Nat(size)
	}
	o.Nat(3)
	for _, m := range []int{len(block) - 1, len(block), len(block) + 1} {
		if m < 0 {
			m = 0
		}
		dst := bytes.Repeat([]byte{fill}, m)
		if try(func() { n, err = v.MarshalTo(dst) }) {
			o.Panic()
		} else if writeRes(o, err) {
			o.Bytes(dst).Nat(n)
		}
	}
}

// ---- generators --------------------------------------------------------------------------

func elem(id int, data []byte) WItem { return WItem{ID: uint8(id), Data: data} }
func padItem() WItem                 { return WItem{Pad: true} }

// genStop draws what follows a reserved id 15: an ignored nibble and ignored bytes — nothing,
// well-formed looking items, or garbage.
func genStop(r *Rand, e *WExt) {
	e.HasStop = true
	e.StopNib = uint8(r.Intn(16))
	switch r.Intn(4) {
	case 0:
		e.StopRest = nil
	case 1:
		e.StopRest = (&WExt{Form: 1, Items: genItems1(r, 3, true)}).body()
	case 2:
		e.StopRest = r.Bytes(r.Pick(1, 2, 3, 4, 5, r.Range(1, 24)))
	default:
		e.StopRest = make([]byte, r.Pick(1, 2, 3, 4))
	}
}

// genItems1 draws a one-byte item list (ids 1-14, 1-16 bytes, pads anywhere).
func genItems1(r *Rand, maxElems int, pads bool) []WItem {
	var items []WItem
	n := r.Pick(0, 1, 1, 2, 3, r.Intn(maxElems+1))
	lead := func() {
		if pads && r.Chance(1, 2) {
			for k := r.Pick(1, 1, 2, 3, 4, 5); k > 0; k-- {
				items = append(items, padItem())
			}
		}
	}
	for i := 0; i < n; i++ {
		lead()
		id := r.Range(1, 14)
		items = append(items, elem(id, r.Bytes(r.Pick(1, 1, 2, 3, 4, 15, 16, r.Range(1, 16)))))
	}
	lead()
	return items
}

func genItems2(r *Rand, maxElems int, pads bool) []WItem {
	var items []WItem
	n := r.Pick(0, 1, 1, 2, 3, r.Intn(maxElems+1))
	lead := func() {
		if pads && r.Chance(1, 2) {
			for k := r.Pick(1, 1, 2, 3, 4, 5); k > 0; k-- {
				items = append(items, padItem())
			}
		}
	}
	for i := 0; i < n; i++ {
		lead()
		id := r.Pick(1, 2, 14, 15, 16, 254, 255, r.Range(1, 255))
		items = append(items, elem(id, r.Bytes(r.Pick(0, 0, 1, 2, 3, 16, 17, 254, 255, r.Range(0, 255)))))
	}
	lead()
	return items
}

func genLegacy(r *Rand) WExt {
	prof := uint16(r.Pick(0, 1, 0x1234, 0xBEDF, 0xBEDD, 0x1010, 0x2000, 0x0FFF, 0xFFFF, r.Intn(65536)))
	if prof == 0xBEDE || prof&0xFFF0 == 0x1000 {
		prof = 0x1234
	}
	return WExt{Form: 3, Profile: prof, Words: r.Bytes(4 * r.Pick(0, 1, 2, 3, 64, r.Intn(20)))}
}

// genExt draws a block description of the given form; one-byte blocks end in a reserved id 15
// with probability 1/8 when reservedOK (the known-finding region of c03.wire).  Appbits stay 0.
func genExt(r *Rand, form int, maxElems int, reservedOK bool) WExt {
	switch form {
	case 1:
		e := WExt{Form: 1, Items: genItems1(r, maxElems, r.Chance(2, 3))}
		if reservedOK && r.Chance(1, 8) {
			genStop(r, &e)
		}
		return e
	case 2:
		return WExt{Form: 2, Items: genItems2(r, maxElems, r.Chance(2, 3))}
	case 3:
		return genLegacy(r)
	}
	return WExt{}
}

func genWireFixed(r *Rand, w *WireDesc) {
	w.Version = uint8(r.Pick(2, 2, 2, 0, 1, 3))
	w.Marker = r.Bool()
	w.PT = uint8(r.Pick(0, 96, 111, 127, r.Intn(128)))
	w.Seq = uint16(r.Pick(0, 1, 65535, r.Intn(65536)))
	w.TS = uint32(r.U64())
	w.SSRC = uint32(r.U64())
	if r.Chance(1, 8) {
		w.TS = 0xFFFFFFFF
	}
	n := r.Pick(0, 0, 0, 1, 2, 15, r.Intn(16))
	w.CSRC = make([]uint32, n)
	for i := range w.CSRC {
		w.CSRC[i] = uint32(r.U64())
	}
}

func genFiller(r *Rand, n int) []byte {
	switch r.Intn(3) {
	case 0:
		return make([]byte, n)
	case 1:
		return bytes.Repeat([]byte{0xFF}, n)
	}
	return r.Bytes(n)
}

// genWire draws a well-formed wire description (possibly canonical; with a reserved id only when
// reservedOK).
func genWire(r *Rand, maxPayload int, reservedOK bool) *WireDesc {
	w := &WireDesc{}
	genWireFixed(r, w)
	w.Ext = genExt(r, r.Pick(0, 1, 1, 1, 2, 2, 3), 6, reservedOK)
	w.Payload = r.Bytes(r.Size(maxPayload, 1, 2, 255, 256))
	if r.Chance(1, 3) {
		w.Payload = nil
	}
	if r.Chance(1, 3) {
		w.HasPad = true
		w.Filler = genFiller(r, r.Pick(0, 0, 1, 3, 254, r.Range(0, 254)))
	}
	return w
}

func tagWire(c *Case, w *WireDesc) {
	switch w.Ext.Form {
	case 0:
		c.Tag("ext=none")
	case 1:
		c.Tag("ext=onebyte")
	case 2:
		c.Tag("ext=twobyte")
	default:
		c.Tag("ext=legacy")
	}
	pads, reserved, elems := false, w.Ext.HasStop, 0
	for _, it := range w.Ext.Items {
		if it.Pad {
			pads = true
		} else {
			elems++
		}
	}
	if w.Ext.Form == 2 && w.Ext.Appbits != 0 {
		c.Tag("appbits")
	}
	if pads {
		c.Tag("pads")
	}
	if reserved {
		c.Tag("reserved-id")
	}
	if w.Ext.Form != 0 && w.Ext.Form != 3 && len(w.Ext.body())%4 == 0 && elems > 0 && !w.Ext.Items[len(w.Ext.Items)-1].Pad {
		c.Tag("flush")
	}
	if len(w.Payload) == 0 {
		c.Tag("payload=empty")
	}
	if w.HasPad {
		c.Tag("padding")
	}
	if len(w.CSRC) == 15 {
		c.Tag("csrc=15")
	}
}

// gridItems lists the boundary layouts of an RFC 8285 block for the given form; `d(n)` draws n
// bytes from the case's PRNG.
func gridItems(form int, d func(n int) []byte) [][]WItem {
	p := padItem()
	if form == 1 {
		return [][]WItem{
			{},
			{p, p, p, p},
			{elem(1, d(1))}, {elem(1, d(2))}, {elem(1, d(3))}, {elem(1, d(4))}, {elem(14, d(15))}, {elem(14, d(16))},
			{p, elem(2, d(1))}, {p, p, elem(2, d(1))}, {p, p, p, elem(2, d(3))}, {p, p, p, p, elem(2, d(3))},
			{elem(3, d(1)), p, elem(4, d(1))},
			{elem(3, d(3)), p, p, p, p, elem(4, d(3))},
			{elem(3, d(2)), p, p, p, p, p},
			{elem(5, d(3)), elem(6, d(3))},
			{elem(5, d(16)), elem(5, d(16))},
			{p, elem(7, d(2)), p, elem(8, d(2)), p},
			{elem(1, d(1)), elem(2, d(2)), elem(3, d(3)), elem(4, d(4)), elem(5, d(5)), elem(6, d(6)), elem(7, d(7)), elem(8, d(8)),
				elem(9, d(9)), elem(10, d(10)), elem(11, d(11)), elem(12, d(12)), elem(13, d(13)), elem(14, d(14))},
		}
	}

	return [][]WItem{
		{},
		{p, p, p, p},
		{elem(1, d(0))}, {elem(1, d(0)), elem(2, d(0))}, {elem(1, d(1))}, {elem(255, d(2))}, {elem(1, d(3))},
		{elem(15, d(16))}, {elem(16, d(17))}, {elem(1, d(254))}, {elem(1, d(255))},
		{p, elem(2, d(1))}, {p, p, elem(2, d(0))}, {p, p, p, elem(2, d(3))}, {p, p, p, p, elem(2, d(2))},
		{elem(3, d(1)), p, elem(4, d(1))},
		{elem(3, d(2)), p, p, p, p, elem(4, d(2))},
		{elem(3, d(0)), p, p, p, p, p, p},
		{elem(5, d(2)), elem(5, d(2))},
		{p, elem(7, d(2)), p, elem(8, d(0)), p},
		{elem(200, d(255)), elem(201, d(255)), elem(202, d(0))},
	}
}

// gridReserved lists the boundary layouts with a reserved id 15 (known-finding region of c03.wire,
// except the layouts where the id-15 byte is the last byte of the block: nothing is ignored there).
func gridReserved(d func(n int) []byte) []WExt {
	p := padItem()
	stop := func(items []WItem, nib int, rest []byte) WExt {
		return WExt{Form: 1, Items: items, HasStop: true, StopNib: uint8(nib), StopRest: rest}
	}
	wellFormedRest := (&WExt{Form: 1, Items: []WItem{elem(2, d(5))}}).body()
	return []WExt{
		stop(nil, 0, d(1)),                                   // F0 xx 00 00
		stop(nil, 15, nil),                                   // FF 00 00 00
		stop([]WItem{elem(1, d(2))}, 3, nil),                 // id-15 byte is the last byte of the block: offset right
		stop([]WItem{p, p, p}, 0, nil),                       // the same after pads
		stop([]WItem{elem(1, d(1))}, 0, wellFormedRest),      // DESIGN §7 row 2 shape: element, F0, more
		stop([]WItem{elem(1, d(1))}, 0, []byte{0xBB, 0xCC, 0xDD, 0xEE, 0xFF}), // garbage behind it
		stop([]WItem{p, elem(3, d(3))}, 7, d(16)),
		stop([]WItem{elem(1, d(2)), p, p}, 0, []byte{0, 0, 0}),
		stop([]WItem{elem(1, d(16)), elem(2, d(16))}, 15, d(7)),
	}
}

// gridAppbits lists two-byte blocks with non-zero application bits (known finding c03_twobyte_appbits).
func gridAppbits(d func(n int) []byte) []WExt {
	p := padItem()
	return []WExt{
		{Form: 2, Appbits: 1, Items: []WItem{elem(1, d(1))}},
		{Form: 2, Appbits: 15, Items: []WItem{elem(1, d(0)), p, elem(200, d(3))}},
		{Form: 2, Appbits: 8, Items: nil},
		{Form: 2, Appbits: 2, Items: []WItem{p, p, elem(7, d(2))}},
	}
}

var nGridReserved = len(gridReserved(func(n int) []byte { return make([]byte, n) }))

// gridExts lists boundary block descriptions of every form (no reserved id).
func gridExts(d func(n int) []byte) []WExt {
	var out []WExt
	out = append(out, WExt{})
	for form := 1; form <= 2; form++ {
		for _, items := range gridItems(form, d) {
			out = append(out, WExt{Form: form, Items: items})
		}
	}
	for _, prof := range []uint16{0, 0x1234, 0x1010, 0xBEDF, 0xFFFF} {
		for _, nw := range []int{0, 1, 2, 64} {
			out = append(out, WExt{Form: 3, Profile: prof, Words: d(4 * nw)})
		}
	}
	return out
}

var nGridExts = len(gridExts(func(n int) []byte { return make([]byte, n) }))

// baseImages returns deterministic wire images for the mutation kind (derived from the seed and
// the image number only, so that every worker and every replay sees the same images).
func baseImage(seed uint64, j int) []byte {
	r := newRand(seed, "c03.mut#base", j)
	if j < nGridExts+nGridReserved {
		w := &WireDesc{}
		genWireFixed(r, w)
		if len(w.CSRC) > 2 {
			w.CSRC = w.CSRC[:2]
		}
		if j < nGridExts {
			w.Ext = gridExts(func(n int) []byte { return r.Bytes(n) })[j]
		} else {
			w.Ext = gridReserved(func(n int) []byte { return r.Bytes(n) })[j-nGridExts]
		}
		if w.Ext.Form == 3 && len(w.Ext.Words) > 16 {
			w.Ext.Words = w.Ext.Words[:8]
		}
		for i := range w.Ext.Items { // keep the images small: every bit gets flipped
			if len(w.Ext.Items[i].Data) > 20 {
				w.Ext.Items[i].Data = w.Ext.Items[i].Data[:17]
			}
		}
		w.Payload = r.Bytes(r.Pick(0, 1, 3))
		if r.Chance(1, 2) {
			w.HasPad = true
			w.Filler = genFiller(r, r.Pick(0, 1, 3))
		}
		return encodeWire(w)
	}
	w := genWire(r, 12, true)
	if len(w.Filler) > 6 {
		w.Filler = w.Filler[:6]
	}
	for i := range w.Ext.Items {
		if len(w.Ext.Items[i].Data) > 20 {
			w.Ext.Items[i].Data = w.Ext.Items[i].Data[:17]
		}
	}
	if len(w.Ext.Words) > 16 {
		w.Ext.Words = w.Ext.Words[:16]
	}
	return encodeWire(w)
}

var c03Alphabet = []byte{0x00, 0x01, 0x02, 0x03, 0x04, 0x0F, 0x10, 0x11, 0x1F, 0x20, 0x80, 0x90, 0xA0, 0xB0, 0xBE, 0xDE, 0xF0, 0xFF}

// genStructured draws a byte string from the alphabet of the parser's branch constants.
func genStructured(r *Rand, n int) []byte {
	b := make([]byte, n)
	for i := range b {
		if r.Chance(3, 4) {
			b[i] = c03Alphabet[r.Intn(len(c03Alphabet))]
		} else {
			b[i] = r.Byte()
		}
	}
	if n >= 1 {
		b[0] = byte(r.Pick(0x80, 0x90, 0x90, 0x90, 0xB0, 0xA0, 0x91, 0x9F, int(b[0])))
	}
	if n >= 16 && r.Chance(2, 3) {
		cc := int(b[0] & 0x0F)
		if 12+4*cc+4 <= n {
			o := 12 + 4*cc
			if r.Bool() {
				b[o], b[o+1] = 0xBE, 0xDE
			} else {
				b[o], b[o+1] = 0x10, 0x00
			}
			b[o+2] = 0
			b[o+3] = byte(r.Intn((n-o-4)/4 + 2))
		}
	}
	return b
}

func mentionedIDs(e *WExt) []uint8 {
	seen := map[uint8]bool{}
	var ids []uint8
	for _, it := range e.Items {
		if !it.Pad && !seen[it.ID] {
			seen[it.ID] = true
			ids = append(ids, it.ID)
		}
	}
	return ids
}

// viewQueries: every id in the block, two absent ones, and sometimes 0 / 15.
func viewQueries(r *Rand, e *WExt) []uint8 {
	qs := mentionedIDs(e)
	seen := map[uint8]bool{}
	for _, q := range qs {
		seen[q] = true
	}
	hi := 255
	if e != nil && e.Form == 1 {
		hi = 14
	}
	for added, tries := 0, 0; added < 2 && tries < 64; tries++ {
		q := uint8(r.Range(1, hi))
		if !seen[q] {
			seen[q] = true
			qs = append(qs, q)
			added++
		}
	}
	if r.Bool() || (e != nil && e.Form == 3) {
		qs = append(qs, 0)
	}
	if r.Chance(1, 4) {
		qs = append(qs, 15)
	}
	return qs
}

func init() {
	register("c03.wire", "C03", func(x *Ctx) {
		emit := func(mk func(c *Case) *WireDesc) {
			x.Case(func(c *Case) {
				w := mk(c)
				tagWire(c, w)
				img := encodeWire(w)
				qs := viewQueries(c.R, &w.Ext)
				prev := genPrev(c.R)
				writeWire(&c.I, w)
				c.I.Bytes(img)
				writeQueries(&c.I, qs)
				c.I.Bytes(prev)
				inplace := c.R.Chance(1, 3)
				if inplace {
					c.Tag("re-encode=in-place")
				}
				observeC03(&c.O, img, qs, prev, inplace)
			})
		}
		// boundary grid: every block layout × CSRC count × payload × padding
		type padSpec struct {
			has    bool
			n      int
			random bool
		}
		pads := []padSpec{{false, 0, false}, {true, 0, false}, {true, 3, false}, {true, 3, true}, {true, 254, true}}
		for gi := 0; gi < nGridExts; gi++ {
			for _, ncsrc := range []int{0, 1, 15} {
				for _, pl := range []int{0, 1, 5} {
					for _, ps := range pads {
						gi, ncsrc, pl, ps := gi, ncsrc, pl, ps
						emit(func(c *Case) *WireDesc {
							w := &WireDesc{}
							genWireFixed(c.R, w)
							w.CSRC = make([]uint32, ncsrc)
							for i := range w.CSRC {
								w.CSRC[i] = uint32(c.R.U64())
							}
							w.Ext = gridExts(func(n int) []byte { return c.R.Bytes(n) })[gi]
							w.Payload = c.R.Bytes(pl)
							if ps.has {
								w.HasPad = true
								if ps.random {
									w.Filler = c.R.Bytes(ps.n)
								} else {
									w.Filler = make([]byte, ps.n)
								}
							}
							return w
						})
					}
				}
			}
		}
		for i, n := 0, x.N(12000, 600000); i < n; i++ {
			emit(func(c *Case) *WireDesc {
				maxPl := 600
				if x.Thorough() && c.R.Chance(1, 200) {
					maxPl = 20000
				}
				return genWire(c.R, maxPl, false)
			})
		}
		// large blocks: many elements, up to the 16-bit word count in the thorough tier
		for i, n := 0, x.N(200, 4000); i < n; i++ {
			emit(func(c *Case) *WireDesc {
				w := genWire(c.R, 40, false)
				big := 60
				if x.Thorough() && c.R.Chance(1, 20) {
					big = 1000
				}
				w.Ext = genExt(c.R, c.R.Pick(1, 2), big, false)
				return w
			})
		}
		// the 16-bit word count: blocks of exactly 255 / 256 / 257 words (carry into the high byte)
		// and, in the thorough tier, of 65535 words (the limit; the model's walk is quadratic in the
		// number of elements, so the full-size one-byte block costs about a minute)
		wordCounts := []int{255, 256, 257, 4096}
		if x.Thorough() {
			wordCounts = append(wordCounts, 65534, 65535)
		}
		// blocks of 2^14 words and more (>= 65536 bytes) also in the quick tier, two-byte and legacy
		// forms only (cheap to walk): the byte length of such a block does not fit 16 bits
		// (seeds C01-r2-1 / C03-r2-1)
		type wf struct{ words, form int }
		var plan []wf
		for _, words := range wordCounts {
			for form := 1; form <= 3; form++ {
				plan = append(plan, wf{words, form})
			}
		}
		for _, words := range []int{16384, 16385, 40000} {
			plan = append(plan, wf{words, 2}, wf{words, 3})
		}
		for _, pl := range plan {
			{
				words, form := pl.words, pl.form
				emit(func(c *Case) *WireDesc {
					w := genWire(c.R, 8, false)
					n := words * 4
					if c.R.Bool() && form != 3 {
						n -= c.R.Intn(4) // up to 3 bytes short: the alignment pads fill the block
					}
					switch form {
					case 1: // 16-byte elements, the remainder as pads in front
						var items []WItem
						for k := 0; k < n%17; k++ {
							items = append(items, padItem())
						}
						for k := 0; k < n/17; k++ {
							items = append(items, elem(1+k%14, c.R.Bytes(16)))
						}
						w.Ext = WExt{Form: 1, Items: items}
					case 2: // 255-byte elements
						var items []WItem
						for k := 0; k < n%257; k++ {
							items = append(items, padItem())
						}
						for k := 0; k < n/257; k++ {
							items = append(items, elem(1+k%255, c.R.Bytes(255)))
						}
						w.Ext = WExt{Form: 2, Items: items}
					default:
						w.Ext = WExt{Form: 3, Profile: 0x1234, Words: c.R.Bytes(words * 4)}
					}
					c.Tag("block=large")
					return w
				})
			}
		}
		// The known-finding region (one-byte block with the reserved id 15) comes LAST and in a fixed,
		// small number (< 150 in every tier): the engine keeps only the first 64 non-OK lines per
		// worker and the 200 shortest overall, so a large number of known-finding instances would
		// crowd genuine failures out of the list `check` looks at.
		for gi := 0; gi < nGridReserved; gi++ {
			for _, ncsrc := range []int{0, 15} {
				for _, pl := range []int{0, 5} {
					for _, padded := range []bool{false, true} {
						gi, ncsrc, pl, padded := gi, ncsrc, pl, padded
						emit(func(c *Case) *WireDesc {
							w := &WireDesc{}
							genWireFixed(c.R, w)
							w.CSRC = make([]uint32, ncsrc)
							for i := range w.CSRC {
								w.CSRC[i] = uint32(c.R.U64())
							}
							w.Ext = gridReserved(func(n int) []byte { return c.R.Bytes(n) })[gi]
							w.Payload = c.R.Bytes(pl)
							if padded {
								w.HasPad = true
								w.Filler = c.R.Bytes(3)
							}
							return w
						})
					}
				}
			}
		}
		for i := 0; i < 60; i++ {
			emit(func(c *Case) *WireDesc {
				w := genWire(c.R, 40, false)
				w.Ext = WExt{Form: 1, Items: genItems1(c.R, 6, c.R.Chance(2, 3))}
				genStop(c.R, &w.Ext)
				return w
			})
		}
		// the other known-finding region: two-byte blocks with non-zero appbits (a few dozen)
		for gi := 0; gi < 4; gi++ {
			for _, padded := range []bool{false, true} {
				gi, padded := gi, padded
				emit(func(c *Case) *WireDesc {
					w := genWire(c.R, 8, false)
					w.Ext = gridAppbits(func(n int) []byte { return c.R.Bytes(n) })[gi]
					w.HasPad, w.Filler = padded, nil
					return w
				})
			}
		}
		for i := 0; i < 24; i++ {
			emit(func(c *Case) *WireDesc {
				w := genWire(c.R, 40, false)
				w.Ext = WExt{Form: 2, Items: genItems2(c.R, 4, c.R.Bool()), Appbits: uint8(c.R.Range(1, 15))}
				return w
			})
		}
	})

	register("c03.mut", "C03", func(x *Ctx) {
		emit := func(mk func(c *Case) []byte) {
			x.Case(func(c *Case) {
				buf := mk(c)
				qs := []uint8{0, 1, 2, 15, uint8(c.R.Range(1, 255)), uint8(c.R.Range(1, 14))}
				prev := genPrev(c.R)
				c.I.Bytes(buf)
				writeQueries(&c.I, qs)
				c.I.Bytes(prev)
				inplace := c.R.Chance(1, 3)
				if inplace {
					c.Tag("re-encode=in-place")
				}
				if !observeC03(&c.O, buf, qs, prev, inplace) {
					c.Tag("rejected")
					c.Trivial()
				} else {
					c.Tag("accepted")
				}
			})
		}
		// every single-bit mutation (and the unmutated image) of the base images
		nBase := nGridExts + nGridReserved + x.N(60, 1500)
		for j := 0; j < nBase; j++ {
			img := baseImage(x.Seed, j)
			emit(func(c *Case) []byte { return img })
			for k := 0; k < 8*len(img); k++ {
				k := k
				emit(func(c *Case) []byte {
					m := cloneBytes(img)
					m[k/8] ^= 1 << uint(k%8)
					return m
				})
			}
			// every truncation
			for k := 0; k < len(img); k++ {
				k := k
				emit(func(c *Case) []byte { return cloneBytes(img[:k]) })
			}
		}
		// random byte strings over the parser's own alphabet, and uniformly random ones
		for i, n := 0, x.N(20000, 1000000); i < n; i++ {
			emit(func(c *Case) []byte {
				if c.R.Chance(1, 5) {
					return c.R.Bytes(c.R.Size(80, 11, 12, 16, 20))
				}
				return genStructured(c.R, c.R.Size(64, 12, 16, 20, 24, 28))
			})
		}
		// two-bit mutations of random well-formed images
		for i, n := 0, x.N(10000, 500000); i < n; i++ {
			emit(func(c *Case) []byte {
				img := encodeWire(genWire(c.R, 16, true))
				for k := c.R.Pick(1, 2, 2, 3); k > 0; k-- {
					b := c.R.Intn(8 * len(img))
					img[b/8] ^= 1 << uint(b%8)
				}
				return img
			})
		}
	})

	register("c03.view", "C03", func(x *Ctx) {
		formName := []string{"", "onebyte", "twobyte", "raw"}
		// grid: every boundary block through the view of its own form and through the two others
		for gi := 1; gi < nGridExts+nGridReserved; gi++ {
			for view := 1; view <= 3; view++ {
				gi, view := gi, view
				x.Case(func(c *Case) {
					var e WExt
					if gi < nGridExts {
						e = gridExts(func(n int) []byte { return c.R.Bytes(n) })[gi]
					} else {
						e = gridReserved(func(n int) []byte { return c.R.Bytes(n) })[gi-nGridExts]
					}
					c.Tag("view=" + formName[view])
					c.Tag("block=" + formName[e.Form])
					if view != e.Form {
						c.Trivial()
					}
					observeView(c, view, &e, e.encode(), viewQueries(c.R, &e), byte(c.R.Pick(0, 0xEE, 0xFF, int(c.R.Byte()))))
				})
			}
		}
		for i, n := 0, x.N(12000, 400000); i < n; i++ {
			x.Case(func(c *Case) {
				form := c.R.Pick(1, 1, 2, 2, 3)
				e := genExt(c.R, form, 8, true)
				view := form
				if c.R.Chance(1, 10) {
					view = c.R.Range(1, 3)
				}
				c.Tag("view=" + formName[view])
				c.Tag("block=" + formName[e.Form])
				if view != e.Form {
					c.Trivial()
				}
				observeView(c, view, &e, e.encode(), viewQueries(c.R, &e), byte(c.R.Pick(0, 0xEE, 0xFF, int(c.R.Byte()))))
			})
		}
		// known finding c03_twobyte_appbits seen through the views (a few dozen cases): the two-byte
		// view refuses the block, the raw view takes it
		for gi := 0; gi < 4; gi++ {
			for _, view := range []int{2, 3, 2} {
				gi, view := gi, view
				x.Case(func(c *Case) {
					e := gridAppbits(func(n int) []byte { return c.R.Bytes(n) })[gi]
					c.Tag("view=" + formName[view])
					c.Tag("block=twobyte-appbits")
					observeView(c, view, &e, e.encode(), viewQueries(c.R, &e), byte(c.R.Pick(0, 0xEE)))
				})
			}
		}
		for i := 0; i < 16; i++ {
			x.Case(func(c *Case) {
				e := WExt{Form: 2, Items: genItems2(c.R, 4, c.R.Bool()), Appbits: uint8(c.R.Range(1, 15))}
				view := c.R.Pick(2, 2, 3)
				c.Tag("view=" + formName[view])
				c.Tag("block=twobyte-appbits")
				observeView(c, view, &e, e.encode(), viewQueries(c.R, &e), byte(c.R.Pick(0, 0xEE)))
			})
		}
		// malformed blocks (no description): truncations, bit flips, random strings — only the
		// correspondence (including where the views panic) is checked on these
		for i, n := 0, x.N(12000, 400000); i < n; i++ {
			x.Case(func(c *Case) {
				form := c.R.Pick(1, 1, 2, 2, 3)
				e := genExt(c.R, form, 4, true)
				blk := e.encode()
				switch c.R.Intn(4) {
				case 0:
					blk = blk[:c.R.Intn(len(blk)+1)]
				case 1:
					for k := c.R.Pick(1, 1, 2, 3); k > 0 && len(blk) > 0; k-- {
						b := c.R.Intn(8 * len(blk))
						blk[b/8] ^= 1 << uint(b%8)
					}
				case 2:
					blk = genStructured(c.R, c.R.Size(40, 0, 1, 2, 3, 4, 5))
					if len(blk) >= 2 && c.R.Chance(2, 3) {
						if form == 1 {
							blk[0], blk[1] = 0xBE, 0xDE
						} else if form == 2 {
							blk[0], blk[1] = 0x10, 0x00
						}
					}
				default:
					if len(blk) > 4 {
						blk = blk[:4+c.R.Intn(len(blk)-4)]
					}
				}
				c.Tag("malformed")
				c.Tag("view=" + formName[form])
				var qs []uint8
				for k := c.R.Pick(2, 4, 6); k > 0; k-- {
					qs = append(qs, uint8(c.R.Pick(0, 1, 2, 3, 14, 15, 16, 255, int(c.R.Byte()))))
				}
				for _, it := range e.Items {
					if !it.Pad && c.R.Bool() {
						qs = append(qs, it.ID)
					}
				}
				observeView(c, form, nil, blk, qs, byte(c.R.Pick(0, 0xEE, int(c.R.Byte()))))
			})
		}
	})
}
