package main

// Line protocol writer; mirrors lean/Driver/Proto.lean.

import (
	"encoding/hex"
	"strconv"
	"strings"
)

// Toks accumulates space separated tokens.
type Toks struct{ sb strings.Builder }

func (t *Toks) Tok(s string) *Toks {
	if t.sb.Len() > 0 {
		t.sb.WriteByte(' ')
	}
	t.sb.WriteString(s)
	return t
}
func (t *Toks) Nat(n int) *Toks     { return t.Tok(strconv.Itoa(n)) }
func (t *Toks) U64(n uint64) *Toks  { return t.Tok(strconv.FormatUint(n, 10)) }
func (t *Toks) I64(n int64) *Toks   { return t.Tok(strconv.FormatInt(n, 10)) }
func (t *Toks) Bool(b bool) *Toks {
	if b {
		return t.Tok("1")
	}
	return t.Tok("0")
}

// Bytes writes a byte string; nil and empty are identified ("-").
func (t *Toks) Bytes(b []byte) *Toks {
	if len(b) == 0 {
		return t.Tok("-")
	}
	return t.Tok(hex.EncodeToString(b))
}

// OBytes distinguishes nil from empty.
func (t *Toks) OBytes(b []byte) *Toks {
	if b == nil {
		return t.Tok("nil")
	}
	return t.Bytes(b)
}

// BytesList writes <count> item*.
func (t *Toks) BytesList(bs [][]byte) *Toks {
	t.Nat(len(bs))
	for _, b := range bs {
		t.Bytes(b)
	}
	return t
}
func (t *Toks) Ok() *Toks            { return t.Tok("ok") }
func (t *Toks) Err(kind string) *Toks { return t.Tok("err").Tok(kind) }
func (t *Toks) Panic() *Toks         { return t.Tok("panic") }
func (t *Toks) None() *Toks          { return t.Tok("none") }
func (t *Toks) Some() *Toks          { return t.Tok("some") }
func (t *Toks) String() string       { return t.sb.String() }
