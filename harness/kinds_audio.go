package main

import "github.com/pion/rtp/codecs"

// C08 (payloader contract) and C09 (depacketizer contract) for G711, G722 and Opus.

func genC08Audio(mk func() payloader) func(x *Ctx) {
	return func(x *Ctx) {
		// every MTU 0–20 × input lengths 0–24 (plus nil), one call each
		for mtu := 0; mtu <= 20; mtu++ {
			for n := -1; n <= 24; n++ {
				mtu, n := mtu, n
				x.Case(func(c *Case) {
					var in []byte
					if n >= 0 {
						in = c.R.Bytes(n)
					}
					calls := []PayCall{{uint16(mtu), in}}
					writeCalls(&c.I, calls)
					if n <= 0 || mtu == 0 {
						c.Trivial()
					}
					observePayHist(&c.O, mk, calls)
				})
			}
		}
		for i, n := 0, x.N(4000, 400000); i < n; i++ {
			x.Case(func(c *Case) {
				k := c.R.Range(1, 4)
				calls := make([]PayCall, k)
				for j := range calls {
					mtu := c.R.Pick(0, 1, 2, 12, c.R.Range(0, 64), 1200, 1500, 65535, c.R.Range(0, 65535))
					var in []byte
					if !c.R.Chance(1, 20) {
						in = c.R.Bytes(c.R.Size(3000, mtu, 2*mtu))
					}
					calls[j] = PayCall{uint16(mtu), in}
				}
				writeCalls(&c.I, calls)
				c.Tag("calls=" + string(rune('0'+k)))
				observePayHist(&c.O, mk, calls)
			})
		}
	}
}

func init() {
	register("c08.g711", "C08", genC08Audio(func() payloader { return &codecs.G711Payloader{} }))
	register("c08.g722", "C08", genC08Audio(func() payloader { return &codecs.G722Payloader{} }))
	register("c08.opus", "C08", genC08Audio(func() payloader { return &codecs.OpusPayloader{} }))
	register("c09.opus", "C09", func(x *Ctx) {
		mk := func() depacketizer { return &codecs.OpusPacket{} }
		emit := func(c *Case, pls [][]byte) {
			c.I.Nat(len(pls))
			for _, p := range pls {
				c.I.OBytes(p)
			}
			observeDepHist(&c.O, mk, func(*Toks, depacketizer) {}, pls)
		}
		// all strings ≤ 1 byte (≤ 2 bytes in thorough), preceded by a varying earlier payload
		x.Case(func(c *Case) { c.Trivial(); emit(c, [][]byte{nil}) })
		x.Case(func(c *Case) { c.Trivial(); emit(c, [][]byte{{}}) })
		for b := 0; b < 256; b++ {
			b := b
			x.Case(func(c *Case) { emit(c, [][]byte{c.R.Bytes(c.R.Intn(4)), {byte(b)}}) })
		}
		if x.Thorough() {
			for b := 0; b < 65536; b++ {
				b := b
				x.Case(func(c *Case) { emit(c, [][]byte{{byte(b >> 8), byte(b)}}) })
			}
		}
		for i, n := 0, x.N(3000, 200000); i < n; i++ {
			x.Case(func(c *Case) {
				k := c.R.Range(1, 6)
				pls := make([][]byte, k)
				for j := range pls {
					switch c.R.Intn(8) {
					case 0:
						pls[j] = nil
					case 1:
						pls[j] = []byte{}
					default:
						pls[j] = c.R.Bytes(c.R.Size(1500, 1, 2))
					}
				}
				emit(c, pls)
			})
		}
	})
}
