package main

import "github.com/pion/rtp"

// c01.inplace — C01 when the bytes handed to Unmarshal ARE (a window of) the receiver's own current
// Payload storage: unwrapping an encapsulated packet in place.
//
//	mode 0: outer := {outer header, Payload: Marshal(inner), outer padding};  recv.Unmarshal(Marshal(outer));
//	        recv.Unmarshal(recv.Payload)      — the receiver decoded something else (`prev`) before
//	mode 1: recv.Payload = buf (set by hand to the receive buffer holding Marshal(inner)); recv.Unmarshal(buf)
//
// Observed: the receiver after the outer decode (mode 0; `err other` in mode 1) and after the in-place
// decode — every header field, the element ids and values through the public accessors, payload, padding
// size.  The property says the second result is `inner`, whatever the receiver held and wherever the
// bytes live.
func init() {
	register("c01.inplace", "C01", func(x *Ctx) {
		one := func(c *Case, inner, outer *PacketIn, prev []byte, mode int) {
			outer.Payload = nil
			writePacketIn(&c.I, inner)
			writePacketIn(&c.I, outer)
			c.I.Bytes(prev).Nat(mode)
			tagPacket(c, inner)
			if mode == 1 {
				c.Tag("mode=payload-set-by-hand")
			}
			fail := func() { c.O.Err("other").Err("other") }
			marshal := func(p *rtp.Packet) []byte {
				var bs []byte
				var err error
				if try(func() { bs, err = p.Marshal() }) || err != nil {
					return nil
				}
				return bs
			}
			ib := marshal(inner.Build())
			if ib == nil {
				fail()
				return
			}
			recv := caDirtyReceiver(c, prev)
			var err error
			if mode == 1 {
				buf := cloneBytes(ib)
				recv.Payload = buf
				c.O.Err("other")
				if try(func() { err = recv.Unmarshal(buf) }) {
					c.O.Panic()
				} else if writeRes(&c.O, err) {
					writePacketObs(&c.O, recv)
				}
				return
			}
			op := outer.Build()
			op.Payload = ib
			ob := marshal(op)
			if ob == nil {
				fail()
				return
			}
			wire := cloneBytes(ob)
			if try(func() { err = recv.Unmarshal(wire) }) {
				c.O.Panic().Err("other")
				return
			}
			if !writeRes(&c.O, err) {
				c.O.Err("other")
				return
			}
			writePacketObs(&c.O, recv)
			if try(func() { err = recv.Unmarshal(recv.Payload) }) {
				c.O.Panic()
			} else if writeRes(&c.O, err) {
				writePacketObs(&c.O, recv)
			}
		}
		// grid: inner profile x CSRC count x inner payload length x inner/outer padding x outer shape
		for kind := profNone; kind <= profLegacy; kind++ {
			for _, ncsrc := range []int{0, 2, 15} {
				for _, pl := range []int{0, 1, 40, 300} {
					for _, pads := range [][2]int{{0, 0}, {3, 0}, {0, 5}, {255, 255}} {
						for outerKind := profNone; outerKind <= profLegacy; outerKind++ {
							kind, ncsrc, pl, pads, outerKind := kind, ncsrc, pl, pads, outerKind
							x.Case(func(c *Case) {
								mk := func(kind, ncsrc, pad int) *PacketIn {
									p := &PacketIn{}
									genFixed(c.R, &p.H)
									p.H.CSRC = make([]uint32, ncsrc)
									for i := range p.H.CSRC {
										p.H.CSRC[i] = uint32(c.R.U64())
									}
									if kind != profNone {
										p.H.Extension = true
										for len(p.Exts) == 0 {
											p.H.ExtensionProfile, p.Exts = genExts(c.R, kind, 5)
										}
									}
									if pad > 0 {
										p.H.Padding, p.PadSize = true, uint8(pad)
									}
									return p
								}
								inner := mk(kind, ncsrc, pads[0])
								inner.Payload = c.R.Bytes(pl)
								outer := mk(outerKind, c.R.Pick(0, 1, 3), pads[1])
								var prev []byte
								if c.R.Bool() {
									prev = caGenPrev(c)
								}
								one(c, inner, outer, prev, 0)
							})
						}
					}
				}
			}
		}
		for i, n := 0, x.N(8000, 400000); i < n; i++ {
			x.Case(func(c *Case) {
				inner := genPacketWF(c.R, 120)
				if c.R.Chance(1, 2) && !inner.H.Extension { // mostly with an extension block
					inner.H.Extension = true
					inner.H.ExtensionProfile, inner.Exts = genExts(c.R, c.R.Pick(profOne, profTwo, profLegacy), 6)
					if len(inner.Exts) == 0 {
						inner.H.ExtensionProfile, inner.Exts = 0xBEDE, []ExtIn{{5, c.R.Bytes(8)}}
					}
				}
				if c.R.Chance(1, 2) {
					inner.H.CSRC = make([]uint32, c.R.Pick(1, 2, 3, 15))
					for i := range inner.H.CSRC {
						inner.H.CSRC[i] = uint32(c.R.U64())
					}
				}
				if c.R.Chance(1, 2) {
					inner.Payload = c.R.Bytes(c.R.Range(20, 400))
				}
				outer := genPacketWF(c.R, 0)
				if c.R.Chance(1, 20) { // outside the domain now and then: correspondence only
					outer = caGenPacketOdd(c.R, 0)
					c.Tag("odd")
				}
				mode := 0
				if c.R.Chance(1, 4) {
					mode = 1
				}
				one(c, inner, outer, caGenPrev(c), mode)
			})
		}
	})
}
