package main

import "github.com/pion/rtp"

// c01.reuse — C01 on a REUSED receiver, observed through the exported slice fields themselves:
// after decoding Marshal(p) into a receiver that decoded another packet before, len(h.Extensions)
// and len(h.CSRC) are those of p — nothing of the earlier packet survives, also while the X flag
// is clear (where GetExtension / GetExtensionIDs hide the slice).  (seed C01-3)
func init() {
	register("c01.reuse", "C01", func(x *Ctx) {
		one := func(c *Case, p *PacketIn, prev []byte) {
			writePacketIn(&c.I, p)
			c.I.Bytes(prev)
			if !p.H.Extension {
				c.Tag("later packet X=0")
			}
			pkt := p.Build()
			var bs []byte
			var err error
			if try(func() { bs, err = pkt.Marshal() }) {
				c.O.Panic()
				return
			}
			if err != nil {
				c.O.Err("other")
				return
			}
			r := caDirtyReceiver(c, prev)
			if try(func() { err = r.Unmarshal(cloneBytes(bs)) }) {
				c.O.Panic()
				return
			}
			if !writeRes(&c.O, err) {
				return
			}
			ids, _ := rtp.VerifExtensions(&r.Header)
			c.O.Nat(len(ids)).Nat(len(r.Header.CSRC))
		}
		for i, n := 0, x.N(6000, 400000); i < n; i++ {
			x.Case(func(c *Case) {
				p := genPacketWF(c.R, 40)
				if c.R.Chance(1, 2) { // the interesting half: the later packet has no extension
					p.H.Extension, p.H.ExtensionProfile, p.Exts = false, 0, nil
				}
				q := genPacketWF(c.R, 20)
				if c.R.Chance(3, 4) { // … and the earlier one has several elements and CSRCs
					q.H.Extension = true
					q.H.ExtensionProfile, q.Exts = genExts(c.R, c.R.Pick(profOne, profTwo), 5)
					if len(q.Exts) == 0 {
						q.H.ExtensionProfile, q.Exts = 0xBEDE, []ExtIn{{3, []byte{1, 2}}, {4, []byte{5}}}
					}
					q.H.CSRC = []uint32{1, 2, 3}
				}
				prev, _ := q.Build().Marshal()
				one(c, p, prev)
			})
		}
	})
}
