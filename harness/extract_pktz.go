package main

// Syntactic facts about sequencer.go (go/ast, no type checking, offline): the source-side tie of
// the C07 interleaving theorem.  The theorem is about method bodies that run entirely inside a
// critical section of one mutex; these facts say that the Go methods have that shape:
//
//   * the body of (*sequencer).NextSequenceNumber and of (*sequencer).RollOverCount starts with
//     `s.mutex.Lock()` (RLock() is accepted for the read-only RollOverCount) and releases it
//     either by `defer s.mutex.Unlock()` as the next statement or by one top-level Unlock() after
//     the last access to the guarded fields, with no return before it;
//   * neither body contains any other use of the mutex, a func literal or a go statement;
//   * the fields sequenceNumber / rollOverCount are referenced nowhere else in the package
//     (all non-test files, including verif hooks), except as keys of the struct literals in
//     NewRandomSequencer / NewFixedSequencer;
//   * the value of the constant maxInitialRandomSequenceNumber.
//
// Emitted as the observation of kind c07.facts; Pred.C07.factsOk requires all of them.

import (
	"go/ast"
	"go/parser"
	"go/token"
	"os"
	"path/filepath"
	"runtime/debug"
	"strconv"
	"strings"
)

// pktzRepoDir returns the directory of the pion/rtp tree this binary was built against.
func pktzRepoDir() string {
	if bi, ok := debug.ReadBuildInfo(); ok {
		for _, d := range bi.Deps {
			if d.Path == "github.com/pion/rtp" && d.Replace != nil && d.Replace.Path != "" {
				return d.Replace.Path
			}
		}
	}
	if p := os.Getenv("VERIF_REPO"); p != "" {
		return p
	}
	return "/repo"
}

type seqFacts struct {
	nextLocksFirst, nextDefersUnlock bool
	rocLocksFirst, rocDefersUnlock   bool
	noOtherLockOps                   bool
	fieldsPrivate                    bool
	maxInitialRandom                 int
	err                              string
}

const (
	seqType   = "sequencer"
	seqMutex  = "mutex"
	seqFieldA = "sequenceNumber"
	seqFieldB = "rollOverCount"
)

// seqIsMutexCall reports whether e is `<recv>.mutex.<method>()`.
func seqIsMutexCall(e ast.Expr, recv, method string) bool {
	call, ok := e.(*ast.CallExpr)
	if !ok || len(call.Args) != 0 {
		return false
	}
	sel, ok := call.Fun.(*ast.SelectorExpr)
	if !ok || sel.Sel.Name != method {
		return false
	}
	inner, ok := sel.X.(*ast.SelectorExpr)
	if !ok || inner.Sel.Name != seqMutex {
		return false
	}
	id, ok := inner.X.(*ast.Ident)
	return ok && id.Name == recv
}

// seqRecvOf returns (receiver name, receiver is *sequencer).
func seqRecvOf(fd *ast.FuncDecl) (string, bool) {
	if fd.Recv == nil || len(fd.Recv.List) != 1 {
		return "", false
	}
	f := fd.Recv.List[0]
	star, ok := f.Type.(*ast.StarExpr)
	if !ok {
		return "", false
	}
	id, ok := star.X.(*ast.Ident)
	if !ok || id.Name != seqType || len(f.Names) != 1 {
		return "", false
	}
	return f.Names[0].Name, true
}

func pktzEvalConstInt(e ast.Expr) (int, bool) {
	switch v := e.(type) {
	case *ast.BasicLit:
		if v.Kind != token.INT {
			return 0, false
		}
		n, err := strconv.ParseInt(v.Value, 0, 64)
		return int(n), err == nil
	case *ast.ParenExpr:
		return pktzEvalConstInt(v.X)
	case *ast.BinaryExpr:
		a, ok1 := pktzEvalConstInt(v.X)
		b, ok2 := pktzEvalConstInt(v.Y)
		if !ok1 || !ok2 {
			return 0, false
		}
		switch v.Op {
		case token.ADD:
			return a + b, true
		case token.SUB:
			return a - b, true
		case token.MUL:
			return a * b, true
		case token.SHL:
			if b < 0 || b > 62 {
				return 0, false
			}
			return a << uint(b), true
		}
	}
	return 0, false
}

func seqTouchesFields(n ast.Node) bool {
	found := false
	ast.Inspect(n, func(x ast.Node) bool {
		if sel, ok := x.(*ast.SelectorExpr); ok && (sel.Sel.Name == seqFieldA || sel.Sel.Name == seqFieldB) {
			found = true
		}
		return true
	})
	return found
}

func seqHasReturn(n ast.Node) bool {
	found := false
	ast.Inspect(n, func(x ast.Node) bool {
		if _, ok := x.(*ast.ReturnStmt); ok {
			found = true
		}
		return true
	})
	return found
}

// seqLockDiscipline looks at a method body: (locksFirst, unlockOK, clean).
//
//	locksFirst: the first statement is recv.mutex.Lock() (RLock() accepted for the read-only method)
//	unlockOK:   either the second statement is `defer recv.mutex.Unlock()` (RUnlock after RLock), or
//	            the matching Unlock is a top-level statement with no access to the guarded fields
//	            after it and no return statement before it
//	clean:      no further use of the mutex, no func literal, no go statement in the body
func seqLockDiscipline(body []ast.Stmt, recv string, readOnly bool) (bool, bool, bool) {
	if len(body) == 0 {
		return false, false, true
	}
	lockName, unlockName := "", ""
	if es, ok := body[0].(*ast.ExprStmt); ok {
		switch {
		case seqIsMutexCall(es.X, recv, "Lock"):
			lockName, unlockName = "Lock", "Unlock"
		case readOnly && seqIsMutexCall(es.X, recv, "RLock"):
			lockName, unlockName = "RLock", "RUnlock"
		}
	}
	if lockName == "" {
		return false, false, true
	}
	rest := body[1:]
	unlockOK := false
	if len(rest) >= 1 {
		if ds, ok := rest[0].(*ast.DeferStmt); ok && seqIsMutexCall(ds.Call, recv, unlockName) {
			unlockOK = true
			rest = rest[1:]
		}
	}
	if !unlockOK {
		// explicit unlock: a top-level statement, nothing guarded touched afterwards, no return before it
		for k, st := range rest {
			es, ok := st.(*ast.ExprStmt)
			if !ok || !seqIsMutexCall(es.X, recv, unlockName) {
				continue
			}
			ok2 := true
			for _, before := range rest[:k] {
				if seqHasReturn(before) {
					ok2 = false
				}
			}
			for _, after := range rest[k+1:] {
				if seqTouchesFields(after) {
					ok2 = false
				}
			}
			if ok2 {
				unlockOK = true
				rest = append(append([]ast.Stmt{}, rest[:k]...), rest[k+1:]...)
			}
			break
		}
	}
	clean := true
	for _, st := range rest {
		ast.Inspect(st, func(n ast.Node) bool {
			switch v := n.(type) {
			case *ast.SelectorExpr:
				if v.Sel.Name == seqMutex {
					clean = false
				}
			case *ast.FuncLit, *ast.GoStmt:
				clean = false
			}
			return true
		})
	}
	return true, unlockOK, clean
}

func extractSeqFacts(dir string) seqFacts {
	f := seqFacts{noOtherLockOps: true, fieldsPrivate: true, maxInitialRandom: -1}
	names, err := filepath.Glob(filepath.Join(dir, "*.go"))
	if err != nil || len(names) == 0 {
		f.err = "no-sources"
		return f
	}
	fset := token.NewFileSet()
	seenNext, seenRoc := false, false
	for _, name := range names {
		if strings.HasSuffix(name, "_test.go") {
			continue
		}
		file, err := parser.ParseFile(fset, name, nil, parser.SkipObjectResolution)
		if err != nil {
			f.err = "parse-error"
			return f
		}
		for _, decl := range file.Decls {
			switch d := decl.(type) {
			case *ast.GenDecl:
				if d.Tok == token.CONST {
					for _, sp := range d.Specs {
						vs := sp.(*ast.ValueSpec)
						for i, n := range vs.Names {
							if n.Name == "maxInitialRandomSequenceNumber" && i < len(vs.Values) {
								if v, ok := pktzEvalConstInt(vs.Values[i]); ok {
									f.maxInitialRandom = v
								}
							}
						}
					}
				}
				// any selector on the guarded fields in a package-level initialiser
				if d.Tok == token.VAR {
					ast.Inspect(d, func(n ast.Node) bool {
						if sel, ok := n.(*ast.SelectorExpr); ok && (sel.Sel.Name == seqFieldA || sel.Sel.Name == seqFieldB) {
							f.fieldsPrivate = false
						}
						return true
					})
				}
			case *ast.FuncDecl:
				recv, isSeq := seqRecvOf(d)
				isMethod := isSeq && (d.Name.Name == "NextSequenceNumber" || d.Name.Name == "RollOverCount")
				isCtor := d.Recv == nil && (d.Name.Name == "NewRandomSequencer" || d.Name.Name == "NewFixedSequencer")
				if d.Body == nil {
					continue
				}
				if isMethod {
					readOnly := d.Name.Name == "RollOverCount"
					locks, unlocks, clean := seqLockDiscipline(d.Body.List, recv, readOnly)
					if readOnly {
						f.rocLocksFirst, f.rocDefersUnlock, seenRoc = locks, unlocks, true
					} else {
						f.nextLocksFirst, f.nextDefersUnlock, seenNext = locks, unlocks, true
					}
					if !clean {
						f.noOtherLockOps = false
					}
					continue
				}
				// every other function: must not touch the guarded fields
				ast.Inspect(d.Body, func(n ast.Node) bool {
					switch v := n.(type) {
					case *ast.SelectorExpr:
						if v.Sel.Name == seqFieldA || v.Sel.Name == seqFieldB || (v.Sel.Name == seqMutex && isSeq) {
							f.fieldsPrivate = false
						}
					case *ast.KeyValueExpr:
						// `sequenceNumber: …` inside a composite literal initialises a NEW sequencer value;
						// that is construction (in the constructors or a helper they call), not an access
						// to a shared instance, so it is never a breach of the lock discipline
						_ = isCtor
					}
					return true
				})
			}
		}
	}
	if !seenNext || !seenRoc {
		f.err = "methods-not-found"
	}
	return f
}
