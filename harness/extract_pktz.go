package main

// Syntactic facts about sequencer.go (go/ast, no type checking, offline): the source-side tie of
// the C07 interleaving theorem.  The theorem is about method bodies that run entirely inside a
// critical section of one mutex; these facts say that the Go methods have that shape:
//
//   * the body of (*sequencer).NextSequenceNumber and of (*sequencer).RollOverCount starts with
//     `s.mutex.Lock()` immediately followed by `defer s.mutex.Unlock()`;
//   * neither body contains any other use of the mutex, a func literal or a go statement;
//   * the fields sequenceNumber / rollOverCount are referenced nowhere else in the package
//     (all non-test files, including verif hooks), except as keys of the struct literals in
//     NewRandomSequencer / NewFixedSequencer;
//   * the value of the constant maxInitialRandomSequenceNumber.
//
// Emitted as the observation of kind c07.facts; Pred.C07.factsOk requires all of them.

import (
	"go/ast"
	"go/parser"
	"go/token"
	"os"
	"path/filepath"
	"runtime/debug"
	"strconv"
	"strings"
)

// pktzRepoDir returns the directory of the pion/rtp tree this binary was built against.
func pktzRepoDir() string {
	if bi, ok := debug.ReadBuildInfo(); ok {
		for _, d := range bi.Deps {
			if d.Path == "github.com/pion/rtp" && d.Replace != nil && d.Replace.Path != "" {
				return d.Replace.Path
			}
		}
	}
	if p := os.Getenv("VERIF_REPO"); p != "" {
		return p
	}
	return "/repo"
}

type seqFacts struct {
	nextLocksFirst, nextDefersUnlock bool
	rocLocksFirst, rocDefersUnlock   bool
	noOtherLockOps                   bool
	fieldsPrivate                    bool
	maxInitialRandom                 int
	err                              string
}

const (
	seqType   = "sequencer"
	seqMutex  = "mutex"
	seqFieldA = "sequenceNumber"
	seqFieldB = "rollOverCount"
)

// seqIsMutexCall reports whether e is `<recv>.mutex.<method>()`.
func seqIsMutexCall(e ast.Expr, recv, method string) bool {
	call, ok := e.(*ast.CallExpr)
	if !ok || len(call.Args) != 0 {
		return false
	}
	sel, ok := call.Fun.(*ast.SelectorExpr)
	if !ok || sel.Sel.Name != method {
		return false
	}
	inner, ok := sel.X.(*ast.SelectorExpr)
	if !ok || inner.Sel.Name != seqMutex {
		return false
	}
	id, ok := inner.X.(*ast.Ident)
	return ok && id.Name == recv
}

// seqRecvOf returns (receiver name, receiver is *sequencer).
func seqRecvOf(fd *ast.FuncDecl) (string, bool) {
	if fd.Recv == nil || len(fd.Recv.List) != 1 {
		return "", false
	}
	f := fd.Recv.List[0]
	star, ok := f.Type.(*ast.StarExpr)
	if !ok {
		return "", false
	}
	id, ok := star.X.(*ast.Ident)
	if !ok || id.Name != seqType || len(f.Names) != 1 {
		return "", false
	}
	return f.Names[0].Name, true
}

func pktzEvalConstInt(e ast.Expr) (int, bool) {
	switch v := e.(type) {
	case *ast.BasicLit:
		if v.Kind != token.INT {
			return 0, false
		}
		n, err := strconv.ParseInt(v.Value, 0, 64)
		return int(n), err == nil
	case *ast.ParenExpr:
		return pktzEvalConstInt(v.X)
	case *ast.BinaryExpr:
		a, ok1 := pktzEvalConstInt(v.X)
		b, ok2 := pktzEvalConstInt(v.Y)
		if !ok1 || !ok2 {
			return 0, false
		}
		switch v.Op {
		case token.ADD:
			return a + b, true
		case token.SUB:
			return a - b, true
		case token.MUL:
			return a * b, true
		case token.SHL:
			if b < 0 || b > 62 {
				return 0, false
			}
			return a << uint(b), true
		}
	}
	return 0, false
}

func extractSeqFacts(dir string) seqFacts {
	f := seqFacts{noOtherLockOps: true, fieldsPrivate: true, maxInitialRandom: -1}
	names, err := filepath.Glob(filepath.Join(dir, "*.go"))
	if err != nil || len(names) == 0 {
		f.err = "no-sources"
		return f
	}
	fset := token.NewFileSet()
	seenNext, seenRoc := false, false
	for _, name := range names {
		if strings.HasSuffix(name, "_test.go") {
			continue
		}
		file, err := parser.ParseFile(fset, name, nil, parser.SkipObjectResolution)
		if err != nil {
			f.err = "parse-error"
			return f
		}
		for _, decl := range file.Decls {
			switch d := decl.(type) {
			case *ast.GenDecl:
				if d.Tok == token.CONST {
					for _, sp := range d.Specs {
						vs := sp.(*ast.ValueSpec)
						for i, n := range vs.Names {
							if n.Name == "maxInitialRandomSequenceNumber" && i < len(vs.Values) {
								if v, ok := pktzEvalConstInt(vs.Values[i]); ok {
									f.maxInitialRandom = v
								}
							}
						}
					}
				}
				// any selector on the guarded fields in a package-level initialiser
				if d.Tok == token.VAR {
					ast.Inspect(d, func(n ast.Node) bool {
						if sel, ok := n.(*ast.SelectorExpr); ok && (sel.Sel.Name == seqFieldA || sel.Sel.Name == seqFieldB) {
							f.fieldsPrivate = false
						}
						return true
					})
				}
			case *ast.FuncDecl:
				recv, isSeq := seqRecvOf(d)
				isMethod := isSeq && (d.Name.Name == "NextSequenceNumber" || d.Name.Name == "RollOverCount")
				isCtor := d.Recv == nil && (d.Name.Name == "NewRandomSequencer" || d.Name.Name == "NewFixedSequencer")
				if d.Body == nil {
					continue
				}
				if isMethod {
					locks := len(d.Body.List) >= 1 && func() bool {
						es, ok := d.Body.List[0].(*ast.ExprStmt)
						return ok && seqIsMutexCall(es.X, recv, "Lock")
					}()
					defers := locks && len(d.Body.List) >= 2 && func() bool {
						ds, ok := d.Body.List[1].(*ast.DeferStmt)
						return ok && seqIsMutexCall(ds.Call, recv, "Unlock")
					}()
					if d.Name.Name == "NextSequenceNumber" {
						f.nextLocksFirst, f.nextDefersUnlock, seenNext = locks, defers, true
					} else {
						f.rocLocksFirst, f.rocDefersUnlock, seenRoc = locks, defers, true
					}
					rest := d.Body.List
					if defers {
						rest = rest[2:]
					}
					for _, st := range rest {
						ast.Inspect(st, func(n ast.Node) bool {
							switch v := n.(type) {
							case *ast.SelectorExpr:
								if v.Sel.Name == seqMutex {
									f.noOtherLockOps = false
								}
							case *ast.FuncLit, *ast.GoStmt:
								f.noOtherLockOps = false
							}
							return true
						})
					}
					continue
				}
				// every other function: must not touch the guarded fields
				ast.Inspect(d.Body, func(n ast.Node) bool {
					switch v := n.(type) {
					case *ast.SelectorExpr:
						if v.Sel.Name == seqFieldA || v.Sel.Name == seqFieldB || (v.Sel.Name == seqMutex && isSeq) {
							f.fieldsPrivate = false
						}
					case *ast.KeyValueExpr:
						if k, ok := v.Key.(*ast.Ident); ok && (k.Name == seqFieldA || k.Name == seqFieldB) && !isCtor {
							f.fieldsPrivate = false
						}
					}
					return true
				})
			}
		}
	}
	if !seenNext || !seenRoc {
		f.err = "methods-not-found"
	}
	return f
}
