package main

// Group `ext`: C17 (fixed-size header-extension payload codecs) and C18 (NTP time mapping, send-time
// estimation).  Token formats: lean/Driver/Kinds/Ext.lean.

import (
	"math"
	"time"

	"github.com/pion/rtp"
)

// ---------------------------------------------------------------------------------------------
// C17
// ---------------------------------------------------------------------------------------------

// extCodec describes one Marshal/Unmarshal pair to the generic C17 generators.
type extCodec[V any] struct {
	size      int                               // fixed size (the smaller one for abs-capture-time)
	maxLen    int                               // input lengths 0..maxLen are all generated
	write     func(t *Toks, v V)                // value tokens
	marshal   func(v V) ([]byte, error)         // real Marshal
	unmarshal func(r *V, b []byte) error        // real Unmarshal on receiver r
	randVal   func(r *Rand) V                   // arbitrary receiver content / value (in and out of range)
	values    func(x *Ctx, emit func(v V))      // the value domain for the marshal kind
	inputs    func(x *Ctx, emit func(b []byte)) // extra byte-string inputs for the unmarshal kind
	// edit (nil for values without exported pointers / slices): the caller writes through every
	// exported pointer of a value it was handed (`*v.EstimatedCaptureClockOffset += k`); returns how to
	// put the old contents back
	edit func(r *Rand, v *V) (undo func())
}

// extEditEarlier is the history "earlier results were edited by their owner": OTHER receivers (zero
// values) decode the given payloads — the very bytes the decode under test is about to see — and the
// caller then writes through every exported pointer of what they decoded.  None of this touches the
// receiver under test or the payloads, so what the property says about the decode under test is the
// same with and without it (the model does not take it as an input; the count is in the case line for
// the record).  Returns the number of values edited and the undo (run after the observation).
func extEditEarlier[V any](cd extCodec[V], c *Case, payloads ...[]byte) (int, func()) {
	if cd.edit == nil || !c.R.Bool() {
		return 0, func() {}
	}
	var undo []func()
	for _, pl := range payloads {
		var r0 V
		var err error
		if try(func() { err = cd.unmarshal(&r0, cloneBytes(pl)) }) || err != nil {
			continue
		}
		if u := cd.edit(c.R, &r0); u != nil {
			undo = append(undo, u)
		}
	}
	if len(undo) > 0 {
		c.Tag("earlier-results-edited-through-their-pointers")
	}
	return len(undo), func() {
		for i := len(undo) - 1; i >= 0; i-- {
			undo[i]()
		}
	}
}

func extWriteUnitRes(o *Toks, panicked bool, err error) {
	switch {
	case panicked:
		o.Panic()
	case err != nil:
		o.Err("other")
	default:
		o.Ok()
	}
}

// extRender is the token string of a value: what it "reports" through its exported fields.
func extRender[V any](cd extCodec[V], v V) string {
	var t Toks
	cd.write(&t, v)
	return t.String()
}

// c17.X.m: Marshal(v) — after earlier Marshal results have been overwritten by the caller —; if ok, Unmarshal of the result into a receiver holding prev.  The caller
// then keeps the decoded value (a struct copy of the receiver, as `got := recv` does) while the SAME
// receiver decodes the encoding of the next value of the stream; the last observation token says
// whether the kept value still reports what it reported when it was decoded.
func extGenMarshal[V any](cd extCodec[V]) func(x *Ctx) {
	return func(x *Ctx) {
		cd.values(x, func(v V) {
			x.Case(func(c *Case) {
				prev := cd.randVal(c.R)
				next := cd.randVal(c.R)
				cd.write(&c.I, v)
				cd.write(&c.I, prev)
				cd.write(&c.I, next)
				// Earlier Marshal calls of the stream (of prev and of v itself): what they returned was the
				// caller's, and the caller has used it — overwritten it up to its capacity (an extension
				// payload is copied into the header and its slice reused, or appended to).  The Marshal
				// under test must emit the layout of v all the same.
				try(func() {
					e1, _ := cd.marshal(prev)
					e2, _ := cd.marshal(v)
					scribbleAll(e1, e2)
				})
				var out []byte
				var err error
				if try(func() { out, err = cd.marshal(v) }) {
					c.I.Nat(0)
					c.O.Panic().None().Bool(true)
					c.Tag("marshal-panic")
					return
				}
				if err != nil {
					c.I.Nat(0)
					c.O.Err("other").None().Bool(true)
					c.Tag("marshal-err")
					c.Trivial()
					return
				}
				c.Tag("marshal-ok")
				c.O.Ok().Bytes(out)
				edits, undo := extEditEarlier(cd, c, out)
				defer undo()
				c.I.Nat(edits)
				recv := prev
				var uerr error
				p := try(func() { uerr = cd.unmarshal(&recv, out) })
				c.O.Some()
				extWriteUnitRes(&c.O, p, uerr)
				cd.write(&c.O, recv)
				// deferred observation of the decoded value
				got := recv
				reported := extRender(cd, got)
				try(func() {
					if nb, nerr := cd.marshal(next); nerr == nil {
						_ = cd.unmarshal(&recv, nb)
						c.Tag("receiver-decodes-next-value")
					}
				})
				c.O.Bool(extRender(cd, got) == reported)
			})
		})
	}
}

// c17.X.u: a receiver holding prev decodes hist[0], hist[1], … and then the input under test.
func extGenUnmarshal[V any](cd extCodec[V]) func(x *Ctx) {
	return func(x *Ctx) {
		one := func(mk func(c *Case) (prev V, hist [][]byte, raw []byte)) {
			x.Case(func(c *Case) {
				prev, hist, raw := mk(c)
				cd.write(&c.I, prev)
				c.I.BytesList(hist)
				c.I.Bytes(raw)
				// The receiver starts as a struct copy of prev (`recv := prev`).  After every earlier
				// decode that succeeded the caller keeps what was decoded (a struct copy of the receiver)
				// and what it reports; after the decode under test the kept values are read again.
				edits, undo := extEditEarlier(cd, c, append(append([][]byte{}, hist...), raw)...)
				defer undo()
				c.I.Nat(edits)
				prevReported := extRender(cd, prev)
				recv := prev
				var kept []V
				var reported []string
				for _, h := range hist {
					h := h
					var herr error
					if try(func() { herr = cd.unmarshal(&recv, h) }) || herr != nil {
						continue // nothing was decoded
					}
					kept = append(kept, recv)
					reported = append(reported, extRender(cd, recv))
				}
				in := cloneBytes(raw)
				var err error
				p := try(func() { err = cd.unmarshal(&recv, in) })
				extWriteUnitRes(&c.O, p, err)
				cd.write(&c.O, recv)
				earlierSame := true
				for i := range kept {
					if extRender(cd, kept[i]) != reported[i] {
						earlierSame = false
					}
				}
				// <earlier decoded values still report what they reported> <so does the value the
				// receiver was built from>
				c.O.Bool(earlierSame).Bool(extRender(cd, prev) == prevReported)
				switch {
				case len(raw) < cd.size:
					c.Tag("short")
					c.Trivial()
				case len(raw) == cd.size:
					c.Tag("len=size")
				default:
					c.Tag("len>size")
				}
				if len(hist) > 0 {
					c.Tag("reused-receiver")
				}
			})
		}
		randHist := func(c *Case) [][]byte {
			var hist [][]byte
			for i, n := 0, c.R.Pick(0, 0, 1, 1, 2); i < n; i++ {
				hist = append(hist, c.R.Bytes(c.R.Range(0, cd.maxLen)))
			}
			return hist
		}
		// every length 0..maxLen, several fillings, fresh and dirty receivers
		for ln := 0; ln <= cd.maxLen; ln++ {
			for fill := 0; fill < 6; fill++ {
				for rep := 0; rep < 4; rep++ {
					ln, fill, rep := ln, fill, rep
					one(func(c *Case) (V, [][]byte, []byte) {
						raw := make([]byte, ln)
						for i := range raw {
							switch fill {
							case 0:
								raw[i] = 0x00
							case 1:
								raw[i] = 0xFF
							case 2:
								raw[i] = byte(0x80 >> (uint(i) % 8))
							case 3:
								raw[i] = byte(i + 1)
							default:
								raw[i] = c.R.Byte()
							}
						}
						if ln == 0 && rep == 0 {
							raw = nil
						}
						var prev V
						var hist [][]byte
						if rep >= 1 {
							prev = cd.randVal(c.R)
						}
						if rep >= 2 {
							// a longest-form input first: the receiver then holds every optional field
							hist = append(hist, c.R.Bytes(cd.maxLen))
						}
						if rep >= 3 {
							hist = append(hist, c.R.Bytes(c.R.Range(0, cd.maxLen)))
						}
						return prev, hist, raw
					})
				}
			}
		}
		// the codec's own (complete or strided) input domain
		cd.inputs(x, func(b []byte) {
			one(func(c *Case) (V, [][]byte, []byte) {
				return cd.randVal(c.R), randHist(c), b
			})
		})
		// random stream
		for i, n := 0, x.N(20000, 1000000); i < n; i++ {
			one(func(c *Case) (V, [][]byte, []byte) {
				return cd.randVal(c.R), randHist(c), c.R.Bytes(c.R.Range(0, cd.maxLen))
			})
		}
	}
}

// extEdge12 are the 12-bit values whose nibbles exercise every position of the 12+12 bit split.
var extEdge12 = []int{0, 1, 2, 0xF, 0x10, 0x11, 0xF0, 0xFF, 0x100, 0x101, 0x123, 0x555, 0x7FF, 0x800, 0xAAA, 0xABC,
	0xF00, 0xF0F, 0xFF0, 0xFFE, 0xFFF}

// interesting 64-bit patterns
var extEdge64 = []uint64{0, 1, 0xFF, 0x100, 0x7FFFFFFF, 0x80000000, 0xFFFFFFFF, 0x100000000, 0x0102030405060708,
	0x8000000000000000, 0x7FFFFFFFFFFFFFFF, 0xFFFFFFFFFFFFFFFE, 0xFFFFFFFFFFFFFFFF, 0xFF00FF00FF00FF00, 0x00FF00FF00FF00FF}

func extRandU64(r *Rand) uint64 {
	switch r.Intn(4) {
	case 0:
		return extEdge64[r.Intn(len(extEdge64))]
	case 1:
		return r.U64() >> uint(r.Intn(64))
	default:
		return r.U64()
	}
}

var extAudioCodec = extCodec[rtp.AudioLevelExtension]{
	size: 1, maxLen: 3,
	write:     func(t *Toks, v rtp.AudioLevelExtension) { t.Nat(int(v.Level)).Bool(v.Voice) },
	marshal:   func(v rtp.AudioLevelExtension) ([]byte, error) { return v.Marshal() },
	unmarshal: func(r *rtp.AudioLevelExtension, b []byte) error { return r.Unmarshal(b) },
	randVal: func(r *Rand) rtp.AudioLevelExtension {
		return rtp.AudioLevelExtension{Level: r.Byte(), Voice: r.Bool()}
	},
	values: func(x *Ctx, emit func(rtp.AudioLevelExtension)) {
		// the complete domain, 2 x 256, three times (different dirty receivers)
		for rep := 0; rep < 3; rep++ {
			for l := 0; l < 256; l++ {
				emit(rtp.AudioLevelExtension{Level: uint8(l), Voice: false})
				emit(rtp.AudioLevelExtension{Level: uint8(l), Voice: true})
			}
		}
	},
	inputs: func(x *Ctx, emit func([]byte)) {
		// every first byte, with 0, 1 and 2 trailing bytes
		for b := 0; b < 256; b++ {
			emit([]byte{byte(b)})
			emit([]byte{byte(b), byte(b * 7)})
			emit([]byte{byte(b), 0xFF, byte(b)})
		}
	},
}

var extTccCodec = extCodec[rtp.TransportCCExtension]{
	size: 2, maxLen: 4,
	write:     func(t *Toks, v rtp.TransportCCExtension) { t.Nat(int(v.TransportSequence)) },
	marshal:   func(v rtp.TransportCCExtension) ([]byte, error) { return v.Marshal() },
	unmarshal: func(r *rtp.TransportCCExtension, b []byte) error { return r.Unmarshal(b) },
	randVal: func(r *Rand) rtp.TransportCCExtension {
		return rtp.TransportCCExtension{TransportSequence: uint16(r.U64())}
	},
	values: func(x *Ctx, emit func(rtp.TransportCCExtension)) {
		for s := 0; s < 65536; s++ { // complete
			emit(rtp.TransportCCExtension{TransportSequence: uint16(s)})
		}
	},
	inputs: func(x *Ctx, emit func([]byte)) {
		for s := 0; s < 65536; s++ { // every two-byte prefix, 0..2 trailing bytes
			b := []byte{byte(s >> 8), byte(s)}
			for k := 0; k < s%3; k++ {
				b = append(b, byte(s*31+k))
			}
			emit(b)
		}
	},
}

var extPlayoutCodec = extCodec[rtp.PlayoutDelayExtension]{
	size: 3, maxLen: 5,
	write:     func(t *Toks, v rtp.PlayoutDelayExtension) { t.Nat(int(v.MinDelay)).Nat(int(v.MaxDelay)) },
	marshal:   func(v rtp.PlayoutDelayExtension) ([]byte, error) { return v.Marshal() },
	unmarshal: func(r *rtp.PlayoutDelayExtension, b []byte) error { return r.Unmarshal(b) },
	randVal: func(r *Rand) rtp.PlayoutDelayExtension {
		v := rtp.PlayoutDelayExtension{MinDelay: uint16(r.U64()), MaxDelay: uint16(r.U64())}
		if r.Bool() {
			v.MinDelay &= 0xFFF
			v.MaxDelay &= 0xFFF
		}
		return v
	},
	values: func(x *Ctx, emit func(rtp.PlayoutDelayExtension)) {
		pd := func(a, b int) { emit(rtp.PlayoutDelayExtension{MinDelay: uint16(a), MaxDelay: uint16(b)}) }
		// out of range on either side, around the boundary and far from it
		oor := []int{0x1000, 0x1001, 0x1FFF, 0x2000, 0x8000, 0xF000, 0xFFFF}
		for _, a := range oor {
			for _, b := range append(append([]int{}, extEdge12...), oor...) {
				pd(a, b)
				pd(b, a)
			}
		}
		if x.Thorough() {
			for a := 0; a < 4096; a++ { // the complete in-range domain, 2^24 pairs
				for b := 0; b < 4096; b++ {
					pd(a, b)
				}
			}
			return
		}
		for _, e := range extEdge12 { // all 12-bit edges against every value of the other field
			for o := 0; o < 4096; o++ {
				pd(e, o)
				pd(o, e)
			}
		}
		for i := 0; i < 1<<24; i += 251 { // strided through the rest
			pd(i>>12, i&0xFFF)
		}
	},
	inputs: func(x *Ctx, emit func([]byte)) {
		if x.Thorough() {
			for i := 0; i < 1<<24; i++ { // every three-byte input
				emit([]byte{byte(i >> 16), byte(i >> 8), byte(i)})
			}
			return
		}
		for i := 0; i < 1<<16; i++ { // every (byte0, byte1) and every (byte1, byte2)
			emit([]byte{byte(i >> 8), byte(i), byte(i * 13)})
			emit([]byte{byte(i * 29), byte(i >> 8), byte(i), byte(i >> 3)})
		}
	},
}

var extAbsSendCodec = extCodec[rtp.AbsSendTimeExtension]{
	size: 3, maxLen: 5,
	write:     func(t *Toks, v rtp.AbsSendTimeExtension) { t.U64(v.Timestamp) },
	marshal:   func(v rtp.AbsSendTimeExtension) ([]byte, error) { return v.Marshal() },
	unmarshal: func(r *rtp.AbsSendTimeExtension, b []byte) error { return r.Unmarshal(b) },
	randVal: func(r *Rand) rtp.AbsSendTimeExtension {
		if r.Bool() {
			return rtp.AbsSendTimeExtension{Timestamp: r.U64() & 0xFFFFFF}
		}
		return rtp.AbsSendTimeExtension{Timestamp: extRandU64(r)}
	},
	values: func(x *Ctx, emit func(rtp.AbsSendTimeExtension)) {
		ts := func(t uint64) { emit(rtp.AbsSendTimeExtension{Timestamp: t}) }
		for _, e := range extEdge64 { // wider than 24 bits: only the low 24 bits are sent
			ts(e)
			ts(e<<24 | 0xABCDEF)
		}
		if x.Thorough() {
			for t := uint64(0); t < 1<<24; t++ { // complete
				ts(t)
			}
		} else {
			for b := uint64(0); b < 256; b++ { // every value of each byte, all 12-bit edges in both halves
				ts(b << 16)
				ts(b << 8)
				ts(b)
				ts(b<<16 | 0xFFFF)
				ts(b<<8 | 0xFF00FF)
				ts(b | 0xFFFF00)
			}
			for _, a := range extEdge12 {
				for _, b := range extEdge12 {
					ts(uint64(a)<<12 | uint64(b))
				}
			}
			for t := uint64(0); t < 1<<24; t += 127 { // strided
				ts(t)
			}
		}
		for i := 0; i < 4096; i++ { // 50-bit values as produced by NewAbsSendTimeExtension, and beyond
			i := uint64(i)
			ts(mix(i) >> 14)
			ts(mix(i + 77777))
		}
	},
	inputs: func(x *Ctx, emit func([]byte)) {
		if x.Thorough() {
			for i := 0; i < 1<<24; i++ {
				emit([]byte{byte(i >> 16), byte(i >> 8), byte(i)})
			}
			return
		}
		for i := 0; i < 1<<16; i++ {
			emit([]byte{byte(i >> 8), byte(i), byte(i * 13)})
			emit([]byte{byte(i * 29), byte(i >> 8), byte(i), byte(i >> 3)})
		}
	},
}

func extRandCapture(r *Rand) rtp.AbsCaptureTimeExtension {
	v := rtp.AbsCaptureTimeExtension{Timestamp: extRandU64(r)}
	if r.Intn(3) != 0 {
		o := int64(extRandU64(r))
		v.EstimatedCaptureClockOffset = &o
	}
	return v
}

var extAbsCaptureCodec = extCodec[rtp.AbsCaptureTimeExtension]{
	size: 8, maxLen: 18,
	write: func(t *Toks, v rtp.AbsCaptureTimeExtension) {
		t.U64(v.Timestamp)
		if v.EstimatedCaptureClockOffset == nil {
			t.None()
		} else {
			t.Some().I64(*v.EstimatedCaptureClockOffset)
		}
	},
	marshal: func(v rtp.AbsCaptureTimeExtension) ([]byte, error) { return v.Marshal() },
	// no private copy of the pointee here: values are built per case (randVal, values), and whether a
	// decode writes through a pointer the receiver shares with a value the caller still holds is part
	// of what the kinds observe
	unmarshal: func(r *rtp.AbsCaptureTimeExtension, b []byte) error { return r.Unmarshal(b) },
	edit: func(r *Rand, v *rtp.AbsCaptureTimeExtension) func() {
		p := v.EstimatedCaptureClockOffset
		if p == nil {
			return nil
		}
		old := *p
		*p += int64(r.U64()>>uint(r.Intn(60))) | 1 // re-based by hand
		return func() { *p = old }
	},
	randVal: extRandCapture,
	values: func(x *Ctx, emit func(rtp.AbsCaptureTimeExtension)) {
		for _, t := range extEdge64 {
			emit(rtp.AbsCaptureTimeExtension{Timestamp: t})
			for _, o := range extEdge64 {
				o := int64(o)
				emit(rtp.AbsCaptureTimeExtension{Timestamp: t, EstimatedCaptureClockOffset: &o})
			}
		}
		for i, n := 0, x.N(30000, 2000000); i < n; i++ { // sampled 64-bit values, with and without offset
			a, b := mix(uint64(i)*2+x.Seed*0x1234567), mix(uint64(i)*2+1+x.Seed*0x1234567)
			switch i % 4 {
			case 0:
				emit(rtp.AbsCaptureTimeExtension{Timestamp: a})
			case 1:
				o := int64(b)
				emit(rtp.AbsCaptureTimeExtension{Timestamp: a, EstimatedCaptureClockOffset: &o})
			case 2:
				o := int64(b) >> (uint(i/4) % 64) // small magnitudes of both signs
				emit(rtp.AbsCaptureTimeExtension{Timestamp: a >> (uint(i/256) % 64), EstimatedCaptureClockOffset: &o})
			default:
				// what the constructors produce
				e := rtp.NewAbsCaptureTimeExtensionWithCaptureClockOffset(time.Unix(0, int64(a>>2)), time.Duration(int64(b)>>1))
				emit(*e)
			}
		}
	},
	inputs: func(x *Ctx, emit func([]byte)) {
		// each byte position carries each of a few patterns while the others are zero / ones
		for ln := 8; ln <= 18; ln++ {
			for pos := 0; pos < ln; pos++ {
				for _, v := range []byte{0x01, 0x80, 0xFF, 0x5A} {
					for _, bg := range []byte{0x00, 0xFF} {
						b := make([]byte, ln)
						for i := range b {
							b[i] = bg
						}
						b[pos] = v
						emit(b)
					}
				}
			}
		}
	},
}

// ---------------------------------------------------------------------------------------------
// C18
// ---------------------------------------------------------------------------------------------

const (
	extNsPerS    = int64(1000000000)
	extEraEndNs  = (int64(1)<<32 - 2208988800) * 1000000000 // first ns after the 1900 NTP era
	extWrap24Ns  = 64 * extNsPerS                           // period of the 24-bit abs-send-time field
	extMaxDelay  = 64*extNsPerS - 3815                      // largest whole-ns delay below 64 s - 2^-18 s
	extMaxOffset = (int64(1) << 31) * 1000000000            // offsets of magnitude below this are in range
)

// extGridNs returns the first whole nanosecond (within a second) at or after the k-th point of the
// 2^-18 s grid of the abs-send-time field.
func extGridNs(k int64) int64 { // ceil(k * 1e9 / 2^18)
	return (k*extNsPerS + (1<<18 - 1)) >> 18
}

// extInstant draws a Unix-nanosecond extInstant; class selects where it concentrates.
func extInstant(r *Rand) (int64, string) {
	inEra := func() int64 { return int64(r.U64() % uint64(extEraEndNs)) }
	small := func() int64 {
		switch r.Intn(4) {
		case 0:
			return int64(r.Range(-3, 3))
		case 1:
			return int64(r.Range(-4000, 4000))
		case 2:
			return int64(r.Range(-1000000, 1000000))
		default:
			return int64(r.U64()%uint64(2*extNsPerS)) - extNsPerS // within +-1 s
		}
	}
	switch r.Intn(10) {
	case 0, 1: // around a 64 s wrap point of the 24-bit field (NTP seconds = Unix seconds + 64*34515450)
		k := int64(r.U64() % uint64(extEraEndNs/extWrap24Ns+1))
		return k*extWrap24Ns + small(), "wrap64"
	case 2: // around a whole second
		return inEra()/extNsPerS*extNsPerS + small(), "second"
	case 3: // exactly representable fractions: j/512 s = j * 1953125 ns have f = j * 2^23
		return inEra()/extNsPerS*extNsPerS + int64(r.Intn(512))*1953125 + int64(r.Range(-1, 1)), "dyadic"
	case 4: // at, just before, just after a point of the 2^-18 s grid
		return inEra()/extNsPerS*extNsPerS + extGridNs(int64(r.Intn(1<<18))) + int64(r.Range(-1, 1)), "grid18"
	case 5: // the ends of the era
		switch r.Intn(3) {
		case 0:
			return int64(r.Range(0, 5)) + int64(r.Intn(2))*small(), "era-start"
		case 1:
			return extEraEndNs - 1 - int64(r.Range(0, 5)) - int64(r.Intn(2))*(small()+extNsPerS), "era-end"
		default:
			return extEraEndNs - 64*extNsPerS + small(), "era-end-64s"
		}
	default:
		return inEra(), "random"
	}
}

// extDrawOffset draws a capture clock offset (ns) of magnitude below 2^31 s (a few land one or two ns
// beyond the bound), concentrated on whole seconds, small values, the bound and exact fractions.
func extDrawOffset(r *Rand) int64 {
	var d int64
	switch r.Intn(7) {
	case 0: // whole seconds and their neighbours
		d = int64(r.U64()%(1<<31))*extNsPerS + int64(r.Range(-2, 2))
	case 1: // small
		d = int64(r.U64() % uint64(r.Pick(10, 1000, 1000000, 2000000000)))
	case 2: // near the bound
		d = extMaxOffset - 1 - int64(r.U64()%uint64(r.Pick(3, 1000, 2000000000)))
	case 3: // exactly representable fractions
		d = int64(r.U64()%(1<<31))*extNsPerS + int64(r.Intn(512))*1953125
	default: // uniform over the range, and log-uniform
		d = int64(r.U64() % uint64(extMaxOffset))
		if r.Bool() {
			d >>= uint(r.Intn(62))
		}
	}
	if r.Bool() {
		d = -d
	}
	return d
}

func extClampInstant(t int64) int64 {
	if t < 0 {
		return 0
	}
	if t >= extEraEndNs {
		return extEraEndNs - 1
	}
	return t
}

func init() {
	register("c17.audio.m", "C17", extGenMarshal(extAudioCodec))
	register("c17.audio.u", "C17", extGenUnmarshal(extAudioCodec))
	register("c17.tcc.m", "C17", extGenMarshal(extTccCodec))
	register("c17.tcc.u", "C17", extGenUnmarshal(extTccCodec))
	register("c17.playout.m", "C17", extGenMarshal(extPlayoutCodec))
	register("c17.playout.u", "C17", extGenUnmarshal(extPlayoutCodec))
	register("c17.abssend.m", "C17", extGenMarshal(extAbsSendCodec))
	register("c17.abssend.u", "C17", extGenUnmarshal(extAbsSendCodec))
	register("c17.abscapture.m", "C17", extGenMarshal(extAbsCaptureCodec))
	register("c17.abscapture.u", "C17", extGenUnmarshal(extAbsCaptureCodec))

	// c18.capture <t> => ok <Timestamp> <CaptureTime().UnixNano()> <the same, asked again>
	register("c18.capture", "C18", func(x *Ctx) {
		one := func(mk func(c *Case) int64) {
			x.Case(func(c *Case) {
				t := mk(c)
				c.I.I64(t)
				if t < 0 || t >= extEraEndNs {
					c.Tag("outside-era")
					c.Trivial()
				}
				var ts uint64
				var back, again int64
				if try(func() {
					e := rtp.NewAbsCaptureTimeExtension(time.Unix(0, t))
					ts = e.Timestamp
					back = e.CaptureTime().UnixNano()
					again = e.CaptureTime().UnixNano() // a read: the second answer is the first
				}) {
					c.O.Panic()
					return
				}
				c.O.Ok().U64(ts).I64(back).I64(again)
				if t >= 0 && t < extEraEndNs {
					if back == t {
						c.Tag("exact")
					} else {
						c.Tag("off-by-1ns")
					}
				}
			})
		}
		for _, t := range []int64{0, 1, 2, 999999999, extNsPerS, extNsPerS + 1, extEraEndNs - 2, extEraEndNs - 1, extEraEndNs, extEraEndNs + 1,
			-1, -extNsPerS, math.MinInt64, math.MaxInt64, 488365200 * extNsPerS, 946702799*extNsPerS + 500000, 1553693970*extNsPerS + 8675309} {
			t := t
			one(func(*Case) int64 { return t })
		}
		for j := int64(0); j < 512; j++ { // every exactly representable fraction of a second
			j := j
			one(func(*Case) int64 { return 1700000000*extNsPerS + j*1953125 })
		}
		for i, n := 0, x.N(60000, 3000000); i < n; i++ {
			one(func(c *Case) int64 {
				if c.R.Intn(16) == 0 { // outside the theorem's range: correspondence only
					return int64(c.R.U64())
				}
				t, tag := extInstant(c.R)
				c.Tag(tag)
				return extClampInstant(t)
			})
		}
	})

	// c18.ntp2time <ntp> => ok <UnixNano of CaptureTime()>
	register("c18.ntp2time", "C18", func(x *Ctx) {
		one := func(mk func(c *Case) uint64) {
			x.Case(func(c *Case) {
				ntp := mk(c)
				c.I.U64(ntp)
				var back int64
				if try(func() { back = rtp.AbsCaptureTimeExtension{Timestamp: ntp}.CaptureTime().UnixNano() }) {
					c.O.Panic()
					return
				}
				c.O.Ok().I64(back)
			})
		}
		for _, e := range extEdge64 {
			e := e
			one(func(*Case) uint64 { return e })
			one(func(*Case) uint64 { return 0x83AA7E80<<32 + e>>32 })
		}
		for i, n := 0, x.N(20000, 1000000); i < n; i++ {
			one(func(c *Case) uint64 { return extRandU64(c.R) })
		}
	})

	// c18.offset <t> <d> <holder> <hist> => ok <Timestamp> <raw offset> <duration> <opt duration via the wire> <opt holder's duration afterwards>
	//                                        <duration, asked again> <duration, asked of a struct copy> <opt duration via the wire, asked again>
	//   holder = none: the wire form is decoded by a zero-value receiver;
	//   holder = some <how> <d2>: somebody holds an extension h2 with offset d2 and the receiver that decodes
	//   the wire form shares its history — how=0: the receiver is a struct copy of
	//   NewAbsCaptureTimeExtensionWithCaptureClockOffset(t, d2) (h2 is that extension); how=1: the receiver
	//   has decoded the wire form of that extension before and h2 is the struct copy the caller took of it
	//   then.  After the decode under test h2's EstimatedCaptureClockOffsetDuration is read (again).
	register("c18.offset", "C18", func(x *Ctx) {
		one := func(mk func(c *Case) (int64, int64)) {
			x.Case(func(c *Case) {
				t, d := mk(c)
				c.I.I64(t).I64(d)
				how, d2 := -1, int64(0)
				if c.R.Chance(1, 2) {
					how, d2 = c.R.Intn(2), extDrawOffset(c.R)
					if c.R.Chance(1, 16) {
						d2 = int64(c.R.U64()) // anything, mostly out of range: correspondence only
					}
					c.I.Some().Nat(how).I64(d2)
					c.Tag("receiver-shares-history-with-a-held-extension")
				} else {
					c.I.None()
				}
				// hist = 1: BEFORE the extension under test is built, the caller has built and decoded other
				// extensions (with the same offset and with offset 0) and re-based their offsets by hand,
				// writing through the exported pointer field `*ext.EstimatedCaptureClockOffset += k`
				hist := 0
				if c.R.Chance(1, 2) {
					hist = 1
					c.Tag("earlier-results-edited-through-their-pointers")
				}
				c.I.Nat(hist)
				if d <= -extMaxOffset || d >= extMaxOffset {
					c.Tag("offset-out-of-range")
					c.Trivial()
				} else if d < 0 {
					c.Tag("negative")
				} else {
					c.Tag("non-negative")
				}
				var ts uint64
				var raw, back, again, againCopy int64
				var wire, held, wireAgain *time.Duration
				var undo []func()
				defer func() { // what was written is put back (no-op for the case itself)
					for i := len(undo) - 1; i >= 0; i-- {
						undo[i]()
					}
				}()
				if try(func() {
					if hist == 1 {
						for _, d0 := range []int64{d, 0} {
							e0 := rtp.NewAbsCaptureTimeExtensionWithCaptureClockOffset(time.Unix(0, t), time.Duration(d0))
							var r0 rtp.AbsCaptureTimeExtension
							if b0, err := e0.Marshal(); err == nil {
								_ = r0.Unmarshal(b0)
							}
							for _, p := range []*int64{e0.EstimatedCaptureClockOffset, r0.EstimatedCaptureClockOffset} {
								if p != nil {
									p, old := p, *p
									*p += int64(c.R.U64()>>uint(c.R.Intn(60))) | 1
									undo = append(undo, func() { *p = old })
								}
							}
						}
					}
					e := rtp.NewAbsCaptureTimeExtensionWithCaptureClockOffset(time.Unix(0, t), time.Duration(d))
					ts = e.Timestamp
					raw = *e.EstimatedCaptureClockOffset
					back = int64(*e.EstimatedCaptureClockOffsetDuration())
					// the accessor is a read: asked again, on the same extension and on a struct copy of it,
					// it gives the same answer
					again = int64(*e.EstimatedCaptureClockOffsetDuration())
					ec := *e
					againCopy = int64(*ec.EstimatedCaptureClockOffsetDuration())
					b, err := e.Marshal()
					if err != nil {
						panic(err)
					}
					var r, h2 rtp.AbsCaptureTimeExtension
					switch how {
					case 0:
						e2 := rtp.NewAbsCaptureTimeExtensionWithCaptureClockOffset(time.Unix(0, t), time.Duration(d2))
						h2 = *e2
						r = *e2
					case 1:
						b2, err := rtp.NewAbsCaptureTimeExtensionWithCaptureClockOffset(time.Unix(0, t), time.Duration(d2)).Marshal()
						if err != nil {
							panic(err)
						}
						if err := r.Unmarshal(b2); err != nil {
							panic(err)
						}
						h2 = r
					}
					if err := r.Unmarshal(b); err != nil {
						panic(err)
					}
					wire = r.EstimatedCaptureClockOffsetDuration()
					wireAgain = r.EstimatedCaptureClockOffsetDuration()
					if how >= 0 {
						held = h2.EstimatedCaptureClockOffsetDuration()
					}
				}) {
					c.O.Panic()
					return
				}
				c.O.Ok().U64(ts).I64(raw).I64(back)
				opt := func(p *time.Duration) {
					if p == nil {
						c.O.None()
					} else {
						c.O.Some().I64(int64(*p))
					}
				}
				opt(wire)
				opt(held)
				c.O.I64(again).I64(againCopy)
				opt(wireAgain)
			})
		}
		edges := []int64{0, 1, 2, 3, 4, 5, extNsPerS - 1, extNsPerS, extNsPerS + 1, 1250000000, 250000000, 232830643, 232830644,
			extMaxOffset - 2, extMaxOffset - 1, extMaxOffset, extMaxOffset + 1, math.MaxInt64, math.MaxInt64 - 1}
		for _, d := range edges {
			d := d
			one(func(*Case) (int64, int64) { return 1700000000 * extNsPerS, d })
			one(func(*Case) (int64, int64) { return 1700000000 * extNsPerS, -d })
		}
		one(func(*Case) (int64, int64) { return 0, math.MinInt64 })
		for i, n := 0, x.N(60000, 3000000); i < n; i++ {
			one(func(c *Case) (int64, int64) {
				t, _ := extInstant(c.R)
				if c.R.Intn(8) == 0 { // anything, mostly out of range
					return extClampInstant(t), int64(c.R.U64())
				}
				return extClampInstant(t), extDrawOffset(c.R)
			})
		}
	})

	// c18.offdur <opt raw> => ok <opt duration>
	register("c18.offdur", "C18", func(x *Ctx) {
		one := func(mk func(c *Case) *int64) {
			x.Case(func(c *Case) {
				p := mk(c)
				if p == nil {
					c.I.None()
				} else {
					c.I.Some().I64(*p)
				}
				var d *time.Duration
				if try(func() {
					d = rtp.AbsCaptureTimeExtension{EstimatedCaptureClockOffset: p}.EstimatedCaptureClockOffsetDuration()
				}) {
					c.O.Panic()
					return
				}
				c.O.Ok()
				if d == nil {
					c.O.None()
				} else {
					c.O.Some().I64(int64(*d))
				}
			})
		}
		one(func(*Case) *int64 { return nil })
		for _, e := range extEdge64 {
			e := int64(e)
			f := -e
			one(func(*Case) *int64 { return &e })
			one(func(*Case) *int64 { return &f })
		}
		for i, n := 0, x.N(20000, 1000000); i < n; i++ {
			one(func(c *Case) *int64 { v := int64(extRandU64(c.R)); return &v })
		}
	})

	// c18.estimate <send> <delay> => ok <Timestamp of NewAbsSendTimeExtension(send)> <24-bit ts via the wire> <Estimate(send+delay).UnixNano()>
	register("c18.estimate", "C18", func(x *Ctx) {
		one := func(mk func(c *Case) (int64, int64)) {
			x.Case(func(c *Case) {
				send, delay := mk(c)
				c.I.I64(send).I64(delay)
				if send < 0 || send >= extEraEndNs || delay < 0 || delay > extMaxDelay {
					c.Tag("outside-hypotheses")
					c.Trivial()
				} else {
					if send/extWrap24Ns != (send+delay)/extWrap24Ns {
						c.Tag("crosses-64s-wrap")
					} else {
						c.Tag("same-64s-period")
					}
					if send+delay >= extEraEndNs {
						c.Tag("receive-after-era-end")
					}
				}
				var ts, ts24 uint64
				var est int64
				if try(func() {
					e := rtp.NewAbsSendTimeExtension(time.Unix(0, send))
					ts = e.Timestamp
					b, err := e.Marshal()
					if err != nil {
						panic(err)
					}
					var r rtp.AbsSendTimeExtension
					if err := r.Unmarshal(b); err != nil {
						panic(err)
					}
					ts24 = r.Timestamp
					// Estimate must give the same instant whether the extension came over the wire
					// (24-bit Timestamp) or straight from the constructor (which keeps the unmasked
					// ntp>>14): half of the cases take each route, the model is the same for both.
					if c.R.Bool() {
						est = r.Estimate(time.Unix(0, send+delay)).UnixNano()
					} else {
						c.Tag("estimate-on-constructor-value")
						est = e.Estimate(time.Unix(0, send+delay)).UnixNano()
					}
				}) {
					c.O.Panic()
					return
				}
				c.O.Ok().U64(ts).U64(ts24).I64(est)
				if send >= 0 && send < extEraEndNs && delay >= 0 && delay <= extMaxDelay {
					switch e := send - est; {
					case e == 0:
						c.Tag("error=0ns")
					case e == 3815:
						c.Tag("error=3815ns(max)")
					case e > 3800:
						c.Tag("error>3800ns")
					}
				}
			})
		}
		delays := []int64{0, 1, 2, 3814, 3815, 3816, extNsPerS, 32 * extNsPerS, extMaxDelay - 1, extMaxDelay, extMaxDelay + 1, 64 * extNsPerS, 64*extNsPerS + 1, -1}
		sends := []int64{1700000000000007629, 1700000000000003814, 0, 1, 63*extNsPerS + 999999999, 64 * extNsPerS, 64*extNsPerS + 1, 1700000000 * extNsPerS, 1700000000*extNsPerS + 3814, 1700000000*extNsPerS + 3815,
			26562500 * extWrap24Ns, 26562500*extWrap24Ns - 1, 26562500*extWrap24Ns + 1, extEraEndNs - 1, extEraEndNs - 64*extNsPerS, extEraEndNs - 64*extNsPerS + 3815, extEraEndNs, -1}
		for _, s := range sends {
			for _, d := range delays {
				s, d := s, d
				one(func(*Case) (int64, int64) { return s, d })
			}
		}
		for i, n := 0, x.N(100000, 5000000); i < n; i++ {
			one(func(c *Case) (int64, int64) {
				send, tag := extInstant(c.R)
				send = extClampInstant(send)
				c.Tag("send:" + tag)
				var delay int64
				switch c.R.Intn(10) {
				case 0:
					delay = int64(c.R.Intn(3))
				case 1:
					delay = int64(c.R.Intn(8000))
				case 2:
					delay = extMaxDelay - int64(c.R.Intn(3))
				case 3:
					delay = extMaxDelay - int64(c.R.Intn(8000))
				case 4: // receive lands at, just before or just after the next wrap of the field
					delay = extWrap24Ns - send%extWrap24Ns + int64(c.R.Range(-4000, 4000))
				case 5: // receive lands on the grid point of the send extInstant one period later (the strict `<`)
					delay = extWrap24Ns - int64(c.R.Intn(8000))
				case 6: // outside the hypotheses: correspondence only
					delay = int64(c.R.U64()%uint64(130*extNsPerS)) - extNsPerS
				case 7: // whole seconds
					delay = int64(c.R.Intn(64)) * extNsPerS
				default:
					delay = int64(c.R.U64() % uint64(extMaxDelay+1))
				}
				if c.R.Intn(6) != 0 { // keep most cases inside the hypotheses
					if delay < 0 {
						delay = 0
					}
					if delay > extMaxDelay {
						delay = extMaxDelay
					}
				}
				return send, delay
			})
		}
	})

	// c18.estraw <ts> <recv> => ok <Estimate(recv).UnixNano()>
	register("c18.estraw", "C18", func(x *Ctx) {
		for i, n := 0, x.N(30000, 2000000); i < n; i++ {
			x.Case(func(c *Case) {
				ts := extRandU64(c.R)
				if c.R.Bool() {
					ts &= 0xFFFFFF
				}
				var recv int64
				if c.R.Intn(4) == 0 {
					recv = int64(c.R.U64())
				} else {
					recv, _ = extInstant(c.R)
				}
				c.I.U64(ts).I64(recv)
				var est int64
				if try(func() { est = (&rtp.AbsSendTimeExtension{Timestamp: ts}).Estimate(time.Unix(0, recv)).UnixNano() }) {
					c.O.Panic()
					return
				}
				c.O.Ok().I64(est)
			})
		}
	})
}
