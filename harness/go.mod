module verifharness

go 1.20

require github.com/pion/rtp v0.0.0

require github.com/pion/randutil v0.1.0 // indirect

replace github.com/pion/rtp => /repo
