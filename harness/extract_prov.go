package main

// Provenance facts about the payloaders / depacketizers of codecs/ (go/parser + go/types, offline):
// the source-side tie of the provenance-level ownership theorems (lean/Rtp/Props/C08_Prov.lean,
// C08_Prov2.lean, C09_Prov.lean).  Those theorems are about hand-written transcriptions that say
// which `make`, which `copy`, which `append` the Go code performs; this extractor re-derives the
// one thing the theorems conclude — whose memory the returned fragments and the retained fields
// view — from the CURRENT source, so that an edit that makes a payloader hand out or keep a view of
// the caller's buffer changes the observation of kind c08.prov / c09.prov.
//
// The analysis is a small flow-insensitive, context-insensitive abstract interpretation of the
// method (`Payload` resp. `Unmarshal`) of one type T and of every function of the repo it can reach
// (methods, helpers, func literals, local closures, closures passed to helpers such as emitNalus;
// packages of the same module — codecs/av1/obu, codecs/vp9 — are followed, everything else is
// external).  A slice expression is abstracted by the class of its backing array
//
//	FRESH    make, composite literal, nil, append whose first argument is FRESH, conversion from a
//	         string, a variable/field/result all of whose assignments are FRESH
//	INPUT    the []byte parameter of the method, a slice expression of something INPUT, a variable
//	         with some INPUT assignment, an element of a [][]byte into which something INPUT was stored
//	UNKNOWN  results of external calls, package-level variables, exported fields (the caller may
//	         have set them), anything else
//
// and, for a slice of slices, additionally by the class of its ELEMENTS.  x[a:b] has the class of
// x; append(a, b...) has the class of a (nil/empty literal: FRESH).  Joins: INPUT > UNKNOWN > FRESH.
// One refinement keeps `buf = make(…); copy(buf, …)` apart from a later `buf = payload[a:b]`: the
// DESTINATION of a store (copy(x, …), x[i] = …) through a local variable x is classified by the
// assignment to x that precedes the store in the same statement list, when there is one and no
// statement in between assigns x (straight-line reaching definition); variables assigned inside a
// func literal or declared outside the function are not refined.
//
// Summary per type (nothing else is emitted, so that harmless rewrites do not change it):
//
//	sinks         everything that flows into the result: the elements of the returned [][]byte
//	              (Payload), the returned []byte (Unmarshal)
//	retained      everything assigned to a []byte / [][]byte field of T ("none": no such assignment)
//	writes_input  an index assignment x[i] = …, x[i] op= …, x[i]++ or copy(x, …) whose x is INPUT
//
// Not covered (assumptions of the tie, listed in obligations.d/own2.json): functions outside the
// module (bytes.Index, binary.BigEndian.*, fmt.Errorf, …) are assumed to only read their slice
// arguments and their results are UNKNOWN; the callees that receive an INPUT slice are reported as
// tags of the case; aliasing through pointers to slices, channels, maps and interface values is
// not tracked (none occurs in the analysed code: the class of such a value is UNKNOWN).

import (
	"go/ast"
	"go/parser"
	"go/token"
	"go/types"
	"os"
	"path/filepath"
	"sort"
	"strings"
)

type provClass int

const (
	pNone provClass = iota
	pFresh
	pUnknown
	pInput
)

func (c provClass) String() string {
	return [...]string{"none", "fresh", "unknown", "input"}[c]
}

func pJoin(a, b provClass) provClass {
	if a > b {
		return a
	}
	return b
}

// pv: class of the backing array of a slice, and of the elements of a slice of slices
type pv struct{ self, elem provClass }

func (a pv) join(b pv) pv { return pv{pJoin(a.self, b.self), pJoin(a.elem, b.elem)} }

type provSummary struct {
	sinks, retained provClass
	writesInput     bool
	ext             []string // external callees that receive an INPUT slice
	err             string
}

func (s provSummary) tokens() (string, string, string) {
	if s.err != "" {
		return "sinks=error:" + s.err, "retained=error", "writes_input=error"
	}
	sk := s.sinks
	if sk == pNone {
		sk = pFresh // nothing at all flows into the result
	}
	w := "f"
	if s.writesInput {
		w = "t"
	}
	return "sinks=" + sk.String(), "retained=" + s.retained.String(), "writes_input=" + w
}

// ---------------------------------------------------------------------------------------------
// loading: the package in dir and, on demand, the packages of the same module it imports

type provWorld struct {
	fset    *token.FileSet
	root    string // module directory
	modPath string
	info    *types.Info
	pkgs    map[string]*types.Package
	decls   map[*types.Func]*ast.FuncDecl
	files   map[*types.Package][]*ast.File
	err     string
}

func (w *provWorld) Import(path string) (*types.Package, error) {
	if p, ok := w.pkgs[path]; ok {
		return p, nil
	}
	if path == w.modPath || strings.HasPrefix(path, w.modPath+"/") {
		return w.load(path), nil
	}
	// outside the module: an empty package; every use of it is an (ignored) type error and the
	// expressions involved have no type, which the analysis reads as UNKNOWN
	p := types.NewPackage(path, path[strings.LastIndex(path, "/")+1:])
	p.MarkComplete()
	w.pkgs[path] = p
	return p, nil
}

func (w *provWorld) load(path string) *types.Package {
	dir := filepath.Join(w.root, strings.TrimPrefix(strings.TrimPrefix(path, w.modPath), "/"))
	names, _ := filepath.Glob(filepath.Join(dir, "*.go"))
	sort.Strings(names)
	var files []*ast.File
	for _, n := range names {
		if strings.HasSuffix(n, "_test.go") {
			continue
		}
		f, err := parser.ParseFile(w.fset, n, nil, parser.SkipObjectResolution)
		if err != nil {
			w.err = "parse-error:" + filepath.Base(n)
			continue
		}
		files = append(files, f)
	}
	if len(files) == 0 && w.err == "" {
		w.err = "no-sources:" + path
	}
	conf := types.Config{Importer: w, Error: func(error) {}, DisableUnusedImportCheck: true}
	w.pkgs[path] = types.NewPackage(path, "") // guards against import cycles
	pkg, _ := conf.Check(path, w.fset, files, w.info)
	w.pkgs[path] = pkg
	w.files[pkg] = files
	for _, f := range files {
		for _, d := range f.Decls {
			if fd, ok := d.(*ast.FuncDecl); ok && fd.Body != nil {
				if fn, ok := w.info.Defs[fd.Name].(*types.Func); ok {
					w.decls[fn] = fd
				}
			}
		}
	}
	return pkg
}

func provModulePath(root string) string {
	b, err := os.ReadFile(filepath.Join(root, "go.mod"))
	if err != nil {
		return ""
	}
	for _, l := range strings.Split(string(b), "\n") {
		if f := strings.Fields(l); len(f) == 2 && f[0] == "module" {
			return f[1]
		}
	}
	return ""
}

func newProvWorld(root string) *provWorld {
	w := &provWorld{fset: token.NewFileSet(), root: root, modPath: provModulePath(root),
		pkgs: map[string]*types.Package{}, decls: map[*types.Func]*ast.FuncDecl{},
		files: map[*types.Package][]*ast.File{},
		info: &types.Info{Types: map[ast.Expr]types.TypeAndValue{}, Defs: map[*ast.Ident]types.Object{},
			Uses: map[*ast.Ident]types.Object{}, Selections: map[*ast.SelectorExpr]*types.Selection{}}}
	if w.modPath == "" {
		w.err = "no-go.mod"
	}
	return w
}

// ---------------------------------------------------------------------------------------------
// the analysis of one (type, method)

type provFn struct { // a function being analysed: a declaration or a func literal
	typ     *ast.FuncType
	body    *ast.BlockStmt
	results []types.Object // named results (nil entries when unnamed)
	rets    []pv
}

type provAn struct {
	w        *provWorld
	tname    *types.TypeName // T
	vars     map[types.Object]pv
	fields   map[*types.Var]pv
	funcVals map[types.Object]map[*ast.FuncLit]bool // closures a variable / parameter may hold
	fns      map[ast.Node]*provFn                   // *ast.FuncDecl | *ast.FuncLit
	reached  []*ast.FuncDecl
	isReach  map[*ast.FuncDecl]bool
	retained provClass
	writes   bool
	ext      map[string]bool
	dom      map[ast.Node]ast.Expr // store site -> the assignment that reaches it in a straight line
	changed  bool
}

func isByteSlice(t types.Type) bool {
	if t == nil {
		return false
	}
	s, ok := t.Underlying().(*types.Slice)
	if !ok {
		return false
	}
	b, ok := s.Elem().Underlying().(*types.Basic)
	return ok && b.Kind() == types.Uint8
}

func isByteSliceSlice(t types.Type) bool {
	if t == nil {
		return false
	}
	s, ok := t.Underlying().(*types.Slice)
	return ok && isByteSlice(s.Elem())
}

// a type whose values cannot view a buffer: the class of such an expression is NONE
func isScalar(t types.Type) bool {
	if t == nil {
		return false
	}
	switch u := t.Underlying().(type) {
	case *types.Basic:
		return u.Kind() != types.Invalid && u.Kind() != types.String && u.Kind() != types.UnsafePointer
	}
	return false
}

func (a *provAn) fn(node ast.Node) *provFn {
	if f, ok := a.fns[node]; ok {
		return f
	}
	f := &provFn{}
	switch n := node.(type) {
	case *ast.FuncDecl:
		f.typ, f.body = n.Type, n.Body
	case *ast.FuncLit:
		f.typ, f.body = n.Type, n.Body
	}
	if f.typ.Results != nil {
		for _, fl := range f.typ.Results.List {
			if len(fl.Names) == 0 {
				f.results = append(f.results, nil)
			}
			for _, id := range fl.Names {
				obj := a.w.info.Defs[id]
				f.results = append(f.results, obj)
				if obj != nil {
					a.setVar(obj, pv{pFresh, pNone}) // zero value: a nil slice
				}
			}
		}
	}
	f.rets = make([]pv, len(f.results))
	a.fns[node] = f
	if f.body != nil {
		a.domDefs(node, f.body)
	}
	return f
}

// the local variable a store destination x, x[a:b] is based on
func (a *provAn) storeBase(e ast.Expr) types.Object {
	for {
		switch x := ast.Unparen(e).(type) {
		case *ast.SliceExpr:
			e = x.X
			continue
		case *ast.Ident:
			if v, ok := a.obj(x).(*types.Var); ok && !v.IsField() {
				return v
			}
		}
		return nil
	}
}

// assigned identifiers of a statement (not entering func literals unless lits is set)
func (a *provAn) assignedIn(n ast.Node, lits bool, f func(types.Object)) {
	ast.Inspect(n, func(m ast.Node) bool {
		switch s := m.(type) {
		case *ast.FuncLit:
			return lits
		case *ast.AssignStmt:
			for _, l := range s.Lhs {
				if id, ok := ast.Unparen(l).(*ast.Ident); ok {
					f(a.obj(id))
				}
			}
		case *ast.IncDecStmt:
			if id, ok := ast.Unparen(s.X).(*ast.Ident); ok {
				f(a.obj(id))
			}
		case *ast.RangeStmt:
			for _, l := range []ast.Expr{s.Key, s.Value} {
				if id, ok := l.(*ast.Ident); ok {
					f(a.obj(id))
				}
			}
		case *ast.ValueSpec:
			for _, id := range s.Names {
				f(a.obj(id))
			}
		}
		return true
	})
}

// domDefs records, for every store site of the function, the straight-line reaching definition
// of the variable the destination is based on (see the header comment).
func (a *provAn) domDefs(fn ast.Node, body *ast.BlockStmt) {
	noRefine := map[types.Object]bool{}
	ast.Inspect(body, func(n ast.Node) bool {
		if l, ok := n.(*ast.FuncLit); ok {
			a.assignedIn(l.Body, true, func(o types.Object) { noRefine[o] = true })
			return false
		}
		return true
	})
	local := func(o types.Object) bool {
		return o != nil && !noRefine[o] && fn.Pos() <= o.Pos() && o.Pos() < fn.End()
	}
	visit := func(list []ast.Stmt) {
		last := map[types.Object]ast.Expr{}
		for _, st := range list {
			simple := false
			switch st.(type) {
			case *ast.ExprStmt, *ast.AssignStmt, *ast.IncDecStmt, *ast.DeclStmt:
				simple = true
			}
			if simple {
				site := func(n ast.Node, dst ast.Expr) {
					if o := a.storeBase(dst); o != nil && last[o] != nil {
						a.dom[n] = last[o]
					}
				}
				ast.Inspect(st, func(n ast.Node) bool {
					switch s := n.(type) {
					case *ast.FuncLit:
						return false
					case *ast.CallExpr:
						if id, ok := ast.Unparen(s.Fun).(*ast.Ident); ok && id.Name == "copy" && len(s.Args) == 2 {
							site(s, s.Args[0])
						}
					case *ast.AssignStmt:
						for _, l := range s.Lhs {
							if ix, ok := ast.Unparen(l).(*ast.IndexExpr); ok {
								site(ix, ix.X)
							}
						}
					case *ast.IncDecStmt:
						if ix, ok := ast.Unparen(s.X).(*ast.IndexExpr); ok {
							site(ix, ix.X)
						}
					}
					return true
				})
			}
			a.assignedIn(st, false, func(o types.Object) { delete(last, o) })
			switch s := st.(type) {
			case *ast.AssignStmt:
				if (s.Tok == token.ASSIGN || s.Tok == token.DEFINE) && len(s.Lhs) == len(s.Rhs) {
					for i, l := range s.Lhs {
						if id, ok := ast.Unparen(l).(*ast.Ident); ok && local(a.obj(id)) {
							last[a.obj(id)] = s.Rhs[i]
						}
					}
				}
			case *ast.DeclStmt:
				if gd, ok := s.Decl.(*ast.GenDecl); ok {
					for _, sp := range gd.Specs {
						if vs, ok := sp.(*ast.ValueSpec); ok && len(vs.Values) == len(vs.Names) {
							for i, id := range vs.Names {
								if local(a.obj(id)) {
									last[a.obj(id)] = vs.Values[i]
								}
							}
						}
					}
				}
			}
		}
	}
	ast.Inspect(body, func(n ast.Node) bool {
		switch b := n.(type) {
		case *ast.FuncLit:
			return false
		case *ast.BlockStmt:
			visit(b.List)
		case *ast.CaseClause:
			visit(b.Body)
		case *ast.CommClause:
			visit(b.Body)
		}
		return true
	})
}

// the class of the array a store at `site` through dst writes into
func (a *provAn) destClass(site ast.Node, dst ast.Expr) provClass {
	if def := a.dom[site]; def != nil {
		return a.eval(def).self
	}
	return a.eval(dst).self
}

func (a *provAn) params(t *ast.FuncType) []types.Object {
	var out []types.Object
	for _, fl := range t.Params.List {
		if len(fl.Names) == 0 {
			out = append(out, nil)
		}
		for _, id := range fl.Names {
			out = append(out, a.w.info.Defs[id])
		}
	}
	return out
}

func (a *provAn) setVar(obj types.Object, v pv) {
	if obj == nil {
		return
	}
	if n := a.vars[obj].join(v); n != a.vars[obj] {
		a.vars[obj] = n
		a.changed = true
	}
}

func (a *provAn) setField(f *types.Var, v pv) {
	if n := a.fieldVal(f).join(v); n != a.fields[f] {
		a.fields[f] = n
		a.changed = true
	}
}

func (a *provAn) fieldVal(f *types.Var) pv {
	if v, ok := a.fields[f]; ok {
		return v
	}
	if f.Exported() {
		return pv{pUnknown, pUnknown} // the caller may have stored anything
	}
	return pv{pFresh, pNone} // zero value
}

func (a *provAn) addFuncVal(obj types.Object, lit *ast.FuncLit) {
	if obj == nil {
		return
	}
	if a.funcVals[obj] == nil {
		a.funcVals[obj] = map[*ast.FuncLit]bool{}
	}
	if !a.funcVals[obj][lit] {
		a.funcVals[obj][lit] = true
		a.changed = true
	}
}

func (a *provAn) reach(fd *ast.FuncDecl) {
	if !a.isReach[fd] {
		a.isReach[fd] = true
		a.reached = append(a.reached, fd)
		a.changed = true
	}
}

func (a *provAn) obj(id *ast.Ident) types.Object {
	if o := a.w.info.Defs[id]; o != nil {
		return o
	}
	return a.w.info.Uses[id]
}

// the closures an expression may denote
func (a *provAn) litsOf(e ast.Expr) []*ast.FuncLit {
	switch x := ast.Unparen(e).(type) {
	case *ast.FuncLit:
		return []*ast.FuncLit{x}
	case *ast.Ident:
		var out []*ast.FuncLit
		for l := range a.funcVals[a.obj(x)] {
			out = append(out, l)
		}
		return out
	}
	return nil
}

// bind the arguments of a call to the parameters of fn; closures are passed on
func (a *provAn) bind(t *ast.FuncType, args []ast.Expr) {
	ps := a.params(t)
	for i, arg := range args {
		k := i
		if k >= len(ps) { // variadic
			k = len(ps) - 1
		}
		if k < 0 || ps[k] == nil {
			a.eval(arg)
			continue
		}
		a.setVar(ps[k], a.eval(arg))
		for _, l := range a.litsOf(arg) {
			a.addFuncVal(ps[k], l)
		}
	}
}

// results of a call, one pv per result
func (a *provAn) call(c *ast.CallExpr) []pv {
	info := a.w.info
	fun := ast.Unparen(c.Fun)
	// conversion
	if tv, ok := info.Types[fun]; ok && tv.IsType() {
		if len(c.Args) == 1 {
			v := a.eval(c.Args[0])
			if _, isSlice := tv.Type.Underlying().(*types.Slice); isSlice {
				if at := info.TypeOf(c.Args[0]); at != nil {
					if _, ok := at.Underlying().(*types.Slice); ok {
						return []pv{v} // []byte(x) of a slice: the same array
					}
				}
				return []pv{{pFresh, pNone}} // []byte(string): a copy
			}
			if isScalar(tv.Type) {
				return []pv{{}}
			}
			return []pv{v}
		}
		return []pv{{}}
	}
	if id, ok := fun.(*ast.Ident); ok {
		if _, isBuiltin := info.Uses[id].(*types.Builtin); isBuiltin || info.Uses[id] == nil && isBuiltinName(id.Name) {
			return []pv{a.builtin(id.Name, c)}
		}
	}
	// a function or method of the module
	var callee *types.Func
	switch f := fun.(type) {
	case *ast.Ident:
		callee, _ = info.Uses[f].(*types.Func)
	case *ast.SelectorExpr:
		if sel := info.Selections[f]; sel != nil {
			callee, _ = sel.Obj().(*types.Func)
			a.eval(f.X)
		} else {
			callee, _ = info.Uses[f.Sel].(*types.Func) // pkg.Func
		}
	}
	if callee != nil {
		if fd := a.w.decls[callee]; fd != nil {
			a.reach(fd)
			a.bind(fd.Type, c.Args)
			return a.fn(fd).rets
		}
	}
	// a closure held by a variable or parameter
	if id, ok := fun.(*ast.Ident); ok {
		if lits := a.funcVals[a.obj(id)]; len(lits) > 0 {
			var out []pv
			for l := range lits {
				a.bind(l.Type, c.Args)
				for i, r := range a.fn(l).rets {
					if i >= len(out) {
						out = append(out, pv{})
					}
					out[i] = out[i].join(r)
				}
			}
			return out
		}
	}
	if l, ok := fun.(*ast.FuncLit); ok { // func(){…}()
		a.bind(l.Type, c.Args)
		return a.fn(l).rets
	}
	// standard-library functions whose slice semantics are part of their documented contract
	switch name := provCalleeName(fun); provStdKind(name) {
	case provStdAppend: // like append(arg0, …): the result views arg0's array (or a fresh one)
		if len(c.Args) > 0 {
			v := a.eval(c.Args[0])
			for _, arg := range c.Args[1:] {
				a.eval(arg)
			}
			if v.self == pNone {
				v.self = pFresh
			}
			return []pv{v}
		}
	case provStdFresh: // always a newly allocated copy
		for _, arg := range c.Args {
			a.eval(arg)
		}
		return []pv{{pFresh, pNone}}
	case provStdSub: // a sub-slice of arg0
		if len(c.Args) > 0 {
			v := a.eval(c.Args[0])
			for _, arg := range c.Args[1:] {
				a.eval(arg)
			}
			return []pv{v}
		}
	}
	// external: arguments are evaluated (and assumed to be only read), the result is UNKNOWN
	// unless its type says it cannot view a buffer
	for _, arg := range c.Args {
		if a.eval(arg).self == pInput {
			a.ext[provCalleeName(fun)] = true
		}
	}
	if t := info.TypeOf(c); t != nil {
		if tup, ok := t.(*types.Tuple); ok {
			out := make([]pv, tup.Len())
			for i := range out {
				if !isScalar(tup.At(i).Type()) {
					out[i] = pv{pUnknown, pUnknown}
				}
			}
			return out
		}
		if isScalar(t) {
			return []pv{{}}
		}
	}
	return []pv{{pUnknown, pUnknown}, {pUnknown, pUnknown}, {pUnknown, pUnknown}, {pUnknown, pUnknown}}
}

const (
	provStdOther = iota
	provStdAppend
	provStdFresh
	provStdSub
)

// provStdKind classifies the few standard-library functions whose result is, by their documented
// contract, arg0 extended in place (Append*), a fresh copy (Clone, Join, Repeat, Concat) or a
// sub-slice of arg0 (Trim*).  Everything else outside the module stays UNKNOWN.
func provStdKind(name string) int {
	pkg, fn := name, ""
	if k := strings.LastIndex(name, "."); k >= 0 {
		pkg, fn = name[:k], name[k+1:]
	}
	switch {
	case strings.HasPrefix(fn, "Append") && (strings.HasPrefix(pkg, "binary") || pkg == "strconv" || pkg == "fmt" || pkg == "utf8"):
		return provStdAppend
	case (pkg == "bytes" || pkg == "slices") && (fn == "Clone" || fn == "Join" || fn == "Repeat" || fn == "Concat"):
		return provStdFresh
	case pkg == "bytes" && strings.HasPrefix(fn, "Trim"):
		return provStdSub
	}
	return provStdOther
}

func isBuiltinName(n string) bool {
	switch n {
	case "make", "new", "len", "cap", "copy", "append", "panic", "min", "max", "delete", "clear":
		return true
	}
	return false
}

func provCalleeName(e ast.Expr) string {
	switch f := e.(type) {
	case *ast.Ident:
		return f.Name
	case *ast.SelectorExpr:
		return provCalleeName(f.X) + "." + f.Sel.Name
	}
	return "?"
}

func (a *provAn) builtin(name string, c *ast.CallExpr) pv {
	switch name {
	case "make":
		return pv{pFresh, pNone}
	case "append":
		if len(c.Args) == 0 {
			return pv{}
		}
		base := a.eval(c.Args[0])
		if base.self == pNone {
			base.self = pFresh
		}
		for i, arg := range c.Args[1:] {
			v := a.eval(arg)
			if c.Ellipsis.IsValid() && i == len(c.Args)-2 {
				base.elem = pJoin(base.elem, v.elem) // the elements of b are copied into a
			} else {
				base.elem = pJoin(base.elem, v.self) // the slice header x itself becomes an element
			}
		}
		return base
	case "copy":
		if len(c.Args) == 2 {
			a.eval(c.Args[0])
			if a.destClass(c, c.Args[0]) == pInput {
				a.writes = true
			}
			a.eval(c.Args[1])
		}
		return pv{}
	default:
		for _, arg := range c.Args {
			a.eval(arg)
		}
		return pv{}
	}
}

func (a *provAn) eval(e ast.Expr) pv {
	info := a.w.info
	switch x := e.(type) {
	case *ast.ParenExpr:
		return a.eval(x.X)
	case *ast.Ident:
		if x.Name == "nil" {
			return pv{pFresh, pNone}
		}
		switch o := a.obj(x).(type) {
		case *types.Var:
			if o.Parent() != nil && o.Parent() == o.Pkg().Scope() {
				if isScalar(o.Type()) {
					return pv{}
				}
				return pv{pUnknown, pUnknown} // a package-level variable: shared by everybody
			}
			return a.vars[o]
		}
		return pv{}
	case *ast.SliceExpr:
		return a.eval(x.X)
	case *ast.IndexExpr:
		v := a.eval(x.X)
		a.eval(x.Index)
		return pv{v.elem, pNone}
	case *ast.StarExpr:
		return a.eval(x.X)
	case *ast.UnaryExpr:
		return a.eval(x.X)
	case *ast.BinaryExpr:
		a.eval(x.X)
		a.eval(x.Y)
		return pv{}
	case *ast.TypeAssertExpr:
		return a.eval(x.X)
	case *ast.SelectorExpr:
		if sel := info.Selections[x]; sel != nil && sel.Kind() == types.FieldVal {
			a.eval(x.X)
			if isScalar(sel.Type()) {
				return pv{}
			}
			return a.fieldVal(sel.Obj().(*types.Var))
		}
		if t := info.TypeOf(x); isScalar(t) {
			return pv{}
		}
		if _, isConst := info.Uses[x.Sel].(*types.Const); isConst {
			return pv{}
		}
		return pv{pUnknown, pUnknown}
	case *ast.CompositeLit:
		out := pv{pFresh, pNone}
		st, isStruct := types.Type(nil), false
		if t := info.TypeOf(x); t != nil {
			st = t
			_, isStruct = t.Underlying().(*types.Struct)
		}
		for _, el := range x.Elts {
			if kv, ok := el.(*ast.KeyValueExpr); ok {
				v := a.eval(kv.Value)
				if id, ok := kv.Key.(*ast.Ident); ok && isStruct {
					if f, ok := info.Uses[id].(*types.Var); ok && f.IsField() {
						a.storeField(f, st, v)
						continue
					}
				}
				out.elem = pJoin(out.elem, v.self)
				continue
			}
			out.elem = pJoin(out.elem, a.eval(el).self)
		}
		if isStruct {
			return pv{}
		}
		return out
	case *ast.CallExpr:
		if r := a.call(x); len(r) > 0 {
			return r[0]
		}
		return pv{}
	case *ast.FuncLit:
		a.walkFn(x)
		return pv{}
	}
	return pv{}
}

// assignment of v to a field f of a value of type owner
func (a *provAn) storeField(f *types.Var, owner types.Type, v pv) {
	if !isByteSlice(f.Type()) && !isByteSliceSlice(f.Type()) {
		return
	}
	a.setField(f, v)
	if a.ownerIsT(owner) {
		r := pJoin(v.self, v.elem)
		if r == pNone {
			r = pFresh
		}
		if n := pJoin(a.retained, r); n != a.retained {
			a.retained = n
			a.changed = true
		}
	}
}

func (a *provAn) ownerIsT(t types.Type) bool {
	if t == nil {
		return false
	}
	if p, ok := t.Underlying().(*types.Pointer); ok {
		t = p.Elem()
	}
	if p, ok := t.(*types.Pointer); ok {
		t = p.Elem()
	}
	n, ok := t.(*types.Named)
	return ok && n.Obj() == a.tname
}

// the variable or field a store x[i]… = v finally lands in
func (a *provAn) storeElem(x ast.Expr, v pv) {
	switch b := ast.Unparen(x).(type) {
	case *ast.Ident:
		if o, ok := a.obj(b).(*types.Var); ok {
			a.setVar(o, pv{pNone, v.self})
		}
	case *ast.SelectorExpr:
		if sel := a.w.info.Selections[b]; sel != nil && sel.Kind() == types.FieldVal {
			a.storeField(sel.Obj().(*types.Var), sel.Recv(), pv{pNone, v.self})
		}
	case *ast.SliceExpr:
		a.storeElem(b.X, v)
	case *ast.IndexExpr: // x[i][j] = v with x [][][]byte: not tracked more finely
		a.storeElem(b.X, v)
	}
}

func (a *provAn) assign(lhs ast.Expr, v pv, rhs ast.Expr) {
	switch l := ast.Unparen(lhs).(type) {
	case *ast.Ident:
		if l.Name == "_" {
			return
		}
		o := a.obj(l)
		a.setVar(o, v)
		if rhs != nil {
			for _, lit := range a.litsOf(rhs) {
				a.addFuncVal(o, lit)
			}
		}
	case *ast.SelectorExpr:
		if sel := a.w.info.Selections[l]; sel != nil && sel.Kind() == types.FieldVal {
			a.storeField(sel.Obj().(*types.Var), sel.Recv(), v)
		}
	case *ast.IndexExpr:
		a.store(l, v)
	case *ast.StarExpr:
		a.assign(l.X, v, rhs)
	}
}

// x[i] = v (also op= and ++): an element of a slice of slices, or a byte written through x
func (a *provAn) store(l *ast.IndexExpr, v pv) {
	a.eval(l.Index)
	if t := a.w.info.TypeOf(l); t != nil {
		if _, ok := t.Underlying().(*types.Slice); ok {
			a.storeElem(l.X, v)
			return
		}
	}
	a.eval(l.X)
	if a.destClass(l, l.X) == pInput {
		a.writes = true
	}
}

func (a *provAn) walkFn(node ast.Node) {
	f := a.fn(node)
	if f.body == nil {
		return
	}
	setRet := func(i int, v pv) {
		if i < len(f.rets) {
			if n := f.rets[i].join(v); n != f.rets[i] {
				f.rets[i] = n
				a.changed = true
			}
		}
	}
	ast.Inspect(f.body, func(n ast.Node) bool {
		switch s := n.(type) {
		case *ast.FuncLit:
			a.walkFn(s)
			return false
		case *ast.AssignStmt:
			if len(s.Rhs) == len(s.Lhs) {
				for i := range s.Lhs {
					a.assign(s.Lhs[i], a.eval(s.Rhs[i]), s.Rhs[i])
				}
			} else if len(s.Rhs) == 1 {
				var rs []pv
				if c, ok := ast.Unparen(s.Rhs[0]).(*ast.CallExpr); ok {
					rs = a.call(c)
				} else {
					rs = []pv{a.eval(s.Rhs[0])} // v, ok := x.(T) / m[k] / <-ch
				}
				for i := range s.Lhs {
					v := pv{}
					if i < len(rs) {
						v = rs[i]
					}
					a.assign(s.Lhs[i], v, nil)
				}
			}
			return false
		case *ast.IncDecStmt:
			if ix, ok := ast.Unparen(s.X).(*ast.IndexExpr); ok {
				a.store(ix, pv{})
			}
			return false
		case *ast.ValueSpec:
			for i, id := range s.Names {
				switch {
				case i < len(s.Values):
					a.assign(id, a.eval(s.Values[i]), s.Values[i])
				case len(s.Values) == 0:
					a.setVar(a.obj(id), pv{pFresh, pNone}) // zero value
				}
			}
			return false
		case *ast.RangeStmt:
			v := a.eval(s.X)
			if s.Value != nil {
				a.assign(s.Value, pv{v.elem, pNone}, nil)
			}
			return true
		case *ast.ReturnStmt:
			switch {
			case len(s.Results) == 0:
				for i, o := range f.results {
					if o != nil {
						setRet(i, a.vars[o])
					}
				}
			case len(s.Results) == len(f.rets):
				for i, r := range s.Results {
					setRet(i, a.eval(r))
				}
			case len(s.Results) == 1:
				if c, ok := ast.Unparen(s.Results[0]).(*ast.CallExpr); ok {
					for i, v := range a.call(c) {
						setRet(i, v)
					}
				}
			}
			return false
		case *ast.CallExpr:
			a.call(s)
			return false
		case *ast.CompositeLit:
			a.eval(s)
			return false
		}
		return true
	})
}

// extractProv analyses method `method` of type `tname` of package <root>/<pkgDir>.
func extractProv(root, pkgDir, tname, method string) provSummary {
	w := newProvWorld(root)
	if w.err != "" {
		return provSummary{err: w.err}
	}
	pkg := w.load(w.modPath + "/" + pkgDir)
	if w.err != "" {
		return provSummary{err: w.err}
	}
	tn, _ := pkg.Scope().Lookup(tname).(*types.TypeName)
	if tn == nil {
		return provSummary{err: "type-not-found"}
	}
	var rootFd *ast.FuncDecl
	for fn, fd := range w.decls {
		if fn.Name() != method || fd.Recv == nil {
			continue
		}
		if sig, ok := fn.Type().(*types.Signature); ok && sig.Recv() != nil {
			a := &provAn{tname: tn}
			if a.ownerIsT(sig.Recv().Type()) {
				rootFd = fd
			}
		}
	}
	if rootFd == nil {
		return provSummary{err: "method-not-found"}
	}
	a := &provAn{w: w, tname: tn, vars: map[types.Object]pv{}, fields: map[*types.Var]pv{},
		funcVals: map[types.Object]map[*ast.FuncLit]bool{}, fns: map[ast.Node]*provFn{},
		isReach: map[*ast.FuncDecl]bool{}, ext: map[string]bool{}, dom: map[ast.Node]ast.Expr{}}
	// the []byte parameters of the method are the INPUT
	nIn := 0
	for _, p := range a.params(rootFd.Type) {
		if p != nil && isByteSlice(p.Type()) {
			a.vars[p] = pv{pInput, pNone}
			nIn++
		}
	}
	if nIn == 0 {
		return provSummary{err: "no-input-parameter"}
	}
	a.reach(rootFd)
	fixpoint := func() bool {
		for round := 0; round < 200; round++ {
			a.changed = false
			for i := 0; i < len(a.reached); i++ {
				a.walkFn(a.reached[i])
			}
			if !a.changed {
				return true
			}
		}
		return false
	}
	if !fixpoint() {
		return provSummary{err: "no-fixpoint"}
	}
	// a tracked field of T that is also assigned in a function the method does not reach may hold
	// anything when the method runs
	again := false
	for fn, fd := range w.decls {
		if a.isReach[fd] || fn.Pkg() != pkg {
			continue
		}
		ast.Inspect(fd.Body, func(n ast.Node) bool {
			as, ok := n.(*ast.AssignStmt)
			if !ok {
				return true
			}
			for _, l := range as.Lhs {
				for {
					if ix, ok := ast.Unparen(l).(*ast.IndexExpr); ok {
						l = ix.X
						continue
					}
					break
				}
				if se, ok := ast.Unparen(l).(*ast.SelectorExpr); ok {
					if sel := w.info.Selections[se]; sel != nil && sel.Kind() == types.FieldVal && a.ownerIsT(sel.Recv()) {
						f := sel.Obj().(*types.Var)
						if (isByteSlice(f.Type()) || isByteSliceSlice(f.Type())) && a.fieldVal(f).self != pUnknown {
							a.setField(f, pv{pUnknown, pUnknown})
							again = true
						}
					}
				}
			}
			return true
		})
	}
	if again && !fixpoint() {
		return provSummary{err: "no-fixpoint"}
	}
	s := provSummary{retained: a.retained, writesInput: a.writes}
	rets := a.fn(rootFd).rets
	sig := w.info.Defs[rootFd.Name].(*types.Func).Type().(*types.Signature)
	if len(rets) == 0 || sig.Results().Len() == 0 {
		return provSummary{err: "no-result"}
	}
	switch rt := sig.Results().At(0).Type(); {
	case isByteSliceSlice(rt):
		s.sinks = rets[0].elem
	case isByteSlice(rt):
		s.sinks = rets[0].self
	default:
		return provSummary{err: "result-type"}
	}
	for k := range a.ext {
		s.ext = append(s.ext, k)
	}
	sort.Strings(s.ext)
	return s
}

// the types of kind c08.prov (method Payload) and c09.prov (method Unmarshal)
var provC08Types = []string{"G711Payloader", "G722Payloader", "OpusPayloader", "VP8Payloader", "VP9Payloader",
	"AV1Payloader", "H264Payloader", "H265Payloader"}
var provC09Types = []string{"H264Packet", "AV1Depacketizer"}

func genProv(types []string, method string) func(x *Ctx) {
	return func(x *Ctx) {
		for _, t := range types {
			t := t
			x.Case(func(c *Case) {
				s := extractProv(pktzRepoDir(), "codecs", t, method)
				c.I.Tok(t).Tok(method)
				for _, e := range s.ext {
					c.Tag("input-passed-to:" + e)
				}
				a, b, d := s.tokens()
				c.O.Tok(a).Tok(b).Tok(d)
			})
		}
	}
}

func init() {
	register("c08.prov", "C08", genProv(provC08Types, "Payload"))
	register("c09.prov", "C09", genProv(provC09Types, "Unmarshal"))
}
