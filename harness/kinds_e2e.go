package main

// Group e2e (registered under C06): the END-TO-END pipeline on the real code.
//
//   frames ─ rtp.NewPacketizer(real payloader, fixed sequencer, injected clock).Packetize ─▶ []*rtp.Packet
//          ─ Packet.Marshal ─▶ datagrams ─ (&rtp.Packet{}).Unmarshal ─▶ Payload ─ real depacketizer.Unmarshal ─▶ bytes
//
// The Lean side (lean/Driver/Kinds/E2E.lean) recomputes every datagram, every parsed header and every
// depacketizer result with lean/Rtp/Model/Pipeline.lean and evaluates the pipeline predicate of
// lean/Rtp/Pred/Pipeline.lean (datagram ≤ MTU, parses, consecutive sequence numbers, marker on the
// last packet only, timestamp / payload type / SSRC, reassembled == frame) on what the real code did.
// Token formats: header of lean/Driver/Kinds/E2E.lean.

import (
	"github.com/pion/rtp"
	"github.com/pion/rtp/codecs"
)

type e2eCfg struct {
	mtu, pt   int
	ssrc, ts0 uint32
	seq0, abs int
}

func (g e2eCfg) overhead() int {
	if g.abs != 0 {
		return 20
	}
	return 12
}

// budget the payloader will be handed when the MTU leaves room for the header (else a stand-in
// used only to size the generated frames)
func (g e2eCfg) budget() int {
	b := g.mtu - g.overhead()
	if b < 1 {
		return 50
	}
	return b
}

type e2eFrame struct {
	payload []byte
	samples uint32
	now     int64
	extra   func(t *Toks) // codec-specific description of the frame, written before the payload
}

// e2eGenCfg draws a packetizer configuration.  `need` = the payload bytes the codec's theorem needs
// per packet (the MTU bound of the theorem is overhead + need): MTUs right at that bound and one
// below / above it are frequent.
func e2eGenCfg(r *Rand, need int) e2eCfg {
	g := e2eCfg{pt: r.Intn(128), ssrc: uint32(r.U64()), ts0: uint32(r.U64()), seq0: r.Pick(0, 1, 65530, 65535, r.Intn(65536), r.Intn(65536))}
	if r.Chance(1, 40) {
		g.pt = 128 + r.Intn(128) // not a 7-bit payload type: outside the hypotheses (correspondence only)
	}
	if r.Chance(1, 8) {
		g.ssrc = uint32(r.Pick(0, 1, 0xFFFFFFFF))
	}
	if r.Chance(1, 3) {
		g.ts0 = uint32(0xFFFFFFFF - r.Intn(5000))
	}
	if r.Bool() {
		g.abs = r.Pick(1, 14, r.Range(1, 14), r.Range(1, 14))
	}
	lo := g.overhead() + need
	switch r.Intn(12) {
	case 0, 1, 2:
		g.mtu = lo + r.Pick(0, 0, 1, 2, 3)
	case 3:
		g.mtu = lo - 1 // one below the bound: outside the hypotheses
	case 4:
		g.mtu = r.Pick(0, 1, 11, 12, 13, 19, 20, 21) // header does not fit / uint16 wrap of MTU-12
	case 5, 6:
		g.mtu = r.Range(lo, lo+40)
	case 7:
		g.mtu = r.Pick(64, 65, 100, 200, 255, 256, 257)
	case 8, 9:
		g.mtu = r.Pick(1200, 1500, 1400)
	case 10:
		g.mtu = r.Range(lo, 2000)
	default:
		g.mtu = r.Pick(r.Range(lo, 65535), 65535)
	}
	if g.mtu < 0 {
		g.mtu = 0
	}
	return g
}

func e2eMax(a, b int) int {
	if a > b {
		return a
	}
	return b
}

func e2eFrameLen(r *Rand, budget int) int {
	switch r.Intn(8) {
	case 0:
		return r.Range(1, 3)
	case 1, 2, 3:
		n := r.Range(1, 4)*budget + r.Pick(0, 0, -1, 1)
		if n > 20000 {
			n = budget + r.Pick(0, -1, 1)
		}
		if n > 66000 {
			n = 66000
		}
		if n < 1 {
			n = 1
		}
		return n
	default:
		n := r.Size(min(4*budget+10, 8000), budget, 2*budget, 1)
		if n < 1 {
			n = 1
		}
		return n
	}
}

// runE2E runs the history on the real code and writes input and observation tokens.
// Input:  <mtu> <pt> <ssrc> <ts0> <seq0> <absId> [codec options] <n> ([frame description] <payload> <samples> <now>)*
// Obs:    <n> (<k> <res bytes>* <k> <res hdr>* <k> <res bytes>*)*
func runE2E(c *Case, g e2eCfg, pay rtp.Payloader, dep func([]byte) ([]byte, error), opts func(t *Toks), frames []e2eFrame) {
	p := rtp.NewPacketizer(uint16(g.mtu), uint8(g.pt), g.ssrc, pay, rtp.NewFixedSequencer(uint16(g.seq0)), 90000)
	setPacketizerTimestamp(p, g.ts0)
	var now int64
	if !rtp.VerifSetPacketizerClock(p, pktzClockOf(&now)) {
		panic("not the package's packetizer")
	}
	if g.abs != 0 {
		p.EnableAbsSendTime(g.abs)
	}
	c.I.Nat(g.mtu).Nat(g.pt).U64(uint64(g.ssrc)).U64(uint64(g.ts0)).Nat(g.seq0).Nat(g.abs)
	if opts != nil {
		opts(&c.I)
	}
	c.I.Nat(len(frames))
	for _, f := range frames {
		if f.extra != nil {
			f.extra(&c.I)
		}
		c.I.Bytes(f.payload).U64(uint64(f.samples)).I64(f.now)
	}
	// phase 1: the whole history is packetized first (packets wait in a send queue): what an earlier
	// call returned must still be what it was when later calls have happened
	type sent struct {
		pkts     []*rtp.Packet
		panicked bool
	}
	all := make([]sent, len(frames))
	for i, f := range frames {
		now = f.now
		in := append([]byte{}, f.payload...)
		var pkts []*rtp.Packet
		all[i].panicked = try(func() { pkts = p.Packetize(in, f.samples) })
		all[i].pkts = pkts
		for j := range in {
			in[j] ^= 0xA5 // the caller reuses its frame buffer after Packetize returned
		}
	}
	// phase 2: serialise, phase 3: receive in order on one depacketizer
	type dgObs struct {
		raw      []byte
		err      bool
		panicked bool
	}
	type rxObs struct {
		hdrOK    bool
		hdrPanic bool
		q        *rtp.Packet
		out      []byte
		outErr   bool
		outPanic bool
	}
	dgs := make([][]dgObs, len(frames))
	rxs := make([][]rxObs, len(frames))
	tags := map[string]bool{}
	for i := range frames {
		if all[i].panicked {
			tags["packetize:panic"] = true
			continue
		}
		switch n := len(all[i].pkts); {
		case n == 0:
			tags["frame:no-packet"] = true
		case n == 1:
			tags["frame:1-packet"] = true
		default:
			tags["frame:n-packets"] = true
		}
		for _, pk := range all[i].pkts {
			var d dgObs
			d.panicked = try(func() {
				raw, err := pk.Marshal()
				d.raw, d.err = raw, err != nil
			})
			dgs[i] = append(dgs[i], d)
			if len(d.raw) == g.mtu && !d.err && !d.panicked {
				tags["datagram=mtu"] = true
			}
		}
	}
	for i := range frames {
		for _, d := range dgs[i] {
			if d.err || d.panicked {
				continue
			}
			var rx rxObs
			q := &rtp.Packet{}
			wire := append([]byte{}, d.raw...) // the receiver's own buffer
			rx.hdrPanic = try(func() { rx.hdrOK = q.Unmarshal(wire) == nil })
			rx.q = q
			if rx.hdrOK && !rx.hdrPanic {
				rx.outPanic = try(func() {
					out, err := dep(q.Payload)
					rx.out, rx.outErr = out, err != nil
				})
			}
			rxs[i] = append(rxs[i], rx)
		}
	}
	// phase 4: observations, written after everything has run
	c.O.Nat(len(frames))
	for i := range frames {
		if all[i].panicked {
			c.O.Nat(1).Panic().Nat(0).Nat(0)
			continue
		}
		c.O.Nat(len(dgs[i]))
		for _, d := range dgs[i] {
			switch {
			case d.panicked:
				c.O.Panic()
			case d.err:
				c.O.Err("other")
			default:
				c.O.Ok().Bytes(d.raw)
			}
		}
		c.O.Nat(len(rxs[i]))
		nout := 0
		for _, rx := range rxs[i] {
			switch {
			case rx.hdrPanic:
				c.O.Panic()
			case !rx.hdrOK:
				c.O.Err("other")
			default:
				nout++
				c.O.Ok().Nat(int(rx.q.SequenceNumber)).Bool(rx.q.Marker).U64(uint64(rx.q.Timestamp)).
					Nat(int(rx.q.PayloadType)).U64(uint64(rx.q.SSRC))
			}
		}
		c.O.Nat(nout)
		for _, rx := range rxs[i] {
			if rx.hdrPanic || !rx.hdrOK {
				continue
			}
			switch {
			case rx.outPanic:
				c.O.Panic()
			case rx.outErr:
				c.O.Err("other")
			default:
				c.O.Ok().Bytes(rx.out)
			}
		}
	}
	if g.abs != 0 {
		tags["abs-on"] = true
	}
	if g.pt >= 128 {
		tags["pt>=128"] = true
	}
	if g.mtu < g.overhead() {
		tags["mtu<header"] = true
	}
	for t := range tags {
		c.Tag(t)
	}
}

// e2eRawFrames draws 1–5 frames of raw bytes sized around multiples of the budget.
func e2eRawFrames(r *Rand, g e2eCfg, maxLen int) []e2eFrame {
	n := r.Pick(1, 1, 2, 3, r.Range(1, 5))
	fs := make([]e2eFrame, n)
	for i := range fs {
		ln := e2eFrameLen(r, g.budget())
		if maxLen > 0 && ln > maxLen {
			ln = maxLen
		}
		fs[i] = e2eFrame{payload: r.Bytes(ln), samples: pktzPickSamples(r), now: pktzClockValueIn(r)}
	}
	return fs
}

// e2eGrid: one or two frames that fill the last packet exactly / ±1, at MTUs at and around the
// theorem's bound, with and without abs-send-time, across the sequence number wrap.
func e2eGrid(x *Ctx, need int, run func(c *Case, g e2eCfg, lens []int)) {
	for _, abs := range []int{0, 1, 14} {
		over := 12
		if abs != 0 {
			over = 20
		}
		for _, mtu := range []int{over + need - 1, over + need, over + need + 1, over + need + 7, 64, 100, 1200} {
			for _, k := range []int{1, 2, 3} {
				for d := -1; d <= 1; d++ {
					abs, mtu, k, d := abs, mtu, k, d
					x.Case(func(c *Case) {
						g := e2eCfg{mtu: mtu, pt: 96 + c.R.Intn(32), ssrc: uint32(c.R.U64()), ts0: uint32(c.R.U64()),
							seq0: c.R.Pick(0, 65534, 65535, 7), abs: abs}
						b := g.budget()
						n := k*b + d
						if n < 1 {
							n = 1
						}
						c.Tag("grid")
						run(c, g, []int{n, c.R.Pick(1, b, b+1)})
					})
				}
			}
		}
	}
}

// ---- G.711 / G.722

func genE2EG711(x *Ctx) {
	run := func(c *Case, g e2eCfg, frames []e2eFrame) {
		var pay rtp.Payloader = &codecs.G711Payloader{}
		name := "g711"
		if c.R.Bool() {
			pay, name = &codecs.G722Payloader{}, "g722"
		}
		c.Tag(name)
		// no depacketizer type exists for G.711 / G.722: the RTP payload is the sample bytes
		runE2E(c, g, pay, func(p []byte) ([]byte, error) { return p, nil }, func(t *Toks) { t.Tok(name) }, frames)
	}
	e2eGrid(x, 1, func(c *Case, g e2eCfg, lens []int) {
		var fs []e2eFrame
		for _, n := range lens {
			fs = append(fs, e2eFrame{payload: c.R.Bytes(n), samples: uint32(n), now: pktzClockValueIn(c.R)})
		}
		run(c, g, fs)
	})
	for i, n := 0, x.N(2500, 100000); i < n; i++ {
		x.Case(func(c *Case) {
			g := e2eGenCfg(c.R, 1)
			run(c, g, e2eRawFrames(c.R, g, 0))
		})
	}
}

// ---- Opus

func genE2EOpus(x *Ctx) {
	run := func(c *Case, g e2eCfg, frames []e2eFrame) {
		dep := &codecs.OpusPacket{}
		fits := true
		for _, f := range frames {
			if len(f.payload)+g.overhead() > g.mtu {
				fits = false
			}
		}
		if !fits {
			c.Tag("frame>mtu (outside the hypotheses)")
		}
		runE2E(c, g, &codecs.OpusPayloader{}, dep.Unmarshal, nil, frames)
	}
	e2eGrid(x, 1, func(c *Case, g e2eCfg, lens []int) {
		// one packet per frame: sizes at the budget, one below, one above (the last: outside)
		b := g.budget()
		var fs []e2eFrame
		for _, n := range []int{lens[0]%b + 1, b - 1, b, b + c.R.Pick(0, 0, 0, 1)} {
			if n < 1 {
				n = 1
			}
			fs = append(fs, e2eFrame{payload: c.R.Bytes(n), samples: 960, now: pktzClockValueIn(c.R)})
		}
		run(c, g, fs)
	})
	for i, n := 0, x.N(2500, 100000); i < n; i++ {
		x.Case(func(c *Case) {
			g := e2eGenCfg(c.R, 1)
			maxLen := g.budget()
			if c.R.Chance(1, 8) {
				maxLen = 0 // frames larger than one packet now and then: outside the hypotheses
			}
			run(c, g, e2eRawFrames(c.R, g, maxLen))
		})
	}
}

// ---- VP8

func genE2EVP8(x *Ctx) {
	run := func(c *Case, g e2eCfg, enable bool, warm int, frames []e2eFrame) {
		pay := &codecs.VP8Payloader{EnablePictureID: enable}
		// the payloader has packetized `warm` frames before it is handed to the packetizer
		for i := 0; i < warm; i++ {
			pay.Payload(1200, []byte{byte(i)})
		}
		dep := &codecs.VP8Packet{}
		if enable {
			c.Tag("picture-id")
			if warm < 128 && warm+len(frames) > 128 {
				c.Tag("picture-id:7->15 bit")
			}
			if warm+len(frames) > 32768 {
				c.Tag("picture-id:wraps")
			}
		}
		runE2E(c, g, pay, dep.Unmarshal, func(t *Toks) { t.Bool(enable).Nat(warm) }, frames)
	}
	for _, enable := range []bool{false, true} {
		enable := enable
		need := 2
		if enable {
			need = 5
		}
		e2eGrid(x, need, func(c *Case, g e2eCfg, lens []int) {
			var fs []e2eFrame
			for _, n := range lens {
				fs = append(fs, e2eFrame{payload: c.R.Bytes(n), samples: 3000, now: pktzClockValueIn(c.R)})
			}
			warm := c.R.Pick(0, 126, 127, 128, 32766, 32767)
			if !enable {
				warm = c.R.Pick(0, 1)
			}
			run(c, g, enable, warm, fs)
		})
	}
	for i, n := 0, x.N(2500, 100000); i < n; i++ {
		x.Case(func(c *Case) {
			enable := c.R.Bool()
			need := 2
			if enable {
				need = 5
			}
			g := e2eGenCfg(c.R, need)
			warm := c.R.Pick(0, 0, 1, 126, 127, 128, 129, 32766, 32767, c.R.Intn(300))
			if x.Thorough() && c.R.Chance(1, 20) {
				warm = 32768 + c.R.Intn(200)
			}
			run(c, g, enable, warm, e2eRawFrames(c.R, g, 0))
		})
	}
}

// ---- VP9 (both modes; in non-flexible mode the frames start with a described VP9 header)

// e2eVP9Frame builds a frame of about n bytes; with a header description it starts with that
// header's bits (what the non-flexible payloader parses).
func e2eVP9Frame(r *Rand, h *vp9Hdr, n int) e2eFrame {
	var b []byte
	if h != nil {
		b = h.frame(r, n)
	} else {
		if n < 1 {
			n = 1
		}
		b = r.Bytes(n)
	}
	return e2eFrame{payload: b, samples: 3000, now: pktzClockValueIn(r), extra: func(t *Toks) { h.write(t) }}
}

func genE2EVP9(x *Ctx) {
	run := func(c *Case, g e2eCfg, flex bool, init int, frames []e2eFrame) {
		pid := uint16(init)
		pay := &codecs.VP9Payloader{FlexibleMode: flex, InitialPictureIDFn: func() uint16 { return pid }}
		dep := &codecs.VP9Packet{}
		if flex {
			c.Tag("flexible")
		} else {
			c.Tag("non-flexible")
		}
		runE2E(c, g, pay, dep.Unmarshal, func(t *Toks) { t.Bool(flex).Nat(init) }, frames)
	}
	// a header description the non-flexible statement covers: key or non-key, sizes <= 65535
	hdr := func(r *Rand) *vp9Hdr {
		for {
			h := randVp9Hdr(r)
			if h.Kind != "se" && h.W <= 65535 && h.H <= 65535 {
				return h
			}
		}
	}
	e2eGrid(x, 4, func(c *Case, g e2eCfg, lens []int) {
		var fs []e2eFrame
		for _, n := range lens {
			fs = append(fs, e2eVP9Frame(c.R, nil, n))
		}
		run(c, g, true, c.R.Pick(0, 0x7FFE, 0x7FFF, 0x8000, 0xFFFF), fs)
	})
	e2eGrid(x, 12, func(c *Case, g e2eCfg, lens []int) {
		var fs []e2eFrame
		for i, n := range lens {
			h := hdr(c.R)
			if i == 0 {
				h.Kind = "key" // the first packet carries the scalability structure: 11 octets of descriptor
			}
			fs = append(fs, e2eVP9Frame(c.R, h, n))
		}
		run(c, g, false, c.R.Pick(0, 0x7FFE, 0x7FFF, 0x8000, 0xFFFF), fs)
	})
	for i, n := 0, x.N(2500, 100000); i < n; i++ {
		x.Case(func(c *Case) {
			r := c.R
			flex := r.Bool()
			need := 4
			if !flex {
				need = r.Pick(4, 12, 12) // 4 suffices for non-key frames only
			}
			g := e2eGenCfg(r, need)
			nfr := r.Pick(1, 1, 2, 3, r.Range(1, 5))
			var fs []e2eFrame
			for len(fs) < nfr {
				var h *vp9Hdr
				switch {
				case flex && r.Chance(1, 3):
					h = randVp9Hdr(r) // described although the flexible payloader does not look
				case !flex && r.Chance(1, 12):
					h = randVp9Hdr(r) // any description, also show_existing_frame / 65536: outside the hypotheses
				case !flex && r.Chance(1, 25):
					h = nil // random bytes: outside the hypotheses (correspondence only)
				case !flex:
					h = hdr(r)
				}
				fs = append(fs, e2eVP9Frame(r, h, e2eFrameLen(r, g.budget())))
			}
			run(c, g, flex, r.Pick(0, 1, 0x7FFE, 0x7FFF, 0x8000, 0xFFFF, r.Intn(65536)), fs)
		})
	}
}

// ---- H264

// e2eH264Frame builds one access unit from units and describes it as `<bare> <n> (<four> <nal>)*`.
func e2eH264Frame(r *Rand, bare bool, units []h264Unit) e2eFrame {
	cl := h264Call{bare: bare, units: units}
	return e2eFrame{payload: cl.buffer(), samples: 3000, now: pktzClockValueIn(r), extra: func(t *Toks) {
		t.Bool(bare).Nat(len(units))
		for _, u := range units {
			t.Bool(u.four).Bytes(u.nal)
		}
	}}
}

func genE2EH264(x *Ctx) {
	run := func(c *Case, g e2eCfg, disable, avc bool, pre [][]byte, frames []e2eFrame) {
		pay := &codecs.H264Payloader{DisableStapA: disable}
		dep := &codecs.H264Packet{IsAVC: avc}
		// the receiver has seen `pre` before (for instance an FU-A whose end never arrived): its
		// fragment buffer is not empty when the history starts
		for _, p := range pre {
			try(func() { _, _ = dep.Unmarshal(append([]byte{}, p...)) })
		}
		if len(pre) > 0 {
			c.Tag("receiver:used")
		}
		if disable {
			c.Tag("stapa-disabled")
		}
		runE2E(c, g, pay, dep.Unmarshal, func(t *Toks) { t.Bool(disable).Bool(avc).BytesList(pre) }, frames)
	}
	// grid: one unit filling k fragments exactly / ±1, and SPS+PPS+IDR with the STAP-A straddling the budget
	e2eGrid(x, 3, func(c *Case, g e2eCfg, lens []int) {
		b := g.budget()
		var fs []e2eFrame
		size := lens[0]
		if size < 2 {
			size = 2
		}
		fs = append(fs, e2eH264Frame(c.R, c.R.Bool(), []h264Unit{{four: c.R.Bool(), nal: h264Nal(c.R, h264OtherType(c.R), size)}}))
		tot := b + c.R.Range(-2, 2) - 5
		if tot < 4 {
			tot = 4
		}
		ls := c.R.Range(2, tot-2)
		u := func(n []byte) h264Unit { return h264Unit{four: c.R.Bool(), nal: n} }
		sps, pps, idr := h264Nal(c.R, 7, ls), h264Nal(c.R, 8, tot-ls), h264Nal(c.R, 5, c.R.Pick(2, b-1, b, b+1, 2*b))
		if c.R.Bool() {
			fs = append(fs, e2eH264Frame(c.R, false, []h264Unit{u(sps), u(pps), u(idr)}))
		} else {
			// SPS and PPS in an access unit of their own: held back, that frame sends NO packet
			fs = append(fs, e2eH264Frame(c.R, false, []h264Unit{u(sps), u(pps)}), e2eH264Frame(c.R, false, []h264Unit{u(idr)}))
		}
		run(c, g, c.R.Chance(1, 4), c.R.Bool(), nil, fs)
	})
	for i, n := 0, x.N(2500, 100000); i < n; i++ {
		x.Case(func(c *Case) {
			r := c.R
			g := e2eGenCfg(r, 3)
			b := g.budget()
			disable := r.Chance(1, 4)
			nfr := r.Pick(1, 1, 2, 3, r.Range(1, 5))
			paired := !r.Chance(1, 6) // five in six: parameter sets come as SPS, PPS, unit
			var fs []e2eFrame
			for len(fs) < nfr {
				var units []h264Unit
				u := func(n []byte) h264Unit { return h264Unit{four: r.Bool(), nal: n} }
				other := func() []byte {
					return h264Nal(r, h264OtherType(r), r.Size(min(4*b, 4000), b, 2*b-3, 3*b-5, 2))
				}
				switch k := r.Intn(10); {
				case k == 0:
					units = append(units, u(h264Nal(r, r.Pick(9, 12), r.Range(2, 6))), u(other()))
				case k <= 3:
					tot := r.Pick(r.Range(4, 12), min(b, 1500)-5+r.Range(-1, 1), r.Range(4, 40))
					if tot < 4 {
						tot = 4
					}
					ls := r.Range(2, tot-2)
					units = append(units, u(h264Nal(r, 7, ls)))
					if r.Chance(1, 4) {
						units = append(units, u(h264Nal(r, 9, 2)))
					}
					units = append(units, u(h264Nal(r, 8, tot-ls)))
					if paired || r.Bool() {
						if r.Chance(1, 3) && len(fs)+1 < nfr {
							// the unit that releases them comes in the NEXT frame
							fs = append(fs, e2eH264Frame(r, false, units))
							units = nil
						}
						units = append(units, u(other()))
					}
				case k == 4 && !paired:
					units = append(units, u(h264Nal(r, r.Pick(7, 8), r.Range(2, 10)))) // a lone parameter set
					if r.Bool() {
						units = append(units, u(other()))
					}
				default:
					for j, m := 0, r.Pick(1, 1, 2, 3); j < m; j++ {
						units = append(units, u(other()))
					}
				}
				bare := len(units) == 1 && r.Chance(1, 3)
				fs = append(fs, e2eH264Frame(r, bare, units))
			}
			var pre [][]byte
			if r.Chance(1, 4) {
				// an FU-A start (and maybe a middle) whose end never arrives, or arbitrary bytes
				pre = append(pre, append([]byte{0x7C, 0x85}, r.Bytes(r.Range(0, 20))...))
				if r.Bool() {
					pre = append(pre, append([]byte{0x7C, 0x05}, r.Bytes(r.Range(0, 20))...))
				}
				if r.Chance(1, 3) {
					pre = append(pre, r.Bytes(r.Range(0, 12)))
				}
			}
			if !paired {
				c.Tag("unpaired-parameter-sets")
			}
			run(c, g, disable, r.Bool(), pre, fs)
		})
	}
}

// ---- AV1

func genE2EAV1(x *Ctx) {
	frame := func(r *Rand, os []av1Obu) e2eFrame {
		return e2eFrame{payload: av1Serialise(os), samples: 3000, now: pktzClockValueIn(r), extra: func(t *Toks) { av1WriteObus(t, os) }}
	}
	run := func(c *Case, g e2eCfg, pre [][]byte, frames []e2eFrame) {
		dep := &codecs.AV1Depacketizer{}
		// the receiver has seen `pre` before (a fragment whose continuation never arrived, garbage)
		for _, p := range pre {
			try(func() { _, _ = dep.Unmarshal(append([]byte{}, p...)) })
		}
		if len(pre) > 0 {
			c.Tag("receiver:used")
		}
		runE2E(c, g, &codecs.AV1Payloader{}, dep.Unmarshal, func(t *Toks) { t.BytesList(pre) }, frames)
	}
	e2eGrid(x, 2, func(c *Case, g e2eCfg, lens []int) {
		// one OBU that fills k packets exactly / ±1 (1 aggregation header byte + 1 OBU header byte),
		// with and without size field; then a temporal delimiter + a small frame
		var fs []e2eFrame
		n := lens[0] - 2
		if n < 0 {
			n = 0
		}
		fs = append(fs, frame(c.R, []av1Obu{{typ: 6, hasSize: c.R.Bool(), payload: c.R.Bytes(n)}}))
		fs = append(fs, frame(c.R, []av1Obu{{typ: 2, hasSize: true}, {typ: 6, hasSize: c.R.Bool(), payload: c.R.Bytes(lens[1])}}))
		run(c, g, nil, fs)
	})
	for i, n := 0, x.N(2500, 100000); i < n; i++ {
		x.Case(func(c *Case) {
			r := c.R
			g := e2eGenCfg(r, 2)
			b := g.budget()
			nfr := r.Pick(1, 1, 2, 3, r.Range(1, 4))
			var fs []e2eFrame
			for len(fs) < nfr {
				var os []av1Obu
				switch r.Intn(10) {
				case 0:
					os = []av1Obu{{typ: byte(r.Pick(2, 8)), hasSize: true, payload: r.Bytes(r.Intn(4))}} // dropped whole: no packet
				case 1:
					os = av1RandObus(r, b, 5, 300, true) // an inner OBU without size field: outside the hypotheses
				default:
					os = av1RandObus(r, b, r.Pick(1, 2, 4, 6), min(4*b+10, 3000), false)
					if r.Bool() {
						os = append([]av1Obu{{typ: 2, hasSize: true}}, os...) // temporal delimiter first, as encoders do
					}
					if r.Chance(1, 20) {
						// an OBU at the 2- / 3-byte boundary of the LEB128 size field the receiver writes back
						os = append([]av1Obu{{typ: 6, hasSize: true, payload: r.Bytes(r.Range(16380, 16390))}}, os...)
						c.Tag("obu>=16384")
					}
				}
				fs = append(fs, frame(r, os))
			}
			var pre [][]byte
			if r.Chance(1, 4) {
				pre = append(pre, append([]byte{0x50, 0x30}, r.Bytes(r.Range(0, 20))...)) // Y=1, W=1: a fragment left open
				if r.Chance(1, 3) {
					pre = append(pre, r.Bytes(r.Range(0, 12)))
				}
			}
			run(c, g, pre, fs)
		})
	}
}

// ---- H265 (H265Packet.Unmarshal returns no bytes: the observation keeps the payloads it accepted)

func genE2EH265(x *Ctx) {
	frame := func(r *Rand, f []h265Framed) e2eFrame {
		return e2eFrame{payload: h265FrameBytes(f), samples: 3000, now: pktzClockValueIn(r), extra: func(t *Toks) {
			t.Nat(len(f))
			for _, u := range f {
				t.Nat(u.SC).Bytes(u.Unit)
			}
		}}
	}
	run := func(c *Case, g e2eCfg, addDONL, skip bool, frames []e2eFrame) {
		pay := &codecs.H265Payloader{AddDONL: addDONL, SkipAggregation: skip}
		pkt := &codecs.H265Packet{}
		pkt.WithDONL(addDONL)
		dep := func(p []byte) ([]byte, error) {
			if _, err := pkt.Unmarshal(p); err != nil {
				return nil, err
			}
			return p, nil
		}
		if addDONL {
			c.Tag("donl (outside the hypotheses)")
		}
		if skip {
			c.Tag("skipagg")
		}
		runE2E(c, g, pay, dep, func(t *Toks) { t.Bool(addDONL).Bool(skip) }, frames)
	}
	e2eGrid(x, 4, func(c *Case, g e2eCfg, lens []int) {
		// one unit filling k packets exactly / ±1 (a single NAL unit packet, or FUs with 3 header bytes),
		// then two small units that may be aggregated
		b := g.budget()
		n := lens[0]
		if n < 3 {
			n = 3
		}
		fs := []e2eFrame{frame(c.R, []h265Framed{{c.R.Pick(0, 3, 4), h265GenUnit(c.R, n, true)}})}
		a := c.R.Range(3, e2eMax(3, b/2))
		fs = append(fs, frame(c.R, []h265Framed{{c.R.Pick(3, 4), h265GenUnit(c.R, a, true)}, {c.R.Pick(3, 4), h265GenUnit(c.R, c.R.Range(3, e2eMax(3, b-a)), true)}}))
		run(c, g, false, c.R.Bool(), fs)
	})
	for i, n := 0, x.N(2500, 100000); i < n; i++ {
		x.Case(func(c *Case) {
			r := c.R
			addDONL := r.Chance(1, 10)
			need := 4
			if addDONL {
				need = 6
			}
			g := e2eGenCfg(r, need)
			b := g.budget()
			wf := !r.Chance(1, 15)
			nfr := r.Pick(1, 1, 2, 3)
			var fs []e2eFrame
			for len(fs) < nfr {
				k := r.Pick(1, 1, 2, 3, r.Range(1, 6))
				var f []h265Framed
				for q := 0; q < k; q++ {
					sz := h265UnitSize(r, min(b, 1500))
					if sz > 3000 {
						sz = r.Range(3, 3000)
					}
					if addDONL && sz > b-3 && b >= 6 {
						sz = r.Range(3, b-3) // keep AddDONL streams out of the known-finding region (no FU)
					}
					u := h265GenUnit(r, sz, wf)
					sc := r.Pick(3, 4)
					if k == 1 && r.Chance(1, 3) {
						sc = 0
					}
					f = append(f, h265Framed{sc, u})
				}
				fs = append(fs, frame(r, f))
			}
			if !wf {
				c.Tag("units not well-formed (outside the hypotheses)")
			}
			run(c, g, addDONL, r.Bool(), fs)
		})
	}
}

func init() {
	register("e2e.g711", "C06", genE2EG711)
	register("e2e.opus", "C06", genE2EOpus)
	register("e2e.vp8", "C06", genE2EVP8)
	register("e2e.vp9", "C06", genE2EVP9)
	register("e2e.h264", "C06", genE2EH264)
	register("e2e.av1", "C06", genE2EAV1)
	register("e2e.h265", "C06", genE2EH265)
}
