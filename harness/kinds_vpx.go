package main

// Case kinds of the VP8 group: C11 and the VP8 parts of C08/C09 (VP9 is in kinds_vp9.go).
// Token layouts: see lean/Driver/Kinds/Vpx.lean.

import (
	"github.com/pion/rtp/codecs"
)

// ---------------------------------------------------------------------------------------------
// an independent RFC 7741 §4.2 descriptor encoder (written from the RFC's figure)

type vp8Desc struct {
	N, S      bool
	PID       int
	X         bool
	I, M      bool
	PicID     int
	L         bool
	TL0       int
	T, Y      bool
	TID       int
	K         bool
	KeyIdx    int
	Ign0      int // R bits of the first octet
	IgnX      int // RSV nibble of the X octet
	IgnTK     int // bits of the T/K octet that belong to an absent field
}

func b2i(b bool, v int) int {
	if b {
		return v
	}
	return 0
}

func (d *vp8Desc) encode() []byte {
	out := []byte{byte(b2i(d.X, 0x80) | b2i(d.N, 0x20) | b2i(d.S, 0x10) | (d.PID & 7) | (d.Ign0 & 0x48))}
	if !d.X {
		return out
	}
	out = append(out, byte(b2i(d.I, 0x80)|b2i(d.L, 0x40)|b2i(d.T, 0x20)|b2i(d.K, 0x10)|(d.IgnX&0x0F)))
	if d.I {
		if d.M {
			out = append(out, byte(0x80|(d.PicID>>8)), byte(d.PicID&0xFF))
		} else {
			out = append(out, byte(d.PicID))
		}
	}
	if d.L {
		out = append(out, byte(d.TL0))
	}
	if d.T || d.K {
		var tk int
		if d.T {
			tk |= d.TID<<6 | b2i(d.Y, 0x20)
		} else {
			tk |= d.IgnTK & 0xE0
		}
		if d.K {
			tk |= d.KeyIdx
		} else {
			tk |= d.IgnTK & 0x1F
		}
		out = append(out, byte(tk))
	}
	return out
}

// write mirrors rdVP8Desc.
func (d *vp8Desc) write(t *Toks) {
	t.Bool(d.N).Bool(d.S).Nat(d.PID).Bool(d.X)
	if d.X && d.I {
		t.Some().Bool(d.M).Nat(d.PicID)
	} else {
		t.None()
	}
	if d.X && d.L {
		t.Some().Nat(d.TL0)
	} else {
		t.None()
	}
	if d.X && d.T {
		t.Some().Nat(d.TID).Bool(d.Y)
	} else {
		t.None()
	}
	if d.X && d.K {
		t.Some().Nat(d.KeyIdx)
	} else {
		t.None()
	}
	t.Nat(d.Ign0).Nat(d.IgnX).Nat(d.IgnTK)
}

func writeVP8Md(t *Toks, p *codecs.VP8Packet) {
	t.Nat(int(p.X)).Nat(int(p.N)).Nat(int(p.S)).Nat(int(p.PID))
	t.Nat(int(p.I)).Nat(int(p.L)).Nat(int(p.T)).Nat(int(p.K))
	t.Nat(int(p.PictureID)).Nat(int(p.TL0PICIDX)).Nat(int(p.TID)).Nat(int(p.Y)).Nat(int(p.KEYIDX))
}

func vp8MdAny(t *Toks, d depacketizer) { writeVP8Md(t, d.(*codecs.VP8Packet)) }

// ---------------------------------------------------------------------------------------------
// c11.dec

func vp8DecCase(x *Ctx, mk func(c *Case) (vp8Desc, []byte), cuts bool) {
	// the number of cuts depends on the descriptor, which may be random: so one Case per
	// (descriptor, cut) is produced by asking for the cut index inside a fixed-size loop
	maxCuts := 1
	if cuts {
		maxCuts = 10 // descriptor ≤ 6 octets + payload ≤ 3
	}
	for ci := 0; ci < maxCuts; ci++ {
		ci := ci
		x.Case(func(c *Case) {
			d, payload := mk(c)
			wire := append(d.encode(), payload...)
			k := len(wire)
			if cuts {
				k = ci
				if k > len(wire) {
					k = len(wire)
					c.Trivial() // duplicate of the uncut case
				}
			}
			d.write(&c.I)
			c.I.Bytes(payload).Nat(k).Bytes(wire)
			tag := "X=0"
			if d.X {
				tag = "X=1"
			}
			if k < len(d.encode()) {
				tag += ",cut"
			}
			c.Tag(tag)
			p := &codecs.VP8Packet{}
			// a second receiver with SetZeroAllocation(true) sees the same packets: the switch may cost
			// metadata, not the payload ("returns the bytes that follow the descriptor" is evaluated on
			// its result too)
			z := &codecs.VP8Packet{}
			z.SetZeroAllocation(true)
			// two cases out of three decode into a USED receiver (it first decodes a descriptor
			// with every optional field present and non-zero): "decodes to exactly the encoded
			// values" must not depend on what the receiver held before (c11_decoder: any receiver).
			if c.R.Chance(2, 3) {
				callUnmarshal(p, []byte{0xB7, 0xF0, 0x92, 0x34, 0x56, 0xA5, 0x01})
				callUnmarshal(z, []byte{0xB7, 0xF0, 0x92, 0x34, 0x56, 0xA5, 0x01})
				if c.R.Bool() {
					second := []byte{0x90, 0x20, byte(0x40 | c.R.Intn(64)), 0x07}
					callUnmarshal(p, cloneBytes(second))
					callUnmarshal(z, cloneBytes(second))
				}
				c.Tag("used-receiver")
			}
			// The packet sits in the caller's receive buffer, which is reused for the next datagram
			// as soon as Unmarshal and IsPartitionHead have returned; the decoded values are what the
			// caller READS from the receiver afterwards, so the metadata tokens are written after
			// the buffer has been overwritten (the returned payload is snapshotted at once: it is
			// documented to be a window of the buffer).
			rxb := cloneBytes(wire)
			r := callUnmarshal(p, rxb[:k])
			rz := callUnmarshal(z, cloneBytes(wire[:k]))
			head := false
			try(func() { head = p.IsPartitionHead(rxb[:k]) })
			for i := range rxb {
				rxb[i] ^= 0xA5
			}
			r.write(&c.O)
			if r.err || r.panicked {
				// a rejected descriptor leaves no metadata the property speaks about; report what a
				// fresh receiver holds after rejecting the same bytes (that is what the model describes)
				q := &codecs.VP8Packet{}
				qb := cloneBytes(wire)
				callUnmarshal(q, qb[:k])
				for i := range qb {
					qb[i] ^= 0xA5
				}
				writeVP8Md(&c.O, q)
			} else {
				writeVP8Md(&c.O, p)
			}
			c.O.Bool(head)
			rz.write(&c.O)
		})
	}
}

func genC11Dec(x *Ctx) {
	picVals7 := []int{0, 1, 64, 127}
	picVals15 := []int{0, 1, 127, 128, 255, 256, 0x4000, 32766, 32767}
	// all 64 X/I/M/L/T/K combinations × boundary values × payload length 0–3 × every truncation
	for flags := 0; flags < 64; flags++ {
		for variant := 0; variant < 6; variant++ {
			for plen := 0; plen <= 3; plen++ {
				flags, variant, plen := flags, variant, plen
				vp8DecCase(x, func(c *Case) (vp8Desc, []byte) {
					d := vp8Desc{X: flags&32 != 0, I: flags&16 != 0, M: flags&8 != 0, L: flags&4 != 0, T: flags&2 != 0, K: flags&1 != 0}
					d.N = variant&1 != 0
					d.S = variant&2 != 0
					d.Y = variant&1 == 0
					d.PID = []int{0, 7, 1, 3, 4, 6}[variant]
					if d.M {
						d.PicID = picVals15[(variant+plen)%len(picVals15)]
					} else {
						d.PicID = picVals7[(variant+plen)%len(picVals7)]
					}
					d.TL0 = []int{0, 255, 1, 128, 127, 200}[variant]
					d.TID = variant & 3
					d.KeyIdx = []int{0, 31, 1, 16, 15, 30}[variant]
					if variant >= 3 { // bits a receiver must ignore
						d.Ign0, d.IgnX, d.IgnTK = 0x48, 0x0F, 0xFF
					}
					return d, c.R.Bytes(plen)
				}, true)
			}
		}
	}
	// every picture id in both forms once (uncut)
	for id := 0; id < 32768; id += 1 {
		if id >= 300 && id < 32000 && id%257 != 0 && !x.Thorough() {
			continue
		}
		id := id
		vp8DecCase(x, func(c *Case) (vp8Desc, []byte) {
			return vp8Desc{X: true, I: true, M: true, PicID: id, S: true}, []byte{0xAB}
		}, false)
		if id < 128 {
			vp8DecCase(x, func(c *Case) (vp8Desc, []byte) {
				return vp8Desc{X: true, I: true, M: false, PicID: id, L: true, TL0: id}, []byte{0xAB, 0xCD}
			}, false)
		}
	}
	// all T/K octets
	for tk := 0; tk < 256; tk++ {
		for f := 0; f < 4; f++ {
			tk, f := tk, f
			vp8DecCase(x, func(c *Case) (vp8Desc, []byte) {
				return vp8Desc{X: true, T: f&2 != 0, K: f&1 != 0, TID: tk >> 6, Y: tk&0x20 != 0, KeyIdx: tk & 0x1F, IgnTK: tk ^ 0xFF}, nil
			}, false)
		}
	}
	// random stream
	for i, n := 0, x.N(4000, 100000); i < n; i++ {
		vp8DecCase(x, func(c *Case) (vp8Desc, []byte) {
			r := c.R
			d := vp8Desc{N: r.Bool(), S: r.Bool(), PID: r.Intn(8), X: r.Chance(4, 5), I: r.Bool(), M: r.Bool(),
				L: r.Bool(), TL0: r.Intn(256), T: r.Bool(), Y: r.Bool(), TID: r.Intn(4), K: r.Bool(), KeyIdx: r.Intn(32),
				Ign0: r.Intn(256), IgnX: r.Intn(256), IgnTK: r.Intn(256)}
			if r.Bool() {
				d.Ign0, d.IgnX, d.IgnTK = 0, 0, 0
			}
			if d.M {
				d.PicID = r.Pick(0, 127, 128, 32767, r.Intn(32768))
			} else {
				d.PicID = r.Intn(128)
			}
			return d, r.Bytes(r.Size(40, 0, 1))
		}, true)
	}
}

// ---------------------------------------------------------------------------------------------
// c11.rt — histories of frames through VP8Payloader and one VP8Packet receiver

func vp8Warm(p *codecs.VP8Payloader, warm int) {
	for i := 0; i < warm; i++ {
		p.Payload(10, []byte{0})
	}
}

func vp8RtCase(x *Ctx, mk func(c *Case) (enable bool, warm int, calls []PayCall)) {
	x.Case(func(c *Case) {
		enable, warm, calls := mk(c)
		// EnablePictureID is a public field: in a third of the histories that have earlier frames the
		// first flipAt of them were sent with the field at the OTHER value and the caller then set it
		// by hand (simulcast layers switched on and off).  The running picture id counts frames, in
		// whichever mode they were sent.
		flipAt := 0
		if warm > 0 && c.R.Chance(1, 3) {
			flipAt = c.R.Pick(1, warm, c.R.Range(1, warm))
			c.Tag("EnablePictureID-set-by-hand")
		}
		c.I.Bool(enable).Nat(warm).Nat(flipAt)
		writeCalls(&c.I, calls)
		pay := &codecs.VP8Payloader{EnablePictureID: enable != (flipAt > 0)}
		vp8Warm(pay, flipAt)
		pay.EnablePictureID = enable
		vp8Warm(pay, warm-flipAt)
		rcv := &codecs.VP8Packet{}
		// the same packets also go to ONE receiver with SetZeroAllocation(true): losslessness is
		// evaluated on what it returns as well
		zrcv := &codecs.VP8Packet{}
		zrcv.SetZeroAllocation(true)
		c.O.Nat(len(calls))
		nontrivial := false
		// the whole history is payloaded first and read afterwards (packets wait in a send queue while
		// the next frames are packetized): what a call returned must still be that frame then
		all := make([][][]byte, 0, len(calls))
		for _, call := range calls {
			var frags [][]byte
			// the frame is handed over exactly sized or as a window of a larger array (payWindow)
			_, in := payWindow(call.Input, int(call.MTU))
			if try(func() { frags = pay.Payload(call.MTU, in) }) {
				// a panic is not representable in this kind's observation: make the line unparsable
				c.O.Tok("PAYLOAD-PANIC")
				return
			}
			// the sender appends its trailer (auth tag, padding) to every packet in place
			scribbleSpare(frags...)
			all = append(all, frags)
		}
		for _, frags := range all {
			if len(frags) > 1 {
				nontrivial = true
			}
			c.O.Nat(len(frags))
			for _, f := range frags {
				c.O.Bytes(f)
				r := callUnmarshal(rcv, f)
				r.write(&c.O)
				writeVP8Md(&c.O, rcv)
				head := false
				try(func() { head = rcv.IsPartitionHead(f) })
				c.O.Bool(head)
				rz := callUnmarshal(zrcv, cloneBytes(f))
				rz.write(&c.O)
			}
		}
		if !nontrivial {
			c.Trivial()
		}
		if enable {
			switch {
			case warm+len(calls) > 32768:
				c.Tag("picid-wrap")
			case warm <= 128 && warm+len(calls) > 128:
				c.Tag("picid-7to15")
			case warm < 128:
				c.Tag("picid-7bit")
			default:
				c.Tag("picid-15bit")
			}
		} else {
			c.Tag("no-picid")
		}
	})
}

func vp8HdrLen(enable bool, k int) int {
	if !enable {
		return 1
	}
	if k%32768 < 128 {
		return 3
	}
	return 4
}

func genC11Rt(x *Ctx) {
	starts := []int{0, 1, 126, 127, 128, 32766, 32767}
	for _, enable := range []bool{false, true} {
		for si, warm := range starts {
			if !enable && si > 1 {
				continue
			}
			for mtu := 1; mtu <= 64; mtu++ {
				if warm > 1000 && !x.Thorough() && mtu%4 != 1 && mtu > 8 {
					continue // the 32k warm-up calls are the expensive part
				}
				enable, warm, mtu := enable, warm, mtu
				vp8RtCase(x, func(c *Case) (bool, int, []PayCall) {
					var calls []PayCall
					k := warm
					for j := 0; j < 4; j++ {
						room := mtu - vp8HdrLen(enable, k)
						if room < 1 {
							room = 1
						}
						n := []int{room, 2*room + 1, 1, 3*room - 1}[(j+mtu)%4]
						if n < 1 {
							n = 1
						}
						calls = append(calls, PayCall{uint16(mtu), c.R.Bytes(n)})
						if mtu > vp8HdrLen(enable, k) {
							k++
						}
					}
					return enable, warm, calls
				})
			}
			for _, mtu := range []int{1200, 65535} {
				enable, warm, mtu := enable, warm, mtu
				vp8RtCase(x, func(c *Case) (bool, int, []PayCall) {
					return enable, warm, []PayCall{{uint16(mtu), c.R.Bytes(mtu - 4)}, {uint16(mtu), c.R.Bytes(2*mtu + 7)}, {uint16(mtu), c.R.Bytes(5)}}
				})
			}
		}
	}
	for i, n := 0, x.N(10000, 150000); i < n; i++ {
		vp8RtCase(x, func(c *Case) (bool, int, []PayCall) {
			r := c.R
			enable := r.Chance(3, 4)
			warm := r.Pick(0, 0, 1, 126, 127, 128, r.Intn(300), r.Intn(300))
			if r.Chance(1, 40) {
				warm = r.Pick(32766, 32767, 32765, r.Intn(32768))
			}
			mtu := r.Pick(r.Range(1, 64), r.Range(1, 64), r.Range(1, 16), 1200, r.Range(1, 2000))
			if r.Chance(1, 100) {
				mtu = 65535
			}
			var calls []PayCall
			for j, m := 0, r.Range(1, 5); j < m; j++ {
				if r.Chance(1, 6) {
					mtu = r.Pick(r.Range(1, 64), r.Range(0, 6), 1200)
				}
				room := mtu - 3
				if room < 1 {
					room = 1
				}
				n := r.Size(min(4*room+3, 4000), room, 2*room, 3*room)
				var in []byte
				switch {
				case r.Chance(1, 30):
					in = nil
				default:
					in = r.Bytes(n)
				}
				calls = append(calls, PayCall{uint16(mtu), in})
			}
			return enable, warm, calls
		})
	}
	// ONE frame cut into more than 2^16 packets (a frame over 64 KiB at a tiny MTU): a per-frame packet
	// counter of 16 bits wraps there.  65536 packets exactly, one more, a few more; then a small frame.
	for _, enable := range []bool{false, true} {
		for _, extra := range []int{0, 1, 3} {
			enable, extra := enable, extra
			if !x.Thorough() && extra != 3 {
				continue // each case is ≈ 65 k packets: one per mode in the quick tier
			}
			vp8RtCase(x, func(c *Case) (bool, int, []PayCall) {
				c.Tag("packets>=2^16")
				warm := 0
				if enable {
					warm = c.R.Pick(0, 5, 127, 128, 300)
				}
				room := c.R.Range(1, 2)
				mtu := vp8HdrLen(enable, warm) + room
				n := (65536+extra-1)*room + c.R.Range(1, room)
				return enable, warm, []PayCall{{uint16(mtu), c.R.Bytes(n)}, {uint16(mtu), c.R.Bytes(3)}}
			})
		}
	}
}

// ---------------------------------------------------------------------------------------------
// c08.vp8

func vp8SeedInput(r *Rand, n int) []byte {
	b := r.Bytes(n)
	if n > 0 && r.Bool() {
		// a VP8 payload header: key frame bit, version, show_frame, first partition size; start code
		copy(b, []byte{byte(r.Intn(2)) | 0x10, 0x02, 0x00, 0x9d, 0x01, 0x2a, 0x80, 0x02, 0xe0, 0x01})
	}
	return b
}

func genC08Vp8(x *Ctx) {
	one := func(mk func(c *Case) (bool, []PayCall)) {
		x.Case(func(c *Case) {
			enable, calls := mk(c)
			c.I.Bool(enable)
			writeCalls(&c.I, calls)
			triv := true
			for _, cl := range calls {
				if len(cl.Input) > 0 && cl.MTU > 0 {
					triv = false
				}
			}
			if triv {
				c.Trivial()
			}
			c.Tag("calls=" + sizeClass(len(calls)))
			observePayHist(&c.O, func() payloader { return &codecs.VP8Payloader{EnablePictureID: enable} }, calls)
		})
	}
	for _, enable := range []bool{false, true} {
		for mtu := 0; mtu <= 20; mtu++ {
			for _, n := range []int{-1, 0, 1, 2, mtu - 4, mtu - 3, mtu - 2, mtu - 1, mtu, mtu + 1, 2*mtu + 1, 3 * mtu} {
				if n < -1 {
					continue
				}
				enable, mtu, n := enable, mtu, n
				one(func(c *Case) (bool, []PayCall) {
					var in []byte
					if n >= 0 {
						in = vp8SeedInput(c.R, n)
					}
					// three calls: the picture id state moves between them
					return enable, []PayCall{{uint16(mtu), in}, {uint16(mtu), cloneBytes(in)}, {uint16(mtu + 1), c.R.Bytes(5)}}
				})
			}
		}
		for _, mtu := range []int{21, 22, 31, 32, 33, 48, 63, 64, 1200, 1500, 65535} {
			for _, n := range []int{0, 1, mtu - 4, mtu - 3, mtu - 1, mtu, mtu + 1, 2*mtu - 5, 3 * mtu} {
				if n > 70000 {
					n = 70000
				}
				enable, mtu, n := enable, mtu, n
				one(func(c *Case) (bool, []PayCall) {
					return enable, []PayCall{{uint16(mtu), vp8SeedInput(c.R, n)}, {uint16(mtu), c.R.Bytes(3)}}
				})
			}
		}
		// a long history: the descriptor grows from 3 to 4 octets at id 128
		for _, mtu := range []int{3, 4, 5, 7} {
			enable, mtu := enable, mtu
			one(func(c *Case) (bool, []PayCall) {
				var calls []PayCall
				for j := 0; j < 134; j++ {
					calls = append(calls, PayCall{uint16(mtu), c.R.Bytes(1 + j%3)})
				}
				return enable, calls
			})
		}
	}
	for i, n := 0, x.N(8000, 150000); i < n; i++ {
		one(func(c *Case) (bool, []PayCall) {
			r := c.R
			enable := r.Bool()
			var calls []PayCall
			m := r.Range(1, 6)
			if r.Chance(1, 50) {
				m = r.Range(120, 140)
			}
			for j := 0; j < m; j++ {
				mtu := r.Pick(r.Range(0, 20), r.Range(0, 20), r.Range(21, 64), 1200, 1500, 65535, r.Range(0, 65535))
				var in []byte
				switch r.Intn(12) {
				case 0:
					in = nil
				case 1:
					in = []byte{}
				default:
					in = vp8SeedInput(r, r.Size(min(3*mtu+2, 3000), mtu, mtu-3, mtu-4, 2*mtu))
				}
				calls = append(calls, PayCall{uint16(mtu), in})
			}
			return enable, calls
		})
	}
}

func sizeClass(n int) string {
	switch {
	case n <= 1:
		return "1"
	case n <= 4:
		return "2-4"
	case n <= 16:
		return "5-16"
	case n <= 64:
		return "17-64"
	default:
		return ">64"
	}
}

// ---------------------------------------------------------------------------------------------
// c09.vp8

var vp8Alphabet = []byte{0x00, 0x10, 0x80, 0x90, 0xB0, 0xFF, 0x7F, 0x20, 0x40, 0xC0, 0xE0, 0xF0, 0x01, 0x07}

func genC09Vp8(x *Ctx) {
	mk := func() depacketizer { return &codecs.VP8Packet{} }
	seq := func(f func(c *Case) [][]byte) {
		x.Case(func(c *Case) {
			ps := f(c)
			writeOBytesList(&c.I, ps)
			c.Tag("calls=" + sizeClass(len(ps)))
			observeDepHist(&c.O, mk, vp8MdAny, ps)
		})
	}
	// short cases first (the evidence samples only lines below 600 characters)
	for i := 0; i < 48; i++ {
		i := i
		seq(func(c *Case) [][]byte {
			return [][]byte{{0xFF, 0xFF, 0xFF, 0xFF, 0xFF, 0xFF, byte(i)}, vp8Alphabet[i%len(vp8Alphabet) : i%len(vp8Alphabet)+1], nil, {byte(i), byte(i * 5)}}
		})
	}
	// nil, empty, all strings of ≤ 2 bytes (≤ 3 in the thorough tier), in blocks on one receiver
	maxLen, block := 2, 64
	if x.Thorough() {
		maxLen, block = 3, 512
	}
	shortStrings(maxLen, block, func(ss [][]byte) { seq(func(c *Case) [][]byte { return ss }) })
	// a receiver that has seen every field set, then packets that leave fields out
	seq(func(c *Case) [][]byte {
		full := []byte{0xFF, 0xFF, 0xFF, 0xFF, 0xFF, 0xFF, 0xAA}
		return [][]byte{full, {0x00, 0x01}, full, {0x80, 0x00, 0x02}, full, {0x80}, {0x80, 0x80}, {0x80, 0x80, 0x80}, full, nil, {}, {0x10}}
	})
	for i, n := 0, x.N(8000, 150000); i < n; i++ {
		seq(func(c *Case) [][]byte {
			r := c.R
			var ps [][]byte
			for j, m := 0, r.Range(1, 12); j < m; j++ {
				switch r.Intn(8) {
				case 0:
					ps = append(ps, nil)
				case 1:
					ps = append(ps, []byte{})
				case 2, 3:
					// a valid descriptor from the RFC 7741 encoder, damaged
					d := vp8Desc{N: r.Bool(), S: r.Bool(), PID: r.Intn(8), X: r.Chance(4, 5), I: r.Bool(), M: r.Bool(),
						L: r.Bool(), TL0: r.Intn(256), T: r.Bool(), Y: r.Bool(), TID: r.Intn(4), K: r.Bool(), KeyIdx: r.Intn(32)}
					d.PicID = r.Intn(128)
					if d.M {
						d.PicID = r.Intn(32768)
					}
					w := append(d.encode(), r.Bytes(r.Intn(5))...)
					if r.Bool() {
						w = mutate(r, w, vp8Alphabet)
					}
					ps = append(ps, w)
				case 4:
					// a payloader fragment, damaged
					p := &codecs.VP8Payloader{EnablePictureID: r.Bool()}
					vp8Warm(p, r.Pick(0, 127, 128, 200))
					fr := p.Payload(uint16(r.Range(4, 12)), r.Bytes(r.Range(1, 20)))
					if len(fr) > 0 {
						ps = append(ps, mutate(r, fr[r.Intn(len(fr))], vp8Alphabet))
					}
				case 5:
					ps = append(ps, r.Bytes(r.Size(30, 1, 2, 6)))
				default:
					ps = append(ps, alphaBytes(r, r.Size(10, 1, 2, 6), vp8Alphabet))
				}
			}
			return ps
		})
	}
}

func init() {
	register("c11.dec", "C11", genC11Dec)
	register("c11.rt", "C11", genC11Rt)
	register("c08.vp8", "C08", genC08Vp8)
	register("c09.vp8", "C09", genC09Vp8)
}
