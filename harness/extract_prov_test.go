package main

import (
	"os"
	"testing"
)

// TestProvSummaries prints the provenance summary of every type of kinds c08.prov / c09.prov for
// the tree in $VERIF_REPO (default /repo); with PROV_EXPECT=owned it fails unless every summary
// is the one the ownership theorems state (lean/Driver/Kinds/Prov.lean).
func TestProvSummaries(t *testing.T) {
	root := os.Getenv("VERIF_REPO")
	if root == "" {
		root = "/repo"
	}
	expect := map[string][3]string{
		"G711Payloader":   {"sinks=fresh", "retained=none", "writes_input=f"},
		"G722Payloader":   {"sinks=fresh", "retained=none", "writes_input=f"},
		"OpusPayloader":   {"sinks=fresh", "retained=none", "writes_input=f"},
		"VP8Payloader":    {"sinks=fresh", "retained=none", "writes_input=f"},
		"VP9Payloader":    {"sinks=fresh", "retained=none", "writes_input=f"},
		"AV1Payloader":    {"sinks=fresh", "retained=none", "writes_input=f"},
		"H264Payloader":   {"sinks=fresh", "retained=fresh", "writes_input=f"},
		"H265Payloader":   {"sinks=fresh", "retained=none", "writes_input=f"},
		"H264Packet":      {"sinks=input", "retained=fresh", "writes_input=f"},
		"AV1Depacketizer": {"sinks=fresh", "retained=fresh", "writes_input=f"},
	}
	run := func(types []string, method string) {
		for _, ty := range types {
			s := extractProv(root, "codecs", ty, method)
			a, b, c := s.tokens()
			t.Logf("%-16s %-9s %s %s %s ext=%v", ty, method, a, b, c, s.ext)
			if os.Getenv("PROV_EXPECT") == "owned" && expect[ty] != [3]string{a, b, c} {
				t.Errorf("%s: got %s %s %s, want %v", ty, a, b, c, expect[ty])
			}
		}
	}
	run(provC08Types, "Payload")
	run(provC09Types, "Unmarshal")
}
