package main

// H264 payloader histories with a FORK: `b := *a` in the middle of a stream (kinds c10.rtfork and
// c08.h264fork).  H264Payloader is a plain struct (one exported option, two unexported slices, no
// mutex, no noCopy): copying it by value is legal Go, and the two values must then behave as two
// independent payloaders that started from the state the original had at that moment — although
// the copy shares the backing arrays of the pending SPS/PPS with the original.  After the fork the
// remaining calls are distributed over the two copies (interleaved); the caller uses what it gets
// back as its own (appends in place, transforms in place), so arrays shared between the copies show.
// Token formats: header of lean/Driver/Kinds/H264.lean.

import (
	"github.com/pion/rtp/codecs"
)

type h264ForkCall struct {
	lane int
	h264Call
}

// runH264RTFork executes one c10.rtfork case.  fork = number of calls made before the struct is
// copied (fork == len(calls): the copy is made after the last call and never used).
func runH264RTFork(c *Case, disable, avc bool, fork int, calls []h264ForkCall) {
	c.I.Bool(disable).Bool(avc).Nat(fork).Nat(len(calls))
	for _, cl := range calls {
		c.I.Nat(cl.lane).Nat(cl.mtu).Bool(cl.bare).Nat(len(cl.units))
		for _, u := range cl.units {
			c.I.Bool(u.four).Bytes(u.nal)
		}
	}
	// half of the cases transform every returned payload in place once it has been handed on
	// (copied out, as sending does): what a call returns is the caller's
	inPlace := c.R.Bool()
	if inPlace {
		c.Tag("frags-overwritten")
	}
	var o Toks
	o.Ok()
	if try(func() {
		orig := &codecs.H264Payloader{DisableStapA: disable}
		pays := [2]*codecs.H264Payloader{orig, orig}
		all := make([][][]byte, len(calls))
		for k, cl := range calls {
			if k == fork {
				cp := *orig // the fork: a struct copy by value
				pays[1] = &cp
			}
			lane := 0
			if k >= fork && cl.lane != 0 {
				lane = 1
			}
			frags := pays[lane].Payload(uint16(cl.mtu), cl.buffer())
			scribbleSpare(frags...)
			if inPlace {
				sent := cloneFrags(frags)
				scribbleAll(frags...)
				frags = sent
			}
			all[k] = frags
		}
		// each copy has its own receiver: it is fed what was made before the fork, then the payloads
		// of its lane
		for lane := 0; lane < 2; lane++ {
			dep := &codecs.H264Packet{IsAVC: avc}
			n := 0
			for k, cl := range calls {
				if k < fork || (cl.lane != 0) == (lane != 0) {
					n++
				}
			}
			o.Nat(n)
			for k, cl := range calls {
				if !(k < fork || (cl.lane != 0) == (lane != 0)) {
					continue
				}
				o.Nat(len(all[k]))
				for _, f := range all[k] {
					head := dep.IsPartitionHead(f)
					out, err := dep.Unmarshal(append([]byte{}, f...))
					o.Bytes(f).Bool(head)
					writeH264Res(&o, out, err)
				}
			}
		}
	}) {
		c.O.Panic()
		return
	}
	c.O.Tok(o.String())
}

// h264Group returns one group of a well-formed stream: an ordinary unit, or SPS, PPS and a unit
// (AUD/filler sprinkled in between).  open = how many units of the pair group to produce
// (1: SPS only, 2: SPS and PPS, 3: all).
func h264Group(c *Case, mtu int, pair bool, open int) [][]byte {
	r := c.R
	if !pair {
		if r.Chance(1, 8) {
			return [][]byte{h264Nal(r, r.Pick(9, 12), r.Range(2, 6))}
		}
		return [][]byte{h264Nal(r, h264OtherType(r), r.Size(min(3*mtu, 3000), mtu, 2*mtu-3))}
	}
	tot := r.Pick(r.Range(4, 12), r.Range(4, 12), min(mtu, 1500)-5+r.Range(-1, 1), r.Range(4, 40))
	if tot < 4 {
		tot = 4
	}
	ls := r.Range(2, tot-2)
	if tot+5 <= mtu {
		c.Tag("pair-fits")
	} else {
		c.Tag("pair-too-big")
	}
	var g [][]byte
	g = append(g, h264Nal(r, 7, ls))
	if open >= 2 {
		if r.Chance(1, 6) {
			g = append(g, h264Nal(r, r.Pick(9, 12), 2))
		}
		g = append(g, h264Nal(r, 8, tot-ls))
	}
	if open >= 3 {
		g = append(g, h264Nal(r, h264OtherType(r), r.Size(min(3*mtu, 3000), mtu, 2*mtu-3)))
	}
	return g
}

// h264CutCalls cuts a stream of units into n calls (consecutive runs, possibly empty).
func h264CutCalls(r *Rand, stream [][]byte, n int, mtu func() int) []h264Call {
	calls := make([]h264Call, n)
	for k := range calls {
		calls[k].mtu = mtu()
	}
	ci := 0
	for j, nal := range stream {
		for ci < n-1 && r.Intn(len(stream)-j+1) < (n-1-ci) {
			ci++
		}
		calls[ci].units = append(calls[ci].units, h264Unit{four: r.Bool(), nal: nal})
	}
	for k := range calls {
		if len(calls[k].units) == 1 && r.Chance(1, 4) {
			calls[k].bare = true
		}
	}
	return calls
}

// h264Interleave merges the calls of the two lanes in a random order (each lane keeps its order).
func h264Interleave(r *Rand, a, b []h264Call) []h264ForkCall {
	var out []h264ForkCall
	for len(a) > 0 || len(b) > 0 {
		if len(b) == 0 || (len(a) > 0 && r.Bool()) {
			out = append(out, h264ForkCall{0, a[0]})
			a = a[1:]
		} else {
			out = append(out, h264ForkCall{1, b[0]})
			b = b[1:]
		}
	}
	return out
}

func genC10RTFork(x *Ctx) {
	// (a) grid: SPS, PPS before the fork (one call or two), each copy then gets its own slice — and
	//     its own next SPS, PPS, slice —; every MTU 3..64 and 1200 with the STAP-A straddling the MTU
	mtus := []int{}
	for m := 3; m <= 64; m++ {
		mtus = append(mtus, m)
	}
	mtus = append(mtus, 1200)
	for _, mtu := range mtus {
		for _, d := range []int{-1, 0, 1} {
			for variant := 0; variant < 4; variant++ {
				mtu, d, variant := mtu, d, variant
				x.Case(func(c *Case) {
					r := c.R
					tot := mtu + d - 5
					if tot < 4 {
						tot = 4
					}
					pair := func() (sps, pps []byte) {
						ls := r.Range(2, tot-2)
						return h264Nal(r, 7, ls), h264Nal(r, 8, tot-ls)
					}
					u := func(n []byte) h264Unit { return h264Unit{four: r.Bool(), nal: n} }
					slice := func() []byte { return h264Nal(r, r.Pick(5, 1), r.Pick(2, mtu-1, mtu, mtu+1, 2*mtu)) }
					call := func(ns ...[]byte) h264Call {
						cl := h264Call{mtu: mtu}
						for _, n := range ns {
							cl.units = append(cl.units, u(n))
						}
						return cl
					}
					sps, pps := pair()
					var pre, a, b []h264Call
					switch variant {
					case 0: // both held back at the fork
						pre = []h264Call{call(sps, pps)}
						a = []h264Call{call(slice()), call(slice())}
						b = []h264Call{call(slice()), call(slice())}
					case 1: // SPS held back at the fork, each copy gets a PPS of its own
						pre = []h264Call{call(sps)}
						_, pa := pair()
						_, pb := pair()
						a = []h264Call{call(pa), call(slice())}
						b = []h264Call{call(pb, slice())}
					case 2: // a key frame went out before the fork; each copy then sends its own
						pre = []h264Call{call(sps, pps, slice())}
						sa, pa := pair()
						sb, pb := pair()
						a = []h264Call{call(sa), call(pa, slice())}
						b = []h264Call{call(sb, pb), call(slice())}
					default:
						pre = []h264Call{call(sps), call(pps), call(slice())}
						sa, pa := pair()
						sb, pb := pair()
						a = []h264Call{call(sa, pa, slice()), call(slice())}
						b = []h264Call{call(sb), call(pb), call(slice())}
					}
					if 5+len(sps)+len(pps) <= mtu {
						c.Tag("stapa-fits")
					} else {
						c.Tag("stapa-too-big")
					}
					calls := []h264ForkCall{}
					for _, cl := range pre {
						calls = append(calls, h264ForkCall{0, cl})
					}
					calls = append(calls, h264Interleave(r, a, b)...)
					runH264RTFork(c, false, r.Bool(), len(pre), calls)
				})
			}
		}
	}
	// (b) random well-formed forked streams: groups (unit | SPS PPS unit) before the fork, the last one
	//     possibly left open (SPS, or SPS and PPS held back at the fork); each copy completes it with
	//     units of its own and goes on; every part cut into calls at arbitrary points
	for i, n := 0, x.N(9000, 300000); i < n; i++ {
		x.Case(func(c *Case) {
			r := c.R
			disable := r.Chance(1, 5)
			avc := r.Bool()
			baseMtu := r.Pick(r.Range(3, 64), r.Range(3, 64), r.Range(3, 16), r.Range(8, 40), 1200, r.Pick(1200, 1500, 65535, 100, 255, 256))
			mtu := func() int {
				if r.Chance(1, 6) {
					return r.Pick(r.Range(3, 64), 1200, 3, 4)
				}
				return baseMtu
			}
			var pre [][]byte
			for g, m := 0, r.Range(0, 3); g < m; g++ {
				pre = append(pre, h264Group(c, baseMtu, r.Chance(1, 2), 3)...)
			}
			open := 3
			if r.Chance(1, 2) {
				open = r.Pick(1, 2, 2)
				pre = append(pre, h264Group(c, baseMtu, true, open)...)
				c.Tag([]string{"", "fork-holds-sps", "fork-holds-sps+pps"}[open])
			}
			cont := func() [][]byte {
				var s [][]byte
				if open == 1 {
					tot := r.Pick(r.Range(2, 8), r.Range(2, 30))
					s = append(s, h264Nal(r, 8, tot))
				}
				if open < 3 {
					s = append(s, h264Nal(r, h264OtherType(r), r.Size(min(3*baseMtu, 3000), baseMtu, 2*baseMtu-3)))
				}
				for g, m := 0, r.Range(0, 3); g < m; g++ {
					s = append(s, h264Group(c, baseMtu, r.Chance(1, 2), 3)...)
				}
				return s
			}
			sa, sb := cont(), cont()
			npre := r.Range(1, 3)
			if len(pre) == 0 {
				npre = r.Range(0, 1) // fork of a new payloader, possibly after a call without units
			}
			preCalls := h264CutCalls(r, pre, npre, mtu)
			ca := h264CutCalls(r, sa, r.Range(1, 3), mtu)
			cb := h264CutCalls(r, sb, r.Range(1, 3), mtu)
			calls := []h264ForkCall{}
			for _, cl := range preCalls {
				calls = append(calls, h264ForkCall{0, cl})
			}
			calls = append(calls, h264Interleave(r, ca, cb)...)
			fork := len(preCalls)
			if r.Chance(1, 12) { // no fork at all: the kind then is c10.rt on one payloader
				fork = len(calls)
				c.Tag("no-fork")
			}
			if disable {
				c.Tag("stapa-disabled")
			}
			if avc {
				c.Tag("avc")
			}
			for _, cl := range calls {
				for _, u := range cl.units {
					h264SizeTag(c, len(u.nal), cl.mtu)
				}
			}
			runH264RTFork(c, disable, avc, fork, calls)
		})
	}
	// (c) outside the hypotheses (correspondence and no panic only): arbitrary units, unpaired
	//     parameter sets, MTU 0..2, lanes and fork position at random
	for i, n := 0, x.N(3000, 100000); i < n; i++ {
		x.Case(func(c *Case) {
			r := c.R
			c.Tag("outside-wf")
			ncalls := r.Range(1, 7)
			var calls []h264ForkCall
			for ci := 0; ci < ncalls; ci++ {
				cl := h264Call{mtu: r.Pick(r.Range(0, 8), r.Range(0, 40), 1200)}
				for j, m := 0, r.Range(0, 3); j < m; j++ {
					var nal []byte
					switch r.Intn(5) {
					case 0:
						nal = h264Body(r, r.Range(0, 6))
					case 1, 2:
						nal = h264Nal(r, r.Pick(7, 8, 7, 8, 9, 12), r.Range(2, 12))
					case 3:
						nal = append([]byte{byte(r.Pick(0, 24, 28, 29, 31, 0x80|5, 0xe7))}, h264Body(r, r.Range(0, 12))...)
					default:
						nal = h264Nal(r, r.Range(1, 23), r.Size(60, cl.mtu))
					}
					cl.units = append(cl.units, h264Unit{four: r.Bool(), nal: nal})
				}
				if len(cl.units) == 1 && r.Chance(1, 3) {
					cl.bare = true
				}
				calls = append(calls, h264ForkCall{r.Intn(2), cl})
			}
			runH264RTFork(c, r.Chance(1, 4), r.Bool(), r.Range(0, ncalls), calls)
		})
	}
}

// ---------------------------------------------------------------------------------------------
// C08, forked histories

// runH264C08Fork: every call is observed with all the probes of c08.h264 (observePayDeferred); the
// pristine twin of the copy is a NEW payloader that is given the calls made before the fork once
// more (never a struct copy), so arrays the two copies share cannot hide behind a twin sharing them
// too.  Half of the calls' fragments are, in addition, transformed in place by the caller.
func runH264C08Fork(c *Case, fork int, lanes []int, flags []bool, calls []PayCall) {
	c.I.Nat(fork).Nat(len(lanes))
	for _, l := range lanes {
		c.I.Nat(l)
	}
	c.I.Nat(len(flags))
	for _, f := range flags {
		c.I.Bool(f)
	}
	writeCalls(&c.I, calls)
	orig := &codecs.H264Payloader{}
	ps := [2]*codecs.H264Payloader{orig, orig}
	tw := [2]*codecs.H264Payloader{{}, nil}
	tw[1] = tw[0]
	c.O.Nat(len(calls))
	recs := make([]*payRecord, 0, len(calls))
	live := make([][][]byte, 0, len(calls))
	for k, cl := range calls {
		if k == fork {
			cp := *orig // the fork: a struct copy by value
			ps[1] = &cp
			t := &codecs.H264Payloader{}
			for j := 0; j < fork; j++ {
				t.DisableStapA = flags[j]
				in := cloneBytes(calls[j].Input)
				try(func() { t.Payload(calls[j].MTU, in) })
			}
			tw[1] = t
		}
		lane := 0
		if k >= fork && lanes[k] != 0 {
			lane = 1
		}
		ps[lane].DisableStapA, tw[lane].DisableStapA = flags[k], flags[k]
		rec := observePayDeferred(ps[lane], tw[lane], cl.MTU, cl.Input)
		if !rec.panicked && c.R.Bool() {
			scribbleAll(rec.frags...) // the caller encrypts / rewrites its packets in place
		}
		recs = append(recs, rec)
		live = append(live, cloneFrags(rec.frags))
	}
	for k, r := range recs { // fragments of earlier calls must survive the later calls (of either copy)
		if !r.panicked && !fragsEqual(r.frags, live[k]) {
			r.fragsStable = false
		}
		r.write(&c.O)
	}
}

func genC08H264Fork(x *Ctx) {
	run := func(c *Case, disable bool, fork int, lanes []int, calls []PayCall) {
		flags := make([]bool, len(calls))
		toggle := c.R.Chance(1, 8) && len(calls) > 1
		for k := range flags {
			flags[k] = disable
			if toggle && c.R.Bool() {
				flags[k] = !disable
			}
		}
		if toggle {
			c.Tag("stapa-toggled")
		}
		if disable {
			c.Tag("stapa-disabled")
		}
		if fork >= len(calls) {
			c.Tag("no-fork")
		}
		runH264C08Fork(c, fork, lanes, flags, calls)
	}
	// (a) grid: MTU 0..20 exhaustively (then sampled) × parameter sets whose STAP-A straddles the MTU,
	//     held back (one or both) or already sent at the fork; then each copy gets slices and
	//     parameter sets of its own, interleaved
	mtus := []int{}
	for m := 0; m <= 20; m++ {
		mtus = append(mtus, m)
	}
	mtus = append(mtus, 21, 22, 31, 32, 33, 47, 63, 64, 1200, 1500, 65535)
	for _, mtu := range mtus {
		for _, disable := range []bool{false, false, true} {
			for variant := 0; variant < 5; variant++ {
				mtu, disable, variant := mtu, disable, variant
				x.Case(func(c *Case) {
					r := c.R
					m := mtu
					if m > 80 {
						m = 80
					}
					tot := m - 5 + r.Range(-1, 1)
					if tot < 4 {
						tot = 4
					}
					pair := func() (sps, pps []byte) {
						ls := r.Range(2, tot-2)
						return h264Nal(r, 7, ls), h264Nal(r, 8, tot-ls)
					}
					slice := func() []byte { return h264Nal(r, r.Pick(5, 1), r.Pick(2, m, m+1, 2*m+1)) }
					cat := func(ns ...[]byte) []byte {
						var b []byte
						for _, n := range ns {
							if r.Bool() {
								b = append(b, 0)
							}
							b = append(b, 0, 0, 1)
							b = append(b, n...)
						}
						return b
					}
					pc := func(b []byte) PayCall { return PayCall{uint16(mtu), b} }
					sps, pps := pair()
					var pre, a, b []PayCall
					switch variant {
					case 0:
						pre = []PayCall{pc(cat(sps, pps))}
						a = []PayCall{pc(cat(slice())), pc(cat(slice()))}
						b = []PayCall{pc(cat(slice())), pc(cat(slice()))}
					case 1:
						pre = []PayCall{pc(sps), pc(pps)}
						sa, pa := pair()
						a = []PayCall{pc(slice()), pc(cat(sa, pa, slice()))}
						b = []PayCall{pc(nil), pc(cat(slice()))}
					case 2:
						pre = []PayCall{pc(cat(sps))}
						_, pa := pair()
						_, pb := pair()
						a = []PayCall{pc(cat(pa)), pc(cat(slice()))}
						b = []PayCall{pc(cat(pb, slice())), pc(cat(slice()))}
					case 3:
						pre = []PayCall{pc(cat(sps, pps, slice()))}
						sa, pa := pair()
						sb, pb := pair()
						a = []PayCall{pc(cat(sa)), pc(cat(pa, slice()))}
						b = []PayCall{pc(cat(sb, pb)), pc(cat(slice()))}
					default:
						pre = []PayCall{pc(h264PayInput(r, m)), pc(h264PayInput(r, m))}
						a = []PayCall{pc(h264PayInput(r, m)), pc(h264PayInput(r, m))}
						b = []PayCall{pc(h264PayInput(r, m)), pc(h264PayInput(r, m))}
					}
					if mtu <= 2 {
						c.Tag("mtu<=2")
					}
					calls := append([]PayCall{}, pre...)
					lanes := make([]int, len(pre))
					for len(a) > 0 || len(b) > 0 {
						if len(b) == 0 || (len(a) > 0 && r.Bool()) {
							calls, lanes, a = append(calls, a[0]), append(lanes, 0), a[1:]
						} else {
							calls, lanes, b = append(calls, b[0]), append(lanes, 1), b[1:]
						}
					}
					run(c, disable, len(pre), lanes, calls)
				})
			}
		}
	}
	// (b) random histories, fork position and lanes at random
	for i, n := 0, x.N(12000, 300000); i < n; i++ {
		x.Case(func(c *Case) {
			r := c.R
			disable := r.Chance(1, 4)
			base := r.Pick(r.Range(0, 20), r.Range(3, 20), r.Range(21, 64), 1200, 1500, 65535)
			ncalls := r.Range(2, 8)
			var calls []PayCall
			lanes := make([]int, ncalls)
			for j := 0; j < ncalls; j++ {
				mtu := base
				if r.Chance(1, 5) {
					mtu = r.Pick(r.Range(0, 20), r.Range(21, 64), 1200, 65535)
				}
				mm := mtu
				if mm > 80 {
					mm = 80
				}
				calls = append(calls, PayCall{uint16(mtu), h264PayInput(r, mm)})
				lanes[j] = r.Intn(2)
			}
			fork := r.Range(0, ncalls-1)
			if r.Chance(1, 12) {
				fork = ncalls
			}
			for j := 0; j < fork && j < ncalls; j++ {
				lanes[j] = 0
			}
			run(c, disable, fork, lanes, calls)
		})
	}
}

func init() {
	register("c10.rtfork", "C10", genC10RTFork)
	register("c08.h264fork", "C08", genC08H264Fork)
}
