package main

// Case kinds of the AV1 group: C13 (c13.rt, c13.leb, c13.lebrd, c13.obuhdr, c13.obumar),
// the AV1 half of C15 (c15.av1) and the AV1 parts of C08/C09 (c08.av1, c09.av1, c09.av1packet).
// Token formats mirror lean/Driver/Kinds/Av1.lean.

import (
	"bytes"
	"fmt"

	"github.com/pion/rtp/codecs"
	"github.com/pion/rtp/codecs/av1/frame"
	"github.com/pion/rtp/codecs/av1/obu"
	pkgframe "github.com/pion/rtp/pkg/frame"
	pkgobu "github.com/pion/rtp/pkg/obu"
)

// ---------------------------------------------------------------------------------------------
// OBU descriptions and the harness's own serialiser (independent of the library's Marshal)

type av1Obu struct {
	typ       byte
	ext       *[3]byte // temporal, spatial, reserved3
	hasSize   bool
	reserved1 bool
	payload   []byte
	// width in bytes of the obu_size field: 0 = minimal (what every encoder that knows the length up
	// front writes), w > 0 = exactly w LEB128 bytes, padded with 0x80 groups (AV1 spec 4.10.5 allows
	// up to 8; encoders that reserve the field before the OBU length is known write a fixed width)
	szw int
}

// av1PadLeb: n in exactly w LEB128 bytes (mirrors Spec.Av1Rtp.padLeb, also where n does not fit).
func av1PadLeb(n uint64, w int) []byte {
	out := make([]byte, 0, w)
	for i := 0; i < w; i++ {
		b := byte(n % 128)
		n /= 128
		if i < w-1 {
			b += 128
		}
		out = append(out, b)
	}
	return out
}

func av1OwnLeb(n uint64) []byte {
	var out []byte
	for {
		b := byte(n % 128)
		n /= 128
		if n == 0 {
			return append(out, b)
		}
		out = append(out, b+128)
	}
}

func (o *av1Obu) wire() []byte {
	b0 := o.typ * 8
	if o.ext != nil {
		b0 += 4
	}
	if o.hasSize {
		b0 += 2
	}
	if o.reserved1 {
		b0++
	}
	out := []byte{b0}
	if o.ext != nil {
		out = append(out, o.ext[0]*32+o.ext[1]*8+o.ext[2])
	}
	if o.hasSize {
		if o.szw > 0 {
			out = append(out, av1PadLeb(uint64(len(o.payload)), o.szw)...)
		} else {
			out = append(out, av1OwnLeb(uint64(len(o.payload)))...)
		}
	}
	return append(out, o.payload...)
}

func av1Serialise(os []av1Obu) []byte {
	out := []byte{}
	for i := range os {
		out = append(out, os[i].wire()...)
	}
	return out
}

func av1WriteHdr(t *Toks, typ byte, ext *[3]byte, hasSize, reserved1 bool) {
	t.Nat(int(typ))
	if ext == nil {
		t.None()
	} else {
		t.Some().Nat(int(ext[0])).Nat(int(ext[1])).Nat(int(ext[2]))
	}
	t.Bool(hasSize).Bool(reserved1)
}

func av1WriteObus(t *Toks, os []av1Obu) {
	t.Nat(len(os))
	for i := range os {
		av1WriteHdr(t, os[i].typ, os[i].ext, os[i].hasSize, os[i].reserved1)
		t.Bytes(os[i].payload)
	}
}

// av1WriteObusW: every OBU followed by the width of its size field (c13.rt)
func av1WriteObusW(t *Toks, os []av1Obu) {
	t.Nat(len(os))
	for i := range os {
		av1WriteHdr(t, os[i].typ, os[i].ext, os[i].hasSize, os[i].reserved1)
		t.Bytes(os[i].payload)
		t.Nat(os[i].szw)
	}
}

// av1MinWidth: bytes of the minimal LEB128 encoding of n.
func av1MinWidth(n int) int { return len(av1OwnLeb(uint64(n))) }

// av1PadWidths gives a share of the OBUs that carry a size field a padded one: any width from the
// minimal one up to 8 (the widest the AV1 specification allows), the fixed widths encoders reserve
// (2, 4, 8) more often.  `all` pads every size field.
func av1PadWidths(r *Rand, os []av1Obu, all bool) {
	for i := range os {
		if !os[i].hasSize || !(all || r.Chance(1, 2)) {
			continue
		}
		lo := av1MinWidth(len(os[i].payload))
		w := r.Pick(2, 4, 8, r.Range(lo, 8), r.Range(lo, 8), lo+1)
		if w < lo {
			w = lo
		}
		os[i].szw = w
	}
}

func av1WriteLibHdr(t *Toks, h *obu.Header, err error) {
	if err != nil || h == nil {
		t.Err("other")
		return
	}
	t.Ok()
	var ext *[3]byte
	if h.ExtensionHeader != nil {
		ext = &[3]byte{h.ExtensionHeader.TemporalID, h.ExtensionHeader.SpatialID, h.ExtensionHeader.Reserved3Bits}
	}
	av1WriteHdr(t, byte(h.Type), ext, h.HasSizeField, h.Reserved1Bit)
}

// ---------------------------------------------------------------------------------------------
// c13.rt

type av1View struct {
	err     bool
	z, y, n bool
	w       byte
	elems   [][]byte
}

// observeAV1Rt runs Payload and both receive paths and writes RtObs.
func observeAV1Rt(c *Case, mtu uint16, stream []byte) (payloads [][]byte, panicked bool) {
	o := &c.O
	// How the receiver holds the packets.  A third of the cases give every packet its own slice that
	// is never touched again; the others read every packet into ONE receive buffer (a window of a
	// larger array, as a network read loop does) that the next packet overwrites, half of those also
	// wipe it once the results of the call have been taken out.  What AV1Packet shows and what
	// ReadFrames / AV1Depacketizer return for a packet is copied out before the buffer is reused (they
	// may be views of the packet); what the assembler / depacketizer KEEP for later packets must be
	// their own, so the OBUs that come out must not depend on the mode.
	rxMode := c.R.Intn(3)
	var rxA, rxD []byte
	if rxMode != 0 {
		rxA, rxD = make([]byte, 0, 1<<16), make([]byte, 0, 1<<16)
		c.Tag("rx=one-reused-buffer")
	}
	recv := func(rx []byte, p []byte) []byte {
		if rxMode == 0 {
			return cloneBytes(p)
		}
		return append(rx[:0], p...)
	}
	done := func(b []byte) {
		if rxMode == 2 {
			for i := range b {
				b[i] = 0xEE
			}
		}
	}
	var views []av1View
	var frames [][][]byte
	type dres struct {
		err bool
		out []byte
	}
	var deps []dres
	panicked = try(func() {
		// the stream is handed over exactly sized or as a window of a larger array (payWindow)
		_, in := payWindow(stream, int(mtu))
		payloads = (&codecs.AV1Payloader{}).Payload(mtu, in)
		// the sender appends its trailer (auth tag, padding) to every payload in place
		scribbleSpare(payloads...)
		asm := &pkgframe.AV1{} // the deprecated alias of frame.AV1
		dep := &codecs.AV1Depacketizer{}
		for _, p := range payloads {
			pkt := &codecs.AV1Packet{}
			in := recv(rxA, p)
			_, err := pkt.Unmarshal(in)
			v := av1View{err: err != nil}
			var fr [][]byte
			if err == nil {
				v.z, v.y, v.n, v.w = pkt.Z, pkt.Y, pkt.N, pkt.W
				v.elems = cloneFrags(pkt.OBUElements)
				out, ferr := asm.ReadFrames(pkt)
				if ferr == nil {
					fr = cloneFrags(out)
				}
			}
			views = append(views, v)
			frames = append(frames, fr)
			done(in)
			din := recv(rxD, p)
			out, derr := dep.Unmarshal(din)
			deps = append(deps, dres{derr != nil, cloneBytes(out)})
			done(din)
		}
	})
	if panicked {
		o.Panic()
		return nil, true
	}
	o.Ok().BytesList(payloads)
	o.Nat(len(views))
	for _, v := range views {
		if v.err {
			o.Err("other")
		} else {
			o.Ok().Bool(v.z).Bool(v.y).Nat(int(v.w)).Bool(v.n).BytesList(v.elems)
		}
	}
	o.Nat(len(frames))
	for _, f := range frames {
		o.BytesList(f)
	}
	o.Nat(len(deps))
	for _, d := range deps {
		if d.err {
			o.Err("other")
		} else {
			o.Ok().Bytes(d.out)
		}
	}
	return payloads, false
}

func av1RtCase(c *Case, mtu int, os []av1Obu) {
	stream := av1Serialise(os)
	c.I.Nat(mtu)
	av1WriteObusW(&c.I, os)
	c.I.Bytes(stream)
	payloads, _ := observeAV1Rt(c, uint16(mtu), stream)
	for i := range os {
		if os[i].hasSize && os[i].szw > av1MinWidth(len(os[i].payload)) {
			c.Tag("padded-size-field")
			break
		}
	}
	if len(os) == 0 || len(payloads) == 0 {
		c.Trivial()
	}
	switch {
	case len(payloads) == 0:
		c.Tag("packets=0")
	case len(payloads) == 1:
		c.Tag("packets=1")
	case len(payloads) <= 4:
		c.Tag("packets=2-4")
	default:
		c.Tag("packets>4")
	}
	w0 := false
	for _, p := range payloads {
		if len(p) > 0 && p[0]&0x30 == 0 {
			w0 = true
		}
	}
	if w0 {
		c.Tag("has-W=0")
	}
	layers := map[[2]byte]bool{}
	for i := range os {
		if os[i].ext != nil {
			layers[[2]byte{os[i].ext[0], os[i].ext[1]}] = true
		}
	}
	if len(layers) >= 3 {
		c.Tag("layers>=3")
	} else if len(layers) == 2 {
		c.Tag("layers=2")
	}
}

// av1PickSize draws an OBU payload size around the boundaries that matter at this MTU.
func av1PickSize(r *Rand, mtu int, maxLen int) int {
	var n int
	switch r.Intn(8) {
	case 0:
		n = r.Pick(0, 1, 2)
	case 1:
		n = mtu + r.Range(-4, 1)
	case 2:
		n = r.Range(124, 131)
	case 3:
		n = r.Range(2, 5)*(mtu-1) + r.Range(-3, 2)
	case 4:
		n = r.Intn(mtu + 1)
	case 5:
		n = r.Range(0, 12)
	case 6:
		n = r.Pick(16381, 16382, 16383, 16384, 16385, 16386)
	default:
		n = r.Intn(3*mtu + 1)
	}
	if n < 0 {
		n = 0
	}
	if n > maxLen {
		n = maxLen
	}
	return n
}

// av1RandObus draws 1..maxN OBUs; ids come from a small palette so that both equal and different
// layer ids meet in one packet.
func av1RandObus(r *Rand, mtu, maxN, maxLen int, allowNoSizeInside bool) []av1Obu {
	n := r.Range(1, maxN)
	palette := [][3]byte{}
	for i, k := 0, r.Range(1, 4); i < k; i++ {
		palette = append(palette, [3]byte{byte(r.Intn(8)), byte(r.Intn(4)), byte(r.Pick(0, 0, 0, r.Intn(8)))})
	}
	os := make([]av1Obu, n)
	for i := range os {
		o := &os[i]
		switch r.Intn(10) {
		case 0:
			o.typ = 1 // sequence header
		case 1:
			o.typ = 2 // temporal delimiter
		case 2:
			o.typ = 8 // tile list
		case 3, 4:
			o.typ = byte(r.Intn(16))
		default:
			o.typ = byte(r.Pick(3, 4, 5, 6, 7, 15))
		}
		if r.Chance(3, 5) {
			e := palette[r.Intn(len(palette))]
			o.ext = &e
		}
		o.reserved1 = r.Chance(1, 8)
		o.hasSize = true
		if i == n-1 {
			o.hasSize = r.Bool()
		} else if allowNoSizeInside && r.Chance(1, 6) {
			o.hasSize = false
		}
		o.payload = r.Bytes(av1PickSize(r, mtu, maxLen))
	}
	return os
}

func genAV1Rt(x *Ctx) {
	mtus := []int{}
	for m := 2; m <= 64; m++ {
		mtus = append(mtus, m)
	}
	mtus = append(mtus, 200, 1200)
	// grid: one OBU, sizes around the MTU and the LEB128 boundary, with/without extension and size field
	for _, mtu := range mtus {
		sizes := []int{0, 1, mtu - 3, mtu - 2, mtu - 1, mtu, mtu + 1, 126, 127, 128, 129, 130, 2*mtu - 2, 3*mtu + 1}
		for _, n := range sizes {
			if n < 0 {
				continue
			}
			for v := 0; v < 4; v++ {
				x.Case(func(c *Case) {
					o := av1Obu{typ: 6, hasSize: v&1 == 0, payload: c.R.Bytes(n)}
					if v&2 != 0 {
						o.ext = &[3]byte{byte(c.R.Intn(8)), byte(c.R.Intn(4)), 0}
					}
					c.Tag("grid-single")
					av1RtCase(c, mtu, []av1Obu{o})
				})
			}
		}
	}
	// grid: k small OBUs filling one packet exactly / nearly (W = 1,2,3 and the W = 0 continuation)
	for _, mtu := range []int{5, 8, 13, 16, 31, 64, 200} {
		for k := 2; k <= 6; k++ {
			for d := -2; d <= 2; d++ {
				x.Case(func(c *Case) {
					var os []av1Obu
					each := (mtu-1)/k + d
					if each < 1 {
						each = 1
					}
					for i := 0; i < k; i++ {
						os = append(os, av1Obu{typ: 6, hasSize: true, payload: c.R.Bytes(each - 1)})
					}
					c.Tag("grid-fill")
					av1RtCase(c, mtu, os)
				})
			}
		}
	}
	// grid: three OBUs with pairwise different layer ids, and interleaved dropped OBUs
	for _, mtu := range []int{10, 50, 100, 1200} {
		for mid := 0; mid < 4; mid++ {
			x.Case(func(c *Case) {
				mk := func(s byte) av1Obu {
					return av1Obu{typ: 6, ext: &[3]byte{0, s, 0}, hasSize: true, payload: c.R.Bytes(c.R.Range(1, 4))}
				}
				os := []av1Obu{mk(1)}
				switch mid {
				case 1:
					os = append(os, av1Obu{typ: 8, hasSize: true, payload: c.R.Bytes(2)})
				case 2:
					os = append(os, av1Obu{typ: 2, hasSize: true})
				case 3:
					os = append(os, av1Obu{typ: 8, ext: &[3]byte{0, 1, 0}, hasSize: true, payload: c.R.Bytes(1)})
				}
				os = append(os, mk(2), mk(3))
				c.Tag("grid-layers")
				av1RtCase(c, mtu, os)
			})
		}
	}
	// a length-prefixed first element around the LEB128 boundaries 128 and 16384, packet nearly full
	for _, L := range []int{125, 126, 127, 128, 129, 130, 131, 16382, 16383, 16384, 16385, 16386} {
		for d := -2; d <= 6; d++ {
			x.Case(func(c *Case) {
				first := av1Obu{typ: 6, hasSize: true, payload: c.R.Bytes(L - 1)}
				second := av1Obu{typ: 6, hasSize: c.R.Bool(), payload: c.R.Bytes(c.R.Range(0, 3))}
				c.Tag("grid-leb-boundary")
				av1RtCase(c, L+d, []av1Obu{first, second})
			})
		}
	}
	// many tiny OBUs in one W = 0 packet (the deprecated parser compares its element counter as a byte)
	for _, k := range []int{200, 254, 255, 256, 257, 300, 520} {
		for _, mtu := range []int{1200, 65535} {
			x.Case(func(c *Case) {
				os := make([]av1Obu, k)
				for i := range os {
					os[i] = av1Obu{typ: 6, hasSize: true, payload: c.R.Bytes(c.R.Intn(2))}
				}
				c.Tag("grid-many-tiny")
				av1RtCase(c, mtu, os)
			})
		}
	}
	// random sequences
	for i, n := 0, x.N(14000, 600000); i < n; i++ {
		x.Case(func(c *Case) {
			mtu := c.R.Pick(c.R.Range(2, 8), c.R.Range(2, 64), c.R.Range(2, 64), c.R.Range(100, 300), 200, 1200)
			os := av1RandObus(c.R, mtu, 8, 4000, false)
			av1RtCase(c, mtu, os)
		})
	}
	// many small OBUs (W = 0 continuation, layer changes and dropped OBUs inside long packets)
	for i, n := 0, x.N(1500, 60000); i < n; i++ {
		x.Case(func(c *Case) {
			mtu := c.R.Pick(c.R.Range(6, 16), c.R.Range(16, 64), 200, 1200)
			k := c.R.Range(9, 40)
			os := make([]av1Obu, k)
			palette := [][3]byte{{0, 0, 0}, {byte(c.R.Intn(8)), byte(c.R.Intn(4)), 0}}
			for j := range os {
				o := &os[j]
				o.typ = byte(c.R.Pick(6, 6, 6, 3, 4, 5, 15, 8, 2, 1))
				if c.R.Chance(1, 3) {
					e := palette[c.R.Pick(0, 0, 0, 1)]
					o.ext = &e
				}
				o.hasSize = j < k-1 || c.R.Bool()
				o.payload = c.R.Bytes(c.R.Intn(7))
			}
			c.Tag("many-small")
			av1RtCase(c, mtu, os)
		})
	}
	// big MTUs and several-MTU sizes
	for i, n := 0, x.N(32, 3000); i < n; i++ {
		x.Case(func(c *Case) {
			mtu := c.R.Pick(1200, 1500, 16385, 65535)
			lim := 3 * mtu
			if lim > 140000 {
				lim = 140000
			}
			if !x.Thorough() && lim > 80000 {
				lim = 80000
			}
			os := av1RandObus(c.R, mtu, 4, lim, false)
			c.Tag("big-mtu")
			av1RtCase(c, mtu, os)
		})
	}
	// size fields that are not minimally encoded (AV1 spec 4.10.5: up to 8 bytes for any value).
	// grid: one or two OBUs, every width 1..8 that holds the size, sizes around the LEB128 boundaries
	for _, n := range []int{0, 1, 5, 126, 127, 128, 129, 300, 16383, 16384} {
		for w := 1; w <= 8; w++ {
			if w < av1MinWidth(n) {
				continue
			}
			for v := 0; v < 2; v++ {
				x.Case(func(c *Case) {
					mtu := c.R.Pick(c.R.Range(2, 12), c.R.Range(13, 64), 200, 1200)
					o := av1Obu{typ: 6, hasSize: true, payload: c.R.Bytes(n), szw: w}
					if c.R.Bool() {
						o.ext = &[3]byte{byte(c.R.Intn(8)), byte(c.R.Intn(4)), 0}
					}
					os := []av1Obu{o}
					if v == 1 {
						os = append(os, av1Obu{typ: byte(c.R.Pick(6, 3, 2, 8)), hasSize: c.R.Bool(), payload: c.R.Bytes(c.R.Range(0, 9))})
						if os[1].hasSize && c.R.Bool() {
							os[1].szw = c.R.Range(1, 8)
						}
					}
					c.Tag("grid-padded-size-field")
					av1RtCase(c, mtu, os)
				})
			}
		}
	}
	// random sequences, a share of (or all) the size fields padded
	for i, n := 0, x.N(4000, 200000); i < n; i++ {
		x.Case(func(c *Case) {
			mtu := c.R.Pick(c.R.Range(2, 8), c.R.Range(2, 64), c.R.Range(2, 64), c.R.Range(100, 300), 200, 1200)
			os := av1RandObus(c.R, mtu, 8, 4000, false)
			av1PadWidths(c.R, os, c.R.Chance(1, 4))
			av1RtCase(c, mtu, os)
		})
	}
	// outside the hypotheses (no-panic and correspondence only): MTU 0/1, size-less OBU inside, size
	// fields wider than 8 bytes (ReadLeb128's 64-bit accumulator drops the first bytes) or too narrow
	// for the value (the field then says a smaller size)
	for i, n := 0, x.N(900, 30000); i < n; i++ {
		x.Case(func(c *Case) {
			mtu := c.R.Pick(0, 1, c.R.Range(2, 64))
			os := av1RandObus(c.R, mtu+2, 5, 300, true)
			if i%3 == 2 {
				av1PadWidths(c.R, os, false)
				for j := range os {
					if os[j].hasSize && c.R.Chance(1, 3) {
						os[j].szw = c.R.Pick(1, 9, 10, 12)
					}
				}
			}
			c.Tag("non-wf")
			av1RtCase(c, mtu, os)
		})
	}
}

// ---------------------------------------------------------------------------------------------
// c13.leb, c13.lebrd

func av1WriteRead(o *Toks, in []byte) {
	var v, k uint
	var err error
	var v2, k2 uint
	var err2 error
	if try(func() {
		v, k, err = obu.ReadLeb128(in)
		v2, k2, err2 = pkgobu.ReadLeb128(in)
	}) {
		o.Tok("panic") // not a token of the format: a panic here is a protocol error
		return
	}
	if v != v2 || k != k2 || (err == nil) != (err2 == nil) {
		o.Tok("forward-mismatch")
		return
	}
	if err != nil {
		o.None()
	} else {
		o.Some().U64(uint64(v)).Nat(int(k))
	}
}

func genAV1Leb(x *Ctx) {
	one := func(n uint64, tail []byte) {
		x.Case(func(c *Case) {
			c.I.U64(n).Bytes(tail)
			var w []byte
			if try(func() { w = obu.WriteToLeb128(uint(n)) }) {
				c.O.Tok("panic")
				return
			}
			c.O.Bytes(w)
			av1WriteRead(&c.O, append(cloneBytes(w), tail...))
			switch {
			case n < 1<<32:
				c.Tag("n<2^32")
			case n < 1<<56:
				c.Tag("n<2^56")
			default:
				c.Tag("n>=2^56")
			}
		})
	}
	tails := [][]byte{{}, {0x00}, {0x80}, {0xff, 0x7f}, {0x01, 0x02, 0x03}}
	var ns []uint64
	for k := uint(1); k <= 9; k++ {
		for d := int64(-2); d <= 2; d++ {
			ns = append(ns, uint64(int64(1)<<(7*k)+d))
		}
	}
	ns = append(ns, 0, 1, 2, 126, 1<<32-2, 1<<32-1, 1<<32, 1<<32+1, 1<<56-1, 1<<56, 1<<63, 1<<64-1)
	for _, n := range ns {
		for _, t := range tails {
			one(n, t)
		}
	}
	for n := uint64(0); n < 600; n++ {
		one(n, nil)
	}
	for i, n := 0, x.N(6000, 400000); i < n; i++ {
		x.Case(func(c *Case) {
			var v uint64
			switch c.R.Intn(4) {
			case 0:
				v = c.R.U64() >> uint(c.R.Range(32, 63))
			case 1:
				v = uint64(1)<<uint(7*c.R.Range(1, 4)) + uint64(c.R.Range(0, 4)) - 2
			case 2:
				v = c.R.U64() >> uint(c.R.Range(0, 31))
			default:
				v = c.R.U64() & 0xffffffff
			}
			tail := c.R.Bytes(c.R.Intn(4))
			c.I.U64(v).Bytes(tail)
			var w []byte
			if try(func() { w = obu.WriteToLeb128(uint(v)) }) {
				c.O.Tok("panic")
				return
			}
			c.O.Bytes(w)
			av1WriteRead(&c.O, append(cloneBytes(w), tail...))
			if v < 1<<32 {
				c.Tag("n<2^32")
			} else {
				c.Tag("n>=2^32")
			}
		})
	}
}

func genAV1LebRd(x *Ctx) {
	one := func(in []byte) {
		x.Case(func(c *Case) {
			c.I.Bytes(in)
			av1WriteRead(&c.O, cloneBytes(in))
			if len(in) == 0 {
				c.Trivial()
			}
		})
	}
	one(nil)
	for a := 0; a < 256; a++ {
		one([]byte{byte(a)})
	}
	for _, a := range []byte{0x00, 0x7f, 0x80, 0x81, 0xff} {
		for b := 0; b < 256; b++ {
			one([]byte{a, byte(b)})
		}
	}
	for i, n := 0, x.N(6000, 300000); i < n; i++ {
		x.Case(func(c *Case) {
			// runs of continuation bytes of every length up to 12, then a terminator or the end
			k := c.R.Intn(13)
			in := make([]byte, 0, k+2)
			for j := 0; j < k; j++ {
				in = append(in, byte(c.R.Pick(0x80, 0x81, 0xff, 0x80|c.R.Intn(128))))
			}
			if c.R.Chance(4, 5) {
				in = append(in, byte(c.R.Intn(128)))
			}
			in = append(in, c.R.Bytes(c.R.Intn(3))...)
			c.I.Bytes(in)
			av1WriteRead(&c.O, cloneBytes(in))
			if k >= 8 {
				c.Tag("len>8")
			} else {
				c.Tag("len<=8")
			}
		})
	}
}

// ---------------------------------------------------------------------------------------------
// c13.obuhdr (every byte pair), c13.obumar (every header with fields in range, and some outside)

// av1EditEarlier is the history "an earlier result was edited by its owner": the same bytes were
// parsed before and the caller changed the header it got, including the extension header behind the
// exported pointer (`h.ExtensionHeader.SpatialID = 0`).  The parse under test starts from the bytes
// alone, so what C13 says about it is the same with and without this history (the model does not take
// it as an input; the case line records whether it took place).  Returns 1 if a header was edited,
// and the undo (run after the observation).
func av1EditEarlier(c *Case, in []byte) (int, func()) {
	if !c.R.Bool() {
		return 0, func() {}
	}
	var h0 *obu.Header
	var err error
	if try(func() { h0, err = obu.ParseOBUHeader(cloneBytes(in)) }) || err != nil || h0 == nil {
		return 0, func() {}
	}
	old := *h0
	h0.Type ^= 1
	h0.HasSizeField = !h0.HasSizeField
	h0.Reserved1Bit = !h0.Reserved1Bit
	e := h0.ExtensionHeader
	if e == nil {
		return 1, func() { *h0 = old }
	}
	oldExt := *e
	e.TemporalID = (e.TemporalID + uint8(c.R.Range(1, 7))) & 7
	e.SpatialID = (e.SpatialID + uint8(c.R.Range(1, 3))) & 3
	e.Reserved3Bits = (e.Reserved3Bits + uint8(c.R.Range(1, 7))) & 7
	c.Tag("earlier-result-edited-through-its-pointer")
	return 1, func() { *e = oldExt; *h0 = old }
}

func genAV1ObuHdr(x *Ctx) {
	one := func(in []byte) {
		x.Case(func(c *Case) {
			c.I.Bytes(in)
			edits, undo := av1EditEarlier(c, in)
			defer undo()
			c.I.Nat(edits)
			var h, h2 *obu.Header
			var err, err2 error
			var size int
			var m []byte
			if try(func() {
				h, err = obu.ParseOBUHeader(cloneBytes(in))
				if err == nil {
					size = h.Size()
					m = h.Marshal()
					h2, err2 = obu.ParseOBUHeader(m)
				}
			}) {
				c.O.Panic().Nat(0).Bytes(nil).Err("other")
				return
			}
			av1WriteLibHdr(&c.O, h, err)
			c.O.Nat(size).Bytes(m)
			if err != nil {
				c.O.Err("other")
				c.Tag("rejected")
			} else {
				av1WriteLibHdr(&c.O, h2, err2)
				if h.ExtensionHeader != nil {
					c.Tag("ext")
				} else {
					c.Tag("no-ext")
				}
			}
		})
	}
	one(nil)
	for a := 0; a < 256; a++ {
		one([]byte{byte(a)})
	}
	for a := 0; a < 256; a++ {
		for b := 0; b < 256; b++ {
			one([]byte{byte(a), byte(b)})
		}
	}
	for i, n := 0, x.N(500, 20000); i < n; i++ {
		x.Case(func(c *Case) {
			in := c.R.Bytes(c.R.Range(3, 6))
			c.I.Bytes(in)
			edits, undo := av1EditEarlier(c, in)
			defer undo()
			c.I.Nat(edits)
			h, err := obu.ParseOBUHeader(cloneBytes(in))
			av1WriteLibHdr(&c.O, h, err)
			if err != nil {
				c.O.Nat(0).Bytes(nil).Err("other")
				return
			}
			m := h.Marshal()
			c.O.Nat(h.Size()).Bytes(m)
			h2, err2 := obu.ParseOBUHeader(m)
			av1WriteLibHdr(&c.O, h2, err2)
		})
	}
}

func genAV1ObuMar(x *Ctx) {
	one := func(typ byte, ext *[3]byte, hasSize, res1 bool, wf bool) {
		x.Case(func(c *Case) {
			av1WriteHdr(&c.I, typ, ext, hasSize, res1)
			h := &obu.Header{Type: obu.Type(typ), HasSizeField: hasSize, Reserved1Bit: res1}
			if ext != nil {
				h.ExtensionHeader = &obu.ExtensionHeader{TemporalID: ext[0], SpatialID: ext[1], Reserved3Bits: ext[2]}
			}
			var m []byte
			var size int
			var h2 *obu.Header
			var err2 error
			if try(func() {
				m = h.Marshal()
				size = h.Size()
				h2, err2 = obu.ParseOBUHeader(m)
			}) {
				c.O.Bytes(nil).Nat(0).Panic()
				return
			}
			c.O.Bytes(m).Nat(size)
			av1WriteLibHdr(&c.O, h2, err2)
			if !wf {
				c.Tag("out-of-range")
			}
		})
	}
	for typ := 0; typ < 16; typ++ {
		for f := 0; f < 4; f++ {
			one(byte(typ), nil, f&1 != 0, f&2 != 0, true)
			for t := 0; t < 8; t++ {
				for s := 0; s < 4; s++ {
					for r := 0; r < 8; r++ {
						one(byte(typ), &[3]byte{byte(t), byte(s), byte(r)}, f&1 != 0, f&2 != 0, true)
					}
				}
			}
		}
	}
	for i, n := 0, x.N(1500, 50000); i < n; i++ {
		typ := byte(16 + i%240)
		one(typ, nil, i%2 == 0, i%3 == 0, false)
		one(byte(i%16), &[3]byte{byte(i % 256), byte((i / 7) % 256), byte((i / 3) % 256)}, i%2 == 0, i%5 == 0, false)
	}
}

// ---------------------------------------------------------------------------------------------
// c15.av1

func av1Frame(r *Rand, mtu int) [][]byte {
	os := av1RandObus(r, mtu, 4, 6*mtu, false)
	for i := range os {
		if os[i].typ == 2 || os[i].typ == 8 {
			os[i].typ = 6
		}
	}
	return (&codecs.AV1Payloader{}).Payload(uint16(mtu), av1Serialise(os))
}

func av1Garbage(r *Rand) []byte {
	if r.Chance(1, 10) {
		return nil
	}
	n := r.Size(40, 2, 3)
	b := r.Bytes(n)
	if n > 0 {
		b[0] = byte(r.Pick(0x00, 0x10, 0x20, 0x30, 0x40, 0x50, 0x80, 0x90, 0xc0, 0xd0, 0x08, 0x48, int(b[0])))
	}
	for i := 1; i < n; i++ {
		if r.Chance(1, 2) {
			b[i] = byte(r.Pick(0, 1, 2, 3, 0x30, 0x32, 0x0a, 0x12, 0x80, 0x7f))
		}
	}
	return b
}

func av1ResyncCase(c *Case, pre [][]byte, fr [][]byte) {
	c.I.Nat(len(pre))
	for _, p := range pre {
		c.I.OBytes(p)
	}
	c.I.BytesList(fr)
	used := &codecs.AV1Depacketizer{}
	for _, p := range pre {
		try(func() { used.Unmarshal(cloneBytes(p)) }) //nolint
	}
	fresh := &codecs.AV1Depacketizer{}
	for _, d := range []*codecs.AV1Depacketizer{used, fresh} {
		c.O.Nat(len(fr))
		for _, p := range fr {
			var out []byte
			var err error
			if try(func() { out, err = d.Unmarshal(cloneBytes(p)) }) {
				c.O.Panic()
			} else if err != nil {
				c.O.Err("other")
			} else {
				c.O.Ok().Bytes(out)
			}
		}
	}
	if len(fr) == 0 {
		c.Trivial()
	}
}

func genAV1Resync(x *Ctx) {
	// DESIGN §7-style literals first (short lines also serve as evidence samples)
	x.Case(func(c *Case) {
		c.Tag("abandoned-fragment")
		av1ResyncCase(c, [][]byte{{0x50, 0x30, 0x01, 0x02, 0x03}}, [][]byte{{0x10, 0x30, 0x04, 0x05}})
	})
	x.Case(func(c *Case) {
		c.Tag("abandoned-fragment")
		av1ResyncCase(c, [][]byte{{0x50, 0x30, 0x01}, {0xd0, 0x02}}, [][]byte{{0x50, 0x30, 0x04}, {0x90, 0x05}})
	})
	// every delivery subset of an earlier frame of up to 10 packets (quick: up to 7), then an intact frame
	for i, n := 0, x.N(60, 1500); i < n; i++ {
		var a, b [][]byte
		var mtu int
		// the frames are drawn from a PRNG of their own so that all subsets share them
		r := newRand(x.Seed, x.Kind+"/frames", i)
		maxPk := 7
		if x.Thorough() {
			maxPk = 10
		}
		for tries := 0; tries < 50; tries++ {
			mtu = r.Pick(r.Range(2, 12), r.Range(5, 40), 64, 200)
			a = av1Frame(r, mtu)
			if len(a) >= 2 && len(a) <= maxPk {
				break
			}
			a = nil
		}
		b = av1Frame(r, mtu)
		if a == nil || len(b) == 0 {
			continue
		}
		for mask := 0; mask < 1<<uint(len(a)); mask++ {
			x.Case(func(c *Case) {
				var pre [][]byte
				for j := range a {
					if mask&(1<<uint(j)) != 0 {
						pre = append(pre, a[j])
					}
				}
				if mask == 1<<uint(len(a))-1 {
					c.Tag("no-loss")
				} else if len(pre) > 0 && pre[len(pre)-1][0]&0x40 != 0 {
					c.Tag("abandoned-fragment")
				} else {
					c.Tag("loss")
				}
				av1ResyncCase(c, pre, b)
			})
		}
	}
	// random subsets of longer frames, garbage before / between, frames whose first packet is a continuation
	for i, n := 0, x.N(5000, 300000); i < n; i++ {
		x.Case(func(c *Case) {
			mtu := c.R.Pick(c.R.Range(2, 12), c.R.Range(5, 64), 200)
			var pre [][]byte
			for k := c.R.Range(0, 2); k >= 0; k-- {
				for _, p := range av1Frame(c.R, mtu) {
					if c.R.Chance(2, 3) {
						pre = append(pre, p)
					}
					if c.R.Chance(1, 8) {
						pre = append(pre, av1Garbage(c.R))
					}
				}
			}
			for k := c.R.Intn(3); k > 0; k-- {
				pre = append(pre, av1Garbage(c.R))
			}
			fr := av1Frame(c.R, mtu)
			if c.R.Chance(1, 12) && len(fr) > 1 {
				fr = fr[1:] // not an intact frame: starts with a continuation (outside the hypothesis)
				c.Tag("starts-with-Z")
			} else if len(pre) > 0 && len(pre[len(pre)-1]) > 0 && pre[len(pre)-1][0]&0x40 != 0 {
				c.Tag("abandoned-fragment")
			} else {
				c.Tag("other-prehistory")
			}
			av1ResyncCase(c, pre, fr)
		})
	}
	// pure garbage prehistory
	for i, n := 0, x.N(3000, 200000); i < n; i++ {
		x.Case(func(c *Case) {
			var pre [][]byte
			for k := c.R.Range(1, 6); k > 0; k-- {
				pre = append(pre, av1Garbage(c.R))
			}
			c.Tag("garbage-prehistory")
			av1ResyncCase(c, pre, av1Frame(c.R, c.R.Range(2, 40)))
		})
	}
}

// ---------------------------------------------------------------------------------------------
// c08.av1

// av1SeedInput builds inputs that begin like OBU streams (headers, size fields) with random damage.
func av1SeedInput(r *Rand, mtu int) []byte {
	switch r.Intn(7) {
	case 0:
		return nil
	case 1:
		return []byte{}
	case 2:
		return r.Bytes(r.Size(200, mtu, 2*mtu))
	case 3, 4:
		obus := av1RandObus(r, mtu+2, 5, 3*mtu+40, true)
		if r.Chance(1, 3) {
			av1PadWidths(r, obus, false) // obu_size fields wider than necessary (AV1 spec 4.10.5)
		}
		b := av1Serialise(obus)
		if r.Chance(1, 3) && len(b) > 0 {
			b = b[:r.Intn(len(b)+1)]
		}
		if r.Chance(1, 3) && len(b) > 0 {
			b[r.Intn(len(b))] ^= 1 << uint(r.Intn(8))
		}
		return b
	default:
		// OBU header alphabet
		n := r.Size(120, mtu, 2*mtu)
		b := make([]byte, n)
		for i := range b {
			b[i] = byte(r.Pick(0x0a, 0x12, 0x32, 0x30, 0x34, 0x36, 0x16, 0x42, 0x00, 0x01, 0x02, 0x03, 0x7f, 0x80, 0x81, 0xff, int(r.Byte())))
		}
		return b
	}
}

func genAV1C08(x *Ctx) {
	mk := func() payloader { return &codecs.AV1Payloader{} }
	run := func(c *Case, calls []PayCall) {
		writeCalls(&c.I, calls)
		observePayHist(&c.O, mk, calls)
		triv := true
		for _, k := range calls {
			if k.MTU >= 2 && len(k.Input) > 0 {
				triv = false
			}
			switch {
			case k.MTU < 2:
				c.Tag("mtu<2")
			case k.MTU <= 20:
				c.Tag("mtu 2-20")
			case k.MTU <= 64:
				c.Tag("mtu 21-64")
			default:
				c.Tag("mtu>64")
			}
		}
		if triv {
			c.Trivial()
		}
	}
	// MTU 0..20 exhaustively × fixed seeds (single-call histories and a three-call history)
	seeds := [][]byte{nil, {}, {0x0a}, {0x12, 0x00}, {0x32, 0x01, 0x05}, {0x30, 0xaa, 0xbb, 0xcc}, {0x80}, {0x36, 0x28},
		{0x0a, 0x01, 0x00, 0x32, 0x03, 0x01, 0x02, 0x03, 0x30, 0x09, 0x09, 0x09, 0x09, 0x09, 0x09, 0x09, 0x09, 0x09, 0x09, 0x09, 0x09, 0x09, 0x09, 0x09, 0x09, 0x09, 0x09, 0x09, 0x09, 0x09, 0x09, 0x09},
		{0x32, 0x80, 0x80, 0x80, 0x80, 0x80, 0x80, 0x80, 0x80, 0x80, 0x01}, {0x36, 0x08, 0x05, 1, 2, 3, 4, 5, 0x36, 0x10, 0x02, 6, 7, 0x36, 0x18, 0x01, 8}}
	for mtu := 0; mtu <= 20; mtu++ {
		for _, s := range seeds {
			x.Case(func(c *Case) { run(c, []PayCall{{uint16(mtu), cloneBytes(s)}}) })
		}
		x.Case(func(c *Case) {
			run(c, []PayCall{{uint16(mtu), cloneBytes(seeds[8])}, {uint16(mtu), cloneBytes(seeds[10])}, {uint16(mtu), cloneBytes(seeds[8])}})
		})
	}
	// a length-prefixed first element around the LEB128 boundaries 128 and 16384, packet nearly full:
	// OBU of total length L followed by a small one, MTU = L + d
	for _, L := range []int{120, 125, 126, 127, 128, 129, 130, 131, 16381, 16382, 16383, 16384, 16385, 16386, 16387} {
		for d := -2; d <= 6; d++ {
			x.Case(func(c *Case) {
				mtu := L + d
				first := av1Obu{typ: 6, hasSize: true, payload: c.R.Bytes(L - 1)}
				second := av1Obu{typ: 6, hasSize: c.R.Bool(), payload: c.R.Bytes(c.R.Range(0, 3))}
				c.Tag("leb-boundary")
				run(c, []PayCall{{uint16(mtu), av1Serialise([]av1Obu{first, second})}})
			})
		}
	}
	// a FRAGMENTED first OBU whose last fragment nearly fills a packet, followed by a small OBU that
	// shares that packet, for MTUs where the fragment's length field takes two bytes (>= 128):
	// total length = mult*MTU + d.  (seed C08-4: room computed without the aggregation-header byte)
	for _, mtu := range []int{130, 131, 132, 200, 255, 256, 257, 300, 1200} {
		for mult := 1; mult <= 3; mult++ {
			for d := -9; d <= 3; d++ {
				mtu, mult, d := mtu, mult, d
				x.Case(func(c *Case) {
					L := mult*mtu + d
					first := av1Obu{typ: 6, hasSize: true, payload: c.R.Bytes(L - 1)}
					second := av1Obu{typ: 6, hasSize: c.R.Bool(), payload: c.R.Bytes(c.R.Range(0, 3))}
					c.Tag("fragment-fills-packet")
					run(c, []PayCall{{uint16(mtu), av1Serialise([]av1Obu{first, second})}})
				})
			}
		}
	}
	// the k-th element of a packet (k = 0..5 small OBUs in front, so that from the fourth element on W = 0
	// and EVERY element carries a length field) meets a free space f around the LEB128 boundaries 128 and
	// 16384, and the OBU that goes there is a little shorter, exactly as long, a little or much longer than
	// what fits: MTU = 1 + 3k + f.  (seed C08-r7-2: the length field of a trimmed element grows back)
	for _, f := range []int{125, 126, 127, 128, 129, 130, 131, 132, 16381, 16382, 16383, 16384, 16385, 16386, 16387, 16388, 16389} {
		for k := 0; k <= 5; k++ {
			for _, dl := range []int{-3, -2, -1, 0, 1, 2, 3, 300} {
				f, k, dl := f, k, dl
				if f > 16000 && x.Tier != "thorough" && (k != 0 && k != 3 && k != 4) {
					continue
				}
				x.Case(func(c *Case) {
					var obus []av1Obu
					for j := 0; j < k; j++ {
						obus = append(obus, av1Obu{typ: 6, hasSize: true, payload: []byte{byte(0xa0 + j)}})
					}
					L := f + dl
					obus = append(obus, av1Obu{typ: 6, hasSize: true, payload: c.R.Bytes(L - 1)})
					if c.R.Bool() {
						obus = append(obus, av1Obu{typ: 6, hasSize: c.R.Bool(), payload: c.R.Bytes(c.R.Range(0, 3))})
					}
					if c.R.Chance(1, 3) {
						av1PadWidths(c.R, obus, false)
					}
					c.Tag("kth-element-meets-leb-boundary")
					run(c, []PayCall{{uint16(1 + 3*k + f), av1Serialise(obus)}})
				})
			}
		}
	}
	for i, n := 0, x.N(9000, 500000); i < n; i++ {
		x.Case(func(c *Case) {
			k := c.R.Range(1, 4)
			calls := make([]PayCall, k)
			for j := range calls {
				mtu := c.R.Pick(c.R.Range(0, 20), c.R.Range(0, 20), c.R.Range(21, 64), 1200, 1500, 65535)
				in := av1SeedInput(c.R, mtu%300)
				calls[j] = PayCall{uint16(mtu), in}
			}
			run(c, calls)
		})
	}
}

// ---------------------------------------------------------------------------------------------
// c09.av1, c09.av1packet

type av1DepRes struct {
	panicked, err bool
	out           []byte
	z, y, n       bool
}

func av1DepCall(d *codecs.AV1Depacketizer, buf []byte) (r av1DepRes) {
	var out []byte
	var err error
	r.panicked = try(func() { out, err = d.Unmarshal(buf) })
	r.err = err != nil
	r.out = cloneBytes(out)
	r.z, r.y, r.n = d.Z, d.Y, d.N
	return r
}

func (a av1DepRes) sameResult(b av1DepRes) bool {
	return a.panicked == b.panicked && a.err == b.err && bytes.Equal(a.out, b.out)
}

// av1DepHist feeds the payloads to ONE AV1Depacketizer and writes `<n> DepObs*`.
func av1DepHist(c *Case, payloads [][]byte) {
	// the only option of the receiver: SetZeroAllocation (inherited from videoDepacketizer; it must
	// make no difference to AV1Depacketizer) — drawn per case
	zero := c.R.Chance(1, 3)
	c.I.Bool(zero).Nat(len(payloads))
	for _, p := range payloads {
		c.I.OBytes(p)
	}
	main, twin := &codecs.AV1Depacketizer{}, &codecs.AV1Depacketizer{}
	if zero {
		main.SetZeroAllocation(true)
		twin.SetZeroAllocation(true)
		c.Tag("zero-allocation")
	}
	c.O.Nat(len(payloads))
	for _, p := range payloads {
		buf := cloneBytes(p)
		r := av1DepCall(main, buf)
		var head, t0, t1 bool
		aux := try(func() {
			head = main.IsPartitionHead(buf)
			t0 = main.IsPartitionTail(false, buf)
			t1 = main.IsPartitionTail(true, buf)
		})
		fresh := &codecs.AV1Depacketizer{}
		if zero {
			fresh.SetZeroAllocation(true)
		}
		f := av1DepCall(fresh, cloneBytes(p))
		tw := av1DepCall(twin, cloneBytes(p))
		// the caller's buffer is now overwritten: state that aliases it corrupts later results
		for i := range buf {
			buf[i] ^= 0xA5
		}
		switch {
		case r.panicked:
			c.O.Panic()
		case r.err:
			c.O.Err("other")
		default:
			c.O.Ok().Bytes(r.out)
		}
		c.O.Bool(r.z).Bool(r.y).Bool(r.n).Bool(head).Bool(t0).Bool(t1).Bool(aux)
		c.O.Bool(r.sameResult(f) && r.z == f.z && r.y == f.y && r.n == f.n)
		c.O.Bool(r.sameResult(tw))
		if r.err {
			c.Tag("err")
		} else if !r.panicked {
			c.Tag("ok")
		}
	}
}

// av1Mutate damages a valid payload: truncation, bit flip, header byte change, extension.
func av1Mutate(r *Rand, p []byte) []byte {
	q := cloneBytes(p)
	switch r.Intn(6) {
	case 0:
		if len(q) > 0 {
			q = q[:r.Intn(len(q)+1)]
		}
	case 1:
		if len(q) > 0 {
			q[r.Intn(len(q))] ^= 1 << uint(r.Intn(8))
		}
	case 2:
		if len(q) > 0 {
			q[0] = byte(r.Intn(256))
		}
	case 3:
		q = append(q, r.Bytes(r.Range(1, 3))...)
	case 4:
		if len(q) > 1 {
			q[1+r.Intn(min(len(q)-1, 3))] = byte(r.Pick(0x00, 0x80, 0xff, 0x7f, 0x02, 0x12, 0x42))
		}
	}
	return q
}

func av1Stream(r *Rand) [][]byte {
	var ps [][]byte
	mtu := r.Pick(r.Range(2, 10), r.Range(5, 40), 100)
	for k := r.Range(1, 3); k > 0; k-- {
		for _, p := range av1Frame(r, mtu) {
			switch r.Intn(6) {
			case 0: // lost
			case 1:
				ps = append(ps, av1Mutate(r, p))
			case 2:
				ps = append(ps, p, av1Garbage(r))
			default:
				ps = append(ps, p)
			}
		}
	}
	return ps
}


// av1LongLebPayloads: payloads whose element length field is an over-long / over-wide LEB128
// (1–10 bytes, continuation bytes ff or 80, last byte 00 / 01 / 7f), behind every aggregation
// header shape that has a length field, followed by 0–24 bytes.  A 10-byte field with a set bit in
// its last byte overflows 63 bits: the length arithmetic of the parsers must still reject it
// instead of slicing out of range (seed C09-6).
func av1LongLebPayloads(r *Rand) [][]byte {
	var out [][]byte
	for _, hdr := range []byte{0x00, 0x20, 0x30, 0x40, 0x80, 0xC0, 0x08, 0x28} {
		for k := 1; k <= 10; k++ {
			for _, cont := range []byte{0xff, 0x80} {
				for _, last := range []byte{0x00, 0x01, 0x7f} {
					p := []byte{hdr}
					for i := 0; i < k-1; i++ {
						p = append(p, cont)
					}
					p = append(p, last)
					tail := r.Pick(0, 1, 2, 12, 24)
					p = append(p, 0x30)
					p = append(p, r.Bytes(tail)...)
					out = append(out, p)
				}
			}
		}
	}
	return out
}

// av1FragmentedObu: ONE OBU without obu_size (header, optional extension byte, `body` bytes) carried as
// the only element (W=1) of consecutive packets of at most `per` OBU bytes each: Y=1, then Z=1,Y=1 …,
// then Z=1.  The depacketizer emits the reassembled OBU with an obu_size it computes itself, so `body`
// decides how many LEB128 bytes that takes (1 below 2^7, 2 below 2^14, 3 below 2^21, 4 from 2^21).
func av1FragmentedObu(r *Rand, ext bool, body, per int) [][]byte {
	typ := byte(r.Pick(1, 3, 4, 5, 6, 7, 15)) // not a temporal delimiter (2) / tile list (8): those are dropped
	o := make([]byte, 0, body+2)
	if ext {
		o = append(o, typ<<3|0x04, byte(r.Intn(256))&0xf8)
	} else {
		o = append(o, typ<<3)
	}
	o = append(o, r.Bytes(body)...)
	var ps [][]byte
	for off := 0; off < len(o); off += per {
		end := off + per
		if end > len(o) {
			end = len(o)
		}
		h := byte(0x10)
		if off > 0 {
			h |= 0x80
		}
		if end < len(o) {
			h |= 0x40
		}
		p := make([]byte, 0, 1+end-off)
		p = append(p, h)
		ps = append(ps, append(p, o[off:end]...))
	}
	return ps
}

func genAV1C09(x *Ctx) {
	// all strings of at most 2 bytes (3 in the thorough tier), in runs fed to one receiver
	var all [][]byte
	all = append(all, nil, []byte{})
	for a := 0; a < 256; a++ {
		all = append(all, []byte{byte(a)})
	}
	for a := 0; a < 256; a++ {
		for b := 0; b < 256; b++ {
			all = append(all, []byte{byte(a), byte(b)})
		}
	}
	// DESIGN §7 row 11 first (short lines also serve as evidence samples)
	x.Case(func(c *Case) {
		c.Tag("literal")
		av1DepHist(c, [][]byte{{0x50, 0x30, 0x01, 0x02, 0x03}, {0x90, 0x04, 0x05}})
	})
	x.Case(func(c *Case) {
		c.Tag("literal")
		av1DepHist(c, [][]byte{nil, {}, {0x10}, {0x10, 0x30}, {0x18, 0x0a, 0x00}})
	})
	// OBU elements that carry obu_has_size_field: right size, wrong size, broken LEB128, size field in a
	// fragmented OBU (validated against the last fragment's length), temporal delimiter / tile list last
	x.Case(func(c *Case) {
		c.Tag("literal")
		av1DepHist(c, [][]byte{{0x10, 0x32, 0x01, 0xaa}, {0x10, 0x32, 0x02, 0xaa}, {0x10, 0x32, 0x80},
			{0x20, 0x03, 0x32, 0x01, 0xaa, 0x30, 0xbb}, {0x00, 0x03, 0x32, 0x01, 0xaa, 0x02, 0x30, 0xbb},
			{0x50, 0x32, 0x02, 0xaa}, {0x90, 0xbb}, {0x50, 0x36, 0x08, 0x02, 0xaa}, {0x90, 0xbb},
			{0x10, 0x12, 0x00}, {0x20, 0x01, 0x30, 0x12}, {0x00, 0x01, 0x30, 0x01, 0x42}, {0x30, 0x01, 0x30, 0x01, 0x30}})
	})
	for g := 0; g < 15; g++ {
		g := g
		x.Case(func(c *Case) {
			c.Tag("long-leb128-length-field")
			ps := av1LongLebPayloads(c.R)
			av1DepHist(c, ps[g*32:(g+1)*32])
		})
	}
	const run = 32
	for i := 0; i < len(all); i += run {
		j := i + run
		if j > len(all) {
			j = len(all)
		}
		x.Case(func(c *Case) { c.Tag("exhaustive<=2"); av1DepHist(c, all[i:j]) })
	}
	if x.Thorough() {
		for a := 0; a < 256; a++ {
			for b := 0; b < 256; b++ {
				x.Case(func(c *Case) {
					ps := make([][]byte, 256)
					for d := 0; d < 256; d++ {
						ps[d] = []byte{byte(a), byte(b), byte(d)}
					}
					c.Tag("exhaustive=3")
					av1DepHist(c, ps)
				})
			}
		}
	}
	// a fragment left in the buffer, then every 2-byte string (continuations onto a live buffer)
	for a := 0; a < 256; a++ {
		x.Case(func(c *Case) {
			ps := make([][]byte, 0, 512)
			for b := 0; b < 256; b++ {
				ps = append(ps, []byte{0x50, 0x30, 0x01, 0x02}, []byte{byte(a), byte(b)})
			}
			c.Tag("live-buffer+2")
			av1DepHist(c, ps)
		})
	}
	for i, n := 0, x.N(7000, 500000); i < n; i++ {
		x.Case(func(c *Case) {
			if c.R.Chance(1, 4) {
				var ps [][]byte
				for k := c.R.Range(1, 10); k > 0; k-- {
					ps = append(ps, av1Garbage(c.R))
				}
				c.Tag("garbage")
				av1DepHist(c, ps)
				return
			}
			c.Tag("mutated-stream")
			av1DepHist(c, av1Stream(c.R))
		})
	}
	// one OBU reassembled from fragments whose size crosses a LEB128 width boundary of the obu_size the
	// depacketizer writes (2^7, 2^14, 2^21), with and without extension header, followed by an ordinary
	// small OBU on the same receiver
	for _, k := range []int{7, 14, 21} {
		for _, ext := range []bool{false, true} {
			for _, d := range []int{-1, 0, 1, 2} {
				k, ext, d := k, ext, d
				if k == 21 && !(ext && d == 0) && !x.Thorough() {
					// ≈ 2 MiB per case: one in the quick tier, the whole grid in the thorough tier
					continue
				}
				x.Case(func(c *Case) {
					body := 1<<uint(k) + d
					if d == 2 {
						body = 1<<uint(k) + c.R.Range(2, 5000)
					}
					lo := body/40 + 1 // at most ~40 fragments (every continuation re-copies the retained bytes)
				if body < 300 {
					lo = 1
				}
				per := c.R.Pick(c.R.Range(lo, body), c.R.Range(lo, body), 1200, c.R.Range(30000, 65535))
					if k == 21 {
						per = c.R.Pick(60000, c.R.Range(50000, 65535))
					}
					c.Tag(fmt.Sprintf("fragmented-obu-2^%d", k))
					ps := av1FragmentedObu(c.R, ext, body, per)
					ps = append(ps, av1FragmentedObu(c.R, c.R.Bool(), c.R.Range(1, 40), 16)...)
					av1DepHist(c, ps)
				})
			}
		}
	}
}

type av1PktRes struct {
	panicked, err bool
	out           []byte
	z, y, n       bool
	w             byte
	elems         [][]byte
	fpanic        bool
	frames        [][]byte
}

// av1PktCall: Unmarshal, then ReadFrames on the packet — after a successful Unmarshal, and, if `always`,
// also after Unmarshal refused the payload (the packet then holds whatever the refused call stored:
// C09 says the calls never panic "however they are interleaved").
func av1PktCall(pkt *codecs.AV1Packet, asm *frame.AV1, buf []byte, always bool) (r av1PktRes) {
	var out []byte
	var err error
	r.panicked = try(func() { out, err = pkt.Unmarshal(buf) })
	r.err = err != nil
	r.out = cloneBytes(out)
	r.z, r.y, r.n, r.w = pkt.Z, pkt.Y, pkt.N, pkt.W
	r.elems = cloneFrags(pkt.OBUElements)
	if !r.panicked && (!r.err || always) {
		var fr [][]byte
		r.fpanic = try(func() { fr, _ = asm.ReadFrames(pkt) })
		r.frames = cloneFrags(fr)
	}
	return r
}

// after: 0 = ReadFrames only after a successful Unmarshal, 1 = after every Unmarshal that returned,
// 2 = a coin per call.
func av1PktHist(c *Case, reuse bool, after int, payloads [][]byte) {
	always := make([]bool, len(payloads))
	for i := range always {
		always[i] = after == 1 || (after == 2 && c.R.Bool())
	}
	if after != 0 {
		c.Tag("ReadFrames-after-refused-Unmarshal")
	}
	c.I.Bool(reuse).Nat(len(payloads))
	for i, p := range payloads {
		c.I.OBytes(p).Bool(always[i])
	}
	pkt, tpkt := &codecs.AV1Packet{}, &codecs.AV1Packet{}
	asm, tasm := &frame.AV1{}, &frame.AV1{}
	c.O.Nat(len(payloads))
	for i, p := range payloads {
		if !reuse {
			pkt, tpkt = &codecs.AV1Packet{}, &codecs.AV1Packet{}
		}
		var buf []byte
		if p != nil {
			buf = cloneBytes(p)
		}
		r := av1PktCall(pkt, asm, buf, always[i])
		tw := av1PktCall(tpkt, tasm, cloneBytes(p), always[i])
		if !reuse {
			// AV1Packet.OBUElements are views into the packet by design; the assembler must own
			// what it keeps: overwrite the packet once this call's outputs have been recorded
			for i := range buf {
				buf[i] ^= 0xA5
			}
		}
		switch {
		case r.panicked:
			c.O.Panic()
		case r.err:
			c.O.Err("other")
		default:
			c.O.Ok().Bytes(r.out)
		}
		c.O.Bool(r.z).Bool(r.y).Nat(int(r.w)).Bool(r.n).BytesList(r.elems)
		if r.fpanic {
			c.O.Panic()
		} else {
			c.O.Ok().BytesList(r.frames)
		}
		same := r.panicked == tw.panicked && r.err == tw.err && bytes.Equal(r.out, tw.out) &&
			r.fpanic == tw.fpanic && fragsEqual(r.frames, tw.frames)
		c.O.Bool(same)
		if r.err {
			c.Tag("err")
		} else {
			c.Tag("ok")
		}
	}
}

func genAV1C09Pkt(x *Ctx) {
	var all [][]byte
	all = append(all, nil, []byte{})
	for a := 0; a < 256; a++ {
		all = append(all, []byte{byte(a)})
	}
	for a := 0; a < 256; a++ {
		for b := 0; b < 256; b++ {
			all = append(all, []byte{byte(a), byte(b)})
		}
	}
	x.Case(func(c *Case) {
		c.Tag("literal")
		av1PktHist(c, false, 0, [][]byte{{0x50, 0x30, 0x01, 0x02, 0x03}, {0x90, 0x04, 0x05}})
	})
	x.Case(func(c *Case) {
		c.Tag("literal")
		av1PktHist(c, true, 1, [][]byte{nil, {}, {0x10}, {0x10, 0x30}, {0x20, 0x01, 0x0a, 0x30, 0x01}})
	})
	for g := 0; g < 15; g++ {
		g := g
		x.Case(func(c *Case) {
			c.Tag("long-leb128-length-field")
			ps := av1LongLebPayloads(c.R)
			av1PktHist(c, g%2 == 1, g%3, ps[g*32:(g+1)*32])
		})
	}
	const run = 32
	for i := 0; i < len(all); i += run {
		j := i + run
		if j > len(all) {
			j = len(all)
		}
		x.Case(func(c *Case) { c.Tag("exhaustive<=2"); av1PktHist(c, false, 0, all[i:j]) })
		x.Case(func(c *Case) { c.Tag("exhaustive<=2"); av1PktHist(c, false, 1, all[i:j]) })
	}
	if x.Thorough() {
		for a := 0; a < 256; a++ {
			for b := 0; b < 256; b++ {
				x.Case(func(c *Case) {
					ps := make([][]byte, 256)
					for d := 0; d < 256; d++ {
						ps[d] = []byte{byte(a), byte(b), byte(d)}
					}
					c.Tag("exhaustive=3")
					av1PktHist(c, false, 2, ps)
				})
			}
		}
	}
	// a fragment held by the assembler, then every 2-byte string
	for a := 0; a < 256; a++ {
		x.Case(func(c *Case) {
			ps := make([][]byte, 0, 512)
			for b := 0; b < 256; b++ {
				ps = append(ps, []byte{0x50, 0x30, 0x01, 0x02}, []byte{byte(a), byte(b)})
			}
			c.Tag("live-buffer+2")
			av1PktHist(c, false, 2, ps)
		})
	}
	// every aggregation header byte in front of bodies AV1Packet.Unmarshal refuses for each of its
	// reasons (element longer than the packet, unterminated LEB128, one-byte payload, Z with N) and of
	// bodies it accepts, ReadFrames called after every one of them; between the refusals a fragment is
	// left with the assembler (Y = 1) and a continuation (Z = 1) arrives.  Fresh AV1Packet per payload
	// and one reused AV1Packet.
	for _, reuse := range []bool{false, true} {
		for h0 := 0; h0 < 256; h0 += 8 {
			x.Case(func(c *Case) {
				var ps [][]byte
				for h := h0; h < h0+8; h++ {
					for _, body := range [][]byte{{0x05, 0x01}, {0xff}, {0x80, 0x80}, {}, {0x00}, {0x01, 0xaa}, {0x02, 0xaa, 0xbb, 0x01}} {
						ps = append(ps, append([]byte{byte(h)}, body...))
						switch c.R.Intn(4) {
						case 0:
							ps = append(ps, []byte{0x50, 0x30, 0x01, 0x02})
						case 1:
							ps = append(ps, []byte{0x90, 0x07})
						}
					}
				}
				c.Tag("refused-after-every-header")
				av1PktHist(c, reuse, 1, ps)
			})
		}
	}
	// W = 0 bodies with 254..258 zero-length elements (the element counter is compared as a byte)
	for k := 250; k <= 260; k++ {
		for _, w := range []byte{0x00, 0x10, 0x20, 0x30} {
			x.Case(func(c *Case) {
				p := append([]byte{w}, make([]byte, k)...)
				p = append(p, 0x01, 0xaa, 0x02, 0xbb)
				c.Tag("many-elements")
				av1PktHist(c, false, 0, [][]byte{p})
			})
		}
	}
	for i, n := 0, x.N(6000, 400000); i < n; i++ {
		x.Case(func(c *Case) {
			reuse := c.R.Chance(1, 4)
			if reuse {
				c.Tag("reused-AV1Packet")
			}
			after := c.R.Intn(3)
			if c.R.Chance(1, 4) {
				var ps [][]byte
				for k := c.R.Range(1, 10); k > 0; k-- {
					ps = append(ps, av1Garbage(c.R))
				}
				c.Tag("garbage")
				av1PktHist(c, reuse, after, ps)
				return
			}
			c.Tag("mutated-stream")
			av1PktHist(c, reuse, after, av1Stream(c.R))
		})
	}
}

// c13.obuwire: obu.OBU.Marshal; c13.encleb: obu.EncodeLEB128 (and its pkg/obu forward)
func genAV1ObuWire(x *Ctx) {
	one := func(c *Case, o av1Obu) {
		av1WriteHdr(&c.I, o.typ, o.ext, o.hasSize, o.reserved1)
		c.I.Bytes(o.payload)
		u := obu.OBU{Header: obu.Header{Type: obu.Type(o.typ), HasSizeField: o.hasSize, Reserved1Bit: o.reserved1}, Payload: cloneBytes(o.payload)}
		if o.ext != nil {
			u.Header.ExtensionHeader = &obu.ExtensionHeader{TemporalID: o.ext[0], SpatialID: o.ext[1], Reserved3Bits: o.ext[2]}
		}
		var out []byte
		if try(func() { out = u.Marshal() }) {
			c.O.Tok("panic")
			return
		}
		c.O.Bytes(out)
		if o.hasSize {
			c.Tag("with-size")
		} else {
			c.Tag("no-size")
		}
	}
	for typ := 0; typ < 16; typ++ {
		for _, n := range []int{0, 1, 126, 127, 128, 129, 16383, 16384, 16385} {
			for v := 0; v < 4; v++ {
				x.Case(func(c *Case) {
					o := av1Obu{typ: byte(typ), hasSize: v&1 == 0, reserved1: c.R.Chance(1, 4), payload: c.R.Bytes(n)}
					if v&2 != 0 {
						o.ext = &[3]byte{byte(c.R.Intn(8)), byte(c.R.Intn(4)), byte(c.R.Intn(8))}
					}
					one(c, o)
				})
			}
		}
	}
	for i, n := 0, x.N(3000, 200000); i < n; i++ {
		x.Case(func(c *Case) {
			os := av1RandObus(c.R, c.R.Range(2, 200), 1, 3000, true)
			one(c, os[0])
		})
	}
}

func genAV1EncLeb(x *Ctx) {
	one := func(n uint64) {
		x.Case(func(c *Case) {
			c.I.U64(n)
			var a, b uint
			if try(func() { a = obu.EncodeLEB128(uint(n)); b = pkgobu.EncodeLEB128(uint(n)) }) {
				c.O.Tok("panic")
				return
			}
			if a != b {
				c.O.Tok("forward-mismatch")
				return
			}
			c.O.U64(uint64(a))
			if n < 1<<56 {
				c.Tag("n<2^56")
			} else {
				c.Tag("n>=2^56")
			}
		})
	}
	for k := uint(1); k <= 9; k++ {
		for d := int64(-2); d <= 2; d++ {
			one(uint64(int64(1)<<(7*k) + d))
		}
	}
	for _, n := range []uint64{0, 1, 2, 126, 1<<32 - 1, 1 << 32, 1<<56 - 1, 1 << 56, 1 << 63, 1<<64 - 1} {
		one(n)
	}
	for n := uint64(0); n < 400; n++ {
		one(n)
	}
	for i, n := 0, x.N(4000, 300000); i < n; i++ {
		x.Case(func(c *Case) {
			v := c.R.U64() >> uint(c.R.Range(0, 63))
			c.I.U64(v)
			a := obu.EncodeLEB128(uint(v))
			c.O.U64(uint64(a))
			if v < 1<<56 {
				c.Tag("n<2^56")
			} else {
				c.Tag("n>=2^56")
			}
		})
	}
}

func init() {
	register("c13.obuwire", "C13", genAV1ObuWire)
	register("c13.encleb", "C13", genAV1EncLeb)
	register("c13.rt", "C13", genAV1Rt)
	register("c13.leb", "C13", genAV1Leb)
	register("c13.lebrd", "C13", genAV1LebRd)
	register("c13.obuhdr", "C13", genAV1ObuHdr)
	register("c13.obumar", "C13", genAV1ObuMar)
	register("c15.av1", "C15", genAV1Resync)
	register("c08.av1", "C08", genAV1C08)
	register("c09.av1", "C09", genAV1C09)
	register("c09.av1packet", "C09", genAV1C09Pkt)
}
