/-
  Main.lean — `rtpmodel`: reads case lines on stdin, replies with one verdict line per case.
  With `-q` only cases that are not (corr=eq ∧ pred=t ∧ no parse error) are printed (followed by
  ` || <the case line>`), and a per-kind summary `# kind=… total=… neq=… predf=… wf=… err=… kf:<n>=…`
  is printed at end of input.
-/
import Driver.Registry
import Std.Data.HashMap
open Rtp Rtp.Proto

structure KStat where
  total : Nat := 0
  neq : Nat := 0
  predf : Nat := 0
  wf : Nat := 0
  err : Nat := 0
  viol : Nat := 0     -- pred=f and not an instance of a known finding (kf=- or corr=neq)
  cbreak : Nat := 0   -- pred=t, corr=neq, outside every known-finding region
  kf : List (String × Nat) := []    -- cases inside a region
  kfi : List (String × Nat) := []   -- cases that fail exactly as recorded (pred=f, corr=eq, kf=name)

def bumpKf (l : List (String × Nat)) (n : String) : List (String × Nat) :=
  match l with
  | [] => [(n, 1)]
  | (m, c) :: r => if m == n then (m, c + 1) :: r else (m, c) :: bumpKf r n

/-- returns (reply, isOk, kind, verdict?) -/
def handleLine (tbl : Std.HashMap String Handler) (line : String) : String × String × Option Verdict :=
  let toks := (line.splitOn " ").filter (· != "")
  match toks with
  | kind :: id :: rest =>
    match tbl.get? kind with
    | none => (s!"{id} error=unknown-kind:{kind}", kind, none)
    | some h =>
      let (inp, obs) := splitCase rest
      match h inp obs with
      | some v => (v.render id, kind, some v)
      | none => (s!"{id} error=parse", kind, none)
  | _ => ("? error=short-line", "?", none)

partial def loop (tbl : Std.HashMap String Handler) (quiet : Bool) (hin hout : IO.FS.Stream)
    (st : Std.HashMap String KStat) : IO (Std.HashMap String KStat) := do
  let line ← hin.getLine
  if line.isEmpty then return st
  let l := line.trimAsciiEnd.toString
  if l.isEmpty then loop tbl quiet hin hout st else
  let (reply, kind, v) := handleLine tbl l
  let s := st.getD kind {}
  let s := { s with total := s.total + 1 }
  -- `show`: print the line in quiet mode
  let (s, «show») := match v with
    | none => ({ s with err := s.err + 1 }, true)
    | some v =>
      let s := if v.corr then s else { s with neq := s.neq + 1 }
      let s := if v.pred then s else { s with predf := s.predf + 1 }
      let s := if v.wf then { s with wf := s.wf + 1 } else s
      let s := match v.kf with | some n => { s with kf := bumpKf s.kf n } | none => s
      -- The predicate is only binding where the property quantifies (`wf`, the hypothesis of the
      -- theorem): outside it a false predicate claims nothing about the property, and only the
      -- correspondence with the model applies.  A known-finding region is by definition part of
      -- the property's quantifier (it is where the property is known to fail; the theorems' `wf`
      -- excludes it only because they are the `_partial` forms), so there the predicate stays binding.
      let pred := v.pred || (!v.wf && v.kf.isNone)
      match pred, (v.corr || v.explained), v.kf with
      | false, true, some n =>
        -- fails exactly as the known finding records (same observation as the defective model, or
        -- the handler's signature says the recorded defect explains it): count, show the first two
        let seen := match s.kfi.find? (fun (p : String × Nat) => p.1 == n) with | some p => p.2 | none => 0
        ({ s with kfi := bumpKf s.kfi n }, decide (seen < 2))
      | false, _, _ => ({ s with viol := s.viol + 1 }, true)
      | true, false, none => ({ s with cbreak := s.cbreak + 1 }, true)
      | true, false, some _ => (s, false)     -- repaired for this input: accepted
      | true, true, _ => (s, false)
  if quiet then
    if «show» then hout.putStrLn (reply ++ " || " ++ l)
  else hout.putStrLn reply
  loop tbl quiet hin hout (st.insert kind s)

def main (args : List String) : IO Unit := do
  let quiet := args.contains "-q"
  let tbl : Std.HashMap String Handler := Std.HashMap.ofList allHandlers
  let hin ← IO.getStdin
  let hout ← IO.getStdout
  let st ← loop tbl quiet hin hout {}
  if quiet then
    for (k, s) in st.toList do
      let kfs := String.join (s.kf.map fun (n, c) => s!" kf:{n}={c}")
      let kfis := String.join (s.kfi.map fun (n, c) => s!" kfi:{n}={c}")
      hout.putStrLn s!"# kind={k} total={s.total} neq={s.neq} predf={s.predf} wf={s.wf} err={s.err} viol={s.viol} cbreak={s.cbreak}{kfs}{kfis}"
  hout.flush
