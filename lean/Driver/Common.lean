/- Driver/Common.lean — readers for the shared observation records -/
import Driver.Proto
import Rtp.Pred.Common
namespace Rtp.Proto
open Rtp Rtp.Pred

/-- `panic` | `ok <n> frag* inputSame overlap fragsStable twinSame` -/
def rdPayObs : Rd PayObs := do
  let t ← Rd.tok
  match t with
  | "panic" => pure { panicked := true, frags := [], inputSame := true, overlap := false,
                      fragsStable := true, twinSame := true }
  | "ok" => do
    let frags ← Rd.list Rd.bytes
    let a ← Rd.bool; let b ← Rd.bool; let c ← Rd.bool; let d ← Rd.bool
    pure { panicked := false, frags := frags, inputSame := a, overlap := b, fragsStable := c, twinSame := d }
  | _ => Rd.fail
end Rtp.Proto

namespace Rtp.Proto
open Rtp Rtp.Pred

/-- `<n> (<mtu> <obytes>)*` — a history of Payload calls -/
def rdCalls : Rd (List (UInt16 × Option Bytes)) :=
  Rd.list (do let m ← Rd.u16; let b ← Rd.obytes; pure (m, b))

/-- `<n> PayObs*` -/
def rdPayObsList : Rd (List PayObs) := Rd.list rdPayObs
end Rtp.Proto
