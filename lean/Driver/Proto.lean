/-
  Driver/Proto.lean — the line protocol between the Go harness and the Lean model.

  One case per line:   <kind> <case-id> <input tokens …> => <observation tokens …>
  Reply per line:      <case-id> corr=<eq|neq> pred=<t|f> wf=<t|f> kf=<-|name> [model=<repr>]

  Tokens are separated by single spaces.  Encodings (mirrored by harness/proto.go):
    nat      decimal
    bool     0 | 1
    bytes    lowercase hex, `-` for the empty string
    obytes   `nil` | bytes               (Go nil vs non-nil slice, where the code branches on it)
    list     <count> item*
    opt      `none` | `some` item
    res      `ok` item | `err` <kind> | `panic`
-/
import Rtp.Go.Prim
namespace Rtp.Proto
open Rtp

/-- token reader -/
abbrev Rd := StateT (List String) Option

namespace Rd
def tok : Rd String := fun s => match s with | [] => none | t :: r => some (t, r)
def fail {α} : Rd α := fun _ => none
def done : Rd Unit := fun s => match s with | [] => some ((), []) | _ => none
def nat : Rd Nat := do let t ← tok; match t.toNat? with | some n => pure n | none => fail
def int : Rd Int := do let t ← tok; match t.toInt? with | some n => pure n | none => fail
def bool : Rd Bool := do let t ← tok; match t with | "0" => pure false | "1" => pure true | _ => fail
def u8 : Rd UInt8 := do let n ← nat; if n < 256 then pure n.toUInt8 else fail
def u16 : Rd UInt16 := do let n ← nat; if n < 65536 then pure n.toUInt16 else fail
def u32 : Rd UInt32 := do let n ← nat; if n < 4294967296 then pure n.toUInt32 else fail
def u64 : Rd UInt64 := do let n ← nat; if n < 18446744073709551616 then pure n.toUInt64 else fail
def i64 : Rd Int64 := do let n ← int; pure (Int64.ofInt n)

def hexVal (c : Char) : Option Nat :=
  if '0' ≤ c ∧ c ≤ '9' then some (c.toNat - '0'.toNat)
  else if 'a' ≤ c ∧ c ≤ 'f' then some (c.toNat - 'a'.toNat + 10)
  else if 'A' ≤ c ∧ c ≤ 'F' then some (c.toNat - 'A'.toNat + 10)
  else none

def hexDecode (cs : List Char) (acc : Array UInt8) : Option Bytes :=
  match cs with
  | [] => some acc.toList
  | a :: b :: r =>
    match hexVal a, hexVal b with
    | some x, some y => hexDecode r (acc.push (x * 16 + y).toUInt8)
    | _, _ => none
  | _ => none

def bytes : Rd Bytes := do
  let t ← tok
  if t == "-" then pure [] else
  match hexDecode t.toList #[] with | some b => pure b | none => fail

def obytes : Rd (Option Bytes) := do
  let t ← tok
  if t == "nil" then pure none
  else if t == "-" then pure (some [])
  else match hexDecode t.toList #[] with | some b => pure (some b) | none => fail

def rep {α} (r : Rd α) : Nat → Rd (List α)
  | 0 => pure []
  | n + 1 => do let a ← r; let as ← rep r n; pure (a :: as)

def list {α} (r : Rd α) : Rd (List α) := do let n ← nat; rep r n

def opt {α} (r : Rd α) : Rd (Option α) := do
  let t ← tok
  match t with
  | "none" => pure none
  | "some" => do let a ← r; pure (some a)
  | _ => fail

def res {α} (r : Rd α) : Rd (Res α) := do
  let t ← tok
  match t with
  | "ok" => do let a ← r; pure (.ok a)
  | "err" => do let k ← tok; pure (.err (Err.ofName k))
  | "panic" => pure .panic
  | _ => fail

/-- a result whose error kind is not compared -/
def resC {α} (r : Rd α) : Rd (Res α) := do let x ← res r; pure x.coarse

def unit : Rd Unit := pure ()
end Rd

structure Verdict where
  corr : Bool            -- model observation = implementation observation
  pred : Bool            -- the property's predicate on the implementation's observation
  wf   : Bool := true    -- the theorem's hypothesis holds for this input
  kf   : Option String := none   -- inside a known-finding region
  explained : Bool := false      -- inside a region: the predicate fails for the RECORDED reason (the
                                 -- observation satisfies it once the recorded defect is undone), even
                                 -- if the bytes differ from the model's
  model : String := ""   -- model's observation (printed when corr = false)

/-- a handler decides one case line: input tokens, observation tokens -/
abbrev Handler := List String → List String → Option Verdict

def mkHandler {I O} [BEq O] [Repr O] (rdI : Rd I) (rdO : Rd O)
    (model : I → O) (pred : I → O → Bool)
    (wf : I → Bool := fun _ => true)
    (kf : I → O → Option String := fun _ _ => none)
    (kfx : I → O → Bool := fun _ _ => false) : Handler :=
  fun inp obs =>
    match (do let i ← rdI; Rd.done; pure i : Rd I) inp, (do let o ← rdO; Rd.done; pure o : Rd O) obs with
    | some (i, _), some (o, _) =>
      let m := model i
      let c := m == o
      let k := kf i o
      some { corr := c, pred := pred i o, wf := wf i, kf := k,
             explained := k.isSome && kfx i o,   -- evaluated inside a region only

             model := if c then "" else (toString (repr m)).replace "\n" " " }
    | _, _ => none

def splitCase (toks : List String) : List String × List String :=
  let inp := toks.takeWhile (· != "=>")
  let rest := toks.dropWhile (· != "=>")
  (inp, rest.drop 1)

def Verdict.render (id : String) (v : Verdict) : String :=
  s!"{id} corr={if v.corr then "eq" else "neq"} pred={if v.pred then "t" else "f"} " ++
  s!"wf={if v.wf then "t" else "f"} kf={v.kf.getD "-"}" ++ (if v.explained then " kfx=t" else "") ++
  (if v.corr then "" else s!" model={v.model}")

end Rtp.Proto
