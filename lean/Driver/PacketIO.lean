/-
  Driver/PacketIO.lean — token codecs for RTP headers/packets (mirrors harness/packetio.go).

  header :=  version padding extension marker pt seq ts ssrc  <n> csrc*  profile  <n> (id bytes)*
  packet :=  header payload paddingSize
-/
import Driver.Proto
import Rtp.Model.Packet
namespace Rtp.Proto
open Rtp Rtp.Model

def rdExt : Rd Ext := do let i ← Rd.u8; let b ← Rd.bytes; pure { id := i, payload := b }

def rdHeader : Rd Header := do
  let v ← Rd.u8; let p ← Rd.bool; let x ← Rd.bool; let m ← Rd.bool; let pt ← Rd.u8
  let sq ← Rd.u16; let ts ← Rd.u32; let ss ← Rd.u32
  let cs ← Rd.list Rd.u32
  let prof ← Rd.u16
  let es ← Rd.list rdExt
  pure { version := v, padding := p, extension := x, marker := m, payloadType := pt, seq := sq,
         ts := ts, ssrc := ss, csrc := cs, extProfile := prof, exts := es }

def rdPacket : Rd Packet := do
  let h ← rdHeader; let pl ← Rd.bytes; let ps ← Rd.u8
  pure { header := h, payload := pl, paddingSize := ps }

end Rtp.Proto

namespace Rtp.Proto
open Rtp Rtp.Model

/-- `ok header n` | `err k` | `panic` -/
def rdHdrRes : Rd (Res (Header × Nat)) := Rd.res (do let h ← rdHeader; let n ← Rd.nat; pure (h, n))
def rdPktRes : Rd (Res Packet) := Rd.res rdPacket
def rdBytesRes : Rd (Res Bytes) := Rd.res Rd.bytes
end Rtp.Proto
