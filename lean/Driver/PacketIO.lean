/-
  Driver/PacketIO.lean — token codecs for RTP headers/packets (mirrors harness/packetio.go).

  header :=  version padding extension marker pt seq ts ssrc  <n> csrc*  profile  <n> (id bytes)*
  packet :=  header payload paddingSize
-/
import Driver.Proto
import Rtp.Model.Packet
namespace Rtp.Proto
open Rtp Rtp.Model

def rdExt : Rd Ext := do let i ← Rd.u8; let b ← Rd.bytes; pure { id := i, payload := b }

def rdHeader : Rd Header := do
  let v ← Rd.u8; let p ← Rd.bool; let x ← Rd.bool; let m ← Rd.bool; let pt ← Rd.u8
  let sq ← Rd.u16; let ts ← Rd.u32; let ss ← Rd.u32
  let cs ← Rd.list Rd.u32
  let prof ← Rd.u16
  let es ← Rd.list rdExt
  pure { version := v, padding := p, extension := x, marker := m, payloadType := pt, seq := sq,
         ts := ts, ssrc := ss, csrc := cs, extProfile := prof, exts := es }

/-- RFC 8285 §4.3: profiles 0x1001–0x100F are TWO-BYTE profiles with non-zero appbits.  The library
    (and `Pred.C01.extsLegal`, which follows it) takes them for legacy profiles — the open known
    finding `c03_twobyte_appbits` of C03.  The quantifiers of C01/C04/C05/C20 name "one-byte |
    two-byte | legacy" blocks and say nothing about how such a profile is to be classified, so
    headers that carry one (while X is set) are outside those properties: correspondence only. -/
def appbitsProfile (p : UInt16) : Bool := (p &&& 0xFFF0) == 0x1000 && p != 0x1000

def hdrAppbits (h : Header) : Bool := h.extension && appbitsProfile h.extProfile

def rdPacket : Rd Packet := do
  let h ← rdHeader; let pl ← Rd.bytes; let ps ← Rd.u8
  pure { header := h, payload := pl, paddingSize := ps }

end Rtp.Proto

namespace Rtp.Proto
open Rtp Rtp.Model

/-- `ok header n` | `err k` | `panic` -/
def rdHdrRes : Rd (Res (Header × Nat)) := Rd.res (do let h ← rdHeader; let n ← Rd.nat; pure (h, n))
def rdPktRes : Rd (Res Packet) := Rd.res rdPacket
def rdBytesRes : Rd (Res Bytes) := Rd.res Rd.bytes
end Rtp.Proto
