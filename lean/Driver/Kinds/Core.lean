import Driver.Common
namespace Rtp.Kinds.Core
open Rtp Rtp.Proto

def handlers : List (String × Handler) := []
end Rtp.Kinds.Core
