import Driver.Common
import Driver.PacketIO
import Rtp.Pred.C01
import Rtp.Pred.C04
import Rtp.Pred.C20
namespace Rtp.Kinds.CoreA
open Rtp Rtp.Proto Rtp.Model

/-- the quantifier of C01 (shared by C04 and C20): a well-formed packet whose extension profile is
    not one of the two-byte profiles with appbits (0x1001–0x100F), which `Pred.C01.extsLegal`
    classifies as legacy like the library does (see `appbitsProfile`) -/
def wfQ (p : Packet) : Bool := Pred.C01.wfP p && !hdrAppbits p.header

theorem wfQ_wfP (p : Packet) : wfQ p = true → Pred.C01.wfP p = true := by
  simp only [wfQ, Bool.and_eq_true]; exact fun h => h.1

/-- `c01.rt  <packet> <prev bytes> => size marshal unFresh unDirty hsize hmarshal hun` -/
def c01rt : Handler :=
  mkHandler (do let p ← rdPacket; let prev ← Rd.bytes; pure (p, prev))
    (do let size ← Rd.nat; let m ← rdBytesRes; let uf ← rdPktRes; let ud ← rdPktRes
        let hs ← Rd.nat; let hm ← rdBytesRes; let hu ← rdHdrRes
        pure ({ size := size, marshal := m, unFresh := uf, unDirty := ud, hsize := hs, hmarshal := hm, hun := hu } : Pred.C01.Obs))
    (fun (p, prev) => Pred.C01.modelObs p prev)
    (fun (p, _) o => Pred.C01.pred p o)
    (fun (p, _) => wfQ p)

/-- `c04.to  <packet> <dst bytes> => size hsize marshal hmarshal pto pbuf hto hbuf` -/
def c04to : Handler :=
  mkHandler (do let p ← rdPacket; let dst ← Rd.bytes; pure (p, dst))
    (do let size ← Rd.nat; let hs ← Rd.nat; let m ← rdBytesRes; let hm ← rdBytesRes
        let pto ← Rd.res Rd.nat; let pbuf ← Rd.bytes; let hto ← Rd.res Rd.nat; let hbuf ← Rd.bytes
        pure ({ size := size, hsize := hs, marshal := m, hmarshal := hm, pto := pto, pbuf := pbuf,
                hto := hto, hbuf := hbuf } : Pred.C04.Obs))
    (fun (p, dst) => Pred.C04.modelObs p dst)
    (fun (p, dst) o => Pred.C04.pred p dst o)
    (fun (p, _) => wfQ p)

def rdNils (withPayload : Bool) : Rd Pred.C20.Nils := do
  let c ← Rd.bool
  let p ← if withPayload then Rd.bool else pure false
  let e ← Rd.bool
  let l ← Rd.list Rd.bool
  pure { csrc := c, payload := p, exts := e, extPl := l }

def rdSide : Rd Pred.C20.Side := do
  let p ← rdPacket; let r ← Rd.u16; pure { pkt := p, rawProfile := r }

/-- `<kind> <a> <b> <bytes>` -/
def rdMut : Rd Pred.C20.Mut := do
  let k ← Rd.nat; let a ← Rd.nat; let b ← Rd.nat; let bs ← Rd.bytes
  match k with
  | 0 => pure .none
  | 1 => pure (.payloadByte a)
  | 2 => pure (.csrcEntry a)
  | 3 => pure (.extByte a b)
  | 4 => if a < 256 then pure (.setExt a.toUInt8 bs) else Rd.fail
  | 5 => if a < 256 then pure (.delExt a.toUInt8) else Rd.fail
  | _ => Rd.fail

/-- The observation with what C20's text does not speak of overwritten by the expected values, so
    that `Pred.C20.pred` ignores it:
    * `clonePO`, `hPO` — the deprecated `Header.PayloadOffset` ("to be removed" in packet.go; a
      by-product of Unmarshal, not one of the header fields of C01's "every header field");
    * `cloneRaw` — the deprecated `Packet.Raw` of the clone (today: nil, Clone drops it);
    * `cloneNils`, `hNils` — whether an EMPTY slice (CSRC, payload, `Extensions`, an extension
      element's value) is nil or not: a zero-length value is the same value either way.
    All five are still compared with the model (correspondence). -/
def c20canon (x : Pred.C20.Input) (o : Pred.C20.Obs) : Pred.C20.Obs :=
  { o with clonePO := x.po, hPO := x.po, cloneRaw := none, cloneNils := x.nils, hNils := { x.nils with payload := false } }

/-- C20 as worded: equal in all header fields, extensions, payload and padding size; no shared
    memory; the untouched side unchanged by a mutation of the other -/
def c20predR (x : Pred.C20.Input) (o : Pred.C20.Obs) : Bool := Pred.C20.pred x (c20canon x o)

theorem c20predR_of_pred (x : Pred.C20.Input) (o : Pred.C20.Obs) :
    Pred.C20.pred x o = true → c20predR x o = true := by
  intro h
  simp only [Pred.C20.pred, Pred.C20.equal, Pred.C20.disjoint, Pred.C20.independent,
    Bool.and_eq_true] at h
  simp only [c20predR, c20canon, Pred.C20.pred, Pred.C20.equal, Pred.C20.disjoint,
    Pred.C20.independent, Bool.and_eq_true, beq_self_eq_true, and_true]
  exact ⟨⟨⟨⟨h.1.1.1.1.1.1.1.1, h.1.1.1.1.1.1.2⟩, h.1.1.1.1.1.2⟩, h.1.2⟩, h.2⟩

/-- `c20.clone  <packet> payloadOffset raw <nils> <mut> <onClone>
      => marshal0 <clone side> <nils> clonePO cloneRaw ovPayload ovCsrc ovExtArr ovExtPl
         <hclone header> hRaw <hnils> hPO hovCsrc hovExtArr hovExtPl <other side> otherMarshal
         <hclone header after the mutation> hAfterRaw` -/
def c20clone : Handler :=
  mkHandler
    (do let p ← rdPacket; let po ← Rd.nat; let raw ← Rd.obytes; let n ← rdNils true; let m ← rdMut; let s ← Rd.bool
        pure ({ p := p, po := po, raw := raw, nils := n, mutn := m, onClone := s } : Pred.C20.Input))
    (do let m0 ← rdBytesRes
        let c ← rdSide; let cn ← rdNils true; let cpo ← Rd.nat; let craw ← Rd.obytes
        let o1 ← Rd.bool; let o2 ← Rd.bool; let o3 ← Rd.bool; let o4 ← Rd.bool
        let hc ← rdHeader; let hr ← Rd.u16; let hn ← rdNils false; let hpo ← Rd.nat
        let h1 ← Rd.bool; let h2 ← Rd.bool; let h3 ← Rd.bool
        let ot ← rdSide; let om ← rdBytesRes
        let ha ← rdHeader; let har ← Rd.u16
        pure ({ marshal0 := m0, clone := c, cloneNils := cn, clonePO := cpo, cloneRaw := craw, hPO := hpo, hAfter := ha,
                hAfterRaw := har, ovPayload := o1, ovCsrc := o2, ovExtArr := o3,
                ovExtPl := o4, hclone := hc, hRaw := hr, hNils := hn, hovCsrc := h1, hovExtArr := h2,
                hovExtPl := h3, other := ot, otherMarshal := om } : Pred.C20.Obs))
    Pred.C20.modelObs
    c20predR
    (fun x => wfQ x.p)


/-- `c01.reuse  <packet> <prev bytes> => res (len(h.Extensions), len(h.CSRC))` : the RAW lengths of
    the two slice fields of a receiver that decoded `prev` first and then Marshal(packet).  "Equal in
    every extension id and value" includes that no element of the EARLIER packet survives in the
    exported `Extensions` field, also while the X flag is clear (where the accessors hide it). -/
def c01reuse : Handler :=
  mkHandler (do let p ← rdPacket; let prev ← Rd.bytes; pure (p, prev))
    (Rd.res (do let a ← Rd.nat; let b ← Rd.nat; pure (a, b)))
    (fun (p, prev) =>
      let dirty : Packet := match pktUnmarshal {} prev with | .ok q => q | _ => {}
      match pktMarshal p with
      | .ok bs => (pktUnmarshal dirty bs).map (fun q => (q.header.exts.length, q.header.csrc.length))
      | _ => .err .other)
    (fun (p, _) o => !Pred.C01.wfP p ||
      o == .ok ((if p.header.extension then p.header.exts.length else 0), p.header.csrc.length))
    (fun (p, _) => wfQ p)

/-- `c01.inplace  <inner packet> <outer packet> <prev bytes> mode => r1 r2` : unwrapping an
    encapsulated packet in place — the receiver decodes Marshal(outer with payload := Marshal(inner)),
    then `recv.Unmarshal(recv.Payload)` (mode 1: `recv.Payload = buf` by hand, `recv.Unmarshal(buf)`).
    r1 / r2 : the receiver after the first / second decode, through the public accessors. -/
def c01inplace : Handler :=
  mkHandler (do let i ← rdPacket; let o ← rdPacket; let prev ← Rd.bytes; let m ← Rd.nat
                pure ({ inner := i, outer := o, prev := prev, mode := m } : Pred.C01.InplaceIn))
    (do let a ← rdPktRes; let b ← rdPktRes; pure (a, b))
    Pred.C01.inplaceModel
    Pred.C01.inplacePred
    (fun x => wfQ x.inner && (x.mode == 1 || wfQ x.outer))

def handlers : List (String × Handler) :=
  [("c01.inplace", c01inplace), ("c01.reuse", c01reuse), ("c01.rt", c01rt), ("c04.to", c04to), ("c20.clone", c20clone)]
end Rtp.Kinds.CoreA
