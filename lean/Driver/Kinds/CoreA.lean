import Driver.Common
import Driver.PacketIO
import Rtp.Pred.C01
namespace Rtp.Kinds.CoreA
open Rtp Rtp.Proto Rtp.Model

/-- `c01.rt  <packet> <prev bytes> => size marshal unFresh unDirty hsize hmarshal hun` -/
def c01rt : Handler :=
  mkHandler (do let p ← rdPacket; let prev ← Rd.bytes; pure (p, prev))
    (do let size ← Rd.nat; let m ← rdBytesRes; let uf ← rdPktRes; let ud ← rdPktRes
        let hs ← Rd.nat; let hm ← rdBytesRes; let hu ← rdHdrRes
        pure ({ size := size, marshal := m, unFresh := uf, unDirty := ud, hsize := hs, hmarshal := hm, hun := hu } : Pred.C01.Obs))
    (fun (p, prev) => Pred.C01.modelObs p prev)
    (fun (p, _) o => Pred.C01.pred p o)
    (fun (p, _) => Pred.C01.wfP p)

def handlers : List (String × Handler) := [("c01.rt", c01rt)]
end Rtp.Kinds.CoreA
