import Driver.Common
namespace Rtp.Kinds.H265
open Rtp Rtp.Proto

def handlers : List (String × Handler) := []
end Rtp.Kinds.H265
