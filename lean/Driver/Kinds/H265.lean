/-
  Driver/Kinds/H265.lean — case kinds of group `h265`: C14 (c14.acc.*, c14.dec, c14.rt) and the
  H265 parts of C08 / C09.  Token grammar (mirrored by harness/kinds_h265.go):

    hdr     <f> <type> <layer> <tid>
    packet  single hdr <opt u16> <bytes>
          | ap hdr <opt u16> [<size>] <nal> <n> (<opt u8> [<size>] <nal>)*        sizes only in views
          | fu hdr <s> <e> <futype> <opt u16> <bytes>
          | paci hdr <a> <ctype> <phs> <f0> <f1> <f2> <y> <phes> <bytes>
    view    packet(with sizes) + for paci: <opt (tl0 irap s e res)>               | nilpkt
-/
import Driver.Common
import Rtp.Model.H265Obs
namespace Rtp.Kinds.H265
open Rtp Rtp.Proto Rtp.Pred Rtp.Spec.Rfc7798
open Rtp.Model.H265

def rdHdr : Rd Hdr := do
  let f ← Rd.bool; let t ← Rd.u8; let l ← Rd.u8; let i ← Rd.u8
  pure { f := f, type := t, layer := l, tid := i }

def rdTsci : Rd Tsci := do
  let a ← Rd.u8; let b ← Rd.u8; let s ← Rd.bool; let e ← Rd.bool; let r ← Rd.u8
  pure { tl0 := a, irap := b, s := s, e := e, res := r }

/-- a packet; with `sizes` the NALUSize of every aggregation unit is read too and compared with
    the unit's length (second component) -/
def rdPacket (sizes : Bool) : Rd (Packet × Bool) := do
  let tag ← Rd.tok
  match tag with
  | "single" => do
    let h ← rdHdr; let d ← Rd.opt Rd.u16; let p ← Rd.bytes
    pure (.single h d p, true)
  | "ap" => do
    let h ← rdHdr; let d ← Rd.opt Rd.u16
    let unit : Rd (Bytes × Bool) := do
      if sizes then
        let s ← Rd.nat; let n ← Rd.bytes; pure (n, s == n.length)
      else
        let n ← Rd.bytes; pure (n, true)
    let (first, ok0) ← unit
    let rest ← Rd.list (do let dd ← Rd.opt Rd.u8; let (n, ok) ← unit; pure ((dd, n), ok))
    pure (.ap h d first (rest.map (·.1)), ok0 && rest.all (·.2))
  | "fu" => do
    let h ← rdHdr; let s ← Rd.bool; let e ← Rd.bool; let t ← Rd.u8; let d ← Rd.opt Rd.u16
    let p ← Rd.bytes
    pure (.fu h s e t d p, true)
  | "paci" => do
    let h ← rdHdr; let a ← Rd.bool; let c ← Rd.u8; let phs ← Rd.u8
    let f0 ← Rd.bool; let f1 ← Rd.bool; let f2 ← Rd.bool; let y ← Rd.bool
    let phes ← Rd.bytes; let p ← Rd.bytes
    pure (.paci h a c phs f0 f1 f2 y phes p, true)
  | _ => Rd.fail

def rdView : Rd Parsed := do
  let (p, ok) ← rdPacket true
  let t ← match p with
    | .paci .. => Rd.opt rdTsci
    | _ => pure none
  pure { pkt := p, tsci := t, sizesOk := ok }

/-- `nilpkt` | view -/
def rdViewOpt : Rd (Option Parsed) := fun s =>
  match s with
  | "nilpkt" :: r => some (none, r)
  | _ => (rdView.map some) s

/-! ### c14.acc -/

def accHdr : Handler :=
  mkHandler Rd.u16
    (do let f ← Rd.bool; let t ← Rd.u8; let v ← Rd.bool; let l ← Rd.u8; let i ← Rd.u8
        let a ← Rd.bool; let u ← Rd.bool; let p ← Rd.bool
        pure ({ f := f, type := t, vcl := v, layer := l, tid := i, agg := a, fu := u, paci := p } : C14.HdrAcc))
    hdrAcc C14.hdrAccOk

def accFu : Handler :=
  mkHandler Rd.u8
    (do let s ← Rd.bool; let e ← Rd.bool; let t ← Rd.u8; pure ({ s := s, e := e, type := t } : C14.FuAcc))
    fuAcc C14.fuAccOk

def accPaci : Handler :=
  mkHandler Rd.u16
    (do let a ← Rd.bool; let c ← Rd.u8; let p ← Rd.u8; let f0 ← Rd.bool; let f1 ← Rd.bool
        let f2 ← Rd.bool; let y ← Rd.bool
        pure ({ a := a, cType := c, phs := p, f0 := f0, f1 := f1, f2 := f2, y := y } : C14.PaciAcc))
    paciAcc C14.paciAccOk

/-- `<a> <b> <c0> <count> => <count> (opt tsci)*` -/
def accTsci : Handler :=
  mkHandler (do let a ← Rd.u8; let b ← Rd.u8; let c ← Rd.nat; let n ← Rd.nat; pure (a, b, c, n))
    (Rd.list (Rd.opt rdTsci))
    (fun (a, b, c, n) => tsciAcc a b c n)
    (fun (a, b, c, _) o => C14.tsciAccOk a b c o)

/-! ### c14.dec -/

def rdResParsed : Rd (Res Parsed) := do
  let t ← Rd.tok
  match t with
  | "ok" => do let v ← rdView; pure (.ok v)
  | "err" => do let _ ← Rd.tok; pure (.err .other)
  | "panic" => pure .panic
  | _ => Rd.fail

/-- What RFC 7798 requires of a packet beyond its field layout (`Packet.WF`), i.e. what "well-formed
    payload" means in C14's quantifier: the units of an aggregation packet are NAL units (F = 0, a plain
    type 0–47, at least one payload octet after the two header octets) and the packet's LayerId / TID
    are the minima over them (§4.4.2); a PACI packet does not contain a PACI packet (§4.4.4). -/
def semanticOK : Packet → Bool
  | .ap h _ first rest =>
    let units := first :: rest.map (·.2)
    units.all (fun u => decide (3 ≤ u.length) && !(Hdr.ofNal u).f && decide ((Hdr.ofNal u).type.toNat < 48)) &&
    h.layer.toNat == minLayer units && h.tid.toNat == minTid units
  | .paci _ _ c _ _ _ _ _ _ _ => c != 50
  | _ => true

/-- `C14.decOk` without the demand on `IsPartitionHead`, which the statement of C14 never mentions:
    the observed `head` is replaced by the value `decOk` compares it with -/
def decOkRelaxed (mode : Bool) (desc : Packet) (cut : Option Nat) (fed : Bytes) (o : C14.DecObs) : Bool :=
  C14.decOk mode desc cut fed { o with head := C14.headSpec desc }

/-- the theorems are about `C14.decOk`; it implies what the driver evaluates -/
theorem decOk_imp_relaxed (mode : Bool) (desc : Packet) (cut : Option Nat) (fed : Bytes) (o : C14.DecObs) :
    C14.decOk mode desc cut fed o = true → decOkRelaxed mode desc cut fed o = true := by
  unfold decOkRelaxed C14.decOk
  cases cut with
  | none =>
    simp only [Bool.and_eq_true, beq_self_eq_true, and_true]
    exact fun h => h.1
  | some n => exact id

/-- `<mode> <packet> <opt cut> <fed bytes> <before: list bytes> <after: list bytes> <sub> => <res view> <head> <res view>`.
    Exact decoding is demanded of well-formed payloads only: field layout (`Packet.WF`) and RFC 7798
    semantics (`semanticOK`); on the others the code is compared with the model only.
    `before` / `after` are the payloads the SAME H265Packet parsed before / after the payload under
    test (both empty: a fresh receiver); the view is read from the packet object the caller kept, after
    all of them.  H265Packet decodes each payload on its own, so neither the model's answer nor what
    C14 demands ("decode every well-formed … payload to exactly the encoded field values") depends on
    them; they are part of the input so that a failing case shows the receiver's history.
    `<sub>` = 1: the receiver is not an H265Packet but the exported sub-parser of the described form
    (H265SingleNALUnitPacket / H265AggregationPacket), ONE value for `before`, the payload and `after`;
    the view is written from what its accessors returned right after the payload was decoded, kept
    by the caller and re-read after `after`.  The model answers with that sub-parser (`decObsSub`).
    The second `<res view>` of the observation is what a second receiver reports: ONE H265Packet with
    SetZeroAllocation(true) that parsed `before` and then the payload, its accessors read at once;
    H265Packet decodes each payload on its own in that mode too (model: `decode`), and the same
    predicate is evaluated on it. -/
def dec : Handler :=
  mkHandler
    (do let m ← Rd.bool; let (p, _) ← rdPacket false; let c ← Rd.opt Rd.nat; let b ← Rd.bytes
        let _before ← Rd.list Rd.bytes; let _after ← Rd.list Rd.bytes; let sub ← Rd.bool
        pure (m, p, c, b, sub))
    (do let r ← rdResParsed; let h ← Rd.bool; let z ← rdResParsed
        pure (({ res := r, head := h } : C14.DecObs), z))
    (fun (m, p, _, b, sub) => (if sub then decObsSub m p b else decObs m b, decode m (some b)))
    -- the predicate once on the receiver under test, once more on the zero-allocation receiver
    (fun (m, p, c, b, _) (o, z) => decOkRelaxed m p c b o && decOkRelaxed m p c b { o with res := z })
    (fun (m, p, c, _, _) => p.WF m && semanticOK p &&
      (match c with | none => true | some n => decide (n < (encode p).length)))

/-! ### c14.rt -/

structure RtIn where
  mtu : UInt16
  calls : List RtCall

/-- `<mtu> <n> (<addDONL> <skipAgg> <units>)* <rx>`: one payloader, before every call the caller sets
    the exported fields `AddDONL` / `SkipAggregation` to that call's values (constant in most
    histories); each call's packets are parsed with the DONL setting of that call.  `rx` = 1: every
    payload of the history was parsed by ONE H265Packet (0: a fresh one per payload).  In both cases
    the views in the observation are read from the decoded packets the caller kept, after the last
    payload was parsed.  The parser decodes each payload on its own: the model and the predicate do
    not depend on `rx`. -/
def rdRtIn : Rd RtIn := do
  let m ← Rd.u16
  let cs ← Rd.list (do
    let a ← Rd.bool; let s ← Rd.bool
    let f ← Rd.list (do let sc ← Rd.nat; let u ← Rd.bytes; pure (sc, u))
    pure (({ addDONL := a, skipAgg := s } : Cfg), f))
  let _rx ← Rd.bool
  pure { mtu := m, calls := cs }

/-- `<payload> <res view> <head> <res view>`: the second view is what the second receiver reports — ONE
    H265Packet with SetZeroAllocation(true) for the whole history, read right after the payload was
    decoded -/
def rdPktObs : Rd (C14.PktObs × Res Parsed) := do
  let p ← Rd.bytes; let r ← rdResParsed; let h ← Rd.bool; let z ← rdResParsed
  pure ({ payload := p, res := r, head := h }, z)

abbrev RtObs2 := List (Option (List (C14.PktObs × Res Parsed)))

def rdRtObs : Rd RtObs2 :=
  Rd.list (do
    let t ← Rd.tok
    match t with
    | "panic" => pure none
    | "ok" => do let l ← Rd.list rdPktObs; pure (some l)
    | _ => Rd.fail)

/-- the observation of the receiver under test / of the zero-allocation receiver -/
def RtObs2.main (o : RtObs2) : List (Option (List C14.PktObs)) := o.map (·.map (·.map (·.1)))
def RtObs2.zero (o : RtObs2) : List (Option (List C14.PktObs)) :=
  o.map (·.map (·.map fun (p, z) => { p with res := z }))

/-- `C14.callOk` without what the statement of C14 does not say: that payloads fit the MTU (that is
    C08; the MTU occurs in `callOk` only in that conjunct, which is left out — an MTU argument raised
    to the longest payload would not fit `UInt16`), and what `IsPartitionHead` answers. -/
def callOkRelaxed (cfg : Cfg) (units : List Bytes) (o : List C14.PktObs) : Bool :=
  match o.mapM (fun p => p.res.toOption) with
  | none => false
  | some ps =>
    ps.all (·.sizesOk) &&
    (o.zip ps).all (fun (p, v) => encode v.pkt == p.payload && shapeOk cfg.addDONL v.pkt) &&
    depack none (ps.map (·.pkt)) == some units

theorem callOk_imp_relaxed (cfg : Cfg) (mtu : UInt16) (units : List Bytes) (o : List C14.PktObs) :
    C14.callOk cfg mtu units o = true → callOkRelaxed cfg units o = true := by
  unfold C14.callOk callOkRelaxed
  cases o.mapM (fun p => p.res.toOption) with
  | none => simp
  | some ps =>
    simp only [Bool.and_eq_true, List.all_eq_true]
    rintro ⟨_, ⟨hs, hz⟩, hd⟩
    refine ⟨⟨hs, fun x hx => ?_⟩, hd⟩
    have := hz x hx
    obtain ⟨p, v⟩ := x
    simp only at this ⊢
    exact ⟨this.1.1, this.2⟩

def rtOkRelaxedF : List RtCall → List (Option (List C14.PktObs)) → Bool
  | [], [] => true
  | (cfg, f) :: fs, some o :: os => callOkRelaxed cfg (f.map (·.2)) o && rtOkRelaxedF fs os
  | _, _ => false

/-- the theorems are about `C14.rtOkF`; it implies what the driver evaluates -/
theorem rtOkF_imp_relaxed (mtu : UInt16) (fs : List RtCall) (os : List (Option (List C14.PktObs))) :
    C14.rtOkF mtu fs os = true → rtOkRelaxedF fs os = true := by
  induction fs generalizing os with
  | nil => cases os <;> simp [C14.rtOkF, rtOkRelaxedF]
  | cons f fs ih =>
    obtain ⟨cfg, f⟩ := f
    match os with
    | [] => simp [C14.rtOkF]
    | none :: _ => simp [C14.rtOkF]
    | some o :: os =>
      simp only [C14.rtOkF, rtOkRelaxedF, Bool.and_eq_true]
      exact fun h => ⟨callOk_imp_relaxed _ _ _ _ h.1, ih _ h.2⟩

/-- the recorded defect `c14_donl_fu` undone on the receiving side: a non-first fragmentation unit
    (S = 0) carries two stray DONL octets in front of its payload -/
def stripDonl : Packet → Packet
  | .fu h false e t d p => .fu h false e t d (p.drop 2)
  | p => p

/-- the call's packets satisfy C14 once the recorded defect is undone (whatever the cut points) -/
def callExplained (cfg : Cfg) (units : List Bytes) (o : List C14.PktObs) : Bool :=
  cfg.addDONL &&
  match o.mapM (fun p => p.res.toOption) with
  | none => false
  | some ps =>
    ps.all (·.sizesOk) &&
    (o.zip ps).all (fun (p, v) => encode v.pkt == p.payload && shapeOk cfg.addDONL v.pkt) &&
    depack none (ps.map (fun v => stripDonl v.pkt)) == some units

/-- every call is fine as it is or — if it was made with AddDONL — explained by the recorded defect -/
def rtExplainedF : List RtCall → List (Option (List C14.PktObs)) → Bool
  | [], [] => true
  | (cfg, f) :: fs, some o :: os =>
    (callOkRelaxed cfg (f.map (·.2)) o || callExplained cfg (f.map (·.2)) o) && rtExplainedF fs os
  | _, _ => false

/-- `wf` is exactly the hypothesis of `c14_rt_flip` (`rtWFF`; on a history with constant options:
    `rtWF`, the hypothesis of `c14_roundtrip`): outside it nothing is claimed (correspondence only;
    `rtNoPanic` is evaluated there but does not count) -/
def rt : Handler :=
  -- H265Packet decodes each payload on its own with SetZeroAllocation(true) too: the model gives the
  -- second receiver the same result, and the predicate is evaluated on both
  mkHandler rdRtIn rdRtObs (fun i => (rtObsF i.mtu 0 i.calls).map (·.map (·.map fun p => (p, p.res))))
    (fun i o =>
      let f := fun o => if rtWFF i.mtu i.calls then rtOkRelaxedF i.calls o else C14.rtNoPanic o
      f o.main && f o.zero)
    (fun i => rtWFF i.mtu i.calls)
    (fun i _ => if rtKFF i.mtu 0 i.calls then some "c14_donl_fu" else none)
    -- a failure inside the region counts as the KNOWN finding also when the bytes differ from the
    -- model's (other cut points, …), as long as undoing the recorded defect makes the predicate hold;
    -- a call made without AddDONL is never excused
    (fun i o => rtWFF i.mtu i.calls && rtExplainedF i.calls o.main && rtExplainedF i.calls o.zero)

/-! ### c08.h265 -/

def c08 : Handler :=
  mkHandler (do let a ← Rd.bool; let s ← Rd.bool; let cs ← rdCalls; pure (({ addDONL := a, skipAgg := s } : Cfg), cs))
    rdPayObsList
    (fun (cfg, cs) => c08Obs cfg cs)
    (fun (_, cs) os => C08.histOk false cs os)
    (fun _ => true)
    -- with AddDONL the bytes of a fragmented unit are those of the known finding c14_donl_fu: if the
    -- finding is repaired, fragments differ from the model there (and must still satisfy C08)
    (fun (cfg, cs) _ => if cfg.addDONL && (payloadHist cfg 0 cs).any (·.any isFU) then some "c14_donl_fu" else none)

/-! ### c09.h265 -/

abbrev Dep := C09.DepObs (Option Parsed)

def rdDep : Rd Dep := do
  let r ← Rd.resC Rd.bytes
  let md ← rdViewOpt
  let h ← Rd.bool; let t0 ← Rd.bool; let t1 ← Rd.bool
  let ap ← Rd.bool; let fs ← Rd.bool; let ts ← Rd.bool
  pure { res := r, md := md, head := h, tail0 := t0, tail1 := t1, auxPanic := ap, freshSame := fs, twinSame := ts }

def c09 : Handler :=
  mkHandler (do let d ← Rd.bool; let ps ← Rd.list Rd.obytes; pure (d, ps))
    (Rd.list rdDep)
    (fun (d, ps) => depHist d ps)
    (fun _ os => C09.histOk true os)

/-- `<which 0..3> <donl> <obytes> => <res view>`: a sub-parser called directly on a fresh receiver.
    Correspondence only: C09 lists "H265 with and without DONL", i.e. H265Packet (kind `c09.h265`),
    not the four sub-packet parsers it dispatches to, so nothing is claimed about calling those on
    arbitrary bytes. -/
def sub : Handler :=
  mkHandler (do let w ← Rd.nat; let d ← Rd.bool; let p ← Rd.obytes; pure (w, d, p)) rdResParsed
    (fun (w, d, p) => subDecode w d p)
    (fun _ _ => true)

def handlers : List (String × Handler) :=
  [("c14.acc.hdr", accHdr), ("c14.acc.fu", accFu), ("c14.acc.paci", accPaci), ("c14.acc.tsci", accTsci),
   ("c14.dec", dec), ("c14.rt", rt), ("c14.rt.donlfu", rt), ("c08.h265", c08), ("c09.h265", c09), ("c09.h265.sub", sub)]
end Rtp.Kinds.H265
