/-
  Driver/Kinds/CoreC.lean — case kinds of C03 (mirrors harness/kinds_corec.go).

  wire  :=  version marker pt seq ts ssrc  <n> csrc*  ext  payload  pad
  ext   :=  0 | 1 <n> item* stop | 2 appbits <n> item* | 3 profile bytes   (none | one-byte | two-byte | legacy)
  stop  :=  none | some nibble bytes
  item  :=  p | e id bytes
  pad   :=  none | some filler-bytes

  c03.wire  wire bytes <n> q* prev         => un hn re reUn <n> id* <n> obytes* unDirty
  c03.mut   bytes <n> q* prev              => un hn re reUn <n> id* <n> obytes* unDirty
  c03.view  kind(1|2|3) blk bytes <n> q* fill => unm ids <n> get* marshal size <n> to*
  blk   :=  none | some ext(≠0)

  In `c03.wire` and `c03.view` the description is first encoded by `Wire.encode` /
  `ExtBlock.encode`; if that differs from the generator's bytes the line is a parse failure
  (harness error), never a verdict.
-/
import Driver.Common
import Driver.PacketIO
import Rtp.Pred.C03
namespace Rtp.Kinds.CoreC
open Rtp Rtp.Proto Rtp.Model Rtp.Spec.Wire

def rdItem : Rd Item := do
  let t ← Rd.tok
  match t with
  | "p" => pure .pad
  | "e" => do let i ← Rd.u8; let b ← Rd.bytes; pure (.elem i b)
  | _ => Rd.fail

def rdExtBlock : Rd (Option ExtBlock) := do
  let t ← Rd.nat
  match t with
  | 0 => pure none
  | 1 => do
    let is ← Rd.list rdItem
    let stop ← Rd.opt (do let n ← Rd.u8; let r ← Rd.bytes; pure (n, r))
    pure (some (.oneByte is stop))
  | 2 => do let a ← Rd.u8; let is ← Rd.list rdItem; pure (some (.twoByte a is))
  | 3 => do let p ← Rd.u16; let b ← Rd.bytes; pure (some (.legacy p b))
  | _ => Rd.fail

def rdWire : Rd Wire := do
  let v ← Rd.u8; let m ← Rd.bool; let pt ← Rd.u8
  let sq ← Rd.u16; let ts ← Rd.u32; let ss ← Rd.u32
  let cs ← Rd.list Rd.u32
  let ext ← rdExtBlock
  let pl ← Rd.bytes
  let pad ← Rd.opt Rd.bytes
  pure { version := v, marker := m, pt := pt, seq := sq, ts := ts, ssrc := ss, csrc := cs,
         ext := ext, payload := pl, pad := pad }

def rdObs : Rd Pred.C03.Obs := do
  let un ← Rd.resC rdPacket
  let hn ← Rd.resC Rd.nat
  let re ← rdBytesRes
  let ru ← Rd.resC rdPacket
  let ids ← Rd.list Rd.u8
  let gets ← Rd.list Rd.obytes
  let ud ← Rd.resC rdPacket
  pure { un := un, hn := hn, re := re, reUn := ru, ids := ids, gets := gets, unDirty := ud }

/-- `c03.wire` -/
def c03wire : Handler :=
  mkHandler
    (do let w ← rdWire; let b ← Rd.bytes; let qs ← Rd.list Rd.u8; let prev ← Rd.bytes
        if w.encode != b then Rd.fail else
        -- the specification's own decoder (oracle of c03.mut) must find every well-formed image again
        match Wire.describe b with
        | some w' => if w'.toPacket != w.toPacket then Rd.fail else pure (w, b, qs, prev)
        | none => if w.WF then Rd.fail else pure (w, b, qs, prev))
    rdObs
    (fun (_, b, qs, prev) => Pred.C03.modelObs b qs prev)
    (fun (w, b, qs, _) o => Pred.C03.wire w b qs o)
    (fun (w, _, _, _) => Pred.C03.wireWF w)
    (fun (w, _, _, _) _ =>
      if Pred.C03.reservedRegion w then some "c03_reserved_id"
      else if Pred.C03.appbitsRegion w then some "c03_twobyte_appbits" else none)

/-- `c03.mut` -/
def c03mut : Handler :=
  mkHandler (do let b ← Rd.bytes; let qs ← Rd.list Rd.u8; let prev ← Rd.bytes; pure (b, qs, prev)) rdObs
    (fun (b, qs, prev) => Pred.C03.modelObs b qs prev) (fun (b, qs, _) o => Pred.C03.mutOK b qs o)
    (fun (b, _, _) => Pred.C03.mutWF b) (fun (b, _, _) _ => Pred.C03.mutRegion b)

def rdViewKind : Rd ViewKind := do
  let t ← Rd.nat
  match t with
  | 1 => pure .oneByte
  | 2 => pure .twoByte
  | 3 => pure .raw
  | _ => Rd.fail

def rdViewIn : Rd Pred.C03.ViewIn := do
  let k ← rdViewKind
  let blk ← Rd.opt (do let e ← rdExtBlock; match e with | some b => pure b | none => Rd.fail)
  let bytes ← Rd.bytes
  let qs ← Rd.list Rd.u8
  let fill ← Rd.u8
  match blk with
  | some b => if b.encode != bytes then Rd.fail
  | none => pure ()
  pure { kind := k, block := blk, bytes := bytes, queries := qs, fill := fill }

def rdViewObs : Rd Pred.C03.ViewObs := do
  let unm ← Rd.resC Rd.nat
  let ids ← Rd.resC (Rd.list Rd.u8)
  let gets ← Rd.list (Rd.resC Rd.obytes)
  let m ← Rd.resC Rd.bytes
  let sz ← Rd.resC Rd.nat
  let to ← Rd.list (Rd.resC (do let b ← Rd.bytes; let n ← Rd.nat; pure (b, n)))
  pure { unm := unm, ids := ids, gets := gets, marshal := m, size := sz, to := to }

/-- `c03.view` -/
def c03view : Handler :=
  mkHandler rdViewIn rdViewObs Pred.C03.modelView Pred.C03.view Pred.C03.viewWF
    (fun i _ => if Pred.C03.viewAppbitsRegion i then some "c03_twobyte_appbits" else none)

def handlers : List (String × Handler) :=
  [("c03.wire", c03wire), ("c03.mut", c03mut), ("c03.view", c03view)]
end Rtp.Kinds.CoreC
