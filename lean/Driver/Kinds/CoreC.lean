/-
  Driver/Kinds/CoreC.lean — case kinds of C03 (mirrors harness/kinds_corec.go).

  wire  :=  version marker pt seq ts ssrc  <n> csrc*  ext  payload  pad
  ext   :=  0 | 1 <n> item* stop | 2 appbits <n> item* | 3 profile bytes   (none | one-byte | two-byte | legacy)
  stop  :=  none | some nibble bytes
  item  :=  p | e id bytes
  pad   :=  none | some filler-bytes

  c03.wire  wire bytes <n> q* prev         => un hn re reUn <n> id* <n> obytes* unDirty
  c03.mut   bytes <n> q* prev              => un hn re reUn <n> id* <n> obytes* unDirty
  c03.view  kind(1|2|3) blk bytes <n> q* fill => unm ids <n> get* marshal size <n> to*
  blk   :=  none | some ext(≠0)

  In `c03.wire` and `c03.view` the description is first encoded by `Wire.encode` /
  `ExtBlock.encode`; if that differs from the generator's bytes the line is a parse failure
  (harness error), never a verdict.
-/
import Driver.Common
import Driver.PacketIO
import Rtp.Pred.C02
import Rtp.Pred.C03
namespace Rtp.Kinds.CoreC
open Rtp Rtp.Proto Rtp.Model Rtp.Spec.Wire
open Rtp.Pred.C02 (canonV)

/-! ### relaxed predicates

  What the driver evaluates on the real code.  `Pred.C03.wire / mutOK / view` (the predicates the
  theorems of Props/C03.lean are about) demand a few things the text of C03 does not say; the
  variants below drop exactly those demands, and `…_relax` shows that each is implied by the
  predicate it replaces (so the theorems still say that the model satisfies what is evaluated here).

  * nil vs empty: the text is silent on whether `GetExtension` / a view's `Get` hands out nil or an
    empty slice for a present zero-length value; `none` and `some []` are identified (`canonV`), in
    the observation, in the model's observation and in the expectation.
  * sentence (2): "Marshal EITHER reports invalid padding (P bit with zero count) OR yields bytes
    that decode to an equal packet" — with P = 1 and count 0 both outcomes are allowed.
  * raw view: `Get(0)` may hand out the whole block (what RawExtension does) or the block's words
    without the 4-byte header (what Header.GetExtension(0) returns).
  * sentence (3) says nothing about the number `Unmarshal` of a view returns, about MarshalTo into a
    destination that is too short, or about destination bytes beyond the written ones: of MarshalTo
    only n and the written prefix are compared, on sufficient destinations.
-/
namespace Relax
open Rtp.Pred.C03

def canonObs (o : Obs) : Obs := { o with gets := o.gets.map canonV }

def canonViewObs (o : ViewObs) : ViewObs := { o with gets := o.gets.map fun g => g.map canonV }

def hdrGetsOKR (ext : Option ExtBlock) : List UInt8 → List (Option Bytes) → Bool
  | [], [] => true
  | q :: qs, g :: gs =>
    (match expectHdrGet ext q with | some v => canonV g == canonV v | none => true) && hdrGetsOKR ext qs gs
  | _, _ => false

def accessorsOKR (w : Wire) (qs : List UInt8) (o : Obs) : Bool :=
  o.ids == (match w.ext with | some b => b.ids | none => []) && hdrGetsOKR w.ext qs o.gets

/-- sentence (2), first half: with P = 1 and count 0 Marshal may report invalid padding; in every
    case bytes that decode to an equal packet are fine -/
def remarshalOKR (o : Obs) : Bool :=
  match o.un with
  | .ok p =>
    (p.header.padding && p.paddingSize == 0 && o.re == .err .invalidPadding) ||
    (match o.re with
      | .ok _ => o.reUn == .ok p
      | _ => false)
  | _ => true

def wireR (w : Wire) (buf : Bytes) (qs : List UInt8) (o : Obs) : Bool :=
  (!w.WF || (acceptsOK w o && accessorsOKR w qs o)) && remarshalOKR o && (!w.canonical || canonOK buf o)

def mutOKR (buf : Bytes) (qs : List UInt8) (o : Obs) : Bool :=
  match Wire.describe buf with
  | some w => wireR w buf qs o
  | none => remarshalOKR o

/-- one `Get` of a view: the expected value up to nil/empty; the raw view may also hand out the
    block's words without the header -/
def getOKR (k : ViewKind) (b : ExtBlock) (bytes : Bytes) (q : UInt8) (g : Res (Option Bytes)) : Bool :=
  match expectGet k b bytes q with
  | some v =>
    (match g with
      | .ok x =>
        canonV x == canonV v ||
        (match k with
          | .raw => b.ids.contains q && canonV x == canonV (b.lookup q)
          | _ => false)
      | _ => false)
  | none => true

def getsOKR (k : ViewKind) (b : ExtBlock) (bytes : Bytes) : List UInt8 → List (Res (Option Bytes)) → Bool
  | [], [] => true
  | q :: qs, g :: gs => getOKR k b bytes q g && getsOKR k b bytes qs gs
  | _, _ => false

/-- MarshalTo into a sufficient destination: n and the written prefix -/
def toSuffOK (bytes : Bytes) : Res (Bytes × Nat) → Bool
  | .ok (dst, n) => n == bytes.length && dst.take n == bytes
  | _ => false

/-- destinations of size−1, size, size+1 bytes: nothing is demanded of the first -/
def toOKR (bytes : Bytes) : List (Res (Bytes × Nat)) → Bool
  | [_, a, b] => toSuffOK bytes a && toSuffOK bytes b
  | _ => false

def viewOKR (k : ViewKind) (b : ExtBlock) (bytes : Bytes) (queries : List UInt8) (o : ViewObs) : Bool :=
  (match o.unm with | .ok _ => true | _ => false) &&
  o.ids == .ok b.ids &&
  getsOKR k b bytes queries o.gets &&
  o.marshal == .ok bytes &&
  o.size == .ok bytes.length &&
  toOKR bytes o.to

def viewR (i : ViewIn) (o : ViewObs) : Bool :=
  match i.desc with
  | some b => !(formMatches i.kind b && b.WF) || viewOKR i.kind b i.bytes i.queries o
  | none => true

/-! the predicates of Pred/C03.lean imply the relaxed ones -/

theorem hdrGetsOK_relax (ext : Option ExtBlock) (qs : List UInt8) (gs : List (Option Bytes)) :
    hdrGetsOK ext qs gs = true → hdrGetsOKR ext qs gs = true := by
  induction qs generalizing gs with
  | nil => cases gs <;> simp [hdrGetsOK, hdrGetsOKR]
  | cons q qs ih =>
    cases gs with
    | nil => simp [hdrGetsOK]
    | cons g gs =>
      simp only [hdrGetsOK, hdrGetsOKR, Bool.and_eq_true]
      intro ⟨h1, h2⟩
      refine ⟨?_, ih gs h2⟩
      cases he : expectHdrGet ext q with
      | none => rfl
      | some v => rw [he] at h1; simp at h1; simp [h1]

theorem remarshalOK_relax (o : Obs) : remarshalOK o = true → remarshalOKR o = true := by
  unfold remarshalOK remarshalOKR
  cases o.un with
  | ok p =>
    simp only
    split
    · rename_i hc; intro h; simp [hc, h]
    · intro h; simp only [Bool.or_eq_true]; exact .inr h
  | err e => simp
  | panic => simp

theorem wire_relax (w : Wire) (buf : Bytes) (qs : List UInt8) (o : Obs) :
    wire w buf qs o = true → wireR w buf qs o = true := by
  unfold wire wireR accessorsOK accessorsOKR
  simp only [Bool.and_eq_true, Bool.or_eq_true]
  rintro ⟨⟨h1, h2⟩, h3⟩
  refine ⟨⟨?_, remarshalOK_relax o h2⟩, h3⟩
  rcases h1 with h1 | ⟨ha, hi, hg⟩
  · exact .inl h1
  · exact .inr ⟨ha, hi, hdrGetsOK_relax _ _ _ hg⟩

theorem mutOK_relax (buf : Bytes) (qs : List UInt8) (o : Obs) :
    mutOK buf qs o = true → mutOKR buf qs o = true := by
  unfold mutOK mutOKR
  cases Wire.describe buf with
  | some w => exact wire_relax w buf qs o
  | none => exact remarshalOK_relax o

theorem getsOK_relax (k : ViewKind) (b : ExtBlock) (bytes : Bytes) (qs : List UInt8)
    (gs : List (Res (Option Bytes))) : getsOK k b bytes qs gs = true → getsOKR k b bytes qs gs = true := by
  induction qs generalizing gs with
  | nil => cases gs <;> simp [getsOK, getsOKR]
  | cons q qs ih =>
    cases gs with
    | nil => simp [getsOK]
    | cons g gs =>
      simp only [getsOK, getsOKR, Bool.and_eq_true]
      intro ⟨h1, h2⟩
      refine ⟨?_, ih gs h2⟩
      unfold getOKR
      cases he : expectGet k b bytes q with
      | none => rfl
      | some v => rw [he] at h1; simp at h1; simp [h1]

theorem view_relax (i : ViewIn) (o : ViewObs) : view i o = true → viewR i o = true := by
  unfold view viewR
  cases i.desc with
  | none => simp
  | some b =>
    simp only [Bool.or_eq_true]
    rintro (h | h)
    · exact .inl h
    · refine .inr ?_
      unfold viewOK at h
      simp only [Bool.and_eq_true, beq_iff_eq] at h
      obtain ⟨⟨⟨⟨⟨h1, h2⟩, h3⟩, h4⟩, h5⟩, h6⟩ := h
      simp [viewOKR, h1, h2, h4, h5, h6, getsOK_relax _ _ _ _ _ h3, toOKR, toSuffOK]

end Relax

def rdItem : Rd Item := do
  let t ← Rd.tok
  match t with
  | "p" => pure .pad
  | "e" => do let i ← Rd.u8; let b ← Rd.bytes; pure (.elem i b)
  | _ => Rd.fail

def rdExtBlock : Rd (Option ExtBlock) := do
  let t ← Rd.nat
  match t with
  | 0 => pure none
  | 1 => do
    let is ← Rd.list rdItem
    let stop ← Rd.opt (do let n ← Rd.u8; let r ← Rd.bytes; pure (n, r))
    pure (some (.oneByte is stop))
  | 2 => do let a ← Rd.u8; let is ← Rd.list rdItem; pure (some (.twoByte a is))
  | 3 => do let p ← Rd.u16; let b ← Rd.bytes; pure (some (.legacy p b))
  | _ => Rd.fail

def rdWire : Rd Wire := do
  let v ← Rd.u8; let m ← Rd.bool; let pt ← Rd.u8
  let sq ← Rd.u16; let ts ← Rd.u32; let ss ← Rd.u32
  let cs ← Rd.list Rd.u32
  let ext ← rdExtBlock
  let pl ← Rd.bytes
  let pad ← Rd.opt Rd.bytes
  pure { version := v, marker := m, pt := pt, seq := sq, ts := ts, ssrc := ss, csrc := cs,
         ext := ext, payload := pl, pad := pad }

def rdObs : Rd Pred.C03.Obs := do
  let un ← Rd.resC rdPacket
  let hn ← Rd.resC Rd.nat
  let re ← rdBytesRes
  let ru ← Rd.resC rdPacket
  let ids ← Rd.list Rd.u8
  let gets ← Rd.list (do let v ← Rd.obytes; pure (canonV v))    -- nil and empty identified
  let ud ← Rd.resC rdPacket
  pure { un := un, hn := hn, re := re, reUn := ru, ids := ids, gets := gets, unDirty := ud }

/-- `c03.wire` -/
def c03wire : Handler :=
  mkHandler
    (do let w ← rdWire; let b ← Rd.bytes; let qs ← Rd.list Rd.u8; let prev ← Rd.bytes
        if w.encode != b then Rd.fail else
        -- the specification's own decoder (oracle of c03.mut) must find every well-formed image again
        match Wire.describe b with
        | some w' => if w'.toPacket != w.toPacket then Rd.fail else pure (w, b, qs, prev)
        | none => if w.WF then Rd.fail else pure (w, b, qs, prev))
    rdObs
    (fun (_, b, qs, prev) => Relax.canonObs (Pred.C03.modelObs b qs prev))
    (fun (w, b, qs, _) o => Relax.wireR w b qs o)
    (fun (w, _, _, _) => Pred.C03.wireWF w)
    (fun (w, _, _, _) _ =>
      if Pred.C03.reservedRegion w then some "c03_reserved_id"
      else if Pred.C03.appbitsRegion w then some "c03_twobyte_appbits" else none)

/-- where `mutOKR` is binding = the hypothesis of `c03_mut_pred`: every byte string except the images
    of descriptions inside a known-finding region.  Sentence (2) is about "any input that Unmarshal
    accepts", so a string that is NOT the image of a well-formed description is inside the quantifier
    too (`mutOKR` is `remarshalOKR` there, which demands nothing of a rejected input);
    `Pred.C03.mutWF` alone is false there, which would leave sentence (2) unenforced on all accepted
    mutations that left the grammar. -/
def mutQuantified (buf : Bytes) : Bool := Pred.C03.mutWF buf || (Wire.describe buf).isNone

/-- `c03.mut` -/
def c03mut : Handler :=
  mkHandler (do let b ← Rd.bytes; let qs ← Rd.list Rd.u8; let prev ← Rd.bytes; pure (b, qs, prev)) rdObs
    (fun (b, qs, prev) => Relax.canonObs (Pred.C03.modelObs b qs prev)) (fun (b, qs, _) o => Relax.mutOKR b qs o)
    (fun (b, _, _) => mutQuantified b) (fun (b, _, _) _ => Pred.C03.mutRegion b)

def rdViewKind : Rd ViewKind := do
  let t ← Rd.nat
  match t with
  | 1 => pure .oneByte
  | 2 => pure .twoByte
  | 3 => pure .raw
  | _ => Rd.fail

def rdViewIn : Rd Pred.C03.ViewIn := do
  let k ← rdViewKind
  let blk ← Rd.opt (do let e ← rdExtBlock; match e with | some b => pure b | none => Rd.fail)
  let bytes ← Rd.bytes
  let qs ← Rd.list Rd.u8
  let fill ← Rd.u8
  match blk with
  | some b => if b.encode != bytes then Rd.fail
  | none => pure ()
  pure { kind := k, block := blk, bytes := bytes, queries := qs, fill := fill }

def rdViewObs : Rd Pred.C03.ViewObs := do
  let unm ← Rd.resC Rd.nat
  let ids ← Rd.resC (Rd.list Rd.u8)
  let gets ← Rd.list (Rd.resC (do let v ← Rd.obytes; pure (canonV v)))    -- nil and empty identified
  let m ← Rd.resC Rd.bytes
  let sz ← Rd.resC Rd.nat
  let to ← Rd.list (Rd.resC (do let b ← Rd.bytes; let n ← Rd.nat; pure (b, n)))
  pure { unm := unm, ids := ids, gets := gets, marshal := m, size := sz, to := to }

/-- `c03.view` -/
def c03view : Handler :=
  mkHandler rdViewIn rdViewObs (fun i => Relax.canonViewObs (Pred.C03.modelView i)) Relax.viewR Pred.C03.viewWF
    (fun i _ => if Pred.C03.viewAppbitsRegion i then some "c03_twobyte_appbits" else none)

def handlers : List (String × Handler) :=
  [("c03.wire", c03wire), ("c03.mut", c03mut), ("c03.view", c03view)]
end Rtp.Kinds.CoreC
