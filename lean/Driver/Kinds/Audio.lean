import Driver.Common
import Rtp.Model.Audio
import Rtp.Pred.C08
import Rtp.Pred.C09
namespace Rtp.Kinds.Audio
open Rtp Rtp.Proto Rtp.Pred

/-- `c08.g711|g722  <calls> => <PayObs list>` : a history of calls on one (stateless) instance -/
def c08split : Handler :=
  mkHandler rdCalls rdPayObsList
    (fun calls => calls.map fun (m, b) => PayObs.ofFrags (Model.g711Payload m b))
    (fun calls os => C08.histOk false calls os)

def c08opus : Handler :=
  mkHandler rdCalls rdPayObsList
    (fun calls => calls.map fun (m, b) => PayObs.ofFrags (Model.opusPayload m b))
    (fun calls os => C08.histOk true calls os && C08.opusOneFragment calls os)

/-- per call: `res head tail0 tail1 auxPanic freshSame twinSame` (Opus has no metadata beyond the payload) -/
def rdDepObsUnit : Rd (C09.DepObs Unit) := do
  let r ← Rd.resC Rd.bytes
  let h ← Rd.bool; let t0 ← Rd.bool; let t1 ← Rd.bool; let ap ← Rd.bool; let fs ← Rd.bool; let tw ← Rd.bool
  pure { res := r, md := (), head := h, tail0 := t0, tail1 := t1, auxPanic := ap, freshSame := fs, twinSame := tw }

/-- `c09.opus <n> obytes* => <n> DepObs*` : a sequence of payloads on one OpusPacket -/
def c09opus : Handler :=
  mkHandler (Rd.list Rd.obytes) (Rd.list rdDepObsUnit)
    (fun ps => ps.map fun b =>
      ({ res := (Model.opusUnmarshal b).coarse, md := (), head := Model.audioIsPartitionHead b,
         tail0 := Model.audioIsPartitionTail false b, tail1 := Model.audioIsPartitionTail true b,
         auxPanic := false, freshSame := true, twinSame := true } : C09.DepObs Unit))
    (fun _ os => C09.histOk true os)

def handlers : List (String × Handler) :=
  [("c08.g711", c08split), ("c08.g722", c08split), ("c08.opus", c08opus), ("c09.opus", c09opus)]
end Rtp.Kinds.Audio
