/-
  Driver/Kinds/Pktz.lean — case kinds of group `pktz`: C07 (sequencer) and C06 (packetizer).

  c07.run    <f s | r r0> <ops: string of n/r, `-` = none>  =>  <count> <result>*
  c07.hist   <start> <goroutines> <fnv of the observation, for the distinct-case count>  =>  <count> (<g> <n|r> <before> <after> <result>)*
  c07.synth / c07.synthbad   as c07.hist, on synthesized histories (self-test of the checker:
             linearizable by construction must be accepted, corrupted ones rejected)
  c07.synthsmall  random histories of ≤ 7 calls: the greedy search must agree with brute force
             (`wf` reports how many of them are linearizable)
  c07.randstart <n>  =>  <n> <min> <max>   first values of n fresh random sequencers
  c07.race   go-run-race  =>  <ran> <race reported> <wrong final count>   (stress under `go run -race`)
  c07.facts  sequencer.go  =>  <6 bools> <maxInitialRandomSequenceNumber>

  c06.hist   <mtu> <pt> <ssrc> <ts0> <seqStart> <payloader name> <n> op*  =>  <n> opobs*
             (a padding burst is `G <n> pkt*`, or `Gd <n> (+ pkt | = <seq>)*` when longer than 1024 packets: see `rdPktsDelta`)
     op    = P <payload> <samples> <now:int64 unix ns> <k> <fragment>*     (fragments = what the real
                                                    payloader returned at this call; the model's `pay`)
           | S <skipped> | G <count> | E <id>
     opobs = P (none | some <budget> <payloadSame>) <k> pkt* | S | G <k> pkt* | E
     pkt   = <version> <P> <X> <M> <pt> <seq> <ts> <ssrc> <#csrc> <k> (<id> <bytes>)* <payload>
             <PaddingSize> <MarshalSize> <res bytes: Marshal> <roundtrip>
-/
import Driver.Common
import Rtp.Model.Sequencer
import Rtp.Pred.C07
import Rtp.Model.Packetizer
import Rtp.Pred.C06
namespace Rtp.Kinds.Pktz
open Rtp Rtp.Proto Rtp.Model Rtp.Spec.Counter

/-- tail-recursive `Rd.rep` (histories of 10^5 calls must not use the C stack) -/
def repTR {α} (r : Rd α) (n : Nat) : Rd (List α) := fun s => go n s #[]
where
  go : Nat → List String → Array α → Option (List α × List String)
    | 0, s, acc => some (acc.toList, s)
    | n + 1, s, acc => match r s with
      | none => none
      | some (a, s') => go n s' (acc.push a)

def listTR {α} (r : Rd α) : Rd (List α) := do let n ← Rd.nat; repTR r n

def rdOp : Rd Op := do
  let t ← Rd.tok
  match t with | "n" => pure .next | "r" => pure .roc | _ => Rd.fail

/-- a program as one token: a string over {n, r}; `-` is the empty program -/
def rdOps : Rd (List Op) := do
  let t ← Rd.tok
  if t == "-" then pure [] else
  let l := t.toList
  if l.all (fun c => c == 'n' || c == 'r') then pure (l.map fun c => if c == 'n' then Op.next else Op.roc)
  else Rd.fail

def rdStart : Rd Pred.C07.Start := do
  let t ← Rd.tok
  match t with
  | "f" => do let s ← Rd.u16; pure (.fixed s)
  | "r" => do let r ← Rd.nat; pure (.random r)
  | _ => Rd.fail

def c07run : Handler :=
  mkHandler (do let s ← rdStart; let o ← rdOps; pure (s, o)) (listTR Rd.nat)
    (fun (s, ops) => s.state.run ops)
    (fun (s, ops) o => Pred.C07.runOk s ops o)
    (fun (s, _) => s.wf)

/-- `c07.long  <start> <skip> <ops>  =>  <results of ops>` : `skip` NextSequenceNumber calls whose results
    are not recorded (up to 2^32 + … of them in the thorough tier: 65536 and more roll-overs), then the
    program `ops` as in `c07.run`.  The model is the abstract counter of Rtp/Spec/Counter.lean advanced
    by `skip` in closed form (`c07_long`: that IS the sequential model after `skip` calls), so the kind
    needs no 2^32-step evaluation on the Lean side. -/
def c07long : Handler :=
  mkHandler (do let s ← rdStart; let k ← Rd.nat; let o ← rdOps; pure (s, k, o)) (listTR Rd.nat)
    (fun (s, k, ops) => Spec.Counter.run (s.state.seq.toNat + k) ops)
    (fun (s, k, ops) o => o == Spec.Counter.run (s.state.seq.toNat + k) ops)
    (fun (s, _, _) => s.wf)

def rdCall : Rd Pred.C07.Call := do
  let g ← Rd.nat; let op ← rdOp; let b ← Rd.nat; let a ← Rd.nat; let r ← Rd.nat
  pure { g := g, op := op, before := b, after := a, res := r }

/-- no model observation to compare with (the schedule is not an input): `corr` is vacuous, the
    verdict is the linearizability check of what the real code did -/
def c07hist : Handler := fun inp obs =>
  match (do let s ← Rd.u16; let n ← Rd.nat; let _ ← Rd.nat; Rd.done; pure (s, n) : Rd (UInt16 × Nat)) inp,
        (do let h ← listTR rdCall; Rd.done; pure h : Rd (List Pred.C07.Call)) obs with
  | some ((s, _), _), some (h, _) =>
    some { corr := true, pred := Pred.C07.linearizable (SeqState.newFixed s) h }
  | _, _ => none

/-- self-test of the checker: corrupted histories must be rejected -/
def c07histBad : Handler := fun inp obs =>
  match c07hist inp obs with
  | some v => some { v with pred := !v.pred }
  | none => none

/-- self-test of the checker on tiny histories: the greedy search agrees with brute force -/
def c07histSmall : Handler := fun inp obs =>
  match (do let s ← Rd.u16; let n ← Rd.nat; let _ ← Rd.nat; Rd.done; pure (s, n) : Rd (UInt16 × Nat)) inp,
        (do let h ← listTR rdCall; Rd.done; pure h : Rd (List Pred.C07.Call)) obs with
  | some ((s, _), _), some (h, _) =>
    if h.length > 8 then none else
    let a := Pred.C07.linearizable (SeqState.newFixed s) h
    let b := Pred.C07.linearizableBrute (SeqState.newFixed s) h
    some { corr := true, pred := a == b, wf := b }
  | _, _ => none

def rdFacts : Rd Pred.C07.Facts := do
  let a ← Rd.bool; let b ← Rd.bool; let c ← Rd.bool; let d ← Rd.bool; let e ← Rd.bool; let f ← Rd.bool
  let m ← Rd.nat
  pure { nextLocksFirst := a, nextDefersUnlock := b, rocLocksFirst := c, rocDefersUnlock := d,
         noOtherLockOps := e, fieldsPrivate := f, maxInitialRandom := m }

/-- Correspondence only.  The facts describe the SOURCE TEXT of sequencer.go (mutex-first method
    bodies, the names of the type and its fields, the value of a constant); C07 as worded says
    nothing about how the counter is protected, so a differently written sequencer is not by that
    fact a violation of C07 with a "failing input".  The model still says that all facts hold: a
    change of the lock discipline breaks the tie between `c07_interleaving` and the code and is
    reported as a correspondence break, unless c07.hist / c07.race / c07.run find a failing history. -/
def factsPredR (_ : String) (_ : Pred.C07.Facts) : Bool := true

theorem factsPredR_of_factsOk (i : String) (o : Pred.C07.Facts) :
    Pred.C07.factsOk o = true → factsPredR i o = true := fun _ => rfl

def c07facts : Handler :=
  mkHandler Rd.tok rdFacts
    (fun _ => { nextLocksFirst := true, nextDefersUnlock := true, rocLocksFirst := true,
                rocDefersUnlock := true, noOtherLockOps := true, fieldsPrivate := true,
                maxInitialRandom := SeqState.maxInitialRandom })
    factsPredR

/-! ### C06 -/

def rdPkt : Rd PktObs := do
  let v ← Rd.nat; let p ← Rd.bool; let x ← Rd.bool; let m ← Rd.bool
  let pt ← Rd.u8; let seq ← Rd.u16; let ts ← Rd.u32; let ssrc ← Rd.u32; let cc ← Rd.nat
  let exts ← Rd.list (do let id ← Rd.u8; let b ← Rd.bytes; pure (id, b))
  let payload ← Rd.bytes; let ps ← Rd.nat; let ms ← Rd.nat
  let mar ← Rd.resC Rd.bytes; let rt ← Rd.bool
  pure { version := v, padding := p, extension := x, marker := m, pt := pt, seq := seq, ts := ts,
         ssrc := ssrc, csrcCount := cc, exts := exts, payload := payload, paddingSize := ps,
         marshalSize := ms, marshal := mar, roundtrip := rt }

/-- `prev` with another sequence number: the field, and octets 2–3 of the wire image -/
def pktWithSeq (prev : PktObs) (s : UInt16) : Option PktObs :=
  match prev.marshal with
  | .ok (a :: b :: _ :: _ :: rest) =>
    some { prev with seq := s, marshal := .ok (a :: b :: (s >>> 8).toUInt8 :: s.toUInt8 :: rest) }
  | _ => none

/-- the packets of a LONG padding burst (`Gd`, more than 1024 packets; every burst of the ordinary
    cases is written in full as `G`): `<n> item*` with `item := + pkt | = <seq>`, where `= s` stands
    for the packet whose complete observation (every field, MarshalSize, wire bytes, round trip) is
    that of the preceding packet except for the sequence number `s` — the harness observes every
    packet in full and writes `=` only after comparing the two observations token by token, so the
    list read here is exactly the list `G` would have carried (a transport encoding: 65536 packets
    of 267 bytes are 1 MB instead of 40 MB), and predicate and correspondence see every packet. -/
def rdPktsDelta : Rd (List PktObs) := fun s =>
  match Rd.nat s with
  | none => none
  | some (n, s) => go n s none #[]
where
  go : Nat → List String → Option PktObs → Array PktObs → Option (List PktObs × List String)
    | 0, s, _, acc => some (acc.toList, s)
    | n + 1, "+" :: s, _, acc =>
      match rdPkt s with
      | some (p, s') => go n s' (some p) (acc.push p)
      | none => none
    | n + 1, "=" :: s, some prev, acc =>
      match Rd.u16 s with
      | some (q, s') =>
        match pktWithSeq prev q with
        | some p => go n s' (some p) (acc.push p)
        | none => none
      | none => none
    | _, _, _, _ => none

def rdPkOp : Rd PkOp := do
  let t ← Rd.tok
  match t with
  | "P" => do
    let payload ← Rd.bytes; let samples ← Rd.u32; let now ← Rd.i64
    let frags ← Rd.list Rd.bytes
    pure (.packetize (fun _ _ => frags) payload samples now)
  | "S" => do let n ← Rd.u32; pure (.skip n)
  | "G" => do let n ← Rd.u32; pure (.padding n)
  | "E" => do let v ← Rd.int; pure (.enableAbs v)
  | _ => Rd.fail

def rdPkOpObs : Rd PkOpObs := do
  let t ← Rd.tok
  match t with
  | "P" => do
    let c ← Rd.opt (do let b ← Rd.u16; let s ← Rd.bool; pure (b, s))
    let pkts ← listTR rdPkt
    pure (.packetize c pkts)
  | "S" => pure .skip
  | "G" => do let pkts ← listTR rdPkt; pure (.padding pkts)
  | "Gd" => do let pkts ← rdPktsDelta; pure (.padding pkts)
  | "E" => pure .enableAbs
  | _ => Rd.fail

def rdPkInput : Rd (Packetizer × List PkOp) := do
  let mtu ← Rd.u16; let pt ← Rd.u8; let ssrc ← Rd.u32; let ts ← Rd.u32; let s ← Rd.u16
  let _name ← Rd.tok
  let ops ← Rd.list rdPkOp
  pure ({ mtu := mtu, pt := pt, ssrc := ssrc, ts := ts, seq := SeqState.newFixed s, absId := 0 }, ops)

/-- first Unix nanosecond after the NTP era that started in 1900: (2^32 − 2208988800)·10^9 -/
def eraEndNs : Int := (2 ^ 32 - 2208988800) * 1000000000

/-- What the text of C06 quantifies over, per call, beyond `Pred.C06.wf`:
    * "for every NON-EMPTY payload": the property does not say what a Packetize call with an empty
      (or nil) payload returns or does to the running timestamp, so a history containing such a call
      is outside the quantifier (`Pred.C06.tsWalk` would otherwise demand "no advance");
    * "holding the send instant": the abs-send-time bytes are those of the NTP rendering of the
      clock reading, which denotes the send instant only for instants of the NTP era that contains
      the Unix epoch, 1970-01-01 … 2036-02-07 (the range C18 states for the same conversion);
      for other `int64` clock values `Pred.C06.absWalk` would demand the wrapped `uint64`
      arithmetic of the current code bit for bit. -/
def opInText : PkOp → Bool
  | .packetize _ payload _ now => !payload.isEmpty && decide (0 ≤ now.toInt) && decide (now.toInt < eraEndNs)
  | _ => true

/-- the domain on which the driver lets `Pred.C06.histOk` speak: `Pred.C06.wf` (MTU ≥ 64, 7-bit
    payload type, extension ids 0 / 1–14) and every call inside the property's text -/
def c06wfR (cfg : Packetizer) (ops : List PkOp) : Bool := Pred.C06.wf cfg ops && ops.all opInText

/-- the theorems of Props/C06 (hypothesis `Pred.C06.wf`) apply wherever the driver's `wf` holds -/
theorem wf_of_c06wfR (cfg : Packetizer) (ops : List PkOp) :
    c06wfR cfg ops = true → Pred.C06.wf cfg ops = true := by
  intro h; simp only [c06wfR, Bool.and_eq_true] at h; exact h.1

def c06hist : Handler :=
  mkHandler rdPkInput (Rd.list rdPkOpObs)
    (fun (cfg, ops) => cfg.run ops)
    (fun (cfg, ops) o => Pred.C06.histOk cfg ops o)
    (fun (cfg, ops) => c06wfR cfg ops)

/-- `c07.race go-run-race => <ran> <race reported> <wrong final count>`: the stress program under
    the Go race detector; nothing may be reported (when the detector cannot be run: vacuous) -/
def c07race : Handler :=
  mkHandler Rd.tok (do let a ← Rd.bool; let b ← Rd.bool; let c ← Rd.bool; pure (a, b, c))
    (fun _ => (true, false, false))
    (fun _ o => !o.2.1 && !o.2.2)
    (fun _ => true)
    (fun _ o => if o.1 then none else some "race-detector-unavailable")

/-- `c07.randstart <n> => <n> <min first value> <max first value>` of n fresh NewRandomSequencer()s.
    No model observation (the generator is the implementation's): only the predicate applies. -/
def c07randstart : Handler := fun inp obs =>
  match (do let n ← Rd.nat; Rd.done; pure n : Rd Nat) inp,
        (do let n ← Rd.nat; let a ← Rd.nat; let b ← Rd.nat; Rd.done; pure (n, a, b) : Rd (Nat × Nat × Nat)) obs with
  | some (n, _), some ((m, a, b), _) =>
    some { corr := n == m, pred := Pred.C07.randStartOk { n := m, minFirst := a, maxFirst := b } }
  | _, _ => none

def handlers : List (String × Handler) :=
  [("c07.run", c07run), ("c07.long", c07long), ("c07.hist", c07hist), ("c07.facts", c07facts), ("c07.synth", c07hist),
   ("c07.synthbad", c07histBad), ("c07.synthsmall", c07histSmall), ("c07.race", c07race), ("c07.randstart", c07randstart),
   ("c06.hist", c06hist)]
end Rtp.Kinds.Pktz
