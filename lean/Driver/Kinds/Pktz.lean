import Driver.Common
namespace Rtp.Kinds.Pktz
open Rtp Rtp.Proto

def handlers : List (String × Handler) := []
end Rtp.Kinds.Pktz
