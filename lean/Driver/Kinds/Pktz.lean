/-
  Driver/Kinds/Pktz.lean — case kinds of group `pktz`: C07 (sequencer) and C06 (packetizer).

  c07.run    <f s | r r0> <ops: string of n/r, `-` = none>  =>  <count> <result>*
  c07.hist   <start> <goroutines> <fnv of the observation, for the distinct-case count>  =>  <count> (<g> <n|r> <before> <after> <result>)*
  c07.synth / c07.synthbad   as c07.hist, on synthesized histories (self-test of the checker:
             linearizable by construction must be accepted, corrupted ones rejected)
  c07.synthsmall  random histories of ≤ 7 calls: the greedy search must agree with brute force
             (`wf` reports how many of them are linearizable)
  c07.randstart <n>  =>  <n> <min> <max>   first values of n fresh random sequencers
  c07.race   go-run-race  =>  <ran> <race reported> <wrong final count>   (stress under `go run -race`)
  c07.facts  sequencer.go  =>  <6 bools> <maxInitialRandomSequenceNumber>

  c06.hist   <mtu> <pt> <ssrc> <ts0> <seqStart> <payloader name> <n> op*  =>  <n> opobs*
     op    = P <payload> <samples> <now:int64 unix ns> <k> <fragment>*     (fragments = what the real
                                                    payloader returned at this call; the model's `pay`)
           | S <skipped> | G <count> | E <id>
     opobs = P (none | some <budget> <payloadSame>) <k> pkt* | S | G <k> pkt* | E
     pkt   = <version> <P> <X> <M> <pt> <seq> <ts> <ssrc> <#csrc> <k> (<id> <bytes>)* <payload>
             <PaddingSize> <MarshalSize> <res bytes: Marshal> <roundtrip>
-/
import Driver.Common
import Rtp.Model.Sequencer
import Rtp.Pred.C07
import Rtp.Model.Packetizer
import Rtp.Pred.C06
namespace Rtp.Kinds.Pktz
open Rtp Rtp.Proto Rtp.Model Rtp.Spec.Counter

/-- tail-recursive `Rd.rep` (histories of 10^5 calls must not use the C stack) -/
def repTR {α} (r : Rd α) (n : Nat) : Rd (List α) := fun s => go n s #[]
where
  go : Nat → List String → Array α → Option (List α × List String)
    | 0, s, acc => some (acc.toList, s)
    | n + 1, s, acc => match r s with
      | none => none
      | some (a, s') => go n s' (acc.push a)

def listTR {α} (r : Rd α) : Rd (List α) := do let n ← Rd.nat; repTR r n

def rdOp : Rd Op := do
  let t ← Rd.tok
  match t with | "n" => pure .next | "r" => pure .roc | _ => Rd.fail

/-- a program as one token: a string over {n, r}; `-` is the empty program -/
def rdOps : Rd (List Op) := do
  let t ← Rd.tok
  if t == "-" then pure [] else
  let l := t.toList
  if l.all (fun c => c == 'n' || c == 'r') then pure (l.map fun c => if c == 'n' then Op.next else Op.roc)
  else Rd.fail

def rdStart : Rd Pred.C07.Start := do
  let t ← Rd.tok
  match t with
  | "f" => do let s ← Rd.u16; pure (.fixed s)
  | "r" => do let r ← Rd.nat; pure (.random r)
  | _ => Rd.fail

def c07run : Handler :=
  mkHandler (do let s ← rdStart; let o ← rdOps; pure (s, o)) (listTR Rd.nat)
    (fun (s, ops) => s.state.run ops)
    (fun (s, ops) o => Pred.C07.runOk s ops o)
    (fun (s, _) => s.wf)

def rdCall : Rd Pred.C07.Call := do
  let g ← Rd.nat; let op ← rdOp; let b ← Rd.nat; let a ← Rd.nat; let r ← Rd.nat
  pure { g := g, op := op, before := b, after := a, res := r }

/-- no model observation to compare with (the schedule is not an input): `corr` is vacuous, the
    verdict is the linearizability check of what the real code did -/
def c07hist : Handler := fun inp obs =>
  match (do let s ← Rd.u16; let n ← Rd.nat; let _ ← Rd.nat; Rd.done; pure (s, n) : Rd (UInt16 × Nat)) inp,
        (do let h ← listTR rdCall; Rd.done; pure h : Rd (List Pred.C07.Call)) obs with
  | some ((s, _), _), some (h, _) =>
    some { corr := true, pred := Pred.C07.linearizable (SeqState.newFixed s) h }
  | _, _ => none

/-- self-test of the checker: corrupted histories must be rejected -/
def c07histBad : Handler := fun inp obs =>
  match c07hist inp obs with
  | some v => some { v with pred := !v.pred }
  | none => none

/-- self-test of the checker on tiny histories: the greedy search agrees with brute force -/
def c07histSmall : Handler := fun inp obs =>
  match (do let s ← Rd.u16; let n ← Rd.nat; let _ ← Rd.nat; Rd.done; pure (s, n) : Rd (UInt16 × Nat)) inp,
        (do let h ← listTR rdCall; Rd.done; pure h : Rd (List Pred.C07.Call)) obs with
  | some ((s, _), _), some (h, _) =>
    if h.length > 8 then none else
    let a := Pred.C07.linearizable (SeqState.newFixed s) h
    let b := Pred.C07.linearizableBrute (SeqState.newFixed s) h
    some { corr := true, pred := a == b, wf := b }
  | _, _ => none

def rdFacts : Rd Pred.C07.Facts := do
  let a ← Rd.bool; let b ← Rd.bool; let c ← Rd.bool; let d ← Rd.bool; let e ← Rd.bool; let f ← Rd.bool
  let m ← Rd.nat
  pure { nextLocksFirst := a, nextDefersUnlock := b, rocLocksFirst := c, rocDefersUnlock := d,
         noOtherLockOps := e, fieldsPrivate := f, maxInitialRandom := m }

def c07facts : Handler :=
  mkHandler Rd.tok rdFacts
    (fun _ => { nextLocksFirst := true, nextDefersUnlock := true, rocLocksFirst := true,
                rocDefersUnlock := true, noOtherLockOps := true, fieldsPrivate := true,
                maxInitialRandom := SeqState.maxInitialRandom })
    (fun _ o => Pred.C07.factsOk o)

/-! ### C06 -/

def rdPkt : Rd PktObs := do
  let v ← Rd.nat; let p ← Rd.bool; let x ← Rd.bool; let m ← Rd.bool
  let pt ← Rd.u8; let seq ← Rd.u16; let ts ← Rd.u32; let ssrc ← Rd.u32; let cc ← Rd.nat
  let exts ← Rd.list (do let id ← Rd.u8; let b ← Rd.bytes; pure (id, b))
  let payload ← Rd.bytes; let ps ← Rd.nat; let ms ← Rd.nat
  let mar ← Rd.resC Rd.bytes; let rt ← Rd.bool
  pure { version := v, padding := p, extension := x, marker := m, pt := pt, seq := seq, ts := ts,
         ssrc := ssrc, csrcCount := cc, exts := exts, payload := payload, paddingSize := ps,
         marshalSize := ms, marshal := mar, roundtrip := rt }

def rdPkOp : Rd PkOp := do
  let t ← Rd.tok
  match t with
  | "P" => do
    let payload ← Rd.bytes; let samples ← Rd.u32; let now ← Rd.i64
    let frags ← Rd.list Rd.bytes
    pure (.packetize (fun _ _ => frags) payload samples now)
  | "S" => do let n ← Rd.u32; pure (.skip n)
  | "G" => do let n ← Rd.u32; pure (.padding n)
  | "E" => do let v ← Rd.int; pure (.enableAbs v)
  | _ => Rd.fail

def rdPkOpObs : Rd PkOpObs := do
  let t ← Rd.tok
  match t with
  | "P" => do
    let c ← Rd.opt (do let b ← Rd.u16; let s ← Rd.bool; pure (b, s))
    let pkts ← listTR rdPkt
    pure (.packetize c pkts)
  | "S" => pure .skip
  | "G" => do let pkts ← listTR rdPkt; pure (.padding pkts)
  | "E" => pure .enableAbs
  | _ => Rd.fail

def rdPkInput : Rd (Packetizer × List PkOp) := do
  let mtu ← Rd.u16; let pt ← Rd.u8; let ssrc ← Rd.u32; let ts ← Rd.u32; let s ← Rd.u16
  let _name ← Rd.tok
  let ops ← Rd.list rdPkOp
  pure ({ mtu := mtu, pt := pt, ssrc := ssrc, ts := ts, seq := SeqState.newFixed s, absId := 0 }, ops)

def c06hist : Handler :=
  mkHandler rdPkInput (Rd.list rdPkOpObs)
    (fun (cfg, ops) => cfg.run ops)
    (fun (cfg, ops) o => Pred.C06.histOk cfg ops o)
    (fun (cfg, ops) => Pred.C06.wf cfg ops)

/-- `c07.race go-run-race => <ran> <race reported> <wrong final count>`: the stress program under
    the Go race detector; nothing may be reported (when the detector cannot be run: vacuous) -/
def c07race : Handler :=
  mkHandler Rd.tok (do let a ← Rd.bool; let b ← Rd.bool; let c ← Rd.bool; pure (a, b, c))
    (fun _ => (true, false, false))
    (fun _ o => !o.2.1 && !o.2.2)
    (fun _ => true)
    (fun _ o => if o.1 then none else some "race-detector-unavailable")

/-- `c07.randstart <n> => <n> <min first value> <max first value>` of n fresh NewRandomSequencer()s.
    No model observation (the generator is the implementation's): only the predicate applies. -/
def c07randstart : Handler := fun inp obs =>
  match (do let n ← Rd.nat; Rd.done; pure n : Rd Nat) inp,
        (do let n ← Rd.nat; let a ← Rd.nat; let b ← Rd.nat; Rd.done; pure (n, a, b) : Rd (Nat × Nat × Nat)) obs with
  | some (n, _), some ((m, a, b), _) =>
    some { corr := n == m, pred := Pred.C07.randStartOk { n := m, minFirst := a, maxFirst := b } }
  | _, _ => none

def handlers : List (String × Handler) :=
  [("c07.run", c07run), ("c07.hist", c07hist), ("c07.facts", c07facts), ("c07.synth", c07hist),
   ("c07.synthbad", c07histBad), ("c07.synthsmall", c07histSmall), ("c07.race", c07race), ("c07.randstart", c07randstart),
   ("c06.hist", c06hist)]
end Rtp.Kinds.Pktz
