/-
  Driver/Kinds/Ext.lean — case kinds of group `ext` (C17, C18).

  C17, per codec X ∈ {audio, tcc, playout, abssend, abscapture}, value tokens
      audio `<level> <voice>` · tcc `<seq>` · playout `<min> <max>` · abssend `<ts>` ·
      abscapture `<ts> <opt int64>`:
    c17.X.m   <value> <prev-receiver value> <next value> <edits>  => <res bytes> <opt (<res-unit> <value>)> <kept>
              Marshal(value); if it succeeded, Unmarshal of the produced bytes into a receiver
              holding `prev`, its result and the receiver afterwards.  The caller keeps the decoded
              value (a struct copy of the receiver), the same receiver then decodes Marshal(next)
              (if `next` can be encoded); <kept>: the kept value still reports what it reported
    c17.X.u   <prev value> <list bytes> <bytes> <edits>   => <res-unit> <value> <earlier> <prev-same>
              a receiver built as a struct copy of `prev` decodes the listed byte strings (results
              ignored; after each the caller keeps a struct copy of the receiver), then the input
              under test: its result and the receiver afterwards; <earlier>: every kept value still
              reports what it reported when it was decoded; <prev-same>: so does `prev`
    <edits>   (for the record; not an input of the model) before the decode under test OTHER receivers decoded
              the same payloads and the caller wrote through every exported pointer of what they decoded
              (`*ext.EstimatedCaptureClockOffset += k`): the number of values edited, 0 for codecs without pointers
  C18 (instants and durations are int64 nanoseconds; every observation is `ok …` | `panic`):
    c18.capture   <t>            => <Timestamp u64> <CaptureTime().UnixNano()> <the same, asked again>
    c18.ntp2time  <ntp u64>      => <CaptureTime().UnixNano() of Timestamp = ntp>      (correspondence only)
    c18.offset    <t> <d> <opt (<how> <d2>)> <hist> => <Timestamp> <raw offset> <duration> <opt duration via the wire> <opt held duration>
                                                       <duration asked again> <duration asked of a struct copy> <opt wire duration asked again>
                  hist = 1: before the extension under test is built the caller built / decoded other extensions
                  (same offset, offset 0) and wrote through their exported `EstimatedCaptureClockOffset` pointers
                  with `some how d2` the receiver that decodes the wire form is not a zero value: it is a
                  struct copy of an extension constructed with offset d2 (how = 0), or it has decoded the wire
                  form of such an extension before and the caller kept a struct copy of it (how = 1); the
                  last token is what that held extension's EstimatedCaptureClockOffsetDuration returns AFTER
                  the decode under test
    c18.offdur    <opt raw>      => <opt duration>                                     (correspondence only)
    c18.estimate  <send> <delay> => <NewAbsSendTime(send).Timestamp> <24-bit ts via the wire> <Estimate(send+delay).UnixNano()>
    c18.estraw    <ts u64> <recv> => <Estimate(recv).UnixNano()>                        (correspondence only)
-/
import Driver.Common
import Rtp.Model.ExtCodecs
import Rtp.Model.Ntp
import Rtp.Pred.C17
import Rtp.Pred.C18
namespace Rtp.Kinds.Ext
open Rtp Rtp.Proto Rtp.Model.ExtCodecs Rtp.Pred.C17

/-! ### C17 -/

def rdAudio : Rd AudioLevel := do let l ← Rd.u8; let v ← Rd.bool; pure ⟨l, v⟩
def rdTcc : Rd TransportCC := do let s ← Rd.u16; pure ⟨s⟩
def rdPlayout : Rd PlayoutDelay := do let a ← Rd.u16; let b ← Rd.u16; pure ⟨a, b⟩
def rdAbsSend : Rd AbsSendTime := do let t ← Rd.u64; pure ⟨t⟩
def rdAbsCapture : Rd AbsCaptureTime := do let t ← Rd.u64; let o ← Rd.opt Rd.i64; pure ⟨t, o⟩

def rdUn {σ} (rd : Rd σ) : Rd (Un σ) := do let r ← Rd.resC Rd.unit; let s ← rd; pure ⟨r, s⟩

def rdMObs {σ} (rd : Rd σ) : Rd (MObs σ) := do
  let out ← Rd.resC Rd.bytes
  let rt ← Rd.opt (rdUn rd)
  pure ⟨out, rt⟩

/-- `marshalOk` and: the value decoded from Marshal(v) is still that value after the receiver it was
    copied from has decoded the next payload ("Unmarshal after Marshal is the identity" is about the
    value the caller got; a value that changes behind the caller's back afterwards is not the one
    that was decoded).  The models are pure functions on values, so the model's answer is `true`. -/
def marshalOkKept {σ} [DecidableEq σ] (S : ExtSpec σ) (v : σ) (o : MObs σ × Bool) : Bool :=
  marshalOk S v o.1 && o.2

theorem marshalOkKept_of_marshalOk {σ} [DecidableEq σ] (S : ExtSpec σ) (v : σ) (o : MObs σ) :
    marshalOk S v o = true → marshalOkKept S v (o, true) = true := by
  intro h; simp [marshalOkKept, h]

def marshalKind {σ} [DecidableEq σ] [Repr σ] (rd : Rd σ) (c : Codec σ) (S : ExtSpec σ) : Handler :=
  mkHandler (do let v ← rd; let p ← rd; let _next ← rd; let _edits ← Rd.nat; pure (v, p))
    (do let o ← rdMObs rd; let k ← Rd.bool; pure (o, k))
    (fun (v, p) => (modelM c v p, true))
    (fun (v, _) o => marshalOkKept S v o)
    -- C17 quantifies over in-range values (exact layout, round trip) AND over the out-of-range values
    -- that must be refused (AudioLevel, PlayoutDelay); only values that are neither are outside it
    (fun (v, _) => S.inRange v || S.reject v)

/-- `unmarshalOk` and: the values decoded EARLIER by the same receiver (struct copies the caller
    kept) still report what they reported ("decodes every byte string … to the specified fields":
    a decoded value that a later decode changes is no longer the value that byte string specifies).
    The third component (the value the receiver was built from is unchanged) is compared with the
    model only — C17 says nothing about it. -/
def unmarshalOkKept {σ} [DecidableEq σ] (S : ExtSpec σ) (raw : Bytes) (o : Un σ × Bool × Bool) : Bool :=
  unmarshalOk S raw o.1 && o.2.1

theorem unmarshalOkKept_of_unmarshalOk {σ} [DecidableEq σ] (S : ExtSpec σ) (raw : Bytes) (o : Un σ) :
    unmarshalOk S raw o = true → unmarshalOkKept S raw (o, true, true) = true := by
  intro h; simp [unmarshalOkKept, h]

def unmarshalKind {σ} [DecidableEq σ] [Repr σ] (rd : Rd σ) (c : Codec σ) (S : ExtSpec σ) : Handler :=
  mkHandler (do let p ← rd; let h ← Rd.list Rd.bytes; let b ← Rd.bytes; let _edits ← Rd.nat; pure (p, h, b))
    (do let u ← rdUn rd; let e ← Rd.bool; let ps ← Rd.bool; pure (u, e, ps))
    (fun (p, h, b) => (modelU c p h b, true, true))
    (fun (_, _, b) o => unmarshalOkKept S b o)
    -- "decodes every byte string of at least the fixed size …, rejects shorter input, never panics":
    -- every byte string is inside the quantifier

/-! ### C18 -/
open Rtp.Model.Ntp Rtp.Pred.C18

/-- every C18 observation is `ok …` or `panic` (a panic of the real code is an observation).
    A panic is `pred = false` whatever the input; it counts as a violation of C18 only where the
    handler's `wf` holds, and each handler's `wf` is exactly the range the property states:
    capture — the instant in [1970-01-01, NTP era end 2036) (`instantOk`);
    offset — such an instant and |offset| < 2^31 s (`instantOk`, `offsetOk`);
    estimate — such a send instant and a delay in [0, 64 s − 2^-18 s) (`estimateWF`).
    Outside it only the correspondence with the model applies. -/
def okPred {α} (p : α → Bool) : Res α → Bool
  | .ok a => p a
  | _ => false

/-- `CaptureTime()` asked a second time of the same extension: C18's clause ("within 1 ns of t") is
    about what the accessor returns, on every call -/
def capture : Handler :=
  mkHandler Rd.i64
    (Rd.res (do let ts ← Rd.u64; let b ← Rd.i64; let b2 ← Rd.i64; pure ((⟨ts, b⟩ : CaptureObs), b2)))
    (fun t => let ts := captureTimestamp t; .ok (⟨ts, captureTime ts⟩, captureTime ts))
    (fun t => okPred (fun (o, b2) => captureOk t o && captureOk t { o with back := b2 }))
    (fun t => instantOk t.toInt)

def ntp2time : Handler :=
  mkHandler Rd.u64 (Rd.res Rd.i64) (fun t => .ok (captureTime t)) (fun _ _ => true) (fun _ => false)

/-- "a capture clock offset given as a duration of magnitude below 2^31 s is recovered by
    EstimatedCaptureClockOffsetDuration within 1 ns, sign included" for the HELD extension of
    `c18.offset`: it was given `d2`, and it is read after another value that shares its history has
    decoded a payload.  Nothing is demanded when there is no held extension or `d2` is out of range. -/
def heldOk (h : Option (Nat × Int64)) (k : Option Int64) : Bool :=
  match h with
  | none => true
  | some (_, d2) =>
    !offsetOk d2.toInt ||
    (match k with
     | some b2 => Rtp.Pred.C18.offset d2.toInt b2.toInt
     | none => false)

/-- the same clause for a LATER answer of `EstimatedCaptureClockOffsetDuration` (asked again of the
    same extension, or of a struct copy of it): the offset given is recovered within 1 ns, sign included -/
def againOk (d b : Int64) : Bool := !offsetOk d.toInt || Rtp.Pred.C18.offset d.toInt b.toInt

/-- later answers of the accessor in `c18.offset`: asked again of the same extension, of a struct copy
    of it, and (correspondence only) of the receiver that decoded the wire form -/
structure OffsetAgain where
  same : Int64
  copy : Int64
  wire : Option Int64
  deriving DecidableEq, Repr

/-- `hist` (0 | 1: earlier results of the constructor / decoder were edited through their exported
    pointer before the extension under test was built) is part of the input for the record only: the
    model is a function of `t` and `d`, what a caller did to OTHER extensions does not enter it. -/
def offset : Handler :=
  mkHandler (do let t ← Rd.i64; let d ← Rd.i64
                let h ← Rd.opt (do let how ← Rd.nat; let d2 ← Rd.i64; pure (how, d2))
                let _hist ← Rd.nat
                pure (t, d, h))
    (Rd.res (do let ts ← Rd.u64; let raw ← Rd.i64; let b ← Rd.i64; let w ← Rd.opt Rd.i64
                let k ← Rd.opt Rd.i64
                let b2 ← Rd.i64; let b3 ← Rd.i64; let w2 ← Rd.opt Rd.i64
                pure (ts, (⟨raw, b, w⟩ : OffsetObs), k, (⟨b2, b3, w2⟩ : OffsetAgain))))
    (fun (t, d, h) => let raw := encodeOffset d
      .ok (captureTimestamp t, ⟨raw, decodeOffset raw, some (decodeOffset raw)⟩,
           h.map (fun (_, d2) => decodeOffset (encodeOffset d2)),
           (⟨decodeOffset raw, decodeOffset raw, some (decodeOffset raw)⟩ : OffsetAgain)))
    (fun (_, d, h) => okPred (fun (_, o, k, a) =>
      offsetOkObs d o && heldOk h k && againOk d a.same && againOk d a.copy))
    (fun (t, d, _) => instantOk t.toInt && offsetOk d.toInt)

def offdur : Handler :=
  mkHandler (Rd.opt Rd.i64) (Rd.res (Rd.opt Rd.i64)) (fun o => .ok (o.map decodeOffset))
    (fun _ _ => true) (fun _ => false)

def estimateK : Handler :=
  mkHandler (do let s ← Rd.i64; let d ← Rd.i64; pure (s, d))
    (Rd.res (do let ts ← Rd.u64; let t24 ← Rd.u64; let e ← Rd.i64; pure (ts, (⟨t24, e⟩ : EstimateObs))))
    (fun (s, d) => let ts := sendTimestamp s
      .ok (ts, ⟨ts &&& 0xFFFFFF, estimateNs (ts &&& 0xFFFFFF) (s + d)⟩))
    (fun (s, d) => okPred (fun (_, o) => estimateOk s d o))
    (fun (s, d) => estimateWF s d)

def estraw : Handler :=
  mkHandler (do let ts ← Rd.u64; let r ← Rd.i64; pure (ts, r)) (Rd.res Rd.i64)
    (fun (ts, r) => .ok (estimateNs ts r)) (fun _ _ => true) (fun _ => false)

def handlers : List (String × Handler) :=
  [("c17.audio.m", marshalKind rdAudio audio audioSpec),
   ("c17.audio.u", unmarshalKind rdAudio audio audioSpec),
   ("c17.tcc.m", marshalKind rdTcc tcc tccSpec),
   ("c17.tcc.u", unmarshalKind rdTcc tcc tccSpec),
   ("c17.playout.m", marshalKind rdPlayout playout playoutSpec),
   ("c17.playout.u", unmarshalKind rdPlayout playout playoutSpec),
   ("c17.abssend.m", marshalKind rdAbsSend absSend absSendSpec),
   ("c17.abssend.u", unmarshalKind rdAbsSend absSend absSendSpec),
   ("c17.abscapture.m", marshalKind rdAbsCapture absCapture absCaptureSpec),
   ("c17.abscapture.u", unmarshalKind rdAbsCapture absCapture absCaptureSpec),
   ("c18.capture", capture), ("c18.ntp2time", ntp2time), ("c18.offset", offset),
   ("c18.offdur", offdur), ("c18.estimate", estimateK), ("c18.estraw", estraw)]
end Rtp.Kinds.Ext
