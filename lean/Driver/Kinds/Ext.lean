import Driver.Common
namespace Rtp.Kinds.Ext
open Rtp Rtp.Proto

def handlers : List (String × Handler) := []
end Rtp.Kinds.Ext
