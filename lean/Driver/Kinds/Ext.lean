/-
  Driver/Kinds/Ext.lean — case kinds of group `ext` (C17, C18).

  C17, per codec X ∈ {audio, tcc, playout, abssend, abscapture}, value tokens
      audio `<level> <voice>` · tcc `<seq>` · playout `<min> <max>` · abssend `<ts>` ·
      abscapture `<ts> <opt int64>`:
    c17.X.m   <value> <prev-receiver value>        => <res bytes> <opt (<res-unit> <value>)>
              Marshal(value); if it succeeded, Unmarshal of the produced bytes into a receiver
              holding `prev`, its result and the receiver afterwards
    c17.X.u   <prev value> <list bytes> <bytes>    => <res-unit> <value>
              a receiver holding `prev` decodes the listed byte strings (results ignored), then the
              input under test: its result and the receiver afterwards
  C18 (instants and durations are int64 nanoseconds; every observation is `ok …` | `panic`):
    c18.capture   <t>            => <Timestamp u64> <CaptureTime().UnixNano()>
    c18.ntp2time  <ntp u64>      => <CaptureTime().UnixNano() of Timestamp = ntp>      (correspondence only)
    c18.offset    <t> <d>        => <Timestamp> <raw offset> <duration> <opt duration via the wire>
    c18.offdur    <opt raw>      => <opt duration>                                     (correspondence only)
    c18.estimate  <send> <delay> => <NewAbsSendTime(send).Timestamp> <24-bit ts via the wire> <Estimate(send+delay).UnixNano()>
    c18.estraw    <ts u64> <recv> => <Estimate(recv).UnixNano()>                        (correspondence only)
-/
import Driver.Common
import Rtp.Model.ExtCodecs
import Rtp.Model.Ntp
import Rtp.Pred.C17
import Rtp.Pred.C18
namespace Rtp.Kinds.Ext
open Rtp Rtp.Proto Rtp.Model.ExtCodecs Rtp.Pred.C17

/-! ### C17 -/

def rdAudio : Rd AudioLevel := do let l ← Rd.u8; let v ← Rd.bool; pure ⟨l, v⟩
def rdTcc : Rd TransportCC := do let s ← Rd.u16; pure ⟨s⟩
def rdPlayout : Rd PlayoutDelay := do let a ← Rd.u16; let b ← Rd.u16; pure ⟨a, b⟩
def rdAbsSend : Rd AbsSendTime := do let t ← Rd.u64; pure ⟨t⟩
def rdAbsCapture : Rd AbsCaptureTime := do let t ← Rd.u64; let o ← Rd.opt Rd.i64; pure ⟨t, o⟩

def rdUn {σ} (rd : Rd σ) : Rd (Un σ) := do let r ← Rd.resC Rd.unit; let s ← rd; pure ⟨r, s⟩

def rdMObs {σ} (rd : Rd σ) : Rd (MObs σ) := do
  let out ← Rd.resC Rd.bytes
  let rt ← Rd.opt (rdUn rd)
  pure ⟨out, rt⟩

def marshalKind {σ} [DecidableEq σ] [Repr σ] (rd : Rd σ) (c : Codec σ) (S : ExtSpec σ) : Handler :=
  mkHandler (do let v ← rd; let p ← rd; pure (v, p)) (rdMObs rd)
    (fun (v, p) => modelM c v p)
    (fun (v, _) o => marshalOk S v o)
    -- C17 quantifies over in-range values (exact layout, round trip) AND over the out-of-range values
    -- that must be refused (AudioLevel, PlayoutDelay); only values that are neither are outside it
    (fun (v, _) => S.inRange v || S.reject v)

def unmarshalKind {σ} [DecidableEq σ] [Repr σ] (rd : Rd σ) (c : Codec σ) (S : ExtSpec σ) : Handler :=
  mkHandler (do let p ← rd; let h ← Rd.list Rd.bytes; let b ← Rd.bytes; pure (p, h, b)) (rdUn rd)
    (fun (p, h, b) => modelU c p h b)
    (fun (_, _, b) o => unmarshalOk S b o)
    -- "decodes every byte string of at least the fixed size …, rejects shorter input, never panics":
    -- every byte string is inside the quantifier

/-! ### C18 -/
open Rtp.Model.Ntp Rtp.Pred.C18

/-- every C18 observation is `ok …` or `panic` (a panic of the real code is an observation).
    A panic is `pred = false` whatever the input; it counts as a violation of C18 only where the
    handler's `wf` holds, and each handler's `wf` is exactly the range the property states:
    capture — the instant in [1970-01-01, NTP era end 2036) (`instantOk`);
    offset — such an instant and |offset| < 2^31 s (`instantOk`, `offsetOk`);
    estimate — such a send instant and a delay in [0, 64 s − 2^-18 s) (`estimateWF`).
    Outside it only the correspondence with the model applies. -/
def okPred {α} (p : α → Bool) : Res α → Bool
  | .ok a => p a
  | _ => false

def capture : Handler :=
  mkHandler Rd.i64 (Rd.res (do let ts ← Rd.u64; let b ← Rd.i64; pure (⟨ts, b⟩ : CaptureObs)))
    (fun t => let ts := captureTimestamp t; .ok ⟨ts, captureTime ts⟩)
    (fun t => okPred (captureOk t))
    (fun t => instantOk t.toInt)

def ntp2time : Handler :=
  mkHandler Rd.u64 (Rd.res Rd.i64) (fun t => .ok (captureTime t)) (fun _ _ => true) (fun _ => false)

def offset : Handler :=
  mkHandler (do let t ← Rd.i64; let d ← Rd.i64; pure (t, d))
    (Rd.res (do let ts ← Rd.u64; let raw ← Rd.i64; let b ← Rd.i64; let w ← Rd.opt Rd.i64
                pure (ts, (⟨raw, b, w⟩ : OffsetObs))))
    (fun (t, d) => let raw := encodeOffset d
      .ok (captureTimestamp t, ⟨raw, decodeOffset raw, some (decodeOffset raw)⟩))
    (fun (_, d) => okPred (fun (_, o) => offsetOkObs d o))
    (fun (t, d) => instantOk t.toInt && offsetOk d.toInt)

def offdur : Handler :=
  mkHandler (Rd.opt Rd.i64) (Rd.res (Rd.opt Rd.i64)) (fun o => .ok (o.map decodeOffset))
    (fun _ _ => true) (fun _ => false)

def estimateK : Handler :=
  mkHandler (do let s ← Rd.i64; let d ← Rd.i64; pure (s, d))
    (Rd.res (do let ts ← Rd.u64; let t24 ← Rd.u64; let e ← Rd.i64; pure (ts, (⟨t24, e⟩ : EstimateObs))))
    (fun (s, d) => let ts := sendTimestamp s
      .ok (ts, ⟨ts &&& 0xFFFFFF, estimateNs (ts &&& 0xFFFFFF) (s + d)⟩))
    (fun (s, d) => okPred (fun (_, o) => estimateOk s d o))
    (fun (s, d) => estimateWF s d)

def estraw : Handler :=
  mkHandler (do let ts ← Rd.u64; let r ← Rd.i64; pure (ts, r)) (Rd.res Rd.i64)
    (fun (ts, r) => .ok (estimateNs ts r)) (fun _ _ => true) (fun _ => false)

def handlers : List (String × Handler) :=
  [("c17.audio.m", marshalKind rdAudio audio audioSpec),
   ("c17.audio.u", unmarshalKind rdAudio audio audioSpec),
   ("c17.tcc.m", marshalKind rdTcc tcc tccSpec),
   ("c17.tcc.u", unmarshalKind rdTcc tcc tccSpec),
   ("c17.playout.m", marshalKind rdPlayout playout playoutSpec),
   ("c17.playout.u", unmarshalKind rdPlayout playout playoutSpec),
   ("c17.abssend.m", marshalKind rdAbsSend absSend absSendSpec),
   ("c17.abssend.u", unmarshalKind rdAbsSend absSend absSendSpec),
   ("c17.abscapture.m", marshalKind rdAbsCapture absCapture absCaptureSpec),
   ("c17.abscapture.u", unmarshalKind rdAbsCapture absCapture absCaptureSpec),
   ("c18.capture", capture), ("c18.ntp2time", ntp2time), ("c18.offset", offset),
   ("c18.offdur", offdur), ("c18.estimate", estimateK), ("c18.estraw", estraw)]
end Rtp.Kinds.Ext
