import Driver.Common
namespace Rtp.Kinds.Vla
open Rtp Rtp.Proto

def handlers : List (String × Handler) := []
end Rtp.Kinds.Vla
