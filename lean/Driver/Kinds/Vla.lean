import Driver.Common
import Rtp.Model.VLA
import Rtp.Pred.C19
namespace Rtp.Kinds.Vla
open Rtp Rtp.Proto Rtp.Spec.VlaSpec Rtp.Model.Vla Rtp.Pred.C19

/-- `<stream> <spatial> <k> rate* <width> <height> <fps>` -/
def rdLayer : Rd Layer := do
  let s ← Rd.int; let k ← Rd.int
  let rates ← Rd.list Rd.int
  let w ← Rd.int; let h ← Rd.int; let f ← Rd.int
  pure { stream := s, spatial := k, rates := rates, width := w, height := h, fps := f }

/-- `<rid> <count> <hasRes> <n> layer*` -/
def rdVLA : Rd VLA := do
  let rid ← Rd.int; let count ← Rd.int; let hr ← Rd.bool
  let ls ← Rd.list rdLayer
  pure { rid := rid, count := count, layers := ls, hasRes := hr }

/-- `ok <bytes>` | `err <kind>` | `panic` -/
def rdMRes : Rd MRes := do
  let t ← Rd.tok
  match t with
  | "ok" => do let b ← Rd.bytes; pure (.ok b)
  | "err" => do let k ← Rd.tok; pure (.err (VErr.ofName k))
  | "panic" => pure .panic
  | _ => Rd.fail

/-- `ok <n> <vla>` | `fail <n> <kind>` | `panic` -/
def rdDRes : Rd DRes := do
  let t ← Rd.tok
  match t with
  | "ok" => do let n ← Rd.nat; let v ← rdVLA; pure (.ok n v)
  | "fail" => do let n ← Rd.nat; let k ← Rd.tok; pure (.fail n (VErr.ofName k))
  | "panic" => pure .panic
  | _ => Rd.fail

def rdRtObs : Rd RtObs := do
  let e ← rdMRes
  let d ← Rd.opt rdDRes
  pure { enc := e, dec := d }

/-- the decoded value with the resolution fields cleared when the resolution flag is clear -/
def normD : DRes → DRes
  | .ok n w => .ok n w.norm
  | d => d

/-- "yields an equal VLA … optional resolution and frame rate": where the flag says that no
    resolution is carried, the width / height / frame-rate fields of a layer carry no information on
    EITHER side, so both sides are compared after `VLA.norm` (`Pred.C19.rt` normalises the input
    side only, i.e. demands that the decoder leaves zeros there). -/
def normObs (o : RtObs) : RtObs := { o with dec := o.dec.map normD }

/-- The observation is normalised only when the INPUT carries junk in those fields (a value that cannot
    round-trip in the first place).  For an input in normal form — zeros where no resolution is carried,
    which is what a fresh decode produces — "yields an equal VLA, also when the receiving value was used
    for an earlier decode" is taken literally: width / height / frame rate left over from an earlier
    decode are a difference (seeds C19-r7-1, C19-r8-1). -/
def rtPredR (v r : VLA) (o : RtObs) : Bool :=
  if v = v.norm then Rtp.Pred.C19.rt v r o else Rtp.Pred.C19.rt v r (normObs o)

theorem clearRes_idem (l : Layer) : l.clearRes.clearRes = l.clearRes := rfl

theorem norm_idem (v : VLA) : v.norm.norm = v.norm := by
  unfold VLA.norm
  by_cases h : v.hasRes = true
  · simp [h]
  · simp [h, List.map_map, Function.comp_def, clearRes_idem]

theorem rtPredR_of_rt (v r : VLA) (o : RtObs) :
    Rtp.Pred.C19.rt v r o = true → rtPredR v r o = true := by
  intro h
  unfold rtPredR
  split
  · exact h
  unfold normObs
  unfold Rtp.Pred.C19.rt at h ⊢
  split
  · rename_i hw
    simp only [hw, if_true, Bool.and_eq_true, beq_iff_eq] at h
    simp only [Bool.and_eq_true, beq_iff_eq]
    refine ⟨h.1, ?_⟩
    rw [h.2]; simp [normD, norm_idem]
  · rename_i hw
    simp only [hw, if_false] at h
    split
    · rename_i hr
      simp only [hr, if_true, Bool.and_eq_true] at h
      simp only [Bool.and_eq_true]
      refine ⟨h.1, ?_⟩
      cases hd : o.dec <;> simp_all
    · rename_i hr
      simp only [hr, Bool.false_eq_true, if_false] at h
      simp only [Bool.and_eq_true, bne_iff_ne, ne_eq] at h ⊢
      refine ⟨h.1, ?_⟩
      cases hd : o.dec with
      | none => simp
      | some d => cases d <;> simp_all [normD]

/-- the recorded defect `c19_bitrate_2p56` masked on both sides: bitrates of 2^56 kbps or more (which
    `ReadLeb128` decodes wrongly) are replaced by 0 -/
def maskBig (v : VLA) : VLA :=
  { v with layers := v.layers.map fun l =>
      { l with rates := l.rates.map fun k => if k ≥ 72057594037927936 then 0 else k } }

/-- inside the region the predicate fails for the RECORDED reason: the encoding is the specified one,
    all of it is consumed, and the decoded allocation differs from the original only in the bitrates of
    2^56 kbps or more -/
def rtExplained (v : VLA) (o : RtObs) : Bool :=
  o.enc == .ok (encode v) &&
  match o.dec with
  | some (.ok n w) =>
    n == (encode v).length &&
    (maskBig w.norm).layers.map (fun l => (l.stream, l.spatial, l.rates.length, l.width, l.height, l.fps)) ==
      (maskBig v.norm).layers.map (fun l => (l.stream, l.spatial, l.rates.length, l.width, l.height, l.fps)) &&
    w.rid == v.rid && w.count == v.count && w.hasRes == v.hasRes &&
    (w.norm.layers.zip v.norm.layers).all (fun (a, b) =>
      (a.rates.zip b.rates).all (fun (x, y) => x == y || y ≥ 72057594037927936))
  | _ => false

/-- `c19.rt <vla> <receiver> => <MRes> <opt DRes>` -/
def rt : Handler :=
  mkHandler (do let v ← rdVLA; let r ← rdVLA; pure (v, r)) rdRtObs
    (fun (v, r) => rtModel v r)
    (fun (v, r) o => rtPredR v r o)
    -- C19 quantifies over the valid allocations AND over the invalid ones Marshal must refuse
    (fun (v, _) => decide v.WF || Rtp.Pred.C19.mustReject v)
    (fun (v, _) _ => if bigRate v then some "c19_bitrate_2p56" else none)
    (fun (v, _) o => rtExplained v (normObs o))

/-- `c19.dec <receiver> <bytes> => <DRes>` -/
def dec : Handler :=
  mkHandler (do let r ← rdVLA; let b ← Rd.bytes; pure (r, b)) rdDRes
    (fun (r, b) => unmarshal r b)
    (fun (_, b) o => Rtp.Pred.C19.dec b o)

def handlers : List (String × Handler) :=
  [("c19.rt", rt), ("c19.rej", rt), ("c19.dec", dec), ("c19.dec2", dec)]
end Rtp.Kinds.Vla
