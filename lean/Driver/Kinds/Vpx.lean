import Driver.Common
namespace Rtp.Kinds.Vpx
open Rtp Rtp.Proto

def handlers : List (String × Handler) := []
end Rtp.Kinds.Vpx
