/-
  Driver/Kinds/Vpx.lean — case kinds of the VP8/VP9 group (C11, C12, and the VP8/VP9 parts of C08/C09).

  Token layouts (mirrored by harness/kinds_vpx.go):
    vp8md      X N S PID I L T K PictureID TL0PICIDX TID Y KEYIDX          (13 nats)
    vp8desc    n s pid x  opt(M id)  opt(tl0)  opt(tid y)  opt(keyidx)  ign0 ignX ignTK
    depobs M   res(bytes) M head tail0 tail1 auxPanic freshSame twinSame
    c11.dec    vp8desc payload k wire          => res(bytes) vp8md head resZ(bytes)
    c11.rt     enable warm flipAt calls              => <n> (<m> (bytes res(bytes) vp8md head resZ(bytes))*)*
               (resZ: what a second receiver with SetZeroAllocation(true), fed the same packets, returned)
    c08.vp8    enable calls                    => <n> PayObs*
    c09.vp8    <n> obytes*                     => <n> (depobs vp8md)*
    vp9md      I P L F B E V Z PictureID TID U SID D list(PDiff) TL0PICIDX NS Y G NG list(Width) list(Height)
               list(PGTID) list(PGU) list(list(PGPDiff))
    vp9desc    p f b e z  opt(M id)  opt(tid u sid d tl0)  list(pdiff)
               opt(ns opt(list(w h)) opt(list(tid u list(pdiff) ign)) ign)
    hdrdesc    se <profile> <idx> | nk <profile> sf er | key <profile> sf er bit12 space range subX subY w h
    hdrfields  Profile ShowExisting Idx NonKey ShowFrame ErrRes opt(T BitDepth CS CR SX SY) opt(w-1 h-1) Width() Height()
    c12.hdr    opt(hdrdesc) wire               => res(hdrfields)
    c12.dec    vp9desc payload k wire          => res(bytes) vp9md head resZ(bytes)
    c12.rt     init <n> (flex mtu obytes opt(hdrdesc))*  => <n> (<m> (bytes res(bytes) vp9md head resZ(bytes))*)*
    c08.vp9    flex init calls                 => <n> PayObs*
    c09.vp9    <n> obytes*                     => <n> (depobs vp9md)*
-/
import Driver.Common
import Rtp.Pred.C11
import Rtp.Pred.C12
namespace Rtp.Kinds.Vpx
open Rtp Rtp.Proto Rtp.Pred Rtp.Model

def rdDepObs {M} (rdM : Rd M) : Rd (C09.DepObs M) := do
  let r ← Rd.resC Rd.bytes
  let m ← rdM
  let h ← Rd.bool; let t0 ← Rd.bool; let t1 ← Rd.bool; let ap ← Rd.bool
  let fs ← Rd.bool; let ts ← Rd.bool
  pure { res := r, md := m, head := h, tail0 := t0, tail1 := t1, auxPanic := ap, freshSame := fs, twinSame := ts }

/-! ### VP8 -/

def rdVP8Md : Rd VP8Packet := do
  let x ← Rd.u8; let n ← Rd.u8; let s ← Rd.u8; let pid ← Rd.u8
  let i ← Rd.u8; let l ← Rd.u8; let t ← Rd.u8; let k ← Rd.u8
  let pic ← Rd.u16; let tl0 ← Rd.u8; let tid ← Rd.u8; let y ← Rd.u8; let kx ← Rd.u8
  pure { X := x, N := n, S := s, PID := pid, I := i, L := l, T := t, K := k,
         PictureID := pic, TL0PICIDX := tl0, TID := tid, Y := y, KEYIDX := kx }

def rdVP8Desc : Rd Spec.Rfc7741.Descriptor := do
  let n ← Rd.bool; let s ← Rd.bool; let pid ← Rd.u8; let x ← Rd.bool
  let pic ← Rd.opt (do let m ← Rd.bool; let v ← Rd.u16; pure (m, v))
  let tl0 ← Rd.opt Rd.u8
  let tid ← Rd.opt (do let t ← Rd.u8; let y ← Rd.bool; pure (t, y))
  let kx ← Rd.opt Rd.u8
  let i0 ← Rd.u8; let ix ← Rd.u8; let itk ← Rd.u8
  pure { n := n, s := s, pid := pid, x := x, picId := pic, tl0 := tl0, tid := tid, keyidx := kx,
         ign0 := i0, ignX := ix, ignTK := itk }

/-- C11 ties IsPartitionHead to "the S bit … set on the first packet only, partition index 0": for
    a descriptor with partition index ≠ 0 the text does not say what IsPartitionHead reports, so
    `head` is not evaluated there (`C11.dec` demands head = S for every descriptor). -/
def c11DecR (d : Spec.Rfc7741.Descriptor) (p : Bytes) (k : Nat) (w : Bytes) (o : C11.DecObs) : Bool :=
  C11.dec d p k w o || (d.pid != 0 && C11.dec d p k w { o with head := d.s })

theorem c11DecR_of_dec (d : Spec.Rfc7741.Descriptor) (p : Bytes) (k : Nat) (w : Bytes) (o : C11.DecObs) :
    C11.dec d p k w o = true → c11DecR d p k w o = true := by
  intro h; simp [c11DecR, h]

/-! #### receivers with `SetZeroAllocation(true)`

  VP8Packet and VP9Packet inherit the switch from `videoDepacketizer` ("… allocations are needed for
  Metadata and other optional values. If you don't need this information enabling SetZeroAllocation
  gives you higher performance at a reduced feature set").  C11/C12 do not exclude such a receiver,
  and what they say about the RETURNED BYTES ("returns the bytes that follow the descriptor",
  "concatenating the … payloads … reproduces the frame", rejecting a cut descriptor) does not depend
  on metadata.  Every packet is therefore also given to a second receiver with the switch on; its
  result `resZ` is one more observation token.  The unchanged predicate is evaluated once more on
  the observation in which `res` is replaced by `resZ` (metadata and `head` stay those of the
  ordinary receiver, so nothing is demanded of the zero-allocation receiver's metadata).  The model
  ignores the switch, as the code does: `resZ` of the model is its `res`. -/

def c11DecZ (d : Spec.Rfc7741.Descriptor) (p : Bytes) (k : Nat) (w : Bytes) (o : C11.DecObs × Res Bytes) : Bool :=
  c11DecR d p k w o.1 && c11DecR d p k w { o.1 with res := o.2 }

theorem c11DecZ_of_decR (d : Spec.Rfc7741.Descriptor) (p : Bytes) (k : Nat) (w : Bytes) (o : C11.DecObs) :
    c11DecR d p k w o = true → c11DecZ d p k w (o, o.res) = true := by
  intro h; simp [c11DecZ, h]

def c11Dec : Handler :=
  mkHandler
    (do let d ← rdVP8Desc; let p ← Rd.bytes; let k ← Rd.nat; let w ← Rd.bytes; pure (d, p, k, w))
    (do let r ← Rd.resC Rd.bytes; let m ← rdVP8Md; let h ← Rd.bool; let rz ← Rd.resC Rd.bytes
        pure (({ res := r, md := m, head := h } : C11.DecObs), rz))
    (fun (_, _, k, w) => let o := C11.obsDec w k; (o, o.res))
    (fun (d, p, k, w) o => c11DecZ d p k w o)
    (fun (d, _, _, _) => d.WF)

def rdVP8Frag : Rd C11.FragObs := do
  let b ← Rd.bytes; let r ← Rd.resC Rd.bytes; let m ← rdVP8Md; let h ← Rd.bool
  pure { bytes := b, res := r, md := m, head := h }

/-- C11's quantifier for a history: EVERY call is a frame the property is about (non-empty, MTU
    larger than the descriptor of the frame's running picture id `k`).  "increases by one per
    frame" says nothing about what a call outside the domain does to the running id (`C11.rt` fixes
    that it does not advance it), so a history with such a call is outside the quantifier. -/
def c11RtWF (enable : Bool) : Nat → List (UInt16 × Option Bytes) → Bool
  | _, [] => true
  | k, (m, i) :: cs =>
    decide (C11.hdrLen enable k < m.toNat) && !(i.getD []).isEmpty && c11RtWF enable (k + 1) cs

/-- the ordinary receiver's observation / the same with every `res` replaced by the zero-allocation
    receiver's result -/
def c11Plain (o : List (List (C11.FragObs × Res Bytes))) : List (List C11.FragObs) := o.map (·.map (·.1))
def c11Zero (o : List (List (C11.FragObs × Res Bytes))) : List (List C11.FragObs) :=
  o.map (·.map (fun fz => { fz.1 with res := fz.2 }))
def c11Pair (o : List (List C11.FragObs)) : List (List (C11.FragObs × Res Bytes)) :=
  o.map (·.map (fun fr => (fr, fr.res)))

def c11RtZ (e : Bool) (w : Nat) (cs : List (UInt16 × Option Bytes)) (o : List (List (C11.FragObs × Res Bytes))) : Bool :=
  C11.rt e w cs (c11Plain o) && C11.rt e w cs (c11Zero o)

theorem c11RtZ_of_rt (e : Bool) (w : Nat) (cs : List (UInt16 × Option Bytes)) (o : List (List C11.FragObs)) :
    C11.rt e w cs o = true → c11RtZ e w cs (c11Pair o) = true := by
  intro h
  have h1 : c11Plain (c11Pair o) = o := by simp [c11Plain, c11Pair, Function.comp_def]
  have h2 : c11Zero (c11Pair o) = o := by simp [c11Zero, c11Pair, Function.comp_def]
  simp [c11RtZ, h1, h2, h]

/-- `enable warm flipAt calls`: the first `flipAt ≤ warm` of the earlier frames were sent with the
    public field `EnablePictureID` at the other value, which the caller then set by hand; the
    property's demand is unchanged (the running id counts frames). -/
def c11Rt : Handler :=
  mkHandler
    (do let e ← Rd.bool; let w ← Rd.nat; let fl ← Rd.nat; let cs ← rdCalls; pure (e, w, fl, cs))
    (Rd.list (Rd.list (do let fr ← rdVP8Frag; let rz ← Rd.resC Rd.bytes; pure (fr, rz))))
    (fun (e, w, fl, cs) => c11Pair (C11.obsRtFlip e w fl cs))
    (fun (e, w, _, cs) o => c11RtZ e w cs o)
    (fun (e, w, fl, cs) => decide (fl ≤ w) && c11RtWF e w cs)

def c08Vp8 : Handler :=
  mkHandler (do let e ← Rd.bool; let cs ← rdCalls; pure (e, cs)) rdPayObsList
    (fun (e, cs) => C11.obsPay e cs)
    (fun (_, cs) o => C08.histOk false cs o)

def c09Vp8 : Handler :=
  mkHandler (Rd.list Rd.obytes) (Rd.list (rdDepObs rdVP8Md))
    (fun is => C11.obsDep {} is)
    (fun _ o => C09.histOk true o)

/-! ### VP9 -/

def rdVP9Md : Rd VP9Packet := do
  let i ← Rd.bool; let p ← Rd.bool; let l ← Rd.bool; let f ← Rd.bool
  let b ← Rd.bool; let e ← Rd.bool; let v ← Rd.bool; let z ← Rd.bool
  let pic ← Rd.u16; let tid ← Rd.u8; let u ← Rd.bool; let sid ← Rd.u8; let d ← Rd.bool
  let pd ← Rd.list Rd.u8; let tl0 ← Rd.u8
  let ns ← Rd.u8; let y ← Rd.bool; let g ← Rd.bool; let ng ← Rd.u8
  let w ← Rd.list Rd.u16; let h ← Rd.list Rd.u16
  let pgt ← Rd.list Rd.u8; let pgu ← Rd.list Rd.bool; let pgp ← Rd.list (Rd.list Rd.u8)
  pure { I := i, P := p, L := l, F := f, B := b, E := e, V := v, Z := z, PictureID := pic,
         TID := tid, U := u, SID := sid, D := d, PDiff := pd, TL0PICIDX := tl0,
         NS := ns, Y := y, G := g, NG := ng, Width := w, Height := h,
         PGTID := pgt, PGU := pgu, PGPDiff := pgp }

def rdVP9Desc : Rd Spec.Vp9Rtp.Descriptor := do
  let p ← Rd.bool; let f ← Rd.bool; let b ← Rd.bool; let e ← Rd.bool; let z ← Rd.bool
  let pic ← Rd.opt (do let m ← Rd.bool; let v ← Rd.u16; pure (m, v))
  let layer ← Rd.opt (do
    let tid ← Rd.u8; let u ← Rd.bool; let sid ← Rd.u8; let d ← Rd.bool; let tl0 ← Rd.u8
    pure ({ tid := tid, u := u, sid := sid, d := d, tl0 := tl0 } : Spec.Vp9Rtp.Layer))
  let pd ← Rd.list Rd.u8
  let ss ← Rd.opt (do
    let ns ← Rd.u8
    let res ← Rd.opt (Rd.list (do let w ← Rd.u16; let h ← Rd.u16; pure (w, h)))
    let pg ← Rd.opt (Rd.list (do
      let tid ← Rd.u8; let u ← Rd.bool; let pds ← Rd.list Rd.u8; let ign ← Rd.u8
      pure ({ tid := tid, u := u, pdiffs := pds, ign := ign } : Spec.Vp9Rtp.PG)))
    let ign ← Rd.u8
    pure ({ ns := ns, res := res, pg := pg, ign := ign } : Spec.Vp9Rtp.SS))
  pure { p := p, f := f, b := b, e := e, z := z, picId := pic, layer := layer, pdiffs := pd, ss := ss }

def rdHdrDesc : Rd Spec.Vp9Bits.Hdr := do
  let t ← Rd.tok
  match t with
  | "se" => do let p ← Rd.u8; let i ← Rd.u8; pure (.showExisting p i)
  | "nk" => do let p ← Rd.u8; let sf ← Rd.bool; let er ← Rd.bool; pure (.nonKey p sf er)
  | "key" => do
    let p ← Rd.u8; let sf ← Rd.bool; let er ← Rd.bool
    let b12 ← Rd.bool; let sp ← Rd.u8; let rg ← Rd.bool; let sx ← Rd.bool; let sy ← Rd.bool
    let w ← Rd.nat; let h ← Rd.nat
    pure (.key p sf er { bit12 := b12, space := sp, range := rg, subX := sx, subY := sy } w h)
  | _ => Rd.fail

def rdHdrFields : Rd C12.HdrFields := do
  let pr ← Rd.u8; let se ← Rd.bool; let idx ← Rd.u8; let nk ← Rd.bool; let sf ← Rd.bool; let er ← Rd.bool
  let cc ← Rd.opt (do
    let t ← Rd.bool; let bd ← Rd.u8; let cs ← Rd.u8; let cr ← Rd.bool; let sx ← Rd.bool; let sy ← Rd.bool
    pure ({ TenOrTwelveBit := t, BitDepth := bd, ColorSpace := cs, ColorRange := cr,
            SubsamplingX := sx, SubsamplingY := sy } : Vp9ColorConfig))
  let fs ← Rd.opt (do
    let w ← Rd.u16; let h ← Rd.u16
    pure ({ FrameWidthMinus1 := w, FrameHeightMinus1 := h } : Vp9FrameSize))
  let w ← Rd.u16; let h ← Rd.u16
  pure { hd := { Profile := pr, ShowExistingFrame := se, FrameToShowMapIdx := idx, NonKeyFrame := nk,
                 ShowFrame := sf, ErrorResilientMode := er, ColorConfig := cc, FrameSize := fs },
         width := w, height := h }

/-- What C12 needs from `vp9.Header`: the frame type ("P reflecting the frame type") and, for a key
    frame, the coded width and height ("width and height equal those coded in the frame's
    uncompressed header").  `C12.hdr` demands the whole struct field by field (derived defaults,
    absent ColorConfig / FrameSize on non-key frames, Width() = 0 there …); the driver accepts a
    parse that gets these two things right. -/
def c12HdrLoose (desc : Option Spec.Vp9Bits.Hdr) (wire : Bytes) (o : C12.HdrObs) : Bool :=
  !o.isPanic &&
  (match desc with
   | none => true
   | some h =>
     !h.WF || (C12.startsWith h wire &&
       (match o with
        | .ok fl =>
          (match h with
           | .showExisting _ _ => true
           | .nonKey _ _ _ => fl.hd.NonKeyFrame
           | .key _ _ _ _ w ht =>
             !fl.hd.NonKeyFrame &&
             (!(decide (w ≤ 65535) && decide (ht ≤ 65535)) || (fl.width == w.toUInt16 && fl.height == ht.toUInt16)))
        | _ => false)))

def c12HdrR (desc : Option Spec.Vp9Bits.Hdr) (wire : Bytes) (o : C12.HdrObs) : Bool :=
  C12.hdr desc wire o || c12HdrLoose desc wire o

theorem c12HdrR_of_hdr (desc : Option Spec.Vp9Bits.Hdr) (wire : Bytes) (o : C12.HdrObs) :
    C12.hdr desc wire o = true → c12HdrR desc wire o = true := by
  intro h; simp [c12HdrR, h]

def c12Hdr : Handler :=
  mkHandler (do let d ← Rd.opt rdHdrDesc; let w ← Rd.bytes; pure (d, w)) (Rd.resC rdHdrFields)
    (fun (_, w) => C12.obsHdr w)
    (fun (d, w) o => c12HdrR d w o)
    (fun (d, _) => match d with | some h => h.WF | none => false)

/-- The text of C12 never mentions IsPartitionHead: `head` is not evaluated (it stays in the
    observation, i.e. correspondence only), neither for the decoder nor for the round trip. -/
def c12DecR (d : Spec.Vp9Rtp.Descriptor) (p : Bytes) (k : Nat) (w : Bytes) (o : C12.DecObs) : Bool :=
  C12.dec d p k w o || C12.dec d p k w { o with head := d.b }

theorem c12DecR_of_dec (d : Spec.Vp9Rtp.Descriptor) (p : Bytes) (k : Nat) (w : Bytes) (o : C12.DecObs) :
    C12.dec d p k w o = true → c12DecR d p k w o = true := by
  intro h; simp [c12DecR, h]

/-- `C12.rtFlip` (the round-trip predicate with `FlexibleMode` per call) on the observation with
    every `head` replaced by the packet's B bit (what `C12.marks` compares it with) -/
def c12RtR (i : UInt16) (cs : List (Bool × C12.Call)) (o : List (List C12.FragObs)) : Bool :=
  C12.rtFlip i cs o || C12.rtFlip i cs (o.map (·.map (fun fr => { fr with head := fr.md.B })))

theorem c12RtR_of_rt (i : UInt16) (cs : List (Bool × C12.Call)) (o : List (List C12.FragObs)) :
    C12.rtFlip i cs o = true → c12RtR i cs o = true := by
  intro h; simp [c12RtR, h]

/-- with the result of the `SetZeroAllocation(true)` receiver (see `c11DecZ`) -/
def c12DecZ (d : Spec.Vp9Rtp.Descriptor) (p : Bytes) (k : Nat) (w : Bytes) (o : C12.DecObs × Res Bytes) : Bool :=
  c12DecR d p k w o.1 && c12DecR d p k w { o.1 with res := o.2 }

theorem c12DecZ_of_decR (d : Spec.Vp9Rtp.Descriptor) (p : Bytes) (k : Nat) (w : Bytes) (o : C12.DecObs) :
    c12DecR d p k w o = true → c12DecZ d p k w (o, o.res) = true := by
  intro h; simp [c12DecZ, h]

def c12Dec : Handler :=
  mkHandler
    (do let d ← rdVP9Desc; let p ← Rd.bytes; let k ← Rd.nat; let w ← Rd.bytes; pure (d, p, k, w))
    (do let r ← Rd.resC Rd.bytes; let m ← rdVP9Md; let h ← Rd.bool; let rz ← Rd.resC Rd.bytes
        pure (({ res := r, md := m, head := h } : C12.DecObs), rz))
    (fun (_, _, k, w) => let o := C12.obsDec w k; (o, o.res))
    (fun (d, p, k, w) o => c12DecZ d p k w o)
    (fun (d, _, _, _) => d.WF 5)

def rdVP9Frag : Rd C12.FragObs := do
  let b ← Rd.bytes; let r ← Rd.resC Rd.bytes; let m ← rdVP9Md; let h ← Rd.bool
  pure { bytes := b, res := r, md := m, head := h }

def rdVP9Call : Rd C12.Call := do
  let m ← Rd.u16; let b ← Rd.obytes; let d ← Rd.opt rdHdrDesc
  pure { mtu := m, frame := b, desc := d }

/-- a call with the value `FlexibleMode` has when it is made -/
def rdVP9FCall : Rd (Bool × C12.Call) := do
  let f ← Rd.bool; let c ← rdVP9Call
  pure (f, c)

def c12Plain (o : List (List (C12.FragObs × Res Bytes))) : List (List C12.FragObs) := o.map (·.map (·.1))
def c12Zero (o : List (List (C12.FragObs × Res Bytes))) : List (List C12.FragObs) :=
  o.map (·.map (fun fz => { fz.1 with res := fz.2 }))
def c12Pair (o : List (List C12.FragObs)) : List (List (C12.FragObs × Res Bytes)) :=
  o.map (·.map (fun fr => (fr, fr.res)))

/-- `c12RtR` on the ordinary receiver's observation and on the one whose results are those of the
    `SetZeroAllocation(true)` receiver (see `c11DecZ`) -/
def c12RtZ (i : UInt16) (cs : List (Bool × C12.Call)) (o : List (List (C12.FragObs × Res Bytes))) : Bool :=
  c12RtR i cs (c12Plain o) && c12RtR i cs (c12Zero o)

theorem c12RtZ_of_rtR (i : UInt16) (cs : List (Bool × C12.Call)) (o : List (List C12.FragObs)) :
    c12RtR i cs o = true → c12RtZ i cs (c12Pair o) = true := by
  intro h
  have h1 : c12Plain (c12Pair o) = o := by simp [c12Plain, c12Pair, Function.comp_def]
  have h2 : c12Zero (c12Pair o) = o := by simp [c12Zero, c12Pair, Function.comp_def]
  simp [c12RtZ, h1, h2, h]

/-- the per-frame predicate `C12.rtLocal` with the same reading of `head` as `c12RtR` -/
def c12LocalR (cs : List (Bool × C12.Call)) (o : List (List C12.FragObs)) : Bool :=
  C12.rtLocal cs o || C12.rtLocal cs (o.map (·.map (fun fr => { fr with head := fr.md.B })))

/-- what `c12.rt` evaluates: the whole-history predicate when every call is proper, and the per-frame
    predicate on both receivers' observations in every history -/
def c12RtL (i : UInt16) (cs : List (Bool × C12.Call)) (o : List (List (C12.FragObs × Res Bytes))) : Bool :=
  (!cs.all (fun fc => C12.proper fc.1 fc.2) || c12RtZ i cs o) &&
  c12LocalR cs (c12Plain o) && c12LocalR cs (c12Zero o)

theorem c12RtL_of (i : UInt16) (cs : List (Bool × C12.Call)) (o : List (List C12.FragObs)) :
    C12.rtFlip i cs o = true → C12.rtLocal cs o = true → c12RtL i cs (c12Pair o) = true := by
  intro h hl
  have h1 : c12Plain (c12Pair o) = o := by simp [c12Plain, c12Pair, Function.comp_def]
  have h2 : c12Zero (c12Pair o) = o := by simp [c12Zero, c12Pair, Function.comp_def]
  simp [c12RtL, h1, h2, c12LocalR, hl, c12RtZ_of_rtR i cs o (c12RtR_of_rt i cs o h)]

/-- `init <n> (flex mtu frame opt(hdrdesc))*`: `FlexibleMode` is an exported field, the harness sets
    it before every call (in most histories to one value throughout, in a share of them to a value
    that changes between frames); model and predicate take it per call (`c12_rt_flip`). -/
def c12Rt : Handler :=
  mkHandler
    (do let i ← Rd.u16; let cs ← Rd.list rdVP9FCall; pure (i, cs))
    (Rd.list (Rd.list (do let fr ← rdVP9Frag; let rz ← Rd.resC Rd.bytes; pure (fr, rz))))
    (fun (i, cs) => c12Pair (C12.obsRtFlip i cs))
    (fun (i, cs) o => c12RtL i cs o)
    -- the whole-history predicate (with the running picture id) binds when every call of the history
    -- is inside the property's domain ("sufficient MTU", a frame with a well-formed header): what a
    -- call outside it does to the running picture id is not claimed.  The per-frame clauses
    -- (`C12.rtLocal`, theorem `c12_rt_local`) bind for every proper call of every history.
    (fun (_, cs) => cs.any (fun fc => C12.proper fc.1 fc.2))

def c08Vp9 : Handler :=
  mkHandler (do let f ← Rd.bool; let i ← Rd.u16; let cs ← rdCalls; pure (f, i, cs)) rdPayObsList
    (fun (f, i, cs) => C12.obsPay f i cs)
    (fun (_, _, cs) o => C08.histOk false cs o)

def c09Vp9 : Handler :=
  mkHandler (Rd.list Rd.obytes) (Rd.list (rdDepObs rdVP9Md))
    (fun is => C12.obsDep {} is)
    (fun _ o => C09.histOk true o)

def handlers : List (String × Handler) :=
  [("c11.dec", c11Dec), ("c11.rt", c11Rt), ("c08.vp8", c08Vp8), ("c09.vp8", c09Vp8),
   ("c12.hdr", c12Hdr), ("c12.dec", c12Dec), ("c12.rt", c12Rt), ("c08.vp9", c08Vp9), ("c09.vp9", c09Vp9)]
end Rtp.Kinds.Vpx
