/-
  Driver/Kinds/Vpx.lean — case kinds of the VP8/VP9 group (C11, C12, and the VP8/VP9 parts of C08/C09).

  Token layouts (mirrored by harness/kinds_vpx.go):
    vp8md      X N S PID I L T K PictureID TL0PICIDX TID Y KEYIDX          (13 nats)
    vp8desc    n s pid x  opt(M id)  opt(tl0)  opt(tid y)  opt(keyidx)  ign0 ignX ignTK
    depobs M   res(bytes) M head tail0 tail1 auxPanic freshSame twinSame
    c11.dec    vp8desc payload k wire          => res(bytes) vp8md head
    c11.rt     enable warm calls               => <n> (<m> (bytes res(bytes) vp8md head)*)*
    c08.vp8    enable calls                    => <n> PayObs*
    c09.vp8    <n> obytes*                     => <n> (depobs vp8md)*
-/
import Driver.Common
import Rtp.Pred.C11
namespace Rtp.Kinds.Vpx
open Rtp Rtp.Proto Rtp.Pred Rtp.Model

def rdDepObs {M} (rdM : Rd M) : Rd (C09.DepObs M) := do
  let r ← Rd.resC Rd.bytes
  let m ← rdM
  let h ← Rd.bool; let t0 ← Rd.bool; let t1 ← Rd.bool; let ap ← Rd.bool
  let fs ← Rd.bool; let ts ← Rd.bool
  pure { res := r, md := m, head := h, tail0 := t0, tail1 := t1, auxPanic := ap, freshSame := fs, twinSame := ts }

/-! ### VP8 -/

def rdVP8Md : Rd VP8Packet := do
  let x ← Rd.u8; let n ← Rd.u8; let s ← Rd.u8; let pid ← Rd.u8
  let i ← Rd.u8; let l ← Rd.u8; let t ← Rd.u8; let k ← Rd.u8
  let pic ← Rd.u16; let tl0 ← Rd.u8; let tid ← Rd.u8; let y ← Rd.u8; let kx ← Rd.u8
  pure { X := x, N := n, S := s, PID := pid, I := i, L := l, T := t, K := k,
         PictureID := pic, TL0PICIDX := tl0, TID := tid, Y := y, KEYIDX := kx }

def rdVP8Desc : Rd Spec.Rfc7741.Descriptor := do
  let n ← Rd.bool; let s ← Rd.bool; let pid ← Rd.u8; let x ← Rd.bool
  let pic ← Rd.opt (do let m ← Rd.bool; let v ← Rd.u16; pure (m, v))
  let tl0 ← Rd.opt Rd.u8
  let tid ← Rd.opt (do let t ← Rd.u8; let y ← Rd.bool; pure (t, y))
  let kx ← Rd.opt Rd.u8
  let i0 ← Rd.u8; let ix ← Rd.u8; let itk ← Rd.u8
  pure { n := n, s := s, pid := pid, x := x, picId := pic, tl0 := tl0, tid := tid, keyidx := kx,
         ign0 := i0, ignX := ix, ignTK := itk }

def c11Dec : Handler :=
  mkHandler
    (do let d ← rdVP8Desc; let p ← Rd.bytes; let k ← Rd.nat; let w ← Rd.bytes; pure (d, p, k, w))
    (do let r ← Rd.resC Rd.bytes; let m ← rdVP8Md; let h ← Rd.bool
        pure ({ res := r, md := m, head := h } : C11.DecObs))
    (fun (_, _, k, w) => C11.obsDec w k)
    (fun (d, p, k, w) o => C11.dec d p k w o)
    (fun (d, _, _, _) => d.WF)

def rdVP8Frag : Rd C11.FragObs := do
  let b ← Rd.bytes; let r ← Rd.resC Rd.bytes; let m ← rdVP8Md; let h ← Rd.bool
  pure { bytes := b, res := r, md := m, head := h }

def c11Rt : Handler :=
  mkHandler
    (do let e ← Rd.bool; let w ← Rd.nat; let cs ← rdCalls; pure (e, w, cs))
    (Rd.list (Rd.list rdVP8Frag))
    (fun (e, w, cs) => C11.obsRt e w cs)
    (fun (e, w, cs) o => C11.rt e w cs o)

def c08Vp8 : Handler :=
  mkHandler (do let e ← Rd.bool; let cs ← rdCalls; pure (e, cs)) rdPayObsList
    (fun (e, cs) => C11.obsPay e cs)
    (fun (_, cs) o => C08.histOk false cs o)

def c09Vp8 : Handler :=
  mkHandler (Rd.list Rd.obytes) (Rd.list (rdDepObs rdVP8Md))
    (fun is => C11.obsDep {} is)
    (fun _ o => C09.histOk true o)

def handlers : List (String × Handler) :=
  [("c11.dec", c11Dec), ("c11.rt", c11Rt), ("c08.vp8", c08Vp8), ("c09.vp8", c09Vp8)]
end Rtp.Kinds.Vpx
