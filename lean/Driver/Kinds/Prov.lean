/-
  Driver/Kinds/Prov.lean — kinds `c08.prov` and `c09.prov`: the source-side tie of the
  provenance-level ownership theorems (correspondence only).

    c08.prov   <Type> Payload    => sinks=<fresh|input|unknown> retained=<fresh|input|none|unknown> writes_input=<t|f>
    c09.prov   <Type> Unmarshal  => the same three tokens

  The observation is what harness/extract_prov.go derives from the CURRENT Go source by a small
  provenance analysis (go/parser + go/types, flow-insensitive): the class of everything that
  flows into the result (`sinks`: the elements of the returned [][]byte, resp. the returned
  []byte), of everything assigned to a []byte / [][]byte field of the type (`retained`), and
  whether a store or `copy` goes through a slice of the input (`writes_input`).  The model's
  answer is what the provenance transcriptions say, a constant per type, each justified by
  theorems about the transcription (Rtp/Props/C08_Prov.lean, C08_Prov2.lean, C09_Prov.lean):

    sinks = fresh      `…_owned` / `…_history`: every returned fragment has origin `fresh`
    sinks = input      H264Packet only: with the zero-allocation switch on, Unmarshal returns the
                       caller's slice by design (`c09_prov_h264_owned_z`); the analysis is
                       flow-insensitive and sees that `return payload, nil`
    retained = fresh   `c08_prov_h264_history` (spsNalu, ppsNalu), `c09_prov_h264_history`
                       (fuaBuffer), `c09_prov_av1_history` (buffer): the retained slices are fresh
    retained = none    the transcription's state holds no slice: no field at all (G711, G722, Opus,
                       AV1 payloaders), numbers and flags only (`VP8Pay`, `VP9Pay`, the DONL counter)
    writes_input = f   no transcription applies a store to a slice of origin `input`: the layer's
                       only store is `AV1P.pOrHdr`, applied to packets that `c08_prov_av1_owned`
                       proves fresh

  So a change of the Go code that makes a payloader hand out or keep a view of the caller's buffer
  (the code before the repairs 8e53566, dca50af, 799c7eb: `retained=input`, `sinks=input`,
  `retained=input`) breaks the correspondence of these kinds, although the value-level
  observations cannot see it.  The predicate is constantly true: the kinds claim nothing beyond
  the comparison.
-/
import Driver.Proto
namespace Rtp.Kinds.Prov
open Rtp Rtp.Proto

/-- the three tokens of a summary -/
structure Summary where
  sinks : String
  retained : String
  writesInput : String
  deriving DecidableEq, Repr

def owned (retained : String) : Summary :=
  { sinks := "sinks=fresh", retained := "retained=" ++ retained, writesInput := "writes_input=f" }

/-- what the provenance transcriptions say about `(type, method)` -/
def claim : String → String → Summary
  | "G711Payloader", "Payload" => owned "none"     -- c08_prov_g711_owned, _history; no field
  | "G722Payloader", "Payload" => owned "none"     -- the same body
  | "OpusPayloader", "Payload" => owned "none"     -- c08_prov_opus_owned, _history; no field
  | "VP8Payloader", "Payload" => owned "none"      -- c08_prov_vp8_owned, _history; state `VP8Pay`
  | "VP9Payloader", "Payload" => owned "none"      -- c08_prov_vp9_owned, _history; state `VP9Pay`
  | "AV1Payloader", "Payload" => owned "none"      -- c08_prov_av1_owned, _history; no field
  | "H264Payloader", "Payload" => owned "fresh"    -- c08_prov_h264_history: fragments, spsNalu, ppsNalu
  | "H265Payloader", "Payload" => owned "none"     -- c08_prov_h265_history; state: the DONL counter
  | "H264Packet", "Unmarshal" =>                   -- c09_prov_h264_history, c09_prov_h264_owned_z
    { owned "fresh" with sinks := "sinks=input" }
  | "AV1Depacketizer", "Unmarshal" => owned "fresh" -- c09_prov_av1_history: result and buffer
  | _, _ => { sinks := "sinks=?", retained := "retained=?", writesInput := "writes_input=?" }

def rdSummary : Rd Summary := do
  let a ← Rd.tok; let b ← Rd.tok; let c ← Rd.tok
  pure { sinks := a, retained := b, writesInput := c }

def prov : Handler :=
  mkHandler (do let t ← Rd.tok; let m ← Rd.tok; pure (t, m)) rdSummary
    (fun (t, m) => claim t m)
    (fun _ _ => true)

def handlers : List (String × Handler) := [("c08.prov", prov), ("c09.prov", prov)]
end Rtp.Kinds.Prov
