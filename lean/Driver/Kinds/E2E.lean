/-
  Driver/Kinds/E2E.lean — case kinds of group `e2e` (registered under C06): the end-to-end pipeline
  Packetize → Marshal → Unmarshal → depacketizer on the real code, recomputed with
  Rtp/Model/Pipeline.lean and judged by Rtp/Pred/Pipeline.lean.  `wf` = the hypotheses of the
  theorems `Rtp.Props.Pipeline.pipeline_*_pred` (which say: wf → the predicate holds of the model).

  cfg     = <mtu> <pt> <ssrc> <ts0> <seqStart> <absSendTimeId (0 = off)>
  frame   = <payload> <samples> <now:int64 unix ns>
  obs     = <n> fobs*          one per frame
  fobs    = <k> (res <bytes>)*                     Marshal() of every packet Packetize returned
            <k> (res <seq> <M> <ts> <pt> <ssrc>)*  Unmarshal of every datagram into a fresh rtp.Packet
            <k> (res <bytes>)*                     depacketizer.Unmarshal(Payload) of every parsed datagram

  e2e.g711  cfg <g711|g722> <n> frame*                            => obs
  e2e.opus  cfg <n> frame*                                        => obs
  e2e.vp8   cfg <EnablePictureID> <frames packetized before> <n> frame*   => obs
  e2e.vp9   cfg <FlexibleMode> <InitialPictureIDFn()> <n> (opt(hdrdesc) frame)*  => obs
            (hdrdesc as in Driver/Kinds/Vpx.lean: the uncompressed header the frame starts with)
  e2e.h264  cfg <DisableStapA> <IsAVC> <npre> <payload>* <n> (<bare> <nunits> (<four> <nal>)* frame)*  => obs
            (`pre` = payloads the receiver was fed before the history; the frame's payload must be
             the Annex-B rendering of its units, else the case is outside the hypotheses)
  e2e.h265  cfg <AddDONL> <SkipAggregation> <n> (<nunits> (<startcode 0|3|4> <nal>)* frame)*  => obs
            (the third list of an fobs holds the payload of every datagram H265Packet accepted — the
             real Unmarshal returns nil — or the error)
  e2e.av1   cfg <npre> <payload>* <n> (<nobus> obu* frame)*   => obs
            (obu as in Driver/Kinds/Av1.lean; the frame's payload must be the serialisation of its OBUs)
-/
import Driver.Common
import Rtp.Pred.Pipeline
import Driver.Kinds.Vpx
import Driver.Kinds.Av1
namespace Rtp.Kinds.E2E
open Rtp Rtp.Proto Rtp.Model Rtp.Model.Pipeline Rtp.Pred.Pipeline

def rdCfg : Rd Packetizer := do
  let mtu ← Rd.u16; let pt ← Rd.u8; let ssrc ← Rd.u32; let ts ← Rd.u32; let s ← Rd.u16; let a ← Rd.int
  pure { mtu := mtu, pt := pt, ssrc := ssrc, ts := ts, seq := SeqState.newFixed s, absId := a }

def rdFrame : Rd FrameIn := do
  let p ← Rd.bytes; let s ← Rd.u32; let n ← Rd.i64
  pure { frame := p, samples := s, now := n }

def rdHdr : Rd Hdr := do
  let s ← Rd.u16; let m ← Rd.bool; let ts ← Rd.u32; let pt ← Rd.u8; let ssrc ← Rd.u32
  pure { seq := s, marker := m, ts := ts, pt := pt, ssrc := ssrc }

def rdFrameObs : Rd FrameObs := do
  let d ← Rd.list (Rd.resC Rd.bytes)
  let h ← Rd.list (Rd.resC rdHdr)
  let o ← Rd.list (Rd.resC Rd.bytes)
  pure { dgs := d, hdrs := h, outs := o }

/-- error kinds are not compared -/
def coarse (o : FrameObs) : FrameObs :=
  { dgs := o.dgs.map Res.coarse, hdrs := o.hdrs.map Res.coarse, outs := o.outs.map Res.coarse }

/-- What C06 itself states about the train (datagrams ≤ MTU that parse back, consecutive sequence
    numbers continuing across calls, one timestamp per call, configured SSRC / payload type, marker
    on the last packet only), evaluated along the history with the depacketizer's answers IGNORED:
    whether the codec's depacketizer reassembles the frame is the codec's property (C10 … C16), not
    C06's, so under C06 the reassembly clauses of `histOk…` — which the pipeline theorems prove of
    the model — are compared through the correspondence only. -/
def c06Train (pk : Packetizer) (fs : List FrameIn) (obs : List FrameObs) : Bool :=
  histTrain pk (pk.seq.seq + 1) pk.ts fs
    (obs.map fun o => { o with outs := o.hdrs.map fun _ => (.ok [] : Res Bytes) })

def g711 : Handler :=
  mkHandler (do let pk ← rdCfg; let _ ← Rd.tok; let fs ← Rd.list rdFrame; pure (pk, fs)) (Rd.list rdFrameObs)
    (fun (pk, fs) => (runG711 pk fs).map coarse)
    (fun (pk, fs) o => c06Train pk fs o)
    (fun (pk, fs) => wfG711 pk fs)

def opus : Handler :=
  mkHandler (do let pk ← rdCfg; let fs ← Rd.list rdFrame; pure (pk, fs)) (Rd.list rdFrameObs)
    (fun (pk, fs) => (runOpus pk fs).map coarse)
    (fun (pk, fs) o => c06Train pk fs o)
    (fun (pk, fs) => wfOpus pk fs)

def vp8 : Handler :=
  mkHandler (do let pk ← rdCfg; let e ← Rd.bool; let k ← Rd.nat; let fs ← Rd.list rdFrame; pure (pk, e, k, fs))
    (Rd.list rdFrameObs)
    (fun (pk, e, k, fs) => (runVP8 e k pk {} fs).map coarse)
    (fun (pk, _, _, fs) o => c06Train pk fs o)
    (fun (pk, e, _, fs) => wfVP8 e pk fs)

def rdVP9Frame : Rd VP9Frame := do
  let d ← Rd.opt Rtp.Kinds.Vpx.rdHdrDesc
  let f ← rdFrame
  pure { frame := f.frame, desc := d, samples := f.samples, now := f.now }

def vp9 : Handler :=
  mkHandler (do let pk ← rdCfg; let f ← Rd.bool; let i ← Rd.u16; let fs ← Rd.list rdVP9Frame; pure (pk, f, i, fs))
    (Rd.list rdFrameObs)
    (fun (pk, f, i, fs) => (runVP9 { flexible := f, init := i } pk {} (fs.map VP9Frame.frameIn)).map coarse)
    (fun (pk, _, _, fs) o => c06Train pk (fs.map VP9Frame.frameIn) o)
    (fun (pk, f, i, fs) => wfVP9 { flexible := f, init := i } pk fs)

structure H264In where
  pk : Packetizer
  disable : Bool
  avc : Bool
  pre : List Bytes
  frames : List (H264Frame × Bytes)     -- the description and the bytes handed to Packetize

def rdH264Frame : Rd (H264Frame × Bytes) := do
  let b ← Rd.bool
  let us ← Rd.list (do let f ← Rd.bool; let n ← Rd.bytes; pure (f, n))
  let f ← rdFrame
  pure ({ bare := b, units := us, samples := f.samples, now := f.now }, f.frame)

def rdH264In : Rd H264In := do
  let pk ← rdCfg; let d ← Rd.bool; let a ← Rd.bool; let pre ← Rd.list Rd.bytes
  let fs ← Rd.list rdH264Frame
  pure { pk := pk, disable := d, avc := a, pre := pre, frames := fs }

/-- the frames as handed to `Packetize` (the transmitted bytes, which `wf` compares with the
    rendering of the units) -/
def H264In.frameIns (i : H264In) : List FrameIn :=
  i.frames.map (fun (fr, b) => { frame := b, samples := fr.samples, now := fr.now })

/-- the receiver's fragment buffer after it has been fed `pre` -/
def H264In.buf (i : H264In) : Bytes := (H264.run i.avc [] i.pre).2

def h264 : Handler :=
  mkHandler rdH264In (Rd.list rdFrameObs)
    (fun i => (runH264 i.disable i.avc i.pk i.buf i.frameIns).map coarse)
    (fun i o => c06Train i.pk i.frameIns o)
    (fun i => wfH264 i.pk (i.frames.map (·.1)) && i.frames.all (fun (fr, b) => b == fr.buffer))

/-- on the driver's `wf` the frames the model runs on are the frames of the theorem -/
theorem h264_frameIns (i : H264In) (h : i.frames.all (fun (fr, b) => b == fr.buffer) = true) :
    i.frameIns = (i.frames.map (·.1)).map H264Frame.frameIn := by
  simp only [H264In.frameIns, List.map_map]
  apply List.map_congr_left
  intro x hx
  have := (List.all_eq_true.mp h) x hx
  obtain ⟨fr, b⟩ := x
  simp only [beq_iff_eq] at this
  simp [H264Frame.frameIn, this]

structure AV1In where
  pk : Packetizer
  pre : List Bytes
  frames : List (AV1Frame × Bytes)

def rdAV1Frame : Rd (AV1Frame × Bytes) := do
  let os ← Rd.list Rtp.Kinds.Av1.rdObu
  let f ← rdFrame
  pure ({ obus := os, samples := f.samples, now := f.now }, f.frame)

def AV1In.frameIns (i : AV1In) : List FrameIn :=
  i.frames.map (fun (fr, b) => { frame := b, samples := fr.samples, now := fr.now })

/-- the receiver after it has been fed `pre` -/
def AV1In.dst (i : AV1In) : AV1.DSt := (AV1.depFeed {} i.pre).2

def av1 : Handler :=
  mkHandler (do let pk ← rdCfg; let pre ← Rd.list Rd.bytes; let fs ← Rd.list rdAV1Frame
                pure ({ pk := pk, pre := pre, frames := fs } : AV1In))
    (Rd.list rdFrameObs)
    (fun i => (runAV1 i.pk i.dst i.frameIns).map coarse)
    (fun i o => c06Train i.pk i.frameIns o)
    (fun i => wfAV1 i.pk (i.frames.map (·.1)) && i.frames.all (fun (fr, b) => b == Spec.Av1Rtp.serialise fr.obus))

structure H265In where
  pk : Packetizer
  cfg : H265.Cfg
  frames : List (H265Frame × Bytes)

def rdH265Frame : Rd (H265Frame × Bytes) := do
  let us ← Rd.list (do let sc ← Rd.nat; let u ← Rd.bytes; pure (sc, u))
  let f ← rdFrame
  pure ({ units := us, samples := f.samples, now := f.now }, f.frame)

def H265In.frameIns (i : H265In) : List FrameIn :=
  i.frames.map (fun (fr, b) => { frame := b, samples := fr.samples, now := fr.now })

def h265 : Handler :=
  mkHandler (do let pk ← rdCfg; let a ← Rd.bool; let sk ← Rd.bool; let fs ← Rd.list rdH265Frame
                pure ({ pk := pk, cfg := { addDONL := a, skipAgg := sk }, frames := fs } : H265In))
    (Rd.list rdFrameObs)
    (fun i => (runH265 i.cfg 0 i.pk i.frameIns).map coarse)
    (fun i o => c06Train i.pk i.frameIns o)
    (fun i => wfH265 i.cfg i.pk (i.frames.map (·.1)) &&
              i.frames.all (fun (fr, b) => b == Rtp.Pred.C14.frameBytes fr.units))

def handlers : List (String × Handler) :=
  [("e2e.g711", g711), ("e2e.opus", opus), ("e2e.vp8", vp8), ("e2e.vp9", vp9), ("e2e.h264", h264), ("e2e.av1", av1), ("e2e.h265", h265)]
end Rtp.Kinds.E2E
