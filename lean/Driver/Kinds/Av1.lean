/-
  Driver/Kinds/Av1.lean — case kinds of the AV1 group (C13, C15 AV1 half, C08/C09 AV1 parts).

  token formats (mirrored by harness/kinds_av1.go)
    hdr     <type> (none | some <t> <s> <r>) <hasSize> <reserved1>
    obu     hdr <payload bytes>
    obuW    obu <width>            (c13.rt: width of the obu_size field, 0 = minimal)
    c09.av1packet input: <reuse> <n> (<obytes> <always>)*   (always: ReadFrames also after a refusal)
    view    <z> <y> <w> <n> <list bytes>
-/
import Driver.Common
import Rtp.Model.AV1Obs
namespace Rtp.Kinds.Av1
open Rtp Rtp.Proto Rtp.Model Rtp.Model.AV1 Rtp.Spec.Av1Rtp

/-! ### readers -/

def rdHdr : Rd ObuHeader := do
  let t ← Rd.u8
  let e ← Rd.opt (do let a ← Rd.u8; let b ← Rd.u8; let c ← Rd.u8
                     pure ({ temporalID := a, spatialID := b, reserved3 := c } : ExtHdr))
  let s ← Rd.bool; let r ← Rd.bool
  pure { type := t, ext := e, hasSize := s, reserved1 := r }

def rdObu : Rd Obu := do let h ← rdHdr; let p ← Rd.bytes; pure { hdr := h, payload := p }

def rdView : Rd Pred.C13.PktView := do
  let z ← Rd.bool; let y ← Rd.bool; let w ← Rd.nat; let n ← Rd.bool; let es ← Rd.list Rd.bytes
  pure { z := z, y := y, w := w, n := n, elems := es }

/-! ### c13.rt -/

structure RtIn where
  mtu : UInt16
  obus : List (Obu × Nat)      -- each OBU with the width of its `obu_size` field (0 = minimal)
  stream : Bytes

/-- `<mtu> <list (obu <width>)> <stream>`; the stream the harness built with its own serialiser must
    be the specification's serialisation of the OBU list with size fields of those widths (otherwise
    the case is a harness error).  The model is run on the stream: it sees the raw bytes. -/
def rdRtIn : Rd RtIn := do
  let m ← Rd.u16
  let os ← Rd.list (do let o ← rdObu; let w ← Rd.nat; pure (o, w))
  let s ← Rd.bytes
  if serialiseW os == s then pure { mtu := m, obus := os, stream := s } else Rd.fail

def rdRtObs : Rd Pred.C13.RtObs := do
  let t ← Rd.tok
  match t with
  | "panic" => pure { panicked := true, payloads := [], views := [], frames := [], depack := [] }
  | "ok" => do
    let ps ← Rd.list Rd.bytes
    let vs ← Rd.list (Rd.resC rdView)
    let fs ← Rd.list (Rd.list Rd.bytes)
    let ds ← Rd.list (Rd.resC Rd.bytes)
    pure { panicked := false, payloads := ps, views := vs, frames := fs, depack := ds }
  | _ => Rd.fail

/-- the longest payload observed, but at least `mtu` -/
def mtuOrLongest (mtu : Nat) (ps : List Bytes) : Nat := ps.foldr (fun p m => max p.length m) mtu

/-- C13 as worded, on what the implementation did (the predicate the driver evaluates).  It is
    `Pred.C13.rt` without what the statement of C13 does not say:
    * that payloads fit the MTU (that is C08): `rulesOK` is evaluated at an MTU no payload exceeds, which
      only switches off its length conjunct (the MTU occurs nowhere else in `rulesOK`);
    * the Z/Y/W/N fields and the element split shown by the deprecated `AV1Packet` (`views` is not looked
      at): the text only says that the deprecated path "reassembles the same OBUs";
    * the form in which the frame assembler hands out the OBUs: without size fields (`normalise`) or with
      them (`normaliseSized`) they are "the same OBUs".
    Outside `rtWF` (the quantifier of C13) nothing is claimed: `wf = false` there, correspondence only. -/
def rtRelaxed (mtu : Nat) (obus : List Obu) (o : Pred.C13.RtObs) : Bool :=
  !o.panicked &&
  (!Pred.C13.rtWF mtu obus ||
    (rulesOK (mtuOrLongest mtu o.payloads) o.payloads &&
     denote o.payloads == some (normalise obus) &&
     (o.frames.flatten == normalise obus || o.frames.flatten == normaliseSized obus) &&
     o.depack.length == o.payloads.length &&
     (Pred.C13.okBytes o.depack).map List.flatten == some (normaliseSized obus).flatten))

theorem le_mtuOrLongest (mtu : Nat) (ps : List Bytes) : mtu ≤ mtuOrLongest mtu ps := by
  induction ps with
  | nil => exact Nat.le_refl _
  | cons p ps ih => exact Nat.le_trans ih (Nat.le_max_right _ _)

theorem rulesOK_mono {m m' : Nat} (h : m ≤ m') (ps : List Bytes) :
    rulesOK m ps = true → rulesOK m' ps = true := by
  unfold rulesOK
  simp only [Bool.and_eq_true, List.all_eq_true, decide_eq_true_eq]
  rintro ⟨hl, hr⟩
  exact ⟨fun p hp => Nat.le_trans (hl p hp) h, hr⟩

/-- the theorems are about `Pred.C13.rt`; it implies what the driver evaluates -/
theorem rt_imp_rtRelaxed (mtu : Nat) (obus : List Obu) (o : Pred.C13.RtObs) :
    Pred.C13.rt mtu obus o = true → rtRelaxed mtu obus o = true := by
  unfold Pred.C13.rt rtRelaxed
  simp only [Bool.and_eq_true, Bool.or_eq_true]
  rintro ⟨hp, h⟩
  refine ⟨hp, ?_⟩
  rcases h with h | ⟨⟨⟨⟨⟨⟨hr, hd⟩, _⟩, _⟩, hf⟩, hl⟩, hk⟩
  · exact Or.inl h
  · exact Or.inr ⟨⟨⟨⟨rulesOK_mono (le_mtuOrLongest _ _) _ hr, hd⟩, Or.inl hf⟩, hl⟩, hk⟩

/-- with size fields of chosen widths: the same claim about the same OBUs whenever the widths are ones
    the AV1 specification allows (minimal, or 1 … 8 bytes that hold the value); never a panic -/
def rtRelaxedW (mtu : Nat) (ows : List (Obu × Nat)) (o : Pred.C13.RtObs) : Bool :=
  !o.panicked && (!widthsOK ows || rtRelaxed mtu (ows.map (·.1)) o)

theorem rt_imp_rtRelaxedW (mtu : Nat) (ows : List (Obu × Nat)) (o : Pred.C13.RtObs) :
    Pred.C13.rt mtu (ows.map (·.1)) o = true → rtRelaxedW mtu ows o = true := by
  intro h
  have h1 := rt_imp_rtRelaxed mtu _ o h
  have h2 : (!o.panicked) = true := by
    unfold rtRelaxed at h1
    simp only [Bool.and_eq_true] at h1
    exact h1.1
  simp [rtRelaxedW, h1, h2]

def rt : Handler :=
  mkHandler rdRtIn rdRtObs (fun i => rtObs i.mtu i.stream)
    (fun i o => rtRelaxedW i.mtu.toNat i.obus o)
    (fun i => Pred.C13.rtWF i.mtu.toNat (i.obus.map (·.1)) && widthsOK i.obus)

/-! ### c13.leb, c13.lebrd -/

def rdRead : Rd (Option (UInt64 × Nat)) := Rd.opt (do let v ← Rd.u64; let k ← Rd.nat; pure (v, k))

def leb : Handler :=
  mkHandler (do let n ← Rd.u64; let t ← Rd.bytes; pure (n, t))
    (do let w ← Rd.bytes; let r ← rdRead; pure ({ written := w, read := r } : Pred.C13.LebObs))
    (fun (n, t) => lebObs n t)
    (fun (n, _) o => Pred.C13.leb n o)
    (fun (n, _) => decide (n.toNat < 2 ^ 32))

/-- ReadLeb128 on arbitrary bytes: correspondence with `readLebGo` only -/
def lebrd : Handler :=
  mkHandler Rd.bytes rdRead (fun b => readLebGo b) (fun _ _ => true)

/-! ### c13.obuhdr, c13.obumar -/

def rdResHdr : Rd (Res ObuHeader) := Rd.resC rdHdr

/-- `c13.obuhdr <bytes> <edits> => …` — `edits` (0 | 1, for the record; not an input of the model): the
    same bytes were parsed before and the caller wrote through the header it got then (its fields and
    the extension header behind the exported pointer) before the parse under test -/
def obuhdr : Handler :=
  mkHandler (do let b ← Rd.bytes; let _edits ← Rd.nat; pure b)
    (do let p ← rdResHdr; let s ← Rd.nat; let b ← Rd.bytes; let r ← rdResHdr
        pure ({ parsed := p, size := s, bytes := b, reparsed := r } : Pred.C13.HdrObs))
    hdrObs (fun bs o => Pred.C13.hdr bs o)

def obumar : Handler :=
  mkHandler rdHdr
    (do let b ← Rd.bytes; let s ← Rd.nat; let r ← rdResHdr
        pure ({ bytes := b, size := s, reparsed := r } : Pred.C13.MarObs))
    marObs
    (fun h o => Pred.C13.mar h o)
    (fun h => hdrWF h)

/-- `c13.obuwire <obu> => <bytes>` : OBU.Marshal of a whole OBU.  C13 speaks of "OBU header
    parse/marshal" only (c13.obuhdr, c13.obumar), not of this export: correspondence with the model only
    (`Pred.C13.obuwire` is what the model is proved to satisfy, it is not demanded of the code). -/
def obuwire : Handler :=
  mkHandler rdObu Rd.bytes (fun o => o.wire) (fun _ _ => true) (fun o => hdrWF o.hdr)

/-- `c13.encleb <n> => <u64>` : EncodeLEB128.  C13's "LEB128 write/read" are WriteToLeb128/ReadLeb128
    (c13.leb), not this export: correspondence with the model only. -/
def encleb : Handler :=
  mkHandler Rd.u64 Rd.u64 (fun n => encodeLeb128Go 10 n 0) (fun _ _ => true)
    (fun n => decide (n.toNat < 2 ^ 56))

/-! ### c15.av1 -/

def resync : Handler :=
  mkHandler (do let pre ← Rd.list Rd.obytes; let fr ← Rd.list Rd.bytes; pure (pre, fr))
    (do let u ← Rd.list (Rd.resC Rd.bytes); let f ← Rd.list (Rd.resC Rd.bytes)
        pure ({ used := u, fresh := f } : Pred.C15Av1.Obs))
    (fun (pre, fr) => resyncObs pre fr)
    (fun (_, fr) o => Pred.C15Av1.resync fr o)
    (fun (_, fr) => Pred.C15Av1.frameStarts fr)

/-! ### c08.av1 -/

def c08 : Handler :=
  mkHandler rdCalls rdPayObsList
    c08Obs
    (fun calls os => Pred.C08.histOk false calls os)

/-! ### c09.av1 -/

def rdDepObs : Rd (Pred.C09.DepObs Pred.C09Av1.Md) := do
  let r ← Rd.resC Rd.bytes
  let z ← Rd.bool; let y ← Rd.bool; let n ← Rd.bool
  let h ← Rd.bool; let t0 ← Rd.bool; let t1 ← Rd.bool
  let ap ← Rd.bool; let fs ← Rd.bool; let ts ← Rd.bool
  pure { res := r, md := { z := z, y := y, n := n }, head := h, tail0 := t0, tail1 := t1,
         auxPanic := ap, freshSame := fs, twinSame := ts }

def c09 : Handler :=
  -- input: the SetZeroAllocation option (no effect on AV1Depacketizer: the model ignores it), payloads
  mkHandler (do let _z ← Rd.bool; let ps ← Rd.list Rd.obytes; pure ps) (Rd.list rdDepObs) (depObsOf {})
    (fun _ os => Pred.C09.histOk false os)

/-! ### c09.av1packet -/

def rdPktCall : Rd Pred.C09Av1.PktCall := do
  let r ← Rd.resC Rd.bytes
  let z ← Rd.bool; let y ← Rd.bool; let w ← Rd.nat; let n ← Rd.bool
  let es ← Rd.list Rd.bytes
  let fr ← Rd.resC (Rd.list Rd.bytes)
  let ts ← Rd.bool
  pure { res := r, z := z, y := y, w := w, n := n, elems := es, frames := fr, twinSame := ts }

/-- C09's ownership sentence names H264Packet and AV1Depacketizer only; for the deprecated
    AV1Packet + frame.AV1 path the text claims no panic, so the twin probe is not evaluated
    (`twinSame` stays in the observation: correspondence). -/
def pktHistOkR (os : List Pred.C09Av1.PktCall) : Bool :=
  Pred.C09Av1.histOk (os.map (fun o => { o with twinSame := true }))

theorem pktHistOkR_of_histOk (os : List Pred.C09Av1.PktCall) :
    Pred.C09Av1.histOk os = true → pktHistOkR os = true := by
  simp only [pktHistOkR, Pred.C09Av1.histOk, List.all_map, List.all_eq_true]
  intro h o ho
  have := h o ho
  simp [Pred.C09Av1.callOk] at this ⊢
  exact ⟨this.1.1, this.1.2⟩

def c09pkt : Handler :=
  -- input: `<reuse> <n> (<obytes> <always>)*` — `always`: ReadFrames is called after this Unmarshal
  -- even if it refused the payload (otherwise only after a successful one)
  mkHandler (do let r ← Rd.bool
                let ps ← Rd.list (do let p ← Rd.obytes; let a ← Rd.bool; pure (p, a))
                pure (r, ps)) (Rd.list rdPktCall)
    (fun (r, ps) => pktCallsOf r {} [] ps)
    (fun _ os => pktHistOkR os)

def handlers : List (String × Handler) :=
  [("c13.rt", rt), ("c13.leb", leb), ("c13.lebrd", lebrd), ("c13.obuhdr", obuhdr),
   ("c13.obumar", obumar), ("c13.obuwire", obuwire), ("c13.encleb", encleb), ("c15.av1", resync), ("c08.av1", c08), ("c09.av1", c09),
   ("c09.av1packet", c09pkt)]
end Rtp.Kinds.Av1
