import Driver.Common
namespace Rtp.Kinds.Av1
open Rtp Rtp.Proto

def handlers : List (String × Handler) := []
end Rtp.Kinds.Av1
