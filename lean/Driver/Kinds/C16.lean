import Driver.Common
import Rtp.Model.Audio
import Rtp.Pred.C16
namespace Rtp.Kinds.C16
open Rtp Rtp.Proto Rtp.Pred

/-- `c16.split <mtu> <obytes> => PayObs`  (the harness runs G711 and G722 under two kinds) -/
def split : Handler :=
  mkHandler (do let m ← Rd.u16; let b ← Rd.obytes; pure (m, b)) rdPayObs
    (fun (m, b) => PayObs.ofFrags (Model.g711Payload m b))
    (fun (m, b) o => match b with
      | none => !o.panicked && o.frags.isEmpty
      | some p => if m == 0 then !o.panicked else Rtp.Pred.C16.split m p o)
    (fun (m, b) => m != 0 && b.isSome)

def opusPay : Handler :=
  mkHandler (do let m ← Rd.u16; let b ← Rd.obytes; pure (m, b)) rdPayObs
    (fun (m, b) => PayObs.ofFrags (Model.opusPayload m b))
    (fun (_, b) o => match b with
      | none => !o.panicked && o.frags.isEmpty
      | some p => Rtp.Pred.C16.opusPay p o)

def rdOpusDe : Rd Rtp.Pred.C16.OpusDeObs := do
  let r ← Rd.resC Rd.bytes
  let h ← Rd.bool; let t0 ← Rd.bool; let t1 ← Rd.bool
  pure { res := r, head := h, tail0 := t0, tail1 := t1 }

def opusDe : Handler :=
  mkHandler Rd.obytes rdOpusDe
    (fun b => { res := (Model.opusUnmarshal b).coarse, head := Model.audioIsPartitionHead b,
                tail0 := Model.audioIsPartitionTail false b, tail1 := Model.audioIsPartitionTail true b })
    (fun b o => Rtp.Pred.C16.opusDe b o)

def handlers : List (String × Handler) :=
  [("c16.g711", split), ("c16.g722", split), ("c16.opus", opusPay), ("c16.opusde", opusDe)]
end Rtp.Kinds.C16
