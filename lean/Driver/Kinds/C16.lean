import Driver.Common
import Rtp.Model.Audio
import Rtp.Pred.C16
namespace Rtp.Kinds.C16
open Rtp Rtp.Proto Rtp.Pred

/-- C16's sentence about G711/G722 with nothing added: no panic, the fragments concatenate to
    exactly the input, every fragment except the last is exactly `mtu` bytes long.  Ownership of the
    fragments and "the last fragment is at most MTU" (`Pred.C16.split` also asks for them) are
    C08's text, not C16's; they are still compared with the model (correspondence). -/
def splitR (mtu : UInt16) (input : Bytes) (o : PayObs) : Bool :=
  !o.panicked && o.frags.flatten == input && o.frags.dropLast.all (fun f => f.length == mtu.toNat)

theorem splitR_of_split (mtu : UInt16) (input : Bytes) (o : PayObs) :
    Rtp.Pred.C16.split mtu input o = true → splitR mtu input o = true := by
  intro h
  simp only [Rtp.Pred.C16.split, PayObs.owned, Bool.and_eq_true] at h
  simp only [splitR, Bool.and_eq_true]
  exact ⟨⟨h.1.1.1.1.1.1.1, h.1.1.2⟩, h.1.2⟩

/-- a nil input is a byte string of length 0: what is accepted for `[]byte{}` is accepted for it,
    and so is "no fragment at all" (there is nothing to carry) -/
def splitPredR (m : UInt16) (b : Option Bytes) (o : PayObs) : Bool :=
  match b with
  | none => !o.panicked && (o.frags.isEmpty || splitR m [] o)
  | some p => if m == 0 then !o.panicked else splitR m p o

/-- `<mtu> <obytes> <calls>`: the call under test, then the calls the SAME payloader instance has
    served before it (0 = a fresh instance).  The payloaders are stateless, so the model's answer and
    the property's demand depend on the call under test only; the earlier calls are in the input so
    that a failing case shows the whole history. -/
def rdCallAfter : Rd (UInt16 × Option Bytes) := do
  let m ← Rd.u16; let b ← Rd.obytes; let _ ← rdCalls; pure (m, b)

/-- `c16.split <mtu> <obytes> <calls> => PayObs`  (the harness runs G711 and G722 under two kinds).
    `wf`: "MTU >= 1"; nil and empty inputs are inputs of length 0. -/
def split : Handler :=
  mkHandler rdCallAfter rdPayObs
    (fun (m, b) => PayObs.ofFrags (Model.g711Payload m b))
    (fun (m, b) o => splitPredR m b o)
    (fun (m, _) => m != 0)

/-- Opus: one fragment equal to (and not aliasing) the input — the ownership probes are C16's own
    text here.  For a nil input "one fragment equal to the input" is one empty fragment; no
    fragment at all is accepted as well. -/
def opusPredR (b : Option Bytes) (o : PayObs) : Bool :=
  match b with
  | none => (!o.panicked && o.frags.isEmpty) || Rtp.Pred.C16.opusPay [] o
  | some p => Rtp.Pred.C16.opusPay p o

def opusPay : Handler :=
  mkHandler rdCallAfter rdPayObs
    (fun (m, b) => PayObs.ofFrags (Model.opusPayload m b))
    (fun (_, b) o => opusPredR b o)

def rdOpusDe : Rd Rtp.Pred.C16.OpusDeObs := do
  let r ← Rd.resC Rd.bytes
  let h ← Rd.bool; let t0 ← Rd.bool; let t1 ← Rd.bool
  pure { res := r, head := h, tail0 := t0, tail1 := t1 }

def opusDe : Handler :=
  mkHandler Rd.obytes rdOpusDe
    (fun b => { res := (Model.opusUnmarshal b).coarse, head := Model.audioIsPartitionHead b,
                tail0 := Model.audioIsPartitionTail false b, tail1 := Model.audioIsPartitionTail true b })
    (fun b o => Rtp.Pred.C16.opusDe b o)

def handlers : List (String × Handler) :=
  [("c16.g711", split), ("c16.g722", split), ("c16.opus", opusPay), ("c16.opusde", opusDe)]
end Rtp.Kinds.C16
