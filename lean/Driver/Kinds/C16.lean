import Driver.Common
import Rtp.Model.Audio
import Rtp.Pred.C16
namespace Rtp.Kinds.C16
open Rtp Rtp.Proto Rtp.Pred

/-- C16's sentence about G711/G722 with nothing added: no panic, the fragments concatenate to
    exactly the input, every fragment except the last is exactly `mtu` bytes long.  Ownership of the
    fragments and "the last fragment is at most MTU" (`Pred.C16.split` also asks for them) are
    C08's text, not C16's; they are still compared with the model (correspondence). -/
def splitR (mtu : UInt16) (input : Bytes) (o : PayObs) : Bool :=
  !o.panicked && o.frags.flatten == input && o.frags.dropLast.all (fun f => f.length == mtu.toNat)

theorem splitR_of_split (mtu : UInt16) (input : Bytes) (o : PayObs) :
    Rtp.Pred.C16.split mtu input o = true → splitR mtu input o = true := by
  intro h
  simp only [Rtp.Pred.C16.split, PayObs.owned, Bool.and_eq_true] at h
  simp only [splitR, Bool.and_eq_true]
  exact ⟨⟨h.1.1.1.1.1.1.1, h.1.1.2⟩, h.1.2⟩

/-- a nil input is a byte string of length 0: what is accepted for `[]byte{}` is accepted for it,
    and so is "no fragment at all" (there is nothing to carry) -/
def splitPredR (m : UInt16) (b : Option Bytes) (o : PayObs) : Bool :=
  match b with
  | none => !o.panicked && (o.frags.isEmpty || splitR m [] o)
  | some p => if m == 0 then !o.panicked else splitR m p o

abbrev Call := UInt16 × Option Bytes

/-- `<mtu> <obytes> <calls>`: the call under test, then the calls the SAME payloader instance has
    served before it (0 = a fresh instance).  The payloaders are stateless, so the model's answer for
    a call depends on that call only. -/
def rdCallAfter : Rd (Call × List Call) := do
  let m ← Rd.u16; let b ← Rd.obytes; let cs ← rdCalls; pure ((m, b), cs)

/-- `PayObs <n> PayObs*`: the observation of the call under test, then those of the earlier calls in
    order, whose fragments were compared with their snapshots once more after the LAST call. -/
def rdObsAfter : Rd (PayObs × List PayObs) := do
  let o ← rdPayObs; let es ← rdPayObsList; pure (o, es)

/-- every call of the history is an (input, MTU) the property quantifies over: the per-call predicate
    `p` is asked of the call under test and of every earlier call (whose fragments the caller still
    holds when the later calls are made) -/
def histPred (p : Call → PayObs → Bool) (c : Call) (cs : List Call) (o : PayObs) (es : List PayObs) : Bool :=
  p c o && cs.length == es.length && (cs.zip es).all (fun (ce : Call × PayObs) => p ce.1 ce.2)

/-- `c16.split <mtu> <obytes> <calls> => PayObs <n> PayObs*`  (the harness runs G711 and G722 under
    two kinds).  `wf`: "MTU >= 1"; nil and empty inputs are inputs of length 0. -/
def split : Handler :=
  mkHandler rdCallAfter rdObsAfter
    (fun (c, cs) => (PayObs.ofFrags (Model.g711Payload c.1 c.2),
                     cs.map (fun (e : Call) => PayObs.ofFrags (Model.g711Payload e.1 e.2))))
    (fun (c, cs) (o, es) => histPred (fun c o => splitPredR c.1 c.2 o) c cs o es)
    (fun (c, _) => c.1 != 0)

/-- Opus: one fragment equal to (and not aliasing) the input — the ownership probes are C16's own
    text here.  For a nil input "one fragment equal to the input" is one empty fragment; no
    fragment at all is accepted as well. -/
def opusPredR (b : Option Bytes) (o : PayObs) : Bool :=
  match b with
  | none => (!o.panicked && o.frags.isEmpty) || Rtp.Pred.C16.opusPay [] o
  | some p => Rtp.Pred.C16.opusPay p o

def opusPay : Handler :=
  mkHandler rdCallAfter rdObsAfter
    (fun (c, cs) => (PayObs.ofFrags (Model.opusPayload c.1 c.2),
                     cs.map (fun (e : Call) => PayObs.ofFrags (Model.opusPayload e.1 e.2))))
    (fun (c, cs) (o, es) => histPred (fun c o => opusPredR c.2 o) c cs o es)

def rdOpusDe : Rd Rtp.Pred.C16.OpusDeObs := do
  let r ← Rd.resC Rd.bytes
  let h ← Rd.bool; let t0 ← Rd.bool; let t1 ← Rd.bool
  pure { res := r, head := h, tail0 := t0, tail1 := t1 }

/-- `<obytes> <n> obytes*`: the payload under test, then the payloads the SAME OpusPacket decoded
    before it.  Decoding is per packet: model and property depend on the payload under test only; the
    history is in the input so that a failing case shows it. -/
def rdOpusDeIn : Rd (Option Bytes) := do
  let b ← Rd.obytes; let _ ← Rd.list Rd.obytes; pure b

def opusDe : Handler :=
  mkHandler rdOpusDeIn rdOpusDe
    (fun b => { res := (Model.opusUnmarshal b).coarse, head := Model.audioIsPartitionHead b,
                tail0 := Model.audioIsPartitionTail false b, tail1 := Model.audioIsPartitionTail true b })
    (fun b o => Rtp.Pred.C16.opusDe b o)

def handlers : List (String × Handler) :=
  [("c16.g711", split), ("c16.g722", split), ("c16.opus", opusPay), ("c16.opusde", opusDe)]
end Rtp.Kinds.C16
