/-
  Driver/Kinds/H264.lean — case kinds of the H264 group (C10, C15 H264 half, C08/C09 H264 parts).

  c10.rt    <disable> <avc> <ncalls> (<mtu> <bare> <nunits> (<four> <nal>)*)*
            => panic | ok <ncalls> (<npkts> (<payload> <head> <res>)*)*
  c10.dec   <avc> <nitems> (s <nal> | a <hdr> <rfc> <n> <nal>* | f <hdr> <n> <chunk>*)*
            => panic | ok <npkts> (<payload> <head> <res>)*
  c15.h264  <avc> <npre> <payload>* <nframe> <payload>*
            => panic | ok <n> <res>* <n> <res>*
  c08.h264  <n> <disable>* <calls> => <n> PayObs*      (DisableStapA per call)
  c09.h264  <zeroAlloc> <avc> <n> <obytes>* => <n> (<res> <isAVC> <head> <tail0> <tail1> <auxPanic> <freshSame> <twinSame>)*
-/
import Driver.Common
import Rtp.Model.H264Obs
namespace Rtp.Kinds.H264
open Rtp Rtp.Proto Rtp.Pred Rtp.Model.H264 Rtp.Model.H264.Obs Rtp.Spec.Rfc6184

/-! ### readers -/
def rdRtCall : Rd C10.RtCall := do
  let m ← Rd.u16; let b ← Rd.bool
  let us ← Rd.list (do let f ← Rd.bool; let n ← Rd.bytes; pure (f, n))
  pure { mtu := m, bare := b, units := us }

def rdRtInput : Rd C10.RtInput := do
  let d ← Rd.bool; let a ← Rd.bool; let cs ← Rd.list rdRtCall
  pure { disable := d, avc := a, calls := cs }

def rdPkt : Rd C10.PktObs := do
  let p ← Rd.bytes; let h ← Rd.bool; let r ← Rd.resC Rd.bytes
  pure { payload := p, head := h, res := r }

def rdRtObs : Rd C10.RtObs := do
  let t ← Rd.tok
  match t with
  | "panic" => pure { panicked := true, calls := [] }
  | "ok" => do let cs ← Rd.list (Rd.list rdPkt); pure { panicked := false, calls := cs }
  | _ => Rd.fail

def rdItem : Rd Item := do
  let t ← Rd.tok
  match t with
  | "s" => do let n ← Rd.bytes; pure (.single n)
  | "a" => do
    -- <hdr> <rfc> <n> <nal>*: with rfc = 1 the Go encoder claims to have followed the RFC's
    -- F/NRI rule; a header different from `Spec.Rfc6184.stapHdr` is then a protocol error (the two
    -- independently written encoders disagree), reported loudly by the driver
    let h ← Rd.u8; let rfc ← Rd.bool; let ns ← Rd.list Rd.bytes
    if rfc && h != stapHdr ns then Rd.fail else pure (.stapA h ns)
  | "f" => do let h ← Rd.u8; let cs ← Rd.list Rd.bytes; pure (.fuA h cs)
  | _ => Rd.fail

def rdDecInput : Rd C10.DecInput := do
  let a ← Rd.bool; let p ← Rd.list rdItem
  pure { avc := a, plan := p }

def rdDecObs : Rd C10.DecObs := do
  let t ← Rd.tok
  match t with
  | "panic" => pure { panicked := true, pkts := [] }
  | "ok" => do let ps ← Rd.list rdPkt; pure { panicked := false, pkts := ps }
  | _ => Rd.fail

def rdC15Input : Rd C15H264.Input := do
  let a ← Rd.bool; let pre ← Rd.list Rd.bytes; let fr ← Rd.list Rd.bytes
  pure { avc := a, pre := pre, frame := fr }

def rdC15Obs : Rd C15H264.Obs := do
  let t ← Rd.tok
  match t with
  | "panic" => pure { panicked := true, after := [], fresh := [] }
  | "ok" => do
    let a ← Rd.list (Rd.resC Rd.bytes); let f ← Rd.list (Rd.resC Rd.bytes)
    pure { panicked := false, after := a, fresh := f }
  | _ => Rd.fail

def rdH264DepObs : Rd (C09.DepObs Bool) := do
  let r ← Rd.resC Rd.bytes
  let md ← Rd.bool; let h ← Rd.bool; let t0 ← Rd.bool; let t1 ← Rd.bool
  let ap ← Rd.bool; let fs ← Rd.bool; let tw ← Rd.bool
  pure { res := r, md := md, head := h, tail0 := t0, tail1 := t1, auxPanic := ap, freshSame := fs, twinSame := tw }

/-! ### handlers -/
def rt : Handler :=
  mkHandler rdRtInput rdRtObs rtModel C10.rtOk (fun i => i.wf)

def dec : Handler :=
  mkHandler rdDecInput rdDecObs decModel C10.decOk (fun i => i.wf)

/-- C15 speaks of a "completely delivered", "intact" frame: a self-starting packet list on which a
    FRESH receiver reports an error is not one (garbage that merely happens to be self-starting), and
    nothing is claimed about it.  `wf` is the self-starting condition (`Input.wf`); outside it the
    predicate does not count (correspondence only), so the `!o.panicked` of `C15H264.ok` is not
    demanded there either. -/
def c15OkRelaxed (i : C15H264.Input) (o : C15H264.Obs) : Bool :=
  !(o.fresh.all Res.isOk) || C15H264.ok i o

/-- the theorems are about `C15H264.ok`; it implies what the driver evaluates -/
theorem c15Ok_imp_relaxed (i : C15H264.Input) (o : C15H264.Obs) :
    C15H264.ok i o = true → c15OkRelaxed i o = true := by
  intro h; simp [c15OkRelaxed, h]

def c15 : Handler :=
  mkHandler rdC15Input rdC15Obs c15Model c15OkRelaxed (fun i => i.wf)

def c08 : Handler :=
  mkHandler (do let fs ← Rd.list Rd.bool; let cs ← rdCalls; pure (fs, cs)) rdPayObsList
    (fun (fs, cs) => c08Model fs cs)
    (fun (_, cs) os => C08.histOk false cs os)

def c09 : Handler :=
  mkHandler (do let z ← Rd.bool; let a ← Rd.bool; let ps ← Rd.list Rd.obytes; pure (z, a, ps))
    (Rd.list rdH264DepObs)
    (fun (z, a, ps) => c09Calls z a [] ps)
    (fun _ os => C09.histOk false os)

def handlers : List (String × Handler) :=
  [("c10.rt", rt), ("c10.dec", dec), ("c15.h264", c15), ("c08.h264", c08), ("c09.h264", c09)]
end Rtp.Kinds.H264
