import Driver.Common
namespace Rtp.Kinds.H264
open Rtp Rtp.Proto

def handlers : List (String × Handler) := []
end Rtp.Kinds.H264
