/-
  Driver/Kinds/H264.lean — case kinds of the H264 group (C10, C15 H264 half, C08/C09 H264 parts).

  c10.rt    <disable> <avc> <ncalls> (<mtu> <bare> <nunits> (<four> <nal>)*)*
            => panic | ok <ncalls> (<npkts> (<payload> <head> <res>)*)*
  c10.dec   <avc> <nitems> (s <nal> | a <hdr> <rfc> <n> <nal>* | f <hdr> <n> <chunk>*)*
            => panic | ok <npkts> (<payload> <head> <res>)*
  c15.h264  <avc> <npre> <payload>* <nframe> <payload>*
            => panic | ok <n> <res>* <n> <res>*
  c08.h264  <n> <disable>* <calls> => <n> PayObs*      (DisableStapA per call)
  c10.rtfork   <disable> <avc> <fork> <ncalls> (<lane> <mtu> <bare> <nunits> (<four> <nal>)*)*
            => panic | ok <n0> (<npkts> (<payload> <head> <res>)*)* <n1> (<npkts> (<payload> <head> <res>)*)*
            the payloader struct is copied by value after <fork> calls; call k >= fork goes to copy <lane>;
            observation = per copy, the calls it received over its life (those before the fork included)
  c08.h264fork <fork> <n> <lane>* <n> <disable>* <calls> => <n> PayObs*   (in call order)
  c09.h264  <zeroAlloc> <avc> <n> <obytes>* => <n> (<res> <isAVC> <head> <tail0> <tail1> <auxPanic> <freshSame> <twinSame>)*
-/
import Driver.Common
import Rtp.Model.H264Obs
import Rtp.Model.H264Fork
namespace Rtp.Kinds.H264
open Rtp Rtp.Proto Rtp.Pred Rtp.Model.H264 Rtp.Model.H264.Obs Rtp.Model.H264.Fork Rtp.Spec.Rfc6184

/-! ### readers -/
def rdRtCall : Rd C10.RtCall := do
  let m ← Rd.u16; let b ← Rd.bool
  let us ← Rd.list (do let f ← Rd.bool; let n ← Rd.bytes; pure (f, n))
  pure { mtu := m, bare := b, units := us }

def rdRtInput : Rd C10.RtInput := do
  let d ← Rd.bool; let a ← Rd.bool; let cs ← Rd.list rdRtCall
  pure { disable := d, avc := a, calls := cs }

def rdPkt : Rd C10.PktObs := do
  let p ← Rd.bytes; let h ← Rd.bool; let r ← Rd.resC Rd.bytes
  pure { payload := p, head := h, res := r }

def rdRtObs : Rd C10.RtObs := do
  let t ← Rd.tok
  match t with
  | "panic" => pure { panicked := true, calls := [] }
  | "ok" => do let cs ← Rd.list (Rd.list rdPkt); pure { panicked := false, calls := cs }
  | _ => Rd.fail

def rdItem : Rd Item := do
  let t ← Rd.tok
  match t with
  | "s" => do let n ← Rd.bytes; pure (.single n)
  | "a" => do
    -- <hdr> <rfc> <n> <nal>*: with rfc = 1 the Go encoder claims to have followed the RFC's
    -- F/NRI rule; a header different from `Spec.Rfc6184.stapHdr` is then a protocol error (the two
    -- independently written encoders disagree), reported loudly by the driver
    let h ← Rd.u8; let rfc ← Rd.bool; let ns ← Rd.list Rd.bytes
    if rfc && h != stapHdr ns then Rd.fail else pure (.stapA h ns)
  | "f" => do let h ← Rd.u8; let cs ← Rd.list Rd.bytes; pure (.fuA h cs)
  | _ => Rd.fail

def rdDecInput : Rd C10.DecInput := do
  let a ← Rd.bool; let p ← Rd.list rdItem
  pure { avc := a, plan := p }

def rdDecObs : Rd C10.DecObs := do
  let t ← Rd.tok
  match t with
  | "panic" => pure { panicked := true, pkts := [] }
  | "ok" => do let ps ← Rd.list rdPkt; pure { panicked := false, pkts := ps }
  | _ => Rd.fail

def rdC15Input : Rd C15H264.Input := do
  let a ← Rd.bool; let pre ← Rd.list Rd.bytes; let fr ← Rd.list Rd.bytes
  pure { avc := a, pre := pre, frame := fr }

def rdC15Obs : Rd C15H264.Obs := do
  let t ← Rd.tok
  match t with
  | "panic" => pure { panicked := true, after := [], fresh := [] }
  | "ok" => do
    let a ← Rd.list (Rd.resC Rd.bytes); let f ← Rd.list (Rd.resC Rd.bytes)
    pure { panicked := false, after := a, fresh := f }
  | _ => Rd.fail

def rdH264DepObs : Rd (C09.DepObs Bool) := do
  let r ← Rd.resC Rd.bytes
  let md ← Rd.bool; let h ← Rd.bool; let t0 ← Rd.bool; let t1 ← Rd.bool
  let ap ← Rd.bool; let fs ← Rd.bool; let tw ← Rd.bool
  pure { res := r, md := md, head := h, tail0 := t0, tail1 := t1, auxPanic := ap, freshSame := fs, twinSame := tw }

/-! ### what the driver evaluates for C10

  `C10.rtOk` / `C10.decOk` (the predicates the theorems of Props/C10.lean are about) fix more than
  the text of C10 says; the driver evaluates the weaker `rtOkR` / `decOkR` and restricts the
  verdict to the property's quantifier with `rtWF` / `decWF`:
  * "in Annex-B or AVC framing": an Annex-B stream may put 00 00 01 or 00 00 00 01 in front of a
    unit; `Spec.Rfc6184.frameAnnexB` fixes the 4-byte form.  `annexBLoose` accepts either, unit by
    unit (each expected unit is consumed by its length, so the match is deterministic).
  * "Annex-B access units": a buffer without any start code (`bare`) is not an Annex-B stream.
  * "any RFC 6184 single/STAP-A/FU-A stream": RFC 6184 §5.8 forbids fragmenting a NAL unit of type
    0 or 24–31 into FU-As and §5.7.1 aggregates NAL units (a header octet, hence ≥ 1 byte, and here
    of the types 1–23 the property is about); `Item.wf` admits more. -/

/-- `out` is `units` in order, each preceded by a 3- or a 4-byte start code -/
def annexBLoose : List Bytes → Bytes → Bool
  | [], out => out.isEmpty
  | n :: ns, out =>
    match out with
    | 0 :: 0 :: 1 :: r => n.isPrefixOf r && annexBLoose ns (r.drop n.length)
    | 0 :: 0 :: 0 :: 1 :: r => n.isPrefixOf r && annexBLoose ns (r.drop n.length)
    | _ => false

/-- `C10.decodeOk` with either start-code length in Annex-B mode -/
def decodeOkR (avc : Bool) (expected : List Bytes) (pkts : List C10.PktObs) : Bool :=
  pkts.all (·.res.isOk) &&
  (let out := pkts.flatMap (fun p => C10.resBytes p.res)
   out == frame avc expected || (!avc && annexBLoose expected out))

def rtOkR (i : C10.RtInput) (o : C10.RtObs) : Bool :=
  C10.rtOk i o ||
  (!o.panicked && o.calls.length == i.calls.length &&
   C10.shapeOk i.disable i.expectedT o.pkts && decodeOkR i.avc i.expected o.pkts)

def decOkR (i : C10.DecInput) (o : C10.DecObs) : Bool :=
  C10.decOk i o ||
  (!o.panicked && decodeOkR i.avc (i.plan.flatMap Item.nals) o.pkts &&
   (!i.plan.all C10.headsApply || o.pkts.map (·.head) == i.plan.flatMap Item.heads))

theorem rtOkR_of_rtOk (i : C10.RtInput) (o : C10.RtObs) : C10.rtOk i o = true → rtOkR i o = true := by
  intro h; simp [rtOkR, h]

theorem decOkR_of_decOk (i : C10.DecInput) (o : C10.DecObs) : C10.decOk i o = true → decOkR i o = true := by
  intro h; simp [decOkR, h]

/-- C10's quantifier for the round trip: the hypotheses of `RtInput.wf`, every buffer an Annex-B
    stream (no bare unit) -/
def rtWF (i : C10.RtInput) : Bool := i.wf && i.calls.all (fun c => !c.bare)

/-- what RFC 6184 lets an encoder send beyond `Item.wf`: an FU-A carries a unit of type 1–23, a
    STAP-A aggregates units of ≥ 1 byte and type 1–23 -/
def itemRfc : Item → Bool
  | .single _ => true
  | .stapA _ ns => ns.all (fun n => decide (1 ≤ n.length) && decide (1 ≤ typeOf n ∧ typeOf n ≤ 23))
  | .fuA h _ => decide (1 ≤ hType h ∧ hType h ≤ 23)

def decWF (i : C10.DecInput) : Bool := i.wf && i.plan.all itemRfc

/-! ### handlers -/
def rt : Handler :=
  mkHandler rdRtInput rdRtObs rtModel rtOkR rtWF

def dec : Handler :=
  mkHandler rdDecInput rdDecObs decModel decOkR decWF

/-- C15 speaks of a "completely delivered", "intact" frame: a self-starting packet list on which a
    FRESH receiver reports an error is not one (garbage that merely happens to be self-starting), and
    nothing is claimed about it.  `wf` is the self-starting condition (`Input.wf`); outside it the
    predicate does not count (correspondence only), so the `!o.panicked` of `C15H264.ok` is not
    demanded there either. -/
def c15OkRelaxed (i : C15H264.Input) (o : C15H264.Obs) : Bool :=
  !(o.fresh.all Res.isOk) || C15H264.ok i o

/-- the theorems are about `C15H264.ok`; it implies what the driver evaluates -/
theorem c15Ok_imp_relaxed (i : C15H264.Input) (o : C15H264.Obs) :
    C15H264.ok i o = true → c15OkRelaxed i o = true := by
  intro h; simp [c15OkRelaxed, h]

def c15 : Handler :=
  mkHandler rdC15Input rdC15Obs c15Model c15OkRelaxed (fun i => i.wf)

def c08 : Handler :=
  mkHandler (do let fs ← Rd.list Rd.bool; let cs ← rdCalls; pure (fs, cs)) rdPayObsList
    (fun (fs, cs) => c08Model fs cs)
    (fun (_, cs) os => C08.histOk false cs os)

def c09 : Handler :=
  mkHandler (do let z ← Rd.bool; let a ← Rd.bool; let ps ← Rd.list Rd.obytes; pure (z, a, ps))
    (Rd.list rdH264DepObs)
    (fun (z, a, ps) => c09Calls z a [] ps)
    (fun _ os => C09.histOk false os)

/-! ### forked histories (the payloader struct copied by value mid-stream) -/

def rdRtForkInput : Rd RtForkInput := do
  let d ← Rd.bool; let a ← Rd.bool; let f ← Rd.nat
  let cs ← Rd.list (do let l ← Rd.nat; let c ← rdRtCall; pure (l, c))
  pure { disable := d, avc := a, fork := f, calls := cs }

def rdRtForkObs : Rd RtForkObs := do
  let t ← Rd.tok
  match t with
  | "panic" => pure { lane0 := { panicked := true, calls := [] }, lane1 := { panicked := true, calls := [] } }
  | "ok" => do
    let c0 ← Rd.list (Rd.list rdPkt); let c1 ← Rd.list (Rd.list rdPkt)
    pure { lane0 := { panicked := false, calls := c0 }, lane1 := { panicked := false, calls := c1 } }
  | _ => Rd.fail

/-- each copy, looked at on its own, is an ordinary payloader: the predicate of `c10.rt` on the calls
    it received over its life and the payloads it returned -/
def rtForkOkR (i : RtForkInput) (o : RtForkObs) : Bool :=
  rtOkR (i.view 0) o.lane0 && rtOkR (i.view 1) o.lane1

def rtForkWF (i : RtForkInput) : Bool := rtWF (i.view 0) && rtWF (i.view 1)

def rtFork : Handler :=
  mkHandler rdRtForkInput rdRtForkObs rtForkModel rtForkOkR rtForkWF

def c08Fork : Handler :=
  mkHandler (do let f ← Rd.nat; let ls ← Rd.list Rd.nat; let fs ← Rd.list Rd.bool; let cs ← rdCalls
                pure (f, ls, fs, cs)) rdPayObsList
    (fun (f, ls, fs, cs) => c08ForkModel f ls fs cs)
    (fun (_, _, _, cs) os => C08.histOk false cs os)

def handlers : List (String × Handler) :=
  [("c10.rt", rt), ("c10.dec", dec), ("c15.h264", c15), ("c08.h264", c08), ("c09.h264", c09),
   ("c10.rtfork", rtFork), ("c08.h264fork", c08Fork)]
end Rtp.Kinds.H264
