import Driver.Common
import Driver.PacketIO
namespace Rtp.Kinds.CoreB
open Rtp Rtp.Proto

def handlers : List (String × Handler) := []
end Rtp.Kinds.CoreB
