import Driver.Common
import Driver.PacketIO
import Rtp.Pred.C02
import Rtp.Pred.C05
namespace Rtp.Kinds.CoreB
open Rtp Rtp.Proto Rtp.Model

/-! ### C02

  `c02.parse <buf> <list bytes prevs> => recv(fresh) recv(reused)`
     recv := hres pres
     hres := ok <header> <n> <nExt> <list int locs> <list u8 ids> <list obytes gets> | err <k> | panic
     pres := ok <packet> <nExt> <int payOff> <list int locs> <list u8 ids> <list obytes gets> | err <k> | panic
-/

/-- a value returned by GetExtension: `nil` and the empty slice are identified -/
def rdVal : Rd (Option Bytes) := do let v ← Rd.obytes; pure (Pred.C02.canonV v)

def rdHdrOk : Rd Pred.C02.HdrOk := do
  let h ← rdHeader; let n ← Rd.nat; let ne ← Rd.nat; let locs ← Rd.list Rd.int
  let ids ← Rd.list Rd.u8; let gets ← Rd.list rdVal
  pure { h := h, n := n, nExt := ne, locs := locs, ids := ids, gets := gets }

def rdPktOk : Rd Pred.C02.PktOk := do
  let p ← rdPacket; let ne ← Rd.nat; let off ← Rd.int; let locs ← Rd.list Rd.int
  let ids ← Rd.list Rd.u8; let gets ← Rd.list rdVal
  pure { p := p, nExt := ne, payOff := off, locs := locs, ids := ids, gets := gets }

def rdRecv : Rd Pred.C02.Recv := do
  let h ← Rd.resC rdHdrOk; let p ← Rd.resC rdPktOk
  pure { hun := h, pun := p }

/-! #### relaxed predicate

  `Pred.C02.pred` demands that the payload and every extension value are SUB-SLICES of the input
  (pointer offsets; the harness reports -2 for a value that lies outside the buffer).  The text only
  says they "are exactly the corresponding input bytes", which a parser that copies satisfies too.
  The variant below compares by value: the payload is the input from the reported header length to
  len − padding (no demand on its address); an extension value that does not alias the input must
  occur somewhere inside the header part `[0, n)` of the input.  Bounds, the length equation, no
  panic and reused = fresh are as in `Pred.C02.pred`, and `pred_relax` shows it is implied by it. -/
namespace Relax
open Rtp.Pred.C02

/-- `v` stands at some offset of `buf` inside `[0, n)` -/
def occursIn (buf : Bytes) (n : Nat) (v : Bytes) : Bool :=
  (List.range (n + 1 - v.length)).any fun i => slice buf i (i + v.length) == v

def locsOkR (buf : Bytes) (n : Nat) : List Ext → List Int → Bool
  | [], [] => true
  | e :: es, o :: os =>
    (e.payload.isEmpty ||
      (if 0 ≤ o then
        decide (o.toNat + e.payload.length ≤ n) && e.payload == slice buf o.toNat (o.toNat + e.payload.length)
       else occursIn buf n e.payload)) &&
    locsOkR buf n es os
  | _, _ => false

def hdrHoldsR (buf : Bytes) (r : Res HdrOk) : Bool :=
  match r with
  | .panic => false
  | .err _ => true
  | .ok a => a.n ≤ buf.length && locsOkR buf a.n a.h.exts a.locs

def pktHoldsR (buf : Bytes) (hun : Res HdrOk) (r : Res PktOk) : Bool :=
  match r with
  | .panic => false
  | .err _ => true
  | .ok b =>
    match hun with
    | .ok a =>
      a.n + b.p.payload.length + b.p.paddingSize.toNat == buf.length &&
      b.p.payload == slice buf a.n (a.n + b.p.payload.length) &&
      locsOkR buf a.n b.p.header.exts b.locs
    | _ => false

def recvHoldsR (buf : Bytes) (r : Recv) : Bool := hdrHoldsR buf r.hun && pktHoldsR buf r.hun r.pun

def predR (buf : Bytes) (_prevs : List Bytes) (o : Obs) : Bool :=
  recvHoldsR buf o.fresh && o.reused == o.fresh

theorem locsOk_relax (buf : Bytes) (n : Nat) (es : List Ext) (os : List Int) :
    locsOk buf n es os = true → locsOkR buf n es os = true := by
  induction es generalizing os with
  | nil => cases os <;> simp [locsOk, locsOkR]
  | cons e es ih =>
    cases os with
    | nil => simp [locsOk]
    | cons o os =>
      simp only [locsOk, locsOkR, Bool.and_eq_true, Bool.or_eq_true, decide_eq_true_eq]
      rintro ⟨h1, h2⟩
      refine ⟨?_, ih os h2⟩
      rcases h1 with h1 | ⟨⟨h0, hb⟩, hv⟩
      · exact .inl h1
      · refine .inr ?_
        rw [if_pos h0]
        simp [hb, hv]

theorem hdrHolds_relax (buf : Bytes) (r : Res HdrOk) : hdrHolds buf r = true → hdrHoldsR buf r = true := by
  unfold hdrHolds hdrHoldsR
  cases r with
  | ok a =>
    simp only [Bool.and_eq_true]
    exact fun ⟨h1, h2⟩ => ⟨h1, locsOk_relax _ _ _ _ h2⟩
  | err e => simp
  | panic => simp

theorem pktHolds_relax (buf : Bytes) (hun : Res HdrOk) (r : Res PktOk) :
    pktHolds buf hun r = true → pktHoldsR buf hun r = true := by
  unfold pktHolds pktHoldsR
  cases r with
  | ok b =>
    cases hun with
    | ok a =>
      simp only [Bool.and_eq_true]
      exact fun ⟨⟨⟨h1, h2⟩, _⟩, h4⟩ => ⟨⟨h1, h2⟩, locsOk_relax _ _ _ _ h4⟩
    | err e => simp
    | panic => simp
  | err e => simp
  | panic => simp

theorem pred_relax (buf : Bytes) (prevs : List Bytes) (o : Obs) :
    pred buf prevs o = true → predR buf prevs o = true := by
  unfold pred holds predR recvHolds recvHoldsR
  simp only [Bool.and_eq_true]
  exact fun ⟨⟨h1, h2⟩, h3⟩ => ⟨⟨hdrHolds_relax _ _ h1, pktHolds_relax _ _ _ h2⟩, h3⟩

end Relax

def c02parse : Handler :=
  mkHandler (do let b ← Rd.bytes; let prev ← Rd.list Rd.bytes; pure (b, prev))
    (do let f ← rdRecv; let r ← rdRecv; pure ({ fresh := f, reused := r } : Pred.C02.Obs))
    (fun (b, prev) => Pred.C02.modelObs b prev)
    (fun (b, prev) o => Relax.predR b prev o)

/-! ### C05

  `c05.ops <start> <n> op* => <startOk> <n> (id bytes)* reads <n> step* final`
     start := hdr <header> | wire <list bytes prevs> <bytes>
     op    := set <id> <bytes> | del <id>
     reads := <bool X> <u16 profile> <list u8 ids> <n> (id obytes)*
     step  := (ok | err <k> | panic) reads
     final := <bool X> <u16 profile> <res bytes marshal> (ok | err <k> | panic) <n> (id obytes)*
-/

open Rtp.Spec.OrderedMap (Op) in
def rdOp : Rd Op := do
  let t ← Rd.tok
  match t with
  | "set" => do let id ← Rd.u8; let v ← Rd.bytes; pure (.set id v)
  | "del" => do let id ← Rd.u8; pure (.del id)
  | _ => Rd.fail

def rdStart : Rd Pred.C05.Start := do
  let t ← Rd.tok
  match t with
  | "hdr" => do let h ← rdHeader; pure (.hdr h)
  | "wire" => do let ps ← Rd.list Rd.bytes; let b ← Rd.bytes; pure (.wire ps b)
  | _ => Rd.fail

def rdIdVal : Rd (UInt8 × Option Bytes) := do let id ← Rd.u8; let v ← rdVal; pure (id, v)

def rdReads : Rd Pred.C05.Reads := do
  let x ← Rd.bool; let prof ← Rd.u16
  let ids ← Rd.list Rd.u8; let gets ← Rd.list rdIdVal
  pure { x := x, profile := prof, ids := ids, gets := gets }

def rdStepObs : Rd Pred.C05.StepObs := do
  let r ← Rd.resC Rd.unit; let rs ← rdReads
  pure { res := r, reads := rs }

def rdFinal : Rd Pred.C05.FinalObs := do
  let x ← Rd.bool; let prof ← Rd.u16
  let m ← Rd.resC Rd.bytes; let un ← Rd.resC Rd.unit; let wg ← Rd.list rdIdVal
  pure { extension := x, profile := prof, marshal := m, un := un, wireGets := wg }

def rdC05Obs : Rd Pred.C05.Obs := do
  let ok ← Rd.bool
  let start ← Rd.list (do let id ← Rd.u8; let v ← Rd.bytes; pure (id, v))
  let init ← rdReads
  let steps ← Rd.list rdStepObs
  let fin ← rdFinal
  pure { startOk := ok, start := start, init := init, steps := steps, final := fin }

/-- the quantifier of C05, beyond `Pred.C05.wf` (which the theorems use):
    * the start state's profile is not one of the two-byte profiles with appbits 0x1001–0x100F, which
      the library takes for legacy (see `appbitsProfile`);
    * the start state lists every id once: a wire image may carry the same id twice, and "last value
      per id, first-insertion order, deleted ids absent" does not determine what Set/Del do to the
      second entry (Spec/OrderedMap picks first-entry-only; the text does not);
    * "value lengths 0-300": no SetExtension value is longer than 300 bytes. -/
def c05Quantified (s : Pred.C05.Start) (ops : List Rtp.Spec.OrderedMap.Op) : Bool :=
  (match Pred.C05.startHeader s with
    | some h => !hdrAppbits h && decide ((Pred.C05.view h).map (·.1)).Nodup
    | none => false) &&
  ops.all fun op => match op with
    | .set _ v => v.length ≤ 300
    | .del _ => true

def c05ops : Handler :=
  mkHandler (do let s ← rdStart; let ops ← Rd.list rdOp; pure (s, ops)) rdC05Obs
    (fun (s, ops) => Pred.C05.modelObs s ops)
    (fun (s, ops) o => Pred.C05.pred s ops o)
    (fun (s, ops) => Pred.C05.wf s && Pred.C05.finalWf s ops && c05Quantified s ops)

def handlers : List (String × Handler) := [("c02.parse", c02parse), ("c05.ops", c05ops)]
end Rtp.Kinds.CoreB
