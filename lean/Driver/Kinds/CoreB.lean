import Driver.Common
import Driver.PacketIO
import Rtp.Pred.C02
import Rtp.Pred.C05
namespace Rtp.Kinds.CoreB
open Rtp Rtp.Proto Rtp.Model

/-! ### C02

  `c02.parse <buf> <list bytes prevs> => recv(fresh) recv(reused)`
     recv := hres pres
     hres := ok <header> <n> <nExt> <list int locs> <list u8 ids> <list obytes gets> | err <k> | panic
     pres := ok <packet> <nExt> <int payOff> <list int locs> <list u8 ids> <list obytes gets> | err <k> | panic
-/

/-- a value returned by GetExtension: `nil` and the empty slice are identified -/
def rdVal : Rd (Option Bytes) := do let v ← Rd.obytes; pure (Pred.C02.canonV v)

def rdHdrOk : Rd Pred.C02.HdrOk := do
  let h ← rdHeader; let n ← Rd.nat; let ne ← Rd.nat; let locs ← Rd.list Rd.int
  let ids ← Rd.list Rd.u8; let gets ← Rd.list rdVal
  pure { h := h, n := n, nExt := ne, locs := locs, ids := ids, gets := gets }

def rdPktOk : Rd Pred.C02.PktOk := do
  let p ← rdPacket; let ne ← Rd.nat; let off ← Rd.int; let locs ← Rd.list Rd.int
  let ids ← Rd.list Rd.u8; let gets ← Rd.list rdVal
  pure { p := p, nExt := ne, payOff := off, locs := locs, ids := ids, gets := gets }

def rdRecv : Rd Pred.C02.Recv := do
  let h ← Rd.resC rdHdrOk; let p ← Rd.resC rdPktOk
  pure { hun := h, pun := p }

def c02parse : Handler :=
  mkHandler (do let b ← Rd.bytes; let prev ← Rd.list Rd.bytes; pure (b, prev))
    (do let f ← rdRecv; let r ← rdRecv; pure ({ fresh := f, reused := r } : Pred.C02.Obs))
    (fun (b, prev) => Pred.C02.modelObs b prev)
    (fun (b, prev) o => Pred.C02.pred b prev o)

/-! ### C05

  `c05.ops <start> <n> op* => <startOk> <n> (id bytes)* reads <n> step* final`
     start := hdr <header> | wire <list bytes prevs> <bytes>
     op    := set <id> <bytes> | del <id>
     reads := <bool X> <u16 profile> <list u8 ids> <n> (id obytes)*
     step  := (ok | err <k> | panic) reads
     final := <bool X> <u16 profile> <res bytes marshal> (ok | err <k> | panic) <n> (id obytes)*
-/

open Rtp.Spec.OrderedMap (Op) in
def rdOp : Rd Op := do
  let t ← Rd.tok
  match t with
  | "set" => do let id ← Rd.u8; let v ← Rd.bytes; pure (.set id v)
  | "del" => do let id ← Rd.u8; pure (.del id)
  | _ => Rd.fail

def rdStart : Rd Pred.C05.Start := do
  let t ← Rd.tok
  match t with
  | "hdr" => do let h ← rdHeader; pure (.hdr h)
  | "wire" => do let ps ← Rd.list Rd.bytes; let b ← Rd.bytes; pure (.wire ps b)
  | _ => Rd.fail

def rdIdVal : Rd (UInt8 × Option Bytes) := do let id ← Rd.u8; let v ← rdVal; pure (id, v)

def rdReads : Rd Pred.C05.Reads := do
  let x ← Rd.bool; let prof ← Rd.u16
  let ids ← Rd.list Rd.u8; let gets ← Rd.list rdIdVal
  pure { x := x, profile := prof, ids := ids, gets := gets }

def rdStepObs : Rd Pred.C05.StepObs := do
  let r ← Rd.resC Rd.unit; let rs ← rdReads
  pure { res := r, reads := rs }

def rdFinal : Rd Pred.C05.FinalObs := do
  let x ← Rd.bool; let prof ← Rd.u16
  let m ← Rd.resC Rd.bytes; let un ← Rd.resC Rd.unit; let wg ← Rd.list rdIdVal
  pure { extension := x, profile := prof, marshal := m, un := un, wireGets := wg }

def rdC05Obs : Rd Pred.C05.Obs := do
  let ok ← Rd.bool
  let start ← Rd.list (do let id ← Rd.u8; let v ← Rd.bytes; pure (id, v))
  let init ← rdReads
  let steps ← Rd.list rdStepObs
  let fin ← rdFinal
  pure { startOk := ok, start := start, init := init, steps := steps, final := fin }

def c05ops : Handler :=
  mkHandler (do let s ← rdStart; let ops ← Rd.list rdOp; pure (s, ops)) rdC05Obs
    (fun (s, ops) => Pred.C05.modelObs s ops)
    (fun (s, ops) o => Pred.C05.pred s ops o)
    (fun (s, ops) => Pred.C05.wf s && Pred.C05.finalWf s ops)

def handlers : List (String × Handler) := [("c02.parse", c02parse), ("c05.ops", c05ops)]
end Rtp.Kinds.CoreB
