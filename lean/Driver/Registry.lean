import Driver.Kinds.C16
import Driver.Kinds.Audio
import Driver.Kinds.CoreA
import Driver.Kinds.CoreB
import Driver.Kinds.CoreC
import Driver.Kinds.Pktz
import Driver.Kinds.Ext
import Driver.Kinds.Vla
import Driver.Kinds.H264
import Driver.Kinds.H265
import Driver.Kinds.Vpx
import Driver.Kinds.Av1
import Driver.Kinds.Prov
import Driver.Kinds.E2E
namespace Rtp
def allHandlers : List (String × Proto.Handler) :=
  Kinds.C16.handlers ++ Kinds.Audio.handlers ++ Kinds.CoreA.handlers ++ Kinds.CoreB.handlers ++ Kinds.CoreC.handlers ++ Kinds.Pktz.handlers ++ Kinds.Ext.handlers ++
  Kinds.Vla.handlers ++ Kinds.H264.handlers ++ Kinds.H265.handlers ++ Kinds.Vpx.handlers ++
  Kinds.Av1.handlers ++ Kinds.Prov.handlers ++ Kinds.E2E.handlers
end Rtp
