import Driver.Kinds.C16
namespace Rtp
def allHandlers : List (String × Proto.Handler) :=
  Kinds.C16.handlers
end Rtp
