-- Root of the `Rtp` library: model, specs, predicates, property theorems.
import Rtp.Go.Prim
import Rtp.Model.Audio
import Rtp.Pred.Common
import Rtp.Pred.C16
import Rtp.Proofs.Audio
import Rtp.Props.C16
