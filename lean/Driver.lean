import Driver.Registry
