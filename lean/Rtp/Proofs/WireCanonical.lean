/-
  Rtp/Proofs/WireCanonical.lean — a canonical wire description (no pad items, zero filler, no
  reserved id) is recovered from the packet it describes: `ofPacket ∘ toPacket = id`.
-/
import Rtp.Proofs.WireParsed
namespace Rtp.Proofs.Wire
open Rtp Rtp.Model Rtp.Spec.Wire
open Rtp.Pred.C01 (canonP canonH)

theorem toItems_elems (items : List Item) (h : noPads items = true) : toItems (elems items) = items := by
  induction items with
  | nil => rfl
  | cons it r ih =>
    simp only [noPads, List.all_cons, Bool.and_eq_true] at h
    cases it with
    | pad => simp at h
    | elem id d =>
      simp only [elems, toItems, List.map_cons]
      congr 1
      exact ih (by simpa [noPads] using h.2)

theorem rep_of_all_zero (f : Bytes) (h : f.all (· == 0) = true) : rep f.length 0 = f := by
  induction f with
  | nil => rfl
  | cons b r ih =>
    simp only [List.all_cons, Bool.and_eq_true, beq_iff_eq] at h
    simp only [rep, List.length_cons, List.replicate_succ, h.1]
    congr 1
    exact ih h.2

theorem hdrOf_empty (w : Wire) : hdrOf {} w = w.toPacket.header := by
  cases hx : w.ext <;> simp [hdrOf, Wire.toPacket, hx]

theorem pad_roundtrip (f : Bytes) (hl : f.length ≤ 254) (hz : f.all (· == 0) = true) :
    rep ((f.length + 1).toUInt8.toNat - 1) 0 = f := by
  have : (f.length + 1).toUInt8.toNat - 1 = f.length := by simp [Nat.toUInt8]; omega
  rw [this, rep_of_all_zero f hz]

theorem extOf_block (hd : Header) (b : ExtBlock) (hc : b.canonical = true) (hwf : b.WF = true) :
    extOf { hd with extension := true, extProfile := b.profile, exts := b.elements } = some b := by
  cases b with
  | oneByte items stop =>
    simp only [ExtBlock.canonical, Bool.and_eq_true, Option.isNone_iff_eq_none] at hc
    obtain ⟨h1, h2⟩ := hc
    subst h2
    simp [extOf, ExtBlock.profile, ExtBlock.elements, profileOneByte, toItems_elems _ h1]
  | twoByte a items =>
    simp only [ExtBlock.canonical, Bool.and_eq_true, beq_iff_eq] at hc
    obtain ⟨h1, h2⟩ := hc
    subst h1
    have e1 : ((0x1000 + (0 : UInt8).toNat).toUInt16 == profileOneByte) = false := by decide
    have e2 : ((0x1000 + (0 : UInt8).toNat).toUInt16 == profileTwoByte) = true := by decide
    simp only [extOf, ExtBlock.profile, ExtBlock.elements, e1, e2, ↓reduceIte, Bool.false_eq_true, toItems_elems _ h2]
  | legacy p ws =>
    simp only [ExtBlock.WF, Bool.and_eq_true, bne_iff_ne, ne_eq] at hwf
    have e1 : (p == profileOneByte) = false := by simpa [profileOneByte] using hwf.1.1.1
    have e2 : (p == profileTwoByte) = false := by
      have := legacy_profile p (by simpa using hwf.1.1.2)
      simpa [profileTwoByte] using this
    simp [extOf, ExtBlock.profile, ExtBlock.elements, e1, e2]

/-- a canonical description is recovered from the packet it describes -/
theorem ofPacket_toPacket (w : Wire) (h : w.canonical = true) : ofPacket w.toPacket = w := by
  simp only [Wire.canonical, Bool.and_eq_true] at h
  obtain ⟨⟨hwf, hext⟩, hpad⟩ := h
  simp only [Wire.WF, Bool.and_eq_true] at hwf
  obtain ⟨⟨_, hewf⟩, hpwf⟩ := hwf
  obtain ⟨v, m, pt, sq, ts, ss, cs, ext, pl, pad⟩ := w
  simp only at hext hpad hewf hpwf
  cases pad with
  | none =>
    cases ext with
    | none => simp [ofPacket, Wire.toPacket, extOf]
    | some b =>
      simp only at hext hewf
      have := extOf_block { version := v, padding := false, marker := m, payloadType := pt, seq := sq, ts := ts, ssrc := ss, csrc := cs } b hext hewf
      simp only [ofPacket, Wire.toPacket, Option.isSome_some, Option.isSome_none, this]
      simp
  | some f =>
    simp only [decide_eq_true_eq] at hpwf hpad
    have hp := pad_roundtrip f hpwf hpad
    cases ext with
    | none =>
      simp only [ofPacket, Wire.toPacket, extOf, Option.isSome_some, Option.isSome_none, hp]
      simp
    | some b =>
      simp only at hext hewf
      have := extOf_block { version := v, padding := true, marker := m, payloadType := pt, seq := sq, ts := ts, ssrc := ss, csrc := cs } b hext hewf
      simp only [ofPacket, Wire.toPacket, Option.isSome_some, this, hp]
      simp

end Rtp.Proofs.Wire
