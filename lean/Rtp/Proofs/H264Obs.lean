/-
  Rtp/Proofs/H264Obs.lean — the observation records of Model/H264Obs.lean in terms of `run`,
  `isPartitionHead`; coarse results.
-/
import Rtp.Proofs.H264Decoder
import Rtp.Model.H264Obs
namespace Rtp.Proofs.H264
open Rtp Rtp.Model Rtp.Model.H264 Rtp.Model.H264.Obs Rtp.Spec.Rfc6184 Rtp.Pred

theorem coarse_isOk {α} (r : Res α) : r.coarse.isOk = r.isOk := by cases r <;> rfl
theorem coarse_resBytes (r : Res Bytes) : C10.resBytes r.coarse = C10.resBytes r := by cases r <;> rfl

theorem observePkts_payload (avc : Bool) (buf : Bytes) (ps : List Bytes) :
    (observePkts avc buf ps).1.map (·.payload) = ps := by
  induction ps generalizing buf with
  | nil => rfl
  | cons p ps ih => simp [observePkts, ih]

theorem observePkts_head (avc : Bool) (buf : Bytes) (ps : List Bytes) :
    (observePkts avc buf ps).1.map (·.head) = ps.map isPartitionHead := by
  induction ps generalizing buf with
  | nil => rfl
  | cons p ps ih => simp [observePkts, ih]

theorem observePkts_res (avc : Bool) (buf : Bytes) (ps : List Bytes) :
    (observePkts avc buf ps).1.map (·.res) = (run avc buf ps).1.map Res.coarse ∧
    (observePkts avc buf ps).2 = (run avc buf ps).2 := by
  induction ps generalizing buf with
  | nil => exact ⟨rfl, rfl⟩
  | cons p ps ih =>
    have := ih (unmarshal avc buf p).2
    simp [observePkts, run, this.1, this.2]

theorem decodeOk_of_run (avc : Bool) (expected : List Bytes) (pkts : List C10.PktObs)
    (rs : List (Res Bytes)) (hr : pkts.map (·.res) = rs.map Res.coarse)
    (h1 : allOk rs = true) (h2 : outBytes rs = frame avc expected) :
    C10.decodeOk avc expected pkts = true := by
  have a : pkts.all (·.res.isOk) = allOk rs := by
    have : pkts.all (·.res.isOk) = (pkts.map (·.res)).all Res.isOk := by
      simp [List.all_map, Function.comp_def]
    rw [this, hr]; simp [allOk, List.all_map, Function.comp_def, coarse_isOk]
  have b : pkts.flatMap (fun p => C10.resBytes p.res) = outBytes rs := by
    have : pkts.flatMap (fun p => C10.resBytes p.res) = (pkts.map (·.res)).flatMap C10.resBytes := by
      simp [List.flatMap_map]
    rw [this, hr]; simp [outBytes, List.flatMap_map, coarse_resBytes]
  simp [C10.decodeOk, a, b, h1, h2]

end Rtp.Proofs.H264
