/-
  Rtp/Proofs/WireBits.lean — byte-level facts tying the arithmetic layout of Spec/Wire.lean to the
  shift/mask code of Model/Packet.lean, and the big-endian codec round trips.
  Small tables are settled by kernel evaluation (≤ 256 cases each), the rest algebraically.
-/
import Rtp.Spec.Wire
import Rtp.Go.Bits
namespace Rtp.Proofs.Wire
open Rtp Rtp.Model Rtp.Spec.Wire

/-! ### big-endian round trips -/

theorem rd16_be (x : UInt16) : rd16 (x >>> 8).toUInt8 x.toUInt8 = x := by
  apply UInt16.toNat_inj.mp
  simp only [rd16, UInt16.toNat_or, UInt16.toNat_shiftLeft, UInt8.toNat_toUInt16, UInt16.toNat_toUInt8,
    UInt16.toNat_shiftRight]
  simp
  have h := x.toNat_lt
  rw [Nat.shiftLeft_eq, Nat.shiftRight_eq_div_pow]
  have h1 : x.toNat / 2^8 % 256 = x.toNat / 256 := by omega
  rw [h1]
  have : x.toNat / 256 * 2 ^ 8 % 65536 = x.toNat / 256 * 256 := by omega
  rw [this]
  have := Rtp.Bits.nat_shl_or (x.toNat / 256) (x.toNat % 256) 8 (by omega)
  rw [Nat.shiftLeft_eq] at this
  simp at this
  omega

theorem rd32_be (x : UInt32) :
    rd32 (x >>> 24).toUInt8 (x >>> 16).toUInt8 (x >>> 8).toUInt8 x.toUInt8 = x := by
  apply UInt32.toNat_inj.mp
  simp only [rd32, UInt32.toNat_or, UInt32.toNat_shiftLeft, UInt8.toNat_toUInt32, UInt32.toNat_toUInt8,
    UInt32.toNat_shiftRight]
  simp
  have h := x.toNat_lt
  simp only [Nat.shiftLeft_eq, Nat.shiftRight_eq_div_pow, Nat.reducePow]
  generalize x.toNat = n at h ⊢
  have e3 : n / 16777216 % 256 * 16777216 % 4294967296 = n / 16777216 * 16777216 := by omega
  have e2 : n / 65536 % 256 * 65536 % 4294967296 = n / 65536 % 256 * 65536 := by
    apply Nat.mod_eq_of_lt
    have : n / 65536 % 256 < 256 := Nat.mod_lt _ (by decide)
    omega
  have e1 : n / 256 % 256 * 256 % 4294967296 = n / 256 % 256 * 256 := by
    apply Nat.mod_eq_of_lt
    have : n / 256 % 256 < 256 := Nat.mod_lt _ (by decide)
    omega
  rw [e3, e2, e1]
  have o1 := Rtp.Bits.nat_shl_or (n / 256 % 256) (n % 256) 8 (by omega)
  have o2 := Rtp.Bits.nat_shl_or (n / 65536 % 256) (n / 256 % 256 * 256 + n % 256) 16 (by omega)
  have o3 := Rtp.Bits.nat_shl_or (n / 16777216) (n / 65536 % 256 * 65536 + (n / 256 % 256 * 256 + n % 256)) 24 (by omega)
  simp only [Nat.shiftLeft_eq, Nat.reducePow] at o1 o2 o3
  rw [Nat.or_assoc, Nat.or_assoc, o1, o2, o3]
  omega

/-! ### the two bit-packed bytes of the fixed header -/

theorem byte0_table : ∀ (v : Fin 4) (p x : Bool) (cc : Fin 16),
    let b0 : UInt8 := (v.val * 64 + b2n p * 32 + b2n x * 16 + cc.val).toUInt8
    ((b0 >>> 6) &&& 0x3) = v.val.toUInt8 ∧ (decide (((b0 >>> 5) &&& 0x1) > 0)) = p ∧
    (decide (((b0 >>> 4) &&& 0x1) > 0)) = x ∧ (b0 &&& 0x0F).toNat = cc.val := by
  decide +kernel

theorem byte1_table : ∀ (m : Bool) (pt : Fin 128),
    let b1 : UInt8 := (b2n m * 128 + pt.val).toUInt8
    (decide (((b1 >>> 7) &&& 0x1) > 0)) = m ∧ (b1 &&& 0x7F) = pt.val.toUInt8 := by
  decide +kernel

end Rtp.Proofs.Wire
