/-
  Rtp/Proofs/WireView.lean — the standalone block views of header_extension.go
  (Model/HeaderExt: oneByteIDs/oneByteGet/twoByteIDs/twoByteGet, viewUnmarshal, viewMarshalTo) on
  `ExtBlock.encode` of a well-formed block description, pads anywhere.
-/
import Rtp.Proofs.WireAccept
import Rtp.Model.HeaderExt
namespace Rtp.Proofs.Wire
open Rtp Rtp.Model Rtp.Spec.Wire

theorem oneByteIDs_pads (k : Nat) : oneByteIDs (rep k 0) = [] := by
  induction k with
  | zero => simp [rep, oneByteIDs]
  | succ k ih =>
    simp only [rep, List.replicate_succ]
    rw [oneByteIDs]
    simpa [rep] using ih

theorem oneByteGet_pads (k : Nat) (q : UInt8) : oneByteGet (rep k 0) q = .ok none := by
  induction k with
  | zero => simp [rep, oneByteGet]
  | succ k ih =>
    simp only [rep, List.replicate_succ]
    rw [oneByteGet]
    simpa [rep] using ih

theorem oneByteIDs_stop (n : UInt8) (rest : Bytes) (k : Nat) (hn : n.toNat < 16) :
    oneByteIDs (stopBytes (some (n, rest)) ++ rep k 0) = [] := by
  obtain ⟨a, b⟩ := stop_table ⟨n.toNat, hn⟩
  simp only at a b
  simp only [stopBytes, List.cons_append]
  rw [oneByteIDs]
  simp only [a, b, Bool.false_eq_true, ↓reduceIte, beq_self_eq_true]

/-- `GetIDs` of the one-byte view: the ids of the items, up to a tail in which the walk lists
    nothing (alignment pads, or a reserved id and what follows it) -/
theorem oneByteIDs_body (items : List Item) (tail : Bytes) (h : items.all Item.ok1 = true)
    (ht : oneByteIDs tail = []) :
    oneByteIDs (body1 items ++ tail) = (elems items).map (·.id) := by
  induction items with
  | nil => simpa [elems] using ht
  | cons it r ih =>
    simp only [List.all_cons, Bool.and_eq_true] at h
    obtain ⟨hit, hr⟩ := h
    cases it with
    | pad =>
      simp only [body1_pad, List.cons_append, elems]
      rw [oneByteIDs]
      simpa using ih hr
    | elem id d =>
      simp only [Item.ok1, Bool.and_eq_true, decide_eq_true_eq, Bool.not_eq_true'] at hit
      obtain ⟨⟨⟨hid, h1⟩, h16⟩, hnz⟩ := hit
      obtain ⟨fa, fb, fc⟩ := hdr1_facts id d (by omega) h1 h16
      simp only [body1_elem, List.cons_append, List.append_assoc, elems]
      rw [oneByteIDs]
      have h15 : (id == 15) = false := by
        rw [Bool.eq_false_iff]; intro hc; simp at hc; rw [hc] at hid; simp at hid
      simp only [fa, fb, fc, hnz, h15, Bool.false_eq_true, ↓reduceIte, List.drop_left, List.map_cons, ih hr]

/-- `Get` of the one-byte view: the first item with that id; when there is none the walk goes on
    into the tail (it does not stop at id 15) -/
theorem oneByteGet_body (items : List Item) (tail : Bytes) (q : UInt8) (h : items.all Item.ok1 = true) :
    oneByteGet (body1 items ++ tail) q =
      match (elems items).find? (·.id == q) with
      | some e => .ok (some e.payload)
      | none => oneByteGet tail q := by
  induction items with
  | nil => simp [elems]
  | cons it r ih =>
    simp only [List.all_cons, Bool.and_eq_true] at h
    obtain ⟨hit, hr⟩ := h
    cases it with
    | pad =>
      simp only [body1_pad, List.cons_append, elems]
      rw [oneByteGet]
      simpa using ih hr
    | elem id d =>
      simp only [Item.ok1, Bool.and_eq_true, decide_eq_true_eq, Bool.not_eq_true'] at hit
      obtain ⟨⟨⟨hid, h1⟩, h16⟩, hnz⟩ := hit
      obtain ⟨fa, fb, fc⟩ := hdr1_facts id d (by omega) h1 h16
      simp only [body1_elem, List.cons_append, List.append_assoc, elems]
      rw [oneByteGet]
      simp only [fa, fb, fc, hnz, Bool.false_eq_true, ↓reduceIte]
      by_cases hq : id == q
      · simp [hq]
      · simp only [hq, Bool.false_eq_true, ↓reduceIte, List.drop_left, ih hr, List.find?_cons]

theorem twoByteIDs_pads (k : Nat) : twoByteIDs (rep k 0) = .ok [] := by
  induction k with
  | zero => simp [rep, twoByteIDs]
  | succ k ih =>
    simp only [rep, List.replicate_succ]
    rw [twoByteIDs.eq_def]
    simpa [rep] using ih

theorem twoByteGet_pads (k : Nat) (q : UInt8) : twoByteGet (rep k 0) q = .ok none := by
  induction k with
  | zero => simp [rep, twoByteGet]
  | succ k ih =>
    simp only [rep, List.replicate_succ]
    rw [twoByteGet.eq_def]
    simpa [rep] using ih

theorem twoByteIDs_body (items : List Item) (k : Nat) (h : items.all Item.ok2 = true) :
    twoByteIDs (body2 items ++ rep k 0) = .ok ((elems items).map (·.id)) := by
  induction items with
  | nil => simpa [elems] using twoByteIDs_pads k
  | cons it r ih =>
    simp only [List.all_cons, Bool.and_eq_true] at h
    obtain ⟨hit, hr⟩ := h
    cases it with
    | pad =>
      simp only [body2_pad, List.cons_append, elems]
      rw [twoByteIDs.eq_def]
      simpa using ih hr
    | elem id d =>
      simp only [Item.ok2, Bool.and_eq_true, decide_eq_true_eq, bne_iff_ne, ne_eq] at hit
      obtain ⟨hid, h255⟩ := hit
      have hl : d.length.toUInt8.toNat = d.length := by simp [Nat.toUInt8]; omega
      have hid' : (id == 0) = false := by simpa using hid
      simp only [body2_elem, List.cons_append, List.append_assoc, elems]
      rw [twoByteIDs.eq_def]
      simp only [hid', Bool.false_eq_true, ↓reduceIte, hl, List.drop_left, ih hr, List.map_cons]

theorem twoByteGet_body (items : List Item) (k : Nat) (q : UInt8) (h : items.all Item.ok2 = true) :
    twoByteGet (body2 items ++ rep k 0) q = .ok (((elems items).find? (·.id == q)).map (·.payload)) := by
  induction items with
  | nil => simpa [elems] using twoByteGet_pads k q
  | cons it r ih =>
    simp only [List.all_cons, Bool.and_eq_true] at h
    obtain ⟨hit, hr⟩ := h
    cases it with
    | pad =>
      simp only [body2_pad, List.cons_append, elems]
      rw [twoByteGet.eq_def]
      simpa using ih hr
    | elem id d =>
      simp only [Item.ok2, Bool.and_eq_true, decide_eq_true_eq, bne_iff_ne, ne_eq] at hit
      obtain ⟨hid, h255⟩ := hit
      have hl : d.length.toUInt8.toNat = d.length := by simp [Nat.toUInt8]; omega
      have hid' : (id == 0) = false := by simpa using hid
      simp only [body2_elem, List.cons_append, List.append_assoc, elems]
      rw [twoByteGet.eq_def]
      simp only [hid', Bool.false_eq_true, ↓reduceIte, hl]
      by_cases hq : id == q
      ·        simp [hq]
      · simp only [hq, Bool.false_eq_true, ↓reduceIte, List.drop_left, ih hr, List.find?_cons]

end Rtp.Proofs.Wire
