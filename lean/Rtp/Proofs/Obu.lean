/-
  Rtp/Proofs/Obu.lean — OBU header parse/marshal are mutually inverse (C13, last sentence).
  Facts about single bytes are settled per byte (`forall_u8` + kernel evaluation, 256 cases each);
  the headers themselves are handled structurally.
-/
import Rtp.Go.Bits
import Rtp.Model.AV1Obs
namespace Rtp.Model.ObuLemmas
open Rtp Rtp.Model Rtp.Bits Rtp.Spec.Av1Rtp

/-! ### single bytes -/

theorem ext_marshal_parse : ∀ b : UInt8, (parseExtHdr b).marshal = b := by
  apply forall_u8; decide +kernel

theorem ext_parse_marshal_fin : ∀ (t : Fin 8) (s : Fin 4) (r : Fin 8),
    parseExtHdr (ExtHdr.marshal ⟨UInt8.ofNat t.val, UInt8.ofNat s.val, UInt8.ofNat r.val⟩)
      = ⟨UInt8.ofNat t.val, UInt8.ofNat s.val, UInt8.ofNat r.val⟩ := by decide +kernel

theorem ext_fields : ∀ b : UInt8,
    (parseExtHdr b).temporalID.toNat = b.toNat / 32 ∧
    (parseExtHdr b).spatialID.toNat = b.toNat / 8 % 4 ∧
    (parseExtHdr b).reserved3.toNat = b.toNat % 8 := by
  apply forall_u8; decide +kernel

theorem ext_parse_wf : ∀ b : UInt8, extWF (parseExtHdr b) = true := by
  apply forall_u8; decide +kernel

theorem u8_ofNat_toNat (x : UInt8) : UInt8.ofNat x.toNat = x := by simp

/-- marshal then parse, extension header with fields in range -/
theorem ext_parse_marshal (e : ExtHdr) (h : extWF e = true) : parseExtHdr e.marshal = e := by
  obtain ⟨t, s, r⟩ := e
  simp only [extWF, Bool.and_eq_true, decide_eq_true_eq] at h
  obtain ⟨⟨ht, hs⟩, hr⟩ := h
  have := ext_parse_marshal_fin ⟨t.toNat, by simpa using UInt8.lt_iff_toNat_lt.mp ht⟩
    ⟨s.toNat, by simpa using UInt8.lt_iff_toNat_lt.mp hs⟩
    ⟨r.toNat, by simpa using UInt8.lt_iff_toNat_lt.mp hr⟩
  simpa only [u8_ofNat_toNat] using this

/-- the first header byte as assembled by Marshal from a type and three flags -/
def mkByte0 (t : UInt8) (e s r : Bool) : UInt8 :=
  ((t &&& 0x0f) <<< 3) ||| (if e then 0x04 else 0) ||| (if s then 0x02 else 0) |||
  (if r then 0x01 else 0)

theorem byte0_eq (h : ObuHeader) : h.byte0 = mkByte0 h.type h.ext.isSome h.hasSize h.reserved1 := rfl

theorem byte0_fin : ∀ (t : Fin 16) (e s r : Bool),
    (mkByte0 (UInt8.ofNat t.val) e s r &&& 0x80 != 0) = false ∧
    (mkByte0 (UInt8.ofNat t.val) e s r &&& 0x78) >>> 3 = UInt8.ofNat t.val ∧
    (mkByte0 (UInt8.ofNat t.val) e s r &&& 0x04 != 0) = e ∧
    (mkByte0 (UInt8.ofNat t.val) e s r &&& 0x02 != 0) = s ∧
    (mkByte0 (UInt8.ofNat t.val) e s r &&& 0x01 != 0) = r := by decide +kernel

theorem byte0_fields (t : UInt8) (ht : t < 16) (e s r : Bool) :
    (mkByte0 t e s r &&& 0x80 != 0) = false ∧ (mkByte0 t e s r &&& 0x78) >>> 3 = t ∧
    (mkByte0 t e s r &&& 0x04 != 0) = e ∧ (mkByte0 t e s r &&& 0x02 != 0) = s ∧
    (mkByte0 t e s r &&& 0x01 != 0) = r := by
  have := byte0_fin ⟨t.toNat, by simpa using UInt8.lt_iff_toNat_lt.mp ht⟩ e s r
  simpa only [u8_ofNat_toNat] using this

/-- parse then marshal, first byte: a byte with the forbidden bit clear is rebuilt from its fields -/
theorem byte0_rebuild : ∀ b : UInt8, (b &&& 0x80 != 0) = false →
    mkByte0 ((b &&& 0x78) >>> 3) (b &&& 0x04 != 0) (b &&& 0x02 != 0) (b &&& 0x01 != 0) = b := by
  apply forall_u8; decide +kernel

/-- the fields of the first byte by arithmetic -/
theorem byte0_arith : ∀ b : UInt8,
    (b &&& 0x80 != 0) = !decide (b.toNat < 128) ∧
    ((b &&& 0x78) >>> 3).toNat = b.toNat / 8 % 16 ∧
    (b &&& 0x04 != 0) = (b.toNat / 4 % 2 == 1) ∧
    (b &&& 0x02 != 0) = (b.toNat / 2 % 2 == 1) ∧
    (b &&& 0x01 != 0) = (b.toNat % 2 == 1) ∧
    ((b &&& 0x78) >>> 3 < 16) := by
  apply forall_u8; decide +kernel

/-! ### headers -/

theorem marshal_length (h : ObuHeader) : h.marshal.length = h.size := by
  unfold ObuHeader.marshal ObuHeader.size; cases h.ext <;> simp

theorem size_pos (h : ObuHeader) : 1 ≤ h.size := by unfold ObuHeader.size; split <;> omega
theorem size_le (h : ObuHeader) : h.size ≤ 2 := by unfold ObuHeader.size; split <;> omega

/-- marshal then parse is the identity on headers with fields in range, whatever follows -/
theorem parse_marshal (h : ObuHeader) (hwf : hdrWF h = true) (rest : Bytes) :
    parseObuHeader (h.marshal ++ rest) = .ok h := by
  obtain ⟨t, e, s, r⟩ := h
  simp only [hdrWF, Bool.and_eq_true, decide_eq_true_eq] at hwf
  obtain ⟨ht, he⟩ := hwf
  cases e with
  | none =>
    obtain ⟨h1, h2, h3, h4, h5⟩ := byte0_fields t ht false s r
    simp only [ObuHeader.marshal, byte0_eq, Option.isSome_none, List.cons_append, List.nil_append,
      parseObuHeader, h1, h2, h3, h4, h5]
    simp
  | some e =>
    obtain ⟨h1, h2, h3, h4, h5⟩ := byte0_fields t ht true s r
    simp only [ObuHeader.marshal, byte0_eq, Option.isSome_some, List.cons_append, List.nil_append,
      parseObuHeader, h1, h2, h3, h4, h5]
    simp [ext_parse_marshal e he]

/-- parse then marshal gives back the bytes that were read -/
theorem marshal_parse (bs : Bytes) (h : ObuHeader) (hp : parseObuHeader bs = .ok h) :
    h.marshal = bs.take h.size := by
  match bs with
  | [] => simp [parseObuHeader] at hp
  | b0 :: rest =>
    simp only [parseObuHeader] at hp
    by_cases hf : (b0 &&& 0x80 != 0) = true
    · simp [hf] at hp
    · have hf' : (b0 &&& 0x80 != 0) = false := by simpa using hf
      have hb := byte0_rebuild b0 hf'
      simp only [hf'] at hp
      by_cases he : (b0 &&& 0x04 != 0) = true
      · match rest with
        | [] => simp [he] at hp
        | b1 :: rest' =>
          simp only [he, if_true] at hp
          have hp' := Res.ok.inj hp
          subst hp'
          simp only [ObuHeader.marshal, ObuHeader.size, byte0_eq, Option.isSome_some, if_true]
          rw [he] at hb
          simp [hb, ext_marshal_parse]
      · have he' : (b0 &&& 0x04 != 0) = false := by simpa using he
        simp only [he'] at hp
        have hp' := Res.ok.inj (by simpa using hp)
        subst hp'
        simp only [ObuHeader.marshal, ObuHeader.size, byte0_eq, Option.isSome_none]
        rw [he'] at hb
        simp [hb]

/-- whatever ParseOBUHeader returns has its fields in range -/
theorem parse_wf (bs : Bytes) (h : ObuHeader) (hp : parseObuHeader bs = .ok h) : hdrWF h = true := by
  match bs with
  | [] => simp [parseObuHeader] at hp
  | b0 :: rest =>
    simp only [parseObuHeader] at hp
    have ht := (byte0_arith b0).2.2.2.2.2
    split at hp
    · cases hp
    · split at hp
      · match rest, hp with
        | b1 :: _, hp =>
          have hp' := Res.ok.inj hp
          subst hp'
          simp [hdrWF, ht, ext_parse_wf]
      · have hp' := Res.ok.inj hp
        subst hp'
        simp [hdrWF, ht]

open Rtp.Pred.C13 in
/-- a successful parse: the input was readable and the fields are the div/mod fields of the bytes -/
theorem parse_fields (bs : Bytes) (h : ObuHeader) (hp : parseObuHeader bs = .ok h) :
    hdrReadable bs = true ∧ fieldsOK bs h = true := by
  match bs with
  | [] => simp [parseObuHeader] at hp
  | b0 :: rest =>
    simp only [parseObuHeader] at hp
    obtain ⟨a1, a2, a3, a4, a5, _⟩ := byte0_arith b0
    split at hp
    · cases hp
    · rename_i hf
      have hlt : b0.toNat < 128 := by
        rw [a1] at hf; simpa using hf
      split at hp
      · rename_i he
        match rest, hp with
        | b1 :: _, hp =>
          have hp' := Res.ok.inj hp
          subst hp'
          obtain ⟨e1, e2, e3⟩ := ext_fields b1
          rw [a3] at he
          simp only [beq_iff_eq] at he
          simp [hdrReadable, fieldsOK, hlt, a2, a4, a5, e1, e2, e3, he]
      · rename_i he
        have hp' := Res.ok.inj hp
        subst hp'
        rw [a3] at he
        have he' : b0.toNat / 4 % 2 = 0 := by
          have : b0.toNat / 4 % 2 < 2 := Nat.mod_lt _ (by omega)
          simp only [beq_iff_eq] at he; omega
        simp [hdrReadable, fieldsOK, hlt, a2, a4, a5, he']

open Rtp.Pred.C13 in
theorem parse_err (bs : Bytes) (e : Err) (hp : parseObuHeader bs = .err e) : hdrReadable bs = false := by
  match bs with
  | [] => rfl
  | b0 :: rest =>
    simp only [parseObuHeader] at hp
    obtain ⟨a1, _, a3, _⟩ := byte0_arith b0
    split at hp
    · rename_i hf
      rw [a1] at hf
      simp only [Bool.not_eq_eq_eq_not, Bool.not_true, decide_eq_false_iff_not] at hf
      simp [hdrReadable, hf]
    · split at hp
      · rename_i he
        match rest, hp with
        | [], _ =>
          rw [a3] at he
          simp only [beq_iff_eq] at he
          simp [hdrReadable, he]
      · cases hp

theorem parse_ne_panic (bs : Bytes) : parseObuHeader bs ≠ .panic := by
  match bs with
  | [] => simp [parseObuHeader]
  | b0 :: rest =>
    simp only [parseObuHeader]
    split
    · simp
    · split
      · cases rest <;> simp
      · simp

end Rtp.Model.ObuLemmas
