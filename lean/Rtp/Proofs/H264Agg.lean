/-
  Rtp/Proofs/H264Agg.lean — the aggregation claim of C10 ("SPS/PPS arrive as one STAP-A before the
  next unit") for the grouping the payloader model produces on paired streams.
-/
import Rtp.Proofs.H264History
namespace Rtp.Proofs.H264
open Rtp Rtp.Spec.Rfc6184 Rtp.Pred

def keepT (ts : List (Nat × Bytes)) : List (Nat × Bytes) := ts.filter (fun u => !isDropped u.2)

theorem keepT_map (ts : List (Nat × Bytes)) : (keepT ts).map (·.2) = keep (ts.map (·.2)) := by
  induction ts with
  | nil => rfl
  | cons t ts ih =>
    simp only [keepT, keep, List.filter_cons, List.map_cons] at *
    by_cases hd : isDropped t.2 = true
    · simp [hd, ih]
    · simp [hd, ih]

theorem aggCheck_not_sps (m : Nat) (a : Bytes) (r : List (Nat × Bytes)) (g : Bool × List Bytes)
    (h : isSps a = false) : aggCheck ((m, a) :: r) g = true := by
  unfold aggCheck
  split
  · rename_i heq
    simp at heq
    obtain ⟨⟨_, rfl⟩, _⟩ := heq
    simp [h]
  · rfl

theorem aggCheck_nil (g : Bool × List Bytes) : aggCheck [] g = true := rfl

theorem agg_all (ts : List (Nat × Bytes)) :
    (pairedF ((keepT ts).map (·.2)) = true → aggOkG (keepT ts) (stepsOut false (none, none) ts).1 = true) ∧
    (∀ s ms, afterSps ((keepT ts).map (·.2)) = true →
      aggOkG ((ms, s) :: keepT ts) (stepsOut false (some s, none) ts).1 = true) ∧
    (∀ s b ms mb, isSps b = false → afterPps ((keepT ts).map (·.2)) = true →
      aggOkG ((ms, s) :: (mb, b) :: keepT ts) (stepsOut false (some s, some b) ts).1 = true) := by
  induction ts with
  | nil => simp [keepT, stepsOut, aggOkG, afterSps, afterPps]
  | cons t ts ih =>
    obtain ⟨m, n⟩ := t
    obtain ⟨p0, p1, p2⟩ := ih
    by_cases hd : isDropped n = true
    · have hk : keepT ((m, n) :: ts) = keepT ts := by simp [keepT, hd]
      simp only [hk, stepsOut, stepOut, hd, if_true, List.nil_append]
      exact ⟨p0, p1, p2⟩
    · have hk : keepT ((m, n) :: ts) = (m, n) :: keepT ts := by simp [keepT, hd]
      simp only [hk, List.map_cons, stepsOut, stepOut, hd, Bool.false_eq_true, if_false]
      refine ⟨?_, ?_, ?_⟩
      · intro h
        rw [pairedF_cons] at h
        by_cases h7 : isSps n = true
        · simp only [h7, if_true, List.nil_append] at h ⊢
          exact p1 n m h
        · have h7' : isSps n = false := by simpa using h7
          simp only [h7, Bool.false_eq_true, if_false, Bool.and_eq_true, Bool.not_eq_true'] at h ⊢
          simp only [h.1, Bool.false_eq_true, if_false, List.cons_append, List.nil_append, aggOkG,
            aggCheck_not_sps m n _ _ h7', List.length_cons, List.length_nil, List.drop_succ_cons,
            List.drop_zero, Bool.true_and]
          exact p0 h.2
      · intro s ms h
        rw [afterSps_cons] at h
        simp only [Bool.and_eq_true] at h
        simp only [not_sps_of_pps n h.1, Bool.false_eq_true, if_false, h.1, if_true, List.nil_append]
        exact p2 s n ms m (not_sps_of_pps n h.1) h.2
      · intro s b ms mb hb h
        simp only [afterPps, Bool.and_eq_true, Bool.not_eq_true'] at h
        simp only [h.1.1, h.1.2, Bool.false_eq_true, if_false]
        by_cases hfit : 5 + s.length + b.length ≤ m
        · simp only [hfit, if_true, List.cons_append, List.nil_append, aggOkG, List.length_cons,
            List.length_nil, List.drop_succ_cons, List.drop_zero, aggCheck_not_sps m n _ _ h.1.1,
            Bool.true_and, Bool.and_eq_true]
          refine ⟨?_, p0 h.2⟩
          simp [aggCheck]
        · simp only [hfit, if_false, List.cons_append, List.nil_append, aggOkG, List.length_cons,
            List.length_nil, List.drop_succ_cons, List.drop_zero, aggCheck_not_sps m n _ _ h.1.1,
            aggCheck_not_sps mb b _ _ hb, Bool.true_and, Bool.and_eq_true]
          refine ⟨?_, p0 h.2⟩
          simp [aggCheck, hfit]

/-- paired streams: the model's grouping satisfies the aggregation claim -/
theorem agg_paired (ts : List (Nat × Bytes)) (h : paired (ts.map (·.2)) = true) :
    aggOkG (keepT ts) (stepsOut false (none, none) ts).1 = true := by
  apply (agg_all ts).1
  rw [keepT_map]
  exact h

end Rtp.Proofs.H264
