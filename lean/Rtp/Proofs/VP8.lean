/-
  Rtp/Proofs/VP8.lean — lemmas about the VP8 model: octet-level facts (kernel evaluation over at
  most 256 cases each), the "consumes exactly" calculus for the parse steps of VP8Packet.Unmarshal,
  and the decoder / truncation lemmas behind C11.
-/
import Rtp.Go.Bits
import Rtp.Pred.C11
namespace Rtp.Proofs.VP8
open Rtp Rtp.Model Rtp.Bits Rtp.Pred
open Rtp.Spec.Rfc7741

/-! ### quantifying over small ranges of machine integers -/

theorem forall_u8_lt (n : Nat) (P : UInt8 → Prop) (h : ∀ i : Fin n, P (UInt8.ofNat i.val)) :
    ∀ x : UInt8, x.toNat < n → P x := by
  intro x hx
  have := h ⟨x.toNat, hx⟩
  simpa using this

theorem forall_u16_lt (n : Nat) (P : UInt16 → Prop) (h : ∀ i : Fin n, P (UInt16.ofNat i.val)) :
    ∀ x : UInt16, x.toNat < n → P x := by
  intro x hx
  have := h ⟨x.toNat, hx⟩
  simpa using this

/-! ### octet facts -/

theorem ign48 : ∀ g : UInt8,
    g &&& 0x48 = bit ((g &&& 0x40) != 0) 0x40 ||| bit ((g &&& 0x08) != 0) 0x08 := by
  apply forall_u8; decide +kernel

theorem and0F_lt : ∀ g : UInt8, (g &&& 0x0F).toNat < 16 := by
  apply forall_u8; decide +kernel

theorem and1F_lt : ∀ g : UInt8, (g &&& 0x1F).toNat < 32 := by
  apply forall_u8; decide +kernel

theorem andE0_eq : ∀ g : UInt8,
    (g &&& (0xE0 : UInt8) = (g >>> (5 : UInt8)) <<< (5 : UInt8)) ∧ (g >>> (5 : UInt8)).toNat < 8 := by
  apply forall_u8; decide +kernel

/-- what the decoder extracts from a first octet `x|0|n|s|0|pid` with reserved bits `gg` -/
abbrev Octet0P (x n s : Bool) (pid gg : UInt8) : Prop :=
  ((bit x 0x80 ||| bit n 0x20 ||| bit s 0x10 ||| pid ||| gg) &&& 0x80) >>> 7 = bit x 1 ∧
  ((bit x 0x80 ||| bit n 0x20 ||| bit s 0x10 ||| pid ||| gg) &&& 0x20) >>> 5 = bit n 1 ∧
  ((bit x 0x80 ||| bit n 0x20 ||| bit s 0x10 ||| pid ||| gg) &&& 0x10) >>> 4 = bit s 1 ∧
  (bit x 0x80 ||| bit n 0x20 ||| bit s 0x10 ||| pid ||| gg) &&& 0x07 = pid ∧
  (((bit x 0x80 ||| bit n 0x20 ||| bit s 0x10 ||| pid ||| gg) &&& 0x10) != 0) = s

theorem octet0_fin : ∀ (x n s : Bool) (r1 r2 : Bool) (pid : Fin 8),
    Octet0P x n s (UInt8.ofNat pid.val) (bit r1 0x40 ||| bit r2 0x08) := by
  decide +kernel

theorem octet0_fields (x n s : Bool) (pid g : UInt8) (hp : pid < 8) :
    Octet0P x n s pid (g &&& 0x48) := by
  rw [ign48 g]
  exact forall_u8_lt 8 (fun pid => Octet0P x n s pid _) (octet0_fin x n s _ _) pid
    (UInt8.lt_iff_toNat_lt.mp hp)

/-- the X octet -/
abbrev OctetXP (i l t k : Bool) (m : UInt8) : Prop :=
  ((bit i 0x80 ||| bit l 0x40 ||| bit t 0x20 ||| bit k 0x10 ||| m) &&& 0x80) >>> 7 = bit i 1 ∧
  ((bit i 0x80 ||| bit l 0x40 ||| bit t 0x20 ||| bit k 0x10 ||| m) &&& 0x40) >>> 6 = bit l 1 ∧
  ((bit i 0x80 ||| bit l 0x40 ||| bit t 0x20 ||| bit k 0x10 ||| m) &&& 0x20) >>> 5 = bit t 1 ∧
  ((bit i 0x80 ||| bit l 0x40 ||| bit t 0x20 ||| bit k 0x10 ||| m) &&& 0x10) >>> 4 = bit k 1

theorem octetX_fin : ∀ (i l t k : Bool) (m : Fin 16), OctetXP i l t k (UInt8.ofNat m.val) := by
  decide +kernel

theorem octetX_fields (i l t k : Bool) (g : UInt8) : OctetXP i l t k (g &&& 0x0F) :=
  forall_u8_lt 16 (fun m => OctetXP i l t k m) (octetX_fin i l t k) (g &&& 0x0F) (and0F_lt g)

/-- the T/K octet: TID and Y -/
abbrev OctetTP (t : UInt8) (y : Bool) (m : UInt8) : Prop :=
  ((t <<< 6) ||| bit y 0x20 ||| m) >>> 6 = t ∧ (((t <<< 6) ||| bit y 0x20 ||| m) >>> 5) &&& 0x1 = bit y 1 ∧
  ((t <<< 6) ||| bit y 0x20 ||| m) &&& 0x1F = m

theorem octetT_fin : ∀ (y : Bool) (m : Fin 32) (t : Fin 4),
    OctetTP (UInt8.ofNat t.val) y (UInt8.ofNat m.val) := by
  decide +kernel

theorem octetT_fields (t : UInt8) (y : Bool) (m : UInt8) (ht : t < 4) (hm : m.toNat < 32) :
    OctetTP t y m := by
  refine forall_u8_lt 32 (fun m => OctetTP t y m) (fun m => ?_) m hm
  exact forall_u8_lt 4 (fun t => OctetTP t y _) (octetT_fin y m) t (UInt8.lt_iff_toNat_lt.mp ht)

/-- the T/K octet, K only: the three high bits are ignored -/
abbrev OctetKP (j k : UInt8) : Prop := ((j <<< (5 : UInt8)) ||| k) &&& 0x1F = k

theorem octetK_fin : ∀ (j : Fin 8) (k : Fin 32), OctetKP (UInt8.ofNat j.val) (UInt8.ofNat k.val) := by
  decide +kernel

theorem octetK_fields (k g : UInt8) (hk : k < 32) : ((g &&& 0xE0) ||| k) &&& 0x1F = k := by
  rw [(andE0_eq g).1]
  refine forall_u8_lt 8 (fun j => OctetKP j k) (fun j => ?_) (g >>> (5 : UInt8)) (andE0_eq g).2
  exact forall_u8_lt 32 (fun k => OctetKP _ k) (octetK_fin j) k (UInt8.lt_iff_toNat_lt.mp hk)

/-- 7-bit picture id -/
abbrev Pic7P (v : UInt16) : Prop := ((v.toUInt8 &&& 0x80 > 0) = False) ∧ v.toUInt8.toUInt16 = v

theorem pic7_fin : ∀ v : Fin 128, Pic7P (UInt16.ofNat v.val) := by
  decide +kernel

theorem pic7 (v : UInt16) (hv : v < 128) : Pic7P v :=
  forall_u16_lt 128 Pic7P pic7_fin v (UInt16.lt_iff_toNat_lt.mp hv)

/-- 15-bit picture id: the high octet -/
abbrev Pic15HiP (h : UInt8) : Prop :=
  (((0x80 : UInt8) ||| h) &&& 0x80 > 0) ∧ ((0x80 : UInt8) ||| h) &&& 0x7F = h

theorem pic15_hi_fin : ∀ h : Fin 128, Pic15HiP (UInt8.ofNat h.val) := by
  decide +kernel

theorem shr8_lt (v : UInt16) (hv : v < 32768) : (v >>> 8).toUInt8.toNat < 128 := by
  have h := UInt16.lt_iff_toNat_lt.mp hv
  simp only [UInt16.toNat_toUInt8, UInt16.toNat_shiftRight, UInt16.reduceToNat] at h ⊢
  rw [Nat.shiftRight_eq_div_pow]
  simp at h ⊢
  omega

theorem join16 (v : UInt16) : ((v >>> 8).toUInt8.toUInt16 <<< 8) ||| v.toUInt8.toUInt16 = v := by
  apply UInt16.toNat_inj.mp
  simp only [UInt16.toNat_or, UInt16.toNat_shiftLeft, UInt8.toNat_toUInt16, UInt16.toNat_toUInt8,
    UInt16.toNat_shiftRight, UInt16.reduceToNat]
  have hv := v.toNat_lt
  rw [Nat.shiftRight_eq_div_pow, Nat.shiftLeft_eq]
  simp only [Nat.reduceMod, Nat.reducePow] at *
  have h1 : v.toNat / 256 % 256 = v.toNat / 256 := Nat.mod_eq_of_lt (by omega)
  rw [h1, Nat.mod_eq_of_lt (by omega)]
  have := nat_shl_or (v.toNat / 256) (v.toNat % 256) 8 (by omega)
  rw [Nat.shiftLeft_eq] at this
  simp only [Nat.reducePow] at this
  rw [this]; omega

theorem pic15 (v : UInt16) (hv : v < 32768) :
    ((((0x80 : UInt8) ||| (v >>> 8).toUInt8) &&& 0x80 > 0)) ∧
    ((((0x80 : UInt8) ||| (v >>> 8).toUInt8) &&& 0x7F).toUInt16 <<< 8) ||| v.toUInt8.toUInt16 = v := by
  have h := forall_u8_lt 128 Pic15HiP pic15_hi_fin (v >>> 8).toUInt8 (shr8_lt v hv)
  refine ⟨h.1, ?_⟩
  rw [h.2]; exact join16 v

/-! ### "consumes exactly" -/

/-- step `f`, started in `p`, consumes exactly the octets `a` (whatever follows) ending in `p'`,
    and fails on every strict prefix of `a` -/
def Exact (f : VP8Step) (p : VP8Packet) (a : Bytes) (p' : VP8Packet) : Prop :=
  (∀ t, f p (a ++ t) = (some t, p')) ∧ (∀ a' c, a = a' ++ c → c ≠ [] → (f p a').1 = none)

theorem Exact.andThen {f g : VP8Step} {p p' p'' : VP8Packet} {a b : Bytes}
    (hf : Exact f p a p') (hg : Exact g p' b p'') : Exact (f.andThen g) p (a ++ b) p'' := by
  constructor
  · intro t
    simp only [VP8Step.andThen, List.append_assoc, hf.1 (b ++ t), hg.1 t]
  · intro a' c h hc
    have key : ∀ b', b = b' ++ c → ((f.andThen g) p (a ++ b')).1 = none := by
      intro b' hb
      have := hg.2 b' c hb hc
      simp only [VP8Step.andThen, hf.1 b']
      exact this
    rcases List.append_eq_append_iff.mp h with ⟨b', rfl, hb⟩ | ⟨c', ha, hc'⟩
    · exact key b' hb
    · by_cases hc0 : c' = []
      · subst hc0
        simp only [List.append_nil] at ha
        subst ha
        have := key [] (by simpa using hc'.symm)
        simpa using this
      · have := hf.2 a' c' ha hc0
        simp only [VP8Step.andThen]
        cases hfa : f p a' with
        | mk r q =>
          rw [hfa] at this
          simp only at this
          subst this
          rfl

/-- strict prefixes of the empty string: none -/
theorem prefix0 {a' c : Bytes} (h : ([] : Bytes) = a' ++ c) (hc : c ≠ []) : False := by
  have := congrArg List.length h
  simp only [List.length_nil, List.length_append] at this
  exact hc (List.length_eq_zero_iff.mp (by omega))

/-- strict prefixes of a one-octet string: the empty one -/
theorem prefix1 {b : UInt8} {a' c : Bytes} (h : [b] = a' ++ c) (hc : c ≠ []) : a' = [] := by
  cases a' with
  | nil => rfl
  | cons b' r =>
    have := congrArg List.length h
    simp only [List.length_nil, List.length_cons, List.length_append] at this
    have : c.length = 0 := by omega
    exact absurd (List.length_eq_zero_iff.mp this) hc

/-- strict prefixes of a two-octet string -/
theorem prefix2 {b1 b2 : UInt8} {a' c : Bytes} (h : [b1, b2] = a' ++ c) (hc : c ≠ []) :
    a' = [] ∨ a' = [b1] := by
  match a', h with
  | [], _ => exact Or.inl rfl
  | [x], h =>
    simp at h
    exact Or.inr (by rw [h.1])
  | x :: y :: r, h =>
    have := congrArg List.length h
    simp only [List.length_nil, List.length_cons, List.length_append] at this
    have : c.length = 0 := by omega
    exact absurd (List.length_eq_zero_iff.mp this) hc

theorem exact_X (p : VP8Packet) (x i l t k : Bool) (g : UInt8) (hX : p.X = bit x 1)
    (h0 : x = false → i = false ∧ l = false ∧ t = false ∧ k = false) :
    Exact vp8StepX p
      (if x then [bit i 0x80 ||| bit l 0x40 ||| bit t 0x20 ||| bit k 0x10 ||| (g &&& 0x0F)] else [])
      { p with I := bit i 1, L := bit l 1, T := bit t 1, K := bit k 1 } := by
  cases x
  · obtain ⟨rfl, rfl, rfl, rfl⟩ := h0 rfl
    constructor
    · intro t; simp [vp8StepX, hX, bit]
    · intro a' c h hc
      exact (prefix0 (by simpa using h) hc).elim
  · have hf := octetX_fields i l t k g
    constructor
    · intro tl
      simp [vp8StepX, hX, bit] at hf ⊢
      exact hf
    · intro a' c h hc
      have := prefix1 (by simpa using h) hc
      subst this
      simp [vp8StepX, hX, bit]

def PicWF : Option (Bool × UInt16) → Prop
  | none => True
  | some (false, v) => v < 128
  | some (true, v) => v < 32768

def TidWF : Option (UInt8 × Bool) → Prop
  | none => True
  | some (t, _) => t < 4

def KxWF : Option UInt8 → Prop
  | none => True
  | some k => k < 32

theorem exact_I (p : VP8Packet) (pic : Option (Bool × UInt16)) (hI : p.I = bit pic.isSome 1)
    (hwf : PicWF pic) :
    Exact vp8StepI p (encPicId pic)
      { p with PictureID := C11.picVal pic } := by
  rcases pic with _ | ⟨_ | _, v⟩
  · constructor
    · intro t; simp [C11.picVal, vp8StepI, hI, bit, encPicId]
    · intro a' c h hc
      exact (prefix0 (by simpa [encPicId] using h) hc).elim
  · have hp := pic7 v hwf
    constructor
    · intro t
      simp [C11.picVal, vp8StepI, hI, bit, encPicId, hp.1, hp.2]
    · intro a' c h hc
      have := prefix1 (by simpa [encPicId] using h) hc
      subst this
      simp [vp8StepI, hI, bit]
  · have hp := pic15 v hwf
    constructor
    · intro t
      have h2 := hp.2
      simp at h2
      simp [C11.picVal, vp8StepI, hI, bit, encPicId, hp.1, h2]
    · intro a' c h hc
      rcases prefix2 (by simpa [encPicId] using h) hc with rfl | rfl
      · simp [vp8StepI, hI, bit]
      · simp [vp8StepI, hI, bit, hp.1]

theorem exact_L (p : VP8Packet) (tl0 : Option UInt8) (hL : p.L = bit tl0.isSome 1) :
    Exact vp8StepL p (encTl0 tl0) { p with TL0PICIDX := tl0.getD 0 } := by
  cases tl0 with
  | none =>
    constructor
    · intro t; simp [vp8StepL, hL, bit, encTl0]
    · intro a' c h hc
      exact (prefix0 (by simpa [encTl0] using h) hc).elim
  | some v =>
    constructor
    · intro t; simp [vp8StepL, hL, bit, encTl0]
    · intro a' c h hc
      have := prefix1 (by simpa [encTl0] using h) hc
      subst this
      simp [vp8StepL, hL, bit]

theorem exact_TK (p : VP8Packet) (tid : Option (UInt8 × Bool)) (kx : Option UInt8) (g : UInt8)
    (hT : p.T = bit tid.isSome 1) (hK : p.K = bit kx.isSome 1)
    (hwt : TidWF tid) (hwk : KxWF kx) :
    Exact vp8StepTK p (encTK tid kx g)
      { p with TID := C11.tidVal tid,
               Y := C11.yVal tid,
               KEYIDX := kx.getD 0 } := by
  rcases tid with _ | ⟨t, y⟩ <;> rcases kx with _ | k
  · constructor
    · intro t; simp [C11.tidVal, C11.yVal, vp8StepTK, hT, hK, bit, encTK]
    · intro a' c h hc
      exact (prefix0 (by simpa [encTK] using h) hc).elim
  · have hf := octetK_fields k g hwk
    constructor
    · intro tl
      simp [C11.tidVal, C11.yVal, vp8StepTK, hT, hK, bit, encTK, hf]
    · intro a' c h hc
      have := prefix1 (by simpa [encTK] using h) hc
      subst this
      simp [vp8StepTK, hT, hK, bit]
  · have hf := octetT_fields t y (g &&& 0x1F) hwt (and1F_lt g)
    constructor
    · intro tl
      simp [C11.tidVal, C11.yVal, vp8StepTK, hT, hK, bit, encTK] at hf ⊢
      exact ⟨hf.1, hf.2.1⟩
    · intro a' c h hc
      have := prefix1 (by simpa [encTK] using h) hc
      subst this
      simp [vp8StepTK, hT, hK, bit]
  · have hf := octetT_fields t y k hwt (UInt8.lt_iff_toNat_lt.mp hwk)
    constructor
    · intro tl
      simp [C11.tidVal, C11.yVal, vp8StepTK, hT, hK, bit, encTK] at hf ⊢
      exact hf
    · intro a' c h hc
      have := prefix1 (by simpa [encTK] using h) hc
      subst this
      simp [vp8StepTK, hT, hK, bit]

/-! ### the whole descriptor -/

/-- the octets of a descriptor after the first one -/
def descTail (d : Descriptor) : Bytes :=
  (if d.x then [bit d.picId.isSome 0x80 ||| bit d.tl0.isSome 0x40 ||| bit d.tid.isSome 0x20 |||
      bit d.keyidx.isSome 0x10 ||| (d.ignX &&& 0x0F)] else []) ++
  (encPicId d.picId ++ (encTl0 d.tl0 ++ encTK d.tid d.keyidx d.ignTK))

structure WFP (d : Descriptor) : Prop where
  pid : d.pid < 8
  nox : d.x = false → d.picId = none ∧ d.tl0 = none ∧ d.tid = none ∧ d.keyidx = none
  pic : PicWF d.picId
  tid : TidWF d.tid
  kx : KxWF d.keyidx

theorem wfp_of_wf (d : Descriptor) (h : d.WF = true) : WFP d := by
  simp only [Descriptor.WF, Bool.and_eq_true, decide_eq_true_eq, Bool.or_eq_true,
    Option.isNone_iff_eq_none] at h
  obtain ⟨⟨⟨⟨h1, h2⟩, h3⟩, h4⟩, h5⟩ := h
  refine ⟨h1, ?_, ?_, ?_, ?_⟩
  · intro hx
    rcases h2 with h2 | h2
    · rw [hx] at h2; exact absurd h2 (by simp)
    · exact ⟨h2.1.1.1, h2.1.1.2, h2.1.2, h2.2⟩
  · rcases hp : d.picId with _ | ⟨_ | _, v⟩ <;> simp [hp, PicWF] at h3 ⊢ <;> exact h3
  · rcases hp : d.tid with _ | ⟨t, y⟩ <;> simp [hp, TidWF] at h4 ⊢ ; exact h4
  · rcases hp : d.keyidx with _ | k <;> simp [hp, KxWF] at h5 ⊢ ; exact h5

theorem encode_eq (d : Descriptor) (w : WFP d) :
    d.encode = (bit d.x 0x80 ||| bit d.n 0x20 ||| bit d.s 0x10 ||| d.pid ||| (d.ign0 &&& 0x48)) :: descTail d := by
  unfold Descriptor.encode descTail
  cases hx : d.x
  · obtain ⟨h1, h2, h3, h4⟩ := w.nox hx
    simp [h1, h2, h3, h4, encPicId, encTl0, encTK]
  · simp

theorem steps_exact (d : Descriptor) (w : WFP d) (p : VP8Packet) (hX : p.X = bit d.x 1) :
    Exact (vp8StepX.andThen (vp8StepI.andThen (vp8StepL.andThen vp8StepTK))) p (descTail d)
      { p with I := bit d.picId.isSome 1, L := bit d.tl0.isSome 1, T := bit d.tid.isSome 1,
               K := bit d.keyidx.isSome 1,
               PictureID := C11.picVal d.picId,
               TL0PICIDX := d.tl0.getD 0,
               TID := C11.tidVal d.tid,
               Y := C11.yVal d.tid,
               KEYIDX := d.keyidx.getD 0 } := by
  unfold descTail
  let p1 : VP8Packet := { p with I := bit d.picId.isSome 1, L := bit d.tl0.isSome 1,
                                 T := bit d.tid.isSome 1, K := bit d.keyidx.isSome 1 }
  let p2 : VP8Packet := { p1 with PictureID := C11.picVal d.picId }
  let p3 : VP8Packet := { p2 with TL0PICIDX := d.tl0.getD 0 }
  have hx : Exact vp8StepX p _ p1 := exact_X p d.x _ _ _ _ d.ignX hX (by
    intro hx
    obtain ⟨h1, h2, h3, h4⟩ := w.nox hx
    simp [h1, h2, h3, h4])
  have hi : Exact vp8StepI p1 _ p2 := exact_I p1 d.picId rfl w.pic
  have hl : Exact vp8StepL p2 _ p3 := exact_L p2 d.tl0 rfl
  have ht := exact_TK p3 d.tid d.keyidx d.ignTK rfl rfl w.tid w.kx
  exact Exact.andThen hx (Exact.andThen hi (Exact.andThen hl ht))

/-- the decoder on a complete descriptor followed by anything, from ANY receiver state -/
theorem unmarshal_encode (d : Descriptor) (hwf : d.WF = true) (p : VP8Packet) (payload : Bytes) :
    vp8Unmarshal p (some (d.encode ++ payload)) = (.ok payload, C11.expected d) := by
  have w := wfp_of_wf d hwf
  have h0 := octet0_fields d.x d.n d.s d.pid d.ign0 w.pid
  rw [encode_eq d w]
  simp only [List.cons_append, vp8Unmarshal]
  have := (steps_exact d w
    { p with X := bit d.x 1, N := bit d.n 1, S := bit d.s 1, PID := d.pid } rfl).1 payload
  simp only [h0.1, h0.2.1, h0.2.2.1, h0.2.2.2.1, this]
  rfl

/-- cut anywhere inside the descriptor: errShortPacket, from any receiver state -/
theorem unmarshal_truncated (d : Descriptor) (hwf : d.WF = true) (p : VP8Packet) (k : Nat)
    (hk : k < d.encode.length) : (vp8Unmarshal p (some (d.encode.take k))).1 = .err .short := by
  have w := wfp_of_wf d hwf
  have h0 := octet0_fields d.x d.n d.s d.pid d.ign0 w.pid
  rw [encode_eq d w] at hk ⊢
  cases k with
  | zero => simp [vp8Unmarshal]
  | succ k =>
    simp only [List.take_succ_cons, vp8Unmarshal]
    have hk' : k < (descTail d).length := by simpa using hk
    have := (steps_exact d w
      { p with X := bit d.x 1, N := bit d.n 1, S := bit d.s 1, PID := d.pid } rfl).2
        ((descTail d).take k) ((descTail d).drop k) (List.take_append_drop k _).symm
        (by
          intro h
          have := congrArg List.length h
          simp at this
          omega)
    simp only [h0.1, h0.2.1, h0.2.2.1, h0.2.2.2.1]
    generalize hres : (vp8StepX.andThen (vp8StepI.andThen (vp8StepL.andThen vp8StepTK)))
      { p with X := bit d.x 1, N := bit d.n 1, S := bit d.s 1, PID := d.pid } ((descTail d).take k) = res at this
    obtain ⟨r, q⟩ := res
    simp only at this
    subst this
    rfl

/-- IsPartitionHead reads the S bit -/
theorem head_encode (d : Descriptor) (hwf : d.WF = true) (payload : Bytes) :
    vp8IsPartitionHead (some (d.encode ++ payload)) = d.s := by
  have w := wfp_of_wf d hwf
  have h0 := octet0_fields d.x d.n d.s d.pid d.ign0 w.pid
  rw [encode_eq d w]
  simp only [List.cons_append, vp8IsPartitionHead]
  exact h0.2.2.2.2

end Rtp.Proofs.VP8
