/-
  Rtp/Proofs/PacketParseObs.lean — from the parser lemmas (PacketParse.lean) to the observation level
  of Rtp/Pred/C02.lean: the model's observation does not depend on the receiver, and it satisfies
  the executable predicate.
-/
import Rtp.Proofs.PacketParse
namespace Rtp.Proofs.PacketParse
open Rtp Rtp.Model Rtp.Pred.C02 Rtp.Pred

/-! ### the receiver is not observable -/

theorem canonH_withProfile (p : UInt16) (h : Header) : C01.canonH (withProfile p h) = C01.canonH h := by
  unfold C01.canonH withProfile
  cases hx : h.extension <;> simp [hx]

theorem mkHdrOk_withProfile (p : UInt16) (h : Header) (n : Nat) (locs : List Nat) :
    mkHdrOk (withProfile p h, n, locs) = mkHdrOk (h, n, locs) := by
  have h1 : (withProfile p h).exts = h.exts := by unfold withProfile; split <;> rfl
  have h2 : (withProfile p h).extension = h.extension := by unfold withProfile; split <;> rfl
  have h3 : getExtension (withProfile p h) = getExtension h := by
    funext id; simp only [getExtension, h1, h2]
  simp only [mkHdrOk, canonH_withProfile, getExtensionIDs, h1, h2, h3]

theorem mkPktOk_withProfile (pr : UInt16) (p : Packet) (n : Nat) (locs : List Nat) :
    mkPktOk ({ p with header := withProfile pr p.header }, n, locs) = mkPktOk (p, n, locs) := by
  have h1 : (withProfile pr p.header).exts = p.header.exts := by unfold withProfile; split <;> rfl
  have h2 : (withProfile pr p.header).extension = p.header.extension := by
    unfold withProfile; split <;> rfl
  have h3 : getExtension (withProfile pr p.header) = getExtension p.header := by
    funext id; simp only [getExtension, h1, h2]
  simp only [mkPktOk, C01.canonP, canonH_withProfile, getExtensionIDs, h1, h2, h3]

/-- the whole observation of a receiver pair equals that of zero-valued receivers -/
theorem modelRecv_receiver (rh : Header) (rp : Packet) (buf : Bytes) :
    modelRecv rh rp buf = modelRecv {} {} buf := by
  unfold modelRecv
  rw [hdrUnmarshalL_receiver rh buf, pktUnmarshalL_receiver rp buf]
  congr 1
  · cases hdrUnmarshalL {} buf with
    | err e => rfl
    | panic => rfl
    | ok x => obtain ⟨h, n, locs⟩ := x; simp only [Res.map, Res.coarse, mkHdrOk_withProfile]
  · cases pktUnmarshalL {} buf with
    | err e => rfl
    | panic => rfl
    | ok x => obtain ⟨p, n, locs⟩ := x; simp only [Res.map, Res.coarse, mkPktOk_withProfile]

/-! ### located elements satisfy the executable check -/

theorem locsOk_of_located (buf : Bytes) (n : Nat) :
    ∀ (exts : List Ext) (locs : List Nat), locs.length = exts.length →
      (∀ x ∈ exts.zip locs, LocIn buf 16 n x) → locsOk buf n exts (canonLocs exts locs) = true := by
  intro exts
  induction exts with
  | nil => intro locs hl _; cases locs <;> simp_all [canonLocs, locsOk]
  | cons e es ih =>
    intro locs hl h
    cases locs with
    | nil => simp at hl
    | cons o os =>
      have he := h (e, o) (by simp)
      have hrest := ih os (by simpa using hl) (fun x hx => h x (by simp [hx]))
      obtain ⟨_, h2, h3⟩ := he
      simp only [canonLocs, locsOk, hrest, Bool.and_true, canonLoc]
      by_cases hz : e.payload.length = 0
      · have : e.payload = [] := List.eq_nil_of_length_eq_zero hz
        simp [this]
      · simp only [hz, if_false, Bool.or_eq_true, Bool.and_eq_true, decide_eq_true_eq, beq_iff_eq]
        right
        simp only [Int.toNat_natCast]
        exact ⟨⟨Int.natCast_nonneg _, h2⟩, h3⟩

theorem canonH_exts (h : Header) : (C01.canonH h).exts = h.exts := by
  unfold C01.canonH; split <;> rfl

theorem hdrHolds_model (r : Header) (buf : Bytes) :
    hdrHolds buf ((hdrUnmarshalL r buf).map mkHdrOk).coarse = true := by
  cases hh : hdrUnmarshalL r buf with
  | err e => rfl
  | panic =>
    have := hdrUnmarshal_ne_panic r buf
    rw [← hdrUnmarshalL_fst, hh] at this
    exact absurd rfl this
  | ok x =>
    obtain ⟨h, n, locs⟩ := x
    obtain ⟨_, h2, h3, h4, _⟩ := hdrUnmarshalL_bounds r buf h n locs hh
    simp only [Res.map, Res.coarse, hdrHolds, mkHdrOk, canonH_exts, Bool.and_eq_true, decide_eq_true_eq]
    exact ⟨h2, locsOk_of_located buf n h.exts locs h3 h4⟩

theorem recvHolds_model (rh : Header) (rp : Packet) (hr : rp.header = rh) (buf : Bytes) :
    recvHolds buf (modelRecv rh rp buf) = true := by
  simp only [recvHolds, modelRecv, hdrHolds_model, Bool.true_and]
  cases hp : pktUnmarshalL rp buf with
  | err e => rfl
  | panic =>
    have := pktUnmarshal_ne_panic rp buf
    rw [← pktUnmarshalL_fst, hp] at this
    exact absurd rfl this
  | ok x =>
    obtain ⟨p, n, locs⟩ := x
    obtain ⟨hh, hsum, hpay⟩ := pktUnmarshalL_bounds rp buf p n locs hp
    rw [hr] at hh
    obtain ⟨_, _, h3, h4, _⟩ := hdrUnmarshalL_bounds rh buf p.header n locs hh
    simp only [hh, Res.map, Res.coarse, pktHolds, mkHdrOk, mkPktOk, C01.canonP, canonH_exts,
      Bool.and_eq_true, beq_iff_eq, Bool.or_eq_true]
    refine ⟨⟨⟨hsum, hpay⟩, ?_⟩, locsOk_of_located buf n p.header.exts locs h3 h4⟩
    by_cases hz : p.payload.length = 0
    · left; simp [List.eq_nil_of_length_eq_zero hz]
    · right; simp [canonLoc, hz]

end Rtp.Proofs.PacketParse
