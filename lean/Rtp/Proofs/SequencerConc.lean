/-
  Rtp/Proofs/SequencerConc.lean — the invariant of the small-step interleaving semantics of
  Rtp/Model/Sequencer.lean (C07, `c07_interleaving`).

  Invariant, in words: replaying the log `lin` (calls in unlock order) on the sequential model
  from the initial state succeeds and ends in a state σ such that — when the mutex is free the
  shared fields ARE σ; when thread i holds it they are what i's progress through the method body
  makes of σ.  Tickets: every logged call drew `before` before any later-logged call drew `after`.
-/
import Rtp.Model.Sequencer
import Rtp.Pred.C07
namespace Rtp.Proofs.SequencerConc
open Rtp Rtp.Model Rtp.Model.SeqConc Rtp.Spec.Counter Rtp.Pred.C07

/-! ### list facts -/

theorem map_modify_of_proj {α β} (proj : α → β) (f : α → α) (hf : ∀ a, proj (f a) = proj a)
    (l : List α) (k : Nat) : (l.modify k f).map proj = l.map proj := by
  apply List.ext_getElem
  · simp
  · intro j h1 h2
    simp only [List.getElem_map, List.getElem_modify]
    split <;> simp [hf]

/-! ### replaying a log on the sequential model -/

def key (c : SeqCall) : Op × Nat := (c.op, c.res)

def replayK (s : SeqState) : List (Op × Nat) → Option SeqState
  | [] => some s
  | (op, r) :: cs => if r = (s.step op).1 then replayK (s.step op).2 cs else none

theorem replayK_append (s : SeqState) (l : List (Op × Nat)) (op : Op) (r : Nat) :
    replayK s (l ++ [(op, r)]) =
      (replayK s l).bind fun σ => if r = (σ.step op).1 then some (σ.step op).2 else none := by
  induction l generalizing s with
  | nil => simp [replayK]
  | cons c cs ih =>
    obtain ⟨o, r'⟩ := c
    simp only [List.cons_append, replayK]
    split
    · exact ih _
    · rfl

theorem replayOk_of_replayK (s : SeqState) (L : List SeqCall) (σ : SeqState)
    (h : replayK s (L.map key) = some σ) : replayOk s L = true := by
  induction L generalizing s with
  | nil => rfl
  | cons c cs ih =>
    simp only [List.map_cons, key, replayK] at h
    split at h
    · rename_i hr
      simp only [replayOk, hr, beq_self_eq_true, Bool.true_and]
      exact ih _ h
    · cases h

theorem replayOk_run (s : SeqState) (L : List SeqCall) (h : replayOk s L = true) :
    L.map (·.res) = s.run (L.map (·.op)) := by
  induction L generalizing s with
  | nil => rfl
  | cons c cs ih =>
    simp only [replayOk, Bool.and_eq_true, beq_iff_eq] at h
    simp only [List.map_cons, SeqState.run, h.1, ih _ h.2]

/-! ### real-time order -/

theorem rtOk_iff (m : Nat) (L : List SeqCall) :
    rtOk m L = true ↔ (∀ c ∈ L, m < c.after) ∧ L.Pairwise (fun a b => a.before < b.after) := by
  induction L generalizing m with
  | nil => simp [rtOk]
  | cons c cs ih =>
    simp only [rtOk, Bool.and_eq_true, decide_eq_true_eq, ih, List.mem_cons, forall_eq_or_imp,
      List.pairwise_cons]
    constructor
    · rintro ⟨h1, h2, h3⟩
      exact ⟨⟨h1, fun d hd => by have := h2 d hd; omega⟩, fun d hd => by have := h2 d hd; omega, h3⟩
    · rintro ⟨⟨h1, h2⟩, h3, h4⟩
      exact ⟨h1, fun d hd => by have := h2 d hd; have := h3 d hd; omega, h4⟩

/-! ### the invariant -/

def inCS : PC → Bool
  | .locked _ | .gotSeq _ _ | .wrote _ | .rocRead _ | .rocGot _ _ | .retRead _ | .ready _ _ => true
  | _ => false

/-- the `before` ticket a thread is holding (0: none) -/
def ticket : PC → Nat
  | .called b | .locked b | .gotSeq b _ | .wrote b | .rocRead b | .rocGot b _ | .retRead b | .ready b _ => b
  | _ => 0

/-- what the lock holder's progress through the method body has made of the state σ it found -/
def CSRel (t : Thread) (σ st : SeqState) : Prop :=
  match t.pc, t.todo with
  | .locked _, _ :: _ => st = σ
  | .gotSeq _ v, .next :: _ => st = σ ∧ v = σ.seq
  | .wrote _, .next :: _ => st = { seq := σ.seq + 1, roc := σ.roc }
  | .rocRead _, .next :: _ => st = { seq := σ.seq + 1, roc := σ.roc } ∧ σ.seq + 1 = 0
  | .rocGot _ t, .next :: _ => st = { seq := σ.seq + 1, roc := σ.roc } ∧ σ.seq + 1 = 0 ∧ t = σ.roc
  | .retRead _, .next :: _ => st = σ.next.2
  | .ready _ res, op :: _ => st = (σ.step op).2 ∧ res = (σ.step op).1
  | _, _ => False

theorem CSRel_inCS {t : Thread} {σ st : SeqState} (h : CSRel t σ st) : inCS t.pc = true := by
  unfold CSRel at h
  split at h <;> simp_all [inCS]

def Shared (s : Sys) (σ : SeqState) : Prop :=
  match s.holder with
  | none => s.st = σ
  | some h => CSRel (s.thr h) σ s.st

structure Inv (s0 : SeqState) (s : Sys) : Prop where
  replay : ∃ σ, replayK s0 (s.lin.map key) = some σ ∧ Shared s σ
  mutex : ∀ j, inCS (s.thr j).pc = true → s.holder = some j
  tick : ∀ j, ticket (s.thr j).pc ≤ s.clock
  stamps : ∀ m (h : m < s.lin.length), s.lin[m].before ≤ s.clock ∧ s.lin[m].after ≤ s.clock ∧
    (s.lin[m].after ≠ 0 → s.lin[m].before < s.lin[m].after)
  pairs : ∀ a b (_ : a < b) (hb : b < s.lin.length), s.lin[b].after ≠ 0 → s.lin[a].before < s.lin[b].after
  pending : ∀ m (h : m < s.lin.length), s.lin[m].after = 0 → (s.thr s.lin[m].g).pc = .unlocked m
  unl : ∀ j k, (s.thr j).pc = .unlocked k → ∃ h : k < s.lin.length, s.lin[k].g = j ∧ s.lin[k].after = 0

theorem inv_init (s0 : SeqState) (prog : Nat → List SeqOp) : Inv s0 (Sys.init s0 prog) where
  replay := ⟨s0, rfl, rfl⟩
  mutex := by intro j h; simp [Sys.init, inCS] at h
  tick := by intro j; simp [Sys.init, ticket]
  stamps := by intro m h; simp [Sys.init] at h
  pairs := by intro a b _ hb; simp [Sys.init] at hb
  pending := by intro m h; simp [Sys.init] at h
  unl := by intro j k h; simp [Sys.init] at h

@[simp] theorem setThr_self (s : Sys) (i : Nat) (t : Thread) : s.setThr i t i = t := by simp [Sys.setThr]
theorem setThr_ne (s : Sys) (i j : Nat) (t : Thread) (h : j ≠ i) : s.setThr i t j = s.thr j := by
  simp [Sys.setThr, h]

/-- a thread that is not in its critical section is not the holder -/
theorem holder_ne {s0 : SeqState} {s : Sys} (inv : Inv s0 s) (i : Nat) (hi : inCS (s.thr i).pc = false) :
    s.holder ≠ some i := by
  intro hh
  obtain ⟨σ, _, hs⟩ := inv.replay
  simp only [Shared, hh] at hs
  have := CSRel_inCS hs
  rw [hi] at this; cases this

/-- moving a thread that is outside its critical section, without touching the shared fields or
    the mutex, keeps `Shared` -/
theorem shared_outside {s0 : SeqState} {s : Sys} (inv : Inv s0 s) (i : Nat) (t : Thread)
    (hi : inCS (s.thr i).pc = false) (c : Nat) (l : List SeqCall) (σ : SeqState) (hs : Shared s σ) :
    Shared { st := s.st, holder := s.holder, clock := c, thr := s.setThr i t, lin := l } σ := by
  have hne := holder_ne inv i hi
  unfold Shared at hs ⊢
  cases hho : s.holder with
  | none => simpa [hho] using hs
  | some h =>
    have : h ≠ i := by intro e; apply hne; rw [hho, e]
    simp only [hho] at hs ⊢
    rw [setThr_ne _ _ _ _ this]; exact hs

/-- the thread-indexed parts of the invariant, for a step of thread `i` that leaves the log alone
    and neither starts from nor ends in `unlocked` -/
theorem pending_keep {s0 : SeqState} {s : Sys} (inv : Inv s0 s) (i : Nat) (t : Thread)
    (hold : ∀ k, (s.thr i).pc ≠ .unlocked k) :
    ∀ m (h : m < s.lin.length), s.lin[m].after = 0 → (s.setThr i t s.lin[m].g).pc = .unlocked m := by
  intro m h ha
  have := inv.pending m h ha
  by_cases hg : s.lin[m].g = i
  · rw [hg] at this; exact absurd this (hold m)
  · rw [setThr_ne _ _ _ _ hg]; exact this

theorem unl_keep {s0 : SeqState} {s : Sys} (inv : Inv s0 s) (i : Nat) (t : Thread)
    (hnew : ∀ k, t.pc ≠ .unlocked k) :
    ∀ j k, (s.setThr i t j).pc = .unlocked k → ∃ h : k < s.lin.length, s.lin[k].g = j ∧ s.lin[k].after = 0 := by
  intro j k h
  by_cases hj : j = i
  · subst hj; rw [setThr_self] at h; exact absurd h (hnew k)
  · rw [setThr_ne _ _ _ _ hj] at h; exact inv.unl j k h

/-- 1. `idle → called`: draw the `before` ticket -/
theorem inv_call {s0 : SeqState} {s : Sys} (inv : Inv s0 s) (i : Nat) (todo : List SeqOp)
    (hpc : (s.thr i).pc = .idle) :
    Inv s0 { s with clock := s.clock + 1, thr := s.setThr i { pc := .called (s.clock + 1), todo := todo } } where
  replay := by
    obtain ⟨σ, h1, h2⟩ := inv.replay
    exact ⟨σ, h1, shared_outside inv i _ (by simp [hpc, inCS]) _ _ σ h2⟩
  mutex := by
    intro j h
    by_cases hj : j = i
    · subst hj; simp [inCS] at h
    · simp only [setThr_ne _ _ _ _ hj] at h; exact inv.mutex j h
  tick := by
    intro j
    by_cases hj : j = i
    · subst hj; simp [ticket]
    · simp only [setThr_ne _ _ _ _ hj]; have := inv.tick j; omega
  stamps := by
    intro m h
    obtain ⟨h1, h2, h3⟩ := inv.stamps m h
    exact ⟨by simp only; omega, by simp only; omega, h3⟩
  pairs := inv.pairs
  pending := pending_keep inv i _ (by simp [hpc])
  unl := unl_keep inv i _ (by simp)

/-- 2. `called → locked`: acquire the free mutex -/
theorem inv_lock {s0 : SeqState} {s : Sys} (inv : Inv s0 s) (i b : Nat) (op : SeqOp) (rest : List SeqOp)
    (hpc : (s.thr i).pc = .called b) (hfree : s.holder = none) :
    Inv s0 { s with holder := some i, thr := s.setThr i { pc := .locked b, todo := op :: rest } } where
  replay := by
    obtain ⟨σ, h1, h2⟩ := inv.replay
    refine ⟨σ, h1, ?_⟩
    simp only [Shared, hfree] at h2
    simp [Shared, CSRel, h2]
  mutex := by
    intro j h
    by_cases hj : j = i
    · subst hj; rfl
    · simp only [setThr_ne _ _ _ _ hj] at h
      have := inv.mutex j h; rw [hfree] at this; cases this
  tick := by
    intro j
    by_cases hj : j = i
    · subst hj; have := inv.tick j; rw [hpc] at this; simpa [ticket] using this
    · simp only [setThr_ne _ _ _ _ hj]; exact inv.tick j
  stamps := inv.stamps
  pairs := inv.pairs
  pending := pending_keep inv i _ (by simp [hpc])
  unl := unl_keep inv i _ (by simp)

/-- 3.–6. a step of the lock holder inside the method body -/
theorem inv_cs {s0 : SeqState} {s : Sys} (inv : Inv s0 s) (i : Nat) (t' : Thread) (st' : SeqState)
    (hin : inCS (s.thr i).pc = true) (hin' : inCS t'.pc = true) (htick : ticket t'.pc = ticket (s.thr i).pc)
    (hrel : ∀ σ, CSRel (s.thr i) σ s.st → CSRel t' σ st') :
    Inv s0 { s with st := st', thr := s.setThr i t' } where
  replay := by
    obtain ⟨σ, h1, h2⟩ := inv.replay
    refine ⟨σ, h1, ?_⟩
    have hh := inv.mutex i hin
    simp only [Shared, hh] at h2 ⊢
    simpa using hrel σ h2
  mutex := by
    intro j h
    by_cases hj : j = i
    · subst hj; exact inv.mutex j hin
    · simp only [setThr_ne _ _ _ _ hj] at h; exact inv.mutex j h
  tick := by
    intro j
    by_cases hj : j = i
    · subst hj; simp only [setThr_self, htick]; exact inv.tick j
    · simp only [setThr_ne _ _ _ _ hj]; exact inv.tick j
  stamps := inv.stamps
  pairs := inv.pairs
  pending := pending_keep inv i _ (by intro k hk; rw [hk] at hin; simp [inCS] at hin)
  unl := unl_keep inv i _ (by intro k hk; rw [hk] at hin'; simp [inCS] at hin')

/-- 7. `ready → unlocked`: release the mutex; the call is logged -/
theorem inv_unlock {s0 : SeqState} {s : Sys} (inv : Inv s0 s) (i b res : Nat) (op : SeqOp) (rest : List SeqOp)
    (hpc : (s.thr i).pc = .ready b res) (htodo : (s.thr i).todo = op :: rest) :
    Inv s0 { s with holder := none,
                    lin := s.lin ++ [{ g := i, op := op, before := b, after := 0, res := res }],
                    thr := s.setThr i { pc := .unlocked s.lin.length, todo := rest } } where
  replay := by
    obtain ⟨σ, h1, h2⟩ := inv.replay
    have hh := inv.mutex i (by simp [hpc, inCS])
    simp only [Shared, hh, CSRel, hpc, htodo] at h2
    refine ⟨(σ.step op).2, ?_, ?_⟩
    · simp only [List.map_append, List.map_cons, List.map_nil, key, replayK_append, h1, Option.bind_some,
        h2.2, if_true]
    · simp only [Shared]; exact h2.1
  mutex := by
    intro j h
    by_cases hj : j = i
    · subst hj; simp [inCS] at h
    · simp only [setThr_ne _ _ _ _ hj] at h
      have h1 := inv.mutex j h
      have h2 := inv.mutex i (by simp [hpc, inCS])
      rw [h1] at h2; cases h2; exact absurd rfl hj
  tick := by
    intro j
    by_cases hj : j = i
    · subst hj; simp [ticket]
    · simp only [setThr_ne _ _ _ _ hj]; exact inv.tick j
  stamps := by
    intro m h
    simp only [List.length_append, List.length_cons, List.length_nil] at h
    by_cases hm : m < s.lin.length
    · simp only [List.getElem_append_left hm]; exact inv.stamps m hm
    · have : m = s.lin.length := by omega
      subst this
      have := inv.tick i; rw [hpc] at this
      simp only [List.getElem_concat_length, ticket] at this ⊢
      exact ⟨this, by omega, by simp⟩
  pairs := by
    intro a c hac hc
    simp only [List.length_append, List.length_cons, List.length_nil] at hc
    by_cases hm : c < s.lin.length
    · simp only [List.getElem_append_left hm, List.getElem_append_left (show a < s.lin.length by omega)]
      exact inv.pairs a c hac hm
    · have : c = s.lin.length := by omega
      subst this
      simp
  pending := by
    intro m h ha
    simp only [List.length_append, List.length_cons, List.length_nil] at h
    by_cases hm : m < s.lin.length
    · simp only [List.getElem_append_left hm] at ha ⊢
      exact pending_keep inv i _ (by simp [hpc]) m hm ha
    · have : m = s.lin.length := by omega
      subst this
      simp
  unl := by
    intro j k h
    by_cases hj : j = i
    · subst hj
      simp only [setThr_self, PC.unlocked.injEq] at h
      subst h
      exact ⟨by simp, by simp⟩
    · simp only [setThr_ne _ _ _ _ hj] at h
      obtain ⟨hk, h1, h2⟩ := inv.unl j k h
      exact ⟨by simp; omega, by simp only [List.getElem_append_left hk]; exact ⟨h1, h2⟩⟩

theorem getElem_modify_after (l : List SeqCall) (k c m : Nat) (h : m < (l.modify k (fun x => { x with after := c })).length) :
    ((l.modify k (fun x => { x with after := c }))[m]).g = (l[m]'(by simpa using h)).g ∧
    ((l.modify k (fun x => { x with after := c }))[m]).before = (l[m]'(by simpa using h)).before ∧
    ((l.modify k (fun x => { x with after := c }))[m]).after = (if k = m then c else (l[m]'(by simpa using h)).after) := by
  simp only [List.getElem_modify]
  split <;> simp

/-- 8. `unlocked → idle`: return; draw the `after` ticket -/
theorem inv_return {s0 : SeqState} {s : Sys} (inv : Inv s0 s) (i k : Nat) (todo : List SeqOp)
    (hpc : (s.thr i).pc = .unlocked k) :
    Inv s0 { s with clock := s.clock + 1,
                    lin := s.lin.modify k (fun c => { c with after := s.clock + 1 }),
                    thr := s.setThr i { pc := .idle, todo := todo } } where
  replay := by
    obtain ⟨σ, h1, h2⟩ := inv.replay
    refine ⟨σ, ?_, shared_outside inv i _ (by simp [hpc, inCS]) _ _ σ h2⟩
    show replayK s0 (List.map key (s.lin.modify k _)) = some σ
    rw [map_modify_of_proj key (fun c => { c with after := s.clock + 1 }) (fun a => rfl)]; exact h1
  mutex := by
    intro j h
    by_cases hj : j = i
    · subst hj; simp [inCS] at h
    · simp only [setThr_ne _ _ _ _ hj] at h; exact inv.mutex j h
  tick := by
    intro j
    by_cases hj : j = i
    · subst hj; simp [ticket]
    · simp only [setThr_ne _ _ _ _ hj]; have := inv.tick j; omega
  stamps := by
    intro m h
    obtain ⟨e1, e2, e3⟩ := getElem_modify_after s.lin k (s.clock + 1) m h
    obtain ⟨h1, h2, h3⟩ := inv.stamps m (by simpa using h)
    simp only [e2, e3]
    split
    · exact ⟨by omega, by omega, fun _ => by omega⟩
    · exact ⟨by omega, by omega, h3⟩
  pairs := by
    intro a c hac hc hne
    obtain ⟨_, e2, _⟩ := getElem_modify_after s.lin k (s.clock + 1) a (by simp at hc ⊢; omega)
    obtain ⟨_, _, f3⟩ := getElem_modify_after s.lin k (s.clock + 1) c hc
    have hc' : c < s.lin.length := by simpa using hc
    rw [e2, f3]
    rw [f3] at hne
    split
    · have := (inv.stamps a (by omega)).1; omega
    · rename_i hk
      simp only [hk, if_false] at hne
      exact inv.pairs a c hac hc' hne
  pending := by
    intro m h ha
    obtain ⟨e1, _, e3⟩ := getElem_modify_after s.lin k (s.clock + 1) m h
    have hm : m < s.lin.length := by simpa using h
    rw [e3] at ha
    rw [e1]
    split at ha
    · omega
    · rename_i hk
      have old := inv.pending m hm ha
      by_cases hg : s.lin[m].g = i
      · rw [hg, hpc] at old; cases old; exact absurd rfl hk
      · simp only [setThr_ne _ _ _ _ hg]; exact old
  unl := by
    intro j q h
    by_cases hj : j = i
    · subst hj; simp at h
    · simp only [setThr_ne _ _ _ _ hj] at h
      obtain ⟨hq, h1, h2⟩ := inv.unl j q h
      obtain ⟨hk, g1, _⟩ := inv.unl i k hpc
      have hne : k ≠ q := by intro e; subst e; rw [g1] at h1; exact hj h1.symm
      obtain ⟨e1, _, e3⟩ := getElem_modify_after s.lin k (s.clock + 1) q (by simpa using hq)
      exact ⟨by simpa using hq, by rw [e1, e3]; simp [hne, h1, h2]⟩

/-- every micro-step preserves the invariant -/
theorem inv_step {s0 : SeqState} {s s' : Sys} (inv : Inv s0 s) (i : Nat) (h : s.step i = some s') :
    Inv s0 s' := by
  unfold Sys.step at h
  split at h
  · rename_i op rest hpc htodo
    cases h; exact inv_call inv i _ hpc
  · rename_i b op rest hpc htodo
    split at h
    · rename_i hfree; cases h; exact inv_lock inv i b op rest hpc hfree
    · cases h
  · rename_i b rest hpc htodo
    cases h
    refine inv_cs inv i _ _ (by simp [hpc, inCS]) (by simp [inCS]) (by simp [ticket, hpc]) ?_
    intro σ hr
    simp only [CSRel, hpc, htodo] at hr ⊢
    exact ⟨hr, by rw [hr]⟩
  · rename_i b rest hpc htodo
    cases h
    refine inv_cs inv i _ _ (by simp [hpc, inCS]) (by simp [inCS]) (by simp [ticket, hpc]) ?_
    intro σ hr
    simp only [CSRel, hpc, htodo] at hr ⊢
    subst hr
    simp [SeqState.step, SeqState.rollOverCount]
  · rename_i _ todo b t hpc
    cases h
    refine inv_cs inv i _ _ (by simp [hpc, inCS]) (by simp [inCS]) (by simp [ticket, hpc]) ?_
    intro σ hr
    unfold CSRel at hr ⊢
    rw [hpc] at hr
    split at hr <;> simp_all
  · -- wrote: read sequenceNumber, test it against 0
    rename_i _ todo b hpc
    cases h
    by_cases hz : (s.st.seq == 0) = true
    · simp only [hz, if_true]
      refine inv_cs inv i _ _ (by simp [hpc, inCS]) (by simp [inCS]) (by simp [ticket, hpc]) ?_
      intro σ hr
      unfold CSRel at hr ⊢
      rw [hpc] at hr
      split at hr <;> simp_all
    · simp only [hz, Bool.false_eq_true, if_false]
      refine inv_cs inv i _ _ (by simp [hpc, inCS]) (by simp [inCS]) (by simp [ticket, hpc]) ?_
      intro σ hr
      unfold CSRel at hr ⊢
      rw [hpc] at hr
      split at hr <;> simp_all [SeqState.next]
  · -- rocRead: read rollOverCount
    rename_i _ todo b hpc
    cases h
    refine inv_cs inv i _ _ (by simp [hpc, inCS]) (by simp [inCS]) (by simp [ticket, hpc]) ?_
    intro σ hr
    unfold CSRel at hr ⊢
    rw [hpc] at hr
    split at hr <;> simp_all
  · -- rocGot: write rollOverCount + 1
    rename_i _ todo b t hpc
    cases h
    refine inv_cs inv i _ _ (by simp [hpc, inCS]) (by simp [inCS]) (by simp [ticket, hpc]) ?_
    intro σ hr
    unfold CSRel at hr ⊢
    rw [hpc] at hr
    split at hr <;> simp_all [SeqState.next]
  · -- retRead: read sequenceNumber for the return value
    rename_i _ todo b hpc
    cases h
    refine inv_cs inv i _ _ (by simp [hpc, inCS]) (by simp [inCS]) (by simp [ticket, hpc]) ?_
    intro σ hr
    unfold CSRel at hr ⊢
    rw [hpc] at hr
    split at hr <;> simp_all [SeqState.step]
    rfl
  · rename_i b res op rest hpc htodo
    cases h; exact inv_unlock inv i b res op rest hpc htodo
  · rename_i _ todo k hpc
    cases h; exact inv_return inv i k _ hpc
  · cases h

theorem inv_run {s0 : SeqState} {s s' : Sys} (inv : Inv s0 s) (sched : List Nat) (h : s.run sched = some s') :
    Inv s0 s' := by
  induction sched generalizing s with
  | nil => simp only [Sys.run, Option.some.injEq] at h; subst h; exact inv
  | cons i is ih =>
    simp only [Sys.run] at h
    split at h
    · rename_i s1 hs; exact ih (inv_step inv i hs) h
    · cases h

/-- at a quiescent point the log is a linearization of everything that has been called -/
theorem inv_quiescent {s0 : SeqState} {s : Sys} (inv : Inv s0 s) (hq : s.Quiescent) :
    isLinearization s0 s.lin = true := by
  have hafter : ∀ m (h : m < s.lin.length), s.lin[m].after ≠ 0 := by
    intro m h h0
    have := inv.pending m h h0
    rw [hq] at this; cases this
  obtain ⟨σ, hσ, _⟩ := inv.replay
  simp only [isLinearization, Bool.and_eq_true, List.all_eq_true, decide_eq_true_eq]
  refine ⟨⟨?_, replayOk_of_replayK _ _ _ hσ⟩, ?_⟩
  · intro c hc
    obtain ⟨m, hm, rfl⟩ := List.mem_iff_getElem.mp hc
    exact (inv.stamps m hm).2.2 (hafter m hm)
  · rw [rtOk_iff]
    constructor
    · intro c hc
      obtain ⟨m, hm, rfl⟩ := List.mem_iff_getElem.mp hc
      have := hafter m hm; omega
    · rw [List.pairwise_iff_getElem]
      intro a b ha hb hab
      exact inv.pairs a b hab hb (hafter b hb)

/-! ### every call is logged exactly once, in program order -/

def tag (c : SeqCall) : Nat × Op := (c.g, c.op)

/-- the calls thread `i` has completed (unlocked), in order -/
def doneBy (s : Sys) (i : Nat) : List Op := ((s.lin.map tag).filter (fun x => x.1 == i)).map (·.2)

def ProgInv (prog : Nat → List SeqOp) (s : Sys) : Prop := ∀ j, doneBy s j ++ (s.thr j).todo = prog j

theorem prog_step {prog : Nat → List SeqOp} {s s' : Sys} (inv : ProgInv prog s) (i : Nat)
    (h : s.step i = some s') : ProgInv prog s' := by
  have keep : ∀ (s' : Sys), s'.lin.map tag = s.lin.map tag → (∀ j, (s'.thr j).todo = (s.thr j).todo) →
      ProgInv prog s' := by
    intro s' h1 h2 j
    have := inv j
    simp only [doneBy, h1, h2] at this ⊢
    exact this
  have todoSame : ∀ (pc : PC) (todo : List SeqOp), (s.thr i).todo = todo →
      ∀ j, (s.setThr i { pc := pc, todo := todo } j).todo = (s.thr j).todo := by
    intro pc todo ht j
    by_cases hj : j = i
    · subst hj; simp [ht]
    · simp [setThr_ne _ _ _ _ hj]
  unfold Sys.step at h
  split at h
  · rename_i op rest hpc htodo; cases h; exact keep _ rfl (todoSame _ _ htodo)
  · rename_i b op rest hpc htodo
    split at h
    · cases h; exact keep _ rfl (todoSame _ _ htodo)
    · cases h
  · rename_i b rest hpc htodo; cases h; exact keep _ rfl (todoSame _ _ htodo)
  · rename_i b rest hpc htodo; cases h; exact keep _ rfl (todoSame _ _ htodo)
  · rename_i _ todo b t hpc; cases h; exact keep _ rfl (todoSame _ _ rfl)
  · rename_i _ todo b hpc; cases h; exact keep _ rfl (todoSame _ _ rfl)
  · rename_i _ todo b hpc; cases h; exact keep _ rfl (todoSame _ _ rfl)
  · rename_i _ todo b t hpc; cases h; exact keep _ rfl (todoSame _ _ rfl)
  · rename_i _ todo b hpc; cases h; exact keep _ rfl (todoSame _ _ rfl)
  · rename_i b res op rest hpc htodo
    cases h
    intro j
    have := inv j
    by_cases hj : j = i
    · subst hj
      simp only [doneBy, List.map_append, List.filter_append, htodo] at this ⊢
      simp [tag, ← this]
    · simp only [doneBy, List.map_append, List.filter_append, setThr_ne _ _ _ _ hj] at this ⊢
      have hne : (i == j) = false := by simp; omega
      simp [tag, hne, this]
  · rename_i _ todo k hpc
    cases h
    exact keep _ (map_modify_of_proj tag (fun c => { c with after := s.clock + 1 }) (fun a => rfl) _ _)
      (todoSame _ _ rfl)
  · cases h

theorem prog_init (s0 : SeqState) (prog : Nat → List SeqOp) : ProgInv prog (Sys.init s0 prog) := by
  intro j; simp [doneBy, Sys.init]

theorem prog_run {prog : Nat → List SeqOp} {s s' : Sys} (inv : ProgInv prog s) (sched : List Nat)
    (h : s.run sched = some s') : ProgInv prog s' := by
  induction sched generalizing s with
  | nil => simp only [Sys.run, Option.some.injEq] at h; subst h; exact inv
  | cons i is ih =>
    simp only [Sys.run] at h
    split at h
    · rename_i s1 hs; exact ih (prog_step inv i hs) h
    · cases h

end Rtp.Proofs.SequencerConc
