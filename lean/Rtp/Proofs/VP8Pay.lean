/-
  Rtp/Proofs/VP8Pay.lean — lemmas about the fragment loop shared by the VP8/VP9 payloaders and about
  VP8Payloader: its descriptors are RFC 7741 encodings, the picture id is a 15-bit counter, and the
  round trip through VP8Packet (the predicate `C11.rt`).
-/
import Rtp.Proofs.VP8
namespace Rtp.Proofs.VP8
open Rtp Rtp.Model Rtp.Bits Rtp.Pred
open Rtp.Spec.Rfc7741

/-! ### the fragment loop -/

theorem chunksAux_flatten (k : Nat) (hk : 0 < k) : ∀ (fuel : Nat) (l : Bytes), l.length ≤ fuel →
    (vpxChunksAux k fuel l).flatten = l := by
  intro fuel
  induction fuel with
  | zero =>
    intro l hl
    have : l = [] := List.length_eq_zero_iff.mp (by omega)
    subst this; rfl
  | succ n ih =>
    intro l hl
    unfold vpxChunksAux
    cases l with
    | nil => rfl
    | cons b r =>
      simp only [List.isEmpty_cons, Bool.false_eq_true, if_false, List.flatten_cons]
      rw [ih _ (by simp only [List.length_drop, List.length_cons] at hl ⊢; omega)]
      exact List.take_append_drop k _

theorem chunksAux_mem (k : Nat) (hk : 0 < k) : ∀ (fuel : Nat) (l : Bytes),
    ∀ c ∈ vpxChunksAux k fuel l, c ≠ [] ∧ c.length ≤ k := by
  intro fuel
  induction fuel with
  | zero => intro l c hc; simp [vpxChunksAux] at hc
  | succ n ih =>
    intro l c hc
    unfold vpxChunksAux at hc
    cases l with
    | nil => simp at hc
    | cons b r =>
      simp only [List.isEmpty_cons, Bool.false_eq_true, if_false, List.mem_cons] at hc
      rcases hc with rfl | hc
      · constructor
        · intro h
          have := congrArg List.length h
          simp only [List.length_take, List.length_cons, List.length_nil] at this
          omega
        · simp only [List.length_take]; omega
      · exact ih _ c hc

theorem chunks_flatten (k : Nat) (hk : 0 < k) (l : Bytes) : (vpxChunks k l).flatten = l :=
  chunksAux_flatten k hk l.length l (Nat.le_refl _)

theorem chunks_mem (k : Nat) (hk : 0 < k) (l : Bytes) :
    ∀ c ∈ vpxChunks k l, c ≠ [] ∧ c.length ≤ k :=
  chunksAux_mem k hk l.length l

theorem chunks_ne_nil (k : Nat) (hk : 0 < k) (l : Bytes) (hl : l ≠ []) : vpxChunks k l ≠ [] := by
  intro h
  have := chunks_flatten k hk l
  rw [h] at this
  exact hl this.symm

/-! ### the 15-bit picture id counter -/

/-- the state of a payloader that has packetized `k` frames -/
def payState (enable : Bool) (k : Nat) : VP8Pay :=
  { enablePictureID := enable, pictureID := (k % 32768).toUInt16 }

theorem pid_toNat (k : Nat) : ((k % 32768).toUInt16).toNat = k % 32768 := by
  simp only [Nat.toUInt16, UInt16.toNat_ofNat']
  omega

theorem pid_lt (k : Nat) : (k % 32768).toUInt16 < 32768 := by
  rw [UInt16.lt_iff_toNat_lt, pid_toNat]
  simp only [UInt16.reduceToNat]
  omega

theorem pid_lt128 (k : Nat) : ((k % 32768).toUInt16 < 128) = (k % 32768 < 128) := by
  rw [UInt16.lt_iff_toNat_lt, pid_toNat]
  simp only [UInt16.reduceToNat]

theorem pid_succ (k : Nat) : ((k % 32768).toUInt16 + 1) &&& 0x7FFF = ((k + 1) % 32768).toUInt16 := by
  apply UInt16.toNat_inj.mp
  rw [pid_toNat]
  simp only [UInt16.toNat_and, UInt16.toNat_add, pid_toNat, UInt16.reduceToNat]
  have : (32767 : Nat) = 2 ^ 15 - 1 := by decide
  rw [this, Nat.and_two_pow_sub_one_eq_mod]
  omega

theorem hdrSize_eq (enable : Bool) (k : Nat) : vp8HdrSize (payState enable k) = C11.hdrLen enable k := by
  simp only [vp8HdrSize, payState, C11.hdrLen, pid_lt128]

/-! ### the payloader's descriptors are RFC 7741 encodings -/

/-- the descriptor VP8Payloader puts on a packet of the frame with running id `k` -/
def payDesc (enable : Bool) (k : Nat) (first : Bool) : Descriptor :=
  { n := false, s := first, pid := 0, x := enable,
    picId := if enable then some (decide (128 ≤ k % 32768), (k % 32768).toUInt16) else none }

theorem payDesc_wf (enable : Bool) (k : Nat) (first : Bool) : (payDesc enable k first).WF = true := by
  cases enable
  · simp [payDesc, Descriptor.WF]
  · by_cases h : 128 ≤ k % 32768
    · simp only [payDesc, Descriptor.WF, h, decide_true, if_true]
      simp [pid_lt]
    · simp only [payDesc, Descriptor.WF, h, decide_false, if_true]
      have := pid_lt128 k
      simp at this ⊢
      rw [this]; omega

theorem low7_fin : ∀ v : Fin 128, ((UInt16.ofNat v.val) &&& 0x7F).toUInt8 = (UInt16.ofNat v.val).toUInt8 := by
  decide +kernel

theorem low7 (v : UInt16) (hv : v < 128) : (v &&& 0x7F).toUInt8 = v.toUInt8 :=
  forall_u16_lt 128 (fun v => (v &&& 0x7F).toUInt8 = v.toUInt8) low7_fin v (UInt16.lt_iff_toNat_lt.mp hv)

theorem low8 (v : UInt16) : (v &&& 0xFF).toUInt8 = v.toUInt8 := by
  apply UInt8.toNat_inj.mp
  simp only [UInt16.toNat_toUInt8, UInt16.toNat_and, UInt16.reduceToNat]
  have : (255 : Nat) = 2 ^ 8 - 1 := by decide
  rw [this, Nat.and_two_pow_sub_one_eq_mod]
  omega

theorem hi7 (v : UInt16) (hv : v < 32768) : ((v >>> 8) &&& 0x7F).toUInt8 = (v >>> 8).toUInt8 := by
  apply UInt8.toNat_inj.mp
  have h := UInt16.lt_iff_toNat_lt.mp hv
  simp only [UInt16.toNat_toUInt8, UInt16.toNat_and, UInt16.toNat_shiftRight, UInt16.reduceToNat] at h ⊢
  have : (127 : Nat) = 2 ^ 7 - 1 := by decide
  rw [this, Nat.and_two_pow_sub_one_eq_mod, Nat.shiftRight_eq_div_pow]
  simp only [Nat.reduceMod, Nat.reducePow]
  omega

theorem hdr_eq_encode (enable : Bool) (k : Nat) (first : Bool) :
    vp8Hdr (payState enable k) first = (payDesc enable k first).encode := by
  cases enable
  · cases first <;> simp [vp8Hdr, payState, payDesc, Descriptor.encode, bit]
  · by_cases h : 128 ≤ k % 32768
    · have h1 : ¬ ((k % 32768).toUInt16 < 128) := by rw [pid_lt128]; omega
      simp only [vp8Hdr, payState, payDesc, Descriptor.encode, h, h1, decide_true, if_true, if_false,
        encPicId, encTl0, encTK, List.append_nil, Option.isSome_some, Option.isSome_none,
        hi7 _ (pid_lt k), low8]
      cases first <;> simp [bit] <;> decide
    · have h1 : (k % 32768).toUInt16 < 128 := by rw [pid_lt128]; omega
      simp only [vp8Hdr, payState, payDesc, Descriptor.encode, h, h1, decide_false, if_true,
        encPicId, encTl0, encTK, List.append_nil, Option.isSome_some, Option.isSome_none,
        low7 _ h1]
      cases first <;> simp [bit] <;> decide

/-! ### VP8Payloader.Payload, one call -/

theorem payload_proper (enable : Bool) (k : Nat) (mtu : UInt16) (frame : Bytes)
    (hm : C11.hdrLen enable k < mtu.toNat) (hf : frame ≠ []) :
    vp8Payload (payState enable k) mtu (some frame) =
      (vp8Frags (payState enable k) (vpxChunks (mtu.toNat - C11.hdrLen enable k) frame),
       payState enable (k + 1)) := by
  have h1 : ¬ (mtu.toNat ≤ C11.hdrLen enable k) := by omega
  have h2 : frame.isEmpty = false := by
    cases frame with
    | nil => exact absurd rfl hf
    | cons _ _ => rfl
  simp only [vp8Payload, Option.getD_some, hdrSize_eq, h1, decide_false, h2, Bool.or_self,
    Bool.false_eq_true, if_false]
  simp only [payState, pid_succ]

theorem payload_improper (enable : Bool) (k : Nat) (mtu : UInt16) (i : Option Bytes)
    (h : (decide (C11.hdrLen enable k < mtu.toNat) && !(i.getD []).isEmpty) = false) :
    vp8Payload (payState enable k) mtu i = ([], payState enable k) := by
  simp only [vp8Payload, hdrSize_eq]
  by_cases h1 : mtu.toNat ≤ C11.hdrLen enable k
  · simp [h1]
  · have : C11.hdrLen enable k < mtu.toNat := by omega
    simp only [this, decide_true, Bool.true_and, Bool.not_eq_false'] at h
    simp [h]

theorem frags_eq (enable : Bool) (k : Nat) (c : Bytes) (cs : List Bytes) :
    vp8Frags (payState enable k) (c :: cs) =
      ((payDesc enable k true).encode ++ c) :: cs.map (fun c => (payDesc enable k false).encode ++ c) := by
  simp only [vp8Frags, hdr_eq_encode]

/-- `c11_roundtrip`, spelled out -/
theorem payload_spec (enable : Bool) (k : Nat) (mtu : UInt16) (frame : Bytes)
    (hm : C11.hdrLen enable k < mtu.toNat) (hf : frame ≠ []) :
    ∃ c cs, vpxChunks (mtu.toNat - C11.hdrLen enable k) frame = c :: cs ∧
      (vp8Payload (payState enable k) mtu (some frame)).1 =
        ((payDesc enable k true).encode ++ c) ::
          cs.map (fun c => (payDesc enable k false).encode ++ c) ∧
      (c :: cs).flatten = frame ∧
      (∀ x ∈ c :: cs, x ≠ [] ∧ x.length ≤ mtu.toNat - C11.hdrLen enable k) ∧
      (vp8Payload (payState enable k) mtu (some frame)).2 = payState enable (k + 1) := by
  have hk : 0 < mtu.toNat - C11.hdrLen enable k := by omega
  rw [payload_proper enable k mtu frame hm hf]
  cases hc : vpxChunks (mtu.toNat - C11.hdrLen enable k) frame with
  | nil => exact absurd hc (chunks_ne_nil _ hk frame hf)
  | cons c cs =>
    refine ⟨c, cs, rfl, frags_eq enable k c cs, ?_, ?_, rfl⟩
    · rw [← hc]; exact chunks_flatten _ hk frame
    · rw [← hc]; exact chunks_mem _ hk frame

/-! ### decoding what the payloader produced -/

/-- what one VP8Packet receiver reports for a packet of frame `k` carrying chunk `c` -/
def fragObsOf (enable : Bool) (k : Nat) (first : Bool) (c : Bytes) : C11.FragObs :=
  { bytes := (payDesc enable k first).encode ++ c, res := .ok c,
    md := C11.expected (payDesc enable k first), head := first }

theorem obsFrags_map (enable : Bool) (k : Nat) (first : Bool) : ∀ (cs : List Bytes) (p : VP8Packet),
    (C11.obsFrags p (cs.map (fun c => (payDesc enable k first).encode ++ c))).1 =
      cs.map (fragObsOf enable k first) := by
  intro cs
  induction cs with
  | nil => intro p; rfl
  | cons c cs ih =>
    intro p
    simp only [List.map_cons, C11.obsFrags, unmarshal_encode _ (payDesc_wf enable k first),
      head_encode _ (payDesc_wf enable k first), ih, Res.coarse]
    rfl

theorem obsFrags_frags (enable : Bool) (k : Nat) (c : Bytes) (cs : List Bytes) (p : VP8Packet) :
    (C11.obsFrags p (vp8Frags (payState enable k) (c :: cs))).1 =
      fragObsOf enable k true c :: cs.map (fragObsOf enable k false) := by
  rw [frags_eq]
  simp only [C11.obsFrags, unmarshal_encode _ (payDesc_wf enable k true),
    head_encode _ (payDesc_wf enable k true), obsFrags_map enable k false cs, Res.coarse]
  rfl

theorem fragPayload_of (enable : Bool) (k : Nat) (first : Bool) (c : Bytes) :
    C11.fragPayload (fragObsOf enable k first c) = c := rfl

theorem mbit7 (v : UInt16) (hv : v < 128) : ((v.toUInt8 &&& 0x80) != 0) = false := by
  have := forall_u16_lt 128 (fun v => ((v.toUInt8 &&& 0x80) != 0) = false) (by decide +kernel) v
    (UInt16.lt_iff_toNat_lt.mp hv)
  exact this

theorem mbit15 (h : UInt8) : ((((0x80 : UInt8) ||| h) &&& 0x80) != 0) = true := by
  revert h; apply forall_u8; decide +kernel

theorem fragOk_of (enable : Bool) (k : Nat) (first : Bool) (c : Bytes) :
    C11.fragOk enable k first (fragObsOf enable k first c) = true := by
  cases enable
  · simp [C11.fragOk, fragObsOf, C11.expected, payDesc, Res.isOk]
  · by_cases h : 128 ≤ k % 32768
    · simp [C11.fragOk, fragObsOf, C11.expected, C11.picVal, payDesc, Res.isOk, h, bit,
        Descriptor.encode, encPicId, mbit15]
      omega
    · have h1 : (k % 32768).toUInt16 < 128 := by rw [pid_lt128]; omega
      simp [C11.fragOk, fragObsOf, C11.expected, C11.picVal, payDesc, Res.isOk, h, bit,
        Descriptor.encode, encPicId]
      refine ⟨by omega, ?_⟩
      simpa using mbit7 _ h1

theorem frameOk_of (enable : Bool) (k : Nat) (frame c : Bytes) (cs : List Bytes)
    (hfl : (c :: cs).flatten = frame) :
    C11.frameOk enable k frame (fragObsOf enable k true c :: cs.map (fragObsOf enable k false)) = true := by
  simp only [C11.frameOk, fragOk_of, Bool.true_and, Bool.and_eq_true, List.all_eq_true, beq_iff_eq]
  constructor
  · intro f hf
    obtain ⟨c', _, rfl⟩ := List.mem_map.mp hf
    exact fragOk_of enable k false c'
  · rw [← hfl]
    simp only [List.map_cons, List.map_map, List.flatten_cons, fragPayload_of]
    congr 1
    have : (C11.fragPayload ∘ fragObsOf enable k false) = id := by
      funext c'; rfl
    rw [this, List.map_id]

/-! ### the whole history -/

theorem rt_from (enable : Bool) : ∀ (calls : List (UInt16 × Option Bytes)) (k : Nat) (p : VP8Packet),
    C11.rt enable k calls (C11.obsRtFrom (payState enable k) p calls) = true := by
  intro calls
  induction calls with
  | nil => intro k p; rfl
  | cons call cs ih =>
    intro k p
    obtain ⟨m, i⟩ := call
    simp only [C11.obsRtFrom, C11.rt]
    cases hprop : (decide (C11.hdrLen enable k < m.toNat) && !(i.getD []).isEmpty)
    · rw [payload_improper enable k m i hprop]
      simp only [C11.obsFrags, Bool.false_eq_true, if_false]
      exact ih k p
    · simp only [if_true]
      simp only [Bool.and_eq_true, decide_eq_true_eq, Bool.not_eq_true', List.isEmpty_eq_false_iff] at hprop
      have hsome : i = some (i.getD []) := by
        cases i with
        | none => exact absurd rfl hprop.2
        | some b => rfl
      have hk : 0 < m.toNat - C11.hdrLen enable k := by omega
      rw [hsome, payload_proper enable k m _ hprop.1 hprop.2]
      simp only [Option.getD_some]
      cases hc : vpxChunks (m.toNat - C11.hdrLen enable k) (i.getD []) with
      | nil => exact absurd hc (chunks_ne_nil _ hk _ hprop.2)
      | cons c cs' =>
        have hfl : (c :: cs').flatten = i.getD [] := by rw [← hc]; exact chunks_flatten _ hk _
        have hobs := obsFrags_frags enable k c cs' p
        generalize hgen : C11.obsFrags p (vp8Frags (payState enable k) (c :: cs')) = r at hobs
        obtain ⟨os, p'⟩ := r
        simp only at hobs
        subst hobs
        simp only [frameOk_of enable k _ c cs' hfl, Bool.true_and]
        exact ih (k + 1) p'

theorem warmUp_eq (enable : Bool) : ∀ (n k : Nat),
    C11.warmUp (payState enable k) n = payState enable (k + n) := by
  intro n
  induction n with
  | zero => intro k; rfl
  | succ n ih =>
    intro k
    have hm : C11.hdrLen enable k < (10 : UInt16).toNat := by
      simp only [C11.hdrLen, UInt16.reduceToNat]
      split <;> (try split) <;> omega
    simp only [C11.warmUp, payload_proper enable k 10 [0] hm (by simp), ih]
    congr 1; omega

theorem rt_obsRt (enable : Bool) (warm : Nat) (calls : List (UInt16 × Option Bytes)) :
    C11.rt enable warm calls (C11.obsRt enable warm calls) = true := by
  have h0 : ({ enablePictureID := enable } : VP8Pay) = payState enable 0 := by
    simp [payState]
  unfold C11.obsRt
  rw [h0, warmUp_eq enable warm 0, Nat.zero_add]
  exact rt_from enable calls warm {}

/-- the running id counts frames in whichever mode they were sent: `flipAt ≤ warm` earlier frames
    sent with the option at the other value, the field then set by hand -/
theorem rt_obsRtFlip (enable : Bool) (warm flipAt : Nat) (h : flipAt ≤ warm)
    (calls : List (UInt16 × Option Bytes)) :
    C11.rt enable warm calls (C11.obsRtFlip enable warm flipAt calls) = true := by
  have h0 : ({ enablePictureID := !enable } : VP8Pay) = payState (!enable) 0 := by
    simp [payState]
  have h1 : ({ payState (!enable) flipAt with enablePictureID := enable } : VP8Pay) = payState enable flipAt := by
    simp [payState]
  unfold C11.obsRtFlip
  rw [h0, warmUp_eq (!enable) flipAt 0, Nat.zero_add, h1, warmUp_eq enable (warm - flipAt) flipAt]
  have h2 : flipAt + (warm - flipAt) = warm := by omega
  rw [h2]
  exact rt_from enable calls warm {}

end Rtp.Proofs.VP8
