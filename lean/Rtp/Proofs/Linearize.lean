/-
  Rtp/Proofs/Linearize.lean — the greedy linearizability check of Rtp/Pred/C07.lean is sound and
  complete: `linearizable s H = true ↔ Linearizable s H`.
-/
import Rtp.Pred.C07
import Rtp.Proofs.SequencerConc
namespace Rtp.Proofs.Linearize
open Rtp Rtp.Model Rtp.Model.SeqConc Rtp.Spec.Counter Rtp.Pred.C07 Rtp.Proofs.SequencerConc

/-! ### `isLinearization` as a proposition, one call at a time -/

def Lin (s : SeqState) : List Call → Prop
  | [] => True
  | c :: L => c.before < c.after ∧ c.res = (s.step c.op).1 ∧ (∀ y ∈ L, c.before < y.after) ∧
              Lin (s.step c.op).2 L

theorem lin_iff_parts (s : SeqState) (L : List Call) :
    Lin s L ↔ (∀ c ∈ L, c.before < c.after) ∧ replayOk s L = true ∧
      L.Pairwise (fun a b => a.before < b.after) := by
  induction L generalizing s with
  | nil => simp [Lin, replayOk]
  | cons c L ih =>
    simp only [Lin, ih, List.mem_cons, forall_eq_or_imp, replayOk, Bool.and_eq_true, beq_iff_eq,
      List.pairwise_cons]
    constructor
    · rintro ⟨h1, h2, h3, h4, h5, h6⟩; exact ⟨⟨h1, h4⟩, ⟨h2, h5⟩, h3, h6⟩
    · rintro ⟨⟨h1, h4⟩, ⟨h2, h5⟩, h3, h6⟩; exact ⟨h1, h2, h3, h4, h5, h6⟩

theorem isLin_iff (s : SeqState) (L : List Call) : isLinearization s L = true ↔ Lin s L := by
  rw [lin_iff_parts]
  simp only [isLinearization, Bool.and_eq_true, List.all_eq_true, decide_eq_true_eq, rtOk_iff]
  constructor
  · rintro ⟨⟨h1, h2⟩, _, h4⟩; exact ⟨h1, h2, h4⟩
  · rintro ⟨h1, h2, h4⟩; exact ⟨⟨h1, h2⟩, fun c hc => by have := h1 c hc; omega, h4⟩

theorem lin_wf {s : SeqState} {L : List Call} (h : Lin s L) : ∀ c ∈ L, c.before < c.after :=
  ((lin_iff_parts s L).mp h).1

/-- state after replaying the calls of `A` -/
def after (s : SeqState) (A : List Call) : SeqState := s.exec (A.map (·.op))

theorem lin_append (s : SeqState) (A B : List Call) :
    Lin s (A ++ B) ↔ Lin s A ∧ Lin (after s A) B ∧ ∀ a ∈ A, ∀ b ∈ B, a.before < b.after := by
  induction A generalizing s with
  | nil => simp [Lin, after, SeqState.exec]
  | cons c A ih =>
    simp only [List.cons_append, Lin, ih, after, List.map_cons, SeqState.exec, List.mem_append,
      List.mem_cons, forall_eq_or_imp]
    constructor
    · rintro ⟨h1, h2, h3, h4, h5, h6⟩
      exact ⟨⟨h1, h2, fun y hy => h3 y (Or.inl hy), h4⟩, h5, fun b hb => h3 b (Or.inr hb), h6⟩
    · rintro ⟨⟨h1, h2, h3, h4⟩, h5, h6, h7⟩
      exact ⟨h1, h2, fun y hy => hy.elim (h3 y) (h6 y), h4, h5, h7⟩

/-- a `RollOverCount` read can be dropped from a linearization -/
theorem lin_erase_roc {s : SeqState} {A B : List Call} {c : Call} (hc : c.op = .roc)
    (h : Lin s (A ++ c :: B)) : Lin s (A ++ B) := by
  rw [lin_append] at h ⊢
  obtain ⟨h1, h2, h3⟩ := h
  refine ⟨h1, ?_, fun a ha b hb => h3 a ha b (List.mem_cons_of_mem _ hb)⟩
  simp only [Lin, hc] at h2
  exact h2.2.2.2

/-- a call can be replaced by one with the same operation and result that returns no earlier and
    was invoked before everything that follows returned -/
theorem lin_replace {s : SeqState} {A B : List Call} {c x : Call} (hop : x.op = c.op) (hres : x.res = c.res)
    (hwf : x.before < x.after) (hafter : c.after ≤ x.after) (hB : ∀ z ∈ B, x.before < z.after)
    (h : Lin s (A ++ c :: B)) : Lin s (A ++ x :: B) := by
  rw [lin_append] at h ⊢
  obtain ⟨h1, h2, h3⟩ := h
  refine ⟨h1, ?_, ?_⟩
  · simp only [Lin] at h2 ⊢
    rw [hop, hres]
    exact ⟨hwf, h2.2.1, hB, h2.2.2.2⟩
  · intro a ha b hb
    rcases List.mem_cons.mp hb with rfl | hb
    · have := h3 a ha c (List.mem_cons_self); omega
    · exact h3 a ha b (List.mem_cons_of_mem _ hb)

/-! ### the window -/

def Sorted (R : List Call) : Prop := R.Pairwise (fun a b => a.before ≤ b.before)

theorem windowAux_lt (m : Nat) (cs : List Call) : ∀ c ∈ windowAux m cs, c.before < m := by
  induction cs generalizing m with
  | nil => simp [windowAux]
  | cons e cs ih =>
    intro c hc
    simp only [windowAux] at hc
    split at hc
    · rcases List.mem_cons.mp hc with rfl | hc
      · assumption
      · have := ih _ c hc; omega
    · cases hc

theorem windowAux_mem (m : Nat) (cs : List Call) : ∀ c ∈ windowAux m cs, c ∈ cs := by
  induction cs generalizing m with
  | nil => simp [windowAux]
  | cons e cs ih =>
    intro c hc
    simp only [windowAux] at hc
    split at hc
    · rcases List.mem_cons.mp hc with rfl | hc
      · exact List.mem_cons_self
      · exact List.mem_cons_of_mem _ (ih _ c hc)
    · cases hc

theorem window_mem (R : List Call) : ∀ c ∈ window R, c ∈ R := by
  cases R with
  | nil => simp [window]
  | cons c0 cs =>
    intro c hc
    simp only [window] at hc
    rcases List.mem_cons.mp hc with rfl | hc
    · exact List.mem_cons_self
    · exact List.mem_cons_of_mem _ (windowAux_mem _ _ c hc)

/-- everything in the window was invoked before anything remaining returned -/
theorem windowAux_placeable (m : Nat) (cs : List Call) (hs : Sorted cs) (hwf : ∀ c ∈ cs, c.before < c.after) :
    ∀ c ∈ windowAux m cs, ∀ d ∈ cs, c.before < d.after := by
  induction cs generalizing m with
  | nil => simp [windowAux]
  | cons e cs ih =>
    intro c hc d hd
    simp only [Sorted, List.pairwise_cons] at hs
    simp only [windowAux] at hc
    split at hc
    · rcases List.mem_cons.mp hc with rfl | hc
      · rcases List.mem_cons.mp hd with rfl | hd
        · exact hwf _ List.mem_cons_self
        · have := hs.1 d hd; have := hwf d (List.mem_cons_of_mem _ hd); omega
      · rcases List.mem_cons.mp hd with rfl | hd
        · have := windowAux_lt _ _ c hc; omega
        · exact ih _ hs.2 (fun c hc => hwf c (List.mem_cons_of_mem _ hc)) c hc d hd
    · cases hc

theorem window_placeable (R : List Call) (hs : Sorted R) (hwf : ∀ c ∈ R, c.before < c.after) :
    ∀ c ∈ window R, ∀ d ∈ R, c.before < d.after := by
  cases R with
  | nil => simp [window]
  | cons c0 cs =>
    intro c hc d hd
    simp only [Sorted, List.pairwise_cons] at hs
    simp only [window] at hc
    rcases List.mem_cons.mp hc with rfl | hc
    · rcases List.mem_cons.mp hd with rfl | hd
      · exact hwf _ List.mem_cons_self
      · have := hs.1 d hd; have := hwf d (List.mem_cons_of_mem _ hd); omega
    · rcases List.mem_cons.mp hd with rfl | hd
      · exact windowAux_lt _ _ c hc
      · exact windowAux_placeable _ cs hs.2 (fun c hc => hwf c (List.mem_cons_of_mem _ hc)) c hc d hd

/-- every placeable call is in the window -/
theorem windowAux_complete (m : Nat) (cs : List Call) (hs : Sorted cs) (x : Call) (hx : x ∈ cs)
    (hm : x.before < m) (hp : ∀ d ∈ cs, x.before < d.after) : x ∈ windowAux m cs := by
  induction cs generalizing m with
  | nil => cases hx
  | cons e cs ih =>
    simp only [Sorted, List.pairwise_cons] at hs
    simp only [windowAux]
    rcases List.mem_cons.mp hx with rfl | hx
    · simp [hm]
    · have h1 := hs.1 x hx
      have h2 : e.before < m := by omega
      simp only [h2, if_true]
      refine List.mem_cons_of_mem _ (ih _ hs.2 hx ?_ (fun d hd => hp d (List.mem_cons_of_mem _ hd)))
      have := hp e List.mem_cons_self
      omega

theorem window_complete (R : List Call) (hs : Sorted R) (x : Call) (hx : x ∈ R)
    (hp : ∀ d ∈ R, x.before < d.after) : x ∈ window R := by
  cases R with
  | nil => cases hx
  | cons c0 cs =>
    simp only [Sorted, List.pairwise_cons] at hs
    simp only [window]
    rcases List.mem_cons.mp hx with rfl | hx
    · exact List.mem_cons_self
    · exact List.mem_cons_of_mem _
        (windowAux_complete _ cs hs.2 x hx (hp c0 List.mem_cons_self) (fun d hd => hp d (List.mem_cons_of_mem _ hd)))

theorem pickMinAfter_none (l : List Call) (h : pickMinAfter l = none) : l = [] := by
  cases l with
  | nil => rfl
  | cons a l =>
    simp only [pickMinAfter] at h
    split at h
    · cases h
    · split at h <;> cases h

theorem pickMinAfter_some (l : List Call) (c : Call) (h : pickMinAfter l = some c) :
    c ∈ l ∧ ∀ d ∈ l, c.after ≤ d.after := by
  induction l generalizing c with
  | nil => cases h
  | cons e l ih =>
    simp only [pickMinAfter] at h
    split at h
    · rename_i hn
      cases h
      have := pickMinAfter_none l hn
      subst this
      simp
    · rename_i d hd
      obtain ⟨h1, h2⟩ := ih d hd
      split at h
      · cases h
        refine ⟨List.mem_cons_self, ?_⟩
        intro z hz
        rcases List.mem_cons.mp hz with rfl | hz
        · omega
        · have := h2 z hz; omega
      · cases h
        refine ⟨List.mem_cons_of_mem _ h1, ?_⟩
        intro z hz
        rcases List.mem_cons.mp hz with rfl | hz
        · omega
        · exact h2 z hz

/-! ### the greedy search -/

/-- whatever the search returns is a permutation of what it was given -/
theorem greedy_perm (fuel : Nat) (s : SeqState) (R L : List Call) (h : greedy fuel s R = some L) :
    L.Perm R := by
  induction fuel generalizing s R L with
  | zero =>
    cases R with
    | nil => simp only [greedy, Option.some.injEq] at h; subst h; exact List.Perm.refl _
    | cons c0 R0 => simp [greedy] at h
  | succ fuel ih =>
    cases R with
    | nil => simp only [greedy, Option.some.injEq] at h; subst h; exact List.Perm.refl _
    | cons c0 R0 =>
      simp only [greedy] at h
      split at h
      · rename_i c hc
        have hmem : c ∈ c0 :: R0 := window_mem _ c (List.mem_of_find?_eq_some hc)
        simp only [Option.map_eq_some_iff] at h
        obtain ⟨L', hL', rfl⟩ := h
        exact ((ih _ _ _ hL').cons c).trans (List.perm_cons_erase hmem).symm
      · split at h
        · rename_i c hc
          have hmem : c ∈ c0 :: R0 :=
            window_mem _ c (List.mem_filter.mp (pickMinAfter_some _ _ hc).1).1
          simp only [Option.map_eq_some_iff] at h
          obtain ⟨L', hL', rfl⟩ := h
          exact ((ih _ _ _ hL').cons c).trans (List.perm_cons_erase hmem).symm
        · cases h

theorem sorted_erase {R : List Call} (h : Sorted R) (c : Call) : Sorted (R.erase c) :=
  List.Pairwise.sublist List.erase_sublist h

/-- **completeness**: if the remaining calls have a linearization from `s`, the search finds one -/
theorem greedy_complete (fuel : Nat) (s : SeqState) (R : List Call) (hfuel : R.length ≤ fuel)
    (hs : Sorted R) (hex : ∃ L, L.Perm R ∧ Lin s L) :
    ∃ L', greedy fuel s R = some L' ∧ Lin s L' := by
  induction fuel generalizing s R with
  | zero =>
    cases R with
    | nil => exact ⟨[], rfl, trivial⟩
    | cons c0 R0 => simp at hfuel
  | succ fuel ih =>
    cases R with
    | nil => exact ⟨[], rfl, trivial⟩
    | cons c0 R0 =>
      obtain ⟨L, hperm, hlin⟩ := hex
      have hwfR : ∀ c ∈ c0 :: R0, c.before < c.after := fun c hc => lin_wf hlin c (hperm.mem_iff.mpr hc)
      -- the linearization's first call is in the window and matches the state
      cases L with
      | nil => exact absurd hperm.length_eq (by simp)
      | cons x T =>
      have hxR : x ∈ c0 :: R0 := hperm.mem_iff.mp List.mem_cons_self
      have hxplace : ∀ d ∈ c0 :: R0, x.before < d.after := by
        intro d hd
        rcases List.mem_cons.mp (hperm.mem_iff.mpr hd) with rfl | hd
        · exact hlin.1
        · exact hlin.2.2.1 d hd
      have hxW : x ∈ window (c0 :: R0) := window_complete _ hs x hxR hxplace
      have hlen : ∀ c, c ∈ c0 :: R0 → ((c0 :: R0).erase c).length ≤ fuel := by
        intro c hc; rw [List.length_erase_of_mem hc]; simp at hfuel ⊢; omega
      simp only [greedy]
      split
      · -- a matching RollOverCount read in the window goes first
        rename_i c hc
        have hcW := List.mem_of_find?_eq_some hc
        have hcm := List.find?_some hc
        simp only [rocMatch, Bool.and_eq_true, beq_iff_eq] at hcm
        have hcR := window_mem _ c hcW
        have hcL : c ∈ x :: T := hperm.mem_iff.mpr hcR
        obtain ⟨A, B, _, hAB, herase⟩ := List.exists_erase_eq hcL
        have hlin' : Lin s (A ++ B) := lin_erase_roc hcm.1 (hAB ▸ hlin)
        obtain ⟨L'', hg, hl⟩ := ih s _ (hlen c hcR) (sorted_erase hs c)
          ⟨A ++ B, herase ▸ hperm.erase c, hlin'⟩
        refine ⟨c :: L'', by rw [hg]; rfl, ?_⟩
        refine ⟨hwfR c hcR, ?_, ?_, ?_⟩
        · rw [hcm.1]; exact hcm.2
        · intro y hy
          exact window_placeable _ hs hwfR c hcW y
            (List.mem_of_mem_erase ((greedy_perm _ _ _ _ hg).mem_iff.mp hy))
        · rw [hcm.1]; exact hl
      · -- no such read: the linearization starts with a NextSequenceNumber call
        rename_i hnone
        have hxnext : x.op = .next := by
          cases hop : x.op with
          | next => rfl
          | roc =>
            have := (List.find?_eq_none.mp hnone) x hxW
            have hres := hlin.2.1
            simp [rocMatch, hop, hres, SeqState.step, SeqState.rollOverCount] at this
        have hxm : nextMatch s x = true := by
          have hres := hlin.2.1
          simp only [hxnext, SeqState.step] at hres
          simp [nextMatch, hxnext, hres]
        have hxF : x ∈ (window (c0 :: R0)).filter (nextMatch s) := List.mem_filter.mpr ⟨hxW, hxm⟩
        split
        · rename_i c hc
          obtain ⟨hcF, hcmin⟩ := pickMinAfter_some _ _ hc
          have hcW := (List.mem_filter.mp hcF).1
          have hcm := (List.mem_filter.mp hcF).2
          simp only [nextMatch, Bool.and_eq_true, beq_iff_eq] at hcm hxm
          have hcR := window_mem _ c hcW
          have hcL : c ∈ x :: T := hperm.mem_iff.mpr hcR
          have hT : Lin s.next.2 T := by
            have := hlin.2.2.2; simp only [hxnext, SeqState.step] at this; exact this
          -- a linearization of the rest, from the state after one NextSequenceNumber
          have hex' : ∃ L3, L3.Perm ((c0 :: R0).erase c) ∧ Lin s.next.2 L3 := by
            by_cases hcx : c = x
            · subst hcx
              refine ⟨T, ?_, hT⟩
              have := hperm.erase c
              simpa using this
            · have hcT : c ∈ T := by
                rcases List.mem_cons.mp hcL with h | h
                · exact absurd h hcx
                · exact h
              obtain ⟨A, B, _, hAB, herase⟩ := List.exists_erase_eq hcT
              refine ⟨A ++ x :: B, ?_, ?_⟩
              · have h1 := hperm.erase c
                have h2 : (x :: T).erase c = x :: (A ++ B) := by
                  rw [List.erase_cons_tail (by simpa using fun h => hcx h.symm), herase]
                rw [h2] at h1
                exact List.perm_middle.trans h1
              · refine lin_replace (by rw [hxnext, hcm.1]) (by rw [hxm.2, hcm.2]) hlin.1 (hcmin x hxF) ?_ (hAB ▸ hT)
                intro z hz
                exact hlin.2.2.1 z (hAB ▸ List.mem_append_right _ (List.mem_cons_of_mem _ hz))
          obtain ⟨L'', hg, hl⟩ := ih s.next.2 _ (hlen c hcR) (sorted_erase hs c) hex'
          refine ⟨c :: L'', by rw [hg]; rfl, ?_⟩
          refine ⟨hwfR c hcR, ?_, ?_, ?_⟩
          · rw [hcm.1]; simp only [SeqState.step]; exact hcm.2
          · intro y hy
            exact window_placeable _ hs hwfR c hcW y
              (List.mem_of_mem_erase ((greedy_perm _ _ _ _ hg).mem_iff.mp hy))
          · rw [hcm.1]; simp only [SeqState.step]; exact hl
        · rename_i hn
          have := pickMinAfter_none _ hn
          rw [this] at hxF; cases hxF

/-! ### the check decides linearizability -/

theorem byBefore_sorted (H : List Call) : Sorted (H.mergeSort byBefore) := by
  have := List.pairwise_mergeSort (le := byBefore)
    (by intro a b c h1 h2; simp only [byBefore, decide_eq_true_eq] at *; omega)
    (by intro a b; simp only [byBefore, Bool.or_eq_true, decide_eq_true_eq]; omega) H
  exact this.imp (by intro a b h; simpa [byBefore] using h)

theorem findLin_eq (s : SeqState) (H : List Call) :
    findLin s H = greedy H.length s (H.mergeSort byBefore) := by
  simp [findLin, greedyTR_eq]

theorem linearizable_sound (s : SeqState) (H : List Call) (h : linearizable s H = true) : Linearizable s H := by
  simp only [linearizable] at h
  split at h
  · rename_i L hL
    rw [findLin_eq] at hL
    exact ⟨L, (greedy_perm _ _ _ _ hL).trans (List.mergeSort_perm _ _), h⟩
  · cases h

theorem linearizable_complete (s : SeqState) (H : List Call) (h : Linearizable s H) : linearizable s H = true := by
  obtain ⟨L, hperm, hlin⟩ := h
  have hperm' : L.Perm (H.mergeSort byBefore) := hperm.trans (List.mergeSort_perm _ _).symm
  obtain ⟨L', hg, hl⟩ := greedy_complete H.length s (H.mergeSort byBefore)
    (by rw [(List.mergeSort_perm H byBefore).length_eq]; exact Nat.le_refl _)
    (byBefore_sorted H) ⟨L, hperm', (isLin_iff s L).mp hlin⟩
  simp only [linearizable, findLin_eq, hg]
  exact (isLin_iff s L').mpr hl

end Rtp.Proofs.Linearize
