/-
  Rtp/Proofs/AV1PayIdx.lean — the checked model of AV1Payloader.Payload never fails an index or
  slice check and computes what the byte-level transcription `payloadB` computes.
-/
import Rtp.Model.AV1PayIdx
import Rtp.Proofs.AV1DepackIdx
import Rtp.Proofs.AV1Pay
namespace Rtp.Model.AV1B
open Rtp Rtp.Model Rtp.Model.AV1
open Rtp.Model.ObuLemmas

/-- every payload in the list has its byte 0 -/
def AllNe (ps : List Bytes) : Prop := ∀ p ∈ ps, p ≠ []

theorem takeC_ok (l : Bytes) (k : Nat) (h : k ≤ l.length) : takeC l k = some (l.take k) := by
  simp [takeC, h]

theorem fromC_ok (l : Bytes) (k : Nat) (h : k ≤ l.length) : fromC l k = some (l.drop k) := by
  simp [fromC, h]

theorem orHdrC_ok (m : UInt8) (p : Bytes) (h : p ≠ []) : orHdrC m p = some (orHdr m p) := by
  cases p with
  | nil => exact absurd rfl h
  | cons b r => rfl

theorem orHdr_ne (m : UInt8) (p : Bytes) (h : p ≠ []) : orHdr m p ≠ [] := by
  cases p with
  | nil => exact absurd rfl h
  | cons b r => simp [orHdr]

theorem setYC_ok (ps : List Bytes) (h : AllNe ps) (hne : ps ≠ []) :
    setYC ps = some (setYB ps) ∧ AllNe (setYB ps) ∧ setYB ps ≠ [] := by
  cases ps with
  | nil => exact absurd rfl hne
  | cons p r =>
    have hp : p ≠ [] := h p (by simp)
    refine ⟨by simp [setYC, setYB, orHdrC_ok _ p hp], ?_, by simp [setYB]⟩
    intro q hq
    simp only [setYB, List.mem_cons] at hq
    rcases hq with rfl | hq
    · exact orHdr_ne _ p hp
    · exact h q (by simp [hq])

theorem fragLoopC_eq (mtu : Nat) (isLast : Bool) (fuel : Nat) (rem : Bytes) (wrote : Nat)
    (ps : List Bytes) (cnt : Nat) (hall : AllNe ps) (hne : wrote ≠ 0 → ps ≠ []) :
    fragLoopC mtu isLast fuel rem wrote ps cnt = some (fragLoopB mtu isLast fuel rem wrote ps cnt) ∧
    AllNe (fragLoopB mtu isLast fuel rem wrote ps cnt).1 := by
  induction fuel generalizing rem wrote ps cnt with
  | zero => exact ⟨rfl, hall⟩
  | succ f ih =>
    rw [fragLoopC, fragLoopB]
    by_cases hr : rem.isEmpty = true
    · simp only [hr, if_true]; exact ⟨trivial, hall⟩
    · simp only [hr, Bool.false_eq_true, if_false]
      -- the Y bit on the previous payload
      have hy : (if (wrote != 0) = true then setYC ps else some ps) =
            some (if (wrote != 0) = true then setYB ps else ps) ∧
          AllNe (if (wrote != 0) = true then setYB ps else ps) := by
        by_cases hw : (wrote != 0) = true
        · have hw' : wrote ≠ 0 := by simpa using hw
          obtain ⟨a, b, _⟩ := setYC_ok ps hall (hne hw')
          simp only [hw, if_true]; exact ⟨a, b⟩
        · simp only [hw, Bool.false_eq_true, if_false]; exact ⟨trivial, hall⟩
      rw [hy.1]
      dsimp only
      have hk := computeWriteSize_le (min rem.length (mtu - 1)) (mtu - 1)
      by_cases hc : (isLast || decide (rem.length ≥ mtu - 1)) = true
      · simp only [hc, if_true]
        rw [takeC_ok rem _ (Nat.min_le_left _ _), fromC_ok rem _ (Nat.min_le_left _ _)]
        dsimp only
        refine ih _ _ _ _ ?_ (fun _ => by simp)
        intro q hq
        simp only [List.mem_cons] at hq
        rcases hq with rfl | hq
        · simp
        · exact hy.2 q hq
      · simp only [hc, Bool.false_eq_true, if_false]
        have hle : computeWriteSize (min rem.length (mtu - 1)) (mtu - 1) ≤ rem.length := by
          have := Nat.min_le_left rem.length (mtu - 1); omega
        rw [takeC_ok rem _ hle, fromC_ok rem _ hle]
        dsimp only
        refine ih _ _ _ _ ?_ (fun _ => by simp)
        intro q hq
        simp only [List.mem_cons] at hq
        rcases hq with rfl | hq
        · simp
        · exact hy.2 q hq

theorem basePkB_ne (ps : List Bytes) (newSeq startNew : Bool) (mtu count : Nat) (hall : AllNe ps) :
    (basePkB ps newSeq startNew mtu count).1 ≠ [] ∧ AllNe (basePkB ps newSeq startNew mtu count).2.1 := by
  unfold basePkB
  cases ps with
  | nil => exact ⟨by simp, by intro q hq; simp at hq⟩
  | cons q qs =>
    dsimp only
    split
    · exact ⟨by simp, hall⟩
    · exact ⟨hall q (by simp), fun x hx => hall x (by simp [hx])⟩

theorem appendObuC_eq (ps : List Bytes) (obu : Bytes) (newSeq isLast startNew : Bool) (mtu count : Nat)
    (hall : AllNe ps) :
    appendObuC ps obu newSeq isLast startNew mtu count =
      some (appendObuB ps obu newSeq isLast startNew mtu count) ∧
    AllNe (appendObuB ps obu newSeq isLast startNew mtu count).1 := by
  obtain ⟨hp, hrest⟩ := basePkB_ne ps newSeq startNew mtu count hall
  unfold appendObuC appendObuB
  generalize basePkB ps newSeq startNew mtu count = b at *
  obtain ⟨p, rest, c⟩ := b
  dsimp only at *
  have cons_all : ∀ x : Bytes, x ≠ [] → AllNe (x :: rest) := by
    intro x hx q hq
    simp only [List.mem_cons] at hq
    rcases hq with rfl | hq
    · exact hx
    · exact hrest q hq
  by_cases hc1 : ((isLast || decide (min obu.length (mtu - p.length) ≥ mtu - p.length)) && decide (c < 3)) = true
  · simp only [hc1, if_true]
    rw [orHdrC_ok _ p hp, takeC_ok obu _ (Nat.min_le_left _ _), fromC_ok obu _ (Nat.min_le_left _ _)]
    dsimp only
    exact fragLoopC_eq _ _ _ _ _ _ _ (cons_all _ (by
      have := orHdr_ne (((c + 1) <<< 4).toUInt8 &&& 0x30) p hp
      intro h; exact this (List.append_eq_nil_iff.mp h).1)) (fun _ => by simp)
  · simp only [hc1, Bool.false_eq_true, if_false]
    by_cases hc2 : mtu - p.length ≥ 2
    · simp only [hc2, if_true]
      have hk := computeWriteSize_le (min obu.length (mtu - p.length)) (mtu - p.length)
      have hle : computeWriteSize (min obu.length (mtu - p.length)) (mtu - p.length) ≤ obu.length := by
        have := Nat.min_le_left obu.length (mtu - p.length); omega
      rw [takeC_ok obu _ hle, fromC_ok obu _ hle]
      dsimp only
      exact fragLoopC_eq _ _ _ _ _ _ _ (cons_all _ (by
        intro h; exact hp (List.append_eq_nil_iff.mp (List.append_eq_nil_iff.mp h).1).1)) (fun _ => by simp)
    · simp only [hc2, if_false]
      exact fragLoopC_eq _ _ _ _ _ _ _ (cons_all _ hp) (fun h => absurd rfl h)

/-- the scanning loop: every slice of `payload` is in range -/
theorem walkC_eq (payload : Bytes) (fuel offset : Nat) (ho : offset ≤ payload.length) :
    walkC payload fuel offset = some (walk fuel (payload.drop offset)) := by
  induction fuel generalizing offset with
  | zero => rfl
  | succ f ih =>
    rw [walkC, walk]
    by_cases hlt : offset < payload.length
    · simp only [hlt, not_true_eq_false, if_false, fromC_ok payload offset ho]
      cases hp : parseObuHeader (payload.drop offset) with
      | ok h =>
        have hsz := parse_size_le _ h hp
        simp only [List.length_drop] at hsz
        have ho1 : offset + h.size ≤ payload.length := by omega
        have hdd : (payload.drop offset).drop h.size = payload.drop (offset + h.size) := by
          rw [List.drop_drop]
        dsimp only
        rw [hdd]
        by_cases hs : h.hasSize = true
        · simp only [hs, if_true, fromC_ok payload _ ho1]
          cases hr : readLebGo (payload.drop (offset + h.size)) with
          | none => rfl
          | some vk =>
            obtain ⟨v, k⟩ := vk
            obtain ⟨_, hk2⟩ := readLebGo_bounds _ v k hr
            simp only [List.length_drop] at hk2
            have ho2 : offset + h.size + k ≤ payload.length := by omega
            have hdd2 : (payload.drop (offset + h.size)).drop k = payload.drop (offset + h.size + k) := by
              rw [List.drop_drop]
            dsimp only
            rw [hdd2]
            simp only [List.length_drop]
            by_cases hv : v.toNat > payload.length - (offset + h.size + k)
            · simp only [hv, if_true]
            · simp only [hv, if_false]
              have ho3 : offset + h.size + k + v.toNat ≤ payload.length := by omega
              rw [sliceC_ok payload _ _ ho3, ih _ ho3, List.drop_drop]
              rfl
        · simp only [hs, Bool.false_eq_true, if_false]
          have ho3 : offset + h.size + (payload.length - (offset + h.size)) ≤ payload.length := by omega
          rw [sliceC_ok payload _ _ ho3]
          have : (payload.drop (offset + h.size)).take (payload.length - (offset + h.size)) =
              payload.drop (offset + h.size) := by
            apply List.take_of_length_le; simp
          rw [this]
      | err e => rfl
      | panic => rfl
    · have : offset = payload.length := by omega
      subst this
      simp [parseObuHeader]

theorem stepC_eq (mtu : Nat) (s : PStB) (hb : ObuHeader × Bytes) (hall : AllNe s.out) :
    stepC mtu s hb = some (stepB mtu s hb) ∧ AllNe (stepB mtu s hb).out := by
  obtain ⟨ha, hb'⟩ := appendObuC_eq s.out s.pending s.newSeq (needNew s.cur hb.1) s.startNew mtu s.count hall
  unfold stepC stepB
  dsimp only
  by_cases hp : s.pending.isEmpty = true
  · simp only [hp, if_true, Option.map_some]
    refine ⟨rfl, ?_⟩
    split <;> (cases hb.1.ext <;> (dsimp only; split <;> exact hall))
  · simp only [hp, Bool.false_eq_true, if_false, ha, Option.map_some]
    refine ⟨rfl, ?_⟩
    split <;> (cases hb.1.ext <;> (dsimp only; split <;> exact hb'))

theorem foldC_eq (mtu : Nat) (l : List (ObuHeader × Bytes)) (s : PStB) (hall : AllNe s.out) :
    foldC mtu s l = some (l.foldl (stepB mtu) s) ∧ AllNe (l.foldl (stepB mtu) s).out := by
  induction l generalizing s with
  | nil => exact ⟨rfl, hall⟩
  | cons hb l ih =>
    obtain ⟨h1, h2⟩ := stepC_eq mtu s hb hall
    simp only [foldC, h1, List.foldl_cons]
    exact ih _ h2

/-- no index or slice expression of Payload can panic, and the checked model computes `payloadB` -/
theorem payloadC_eq (mtu : UInt16) (data : Bytes) : payloadC mtu data = some (payloadB mtu data) := by
  unfold payloadC payloadB
  split
  · rfl
  · have hw := walkC_eq data data.length 0 (Nat.zero_le _)
    simp only [List.drop_zero] at hw
    obtain ⟨hf, hall⟩ := foldC_eq mtu.toNat (walk data.length data) {} (by intro p hp; simp at hp)
    simp only [hw, hf]
    unfold finishC finishB
    split
    · rfl
    · obtain ⟨ha, _⟩ := appendObuC_eq ((walk data.length data).foldl (stepB mtu.toNat) {}).out
        ((walk data.length data).foldl (stepB mtu.toNat) {}).pending
        ((walk data.length data).foldl (stepB mtu.toNat) {}).newSeq true
        ((walk data.length data).foldl (stepB mtu.toNat) {}).startNew mtu.toNat
        ((walk data.length data).foldl (stepB mtu.toNat) {}).count hall
      simp only [ha, Option.map_some]

end Rtp.Model.AV1B
