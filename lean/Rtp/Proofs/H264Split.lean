/-
  Rtp/Proofs/H264Split.lean — the Annex-B splitter (`emitNalus`, Rtp/Model/AnnexB.lean) returns
  exactly the NAL units of a well-formed Annex-B stream, for 3- and 4-byte start codes (c10_split).
-/
import Rtp.Model.AnnexB
import Rtp.Spec.Rfc6184
namespace Rtp.Proofs.H264
open Rtp Rtp.Model Rtp.Spec.Rfc6184

/-! ### `indexSC` -/

theorem indexSC_sc (r : Bytes) : indexSC (0 :: 0 :: 1 :: r) = some 0 := by
  simp [indexSC]

theorem indexSC_cons_of_not (a : UInt8) (t : Bytes) (h : ∀ r, a :: t ≠ 0 :: 0 :: 1 :: r) :
    indexSC (a :: t) = (indexSC t).map (· + 1) := by
  conv => lhs; unfold indexSC
  split
  · rename_i r heq
    exact absurd heq (h r)
  · rename_i heq
    simp at heq
    obtain ⟨_, rfl⟩ := heq
    rfl
  · rename_i heq; simp at heq

theorem hasSC_cons_of_not (a : UInt8) (t : Bytes) (h : ∀ r, a :: t ≠ 0 :: 0 :: 1 :: r) :
    hasSC (a :: t) = hasSC t := by
  conv => lhs; unfold hasSC
  split
  · rename_i r heq
    exact absurd heq (h r)
  · rename_i heq
    simp at heq
    obtain ⟨_, rfl⟩ := heq
    rfl
  · rename_i heq; simp at heq

theorem indexSC_none_of_hasSC (l : Bytes) (h : hasSC l = false) : indexSC l = none := by
  induction l with
  | nil => simp [indexSC]
  | cons a t ih =>
    by_cases hp : ∃ r, a :: t = 0 :: 0 :: 1 :: r
    · obtain ⟨r, e⟩ := hp
      rw [e] at h
      simp [hasSC] at h
    · have hp' : ∀ r, a :: t ≠ 0 :: 0 :: 1 :: r := fun r e => hp ⟨r, e⟩
      rw [hasSC_cons_of_not a t hp'] at h
      rw [indexSC_cons_of_not a t hp', ih h]
      rfl

/-- a unit without start code and without trailing zero in front of anything: the first start
    code is the first one of what follows -/
theorem indexSC_append (n y : Bytes) (h : hasSC n = false) (hl : n.getLast? ≠ some 0) :
    indexSC (n ++ y) = (indexSC y).map (· + n.length) := by
  induction n with
  | nil => simp
  | cons a t ih =>
    cases t with
    | nil =>
      have ha : a ≠ 0 := by simpa using hl
      rw [List.singleton_append, indexSC_cons_of_not a y (by intro r e; simp at e; exact ha e.1)]
      simp
    | cons b t' =>
      have hp : ∀ r, a :: b :: t' ≠ 0 :: 0 :: 1 :: r := by
        intro r e; rw [e] at h; simp [hasSC] at h
      rw [hasSC_cons_of_not a (b :: t') hp] at h
      have hl' : (b :: t').getLast? ≠ some 0 := by simpa using hl
      have hp2 : ∀ r, a :: ((b :: t') ++ y) ≠ 0 :: 0 :: 1 :: r := by
        intro r e
        cases t' with
        | nil =>
          simp at e
          have : b ≠ 0 := by simpa using hl'
          exact this e.2.1
        | cons c t'' =>
          simp at e
          apply hp (t'' )
          simp [e.1, e.2.1, e.2.2.1]
      rw [List.cons_append, indexSC_cons_of_not a _ hp2, ih h hl']
      cases indexSC y <;> simp <;> omega

/-! ### `splitRest`, `emitNalus` -/

theorem splitRest_none (rest : Bytes) (h : indexSC rest = none) : splitRest rest = [rest] := by
  rw [splitRest]
  split
  · rfl
  · rename_i e he; rw [h] at he; cases he

theorem splitRest_some (rest : Bytes) (e : Nat) (h : indexSC rest = some e) :
    splitRest rest =
      rest.take (if (decide (0 < e) && (rest.getD (e - 1) 1 == 0)) then e - 1 else e) ::
        splitRest (rest.drop (e + 3)) := by
  rw [splitRest]
  split
  · rename_i he; rw [h] at he; cases he
  · rename_i e' he
    rw [h] at he
    cases he
    rfl

def nalOk (n : Bytes) : Prop := n ≠ [] ∧ hasSC n = false ∧ n.getLast? ≠ some 0

theorem nalOk_of_wf (n : Bytes) (h : nalWF n = true) : nalOk n := by
  cases n with
  | nil => simp [nalWF] at h
  | cons a t =>
    simp only [nalWF, Bool.and_eq_true, Bool.not_eq_true', bne_iff_ne, ne_eq] at h
    exact ⟨by simp, h.1.2, h.2⟩

/-- what follows a start code, when it begins with a well-formed unit -/
theorem splitRest_units (n : Bytes) (hn : nalOk n) (r : List (Bool × Bytes))
    (hr : ∀ u ∈ r, nalOk u.2) :
    splitRest (n ++ annexB r) = n :: r.map (·.2) := by
  induction r generalizing n with
  | nil =>
    simp only [annexB, List.append_nil, List.map_nil]
    exact splitRest_none n (indexSC_none_of_hasSC n hn.2.1)
  | cons u r ih =>
    obtain ⟨four, n'⟩ := u
    have hn' : nalOk n' := hr (four, n') (by simp)
    have ih' := ih n' hn' (fun u hu => hr u (by simp [hu]))
    cases four with
    | false =>
      have hidx : indexSC (n ++ annexB ((false, n') :: r)) = some n.length := by
        rw [indexSC_append n _ hn.2.1 hn.2.2]
        simp [annexB, indexSC_sc]
      rw [splitRest_some _ _ hidx]
      have hlast : (n ++ annexB ((false, n') :: r)).getD (n.length - 1) 1 ≠ 0 := by
        obtain ⟨hne, _, hl⟩ := hn
        have hpos : 0 < n.length := List.length_pos_iff.mpr hne
        rw [List.getD_eq_getElem?_getD, List.getElem?_append_left (by omega)]
        rw [List.getLast?_eq_getElem?] at hl
        cases hq : n[n.length - 1]? with
        | none => simp
        | some v => rw [hq] at hl; simpa using hl
      have hfour : (decide (0 < n.length) && ((n ++ annexB ((false, n') :: r)).getD (n.length - 1) 1 == 0)) = false := by
        have : ((n ++ annexB ((false, n') :: r)).getD (n.length - 1) 1 == 0) = false := by
          simpa using hlast
        rw [this]; simp
      rw [hfour]
      simp only [Bool.false_eq_true, if_false, List.take_left']
      congr 1
      have : (n ++ annexB ((false, n') :: r)).drop (n.length + 3) = n' ++ annexB r := by
        rw [← List.drop_drop, List.drop_left]
        simp [annexB]
      rw [this, ih']
      rfl
    | true =>
      have hidx : indexSC (n ++ annexB ((true, n') :: r)) = some (n.length + 1) := by
        rw [indexSC_append n _ hn.2.1 hn.2.2]
        have : indexSC (annexB ((true, n') :: r)) = some 1 := by
          simp only [annexB, if_true, List.cons_append, List.nil_append]
          rw [indexSC_cons_of_not 0 _ (by intro r e; simp at e), indexSC_sc]
          rfl
        rw [this]; simp; omega
      rw [splitRest_some _ _ hidx]
      have hfour : (decide (0 < n.length + 1) && ((n ++ annexB ((true, n') :: r)).getD (n.length + 1 - 1) 1 == 0)) = true := by
        simp [List.getD_eq_getElem?_getD, annexB]
      rw [hfour]
      simp only [if_true, Nat.add_sub_cancel, List.take_left']
      congr 1
      have : (n ++ annexB ((true, n') :: r)).drop (n.length + 1 + 3) = n' ++ annexB r := by
        rw [show n.length + 1 + 3 = n.length + 4 by omega, ← List.drop_drop, List.drop_left]
        simp [annexB]
      rw [this, ih']
      rfl

/-- c10_split, list form: the splitter returns exactly the units of a well-formed Annex-B stream -/
theorem emitNalus_annexB (units : List (Bool × Bytes)) (hne : units ≠ [])
    (h : ∀ u ∈ units, nalOk u.2) : emitNalus (annexB units) = units.map (·.2) := by
  cases units with
  | nil => exact absurd rfl hne
  | cons u r =>
    obtain ⟨four, n⟩ := u
    have hn := h (four, n) (by simp)
    have hr : ∀ u ∈ r, nalOk u.2 := fun u hu => h u (by simp [hu])
    cases four with
    | false =>
      simp only [annexB, Bool.false_eq_true, if_false, List.cons_append, List.nil_append, emitNalus,
        indexSC_sc]
      simpa using splitRest_units n hn r hr
    | true =>
      have : indexSC (annexB ((true, n) :: r)) = some 1 := by
        simp only [annexB, if_true, List.cons_append, List.nil_append]
        rw [indexSC_cons_of_not 0 _ (by intro r e; simp at e), indexSC_sc]
        rfl
      simp only [emitNalus, this]
      simpa [annexB] using splitRest_units n hn r hr

/-- a bare unit (no start code at all) is emitted whole -/
theorem emitNalus_bare (n : Bytes) (hn : nalOk n) : emitNalus n = [n] := by
  simp [emitNalus, indexSC_none_of_hasSC n hn.2.1]

end Rtp.Proofs.H264
