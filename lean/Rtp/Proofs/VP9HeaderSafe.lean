/-
  Rtp/Proofs/VP9HeaderSafe.lean — vp9.Header.Unmarshal never panics: every unchecked read
  (`readBitsUnsafe`, `readFlagUnsafe`) is preceded by a `hasSpace` that covers it.
-/
import Rtp.Proofs.VP9Bits
namespace Rtp.Proofs.VP9Bits
open Rtp Rtp.Model

/-- "returns a value or an error" -/
def NP {α} (r : Res α) : Prop := r ≠ .panic

theorem np_err {α} (e : Err) : NP (Res.err e : Res α) := by simp [NP]
theorem np_ok {α} (a : α) : NP (Res.ok a) := by simp [NP]

theorem np_bind {α β} (r : Res α) (f : α → Res β) (hr : NP r) (hf : ∀ a, r = .ok a → NP (f a)) :
    NP (r >>= f) := by
  cases r with
  | ok a => exact hf a rfl
  | err e => simp [NP, bind, Res.bind]
  | panic => exact absurd rfl hr

theorem space_iff (buf : Bytes) (pos n : Nat) : vp9HasSpace buf pos n = true ↔ pos + n ≤ 8 * buf.length := by
  simp [vp9HasSpace]; omega

theorem rfU (buf : Bytes) (pos : Nat) (h : pos < 8 * buf.length) :
    ∃ v, vp9ReadFlagUnsafe buf pos = .ok (v, pos + 1) := ⟨_, readFlagUnsafe_eq buf pos h⟩

theorem rbU (buf : Bytes) (pos n : Nat) (hn : 0 < n) (h64 : n ≤ 64) (h : pos + n ≤ 8 * buf.length) :
    ∃ v, vp9ReadBitsUnsafe buf pos n = .ok (v, pos + n) := ⟨_, readBitsUnsafe_eq buf pos n hn h64 h⟩

theorem rf (buf : Bytes) (pos : Nat) :
    vp9ReadFlag buf pos = .err .other ∨ (pos < 8 * buf.length ∧ ∃ v, vp9ReadFlag buf pos = .ok (v, pos + 1)) := by
  unfold vp9ReadFlag
  by_cases h : vp9HasSpace buf pos 1 = true
  · have := (space_iff buf pos 1).mp h
    obtain ⟨v, hv⟩ := rfU buf pos (by omega)
    exact Or.inr ⟨by omega, v, by simp [h, hv]⟩
  · exact Or.inl (by simp [h])

theorem rb (buf : Bytes) (pos n : Nat) (hn : 0 < n) (h64 : n ≤ 64) :
    vp9ReadBits buf pos n = .err .other ∨
      (pos + n ≤ 8 * buf.length ∧ ∃ v, vp9ReadBits buf pos n = .ok (v, pos + n)) := by
  unfold vp9ReadBits
  by_cases h : vp9HasSpace buf pos n = true
  · have := (space_iff buf pos n).mp h
    obtain ⟨v, hv⟩ := rbU buf pos n hn h64 this
    exact Or.inr ⟨this, v, by simp [h, hv]⟩
  · exact Or.inl (by simp [h])

theorem colorConfig_np (profile : UInt8) (buf : Bytes) (pos : Nat) :
    NP (vp9ColorConfigUnmarshal profile buf pos) := by
  unfold vp9ColorConfigUnmarshal
  apply np_bind
  · split
    · rcases rf buf pos with h | ⟨_, v, h⟩ <;> simp [h, NP, bind, Res.bind]
    · exact np_ok _
  · intro ⟨c, pos1⟩ _
    simp only
    rcases rb buf pos1 3 (by decide) (by decide) with h | ⟨_, v, h⟩
    · simp [h, NP, bind, Res.bind]
    · simp only [h, Res.bind_ok]
      split
      · rcases rf buf (pos1 + 3) with h2 | ⟨_, v2, h2⟩
        · simp [h2, NP, bind, Res.bind]
        · simp only [h2, Res.bind_ok]
          split
          · split
            · rename_i hs
              have hs' := (space_iff _ _ _).mp hs
              obtain ⟨a, ha⟩ := rfU buf (pos1 + 3 + 1) (by omega)
              obtain ⟨b, hb⟩ := rfU buf (pos1 + 3 + 1 + 1) (by omega)
              simp [ha, hb, NP]
            · exact np_err _
          · exact np_ok _
      · split
        · split
          · exact np_ok _
          · exact np_err _
        · exact np_ok _

theorem frameSize_np (buf : Bytes) (pos : Nat) : NP (vp9FrameSizeUnmarshal buf pos) := by
  unfold vp9FrameSizeUnmarshal
  split
  · rename_i hs
    have hs' := (space_iff _ _ _).mp hs
    obtain ⟨a, ha⟩ := rbU buf pos 16 (by decide) (by decide) (by omega)
    obtain ⟨b, hb⟩ := rbU buf (pos + 16) 16 (by decide) (by decide) (by omega)
    simp [ha, hb, NP]
  · exact np_err _

theorem keyPart_np (h : Vp9Header) (buf : Bytes) (pos : Nat) : NP (vp9HeaderKeyPart h buf pos) := by
  unfold vp9HeaderKeyPart
  split
  · rename_i hs
    have hs' := (space_iff _ _ _).mp hs
    obtain ⟨a, ha⟩ := rbU buf pos 8 (by decide) (by decide) (by omega)
    obtain ⟨b, hb⟩ := rbU buf (pos + 8) 8 (by decide) (by decide) (by omega)
    obtain ⟨c, hc⟩ := rbU buf (pos + 8 + 8) 8 (by decide) (by decide) (by omega)
    simp only [ha, hb, hc, Res.bind_ok]
    split
    · exact np_err _
    · split
      · exact np_err _
      · split
        · exact np_err _
        · apply np_bind _ _ (colorConfig_np _ _ _)
          intro ⟨cc, pos2⟩ _
          apply np_bind _ _ (frameSize_np _ _)
          intro ⟨fs, _⟩ _
          exact np_ok _
  · exact np_err _

/-- vp9.Header.Unmarshal returns (a header or an error) for every input: it never panics -/
theorem header_nopanic (buf : Bytes) : vp9HeaderUnmarshal buf ≠ .panic := by
  show NP (vp9HeaderUnmarshal buf)
  unfold vp9HeaderUnmarshal
  split
  · rename_i hs
    have hs' := (space_iff _ _ _).mp hs
    obtain ⟨a, ha⟩ := rbU buf 0 2 (by decide) (by decide) (by omega)
    obtain ⟨b, hb⟩ := rbU buf (0 + 2) 1 (by decide) (by decide) (by omega)
    obtain ⟨c, hc⟩ := rbU buf (0 + 2 + 1) 1 (by decide) (by decide) (by omega)
    simp only [ha, hb, hc, Res.bind_ok]
    split
    · exact np_err _
    · apply np_bind
      · split
        · split
          · exact np_ok _
          · exact np_err _
        · exact np_ok _
      · intro pos1 _
        rcases rf buf pos1 with h | ⟨_, v, h⟩
        · simp [h, NP, bind, Res.bind]
        · simp only [h, Res.bind_ok]
          split
          · rcases rb buf (pos1 + 1) 3 (by decide) (by decide) with h2 | ⟨_, v2, h2⟩
            · simp [h2, NP, bind, Res.bind]
            · simp [h2, NP]
          · split
            · rename_i hs2
              have hs2' := (space_iff _ _ _).mp hs2
              obtain ⟨x, hx⟩ := rfU buf (pos1 + 1) (by omega)
              obtain ⟨y, hy⟩ := rfU buf (pos1 + 1 + 1) (by omega)
              obtain ⟨z, hz⟩ := rfU buf (pos1 + 1 + 1 + 1) (by omega)
              simp only [hx, hy, hz, Res.bind_ok]
              split
              · exact keyPart_np _ _ _
              · exact np_ok _
            · exact np_err _
  · exact np_err _

end Rtp.Proofs.VP9Bits
