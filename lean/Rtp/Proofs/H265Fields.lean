/-
  Rtp/Proofs/H265Fields.lean — every mask/shift accessor of codecs/h265_packet.go is the div/mod
  field of RFC 7798, for all values (algebraic: Rtp/Go/Bits.lean + omega; per byte: forall_u8).
-/
import Rtp.Go.Bits
import Rtp.Model.H265Obs
namespace Rtp.Model.H265
open Rtp Rtp.Bits Rtp.Spec.Rfc7798

/-- `x &&& 2^i ≠ 0` tests bit `i` -/
theorem bit_ne_zero (x i : Nat) : (x &&& 2 ^ i ≠ 0) ↔ x / 2 ^ i % 2 = 1 := by
  have ht : x.testBit i = decide (x / 2 ^ i % 2 = 1) := Nat.testBit_eq_decide_div_mod_eq
  constructor
  · intro h
    obtain ⟨k, hk⟩ := Nat.exists_testBit_of_ne_zero h
    rw [Nat.testBit_and, Nat.testBit_two_pow] at hk
    simp at hk
    obtain ⟨h1, rfl⟩ := hk
    rw [ht] at h1
    simpa using h1
  · intro h h0
    have : (x &&& 2 ^ i).testBit i = true := by
      rw [Nat.testBit_and, Nat.testBit_two_pow, ht]; simp [h]
    rw [h0] at this
    simp at this

theorem mul_or (a b j : Nat) (hb : b < 2 ^ j) : (a * 2 ^ j) ||| b = a * 2 ^ j + b := by
  rw [← nat_shl_or a b j hb, Nat.shiftLeft_eq]

theorem or3 (a b c : Nat) (hb : b < 256) (hc : c < 256) :
    a <<< 24 ||| b <<< 16 ||| c <<< 8 = a * 2 ^ 24 + b * 2 ^ 16 + c * 2 ^ 8 := by
  have e1 : a <<< 24 = (a * 2 ^ 8) <<< 16 := by simp only [Nat.shiftLeft_eq]; omega
  have e2 : (a * 2 ^ 8) <<< 16 ||| b <<< 16 = (a * 2 ^ 8 + b) <<< 16 := by
    rw [← Nat.shiftLeft_or_distrib, mul_or a b 8 (by omega)]
  have e3 : (a * 2 ^ 8 + b) <<< 16 = ((a * 2 ^ 8 + b) * 2 ^ 8) <<< 8 := by
    simp only [Nat.shiftLeft_eq]; omega
  have e4 : ((a * 2 ^ 8 + b) * 2 ^ 8) <<< 8 ||| c <<< 8 = ((a * 2 ^ 8 + b) * 2 ^ 8 + c) <<< 8 := by
    rw [← Nat.shiftLeft_or_distrib, mul_or (a * 2 ^ 8 + b) c 8 (by omega)]
  rw [e1, e2, e3, e4, Nat.shiftLeft_eq]; omega

/-! ### H265NALUHeader -/

theorem hdrF_eq (h : UInt16) : hdrF h = (h.toNat / 32768 == 1) := by
  have h1 : h.toNat < 65536 := h.toNat_lt
  rw [Bool.eq_iff_iff]
  simp [hdrF, bne_iff_ne, ← UInt16.toNat_inj, UInt16.toNat_shiftRight, Nat.shiftRight_eq_div_pow]
  omega

theorem hdrType_toNat (h : UInt16) : (hdrType h).toNat = h.toNat / 512 % 64 := by
  simp only [hdrType, UInt16.toNat_toUInt8, UInt16.toNat_shiftRight, UInt16.toNat_and]
  have := nat_and_shl_shr h.toNat 9 6
  simp at this ⊢
  rw [this]; omega

theorem hdrLayer_toNat (h : UInt16) : (hdrLayer h).toNat = h.toNat / 8 % 64 := by
  simp only [hdrLayer, UInt16.toNat_toUInt8, UInt16.toNat_shiftRight, UInt16.toNat_and]
  have := nat_and_shl_shr h.toNat 3 6
  simp at this ⊢
  rw [this]; omega

theorem hdrTid_toNat (h : UInt16) : (hdrTid h).toNat = h.toNat % 8 := by
  simp only [hdrTid, UInt16.toNat_toUInt8, UInt16.toNat_and]
  have := nat_and_mask h.toNat 3
  simp at this ⊢
  rw [this]; omega

/-- facts about one byte, settled by evaluating all 256 -/
theorem u8_vcl : ∀ t : UInt8, ((t &&& 0x20) == 0) = decide (t.toNat % 64 < 32) := by
  apply forall_u8; decide +kernel

theorem hdrIsVCL_eq (h : UInt16) : hdrIsVCL h = decide (h.toNat / 512 % 64 < 32) := by
  rw [hdrIsVCL, u8_vcl, hdrType_toNat]
  congr 1
  apply propext
  constructor <;> intro <;> omega

theorem hdrIsAgg_eq (h : UInt16) : hdrIsAgg h = (h.toNat / 512 % 64 == 48) := by
  rw [Bool.eq_iff_iff]; simp [hdrIsAgg, ← UInt8.toNat_inj, hdrType_toNat]

theorem hdrIsFU_eq (h : UInt16) : hdrIsFU h = (h.toNat / 512 % 64 == 49) := by
  rw [Bool.eq_iff_iff]; simp [hdrIsFU, ← UInt8.toNat_inj, hdrType_toNat]

theorem hdrIsPACI_eq (h : UInt16) : hdrIsPACI h = (h.toNat / 512 % 64 == 50) := by
  rw [Bool.eq_iff_iff]; simp [hdrIsPACI, ← UInt8.toNat_inj, hdrType_toNat]

/-! ### FU header, and the third TSCI octet: per byte -/

theorem fu_fields : ∀ b : UInt8,
    fuS b = (b.toNat / 128 == 1) ∧ fuE b = (b.toNat / 64 % 2 == 1) ∧ (fuType b).toNat = b.toNat % 64 := by
  apply forall_u8; decide +kernel

theorem u8_tsci3 : ∀ c : UInt8,
    ((c &&& 0x80) != 0) = (c.toNat / 128 == 1) ∧ ((c &&& 0x40) != 0) = (c.toNat / 64 % 2 == 1) ∧
    (c &&& 0x3F) = (c.toNat % 64).toUInt8 := by
  apply forall_u8; decide +kernel

/-! ### PACI fields -/

theorem u16_bit (w : UInt16) (i : Nat) (m : UInt16) (hm : m.toNat = 2 ^ i) :
    ((w &&& m) != 0) = (w.toNat / 2 ^ i % 2 == 1) := by
  rw [Bool.eq_iff_iff]
  simp only [bne_iff_ne, ne_eq, ← UInt16.toNat_inj, UInt16.toNat_and, hm, beq_iff_eq]
  exact bit_ne_zero w.toNat i

theorem paciA_eq (w : UInt16) : paciA w = (w.toNat / 32768 == 1) := by
  have h1 : w.toNat < 65536 := w.toNat_lt
  rw [paciA, u16_bit w 15 _ (by decide), Bool.eq_iff_iff]
  simp only [beq_iff_eq]; omega

theorem paciCType_toNat (w : UInt16) : (paciCType w).toNat = w.toNat / 512 % 64 := hdrType_toNat w

theorem paciPHS_toNat (w : UInt16) : (paciPHS w).toNat = w.toNat / 16 % 32 := by
  simp only [paciPHS, UInt16.toNat_toUInt8, UInt16.toNat_shiftRight, UInt16.toNat_and]
  have := nat_and_shl_shr w.toNat 4 5
  simp at this ⊢
  rw [this]; omega

theorem paciF0_eq (w : UInt16) : paciF0 w = (w.toNat / 8 % 2 == 1) := u16_bit w 3 _ (by decide)
theorem paciF1_eq (w : UInt16) : paciF1 w = (w.toNat / 4 % 2 == 1) := u16_bit w 2 _ (by decide)
theorem paciF2_eq (w : UInt16) : paciF2 w = (w.toNat / 2 % 2 == 1) := u16_bit w 1 _ (by decide)
theorem paciY_eq (w : UInt16) : paciY w = (w.toNat % 2 == 1) := by
  have := u16_bit w 0 1 (by decide)
  simpa [paciY] using this

/-! ### TSCI -/

theorem tsciWord_toNat (a b c : UInt8) :
    (tsciWord a b c).toNat = a.toNat * 2 ^ 24 + b.toNat * 2 ^ 16 + c.toNat * 2 ^ 8 := by
  have ha := a.toNat_lt; have hb := b.toNat_lt; have hc := c.toNat_lt
  simp only [tsciWord, UInt32.toNat_or, UInt32.toNat_shiftLeft, UInt8.toNat_toUInt32]
  have e1 : a.toNat <<< ((24 : UInt32).toNat % 32) % 2 ^ 32 = a.toNat <<< 24 := by
    simp [Nat.shiftLeft_eq]; omega
  have e2 : b.toNat <<< ((16 : UInt32).toNat % 32) % 2 ^ 32 = b.toNat <<< 16 := by
    simp [Nat.shiftLeft_eq]; omega
  have e3 : c.toNat <<< ((8 : UInt32).toNat % 32) % 2 ^ 32 = c.toNat <<< 8 := by
    simp [Nat.shiftLeft_eq]; omega
  rw [e1, e2, e3, or3 _ _ _ (by omega) (by omega)]

theorem nat_hi16 (n : Nat) : (n &&& 4294901760) >>> 16 = n / 65536 % 65536 := by
  have := nat_and_shl_shr n 16 16; simpa using this

theorem nat_mid8 (n : Nat) : (n &&& 65280) >>> 8 = n / 256 % 256 := by
  have := nat_and_shl_shr n 8 8; simpa using this

theorem nat_lo8 (n : Nat) : n &&& 255 = n % 256 := by
  have := nat_and_mask n 8; simpa using this

theorem tsciTL0_word (a b c : UInt8) : tsciTL0 (tsciWord a b c) = a := by
  have ha := a.toNat_lt; have hb := b.toNat_lt; have hc := c.toNat_lt
  rw [← UInt8.toNat_inj]
  simp only [tsciTL0, UInt32.toNat_toUInt8, UInt32.toNat_shiftRight, UInt32.toNat_and, tsciWord_toNat]
  simp only [UInt32.reduceToNat, Nat.reduceMod, nat_hi16, nat_mid8]
  omega

theorem tsciIrap_word (a b c : UInt8) : tsciIrap (tsciWord a b c) = b := by
  have ha := a.toNat_lt; have hb := b.toNat_lt; have hc := c.toNat_lt
  rw [← UInt8.toNat_inj]
  simp only [tsciIrap, UInt32.toNat_toUInt8, UInt32.toNat_shiftRight, UInt32.toNat_and, tsciWord_toNat]
  simp only [UInt32.reduceToNat, Nat.reduceMod, nat_hi16, nat_lo8]
  omega

/-- the octet S, E and RES are taken from -/
theorem tsci_lo_word (a b c : UInt8) : ((tsciWord a b c &&& 0xFF00) >>> 8).toUInt8 = c := by
  have ha := a.toNat_lt; have hb := b.toNat_lt; have hc := c.toNat_lt
  rw [← UInt8.toNat_inj]
  simp only [UInt32.toNat_toUInt8, UInt32.toNat_shiftRight, UInt32.toNat_and, tsciWord_toNat]
  simp only [UInt32.reduceToNat, Nat.reduceMod, nat_mid8]
  omega

/-- `TSCI()` of PHES octets `a b c`, read through all five accessors, is the TSCI of RFC 7798 §4.5 -/
theorem tsciView_word (a b c : UInt8) : tsciView (tsciWord a b c) = Tsci.ofBytes a b c := by
  obtain ⟨h1, h2, h3⟩ := u8_tsci3 c
  simp only [tsciView, Tsci.ofBytes, tsciTL0_word, tsciIrap_word, tsciS, tsciE, tsciRES, tsci_lo_word,
    h1, h2, h3]

end Rtp.Model.H265
