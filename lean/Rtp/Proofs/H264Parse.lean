/-
  Rtp/Proofs/H264Parse.lean — the RFC 6184 parser of Spec/Rfc6184.lean inverts the encoder, and a
  payload sequence that parses is self-starting (Pred/C15H264.lean).
-/
import Rtp.Proofs.H264Decoder
namespace Rtp.Proofs.H264
open Rtp Rtp.Spec.Rfc6184

theorem fuHdr_toNat (s e : Bool) (typ : Nat) (ht : typ < 32) :
    (fuHdr s e typ).toNat = (if s then 128 else 0) + (if e then 64 else 0) + typ := by
  cases s <;> cases e <;> simp [fuHdr, Nat.toUInt8, UInt8.toNat_ofNat'] <;> omega

theorem hType_fuHdr (s e : Bool) (typ : Nat) (ht : typ < 32) : hType (fuHdr s e typ) = typ := by
  simp only [hType, fuHdr_toNat s e typ ht]
  cases s <;> cases e <;> simp <;> omega

theorem rbit_fuHdr (s e : Bool) (typ : Nat) (ht : typ < 32) :
    ((fuHdr s e typ).toNat / 32 % 2 == 0) = true := by
  simp only [fuHdr_toNat s e typ ht]
  cases s <;> cases e <;> simp <;> omega

theorem rebuild_spec : ∀ h : UInt8,
    mkHdr (hF (mkHdr (hF h) (hNri h) 28)) (hNri (mkHdr (hF h) (hNri h) 28)) (hType h) = h := by
  apply Rtp.Bits.forall_u8; decide +kernel

theorem size16_val (n : Nat) (hn : n < 65536) :
    ((n / 256).toUInt8).toNat * 256 + ((n % 256).toUInt8).toNat = n := by
  simp [Nat.toUInt8, UInt8.toNat_ofNat']; omega

theorem parseStap_enc (ns : List Bytes) (h : ∀ n ∈ ns, n.length < 65536) :
    parseStap (encStapBody ns) = some ns := by
  induction ns with
  | nil => simp [encStapBody, parseStap]
  | cons n ns ih =>
    have hn := h n (by simp)
    have ih' := ih (fun m hm => h m (by simp [hm]))
    simp only [encStapBody, size16, List.cons_append, List.nil_append]
    rw [parseStap]
    simp only [size16_val n.length hn, List.length_append, List.drop_left, List.take_left]
    rw [if_neg (by omega), ih']

/-- continuation fragments -/
theorem parse_cont (ind : UInt8) (typ : Nat) (ht : typ < 32) (cs : List Bytes) (hc : cs ≠ [])
    (acc : List Bytes) (ps : List Bytes) :
    parseAux (some (ind, typ, acc)) (encFu ind typ false cs ++ ps) =
      (parseAux none ps).map (Item.fuA (mkHdr (hF ind) (hNri ind) typ) (acc ++ cs) :: ·) := by
  induction cs generalizing acc with
  | nil => exact absurd rfl hc
  | cons c cs ih =>
    cases cs with
    | nil =>
      simp [encFu, parseAux, hType_fuHdr _ _ _ ht, fuS_fuHdr _ _ _ ht, fuE_fuHdr _ _ _ ht,
        rbit_fuHdr _ _ _ ht]
    | cons c2 cs2 =>
      have := ih (by simp) (acc ++ [c])
      simp only [encFu, List.cons_append, parseAux, hType_fuHdr _ _ _ ht, fuS_fuHdr _ _ _ ht,
        fuE_fuHdr _ _ _ ht, rbit_fuHdr _ _ _ ht]
      simpa using this

theorem parse_item (it : Item) (hw : it.wf = true) (ps : List Bytes) :
    parseAux none (it.encode ++ ps) = (parseAux none ps).map (it :: ·) := by
  cases it with
  | single n =>
    cases n with
    | nil => simp [Item.wf, typeOf] at hw
    | cons h body =>
      simp only [Item.wf, typeOf] at hw
      have hw := of_decide_eq_true hw
      simp [Item.encode, parseAux, hw]
  | stapA sh ns =>
    simp only [Item.wf, Bool.and_eq_true, List.all_eq_true, decide_eq_true_eq] at hw
    have ht : hType sh = 24 := hw.1.1
    simp [Item.encode, parseAux, ht, parseStap_enc ns hw.2]
  | fuA h cs =>
    simp only [Item.wf, Bool.and_eq_true, decide_eq_true_eq] at hw
    have hi : hType (mkHdr (hF h) (hNri h) 28) = 28 := hType_mkHdr _ _ 28 (by omega)
    have ht : hType h < 32 := by simp only [hType]; omega
    match cs, hw.2 with
    | c :: c2 :: cs2, _ =>
      have hc := parse_cont (mkHdr (hF h) (hNri h) 28) (hType h) ht (c2 :: cs2) (by simp) [c] ps
      rw [rebuild_spec h] at hc
      simp only [Item.encode, encFu, List.cons_append, parseAux, hi, hType_fuHdr _ _ _ ht,
        fuS_fuHdr _ _ _ ht, fuE_fuHdr _ _ _ ht, rbit_fuHdr _ _ _ ht]
      simpa using hc

/-- the parser inverts the encoder on every legal plan -/
theorem parse_encode (plan : List Item) (hw : plan.all Item.wf = true) :
    parse (encode plan) = some plan := by
  have : ∀ ps, parseAux none (encode plan ++ ps) = (parseAux none ps).map (plan ++ ·) := by
    induction plan with
    | nil => intro ps; simp [encode]
    | cons it plan ih =>
      intro ps
      simp only [List.all_cons, Bool.and_eq_true] at hw
      simp only [encode, List.flatMap_cons, List.append_assoc]
      rw [parse_item it hw.1]
      have := ih hw.2 ps
      simp only [encode] at this
      rw [this]
      cases parseAux none ps <;> simp
  have h := this []
  simpa [parse, parseAux] using h

end Rtp.Proofs.H264
