/-
  Rtp/Proofs/H265Sound.lean — the converse of c14_decoder: whatever `H265Packet.Unmarshal` accepts is
  the RFC 7798 encoding of the fields it reports (nothing invented, nothing dropped).
-/
import Rtp.Proofs.H265Rt
namespace Rtp.Model.H265
open Rtp Rtp.Bits Rtp.Spec.Rfc7798 Rtp.Pred

/-! ### soundness: whatever the parser accepts is the encoding of what it reports -/

theorem u16be_rd16 (x y : UInt8) : u16be (rd16 x y).toNat = [x, y] := by
  have hx := x.toNat_lt; have hy := y.toNat_lt
  rw [rd16_toNat]
  simp only [u16be, List.cons.injEq, and_true]
  constructor
  · rw [← UInt8.toNat_inj, toUInt8_toNat _ (by omega)]; omega
  · rw [← UInt8.toNat_inj, toUInt8_toNat _ (by omega)]; omega

theorem hdrView_bytes (a b : UInt8) : (hdrView (rd16 a b)).bytes = [a, b] := by
  rw [hdrView_ofNal a b []]; exact Hdr.ofNal_bytes a b []

theorem u8_fuByte (c : UInt8) : fuByte (fuS c) (fuE c) (fuType c) = c := by
  have hc := c.toNat_lt
  obtain ⟨h1, h2, h3⟩ := fu_fields c
  rw [← UInt8.toNat_inj]
  simp only [fuByte, h1, h2, h3]
  have b1 : c.toNat / 128 = 0 ∨ c.toNat / 128 = 1 := by omega
  have b2 : c.toNat / 64 % 2 = 0 ∨ c.toNat / 64 % 2 = 1 := by omega
  rcases b1 with g1 | g1 <;> rcases b2 with g2 | g2 <;> simp [g1, g2] <;> omega

theorem ite_bit (x k : Nat) (hx : x < 2) : (if (x == 1) = true then k else 0) = x * k := by
  have : x = 0 ∨ x = 1 := by omega
  rcases this with rfl | rfl <;> simp

theorem paciWord_fields (w : UInt16) :
    paciWord (paciA w) (paciCType w) (paciPHS w) (paciF0 w) (paciF1 w) (paciF2 w) (paciY w) = w.toNat := by
  have hw := w.toNat_lt
  simp only [paciWord, paciA_eq, paciCType_toNat, paciPHS_toNat, paciF0_eq, paciF1_eq, paciF2_eq, paciY_eq]
  rw [ite_bit (w.toNat / 32768) 32768 (by omega), ite_bit (w.toNat / 8 % 2) 8 (by omega),
    ite_bit (w.toNat / 4 % 2) 4 (by omega), ite_bit (w.toNat / 2 % 2) 2 (by omega),
    ite_bit (w.toNat % 2) 1 (by omega)]
  omega

theorem parseSingle_sound (donl : Bool) (p : Option Bytes) (k : Pkt) (h : parseSingle donl p = .ok k) :
    ∃ b, p = some b ∧ encode k.view.pkt = b ∧ k.view.sizesOk = true := by
  match p, h with
  | none, h => simp [parseSingle] at h
  | some [], h => simp [parseSingle] at h
  | some [_], h => simp [parseSingle] at h
  | some [_, _], h => simp [parseSingle] at h
  | some (a :: b :: x :: xs), h =>
    simp only [parseSingle] at h
    by_cases hF : hdrF (rd16 a b) = true
    · simp [hF] at h
    · by_cases hT : (hdrIsFU (rd16 a b) || hdrIsPACI (rd16 a b) || hdrIsAgg (rd16 a b)) = true
      · simp [hF, hT] at h
      · cases donl with
        | false =>
          simp only [hF, hT, Bool.false_eq_true, if_false, Res.ok.injEq] at h; subst h
          exact ⟨_, rfl, by simp [Pkt.view, encode, hdrView_bytes, donlBytes], rfl⟩
        | true =>
          simp only [hF, hT, Bool.false_eq_true, if_false, if_true] at h
          match x, xs, h with
          | d0, [], h => simp at h
          | d0, [d1], h => simp at h
          | d0, d1 :: y :: ys, h =>
            simp only [Res.ok.injEq] at h; subst h
            exact ⟨_, rfl, by simp [Pkt.view, encode, hdrView_bytes, donlBytes, u16be_rd16], rfl⟩

theorem parseFU_sound (donl : Bool) (p : Option Bytes) (k : Pkt) (h : parseFU donl p = .ok k) :
    ∃ b, p = some b ∧ encode k.view.pkt = b ∧ k.view.sizesOk = true := by
  match p, h with
  | none, h => simp [parseFU] at h
  | some [], h => simp [parseFU] at h
  | some [_], h => simp [parseFU] at h
  | some [_, _], h => simp [parseFU] at h
  | some [_, _, _], h => simp [parseFU] at h
  | some (a :: b :: c :: x :: xs), h =>
    simp only [parseFU] at h
    by_cases hF : hdrF (rd16 a b) = true
    · simp [hF] at h
    · by_cases hT : hdrIsFU (rd16 a b) = true
      · by_cases hS : (fuS c && donl) = true
        · simp only [hF, hT, hS, Bool.false_eq_true, if_false, if_true, Bool.not_true] at h
          match x, xs, h with
          | d0, [], h => simp at h
          | d0, [d1], h => simp at h
          | d0, d1 :: y :: ys, h =>
            simp only [Res.ok.injEq] at h; subst h
            exact ⟨_, rfl, by simp [Pkt.view, encode, hdrView_bytes, donlBytes, u16be_rd16, u8_fuByte], rfl⟩
        · simp only [hF, hT, hS, Bool.false_eq_true, if_false, Bool.not_true, Res.ok.injEq] at h; subst h
          exact ⟨_, rfl, by simp [Pkt.view, encode, hdrView_bytes, donlBytes, u8_fuByte], rfl⟩
      · simp [hF, hT] at h

theorem parsePACI_sound (p : Option Bytes) (k : Pkt) (h : parsePACI p = .ok k) :
    ∃ b, p = some b ∧ encode k.view.pkt = b ∧ k.view.sizesOk = true := by
  match p, h with
  | none, h => simp [parsePACI] at h
  | some [], h => simp [parsePACI] at h
  | some [_], h => simp [parsePACI] at h
  | some [_, _], h => simp [parsePACI] at h
  | some [_, _, _], h => simp [parsePACI] at h
  | some [_, _, _, _], h => simp [parsePACI] at h
  | some (a :: b :: c :: d :: x :: xs), h =>
    simp only [parsePACI] at h
    by_cases hF : hdrF (rd16 a b) = true
    · simp [hF] at h
    · by_cases hT : hdrIsPACI (rd16 a b) = true
      · by_cases hL : (x :: xs).length < (paciPHS (rd16 c d)).toNat + 1
        · have hL' : xs.length < (paciPHS (rd16 c d)).toNat := by simp only [List.length_cons] at hL; omega
          simp [hF, hT, hL'] at h
        · simp only [hF, hT, hL, Bool.false_eq_true, if_false, Bool.not_true, Res.ok.injEq] at h; subst h
          refine ⟨_, rfl, ?_, rfl⟩
          simp only [Pkt.view, encode, hdrView_bytes, paciWord_fields, u16be_rd16, List.append_assoc,
            List.take_append_drop]
          rfl
      · simp [hF, hT] at h

/-- the unit loop consumes exactly the encoding of the units it returns, and stops -/
theorem parseAggRest_sound (mode : Bool) (fuel : Nat) (l : Bytes) :
    (∃ t, l = (((parseAggRest mode fuel l).map fun u => (u.1, u.2.2)).map unitBytes).flatten ++ t) ∧
    (parseAggRest mode fuel l).all (fun u => u.2.1.toNat == u.2.2.length) = true := by
  induction fuel generalizing l with
  | zero => exact ⟨⟨l, by simp [parseAggRest]⟩, by simp [parseAggRest]⟩
  | succ fuel ih =>
    cases mode with
    | false =>
      match l with
      | [] => exact ⟨⟨[], by simp [parseAggRest]⟩, by simp [parseAggRest]⟩
      | [x] => exact ⟨⟨[x], by simp [parseAggRest]⟩, by simp [parseAggRest]⟩
      | s0 :: s1 :: rest =>
        simp only [parseAggRest, Bool.false_eq_true, if_false]
        by_cases hlt : rest.length < (rd16 s0 s1).toNat
        · simp only [hlt, if_true]
          exact ⟨⟨s0 :: s1 :: rest, by simp⟩, by simp⟩
        · simp only [hlt, if_false]
          obtain ⟨⟨t, ht⟩, hall⟩ := ih (rest.drop (rd16 s0 s1).toNat)
          have hlen : (rest.take (rd16 s0 s1).toNat).length = (rd16 s0 s1).toNat := by
            rw [List.length_take]; omega
          refine ⟨⟨t, ?_⟩, ?_⟩
          · simp only [List.map_cons, List.flatten_cons, unitBytes, dondBytes, List.nil_append, hlen,
              u16be_rd16, List.append_assoc, List.cons_append]
            rw [← ht, List.take_append_drop]
          · simp only [List.all_cons, hlen, beq_self_eq_true, Bool.true_and]; exact hall
    | true =>
      match l with
      | [] => exact ⟨⟨[], by simp [parseAggRest]⟩, by simp [parseAggRest]⟩
      | [x] => exact ⟨⟨[x], by simp [parseAggRest]⟩, by simp [parseAggRest]⟩
      | [x, y] => exact ⟨⟨[x, y], by simp [parseAggRest]⟩, by simp [parseAggRest]⟩
      | d :: s0 :: s1 :: rest =>
        simp only [parseAggRest, if_true]
        by_cases hlt : rest.length < (rd16 s0 s1).toNat
        · simp only [hlt, if_true]
          exact ⟨⟨d :: s0 :: s1 :: rest, by simp⟩, by simp⟩
        · simp only [hlt, if_false]
          obtain ⟨⟨t, ht⟩, hall⟩ := ih (rest.drop (rd16 s0 s1).toNat)
          have hlen : (rest.take (rd16 s0 s1).toNat).length = (rd16 s0 s1).toNat := by
            rw [List.length_take]; omega
          refine ⟨⟨t, ?_⟩, ?_⟩
          · simp only [List.map_cons, List.flatten_cons, unitBytes, dondBytes, hlen,
              u16be_rd16, List.append_assoc, List.cons_append, List.nil_append]
            rw [← ht, List.take_append_drop]
          · simp only [List.all_cons, hlen, beq_self_eq_true, Bool.true_and]; exact hall

/-- the part of `parseAgg` after the (optional) DONL -/
theorem parseAgg_go_sound (donl : Bool) (h : UInt16) (d : Option UInt16) (l : Bytes) (k : Pkt)
    (hk : (match l with
        | s0 :: s1 :: r =>
          let sz := rd16 s0 s1
          if r.length < sz.toNat then (.err .short : Res Pkt)
          else
            let others := parseAggRest donl (r.length) (r.drop sz.toNat)
            if others.isEmpty then .err .short
            else .ok (.agg h d sz (r.take sz.toNat) others)
        | _ => .err .short) = .ok k) :
    ∃ t, (hdrView h).bytes ++ donlBytes d ++ l = encode k.view.pkt ++ t ∧ k.view.sizesOk = true ∧
      ∃ fs f os, k = .agg h d fs f os := by
  match l, hk with
  | [], hk => simp at hk
  | [_], hk => simp at hk
  | s0 :: s1 :: r, hk =>
    simp only at hk
    by_cases hlt : r.length < (rd16 s0 s1).toNat
    · simp [hlt] at hk
    · simp only [hlt, if_false] at hk
      split at hk
      · simp at hk
      · simp only [Res.ok.injEq] at hk; subst hk
        obtain ⟨⟨t, ht⟩, hall⟩ := parseAggRest_sound donl r.length (r.drop (rd16 s0 s1).toNat)
        have hlen : (r.take (rd16 s0 s1).toNat).length = (rd16 s0 s1).toNat := by
          rw [List.length_take]; omega
        refine ⟨t, ?_, ?_, ⟨_, _, _, rfl⟩⟩
        · simp only [Pkt.view, encode, hlen, u16be_rd16, List.append_assoc, List.cons_append,
            List.nil_append]
          rw [← ht, List.take_append_drop]
        · simp only [Pkt.view, hlen, beq_self_eq_true, Bool.true_and]; exact hall

theorem parseAgg_sound (donl : Bool) (p : Option Bytes) (k : Pkt) (h : parseAgg donl p = .ok k) :
    ∃ b t, p = some b ∧ b = encode k.view.pkt ++ t ∧ k.view.sizesOk = true ∧
      ∃ hh d fs f os, k = .agg hh d fs f os := by
  match p, h with
  | none, h => simp [parseAgg] at h
  | some [], h => simp [parseAgg] at h
  | some [_], h => simp [parseAgg] at h
  | some [_, _], h => simp [parseAgg] at h
  | some (a :: b :: x :: xs), h =>
    simp only [parseAgg] at h
    by_cases hF : hdrF (rd16 a b) = true
    · simp [hF] at h
    · by_cases hT : hdrIsAgg (rd16 a b) = true
      · simp only [hF, hT, Bool.false_eq_true, if_false, Bool.not_true] at h
        cases donl with
        | false =>
          simp only [Bool.false_eq_true, if_false] at h
          obtain ⟨t, ht, hs, hk⟩ := parseAgg_go_sound false (rd16 a b) none (x :: xs) k h
          refine ⟨_, t, rfl, ?_, hs, ⟨_, _, hk⟩⟩
          rw [← ht]; simp [hdrView_bytes, donlBytes]
        | true =>
          simp only [if_true] at h
          match x, xs, h with
          | d0, [], h => simp at h
          | d0, d1 :: r, h =>
            simp only at h
            obtain ⟨t, ht, hs, hk⟩ := parseAgg_go_sound true (rd16 a b) (some (rd16 d0 d1)) r k h
            refine ⟨_, t, rfl, ?_, hs, ⟨_, _, hk⟩⟩
            rw [← ht]; simp [hdrView_bytes, donlBytes, u16be_rd16]
      · simp [hF, hT] at h

/-- Soundness of `H265Packet.Unmarshal` + accessors: whenever a payload is accepted, the reported
    fields re-encode (RFC 7798 grammar) to the payload itself — for an aggregation packet: to a
    prefix of it, the remainder being octets after the last complete unit; and every NALUSize()
    equals the length of its NalUnit(). -/
theorem unmarshal_sound (donl : Bool) (p : Option Bytes) (k : Pkt) (h : unmarshal donl p = .ok k) :
    ∃ b t, p = some b ∧ b = encode k.view.pkt ++ t ∧ k.view.sizesOk = true ∧
      ((∀ hh d f r, k.view.pkt ≠ .ap hh d f r) → t = []) := by
  match p, h with
  | none, h => simp [unmarshal] at h
  | some [], h => simp [unmarshal] at h
  | some [_], h => simp [unmarshal] at h
  | some [_, _], h => simp [unmarshal] at h
  | some (a :: b :: x :: xs), h =>
    simp only [unmarshal] at h
    by_cases hF : hdrF (rd16 a b) = true
    · simp [hF] at h
    · simp only [hF, Bool.false_eq_true, if_false] at h
      by_cases h1 : hdrIsPACI (rd16 a b) = true
      · simp only [h1, if_true] at h
        obtain ⟨bb, hb, he, hs⟩ := parsePACI_sound _ k h
        exact ⟨bb, [], hb, by simp [he], hs, fun _ => rfl⟩
      · simp only [h1, Bool.false_eq_true, if_false] at h
        by_cases h2 : hdrIsFU (rd16 a b) = true
        · simp only [h2, if_true] at h
          obtain ⟨bb, hb, he, hs⟩ := parseFU_sound _ _ k h
          exact ⟨bb, [], hb, by simp [he], hs, fun _ => rfl⟩
        · simp only [h2, Bool.false_eq_true, if_false] at h
          by_cases h3 : hdrIsAgg (rd16 a b) = true
          · simp only [h3, if_true] at h
            obtain ⟨bb, t, hb, he, hs, hh, d, fs, f, os, rfl⟩ := parseAgg_sound _ _ k h
            refine ⟨bb, t, hb, he, hs, ?_⟩
            intro hne
            exact absurd rfl (hne _ _ _ _)
          · simp only [h3, Bool.false_eq_true, if_false] at h
            obtain ⟨bb, hb, he, hs⟩ := parseSingle_sound _ _ k h
            exact ⟨bb, [], hb, by simp [he], hs, fun _ => rfl⟩

theorem decode_sound (mode : Bool) (p : Option Bytes) (v : Parsed) (h : decode mode p = .ok v) :
    ∃ b t, p = some b ∧ b = encode v.pkt ++ t ∧ v.sizesOk = true ∧
      ((∀ hh d f r, v.pkt ≠ .ap hh d f r) → t = []) := by
  unfold decode at h
  cases hu : unmarshal mode p with
  | ok k =>
    rw [hu] at h
    simp only [Res.map, Res.coarse, Res.ok.injEq] at h
    subst h
    exact unmarshal_sound mode p k hu
  | err e => rw [hu] at h; simp [Res.map, Res.coarse] at h
  | panic => rw [hu] at h; simp [Res.map, Res.coarse] at h

/-! ### IsPartitionHead agrees with the parser on everything it accepts -/

theorem parseSingle_shape (donl : Bool) (p : Option Bytes) (k : Pkt) (h : parseSingle donl p = .ok k) :
    ∃ hh d q, k = .single hh d q := by
  match p, h with
  | none, h => simp [parseSingle] at h
  | some [], h => simp [parseSingle] at h
  | some [_], h => simp [parseSingle] at h
  | some [_, _], h => simp [parseSingle] at h
  | some (a :: b :: x :: xs), h =>
    simp only [parseSingle] at h
    by_cases hF : hdrF (rd16 a b) = true
    · simp [hF] at h
    · by_cases hT : (hdrIsFU (rd16 a b) || hdrIsPACI (rd16 a b) || hdrIsAgg (rd16 a b)) = true
      · simp [hF, hT] at h
      · cases donl with
        | false =>
          simp only [hF, hT, Bool.false_eq_true, if_false, Res.ok.injEq] at h
          exact ⟨_, _, _, h.symm⟩
        | true =>
          simp only [hF, hT, Bool.false_eq_true, if_false, if_true] at h
          match x, xs, h with
          | d0, [], h => simp at h
          | d0, [d1], h => simp at h
          | d0, d1 :: y :: ys, h =>
            simp only [Res.ok.injEq] at h
            exact ⟨_, _, _, h.symm⟩

theorem parseFU_shape (donl : Bool) (a b c : UInt8) (r : Bytes) (k : Pkt)
    (h : parseFU donl (some (a :: b :: c :: r)) = .ok k) : ∃ d q, k = .fu (rd16 a b) c d q := by
  match r, h with
  | [], h => simp [parseFU] at h
  | x :: xs, h =>
    simp only [parseFU] at h
    by_cases hF : hdrF (rd16 a b) = true
    · simp [hF] at h
    · by_cases hT : hdrIsFU (rd16 a b) = true
      · by_cases hS : (fuS c && donl) = true
        · simp only [hF, hT, hS, Bool.false_eq_true, if_false, if_true, Bool.not_true] at h
          match x, xs, h with
          | d0, [], h => simp at h
          | d0, [d1], h => simp at h
          | d0, d1 :: y :: ys, h =>
            simp only [Res.ok.injEq] at h
            exact ⟨_, _, h.symm⟩
        · simp only [hF, hT, hS, Bool.false_eq_true, if_false, Bool.not_true, Res.ok.injEq] at h
          exact ⟨_, _, h.symm⟩
      · simp [hF, hT] at h

theorem parsePACI_shape (p : Option Bytes) (k : Pkt) (h : parsePACI p = .ok k) :
    ∃ hh w ph q, k = .paci hh w ph q := by
  match p, h with
  | none, h => simp [parsePACI] at h
  | some [], h => simp [parsePACI] at h
  | some [_], h => simp [parsePACI] at h
  | some [_, _], h => simp [parsePACI] at h
  | some [_, _, _], h => simp [parsePACI] at h
  | some [_, _, _, _], h => simp [parsePACI] at h
  | some (a :: b :: c :: d :: x :: xs), h =>
    simp only [parsePACI] at h
    by_cases hF : hdrF (rd16 a b) = true
    · simp [hF] at h
    · by_cases hT : hdrIsPACI (rd16 a b) = true
      · by_cases hL : xs.length < (paciPHS (rd16 c d)).toNat
        · simp [hF, hT, hL] at h
        · have hL' : ¬ (x :: xs).length < (paciPHS (rd16 c d)).toNat + 1 := by
            simp only [List.length_cons]; omega
          simp only [hF, hT, hL', Bool.false_eq_true, if_false, Bool.not_true, Res.ok.injEq] at h
          exact ⟨_, _, _, _, h.symm⟩
      · simp [hF, hT] at h

/-- on every payload `Unmarshal` accepts, IsPartitionHead says "first packet of a unit" exactly
    when the decoded packet is not a non-first FU -/
theorem head_consistent (donl : Bool) (p : Bytes) (k : Pkt) (h : unmarshal donl (some p) = .ok k) :
    isPartitionHead p = C14.headSpec k.view.pkt := by
  match p, h with
  | [], h => simp [unmarshal] at h
  | [_], h => simp [unmarshal] at h
  | [_, _], h => simp [unmarshal] at h
  | a :: b :: x :: xs, h =>
    simp only [unmarshal] at h
    by_cases hF : hdrF (rd16 a b) = true
    · simp [hF] at h
    · simp only [hF, Bool.false_eq_true, if_false] at h
      by_cases h1 : hdrIsPACI (rd16 a b) = true
      · simp only [h1, if_true] at h
        have h49 : (hdrType (rd16 a b) == 49) = false := by
          simp only [hdrIsPACI, beq_iff_eq] at h1; simp [h1]
        obtain ⟨hh, w, ph, q, rfl⟩ := parsePACI_shape _ k h
        simp [isPartitionHead, h49, Pkt.view, C14.headSpec]
      · simp only [h1, Bool.false_eq_true, if_false] at h
        by_cases h2 : hdrIsFU (rd16 a b) = true
        · simp only [h2, if_true] at h
          have h49 : (hdrType (rd16 a b) == 49) = true := h2
          obtain ⟨d, q, rfl⟩ := parseFU_shape donl a b x xs k h
          simp [isPartitionHead, h49, Pkt.view, C14.headSpec]
        · simp only [h2, Bool.false_eq_true, if_false] at h
          have h49 : (hdrType (rd16 a b) == 49) = false := by
            simpa [hdrIsFU] using h2
          by_cases h3 : hdrIsAgg (rd16 a b) = true
          · simp only [h3, if_true] at h
            obtain ⟨_, _, _, _, _, hh, d, fs, f, os, rfl⟩ := parseAgg_sound _ _ k h
            simp [isPartitionHead, h49, Pkt.view, C14.headSpec]
          · simp only [h3, Bool.false_eq_true, if_false] at h
            obtain ⟨hh, d, q, rfl⟩ := parseSingle_shape _ _ k h
            simp [isPartitionHead, h49, Pkt.view, C14.headSpec]

end Rtp.Model.H265
