/-
  Rtp/Proofs/AV1PayStep.lean — the invariant of the loop in AV1Payloader.Payload: what the packets
  built so far denote (the OBUs flushed, with the packets each one occupies) and the layer-id
  bookkeeping (`currentPacketOBUHeader`).
-/
import Rtp.Proofs.AV1PayInv
import Rtp.Proofs.Obu
namespace Rtp.Model.AV1
open Rtp Rtp.Model Rtp.Spec.Av1Rtp
open Rtp.Model.ObuLemmas

def layerIds (e : ExtHdr) : Nat × Nat := (e.temporalID.toNat, e.spatialID.toNat)

/-! ### bytes of a held-back OBU -/

theorem mkByte0_bits : ∀ t : UInt8, ∀ e s r : Bool,
    ((mkByte0 t e s r).toNat / 4 % 2 == 1) = e ∧ ((mkByte0 t e false r).toNat / 2 % 2 == 0) = true := by
  apply Rtp.Bits.forall_u8; decide +kernel

theorem ext_marshal_ids (e : ExtHdr) (h : extWF e = true) :
    (e.marshal.toNat / 32, e.marshal.toNat / 8 % 4) = layerIds e := by
  have h1 := ext_parse_marshal e h
  obtain ⟨f1, f2, _⟩ := ext_fields e.marshal
  rw [h1] at f1 f2
  simp [layerIds, f1, f2]

theorem obuBytes_ne (h : ObuHeader) (body : Bytes) : obuBytes h body ≠ [] := by
  unfold obuBytes ObuHeader.marshal
  cases h.ext <;> simp

theorem layerOf_obuBytes (h : ObuHeader) (body : Bytes) (hwf : hdrWF h = true) :
    layerOf (obuBytes h body) = h.ext.map layerIds := by
  obtain ⟨t, e, s, r⟩ := h
  simp only [hdrWF, Bool.and_eq_true] at hwf
  cases e with
  | none =>
    have := (mkByte0_bits t false false r).1
    cases body with
    | nil => simp [obuBytes, ObuHeader.marshal, layerOf]
    | cons b bs =>
      simp only [obuBytes, ObuHeader.marshal, byte0_eq, Option.isSome_none, List.cons_append,
        List.nil_append, layerOf, this, Option.map_none]
      simp
  | some e =>
    have := (mkByte0_bits t true false r).1
    simp only [obuBytes, ObuHeader.marshal, byte0_eq, Option.isSome_some, List.cons_append,
      List.nil_append, layerOf, this, if_true, Option.map_some, ext_marshal_ids e hwf.2]

theorem sizeFlagClear_obuBytes (h : ObuHeader) (body : Bytes) : sizeFlagClear (obuBytes h body) = true := by
  obtain ⟨t, e, s, r⟩ := h
  cases e with
  | none => simp [obuBytes, ObuHeader.marshal, byte0_eq, sizeFlagClear, (mkByte0_bits t false false r).2]
  | some e => simp [obuBytes, ObuHeader.marshal, byte0_eq, sizeFlagClear, (mkByte0_bits t true false r).2]

theorem idsDiffer_false (a b : ExtHdr) (h : idsDiffer a b = false) : layerIds a = layerIds b := by
  simp only [idsDiffer, Bool.or_eq_false_iff, bne_eq_false_iff_eq] at h
  simp [layerIds, h.1, h.2]

/-! ### the loop invariant -/

structure PInv (mtu : Nat) (s : PSt) (us : List OUnit) (done : List Bytes) : Prop where
  out : OutInv s.out
  size : ∀ p ∈ s.out, p.size ≤ mtu
  head : HeadSt mtu s.out s.count s.startNew
  join : joinPkt none (elemsRev s.out) = (us, none)
  bytes : us.map (·.bytes) ++ (if s.pending.isEmpty then [] else [s.pending]) = done
  span : ∀ u ∈ us, u.first ≤ u.last ∧ u.last < s.out.length
  lay1 : ∀ u ∈ us, ∀ v ∈ us, ∀ a b, layerOf u.bytes = some a → layerOf v.bytes = some b →
          sharePacket u v = true → a = b
  lay2 : s.startNew = false → ∀ u ∈ us, u.last + 1 = s.out.length → ∀ a, layerOf u.bytes = some a →
          ∃ c, s.cur = some c ∧ layerIds c = a
  lay3 : ∀ a, layerOf s.pending = some a → ∃ c, s.cur = some c ∧ layerIds c = a

theorem PInv_init (mtu : Nat) : PInv mtu {} [] [] := by
  refine ⟨⟨by simp, rfl, rfl⟩, by simp, ?_, rfl, rfl, by simp, by simp, by simp, ?_⟩
  · intro q t h; simp at h
  · intro a h; simp [layerOf] at h

/-- flushing the held-back OBU: one more unit, everything else as before -/
theorem flush_spec (mtu : Nat) (hm : 2 ≤ mtu) (hs : mtu ≤ 65535) (s : PSt) (us : List OUnit)
    (done : List Bytes) (isLast : Bool) (hinv : PInv mtu s us done) (hpend : s.pending ≠ []) :
    ∃ v : OUnit, v.bytes = s.pending ∧
      PInv mtu { s with out := (appendObu s.out s.pending s.newSeq isLast s.startNew mtu s.count).1,
                        count := (appendObu s.out s.pending s.newSeq isLast s.startNew mtu s.count).2,
                        pending := [], startNew := isLast } (us ++ [v]) done := by
  obtain ⟨hout, hhead, k0, pieces, hpne, hflat, helems, hlen, hk1, hk2, hk3⟩ :=
    appendObu_spec s.out s.pending s.newSeq isLast s.startNew mtu s.count s.startNew hm hs hpend
      hinv.out hinv.head id
  have hsize := appendObu_size s.out s.pending s.newSeq isLast s.startNew mtu s.count hm hs hpend hinv.size
  generalize appendObu s.out s.pending s.newSeq isLast s.startNew mtu s.count = r at *
  have hpl : 1 ≤ pieces.length := by
    cases pieces with | nil => exact absurd rfl hpne | cons a b => simp
  refine ⟨⟨s.pending, k0, k0 + pieces.length - 1⟩, rfl, ⟨hout, hsize, hhead, ?_, ?_, ?_, ?_, ?_, ?_⟩⟩
  · show joinPkt none (elemsRev r.1) = _
    rw [helems, joinPkt_append, hinv.join]
    simp only [joinPkt_chain_none k0 pieces hpne, hflat]
  · have hb := hinv.bytes
    have : s.pending.isEmpty = false := List.isEmpty_eq_false_iff.mpr hpend
    simp only [this, Bool.false_eq_true, if_false] at hb
    simp only [List.map_append, List.map_cons, List.map_nil, List.isEmpty_nil, if_true,
      List.append_nil]
    exact hb
  · intro u hu
    show u.first ≤ u.last ∧ u.last < r.1.length
    simp only [List.mem_append, List.mem_singleton] at hu
    rcases hu with hu | rfl
    · have := hinv.span u hu; omega
    · dsimp only; omega
  · -- lay1
    intro u hu v hv a b ha hb hsh
    simp only [List.mem_append, List.mem_singleton] at hu hv
    have cross : ∀ u ∈ us, ∀ a b, layerOf u.bytes = some a → layerOf s.pending = some b →
        k0 ≤ u.last → a = b := by
      intro u hu a b ha hb hle
      have hsp := hinv.span u hu
      have hlast : u.last + 1 = s.out.length := by omega
      have hsn : s.startNew = false := by
        cases hsn : s.startNew with
        | false => rfl
        | true => have := hk3 hsn; omega
      obtain ⟨c, hc, hca⟩ := hinv.lay2 hsn u hu hlast a ha
      obtain ⟨c', hc', hcb⟩ := hinv.lay3 b hb
      rw [hc] at hc'
      cases hc'
      rw [← hca, ← hcb]
    rcases hu with hu | rfl <;> rcases hv with hv | rfl
    · exact hinv.lay1 u hu v hv a b ha hb hsh
    · simp only [sharePacket, Bool.and_eq_true, decide_eq_true_eq] at hsh
      exact cross u hu a b ha hb hsh.2
    · simp only [sharePacket, Bool.and_eq_true, decide_eq_true_eq] at hsh
      exact (cross v hv b a hb ha hsh.1).symm
    · rw [ha] at hb; exact Option.some.inj hb
  · -- lay2
    intro hsn u hu hlast a ha
    show ∃ c, s.cur = some c ∧ layerIds c = a
    simp only [List.mem_append, List.mem_singleton] at hu
    rcases hu with hu | rfl
    · have hsp := hinv.span u hu
      have hl : u.last + 1 = r.1.length := hlast
      have hlast' : u.last + 1 = s.out.length := by omega
      have hsn' : s.startNew = false := by
        cases hsn' : s.startNew with
        | false => rfl
        | true => have := hk3 hsn'; omega
      exact hinv.lay2 hsn' u hu hlast' a ha
    · exact hinv.lay3 a ha
  · intro a ha
    simp [layerOf] at ha

theorem needNew_false (cur : Option ExtHdr) (h : ObuHeader) (hn : needNew cur h = false)
    (e c : ExtHdr) (he : h.ext = some e) (hc : cur = some c) : layerIds e = layerIds c := by
  unfold needNew at hn
  split at hn
  · cases hn
  · rw [he, hc] at hn
    exact idsDiffer_false e c hn

/-- first half of one iteration: the flush of the held-back OBU (or the remembered break) -/
def stepFlush (mtu : Nat) (s : PSt) (h : ObuHeader) : PSt :=
  let need := needNew s.cur h
  if s.pending.isEmpty then
    if need then { s with startNew := true, cur := none } else s
  else
    let r := appendObu s.out s.pending s.newSeq need s.startNew mtu s.count
    let s := { s with out := r.1, count := r.2, pending := [], startNew := need }
    if need then { s with newSeq := false, cur := none } else s

/-- second half: remember the layer ids, hold the OBU back unless it is dropped -/
def stepRest (s : PSt) (hb : ObuHeader × Bytes) : PSt :=
  let h := hb.1
  let s : PSt := match h.ext with | some e => { s with cur := some e } | none => s
  if dropped h then s
  else { s with pending := obuBytes h hb.2, newSeq := h.type == obuSequenceHeader }

theorem step_eq (mtu : Nat) (s : PSt) (hb : ObuHeader × Bytes) :
    step mtu s hb = stepRest (stepFlush mtu s hb.1) hb := rfl

/-- the state after a flush with `isLast` -/
def flushed (mtu : Nat) (s : PSt) (isLast : Bool) : PSt :=
  { s with out := (appendObu s.out s.pending s.newSeq isLast s.startNew mtu s.count).1,
           count := (appendObu s.out s.pending s.newSeq isLast s.startNew mtu s.count).2,
           pending := [], startNew := isLast }

theorem stepFlush_spec (mtu : Nat) (hm : 2 ≤ mtu) (hs : mtu ≤ 65535) (s : PSt) (us : List OUnit)
    (done : List Bytes) (h : ObuHeader) (hinv : PInv mtu s us done) :
    ∃ us1, PInv mtu (stepFlush mtu s h) us1 done ∧ (stepFlush mtu s h).pending = [] ∧
      ((stepFlush mtu s h).startNew = false → needNew s.cur h = false ∧ (stepFlush mtu s h).cur = s.cur) := by
  unfold stepFlush
  dsimp only
  by_cases hp : s.pending.isEmpty = true
  · have hpe : s.pending = [] := List.isEmpty_iff.mp hp
    simp only [hp, if_true]
    by_cases hn : needNew s.cur h = true
    · simp only [hn, if_true]
      refine ⟨us, ⟨hinv.out, hinv.size, ?_, hinv.join, hinv.bytes, hinv.span, hinv.lay1, ?_, ?_⟩, hpe, ?_⟩
      · intro q t hqt; exact Or.inr (Or.inr rfl)
      · intro h; cases h
      · intro a ha
        have : layerOf s.pending = some a := ha
        rw [hpe] at this; simp [layerOf] at this
      · intro h; cases h
    · have hn' : needNew s.cur h = false := by simpa using hn
      simp only [hn', Bool.false_eq_true, if_false]
      exact ⟨us, hinv, hpe, fun _ => by simp⟩
  · have hpf : s.pending.isEmpty = false := by simpa using hp
    have hpne : s.pending ≠ [] := by intro h; rw [h] at hpf; simp at hpf
    obtain ⟨v, _, hv⟩ := flush_spec mtu hm hs s us done (needNew s.cur h) hinv hpne
    rw [if_neg hp]
    by_cases hn : needNew s.cur h = true
    · rw [if_pos hn]
      refine ⟨us ++ [v], ⟨hv.out, hv.size, hv.head, hv.join, hv.bytes, hv.span, hv.lay1, ?_, ?_⟩, rfl, ?_⟩
      · intro h'; exact absurd (show needNew s.cur h = false from h') (by simp [hn])
      · intro a ha; simp [layerOf] at ha
      · intro h'; exact absurd (show needNew s.cur h = false from h') (by simp [hn])
    · rw [if_neg hn]
      have hn' : needNew s.cur h = false := by simpa using hn
      exact ⟨us ++ [v], hv, rfl, fun _ => ⟨hn', rfl⟩⟩

theorem stepRest_spec (mtu : Nat) (s0 s1 : PSt) (us1 : List OUnit) (done : List Bytes)
    (hb : ObuHeader × Bytes) (hwf : hdrWF hb.1 = true) (h1 : PInv mtu s1 us1 done) (hp1 : s1.pending = [])
    (hcur : s1.startNew = false → needNew s0.cur hb.1 = false ∧ s1.cur = s0.cur) :
    PInv mtu (stepRest s1 hb) us1 (done ++ (if dropped hb.1 then [] else [obuBytes hb.1 hb.2])) := by
  have stage2 : PInv mtu (match hb.1.ext with | some e => { s1 with cur := some e } | none => s1) us1 done := by
    cases he : hb.1.ext with
    | none => exact h1
    | some e =>
      refine ⟨h1.out, h1.size, h1.head, h1.join, h1.bytes, h1.span, h1.lay1, ?_, ?_⟩
      · intro hsn u hu hlast a ha
        obtain ⟨c, hc, hca⟩ := h1.lay2 hsn u hu hlast a ha
        obtain ⟨hn, hc1⟩ := hcur hsn
        refine ⟨e, rfl, ?_⟩
        rw [← hca]
        exact needNew_false s0.cur hb.1 hn e c he (by rw [← hc1]; exact hc)
      · intro a ha
        have : layerOf s1.pending = some a := ha
        rw [hp1] at this; simp [layerOf] at this
  have hp2 : (match hb.1.ext with | some e => { s1 with cur := some e } | none => s1).pending = [] := by
    cases hb.1.ext <;> exact hp1
  have hcur2 : ∀ e, hb.1.ext = some e →
      (match hb.1.ext with | some e => { s1 with cur := some e } | none => s1).cur = some e := by
    intro e he; rw [he]
  unfold stepRest
  dsimp only
  generalize (match hb.1.ext with | some e => ({ s1 with cur := some e } : PSt) | none => s1) = s2 at *
  by_cases hd : dropped hb.1 = true
  · simp only [hd, if_true, List.append_nil]
    exact stage2
  · have hd' : dropped hb.1 = false := by simpa using hd
    simp only [hd', Bool.false_eq_true, if_false]
    refine ⟨stage2.out, stage2.size, stage2.head, stage2.join, ?_, stage2.span, stage2.lay1,
      stage2.lay2, ?_⟩
    · have hbts := stage2.bytes
      simp only [hp2, List.isEmpty_nil, if_true, List.append_nil] at hbts
      have hne : (obuBytes hb.1 hb.2).isEmpty = false := List.isEmpty_eq_false_iff.mpr (obuBytes_ne _ _)
      simp only [hne, Bool.false_eq_true, if_false, hbts]
    · intro a ha
      show ∃ c, s2.cur = some c ∧ layerIds c = a
      have hl : layerOf (obuBytes hb.1 hb.2) = some a := ha
      rw [layerOf_obuBytes hb.1 hb.2 hwf] at hl
      cases he : hb.1.ext with
      | none => rw [he] at hl; simp at hl
      | some e =>
        rw [he] at hl
        simp only [Option.map_some, Option.some.injEq] at hl
        exact ⟨e, hcur2 e he, hl⟩

/-- one iteration of the loop -/
theorem step_spec (mtu : Nat) (hm : 2 ≤ mtu) (hs : mtu ≤ 65535) (s : PSt) (us : List OUnit)
    (done : List Bytes) (hb : ObuHeader × Bytes) (hwf : hdrWF hb.1 = true) (hinv : PInv mtu s us done) :
    ∃ us', PInv mtu (step mtu s hb) us' (done ++ (if dropped hb.1 then [] else [obuBytes hb.1 hb.2])) := by
  obtain ⟨us1, h1, hp1, hcur⟩ := stepFlush_spec mtu hm hs s us done hb.1 hinv
  rw [step_eq]
  exact ⟨us1, stepRest_spec mtu s _ us1 done hb hwf h1 hp1 hcur⟩

end Rtp.Model.AV1
