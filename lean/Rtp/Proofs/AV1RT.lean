/-
  Rtp/Proofs/AV1RT.lean — putting the send side and the two receive sides together.
-/
import Rtp.Proofs.AV1Walk
import Rtp.Proofs.AV1PaySim
import Rtp.Proofs.AV1DepackRT
import Rtp.Proofs.AV1FramesRT
namespace Rtp.Model.AV1
open Rtp Rtp.Model Rtp.Spec.Av1Rtp
open Rtp.Model.ObuLemmas

theorem payloadPks_nil (mtu : Nat) : payloadPks mtu [] = [] := by
  simp [payloadPks, walk, finish]

/-- Payload is the encoding of the packets built, for every MTU ≥ 2 -/
theorem payload_eq (mtu : UInt16) (data : Bytes) (hm : 2 ≤ mtu.toNat) :
    AV1.payload mtu data = (payloadPks mtu.toNat data).map Pk.encode := by
  unfold AV1.payload
  have h1 : ¬ mtu.toNat ≤ 1 := by omega
  cases data with
  | nil => simp [payloadPks_nil]
  | cons a b => simp [h1]

theorem mem_le_flatMap (pre : List Bytes) (e : Bytes) (h : e ∈ pre) :
    e.length ≤ (pre.flatMap lenPrefixed).length := by
  induction pre with
  | nil => simp at h
  | cons a as ih =>
    simp only [List.mem_cons] at h
    simp only [List.flatMap_cons, List.length_append, lenPrefixed]
    rcases h with rfl | h
    · omega
    · have := ih h; omega

theorem elem_le_size (p : Pk) (e : Bytes) (h : e ∈ p.elems) : e.length ≤ p.size := by
  rw [size_eq]
  simp only [Pk.elems, List.mem_append, Option.mem_toList] at h
  rcases h with h | h
  · have := mem_le_flatMap p.pre e h; omega
  · rw [h]; simp

theorem pkGood_of_final (mtu : Nat) (hs : mtu ≤ 65535) (out : List Pk) (us : List OUnit) (done : List Bytes)
    (hf : FinalInv mtu out us done) : ∀ p ∈ out, PkGood p := by
  intro p hp
  obtain ⟨h1, h2, h3, h4⟩ := hf.inv.pk p hp
  refine ⟨h1, h2, h3, ?_, h4⟩
  intro e he
  have := elem_le_size p e he
  have := hf.size p hp
  omega

/-- a transmitted OBU of a well-formed header is passed on by the depacketizer, with this size field -/
theorem goodUnit_bare (o : Obu) (hwf : hdrWF o.hdr = true) (hk : o.kept = true) :
    goodUnit o.bare ∧ sizedOf o.bare = o.sized := by
  have hwf' : hdrWF { o.hdr with hasSize := false } = true := hwf
  have hp := parse_marshal { o.hdr with hasSize := false } hwf' o.payload
  have hsz : ({ o.hdr with hasSize := false } : ObuHeader).size = o.hdr.size := rfl
  constructor
  · refine ⟨{ o.hdr with hasSize := false }, hp, rfl, ?_, ?_⟩
    · simp only [Obu.kept, Bool.and_eq_true, bne_iff_ne] at hk; exact hk.1
    · simp only [Obu.kept, Bool.and_eq_true, bne_iff_ne] at hk; exact hk.2
  · unfold sizedOf
    rw [show o.bare = ({ o.hdr with hasSize := false } : ObuHeader).marshal ++ o.payload from rfl, hp]
    simp only [Obu.sized, List.length_append, marshal_length, hsz]
    rw [List.drop_left' (by rw [marshal_length]; rfl)]
    have : ({ type := o.hdr.type, ext := o.hdr.ext, hasSize := false, reserved1 := o.hdr.reserved1 } : ObuHeader).size = o.hdr.size := rfl
    simp

theorem okBytes_map_ok (outs : List Bytes) : Pred.C13.okBytes ((outs.map Res.ok).map Res.coarse) = some outs := by
  induction outs with
  | nil => rfl
  | cons a as ih =>
    simp only [List.map_cons, Res.coarse, Pred.C13.okBytes, ih]
    rfl

theorem depFeed_length' (st : DSt) (ps : List Bytes) : (depFeed st ps).1.length = ps.length := by
  induction ps generalizing st with
  | nil => simp [depFeed]
  | cons p ps ih => simp [depFeed, ih]

theorem obusWF_mem (obus : List Obu) (h : obusWF obus = true) : ∀ o ∈ obus, hdrWF o.hdr = true := by
  induction obus with
  | nil => simp
  | cons o os ih =>
    intro x hx
    cases os with
    | nil =>
      simp only [obusWF, Bool.and_eq_true] at h
      simp only [List.mem_singleton] at hx
      subst hx; exact h.1
    | cons o' os' =>
      simp only [obusWF, Bool.and_eq_true] at h
      simp only [List.mem_cons] at hx
      rcases hx with rfl | hx
      · exact h.1.1.1
      · exact ih h.2 x (by simpa using hx)

theorem zip_map_all {α β : Type} (l : List α) (f : α → β) (g : α × β → Bool) :
    (l.zip (l.map f)).all g = l.all (fun x => g (x, f x)) := by
  induction l with
  | nil => rfl
  | cons a as ih => simp [ih]

/-- everything known about Payload's output on a serialised well-formed OBU sequence -/
theorem payload_facts (hleb : LebGoSpec) (mtu : Nat) (hm : 2 ≤ mtu) (hs : mtu ≤ 65535) (obus : List Obu)
    (hwf : obusWF obus = true) :
    let pks := payloadPks mtu (serialise obus)
    (∀ p ∈ pks, PkGood p) ∧ zyChain false (pks.map Pk.toPacket) = true ∧
    (units (pks.map Pk.toPacket)).map (·.bytes) = normalise obus ∧
    (∀ u ∈ units (pks.map Pk.toPacket), goodUnit u.bytes) ∧
    ((units (pks.map Pk.toPacket)).map (fun u => sizedOf u.bytes)) = normaliseSized obus := by
  dsimp only
  obtain ⟨us, hf⟩ := payloadPks_spec mtu hm hs (serialise obus)
  have hgood := pkGood_of_final mtu hs _ us _ hf
  have hun := units_of_join _ us hf.join
  rw [List.reverse_reverse] at hun
  have hchain : zyChain false ((payloadPks mtu (serialise obus)).map Pk.toPacket) = true := by
    have := zyChain_of_zyRev (payloadPks mtu (serialise obus)).reverse []
    simp only [List.reverse_reverse, List.append_nil, List.map_nil, zyChain] at this
    rw [this, hf.inv.zy, hf.inv.hy]; rfl
  have hbytes : us.map (·.bytes) = normalise obus := by
    rw [hf.bytes, walk_serialise hleb obus hwf _ (Nat.le_refl _), flushedOf_map]
  have hall := obusWF_mem obus hwf
  have hnorm : ∀ b ∈ normalise obus, goodUnit b ∧ ∃ o ∈ obus, o.kept = true ∧ b = o.bare := by
    intro b hb
    simp only [normalise, List.mem_map, List.mem_filter] at hb
    obtain ⟨o, ⟨ho, hk⟩, rfl⟩ := hb
    exact ⟨(goodUnit_bare o (hall o ho) hk).1, o, ho, hk, rfl⟩
  refine ⟨fun p hp => hgood p (by simp [hp]), hchain, by rw [hun]; exact hbytes, ?_, ?_⟩
  · intro u hu
    rw [hun] at hu
    have : u.bytes ∈ normalise obus := by rw [← hbytes]; exact List.mem_map.mpr ⟨u, hu, rfl⟩
    exact (hnorm _ this).1
  · rw [hun]
    have : us.map (fun u => sizedOf u.bytes) = (us.map (·.bytes)).map sizedOf := by simp
    rw [this, hbytes]
    unfold normalise normaliseSized
    rw [List.map_map]
    apply List.map_congr_left
    intro o ho
    simp only [List.mem_filter] at ho
    exact (goodUnit_bare o (hall o ho.1) ho.2).2

/-- the predicate of kind `c13.rt` holds of the model for every MTU ≥ 2 and every well-formed OBU
    sequence -/
theorem rt_pred (hleb : LebGoSpec) (mtu : UInt16) (hm : 2 ≤ mtu.toNat) (obus : List Obu)
    (hwf : obusWF obus = true) :
    Pred.C13.rt mtu.toNat obus (rtObs mtu (serialise obus)) = true := by
  have hs : mtu.toNat ≤ 65535 := by have := mtu.toNat_lt; omega
  obtain ⟨hgood, hchain, hbytes, hunits, hsized⟩ := payload_facts hleb mtu.toNat hm hs obus hwf
  have hrules := payload_rules mtu.toNat hm hs (serialise obus)
  have hden := payload_denote mtu.toNat hm hs (serialise obus)
  rw [walk_serialise hleb obus hwf _ (Nat.le_refl _), flushedOf_map] at hden
  obtain ⟨outs, hd1, hd2⟩ := DepackRT.depFeed_encode hleb _ hgood hchain hunits
  have hfr := FramesRT.framesOf_encode hleb _ hgood hchain
  have hol : outs.length = (payloadPks mtu.toNat (serialise obus)).length := by
    have := congrArg List.length hd1
    simp only [depFeed_length', List.length_map] at this
    exact this.symm
  unfold Pred.C13.rt rtObs
  rw [AV1B.payloadB_eq, payload_eq mtu _ hm]
  simp only [Bool.not_false, Bool.true_and, Pred.C13.rtWF, hm, decide_true, hwf, Bool.and_self,
    Bool.not_true, Bool.false_or, hrules, hden, BEq.rfl, List.length_map, hfr, hbytes,
    hd1, okBytes_map_ok, Option.map_some, hd2, hsized, zip_map_all]
  simp only [hol, BEq.rfl, Bool.and_true, List.all_eq_true]
  intro x hx
  obtain ⟨p, hp, rfl⟩ := List.mem_map.mp hx
  simp only [Pred.C13.viewMatches, parsePacket_encode p (hgood p hp).shape,
    FramesRT.viewOf_encode hleb p (hgood p hp), Pk.toPacket]
  simp

end Rtp.Model.AV1
