/-
  Rtp/Proofs/AV1Width.lean — `obu_size` fields that are not minimally encoded (AV1 spec 4.10.5) in the
  input of AV1Payloader: the scanner of Payload consumes the number of bytes ReadLeb128 reports, so
  the width of a size field makes no difference to what is found.
-/
import Rtp.Proofs.AV1Walk
import Rtp.Proofs.Leb128Go
namespace Rtp.Model.AV1
open Rtp Rtp.Model Rtp.Spec.Av1Rtp
open Rtp.Model.ObuLemmas

theorem padLeb_length (n w : Nat) : (padLeb n w).length = w := by
  induction w using Nat.strongRecOn generalizing n with
  | _ w ih =>
    match w with
    | 0 => rfl
    | 1 => rfl
    | w + 2 => simp only [padLeb, List.length_cons, ih (w + 1) (by omega)]

/-- a padded field of `w ≥ 1` bytes that holds `n` reads back (by the specification of LEB128) as
    `n`, `w` bytes consumed, whatever follows -/
theorem readLebSpec_padLeb (w n : Nat) (hw : 0 < w) (hn : n < 128 ^ w) (rest : Bytes) :
    readLebSpec (padLeb n w ++ rest) = some (n, w) := by
  induction w using Nat.strongRecOn generalizing n with
  | _ w ih =>
    match w, hw with
    | 1, _ =>
      have hn' : n < 128 := by simpa using hn
      have h1 : (n % 128).toUInt8.toNat = n := by
        simp [Nat.toUInt8, UInt8.toNat_ofNat']; omega
      simp [padLeb, readLebSpec, h1, hn']
    | w + 2, _ =>
      have h1 : (n % 128 + 128).toUInt8.toNat = n % 128 + 128 := by
        simp [Nat.toUInt8, UInt8.toNat_ofNat']; omega
      have hd : n / 128 < 128 ^ (w + 1) := by
        rw [Nat.div_lt_iff_lt_mul (by decide)]; rw [Nat.pow_succ] at hn; exact hn
      have := ih (w + 1) (by omega) (n / 128) (by omega) hd
      simp only [padLeb, List.cons_append, readLebSpec, h1, this]
      have h2 : ¬ (n % 128 + 128 < 128) := by omega
      simp only [h2, if_false]
      congr 2
      omega

/-- ReadLeb128 (64-bit accumulator) on a size field of any allowed width: the value, and the width as
    the number of bytes read -/
theorem readLebGo_sizeField (n w : Nat) (hn : n < 2 ^ 56) (hw : widthOK n w = true) (rest : Bytes) :
    readLebGo (sizeField n w ++ rest) = some (n.toUInt64, (sizeField n w).length) := by
  unfold sizeField
  by_cases h0 : w = 0
  · simp only [h0, if_true]
    exact readLebGo_writeLeb n rest hn
  · simp only [widthOK, Bool.or_eq_true, beq_iff_eq, Bool.and_eq_true, decide_eq_true_eq] at hw
    rcases hw with hw | ⟨hw8, hfit⟩
    · exact absurd hw h0
    · simp only [h0, if_false, padLeb_length]
      exact readLebGo_eq_spec _ n w (readLebSpec_padLeb w n (by omega) hfit rest) hw8

theorem wireW_length_pos (o : Obu) (w : Nat) : 1 ≤ (o.wireW w).length := by
  have := size_pos o.hdr
  simp [Obu.wireW, marshal_length]; omega

theorem serialiseW_cons (ow : Obu × Nat) (os : List (Obu × Nat)) :
    serialiseW (ow :: os) = ow.1.wireW ow.2 ++ serialiseW os := by simp [serialiseW]

/-- scanning a serialisation with size fields of any allowed widths gives back the OBUs -/
theorem walk_serialiseW (ows : List (Obu × Nat)) (hwf : obusWF (ows.map (·.1)) = true)
    (hww : widthsOK ows = true) (fuel : Nat) (hf : (serialiseW ows).length ≤ fuel) :
    walk fuel (serialiseW ows) = ows.map (fun ow => (ow.1.hdr, ow.1.payload)) := by
  induction ows generalizing fuel with
  | nil => cases fuel <;> simp [serialiseW, walk, parseObuHeader]
  | cons ow os ih =>
    obtain ⟨o, w⟩ := ow
    have hwl := wireW_length_pos o w
    rw [serialiseW_cons] at hf ⊢
    simp only [List.length_append] at hf
    simp only [widthsOK, List.all_cons, Bool.and_eq_true] at hww
    obtain ⟨hw, hwrest⟩ := hww
    match fuel, hf with
    | 0, hf => omega
    | f + 1, hf =>
      have hhdr : hdrWF o.hdr = true ∧ o.payload.length < 2 ^ 56 ∧ (os ≠ [] → o.hdr.hasSize = true) ∧
          obusWF (os.map (·.1)) = true := by
        cases os with
        | nil =>
          simp only [List.map_cons, List.map_nil, obusWF, Bool.and_eq_true, decide_eq_true_eq] at hwf
          exact ⟨hwf.1, hwf.2, fun h => absurd rfl h, rfl⟩
        | cons o' os' =>
          simp only [List.map_cons, obusWF, Bool.and_eq_true, decide_eq_true_eq] at hwf
          exact ⟨hwf.1.1.1, hwf.1.2, fun _ => hwf.1.1.2, hwf.2⟩
      obtain ⟨hh, hsmall, hsz, hrest⟩ := hhdr
      have hparse : parseObuHeader (o.wireW w ++ serialiseW os) = .ok o.hdr := by
        simp only [Obu.wireW, List.append_assoc]
        exact parse_marshal o.hdr hh _
      have hdrop : (o.wireW w ++ serialiseW os).drop o.hdr.size =
          (if o.hdr.hasSize then sizeField o.payload.length w else []) ++ o.payload ++ serialiseW os := by
        simp only [Obu.wireW, List.append_assoc]
        rw [List.drop_left' (marshal_length o.hdr)]
      unfold walk
      rw [hparse]
      dsimp only
      rw [hdrop]
      by_cases hs : o.hdr.hasSize = true
      · simp only [hs, if_true, List.append_assoc]
        rw [readLebGo_sizeField o.payload.length w hsmall hw]
        dsimp only
        rw [List.drop_left' rfl, toUInt64_toNat_small _ hsmall]
        have hle : ¬ o.payload.length > (o.payload ++ serialiseW os).length := by simp
        rw [if_neg hle, List.take_left' rfl, List.drop_left' rfl]
        rw [ih hrest (by simpa [widthsOK] using hwrest) f (by
          have : (o.wireW w).length =
              o.hdr.size + (sizeField o.payload.length w).length + o.payload.length := by
            simp [Obu.wireW, hs, marshal_length]; omega
          omega)]
        simp
      · have hs' : o.hdr.hasSize = false := by simpa using hs
        have hos : os = [] := by
          cases os with
          | nil => rfl
          | cons a b => exact absurd (hsz (by simp)) hs
        subst hos
        simp [hs', serialiseW, Obu.wireW]

/-- AV1Payloader.Payload does not depend on the widths of the `obu_size` fields of its input -/
theorem payload_serialiseW (mtu : UInt16) (ows : List (Obu × Nat))
    (hwf : obusWF (ows.map (·.1)) = true) (hww : widthsOK ows = true) :
    AV1.payload mtu (serialiseW ows) = AV1.payload mtu (serialise (ows.map (·.1))) := by
  have he : (serialiseW ows).isEmpty = (serialise (ows.map (·.1))).isEmpty := by
    cases ows with
    | nil => rfl
    | cons ow os =>
      have h1 := wireW_length_pos ow.1 ow.2
      have h2 := wire_length_pos ow.1
      have e1 : (serialiseW (ow :: os)).isEmpty = false := by
        rw [serialiseW_cons]
        cases h : ow.1.wireW ow.2 with
        | nil => rw [h] at h1; simp at h1
        | cons a b => rfl
      have e2 : (serialise ((ow :: os).map (·.1))).isEmpty = false := by
        have : serialise ((ow :: os).map (·.1)) = ow.1.wire ++ serialise (os.map (·.1)) := by
          simp [serialise]
        rw [this]
        cases h : ow.1.wire with
        | nil => rw [h] at h2; simp at h2
        | cons a b => rfl
      rw [e1, e2]
  unfold AV1.payload payloadPks
  rw [he, walk_serialiseW ows hwf hww _ (Nat.le_refl _),
    walk_serialise readLebGo_writeLeb _ hwf _ (Nat.le_refl _)]
  simp [List.map_map, Function.comp_def]

end Rtp.Model.AV1
