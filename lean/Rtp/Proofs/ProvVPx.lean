/-
  Rtp/Proofs/ProvVPx.lean — the provenance-level VP8/VP9 payloaders (Rtp/Model/ProvVPx.lean).
  Structural fact: every fragment is `alloc input (the value-level fragment)` (`…_eq`); hence
  forgetting origins gives Model/VP8.lean / Model/VP9.lean (fragments and picture-id state), and
  every fragment has the origin of the allocation (`fresh` for `make`).
-/
import Rtp.Model.ProvVPx
import Rtp.Proofs.Prov
namespace Rtp.Proofs.ProvVPx
open Rtp Rtp.Model Rtp.Model.Prov Rtp.Model.ProvVPx Rtp.Proofs.Prov

/-- every slice of the list has origin `o` -/
def AllFrom (o : Origin) (l : List PBytes) : Prop := ∀ x ∈ l, x.origin = o

theorem allFrom_fresh {l : List PBytes} (h : AllFrom .fresh l) : AllOwned l := h

theorem forgetAll_map_mk (mk : Bytes → PBytes) (hm : ∀ c, (mk c).bytes = c) (l : List Bytes) :
    forgetAll (l.map mk) = l := by
  induction l with
  | nil => rfl
  | cons a l ih => simp only [List.map_cons, forgetAll_cons, hm, ih]

theorem allFrom_map_mk (mk : Bytes → PBytes) (o : Origin) (hm : ∀ c, (mk c).origin = o) (l : List Bytes) :
    AllFrom o (l.map mk) := by
  intro x hx
  simp only [List.mem_map] at hx
  obtain ⟨_, _, rfl⟩ := hx
  exact hm _

/-! ### structure: each fragment is the allocation of the value-level fragment -/

theorem pVp9NonFlexLoop_eq (mk : Bytes → PBytes) (pid : UInt16)
    (mtu : Nat) (nonKey : Bool) (w h : UInt16) (fuel : Nat) (first : Bool) (rem : PBytes) :
    pVp9NonFlexLoop mk pid mtu nonKey w h fuel first rem =
      (vp9NonFlexLoop pid mtu nonKey w h fuel first rem.bytes).map (List.map mk) := by
  induction fuel generalizing first rem with
  | zero => rfl
  | succ fuel ih =>
    rw [pVp9NonFlexLoop, vp9NonFlexLoop]
    by_cases h1 : rem.bytes.isEmpty = true
    · rw [if_pos h1, if_pos h1]; rfl
    · rw [if_neg h1, if_neg h1]
      dsimp only
      generalize (!nonKey && first) = withSS
      generalize (if withSS = true then 11 else 3) = hs
      by_cases h2 : mtu ≤ hs
      · rw [if_pos h2, if_pos h2]; rfl
      · rw [if_neg h2, if_neg h2, ih, bytes_drop, bytes_take]
        cases vp9NonFlexLoop pid mtu nonKey w h fuel false
          (rem.bytes.drop (min (mtu - hs) rem.bytes.length)) with
        | none => rfl
        | some rest => rfl

theorem pVpxChunksAux_eq (k fuel : Nat) (l : PBytes) :
    pVpxChunksAux k fuel l = (vpxChunksAux k fuel l.bytes).map (fun b => ⟨b, l.origin⟩) := by
  induction fuel generalizing l with
  | zero => rfl
  | succ fuel ih =>
    rw [pVpxChunksAux, vpxChunksAux]
    by_cases h1 : l.bytes.isEmpty = true
    · rw [if_pos h1, if_pos h1]; rfl
    · rw [if_neg h1, if_neg h1, ih]; rfl

theorem forget_pVpxChunks (k : Nat) (l : PBytes) :
    forgetAll (pVpxChunks k l) = vpxChunks k l.bytes := by
  simp [pVpxChunks, vpxChunks, pVpxChunksAux_eq, forgetAll, Function.comp_def]

theorem pVp8Frags_eq (mk : Bytes → PBytes) (st : VP8Pay) (cs : List PBytes) :
    pVp8Frags mk st cs = (vp8Frags st (forgetAll cs)).map mk := by
  cases cs with
  | nil => rfl
  | cons c cs => simp [pVp8Frags, vp8Frags, forgetAll, Function.comp_def]

theorem pVp8PayloadG_eq (alloc : Alloc) (st : VP8Pay)
    (mtu : UInt16) (i : Nat) (payload : Option Bytes) :
    pVp8PayloadG alloc st mtu i payload =
      ((vp8Payload st mtu payload).1.map (alloc (PBytes.ofInput i (payload.getD []))), (vp8Payload st mtu payload).2) := by
  unfold pVp8PayloadG vp8Payload
  dsimp only
  by_cases h1 : (decide (mtu.toNat ≤ vp8HdrSize st) || (payload.getD []).isEmpty) = true
  · have h1' : (decide (mtu.toNat ≤ vp8HdrSize st) ||
        (PBytes.ofInput i (payload.getD [])).bytes.isEmpty) = true := h1
    rw [if_pos h1, if_pos h1']; rfl
  · have h1' : ¬ (decide (mtu.toNat ≤ vp8HdrSize st) ||
        (PBytes.ofInput i (payload.getD [])).bytes.isEmpty) = true := h1
    rw [if_neg h1, if_neg h1', pVp8Frags_eq, forget_pVpxChunks]; rfl

theorem pVp9FlexFrags_eq (mk : Bytes → PBytes) (pid : UInt16) (first : Bool) (cs : List PBytes) :
    pVp9FlexFrags mk pid first cs = (vp9FlexFrags pid first (forgetAll cs)).map mk := by
  induction cs generalizing first with
  | nil => rfl
  | cons c cs ih =>
    have he : (forgetAll cs).isEmpty = cs.isEmpty := by cases cs <;> rfl
    simp only [pVp9FlexFrags, vp9FlexFrags, forgetAll_cons, ih, he, List.map_cons]

theorem pVp9PayloadFlexible_eq (mk : Bytes → PBytes) (pid : UInt16) (mtu : Nat) (p : PBytes) :
    pVp9PayloadFlexible mk pid mtu p = (vp9PayloadFlexible pid mtu p.bytes).map mk := by
  unfold pVp9PayloadFlexible vp9PayloadFlexible
  by_cases h1 : (decide (mtu ≤ 3) || p.bytes.isEmpty) = true
  · rw [if_pos h1, if_pos h1]; rfl
  · rw [if_neg h1, if_neg h1, pVp9FlexFrags_eq, forget_pVpxChunks]

theorem pVp9PayloadNonFlexible_eq (mk : Bytes → PBytes) (pid : UInt16) (mtu : Nat) (p : PBytes) :
    pVp9PayloadNonFlexible mk pid mtu p = (vp9PayloadNonFlexible pid mtu p.bytes).map mk := by
  unfold pVp9PayloadNonFlexible vp9PayloadNonFlexible
  cases vp9HeaderUnmarshal p.bytes with
  | ok hd =>
    simp only [pVp9NonFlexLoop_eq]
    cases vp9NonFlexLoop _ _ _ _ _ _ _ _ <;> rfl
  | err e => rfl
  | panic => rfl

theorem pVp9PayloadG_eq (alloc : Alloc) (st : VP9Pay) (mtu : UInt16) (i : Nat) (payload : Option Bytes) :
    pVp9PayloadG alloc st mtu i payload =
      ((vp9Payload st mtu payload).1.map (alloc (PBytes.ofInput i (payload.getD []))), (vp9Payload st mtu payload).2) := by
  unfold pVp9PayloadG vp9Payload
  dsimp only
  generalize (if st.initialized = true then st
    else { st with pictureID := st.init &&& 0x7FFF, initialized := true }) = st'
  refine Prod.ext ?_ rfl
  dsimp only
  by_cases h1 : st'.flexible = true
  · rw [if_pos h1, if_pos h1, pVp9PayloadFlexible_eq]; rfl
  · rw [if_neg h1, if_neg h1, pVp9PayloadNonFlexible_eq]; rfl

/-! ### projection, origin of the fragments -/

theorem forget_pVp8PayloadG (alloc : Alloc) (ha : ∀ p c, (alloc p c).bytes = c) (st : VP8Pay)
    (mtu : UInt16) (i : Nat) (payload : Option Bytes) :
    (forgetAll (pVp8PayloadG alloc st mtu i payload).1, (pVp8PayloadG alloc st mtu i payload).2) =
      vp8Payload st mtu payload := by
  rw [pVp8PayloadG_eq, forgetAll_map_mk _ (ha _)]

theorem from_pVp8PayloadG (alloc : Alloc) (o : Origin) (st : VP8Pay) (mtu : UInt16) (i : Nat)
    (payload : Option Bytes) (ha : ∀ c, (alloc (PBytes.ofInput i (payload.getD [])) c).origin = o) :
    AllFrom o (pVp8PayloadG alloc st mtu i payload).1 := by
  rw [pVp8PayloadG_eq]
  exact allFrom_map_mk _ o ha _

theorem forget_pVp8HistG (alloc : Alloc) (ha : ∀ p c, (alloc p c).bytes = c) (st : VP8Pay) (i : Nat)
    (calls : List (UInt16 × Option Bytes)) :
    (pVp8HistG alloc st i calls).map forgetAll = vp8PayloadHist st calls := by
  induction calls generalizing st i with
  | nil => rfl
  | cons c cs ih =>
    obtain ⟨m, inp⟩ := c
    have h1 := forget_pVp8PayloadG alloc ha st m i inp
    simp only [Prod.ext_iff] at h1
    simp only [pVp8HistG, vp8PayloadHist, List.map_cons, ih, h1.1, h1.2]

theorem owned_pVp8HistG (alloc : Alloc) (ha : ∀ p c, (alloc p c).origin = .fresh) (st : VP8Pay)
    (i : Nat) (calls : List (UInt16 × Option Bytes)) :
    ∀ o ∈ pVp8HistG alloc st i calls, AllOwned o := by
  induction calls generalizing st i with
  | nil => simp [pVp8HistG]
  | cons c cs ih =>
    obtain ⟨m, inp⟩ := c
    simp only [pVp8HistG, List.mem_cons, forall_eq_or_imp]
    exact ⟨from_pVp8PayloadG alloc .fresh st m i inp (fun _ => ha _ _), ih _ _⟩

theorem forget_pVp9PayloadG (alloc : Alloc) (ha : ∀ p c, (alloc p c).bytes = c) (st : VP9Pay)
    (mtu : UInt16) (i : Nat) (payload : Option Bytes) :
    (forgetAll (pVp9PayloadG alloc st mtu i payload).1, (pVp9PayloadG alloc st mtu i payload).2) =
      vp9Payload st mtu payload := by
  rw [pVp9PayloadG_eq, forgetAll_map_mk _ (ha _)]

theorem from_pVp9PayloadG (alloc : Alloc) (o : Origin) (st : VP9Pay) (mtu : UInt16) (i : Nat)
    (payload : Option Bytes) (ha : ∀ c, (alloc (PBytes.ofInput i (payload.getD [])) c).origin = o) :
    AllFrom o (pVp9PayloadG alloc st mtu i payload).1 := by
  rw [pVp9PayloadG_eq]
  exact allFrom_map_mk _ o ha _

theorem forget_pVp9HistG (alloc : Alloc) (ha : ∀ p c, (alloc p c).bytes = c) (st : VP9Pay) (i : Nat)
    (calls : List (UInt16 × Option Bytes)) :
    (pVp9HistG alloc st i calls).map forgetAll = vp9PayloadHist st calls := by
  induction calls generalizing st i with
  | nil => rfl
  | cons c cs ih =>
    obtain ⟨m, inp⟩ := c
    have h1 := forget_pVp9PayloadG alloc ha st m i inp
    simp only [Prod.ext_iff] at h1
    simp only [pVp9HistG, vp9PayloadHist, List.map_cons, ih, h1.1, h1.2]

theorem owned_pVp9HistG (alloc : Alloc) (ha : ∀ p c, (alloc p c).origin = .fresh) (st : VP9Pay)
    (i : Nat) (calls : List (UInt16 × Option Bytes)) :
    ∀ o ∈ pVp9HistG alloc st i calls, AllOwned o := by
  induction calls generalizing st i with
  | nil => simp [pVp9HistG]
  | cons c cs ih =>
    obtain ⟨m, inp⟩ := c
    simp only [pVp9HistG, List.mem_cons, forall_eq_or_imp]
    exact ⟨from_pVp9PayloadG alloc .fresh st m i inp (fun _ => ha _ _), ih _ _⟩

/-! ### the two allocations -/

theorem bytes_allocMake (p : PBytes) (c : Bytes) : (allocMake p c).bytes = c := rfl
theorem origin_allocMake (p : PBytes) (c : Bytes) : (allocMake p c).origin = .fresh := rfl
theorem bytes_allocInSpare (p : PBytes) (c : Bytes) : (allocInSpare p c).bytes = c := by
  simp [allocInSpare]
theorem origin_allocInSpare (p : PBytes) (c : Bytes) : (allocInSpare p c).origin = p.origin := rfl

end Rtp.Proofs.ProvVPx
