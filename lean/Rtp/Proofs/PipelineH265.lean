/-
  Rtp/Proofs/PipelineH265.lean — the H265 half of the end-to-end composition, for streams WITHOUT
  DONL (with AddDONL the payloader's FU output is the known finding `c14_donl_fu`): C08 (fragments
  ≤ MTU), C14 `c14_shape_nodonl` (the fragments are RFC 7798 packets that reassemble to the units)
  and `c14_decoder_spec` (H265Packet decodes each to its description).
-/
import Rtp.Proofs.PipelineCodecs
import Rtp.Props.C14
import Rtp.Props.C08_H265
namespace Rtp.Proofs.Pipeline
open Rtp Rtp.Model Rtp.Model.Pipeline Rtp.Pred.Pipeline Rtp.Model.H265 Rtp.Spec.Rfc7798 Rtp.Pred

/-- domain: the frame is the Annex-B rendering of a well-formed list of HEVC NAL units -/
def h265Inv : UInt16 → Bytes → Prop := fun _ frame =>
  ∃ fr : List (Nat × Bytes), C14.frameWF fr = true ∧ frame = C14.frameBytes fr

theorem h265_fits (cfg : H265.Cfg) (B : UInt16) : PayFits (h265Pay cfg) B h265Inv := by
  intro d frame h
  obtain ⟨fr, hwf, rfl⟩ := h
  exact ⟨frameBytes_ne_nil fr hwf, (Rtp.Props.C08.H265.c08_h265_call cfg B d _).1⟩

/-- what the receiver holds after one frame: the RTP payloads, all ACCEPTED by `H265Packet`, are a
    list of RFC 7798 packets (single / aggregation / ≥ 2 fragmentation units, `shapeOk`) that
    `H265Packet` decodes to exactly their descriptions and that reassemble (`depack`) to the frame's
    units in order -/
def H265Received (units : List Bytes) (o : FrameObs) : Prop :=
  ∃ descs : List Spec.Rfc7798.Packet,
    o.outs = descs.map (fun p => Res.ok (encode p)) ∧
    (∀ p ∈ descs, p.WF false = true ∧ shapeOk false p = true ∧
      decode false (some (encode p)) = .ok { pkt := p, tsci := p.tsci, sizesOk := true }) ∧
    depack none descs = some units

/-- `H265Packet.Unmarshal` accepts whatever `decode` decodes -/
theorem unmarshal_ok_of_decode (donl : Bool) (p : Option Bytes) (v : Parsed) (h : decode donl p = .ok v) :
    ∃ k, unmarshal donl p = .ok k := by
  simp only [decode] at h
  cases hu : unmarshal donl p with
  | ok k => exact ⟨k, rfl⟩
  | err e => rw [hu] at h; cases h
  | panic => rw [hu] at h; cases h

theorem depackAll_h265 (descs : List Spec.Rfc7798.Packet)
    (h : ∀ p ∈ descs, ∃ v, decode false (some (encode p)) = .ok v) :
    (depackAll (h265Depack false) () (descs.map encode)).1 = descs.map (fun p => Res.ok (encode p)) := by
  induction descs with
  | nil => rfl
  | cons p ps ih =>
    obtain ⟨v, hv⟩ := h p (by simp)
    obtain ⟨k, hk⟩ := unmarshal_ok_of_decode false _ v hv
    simp only [List.map_cons, depackAll, h265Depack, hk, Res.map]
    rw [ih (fun q hq => h q (by simp [hq]))]

theorem h265_received (skip : Bool) (B d : UInt16) (hB : 4 ≤ B.toNat) (fr : List (Nat × Bytes))
    (hwf : C14.frameWF fr = true) (pkts : List PktObs) :
    H265Received (fr.map (·.2))
      (idealObs (h265Depack false) () pkts (h265Pay ⟨false, skip⟩ d B (C14.frameBytes fr)).1) := by
  obtain ⟨descs, h1, h2, h3⟩ := Rtp.Props.C14.c14_shape_nodonl skip B d fr hwf hB
  have hdec : ∀ p ∈ descs, decode false (some (encode p)) = .ok { pkt := p, tsci := p.tsci, sizesOk := true } :=
    fun p hp => (Rtp.Props.C14.c14_decoder_spec false p (h2 p hp).1).1
  refine ⟨descs, ?_, fun p hp => ⟨(h2 p hp).1, (h2 p hp).2, hdec p hp⟩, h3⟩
  show (depackAll (h265Depack false) () (payload ⟨false, skip⟩ B d (some (C14.frameBytes fr))).1).1 = _
  rw [h1]
  exact depackAll_h265 descs (fun p hp => ⟨_, hdec p hp⟩)

theorem all_ok_of_received (units : List Bytes) (o : FrameObs) (h : H265Received units o) :
    o.outs.all Res.isOk = true := by
  obtain ⟨descs, h1, _, _⟩ := h
  rw [h1]
  simp [List.all_map, Res.isOk]

/-- the executable form of `H265Received` (what the driver evaluates) -/
theorem frameOk_of_received (units : List Bytes) (o : FrameObs) (h : H265Received units o) :
    h265FrameOk units o = true := by
  obtain ⟨descs, h1, h2, h3⟩ := h
  have hd : h265DecodeAll o.outs = some descs := by
    rw [h1]
    clear h1 h3
    induction descs with
    | nil => rfl
    | cons p ps ih =>
      simp only [List.map_cons, h265DecodeAll, (h2 p (by simp)).2.2, if_true]
      rw [ih (fun q hq => h2 q (by simp [hq]))]
      rfl
  simp only [h265FrameOk, hd, h3, beq_self_eq_true, Bool.and_true, List.all_eq_true]
  exact fun p hp => (h2 p hp).2.1

theorem h265_payOk (cfg : H265.Cfg) (B : UInt16) (frames : List H265Frame)
    (hw : ∀ fr ∈ frames, C14.frameWF fr.units = true) (d : UInt16) :
    PayOk (h265Pay cfg) B h265Inv d (frames.map H265Frame.frameIn) := by
  refine payOk_of (h265Pay cfg) B h265Inv (fun _ => True) (fun fr => h265Inv 0 fr) (fun _ _ _ h => h)
    (fun _ _ _ _ => trivial) _ d trivial ?_
  intro f hf
  obtain ⟨fr, hfr, rfl⟩ := List.mem_map.mp hf
  exact ⟨fr.units, hw fr hfr, rfl⟩

end Rtp.Proofs.Pipeline
