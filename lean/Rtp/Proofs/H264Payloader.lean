/-
  Rtp/Proofs/H264Payloader.lean — the payloader model, unit by unit, IS the RFC 6184 encoder of
  Spec/Rfc6184.lean applied to an explicit packetisation plan (towards c10_shape / c10_roundtrip).
-/
import Rtp.Proofs.H264Decoder
import Rtp.Proofs.H264Split
namespace Rtp.Proofs.H264
open Rtp Rtp.Model Rtp.Model.H264 Rtp.Spec.Rfc6184

/-! ### chunks of at most `k` bytes -/

def chunks (k : Nat) (l : Bytes) : List Bytes :=
  if h : l.length = 0 ∨ k = 0 then [] else l.take k :: chunks k (l.drop k)
termination_by l.length
decreasing_by simp [List.length_drop]; omega

theorem chunks_flatten (k : Nat) (hk : 0 < k) (l : Bytes) : (chunks k l).flatten = l := by
  fun_induction chunks k l with
  | case1 l h =>
    rcases h with h | h
    · simp [List.length_eq_zero_iff.mp h]
    · omega
  | case2 l h ih => simp [ih]

theorem chunks_eq_nil (k : Nat) (l : Bytes) (h : l.length = 0) : chunks k l = [] := by
  rw [chunks]; simp [h]

theorem chunks_ne_nil (k : Nat) (hk : 0 < k) (l : Bytes) (h : 0 < l.length) : chunks k l ≠ [] := by
  rw [chunks]; rw [dif_neg (by omega)]; simp

theorem chunks_length_ge_two (k : Nat) (hk : 0 < k) (l : Bytes) (h : k < l.length) :
    2 ≤ (chunks k l).length := by
  rw [chunks, dif_neg (by omega)]
  have : chunks k (l.drop k) ≠ [] := chunks_ne_nil k hk _ (by simp [List.length_drop]; omega)
  have := List.length_pos_iff.mpr this
  simp; omega

/-! ### the FU-A loop is `encFu` of the chunks -/

theorem encFu_cons_cons (ind : UInt8) (typ : Nat) (first : Bool) (c : Bytes) (cs : List Bytes)
    (h : cs ≠ []) :
    encFu ind typ first (c :: cs) = (ind :: fuHdr first false typ :: c) :: encFu ind typ false cs := by
  cases cs with
  | nil => exact absurd rfl h
  | cons c2 cs2 => simp [encFu]

theorem fuaLoop_eq (k : Nat) (hk : 0 < k) (ind typ : UInt8) (typ' : Nat)
    (hS : typ ||| 0x80 = fuHdr true false typ') (hE : typ ||| 0x40 = fuHdr false true typ')
    (hM : typ = fuHdr false false typ') (first : Bool) (rem : Bytes)
    (hfirst : first = true → k < rem.length) :
    fuaLoop k ind typ first rem = encFu ind typ' first (chunks k rem) := by
  fun_induction fuaLoop k ind typ first rem with
  | case1 first rem h =>
    rcases h with h | h
    · simp [chunks_eq_nil k rem h, encFu]
    · omega
  | case2 first rem h hdr ih =>
    have hpos : 0 < rem.length := by omega
    rw [chunks, dif_neg h]
    by_cases hlast : rem.length ≤ k
    · have hf : first = false := by
        cases first with
        | false => rfl
        | true => have := hfirst rfl; omega
      subst hf
      have hd : (rem.drop k).length = 0 := by simp [List.length_drop]; omega
      have e1 : fuaLoop k ind typ false (rem.drop k) = [] := by rw [fuaLoop]; simp [hd]
      rw [e1, chunks_eq_nil k _ hd]
      simp [encFu, hdr, hlast, hE]
    · have hd : 0 < (rem.drop k).length := by simp [List.length_drop]; omega
      rw [encFu_cons_cons _ _ _ _ _ (chunks_ne_nil k hk _ hd), ih (by simp)]
      congr 2
      cases first with
      | true => simp [hdr, hS]
      | false => simp [hdr, hlast, hM]

theorem fu_bytes (h : UInt8) (hF0 : hF h = 0) :
    fuaNALUType ||| (h &&& naluRefIdcBitmask) = mkHdr (hF h) (hNri h) 28 ∧
    (h &&& naluTypeBitmask) ||| 0x80 = fuHdr true false (hType h) ∧
    (h &&& naluTypeBitmask) ||| 0x40 = fuHdr false true (hType h) ∧
    (h &&& naluTypeBitmask) = fuHdr false false (hType h) := by
  revert h
  apply Rtp.Bits.forall_u8; decide +kernel

/-! ### one unit -/

/-- how the payloader sends one unit at a given MTU -/
def itemOf (mtu : Nat) (n : Bytes) : Item :=
  match n with
  | [] => .single []
  | h :: body => if n.length ≤ mtu then .single n else .fuA h (chunks (mtu - 2) body)

/-- the part of `nalWF` the payloader proofs use -/
def unitOk (n : Bytes) : Prop :=
  ∃ h body, n = h :: body ∧ 1 ≤ hType h ∧ hType h ≤ 23 ∧ hF h = 0 ∧ 1 ≤ body.length

theorem unitOk_of_wf (n : Bytes) (h : nalWF n = true) : unitOk n := by
  cases n with
  | nil => simp [nalWF] at h
  | cons a t =>
    simp only [nalWF, Bool.and_eq_true, decide_eq_true_eq] at h
    refine ⟨a, t, rfl, h.1.1.1.1.1, h.1.1.1.1.2, h.1.1.1.2, ?_⟩
    have := h.1.1.2
    simp at this; omega

theorem singleOrFua_eq (mtu : Nat) (hm : 3 ≤ mtu) (n : Bytes) (hn : unitOk n) :
    singleOrFua mtu n = (itemOf mtu n).encode := by
  obtain ⟨h, body, rfl, _, _, hF0, hb⟩ := hn
  simp only [singleOrFua, itemOf]
  split
  · rfl
  · rename_i hlen
    simp only [List.length_cons] at hlen
    have hmin : ¬ min ((mtu : Int) - 2) (body.length : Int) ≤ 0 := by omega
    rw [if_neg hmin]
    have hk : ((mtu : Int) - 2).toNat = mtu - 2 := by omega
    obtain ⟨e1, e2, e3, e4⟩ := fu_bytes h hF0
    rw [hk, e1, Item.encode]
    exact fuaLoop_eq (mtu - 2) (by omega) _ _ (hType h) e2 e3 e4 true body (by intro _; omega)

theorem itemOf_wf (mtu : Nat) (hm : 3 ≤ mtu) (n : Bytes) (hn : unitOk n) :
    (itemOf mtu n).wf = true ∧ Rtp.Pred.C10.headsApply (itemOf mtu n) = true ∧
    (itemOf mtu n).nals = [n] := by
  obtain ⟨h, body, rfl, h1, h2, hF0, hb⟩ := hn
  simp only [itemOf]
  split
  · simp [Item.wf, typeOf, Rtp.Pred.C10.headsApply, Item.nals, h1, h2]; omega
  · rename_i hlen
    simp only [List.length_cons] at hlen
    have := chunks_length_ge_two (mtu - 2) (by omega) body (by omega)
    simp [Item.wf, Rtp.Pred.C10.headsApply, Item.nals, hF0, this, chunks_flatten (mtu - 2) (by omega)]

/-! ### the fragment train of ANY unit (no hypothesis on type, F bit or content) -/

theorem fu_bytes_any : ∀ h : UInt8,
    fuaNALUType ||| (h &&& naluRefIdcBitmask) = mkHdr 0 (hNri h) 28 ∧
    (h &&& naluTypeBitmask) ||| 0x80 = fuHdr true false (hType h) ∧
    (h &&& naluTypeBitmask) ||| 0x40 = fuHdr false true (hType h) ∧
    (h &&& naluTypeBitmask) = fuHdr false false (hType h) := by
  apply Rtp.Bits.forall_u8; decide +kernel

/-- whatever the unit and the MTU: nothing, the unit itself, or at least two FU-A fragments of
    `mtu - 2` payload bytes (the last possibly shorter) with the unit's NRI in the indicator, its
    type in the header, S on the first only and E on the last only (that is `encFu`) -/
theorem singleOrFua_cases (mtu : Nat) (h : UInt8) (body : Bytes) :
    singleOrFua mtu (h :: body) = [] ∧ mtu ≤ 2 ∧ mtu < (h :: body).length
    ∨ singleOrFua mtu (h :: body) = [h :: body] ∧ (h :: body).length ≤ mtu
    ∨ singleOrFua mtu (h :: body) = encFu (mkHdr 0 (hNri h) 28) (hType h) true (chunks (mtu - 2) body) ∧
        2 ≤ (chunks (mtu - 2) body).length ∧ 3 ≤ mtu ∧ mtu < (h :: body).length := by
  simp only [singleOrFua]
  by_cases hfit : (h :: body).length ≤ mtu
  · right; left
    exact ⟨by rw [if_pos hfit], hfit⟩
  · rw [if_neg hfit]
    simp only [List.length_cons] at hfit ⊢
    by_cases hsmall : mtu ≤ 2
    · left
      have : min ((mtu : Int) - 2) (body.length : Int) ≤ 0 := by omega
      exact ⟨by rw [if_pos this], hsmall, by omega⟩
    · right; right
      have hmin : ¬ min ((mtu : Int) - 2) (body.length : Int) ≤ 0 := by omega
      rw [if_neg hmin]
      have hk : ((mtu : Int) - 2).toNat = mtu - 2 := by omega
      obtain ⟨e1, e2, e3, e4⟩ := fu_bytes_any h
      rw [hk, e1]
      exact ⟨fuaLoop_eq (mtu - 2) (by omega) _ _ (hType h) e2 e3 e4 true body (by intro _; omega),
        chunks_length_ge_two (mtu - 2) (by omega) body (by omega), by omega, by omega⟩

end Rtp.Proofs.H264
