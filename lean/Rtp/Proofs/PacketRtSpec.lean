/-
  Rtp/Proofs/PacketRtSpec.lean — the bytes Marshal writes are the arithmetic wire image of
  Rtp/Spec/CoreaWire.lean (bit packing and byte order restated with *, +, /, %).
-/
import Rtp.Proofs.PacketRtPacket
import Rtp.Spec.CoreaWire
namespace Rtp.Proofs.PacketRt
open Rtp Rtp.Model
open Rtp.Spec.CoreaWire (octets net16 net32 pad4 elem1 elem2)


theorem byte0_arith_table : ∀ v : Fin 4, ∀ c : Fin 16, ∀ p x : Bool,
    (byte0 (UInt8.ofNat v.val) c.val p x).toNat = v.val * 64 + Spec.CoreaWire.b2n p * 32 + Spec.CoreaWire.b2n x * 16 + c.val := by
  decide +kernel

theorem byte0_arith (v : UInt8) (cc : Nat) (p x : Bool) (hv : v.toNat < 4) (hc : cc ≤ 15) :
    (byte0 v cc p x).toNat = v.toNat * 64 + Spec.CoreaWire.b2n p * 32 + Spec.CoreaWire.b2n x * 16 + cc := by
  have := byte0_arith_table ⟨v.toNat, hv⟩ ⟨cc, by omega⟩ p x
  simpa using this

theorem byte1_arith_table : ∀ pt : Fin 128, ∀ m : Bool,
    (byte1 (UInt8.ofNat pt.val) m).toNat = Spec.CoreaWire.b2n m * 128 + pt.val := by
  decide +kernel

theorem byte1_arith (pt : UInt8) (m : Bool) (hpt : pt.toNat < 128) :
    (byte1 pt m).toNat = Spec.CoreaWire.b2n m * 128 + pt.toNat := by
  have := byte1_arith_table ⟨pt.toNat, hpt⟩ m
  simpa using this

/-- network byte order, arithmetically -/
theorem be16_arith (x : UInt16) : (be16 x).map (·.toNat) = [x.toNat / 256, x.toNat % 256] := by
  have := x.toNat_lt
  simp only [be16, List.map_cons, List.map_nil, UInt16.toNat_toUInt8, UInt16.toNat_shiftRight,
    UInt16.toNat_ofNat, Nat.shiftRight_eq_div_pow]
  simp only [Nat.reducePow, Nat.reduceMod] at *
  congr 1
  omega

theorem be32_arith (x : UInt32) : (be32 x).map (·.toNat) =
    [x.toNat / 2 ^ 24, x.toNat / 2 ^ 16 % 256, x.toNat / 2 ^ 8 % 256, x.toNat % 256] := by
  have := x.toNat_lt
  simp only [be32, List.map_cons, List.map_nil, UInt32.toNat_toUInt8, UInt32.toNat_shiftRight,
    UInt32.toNat_ofNat, Nat.shiftRight_eq_div_pow]
  simp only [Nat.reducePow, Nat.reduceMod] at *
  congr 1
  omega

theorem oneByteHdr_arith_table : ∀ id : Fin 15, ∀ len : Fin 17, 1 ≤ len.val →
    (oneByteHdr (UInt8.ofNat id.val) len.val).toNat = id.val * 16 + (len.val - 1) := by
  decide +kernel


theorem oneByteHdr_arith (id : UInt8) (len : Nat) (h2 : id.toNat ≤ 14) (h3 : 1 ≤ len) (h4 : len ≤ 16) :
    (oneByteHdr id len).toNat = id.toNat * 16 + (len - 1) := by
  have := oneByteHdr_arith_table ⟨id.toNat, by omega⟩ ⟨len, by omega⟩ h3
  simpa using this

theorem octets_append (a b : Bytes) : octets (a ++ b) = octets a ++ octets b := by simp [octets]

theorem octets_rep (k : Nat) : octets (rep k 0) = List.replicate k 0 := by
  simp [octets, rep]

theorem round4_eq_pad4 (n : Nat) : round4 n = n + pad4 n := by unfold round4 pad4; omega

theorem csrc_octets (cs : List UInt32) :
    octets (cs.map be32).flatten = cs.flatMap (fun c => net32 c.toNat) := by
  induction cs with
  | nil => rfl
  | cons c cs ih =>
    simp only [List.map_cons, List.flatten_cons, octets_append, ih, List.flatMap_cons]
    congr 1
    exact be32_arith c

theorem fixed_octets (h : Header) (hv : h.version.toNat < 4) (hpt : h.payloadType.toNat < 128)
    (hc : h.csrc.length ≤ 15) :
    octets (fixedBytes h) =
      [h.version.toNat * 64 + Spec.CoreaWire.b2n h.padding * 32 + Spec.CoreaWire.b2n h.extension * 16 + h.csrc.length,
       Spec.CoreaWire.b2n h.marker * 128 + h.payloadType.toNat] ++
      net16 h.seq.toNat ++ net32 h.ts.toNat ++ net32 h.ssrc.toNat ++ h.csrc.flatMap (fun c => net32 c.toNat) := by
  rw [fixedBytes_eq]
  have e16 := be16_arith h.seq
  have e1 := be32_arith h.ts
  have e2 := be32_arith h.ssrc
  simp only [octets] at *
  simp only [List.map_cons, List.map_append, byte0_arith _ _ _ _ hv hc, byte1_arith _ _ hpt, e16, e1, e2,
    net16, net32]
  have := csrc_octets h.csrc
  simp only [octets] at this
  rw [this]
  simp [net32]

theorem oneByteBody_octets (es : List Ext) (hes : ∀ e ∈ es, oneByteLegal e) :
    octets (es.map fun e => (oneByteHdr e.id e.payload.length :: e.payload)).flatten = es.flatMap elem1 := by
  induction es with
  | nil => rfl
  | cons e es ih =>
    obtain ⟨_, h2, h3, h4⟩ := hes e (by simp)
    simp only [List.map_cons, List.flatten_cons, octets_append, List.flatMap_cons,
      ih (fun e' h' => hes e' (by simp [h']))]
    congr 1
    simp only [octets, List.map_cons, elem1, oneByteHdr_arith e.id _ h2 h3 h4]

theorem twoByteBody_octets (es : List Ext) (hes : ∀ e ∈ es, twoByteLegal e) :
    octets (es.map fun e => (e.id :: e.payload.length.toUInt8 :: e.payload)).flatten = es.flatMap elem2 := by
  induction es with
  | nil => rfl
  | cons e es ih =>
    obtain ⟨_, h2⟩ := hes e (by simp)
    simp only [List.map_cons, List.flatten_cons, octets_append, List.flatMap_cons,
      ih (fun e' h' => hes e' (by simp [h']))]
    congr 1
    simp only [octets, List.map_cons, elem2, lenByte_roundtrip _ h2]

theorem profile_eq_iff (x c : UInt16) : ((x == c) = true) ↔ x.toNat = c.toNat := by
  rw [beq_iff_eq]; exact UInt16.toNat_inj.symm

theorem profileOne_iff (x : UInt16) : ((x == profileOneByte) = true) ↔ x.toNat = 0xBEDE :=
  profile_eq_iff x profileOneByte
theorem profileTwo_iff (x : UInt16) : ((x == profileTwoByte) = true) ↔ x.toNat = 0x1000 :=
  profile_eq_iff x profileTwoByte

open Rtp.Pred.C01 in
/-- the element bytes of a well-formed header are the spec's extension data -/
theorem body_octets (h : Header) (hwf : wfH h = true) (hx : h.extension = true) :
    octets (wireBody h) = Spec.CoreaWire.extData h := by
  have hb := extBodyBytes_wire h hwf hx
  simp only [wfH, extsLegal, hx, Bool.not_true, Bool.false_eq_true, if_false, Bool.and_eq_true,
    decide_eq_true_eq] at hwf
  obtain ⟨⟨⟨_, _⟩, hl⟩, _⟩ := hwf
  unfold extBodyBytes at hb
  unfold Spec.CoreaWire.extData
  by_cases h1 : (h.extProfile == profileOneByte) = true
  · rw [if_pos h1] at hb hl
    rw [if_pos ((profileOne_iff _).mp h1)]
    injection hb with hb
    rw [← hb]
    apply oneByteBody_octets
    intro e he
    have := List.all_eq_true.mp hl e he
    simp only [Bool.and_eq_true, decide_eq_true_eq] at this
    exact ⟨this.1.1.1, this.1.1.2, this.1.2, this.2⟩
  · rw [if_neg h1] at hb hl
    rw [if_neg (fun hh => h1 ((profileOne_iff _).mpr hh))]
    by_cases h2 : (h.extProfile == profileTwoByte) = true
    · rw [if_pos h2] at hb hl
      rw [if_pos ((profileTwo_iff _).mp h2)]
      injection hb with hb
      rw [← hb]
      apply twoByteBody_octets
      intro e he
      have := List.all_eq_true.mp hl e he
      simp only [Bool.and_eq_true, decide_eq_true_eq] at this
      exact ⟨this.1, this.2⟩
    · rw [if_neg h2] at hb hl
      rw [if_neg (fun hh => h2 ((profileTwo_iff _).mpr hh))]
      split at hl
      · next e heq =>
        simp only [Bool.and_eq_true, beq_iff_eq] at hl
        rw [heq] at hb ⊢
        have h4 : (e.payload.length % 4 != 0) = false := by simp [hl.2]
        simp only [h4, Bool.false_eq_true, if_false] at hb
        injection hb with hb
        rw [← hb]
      · cases hl

theorem octets_length (b : Bytes) : (octets b).length = b.length := by simp [octets]

/-- the serialised header of a well-formed header is the spec's header image -/
theorem header_octets (h : Header) (hwf : Pred.C01.wfH h = true) :
    octets (hdrWire h) = Spec.CoreaWire.header h := by
  have hwf' := hwf
  simp only [Pred.C01.wfH, Bool.and_eq_true, decide_eq_true_eq] at hwf'
  obtain ⟨⟨⟨⟨hv, hpt⟩, hc⟩, _⟩, hsz⟩ := hwf'
  unfold hdrWire hdrBytes Spec.CoreaWire.header
  rw [octets_append, fixed_octets h hv hpt hc]
  congr 1
  cases hx : h.extension
  · simp [octets]
  · simp only [if_true]
    have hbo := body_octets h hwf hx
    have hbl := extBody_length h _ (extBodyBytes_wire h hwf hx)
    have hdl : (Spec.CoreaWire.extData h).length = (wireBody h).length := by rw [← hbo, octets_length]
    have hr := round4_eq_pad4 (wireBody h).length
    have hw : (round4 (wireBody h).length / 4).toUInt16.toNat = round4 (wireBody h).length / 4 := by
      simp only [Nat.toUInt16, UInt16.toNat_ofNat']
      have := round4_lt (wireBody h).length
      apply Nat.mod_eq_of_lt; omega
    have e16p := be16_arith h.extProfile
    have e16w := be16_arith (round4 (wireBody h).length / 4).toUInt16
    simp only [octets] at e16p e16w hbo
    simp only [extPart, octets, List.map_append, e16p, e16w, hw, hbo, Spec.CoreaWire.extBlock, hdl, net16]
    have hz : List.map (fun x : UInt8 => x.toNat) (rep (round4 (wireBody h).length - (wireBody h).length) 0)
        = List.replicate (pad4 (wireBody h).length) 0 := by
      simp only [rep, List.map_replicate]
      congr 1
      omega
    rw [hz, hr]
    simp

/-- the serialised packet is the spec's packet image -/
theorem packet_octets (p : Packet) (hwf : Pred.C01.wfP p = true) :
    octets (pktWire p) = Spec.CoreaWire.packet p := by
  obtain ⟨hh, hp⟩ := (wfP_iff p).1 hwf
  unfold pktWire Spec.CoreaWire.packet
  rw [octets_append, octets_append, header_octets _ hh, List.append_assoc]
  congr 2
  unfold padBytes
  cases hpad : p.header.padding
  · simp [octets]
  · simp [octets, rep]

end Rtp.Proofs.PacketRt
