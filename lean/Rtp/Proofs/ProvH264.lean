/-
  Rtp/Proofs/ProvH264.lean — the provenance-level H264 payloader and depacketizer
  (Rtp/Model/ProvH264.lean): forgetting origins gives Model/H264.lean, and everything handed out or
  retained is `fresh` when the retention step copies.
-/
import Rtp.Model.ProvH264
import Rtp.Proofs.Prov
namespace Rtp.Proofs.ProvH264
open Rtp Rtp.Model Rtp.Model.Prov Rtp.Model.H264 Rtp.Proofs.Prov

/-- `flatMap` commutes with forgetting -/
theorem forgetAll_flatMap (l : List PBytes) (f : PBytes → List PBytes) (g : Bytes → List Bytes)
    (h : ∀ x, forgetAll (f x) = g x.bytes) :
    forgetAll (l.flatMap f) = (forgetAll l).flatMap g := by
  induction l with
  | nil => rfl
  | cons a t ih => simp [List.flatMap_cons, ih, h]

theorem allOwned_flatMap (l : List PBytes) (f : PBytes → List PBytes) (h : ∀ x, AllOwned (f x)) :
    AllOwned (l.flatMap f) := by
  induction l with
  | nil => simp
  | cons a t ih => simp [List.flatMap_cons, ih, h]

/-! ### payloader: fragments -/

theorem forget_pFuaLoop (k : Nat) (ind typ : UInt8) (first : Bool) (rem : PBytes) :
    forgetAll (pFuaLoop k ind typ first rem) = fuaLoop k ind typ first rem.bytes := by
  fun_induction pFuaLoop k ind typ first rem with
  | case1 first rem h => rw [fuaLoop, dif_pos h]; rfl
  | case2 first rem h hdr ih => rw [fuaLoop, dif_neg h]; simp [ih, hdr]

theorem owned_pFuaLoop (k : Nat) (ind typ : UInt8) (first : Bool) (rem : PBytes) :
    AllOwned (pFuaLoop k ind typ first rem) := by
  fun_induction pFuaLoop k ind typ first rem with
  | case1 => simp
  | case2 first rem h hdr ih => simp [ih]

theorem forget_pSingleOrFua (mtu : Nat) (nalu : PBytes) :
    forgetAll (pSingleOrFua mtu nalu) = singleOrFua mtu nalu.bytes := by
  unfold pSingleOrFua singleOrFua
  split
  · rename_i h; simp [h]
  · rename_i b body h
    simp only [h]
    split
    · simp [h]
    · split
      · rfl
      · simp [forget_pFuaLoop, h]

theorem owned_pSingleOrFua (mtu : Nat) (nalu : PBytes) : AllOwned (pSingleOrFua mtu nalu) := by
  unfold pSingleOrFua
  dsimp only
  repeat' split
  all_goals simp [owned_pFuaLoop]

theorem forget_pStepNoStap (mtu : Nat) (nalu : PBytes) :
    forgetAll (pStepNoStap mtu nalu) = stepNoStap mtu nalu.bytes := by
  unfold pStepNoStap stepNoStap
  split
  · rename_i h; simp [h]
  · rename_i b body h
    simp only [h]
    split
    · rfl
    · rw [forget_pSingleOrFua, h]

theorem owned_pStepNoStap (mtu : Nat) (nalu : PBytes) : AllOwned (pStepNoStap mtu nalu) := by
  unfold pStepNoStap
  dsimp only
  repeat' split
  all_goals simp [owned_pSingleOrFua]

theorem forget_pPayloadNoStap (mtu : Nat) (x : PBytes) :
    forgetAll (pPayloadNoStap mtu x) = payloadNoStap mtu x.bytes := by
  unfold pPayloadNoStap payloadNoStap
  split
  · rfl
  · rw [forgetAll_flatMap _ _ _ (forget_pStepNoStap mtu), forgetAll_pEmitNalus]

theorem owned_pPayloadNoStap (mtu : Nat) (x : PBytes) : AllOwned (pPayloadNoStap mtu x) := by
  unfold pPayloadNoStap
  split
  · simp
  · exact allOwned_flatMap _ _ (owned_pStepNoStap mtu)

theorem bytes_pStapA (s p : PBytes) : (pStapA s p).bytes = stapA s.bytes p.bytes := by
  simp [pStapA, stapA]

/-! ### payloader: one emitted slice -/

/-- projection of `pStepG`, for any retention step that keeps the contents -/
theorem forget_pStepG (keep : PBytes → PBytes) (hk : ∀ x, (keep x).bytes = x.bytes)
    (disable : Bool) (mtu : Nat) (st : PPayState) (nalu : PBytes) :
    forgetAll (pStepG keep disable mtu st nalu).1 = (step disable mtu st.forget nalu.bytes).1 ∧
    (pStepG keep disable mtu st nalu).2.forget = (step disable mtu st.forget nalu.bytes).2 := by
  unfold pStepG step
  split
  · rename_i h; simp [h]
  · rename_i b body h
    simp only [h]
    split
    · simp
    · split
      · split
        · simp [PPayState.forget, hk, h]
        · simp [forget_pSingleOrFua, h]
      · split
        · split
          · simp [PPayState.forget, hk, h]
          · simp [forget_pSingleOrFua, h]
        · rcases st with ⟨_ | s, _ | p⟩ <;> cases disable <;>
            simp [PPayState.forget, forget_pSingleOrFua, h]
          simp only [bytes_pStapA]
          split <;> simp [forget_pPayloadNoStap, bytes_pStapA]

/-- every fragment is a new array, whatever the state and the retention step -/
theorem owned_out_pStepG (keep : PBytes → PBytes) (disable : Bool) (mtu : Nat) (st : PPayState)
    (nalu : PBytes) : AllOwned (pStepG keep disable mtu st nalu).1 := by
  unfold pStepG
  dsimp only
  repeat' split
  all_goals simp [owned_pSingleOrFua, owned_pPayloadNoStap]

/-- the retained slices stay owned when the retention step allocates -/
theorem owned_state_pStepG (keep : PBytes → PBytes) (hk : ∀ x, (keep x).origin = .fresh)
    (disable : Bool) (mtu : Nat) (st : PPayState) (nalu : PBytes) (hs : st.Owned) :
    (pStepG keep disable mtu st nalu).2.Owned := by
  unfold pStepG
  dsimp only
  repeat' split
  all_goals first
    | exact hs
    | exact ⟨by simp [hk], hs.2⟩
    | exact ⟨hs.1, by simp [hk]⟩
    | simp [PPayState.Owned]

/-! ### payloader: a call, a history -/

theorem forget_pStepsG (keep : PBytes → PBytes) (hk : ∀ x, (keep x).bytes = x.bytes)
    (disable : Bool) (mtu : Nat) (st : PPayState) (ns : List PBytes) :
    forgetAll (pStepsG keep disable mtu st ns).1 = (steps disable mtu st.forget (forgetAll ns)).1 ∧
    (pStepsG keep disable mtu st ns).2.forget = (steps disable mtu st.forget (forgetAll ns)).2 := by
  induction ns generalizing st with
  | nil => simp [pStepsG, steps]
  | cons n ns ih =>
    have h1 := forget_pStepG keep hk disable mtu st n
    have h2 := ih (pStepG keep disable mtu st n).2
    simp only [pStepsG, steps, forgetAll_cons, forgetAll_append]
    rw [h1.1, h2.1, h2.2, h1.2]
    exact ⟨rfl, rfl⟩

theorem owned_pStepsG (keep : PBytes → PBytes) (disable : Bool) (mtu : Nat) (st : PPayState)
    (ns : List PBytes) :
    AllOwned (pStepsG keep disable mtu st ns).1 ∧
    ((∀ x, (keep x).origin = .fresh) → st.Owned → (pStepsG keep disable mtu st ns).2.Owned) := by
  induction ns generalizing st with
  | nil => simp [pStepsG]
  | cons n ns ih =>
    have h2 := ih (pStepG keep disable mtu st n).2
    simp only [pStepsG, allOwned_append]
    exact ⟨⟨owned_out_pStepG keep disable mtu st n, h2.1⟩,
           fun hk hs => h2.2 hk (owned_state_pStepG keep hk disable mtu st n hs)⟩

theorem forget_pPayloadG (keep : PBytes → PBytes) (hk : ∀ x, (keep x).bytes = x.bytes)
    (disable : Bool) (mtu : UInt16) (st : PPayState) (i : Nat) (input : Bytes) :
    forgetAll (pPayloadG keep disable mtu st i input).1 = (payload disable mtu st.forget input).1 ∧
    (pPayloadG keep disable mtu st i input).2.forget = (payload disable mtu st.forget input).2 := by
  unfold pPayloadG payload
  split
  · simp
  · have := forget_pStepsG keep hk disable mtu.toNat st (pEmitNalus (PBytes.ofInput i input))
    rw [forgetAll_pEmitNalus] at this
    exact this

theorem owned_pPayloadG (keep : PBytes → PBytes) (disable : Bool) (mtu : UInt16) (st : PPayState)
    (i : Nat) (input : Bytes) :
    AllOwned (pPayloadG keep disable mtu st i input).1 ∧
    ((∀ x, (keep x).origin = .fresh) → st.Owned → (pPayloadG keep disable mtu st i input).2.Owned) := by
  unfold pPayloadG
  split
  · simp
  · exact owned_pStepsG ..

/-- forgetting the origins of a whole history gives the value-level history -/
theorem forget_pPayloadRunG (keep : PBytes → PBytes) (hk : ∀ x, (keep x).bytes = x.bytes)
    (st : PPayState) (i : Nat) (calls : List (Bool × UInt16 × Bytes)) :
    (pPayloadRunG keep st i calls).1.map forgetAll = payloadHist st.forget calls := by
  induction calls generalizing st i with
  | nil => rfl
  | cons c cs ih =>
    obtain ⟨d, m, inp⟩ := c
    have h1 := forget_pPayloadG keep hk d m st i inp
    simp only [pPayloadRunG, payloadHist, List.map_cons]
    rw [ih, h1.1, h1.2]

theorem owned_pPayloadRunG (keep : PBytes → PBytes) (hk : ∀ x, (keep x).origin = .fresh)
    (st : PPayState) (i : Nat) (calls : List (Bool × UInt16 × Bytes)) (hs : st.Owned) :
    (∀ o ∈ (pPayloadRunG keep st i calls).1, AllOwned o) ∧ (pPayloadRunG keep st i calls).2.Owned := by
  induction calls generalizing st i with
  | nil => simp [pPayloadRunG, hs]
  | cons c cs ih =>
    obtain ⟨d, m, inp⟩ := c
    have h1 := owned_pPayloadG keep d m st i inp
    have h2 := ih (pPayloadG keep d m st i inp).2 (i + 1) (h1.2 hk hs)
    simp only [pPayloadRunG, List.mem_cons, forall_eq_or_imp]
    exact ⟨⟨h1.1, h2.1⟩, h2.2⟩

/-! ### depacketizer -/

theorem bytes_pPackage (avc : Bool) (buf nalu : PBytes) :
    (pPackage avc buf nalu).bytes = buf.bytes ++ package avc nalu.bytes := by
  unfold pPackage package
  split <;> simp

theorem origin_pPackage (avc : Bool) (buf nalu : PBytes) :
    (pPackage avc buf nalu).origin = buf.origin := by
  unfold pPackage
  split <;> simp

/-- the accumulating loop computes `result ++` what the value-level loop computes, in `result`'s array -/
theorem pStapLoop_spec (avc : Bool) (result rest : PBytes) :
    (pStapLoop avc result rest).map PBytes.bytes =
      (stapLoop avc rest.bytes).map (result.bytes ++ ·) ∧
    ∀ r, pStapLoop avc result rest = .ok r → r.origin = result.origin := by
  fun_induction pStapLoop avc result rest with
  | case1 result rest a b tl h n hlt =>
    rw [h, stapLoop]
    simp [hlt, n, Res.map]
  | case2 result rest a b tl h n hlt ih =>
    rw [h, stapLoop]
    have hd : (rest.drop (2 + n)).bytes = tl.drop n := by
      simp [h, show 2 + n = n + 2 by omega]
    have ht : ((rest.drop 2).take n).bytes = tl.take n := by simp [h]
    rw [hd] at ih
    simp only [n] at hlt
    simp only [hlt, if_false]
    refine ⟨?_, fun r hr => (ih.2 r hr).trans (origin_pPackage ..)⟩
    rw [ih.1]
    cases stapLoop avc (List.drop n tl) <;> simp [Res.map, bytes_pPackage, h, n]
  | case3 result rest hne =>
    have : stapLoop avc rest.bytes = .ok [] := by
      rw [stapLoop]
      exact hne
    rw [this]
    simp [Res.map]

/-- forget the origins of an `Unmarshal` result -/
def forgetRes (r : Res PBytes × PBytes) : Res Bytes × Bytes := (r.1.map PBytes.bytes, r.2.bytes)

theorem forget_pUnmarshalG (store : PBytes → PBytes → PBytes)
    (hs : ∀ buf x, (store buf x).bytes = buf.bytes ++ x.bytes)
    (avc : Bool) (buf : PBytes) (i : Nat) (payload : Bytes) :
    forgetRes (pUnmarshalG store avc buf i payload) = unmarshal avc buf.bytes payload := by
  unfold pUnmarshalG unmarshal forgetRes
  split
  · rfl
  · rename_i b0 rest
    simp only []
    split
    · simp [Res.map, bytes_pPackage]
    · split
      · have := (pStapLoop_spec avc (PBytes.make []) ((PBytes.ofInput i (b0 :: rest)).drop 1)).1
        simp only [bytes_drop, bytes_ofInput, List.drop_succ_cons, List.drop_zero, bytes_make,
          List.nil_append] at this
        rw [this]
        cases stapLoop avc rest <;> simp [Res.map]
      · split
        · split
          · rfl
          · rename_i b1 body
            by_cases hE : (b1 &&& fuEndBitmask != 0) = true <;>
              by_cases hS : (b1 &&& fuStartBitmask != 0) = true <;>
              simp [hE, hS, Res.map, bytes_pPackage, hs]
        · rfl

/-- what `Unmarshal` hands out is a new array, and the FU-A buffer stays owned when `store` appends
    to the buffer it has -/
theorem owned_pUnmarshalG (store : PBytes → PBytes → PBytes) (avc : Bool) (buf : PBytes) (i : Nat)
    (payload : Bytes) :
    (∀ r, (pUnmarshalG store avc buf i payload).1 = .ok r → r.origin = .fresh) ∧
    ((∀ b x, (store b x).origin = b.origin) → buf.origin = .fresh →
      (pUnmarshalG store avc buf i payload).2.origin = .fresh) := by
  unfold pUnmarshalG
  split
  · simp
  · rename_i b0 rest
    simp only []
    split
    · refine ⟨?_, fun _ h => h⟩
      intro r hr; cases hr; simp [origin_pPackage]
    · split
      · refine ⟨?_, fun _ h => h⟩
        intro r hr
        exact (pStapLoop_spec avc _ _).2 r hr
      · split
        · split
          · simp
          · split
            · refine ⟨?_, fun _ _ => rfl⟩
              intro r hr; cases hr; simp [origin_pPackage]
            · refine ⟨?_, ?_⟩
              · intro r hr; cases hr; rfl
              · intro hst hb
                simp only [hst]
                split <;> simp [hb]
        · simp

theorem forget_pRunG (store : PBytes → PBytes → PBytes)
    (hs : ∀ buf x, (store buf x).bytes = buf.bytes ++ x.bytes)
    (avc : Bool) (buf : PBytes) (i : Nat) (ps : List Bytes) :
    ((pRunG store avc buf i ps).1.map (·.map PBytes.bytes), (pRunG store avc buf i ps).2.bytes) =
      run avc buf.bytes ps := by
  induction ps generalizing buf i with
  | nil => rfl
  | cons p ps ih =>
    have h1 := forget_pUnmarshalG store hs avc buf i p
    have h2 := ih (pUnmarshalG store avc buf i p).2 (i + 1)
    simp only [forgetRes] at h1
    simp only [pRunG, run, List.map_cons]
    rw [← h1, ← h2]

theorem owned_pRunG (store : PBytes → PBytes → PBytes) (hst : ∀ b x, (store b x).origin = b.origin)
    (avc : Bool) (buf : PBytes) (i : Nat) (ps : List Bytes) (hb : buf.origin = .fresh) :
    (∀ res ∈ (pRunG store avc buf i ps).1, ∀ r, res = .ok r → r.origin = .fresh) ∧
    (pRunG store avc buf i ps).2.origin = .fresh := by
  induction ps generalizing buf i with
  | nil => simp [pRunG, hb]
  | cons p ps ih =>
    have h1 := owned_pUnmarshalG store avc buf i p
    have h2 := ih (pUnmarshalG store avc buf i p).2 (i + 1) (h1.2 hst hb)
    simp only [pRunG, List.mem_cons, forall_eq_or_imp]
    exact ⟨⟨h1.1, h2.1⟩, h2.2⟩

end Rtp.Proofs.ProvH264
